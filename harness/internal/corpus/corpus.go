// Package corpus extracts, at check time, the anko scripts that exist in the
// repository under test: every `Script:` string literal of vm/*_test.go (via
// go/parser), _example/scripts/*.ank and core/testdata/*.ank.
package corpus

import (
	"go/ast"
	"go/parser"
	"go/token"
	"os"
	"path/filepath"
	"sort"
	"strconv"
	"sync"
)

var (
	once    sync.Once
	scripts []string
)

func repoDir() string {
	if r := os.Getenv("VERIF_REPO"); r != "" {
		return r
	}
	return "/repo"
}

// Scripts returns the de-duplicated, sorted corpus (deterministic order).
func Scripts() []string {
	once.Do(load)
	return scripts
}

func load() {
	seen := map[string]bool{}
	add := func(s string) {
		if s != "" && !seen[s] {
			seen[s] = true
			scripts = append(scripts, s)
		}
	}
	root := repoDir()
	files, _ := filepath.Glob(filepath.Join(root, "vm", "*_test.go"))
	more, _ := filepath.Glob(filepath.Join(root, "*_test.go"))
	files = append(files, more...)
	fset := token.NewFileSet()
	for _, f := range files {
		af, err := parser.ParseFile(fset, f, nil, 0)
		if err != nil {
			continue
		}
		ast.Inspect(af, func(n ast.Node) bool {
			kv, ok := n.(*ast.KeyValueExpr)
			if !ok {
				return true
			}
			id, ok := kv.Key.(*ast.Ident)
			if !ok || (id.Name != "Script" && id.Name != "script") {
				return true
			}
			if lit, ok := kv.Value.(*ast.BasicLit); ok && lit.Kind == token.STRING {
				if s, err := strconv.Unquote(lit.Value); err == nil {
					add(s)
				}
			}
			return true
		})
	}
	for _, pat := range []string{"_example/scripts/*.ank", "core/testdata/*.ank", "misc/*/*.ank"} {
		fs, _ := filepath.Glob(filepath.Join(root, pat))
		for _, f := range fs {
			if b, err := os.ReadFile(f); err == nil {
				add(string(b))
			}
		}
	}
	sort.Strings(scripts)
}
