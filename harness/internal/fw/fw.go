// Package fw holds the record formats shared by the orchestrator (cmd/vcheck)
// and the workers (cmd/vworker, cmd/c13sched). It imports nothing of anko.
package fw

import (
	"encoding/json"
	"hash/fnv"
	"os"
	"regexp"
	"strings"
)

// Phase describes one homogeneous part of a check: a number of PRNG-determined
// cases executed by worker processes of one build flavour.
type Phase struct {
	Name      string `json:"name"`
	Race      bool   `json:"race"`       // worker built with -race
	Cases     int    `json:"cases"`      // number of cases for the tier
	Chunk     int    `json:"chunk"`      // cases per worker process
	Jobs      int    `json:"jobs"`       // max concurrent workers (0 = default)
	TimeoutS  int    `json:"timeout_s"`  // wall-clock watchdog per chunk (inconclusive when it fires)
	MemMB     int    `json:"mem_mb"`     // RLIMIT_AS for the worker (0 = none; ignored for race builds)
	Exhaust   bool   `json:"exhaustive"` // the phase enumerates a finite space completely
	NeedsAnko bool   `json:"needs_anko"` // orchestrator builds the anko CLI and passes VERIF_ANKO_BIN
	Builder   string `json:"builder"`    // "" = the regular worker; "c13sched" = worker built against a rewritten scratch copy of the repo
}

// Plan is what `vworker -plan` prints.
type Plan struct {
	Property    string   `json:"property"`
	Level       string   `json:"level"`
	Rule        string   `json:"rule"`
	Assumptions []string `json:"assumptions"`
	Phases      []Phase  `json:"phases"`
	// CrashIsViolation: a worker death (panic / fatal error escaping) while a
	// case is in flight refutes this property itself. When false the death is
	// still reported, as a violation with signature prefix "worker-crash".
	CrashIsViolation bool `json:"crash_is_violation"`
}

// Rec is one line of a worker's result file.
type Rec struct {
	T      string          `json:"t"` // viol | excl | inconc | sample | ckpt | done
	Phase  string          `json:"phase,omitempty"`
	Case   int             `json:"case"`
	Sig    string          `json:"sig,omitempty"`
	Detail string          `json:"detail,omitempty"`
	Input  json.RawMessage `json:"input,omitempty"`
	Sample json.RawMessage `json:"sample,omitempty"`

	// ckpt/done: counters accumulated since the previous ckpt of this process
	Evals      int            `json:"evals,omitempty"`
	Nontrivial int            `json:"nontrivial,omitempty"`
	Events     int            `json:"events,omitempty"`
	Tags       map[string]int `json:"tags,omitempty"`
	Hashes     []uint64       `json:"hashes,omitempty"` // distinct non-trivial case hashes seen since last ckpt
	Extra      map[string]int `json:"extra,omitempty"`  // named monitor-side counters
}

// Cur is the content of the "in flight" file a worker overwrites before each case.
type Cur struct {
	Phase string          `json:"phase"`
	Case  int             `json:"case"`
	Sub   int             `json:"sub"`
	Input json.RawMessage `json:"input,omitempty"`
}

// Replay is the witness file named in a VIOLATION line.
type Replay struct {
	Property string          `json:"property"`
	Tier     string          `json:"tier"`
	Seed     int64           `json:"seed"`
	Phase    string          `json:"phase"`
	Case     int             `json:"case"`
	Sig      string          `json:"sig"`
	Detail   string          `json:"detail"`
	Input    json.RawMessage `json:"input,omitempty"`
	Stderr   string          `json:"stderr,omitempty"`
}

// Finding is one entry of /verif/known_findings.json.
type Finding struct {
	Property string `json:"property"`
	Status   string `json:"status"` // "known" or "fixed"
	Sig      string `json:"sig"`    // exact signature, or a regexp when enclosed in slashes
	What     string `json:"what"`   // the failing input / call site / history
	Commit   string `json:"commit,omitempty"`
	Line     string `json:"line,omitempty"` // for fixed entries: "fixed: property=<id> <commit> <what failed>"
}

type FindingsFile struct {
	Findings []Finding `json:"findings"`
}

func LoadFindings(path string) ([]Finding, error) {
	b, err := os.ReadFile(path)
	if err != nil {
		if os.IsNotExist(err) {
			return nil, nil
		}
		return nil, err
	}
	var f FindingsFile
	if err := json.Unmarshal(b, &f); err != nil {
		return nil, err
	}
	return f.Findings, nil
}

// MatchKnown returns the listed *known* (not fixed) finding that covers sig.
func MatchKnown(fs []Finding, prop, sig string) *Finding {
	for i := range fs {
		f := &fs[i]
		if f.Property != prop || f.Status != "known" {
			continue
		}
		if f.Sig == sig {
			return f
		}
		if len(f.Sig) > 2 && strings.HasPrefix(f.Sig, "/") && strings.HasSuffix(f.Sig, "/") {
			if re, err := regexp.Compile("^(?:" + f.Sig[1:len(f.Sig)-1] + ")$"); err == nil && re.MatchString(sig) {
				return f
			}
		}
	}
	return nil
}

// Hash64 hashes a string (FNV-1a).
func Hash64(s string) uint64 {
	h := fnv.New64a()
	h.Write([]byte(s))
	return h.Sum64()
}

// CaseSeed derives the PRNG seed of one case from (seed, property, phase, index).
func CaseSeed(seed int64, prop, phase string, idx int) int64 {
	h := fnv.New64a()
	var b [8]byte
	for i := 0; i < 8; i++ {
		b[i] = byte(seed >> (8 * i))
	}
	h.Write(b[:])
	h.Write([]byte(prop))
	h.Write([]byte{0})
	h.Write([]byte(phase))
	h.Write([]byte{0})
	for i := 0; i < 8; i++ {
		b[i] = byte(uint64(idx) >> (8 * i))
	}
	h.Write(b[:])
	return int64(h.Sum64() & 0x7fffffffffffffff)
}
