// Package refmodel is an independent reference interpreter of the program IR,
// written from the property statements C04/C07/C08/C09 (lexical block scope,
// exactly-once left-to-right evaluation, structured control flow, error
// propagation to the nearest try, per-invocation LIFO defers). It produces the
// trace a program must produce; behaviour the statements leave open is
// selected by variant Flags (the oracle accepts any variant), behaviour that is
// a listed known finding by finding flags (off in every admissible variant).
// Anything the statements do not determine raises Unspec and the case is
// excluded rather than judged.
package refmodel

import (
	"fmt"
	"sort"
	"strconv"
	"strings"

	"verifharness/internal/gen"
)

// Flags selects one admissible reading of what the statements leave open.
type Flags struct {
	LoopPerIter      bool // loop body gets a fresh scope per iteration (else one per loop)
	TrySeparate      bool // try / catch / finally blocks are three sibling scopes (else one shared)
	FinallyOnAbrupt  bool // finally also runs when try body or catch block is left abruptly (return/break/continue/error)
	DeferErrLast     bool // of several failing deferred calls the last one run supplies the error (else the first)
	ForInScalarSkips bool // a for-in over nil or a boolean makes no round (else it is a run error)
	StrayControlNoop bool // a break/continue with no enclosing loop inside the function just ends the call (else it is a run error of the call); either way it never reaches the caller's loop

	// finding flags — deviations from the statements, listed in known_findings.json
	TryCatchesControl bool // return/break/continue inside a try body are diverted into the catch block
	ZeroParamSpread   bool // f0(xs...) on a zero-parameter function is accepted and its operands are never evaluated
}

// Unspec is raised when a program leaves the domain the statements determine.
type Unspec struct{ Why string }

func unspec(format string, a ...interface{}) { panic(Unspec{fmt.Sprintf(format, a...)}) }

// ---- values ----

type Value interface{}

type (
	List struct {
		E      []Value
		Frozen bool
	}
	Map     struct{ M map[string]Value }
	Closure struct {
		F   *gen.FuncLit
		Env *Scope
	}
	Host   struct{ S *gen.HostSpec }
	ErrVal struct {
		Thrown bool
		Text   string
	}
	ModuleV struct{ S *Scope }
	// result of &x: only its pointee's rendering is observed. A pointer to a list
	// slot is a live view of that slot (Get), a pointer to a variable holds the
	// value the variable had (an assignment rebinds the name, it does not write
	// through)
	Ptr struct {
		V   Value
		Get func() Value
	}
	Poison struct{}         // a value the statements do not determine (fall-off-the-end results, statement values)
	Truth  struct{ B bool } // result of && / ||: only its truthiness is specified
)

type Scope struct {
	vars   map[string]Value
	ext    map[string]Value // names a host lookup object of this scope answers: read after vars, never assigned
	parent *Scope
}

func newScope(p *Scope) *Scope { return &Scope{parent: p} }

func (s *Scope) lookup(n string) (Value, bool) {
	for sc := s; sc != nil; sc = sc.parent {
		if v, ok := sc.vars[n]; ok {
			return v, true
		}
		if v, ok := sc.ext[n]; ok {
			return v, true
		}
	}
	return nil, false
}

func (s *Scope) define(n string, v Value) {
	if s.vars == nil {
		s.vars = map[string]Value{}
	}
	s.vars[n] = v
}

// assign updates the nearest existing binding, else creates one in s.
func (s *Scope) assign(n string, v Value) {
	for sc := s; sc != nil; sc = sc.parent {
		if _, ok := sc.vars[n]; ok {
			sc.vars[n] = v
			return
		}
	}
	s.define(n, v)
}

// Render must agree with ank.Render on the corresponding real values.
func Render(v Value) string {
	switch v := v.(type) {
	case nil:
		return "nil"
	case bool:
		return strconv.FormatBool(v)
	case int64:
		return "int64(" + strconv.FormatInt(v, 10) + ")"
	case float64:
		return "float64(" + strconv.FormatFloat(v, 'g', -1, 64) + ")"
	case string:
		return strconv.Quote(v)
	case *List:
		parts := make([]string, len(v.E))
		for i, e := range v.E {
			parts[i] = Render(e)
		}
		return "[]interface {}[" + strings.Join(parts, " ") + "]"
	case *Map:
		var items []string
		for k, e := range v.M {
			items = append(items, strconv.Quote(k)+":"+Render(e))
		}
		sort.Strings(items)
		return "map[interface {}]interface {}{" + strings.Join(items, " ") + "}"
	case *Closure, *Host:
		return "func"
	case *Ptr:
		if v.Get != nil {
			return "&" + Render(v.Get())
		}
		return "&" + Render(v.V)
	case *ModuleV:
		return "*env.Env"
	case *Poison:
		unspec("render of an undetermined value")
	case *Truth:
		unspec("render of a logical operator's result")
	case *ErrVal:
		unspec("render of an error value")
	}
	unspec("render of %T", v)
	return ""
}

// ---- completions ----

type comp int

const (
	cNormal comp = iota
	cBreak
	cContinue
	cReturn
	cError
)

type result struct {
	c   comp
	v   Value // cReturn: the value; cNormal: value of the statement (Poison unless an expression statement)
	err *ErrVal
}

var poison = &Poison{}

// ---- interpreter ----

type frame struct {
	defers []deferred
}

type deferred struct {
	fn   Value
	args []Value
}

type Interp struct {
	appendOK bool // the current assignment's targets are unaliased containers (generator guarantee)
	fl       Flags
	Trace    []string
	GTrace   []string // events from goroutine bodies (compared as a multiset)
	steps    int
	depth    int
	// UsedFinding reports whether a finding flag actually changed behaviour.
	UsedFinding bool
}

// Outcome of a model run.
type Outcome struct {
	Trace       []string
	GTrace      []string
	Value       string // rendered final value; "" when undetermined
	HasValue    bool
	Err         string // "" | "T<n>" | "<rt>"
	Unspec      string // non-empty: the program left the determined domain
	UsedFinding bool
}

const (
	OptBegin = "\x00<"
	OptEnd   = "\x00>"
)

// Run interprets prog under fl.
func Run(prog []gen.Stmt, fl Flags) (out Outcome) {
	in := &Interp{fl: fl}
	defer func() {
		out.Trace = in.Trace
		out.GTrace = in.GTrace
		out.UsedFinding = in.UsedFinding
		if r := recover(); r != nil {
			if u, ok := r.(Unspec); ok {
				out.Unspec = u.Why
				return
			}
			panic(r)
		}
	}()
	global := newScope(nil)
	for name, h := range gen.Hosts {
		global.define(name, &Host{h})
	}
	// nm: the nil typed map the host hands in (reads of any key yield nil; never stored into or rendered)
	global.define("nm", &Map{M: map[string]Value{}})
	// xl: a name only the host's lookup object of the outermost scope answers (a script binding
	// of xl anywhere is nearer; an assignment never reaches the lookup)
	global.ext = map[string]Value{"xl": int64(99)}
	top := newScope(global)
	fr := &frame{}
	r := in.block(prog, top, fr)
	r = in.runDefers(fr, r)
	switch r.c {
	case cError:
		out.Err = errClass(r.err)
	case cBreak, cContinue:
		unspec("break/continue at top level")
	default:
		if _, bad := r.v.(*Poison); !bad {
			if _, t := r.v.(*Truth); !t {
				out.Value = Render(r.v)
				out.HasValue = true
			}
		}
	}
	return
}

func errClass(e *ErrVal) string {
	if e.Thrown {
		return e.Text
	}
	return "<rt>"
}

func (in *Interp) ev(s string) { in.Trace = append(in.Trace, s) }

func (in *Interp) tick() {
	in.steps++
	if in.steps > 200000 {
		unspec("step budget exceeded")
	}
}

func rtErr(why string) *ErrVal { return &ErrVal{Text: why} }

// block executes statements in scope sc; the value of the block is the value of its last statement.
func (in *Interp) block(ss []gen.Stmt, sc *Scope, fr *frame) result {
	r := result{c: cNormal, v: poison}
	for _, s := range ss {
		r = in.stmt(s, sc, fr)
		if r.c != cNormal {
			return r
		}
	}
	return r
}

func truthy(v Value) bool {
	switch v := v.(type) {
	case nil:
		return false
	case bool:
		return v
	case int64:
		return v != 0
	case float64:
		return v != 0
	case string:
		if v == "" {
			return false
		}
		// strings that spell a boolean or a number are outside the statement ("empty/non-empty")
		switch strings.ToLower(v) {
		case "0", "f", "false", "t", "true", "1":
			unspec("truthiness of boolean/number-like string")
		}
		if _, err := strconv.ParseFloat(v, 64); err == nil {
			unspec("truthiness of numeric string")
		}
		return true
	case *List:
		return len(v.E) > 0
	case *Map:
		return len(v.M) > 0
	case *Truth:
		return v.B
	}
	unspec("truthiness of %T", v)
	return false
}

func (in *Interp) stmt(s gen.Stmt, sc *Scope, fr *frame) result {
	in.tick()
	switch s := s.(type) {
	case *gen.ExprStmt:
		v, err := in.expr(s.X, sc, fr)
		if err != nil {
			return result{c: cError, err: err}
		}
		return result{c: cNormal, v: v}

	case *gen.VarStmt:
		vals, err := in.exprList(s.Exprs, sc, fr)
		if err != nil {
			return result{c: cError, err: err}
		}
		vals = destructure(vals, len(s.Names))
		for i, n := range s.Names {
			sc.define(n, vals[i])
		}
		return result{c: cNormal, v: poison}

	case *gen.Assign:
		vals, err := in.exprList(s.RHS, sc, fr)
		if err != nil {
			return result{c: cError, err: err}
		}
		vals = destructure(vals, len(s.LHS))
		for i, t := range s.LHS {
			in.appendOK = s.Unaliased
			err := in.assignTo(t, vals[i], sc, fr)
			in.appendOK = false
			if err != nil {
				return result{c: cError, err: err}
			}
		}
		return result{c: cNormal, v: poison}

	case *gen.MapItemAssign:
		// v, ok = m[k]: the index expression is evaluated once; the values bound are not judged here
		if _, err := in.expr(s.X, sc, fr); err != nil {
			return result{c: cError, err: err}
		}
		sc.assign(s.V, poison)
		sc.assign(s.Ok, poison)
		return result{c: cNormal, v: poison}

	case *gen.If:
		v, err := in.expr(s.Cond, sc, fr)
		if err != nil {
			return result{c: cError, err: err}
		}
		if truthy(v) {
			return in.blockStmt(s.Then, newScope(sc), fr)
		}
		for _, ei := range s.ElseIfs {
			v, err := in.expr(ei.Cond, sc, fr)
			if err != nil {
				return result{c: cError, err: err}
			}
			if truthy(v) {
				return in.blockStmt(ei.Body, newScope(sc), fr)
			}
		}
		if s.HasElse {
			return in.blockStmt(s.Else, newScope(sc), fr)
		}
		return result{c: cNormal, v: poison}

	case *gen.Loop:
		ls := newScope(sc)
		for {
			in.tick()
			if s.Cond != nil {
				v, err := in.expr(s.Cond, ls, fr)
				if err != nil {
					return result{c: cError, err: err}
				}
				if !truthy(v) {
					break
				}
			}
			r := in.block(s.Body, in.iterScope(ls), fr)
			if r.c == cBreak {
				break
			}
			if r.c == cReturn || r.c == cError {
				return r
			}
		}
		return result{c: cNormal, v: poison}

	case *gen.CFor:
		ls := newScope(sc)
		if s.Init != nil {
			r := in.stmt(s.Init, ls, fr)
			if r.c != cNormal {
				return r
			}
		}
		for {
			in.tick()
			if s.Cond != nil {
				v, err := in.expr(s.Cond, ls, fr)
				if err != nil {
					return result{c: cError, err: err}
				}
				if !truthy(v) {
					break
				}
			}
			r := in.block(s.Body, in.iterScope(ls), fr)
			if r.c == cBreak {
				break
			}
			if r.c == cReturn || r.c == cError {
				return r
			}
			if s.Post != nil {
				if _, err := in.expr(s.Post, ls, fr); err != nil {
					return result{c: cError, err: err}
				}
			}
		}
		return result{c: cNormal, v: poison}

	case *gen.ForIn:
		xv, err := in.expr(s.X, sc, fr)
		if err != nil {
			return result{c: cError, err: err}
		}
		ls := newScope(sc)
		switch xv := xv.(type) {
		case *List:
			if len(s.Vars) != 1 {
				unspec("for-in over a list with two variables")
			}
			n := len(xv.E) // the slice header is read once
			elems := xv.E
			for i := 0; i < n; i++ {
				in.tick()
				is := in.iterScope(ls)
				is.define(s.Vars[0], elems[i])
				r := in.block(s.Body, is, fr)
				if r.c == cBreak {
					break
				}
				if r.c == cReturn || r.c == cError {
					return r
				}
			}
		case *Map:
			keys := make([]string, 0, len(xv.M))
			for k := range xv.M {
				keys = append(keys, k)
			}
			sort.Strings(keys)
			for _, k := range keys {
				in.tick()
				is := in.iterScope(ls)
				is.define(s.Vars[0], k)
				if len(s.Vars) > 1 {
					is.define(s.Vars[1], xv.M[k])
				}
				r := in.block(s.Body, is, fr)
				if r.c == cBreak {
					unspec("break inside map iteration")
				}
				if r.c == cReturn || r.c == cError {
					unspec("abrupt exit from map iteration")
				}
			}
		case nil, bool:
			// nothing to visit and no way to read nil / a boolean as a collection: the statement is
			// either an error or a loop without rounds (the statements do not say which)
			if !in.fl.ForInScalarSkips {
				return result{c: cError, err: rtErr("for-in over a non-collection")}
			}
		default:
			unspec("for-in over %T", xv)
		}
		return result{c: cNormal, v: poison}

	case *gen.Switch:
		ss := newScope(sc)
		subj, err := in.expr(s.X, ss, fr)
		if err != nil {
			return result{c: cError, err: err}
		}
		for _, c := range s.Cases {
			for _, ce := range c.Exprs {
				cv, err := in.expr(ce, ss, fr)
				if err != nil {
					return result{c: cError, err: err}
				}
				if primEqual(subj, cv) {
					return in.blockStmt(c.Body, ss, fr)
				}
			}
		}
		if s.HasDefault {
			return in.blockStmt(s.Default, ss, fr)
		}
		return result{c: cNormal, v: poison}

	case *gen.Break:
		return result{c: cBreak}
	case *gen.Continue:
		return result{c: cContinue}

	case *gen.Return:
		switch len(s.Exprs) {
		case 0:
			return result{c: cReturn, v: nil}
		case 1:
			v, err := in.expr(s.Exprs[0], sc, fr)
			if err != nil {
				return result{c: cError, err: err}
			}
			return result{c: cReturn, v: v}
		}
		vals, err := in.exprList(s.Exprs, sc, fr)
		if err != nil {
			return result{c: cError, err: err}
		}
		return result{c: cReturn, v: &List{E: vals}}

	case *gen.Throw:
		v, err := in.expr(s.X, sc, fr)
		if err != nil {
			return result{c: cError, err: err}
		}
		switch v := v.(type) {
		case string:
			return result{c: cError, err: &ErrVal{Thrown: true, Text: v}}
		case *ErrVal:
			// rethrow of a caught error: the same error goes on
			return result{c: cError, err: &ErrVal{Thrown: v.Thrown, Text: v.Text}}
		}
		unspec("throw of %T", v)

	case *gen.Try:
		return in.try(s, sc, fr)

	case *gen.Defer:
		fn, args, err, rejected := in.prepareCall(s.C, sc, fr)
		if err != nil {
			return result{c: cError, err: err}
		}
		if rejected {
			return result{c: cError, err: rtErr("argument count")}
		}
		fr.defers = append(fr.defers, deferred{fn, args})
		return result{c: cNormal, v: poison}

	case *gen.Go:
		fn, args, err, rejected := in.prepareCall(s.C, sc, fr)
		if err != nil {
			return result{c: cError, err: err}
		}
		if rejected {
			return result{c: cError, err: rtErr("argument count")}
		}
		// the body runs concurrently: its events go to the goroutine trace
		saved := in.Trace
		in.Trace = nil
		_, cerr := in.invoke(fn, args)
		in.GTrace = append(in.GTrace, in.Trace...)
		in.Trace = saved
		if cerr != nil {
			unspec("error inside a goroutine body")
		}
		return result{c: cNormal, v: poison}

	case *gen.Module:
		ms := newScope(sc)
		sc.define(s.Name, &ModuleV{ms})
		r := in.block(s.Body, ms, fr)
		if r.c != cNormal {
			return r
		}
		return result{c: cNormal, v: poison}
	}
	unspec("statement %T", s)
	return result{}
}

// blockStmt runs a nested block whose value is not a determined statement value.
func (in *Interp) blockStmt(ss []gen.Stmt, sc *Scope, fr *frame) result {
	r := in.block(ss, sc, fr)
	if r.c == cNormal {
		r.v = poison
	}
	return r
}

func (in *Interp) iterScope(ls *Scope) *Scope {
	if in.fl.LoopPerIter {
		return newScope(ls)
	}
	return ls
}

func (in *Interp) try(s *gen.Try, sc *Scope, fr *frame) result {
	ts := newScope(sc)
	r := in.block(s.Body, ts, fr)
	if in.fl.TryCatchesControl && (r.c == cBreak || r.c == cContinue || r.c == cReturn) {
		in.UsedFinding = true
		r = result{c: cError, err: rtErr("unexpected control statement")}
	}
	subScope := func() *Scope {
		if in.fl.TrySeparate {
			return newScope(sc)
		}
		return ts
	}
	runFinally := func() (result, bool) {
		if !s.HasFinally {
			return result{}, false
		}
		rf := in.block(s.Finally, subScope(), fr)
		return rf, true
	}
	switch r.c {
	case cError:
		cs := subScope()
		if s.CatchVar != "" {
			cs.define(s.CatchVar, r.err)
		}
		rc := in.block(s.Catch, cs, fr)
		if rc.c != cNormal {
			if in.fl.FinallyOnAbrupt {
				if rf, ok := runFinally(); ok && rf.c != cNormal {
					return rf
				}
			}
			return rc
		}
	case cBreak, cContinue, cReturn:
		if in.fl.FinallyOnAbrupt {
			if rf, ok := runFinally(); ok && rf.c != cNormal {
				return rf
			}
		}
		return r
	}
	if rf, ok := runFinally(); ok && rf.c != cNormal {
		return rf
	}
	return result{c: cNormal, v: poison}
}

func destructure(vals []Value, n int) []Value {
	if len(vals) == n {
		return vals
	}
	if len(vals) == 1 && n > 1 {
		if l, ok := vals[0].(*List); ok && len(l.E) == n {
			return l.E
		}
	}
	unspec("assignment of %d values to %d targets", len(vals), n)
	return nil
}

func (in *Interp) exprList(es []gen.Expr, sc *Scope, fr *frame) ([]Value, *ErrVal) {
	vals := make([]Value, 0, len(es))
	for _, e := range es {
		v, err := in.expr(e, sc, fr)
		if err != nil {
			return nil, err
		}
		if _, ok := v.(*ModuleV); ok {
			unspec("module used as a value")
		}
		vals = append(vals, v)
	}
	return vals, nil
}

func (in *Interp) assignTo(t gen.Expr, v Value, sc *Scope, fr *frame) *ErrVal {
	switch t := t.(type) {
	case *gen.Name:
		sc.assign(t.N, v)
		return nil
	case *gen.Index:
		xv, err := in.expr(t.X, sc, fr)
		if err != nil {
			return err
		}
		iv, err := in.expr(t.I, sc, fr)
		if err != nil {
			return err
		}
		switch xv := xv.(type) {
		case *List:
			i, ok := iv.(int64)
			if !ok {
				unspec("list index of %T", iv)
			}
			if xv.Frozen {
				unspec("store through a slice expression result")
			}
			if i == int64(len(xv.E)) {
				if !in.appendOK {
					unspec("store at index len (append) into a container that may have other names")
				}
				xv.E = append(xv.E, v)
				return nil
			}
			if i < 0 || i > int64(len(xv.E)) {
				return rtErr("index out of range")
			}
			xv.E[i] = v
			return nil
		case *Map:
			k, ok := iv.(string)
			if !ok {
				unspec("map key of %T", iv)
			}
			xv.M[k] = v
			return nil
		}
		unspec("index store into %T", xv)
	case *gen.Member:
		xv, err := in.expr(t.X, sc, fr)
		if err != nil {
			return err
		}
		if m, ok := xv.(*Map); ok {
			m.M[t.Name] = v
			return nil
		}
		unspec("member store into %T", xv)
	case *gen.Paren:
		// a parenthesised place is the place
		return in.assignTo(t.X, v, sc, fr)
	}
	unspec("assignment target %T", t)
	return nil
}

func primEqual(a, b Value) bool {
	if a == nil || b == nil {
		return a == nil && b == nil
	}
	switch x := a.(type) {
	case int64:
		if y, ok := b.(int64); ok {
			return x == y
		}
	case string:
		if y, ok := b.(string); ok {
			return x == y
		}
	case bool:
		if y, ok := b.(bool); ok {
			return x == y
		}
	}
	unspec("equality of %T and %T", a, b)
	return false
}

func (in *Interp) expr(e gen.Expr, sc *Scope, fr *frame) (Value, *ErrVal) {
	in.tick()
	switch e := e.(type) {
	case *gen.IntLit:
		return e.V, nil
	case *gen.FloatLit:
		return e.V, nil
	case *gen.StrLit:
		return e.V, nil
	case *gen.BoolLit:
		return e.V, nil
	case *gen.NilLit:
		return nil, nil
	case *gen.Paren:
		return in.expr(e.X, sc, fr)
	case *gen.AddrOf:
		if ix, ok := e.X.(*gen.Index); ok {
			xv, err := in.expr(ix.X, sc, fr)
			if err != nil {
				return nil, err
			}
			iv, err := in.expr(ix.I, sc, fr)
			if err != nil {
				return nil, err
			}
			l, isList := xv.(*List)
			i, isInt := iv.(int64)
			if !isList || !isInt {
				unspec("address of an element of %T by %T", xv, iv)
			}
			if i < 0 || i >= int64(len(l.E)) {
				return nil, rtErr("index out of range")
			}
			snap := l.E[i]
			return &Ptr{V: snap, Get: func() Value {
				if int(i) < len(l.E) {
					return l.E[i]
				}
				return snap
			}}, nil
		}
		v, err := in.expr(e.X, sc, fr)
		if err != nil {
			return nil, err
		}
		return &Ptr{V: v}, nil
	case *gen.Name:
		v, ok := sc.lookup(e.N)
		if !ok {
			return nil, rtErr("undefined symbol")
		}
		return v, nil
	case *gen.ListLit:
		vals, err := in.exprList(e.Elems, sc, fr)
		if err != nil {
			return nil, err
		}
		return &List{E: vals}, nil
	case *gen.MapLit:
		m := &Map{M: map[string]Value{}}
		for i := range e.Keys {
			kv, err := in.expr(e.Keys[i], sc, fr)
			if err != nil {
				return nil, err
			}
			ks, ok := kv.(string)
			if !ok {
				unspec("map literal key of %T", kv)
			}
			vv, err := in.expr(e.Vals[i], sc, fr)
			if err != nil {
				return nil, err
			}
			m.M[ks] = vv
		}
		return m, nil
	case *gen.Unary:
		v, err := in.expr(e.X, sc, fr)
		if err != nil {
			return nil, err
		}
		switch e.Op {
		case "-":
			if i, ok := v.(int64); ok {
				return -i, nil
			}
			unspec("unary minus of %T", v)
		case "!":
			return !truthy(v), nil
		}
		unspec("unary %s", e.Op)
	case *gen.Binary:
		l, err := in.expr(e.L, sc, fr)
		if err != nil {
			return nil, err
		}
		r, err := in.expr(e.R, sc, fr)
		if err != nil {
			return nil, err
		}
		return binop(e.Op, l, r)
	case *gen.Logic:
		l, err := in.expr(e.L, sc, fr)
		if err != nil {
			return nil, err
		}
		lt := truthy(l)
		if e.Op == "&&" && !lt {
			return &Truth{false}, nil
		}
		if e.Op == "||" && lt {
			return &Truth{true}, nil
		}
		r, err := in.expr(e.R, sc, fr)
		if err != nil {
			return nil, err
		}
		return &Truth{truthy(r)}, nil
	case *gen.Ternary:
		c, err := in.expr(e.C, sc, fr)
		if err != nil {
			return nil, err
		}
		if truthy(c) {
			return in.expr(e.T, sc, fr)
		}
		return in.expr(e.F, sc, fr)
	case *gen.Coalesce:
		l, err := in.expr(e.L, sc, fr)
		if err == nil && l != nil {
			if _, p := l.(*Poison); p {
				unspec("?? on an undetermined value")
			}
			return l, nil
		}
		return in.expr(e.R, sc, fr)
	case *gen.Index:
		xv, err := in.expr(e.X, sc, fr)
		if err != nil {
			return nil, err
		}
		iv, err := in.expr(e.I, sc, fr)
		if err != nil {
			return nil, err
		}
		switch xv := xv.(type) {
		case *List:
			i, ok := iv.(int64)
			if !ok {
				unspec("list index of %T", iv)
			}
			if i < 0 || i >= int64(len(xv.E)) {
				return nil, rtErr("index out of range")
			}
			return xv.E[i], nil
		case *Map:
			k, ok := iv.(string)
			if !ok {
				unspec("map key of %T", iv)
			}
			return xv.M[k], nil
		}
		unspec("index of %T", xv)
	case *gen.SliceE:
		xv, err := in.expr(e.X, sc, fr)
		if err != nil {
			return nil, err
		}
		l, ok := xv.(*List)
		if !ok {
			unspec("slice of %T", xv)
		}
		lo, hi, cp := int64(0), int64(len(l.E)), int64(len(l.E))
		get := func(x gen.Expr, dst *int64) *ErrVal {
			if x == nil {
				return nil
			}
			v, err := in.expr(x, sc, fr)
			if err != nil {
				return err
			}
			i, ok := v.(int64)
			if !ok {
				unspec("slice bound of %T", v)
			}
			*dst = i
			return nil
		}
		// bounds are evaluated in order and checked as evaluated or afterwards —
		// the statements fix only the evaluation order, so all bounds in this
		// model's domain are in range (the generator guarantees it)
		if err := get(e.Lo, &lo); err != nil {
			return nil, err
		}
		if err := get(e.Hi, &hi); err != nil {
			return nil, err
		}
		if err := get(e.Cap, &cp); err != nil {
			return nil, err
		}
		if lo < 0 || lo > hi || hi > int64(len(l.E)) || cp < hi || cp > int64(len(l.E)) {
			unspec("slice bounds out of range")
		}
		return &List{E: append([]Value(nil), l.E[lo:hi]...), Frozen: true}, nil
	case *gen.Member:
		xv, err := in.expr(e.X, sc, fr)
		if err != nil {
			return nil, err
		}
		switch xv := xv.(type) {
		case *Map:
			return xv.M[e.Name], nil
		case *ModuleV:
			if v, ok := xv.S.vars[e.Name]; ok {
				return v, nil
			}
			unspec("module member not defined in the module itself")
		}
		unspec("member of %T", xv)
	case *gen.Len:
		v, err := in.expr(e.X, sc, fr)
		if err != nil {
			return nil, err
		}
		switch v := v.(type) {
		case *List:
			return int64(len(v.E)), nil
		case *Map:
			return int64(len(v.M)), nil
		case string:
			return int64(len(v)), nil
		case int64, bool, nil:
			return nil, rtErr("len of non-container")
		}
		unspec("len of %T", v)
	case *gen.In:
		xv, err := in.expr(e.X, sc, fr)
		if err != nil {
			return nil, err
		}
		lv, err := in.expr(e.L, sc, fr)
		if err != nil {
			return nil, err
		}
		l, ok := lv.(*List)
		if !ok {
			unspec("in on %T", lv)
		}
		for _, el := range l.E {
			if primEqual(xv, el) {
				return true, nil
			}
		}
		return false, nil
	case *gen.FuncLit:
		c := &Closure{F: e, Env: sc}
		if e.Name != "" {
			sc.define(e.Name, c)
		}
		return c, nil
	case *gen.OpAssign:
		var r gen.Expr = e.R
		if r == nil {
			r = &gen.IntLit{V: 1}
		}
		// x op= e  stands for  x = x op e : the operands of x are evaluated twice
		nv, err := in.expr(&gen.Binary{Op: e.Op, L: e.Target, R: r}, sc, fr)
		if err != nil {
			return nil, err
		}
		if err := in.assignTo(e.Target, nv, sc, fr); err != nil {
			return nil, err
		}
		return poison, nil
	case *gen.Call:
		fn, args, err, rejected := in.prepareCall(e, sc, fr)
		if err != nil {
			return nil, err
		}
		if rejected {
			return nil, rtErr("argument count")
		}
		return in.invoke(fn, args)
	}
	unspec("expression %T", e)
	return nil, nil
}

func binop(op string, l, r Value) (Value, *ErrVal) {
	switch op {
	case "==":
		return primEqual(l, r), nil
	case "!=":
		return !primEqual(l, r), nil
	}
	if ls, ok := l.(string); ok {
		if rs, ok := r.(string); ok && op == "+" {
			return ls + rs, nil
		}
		unspec("string operator %s", op)
	}
	li, lok := l.(int64)
	ri, rok := r.(int64)
	if !lok || !rok {
		unspec("operator %s on %T and %T", op, l, r)
	}
	switch op {
	case "+":
		return li + ri, nil
	case "-":
		return li - ri, nil
	case "*":
		return li * ri, nil
	case "%":
		if ri == 0 {
			return nil, rtErr("integer divide by zero")
		}
		return li % ri, nil
	case "|":
		return li | ri, nil
	case "&":
		return li & ri, nil
	case "<":
		return li < ri, nil
	case "<=":
		return li <= ri, nil
	case ">":
		return li > ri, nil
	case ">=":
		return li >= ri, nil
	}
	unspec("operator %s", op)
	return nil, nil
}

// prepareCall resolves the callee, checks the argument count and evaluates the
// arguments left to right. rejected=true means the call was refused for its
// argument count: the arguments may each have been evaluated at most once, in
// order (an optional-prefix region is recorded in the trace).
func (in *Interp) prepareCall(c *gen.Call, sc *Scope, fr *frame) (fn Value, args []Value, err *ErrVal, rejected bool) {
	if c.Callee == nil {
		v, ok := sc.lookup(c.Fn)
		if !ok {
			return nil, nil, rtErr("undefined symbol"), false
		}
		fn = v
	} else {
		v, e := in.expr(c.Callee, sc, fr)
		if e != nil {
			return nil, nil, e, false
		}
		fn = v
	}
	var nparams int
	var variadic bool
	var ptypes []string
	switch f := fn.(type) {
	case *Closure:
		nparams, variadic = len(f.F.Params), f.F.Variadic
	case *Host:
		nparams, variadic, ptypes = len(f.S.Params), f.S.Variadic, f.S.Params
	default:
		unspec("call of %T", fn)
	}
	m := len(c.Args)
	if h, ok := fn.(*Host); ok && h.S.NilFunc {
		// a nil function: the call fails; whether that is noticed before, between or after the
		// operands is not stated - each operand at most once, in order
		in.ev(OptBegin)
		for _, a := range c.Args {
			if _, e := in.expr(a, sc, fr); e != nil {
				break
			}
		}
		in.ev(OptEnd)
		return nil, nil, nil, true
	}
	reject := func() (Value, []Value, *ErrVal, bool) {
		// every argument at most once, in order: an optional prefix
		in.ev(OptBegin)
		for _, a := range c.Args {
			if _, e := in.expr(a, sc, fr); e != nil {
				break
			}
		}
		in.ev(OptEnd)
		return nil, nil, nil, true
	}
	if !c.Spread {
		if (!variadic && m != nparams) || (variadic && m < nparams-1) {
			return reject()
		}
		for i, a := range c.Args {
			v, e := in.expr(a, sc, fr)
			if e != nil {
				return nil, nil, e, false
			}
			if ptypes != nil {
				pi := i
				if pi >= len(ptypes) {
					pi = len(ptypes) - 1
				}
				if e := convertible(v, ptypes[pi]); e != nil {
					return nil, nil, e, false
				}
			}
			args = append(args, v)
		}
		if variadic {
			fixed := nparams - 1
			rest := &List{E: append([]Value(nil), args[fixed:]...)}
			args = append(args[:fixed:fixed], rest)
		}
		return fn, args, nil, false
	}
	// spread call
	if m == 0 {
		unspec("spread call without arguments")
	}
	if variadic {
		if m != nparams {
			unspec("spread into a variadic function with a different number of expressions")
		}
	} else if m > nparams {
		if nparams == 0 && in.fl.ZeroParamSpread {
			in.UsedFinding = true
			return fn, nil, nil, false
		}
		return reject()
	}
	for i, a := range c.Args[:m-1] {
		v, e := in.expr(a, sc, fr)
		if e != nil {
			return nil, nil, e, false
		}
		if ptypes != nil {
			if e := convertible(v, ptypes[i]); e != nil {
				return nil, nil, e, false
			}
		}
		args = append(args, v)
	}
	lv, e := in.expr(c.Args[m-1], sc, fr)
	if e != nil {
		return nil, nil, e, false
	}
	l, ok := lv.(*List)
	if !ok {
		unspec("spread of %T", lv)
	}
	if variadic {
		if ptypes != nil && ptypes[len(ptypes)-1] != "any" {
			unspec("spread into a typed variadic tail")
		}
		args = append(args, &List{E: append([]Value(nil), l.E...)})
		return fn, args, nil, false
	}
	need := nparams - (m - 1)
	if len(l.E) < need {
		return nil, nil, nil, true // too few after all operands were evaluated: plain rejection
	}
	if len(l.E) > need {
		unspec("spread with surplus elements")
	}
	for j, ev := range l.E {
		if ptypes != nil {
			if e := convertible(ev, ptypes[m-1+j]); e != nil {
				return nil, nil, e, false
			}
		}
		args = append(args, ev)
	}
	return fn, args, nil, false
}

func convertible(v Value, t string) *ErrVal {
	switch t {
	case "any":
		return nil
	case "func":
		if _, ok := v.(*Closure); ok {
			return nil
		}
		unspec("non-closure passed as callback")
	case "string":
		switch v.(type) {
		case string:
			return nil
		case *List, *Map, *Closure, *Host:
			return rtErr("argument type")
		}
	case "int64":
		switch v.(type) {
		case int64:
			return nil
		case *List, *Map, *Closure, *Host:
			return rtErr("argument type")
		}
	}
	unspec("conversion of %T to %s", v, t)
	return nil
}

// invoke runs a function value on already evaluated arguments.
func (in *Interp) invoke(fn Value, args []Value) (Value, *ErrVal) {
	switch f := fn.(type) {
	case *Host:
		return in.host(f.S, args)
	case *Closure:
		in.depth++
		if in.depth > 200 {
			unspec("recursion depth")
		}
		defer func() { in.depth-- }()
		sc := newScope(f.Env)
		for i, p := range f.F.Params {
			sc.define(p, args[i])
		}
		fr := &frame{}
		r := in.block(f.F.Body, sc, fr)
		r = in.runDefers(fr, r)
		switch r.c {
		case cReturn:
			return r.v, nil
		case cNormal:
			return poison, nil // falling off the end: the statements do not say what the call yields
		case cError:
			return nil, r.err
		}
		// break/continue with no enclosing loop in this function: it acts on "the
		// innermost enclosing loop only", so it must not reach a loop of the caller
		if in.fl.StrayControlNoop {
			return poison, nil
		}
		return nil, rtErr("unexpected break/continue")
	}
	unspec("invoke %T", fn)
	return nil, nil
}

// runDefers runs the frame's deferred calls LIFO, exactly once each.
func (in *Interp) runDefers(fr *frame, r result) result {
	if len(fr.defers) == 0 {
		return r
	}
	ds := fr.defers
	fr.defers = nil
	var first, last *ErrVal
	for i := len(ds) - 1; i >= 0; i-- {
		_, err := in.invoke(ds[i].fn, ds[i].args)
		if err != nil {
			if first == nil {
				first = err
			}
			last = err
		}
	}
	if r.c == cError || first == nil {
		return r
	}
	if in.fl.DeferErrLast {
		return result{c: cError, err: last}
	}
	return result{c: cError, err: first}
}

func (in *Interp) host(s *gen.HostSpec, a []Value) (Value, *ErrVal) {
	for _, v := range a {
		if _, ok := v.(*Poison); ok {
			unspec("undetermined value passed to a host function")
		}
	}
	switch s.Name {
	case "p":
		in.ev("p " + Render(a[0]))
		return a[0], nil
	case "pv":
		in.ev("pv " + Render(a[0]))
		return a[1], nil
	case "pe":
		in.ev("pe " + Render(a[0]))
		return nil, rtErr("host failure")
	case "rd":
		in.ev("rd " + a[0].(string) + "=" + Render(a[1]))
		return nil, nil
	case "pc":
		e, ok := a[0].(*ErrVal)
		if !ok {
			unspec("pc of %T", a[0])
		}
		in.ev("catch " + errClass(e))
		return nil, nil
	case "mb":
		in.ev("mb " + Render(a[0]))
		return nil, nil
	case "me":
		in.ev("me " + Render(a[0]))
		return nil, nil
	case "h0":
		in.ev("h0")
		return nil, nil
	case "h1":
		in.ev("h1 " + Render(a[0]))
		return a[0], nil
	case "h2":
		in.ev("h2 " + Render(a[0]) + " " + Render(a[1]))
		return a[0], nil
	case "h3":
		in.ev("h3 " + Render(a[0]) + " " + Render(a[1]) + " " + Render(a[2]))
		return a[0], nil
	case "hv":
		rest := a[1].(*List)
		in.ev("hv " + Render(a[0]) + " " + Render(rest))
		return int64(len(rest.E)), nil
	case "hs":
		in.ev("hs " + Render(a[0]) + " " + Render(a[1]))
		return a[0], nil
	case "hvs":
		rest := a[1].(*List)
		parts := make([]string, len(rest.E))
		for i, e := range rest.E {
			parts[i] = Render(e)
		}
		in.ev("hvs " + Render(a[0]) + " [" + strings.Join(parts, " ") + "]")
		return int64(len(rest.E)), nil
	case "hcb", "hcbe", "hcbv":
		// whatever results the callback type declares: a callback that FAILS is an error of the
		// enclosing call (an error value it merely returns would be a value)
		in.ev(s.Name)
		if _, err := in.invoke(a[0], nil); err != nil {
			return nil, err
		}
		return nil, nil
	case "heach":
		l, ok := a[0].(*List)
		if !ok {
			unspec("heach of %T", a[0])
		}
		in.ev("heach " + strconv.Itoa(len(l.E)))
		for _, el := range l.E {
			if _, err := in.invoke(a[1], []Value{el}); err != nil {
				return nil, err
			}
		}
		return nil, nil
	case "pg":
		in.ev("pg " + Render(a[0]))
		return a[0], nil
	case "hg":
		in.ev("hg " + Render(a[0].(*List)))
		return nil, nil
	case "hgp":
		// panics on its own goroutine after the event: nobody else notices
		in.ev("hgp " + Render(a[0]))
		return nil, nil
	case "gsettle":
		return nil, nil
	case "gdone":
		return nil, nil
	case "gwait":
		return nil, nil
	}
	unspec("host %s", s.Name)
	return nil, nil
}
