// Package astx is a reflection-based view of anko's AST that does not depend on
// ast/astutil: structural dumps (for tree identity / immutability checks) and
// the complete node set with parent relation (for the walker check).
// Being generic over struct fields, it also sees fields a code change adds.
package astx

import (
	"reflect"
	"strconv"
	"strings"

	"github.com/mattn/anko/ast"

	"verifharness/internal/ank"
)

// Opts selects what a dump contains.
type Opts struct {
	Pos       bool // include node positions
	LineShift int  // added to every line number (compositionality check)
	SkipParen bool // print a ParenExpr as its operand
	Caps      bool // include slice capacities
}

var (
	rvType     = reflect.TypeOf(reflect.Value{})
	posType    = reflect.TypeOf((*ast.Pos)(nil)).Elem()
	stmtType   = reflect.TypeOf((*ast.Stmt)(nil)).Elem()
	astPkgPath = reflect.TypeOf(ast.IdentExpr{}).PkgPath()
)

// Dump renders the tree below node.
func Dump(node interface{}, o Opts) string {
	var b strings.Builder
	dump(&b, reflect.ValueOf(node), &o, 0)
	return b.String()
}

func isEmbeddedImpl(t reflect.Type) bool {
	switch t.Name() {
	case "PosImpl", "ExprImpl", "StmtImpl", "OperatorImpl":
		return t.PkgPath() == astPkgPath
	}
	return false
}

func dump(b *strings.Builder, v reflect.Value, o *Opts, depth int) {
	if !v.IsValid() {
		b.WriteString("nil")
		return
	}
	if depth > 100000 {
		b.WriteString("<deep>")
		return
	}
	switch v.Kind() {
	case reflect.Interface:
		if v.IsNil() {
			b.WriteString("nil")
			return
		}
		dump(b, v.Elem(), o, depth)
	case reflect.Ptr:
		if v.IsNil() {
			b.WriteString("nil")
			return
		}
		if o.SkipParen {
			if v.CanInterface() {
				if p, ok := v.Interface().(*ast.ParenExpr); ok {
					dump(b, reflect.ValueOf(p.SubExpr), o, depth+1)
					return
				}
			}
		}
		el := v.Elem()
		if el.Kind() != reflect.Struct {
			b.WriteString("&")
			dump(b, el, o, depth+1)
			return
		}
		b.WriteString(el.Type().Name())
		if o.Pos && v.CanInterface() {
			if p, ok := v.Interface().(ast.Pos); ok {
				pos := p.Position()
				b.WriteString("@" + strconv.Itoa(pos.Line+o.LineShift) + ":" + strconv.Itoa(pos.Column))
			}
		}
		b.WriteString("{")
		dumpFields(b, el, o, depth)
		b.WriteString("}")
	case reflect.Struct:
		if v.Type() == rvType {
			if !v.CanInterface() {
				b.WriteString("rv(?)")
				return
			}
			rv := v.Interface().(reflect.Value)
			if !rv.IsValid() {
				b.WriteString("rv(invalid)")
				return
			}
			b.WriteString("rv(" + ank.RenderValue(rv) + ")")
			return
		}
		b.WriteString(v.Type().Name() + "{")
		dumpFields(b, v, o, depth)
		b.WriteString("}")
	case reflect.Slice:
		if v.IsNil() {
			b.WriteString("[]")
			return
		}
		b.WriteString("[")
		for i := 0; i < v.Len(); i++ {
			if i > 0 {
				b.WriteString(" ")
			}
			dump(b, v.Index(i), o, depth+1)
		}
		b.WriteString("]")
		if o.Caps {
			b.WriteString("cap" + strconv.Itoa(v.Cap()))
		}
	case reflect.String:
		b.WriteString(strconv.Quote(v.String()))
	case reflect.Bool:
		b.WriteString(strconv.FormatBool(v.Bool()))
	case reflect.Int, reflect.Int8, reflect.Int16, reflect.Int32, reflect.Int64:
		b.WriteString(strconv.FormatInt(v.Int(), 10))
	case reflect.Map:
		b.WriteString("map(len=" + strconv.Itoa(v.Len()) + ")")
	default:
		b.WriteString("<" + v.Kind().String() + ">")
	}
}

func dumpFields(b *strings.Builder, el reflect.Value, o *Opts, depth int) {
	t := el.Type()
	first := true
	for i := 0; i < el.NumField(); i++ {
		f := t.Field(i)
		if f.Anonymous && isEmbeddedImpl(f.Type) {
			continue
		}
		if !first {
			b.WriteString(" ")
		}
		first = false
		b.WriteString(f.Name + ":")
		dump(b, el.Field(i), o, depth+1)
	}
}

// NodeInfo is one reachable AST node.
type NodeInfo struct {
	Node   interface{}
	Parent interface{} // nil for the root
	Slot   string      // "<ParentType>.<Field>"
	Type   string      // e.g. "*ast.IdentExpr"
}

// Nodes returns every pointer-to-struct of package ast reachable from root
// that is a statement, expression or operator (i.e. implements ast.Pos and is
// not a Token), in pre-order with its reflected parent.
func Nodes(root interface{}) []NodeInfo {
	var out []NodeInfo
	var walk func(v reflect.Value, parent interface{}, slot string)
	walk = func(v reflect.Value, parent interface{}, slot string) {
		if !v.IsValid() {
			return
		}
		switch v.Kind() {
		case reflect.Interface:
			if !v.IsNil() {
				walk(v.Elem(), parent, slot)
			}
		case reflect.Ptr:
			if v.IsNil() {
				return
			}
			el := v.Elem()
			if el.Kind() != reflect.Struct || el.Type().PkgPath() != astPkgPath {
				return
			}
			self := parent
			if v.Type().Implements(posType) && el.Type().Name() != "Token" && v.CanInterface() {
				n := v.Interface()
				out = append(out, NodeInfo{Node: n, Parent: parent, Slot: slot, Type: v.Type().String()})
				self = n
			}
			t := el.Type()
			for i := 0; i < el.NumField(); i++ {
				f := t.Field(i)
				if f.Anonymous && isEmbeddedImpl(f.Type) {
					continue
				}
				if f.Type == rvType {
					continue
				}
				walk(el.Field(i), self, t.Name()+"."+f.Name)
			}
		case reflect.Slice:
			for i := 0; i < v.Len(); i++ {
				walk(v.Index(i), parent, slot)
			}
		}
	}
	walk(reflect.ValueOf(root), nil, "root")
	return out
}

// StmtList returns the top-level statements of a parsed program (nil tree = none).
func StmtList(root ast.Stmt) []ast.Stmt {
	if root == nil {
		return nil
	}
	if s, ok := root.(*ast.StmtsStmt); ok {
		return s.Stmts
	}
	return []ast.Stmt{root}
}
