package realrun

import (
	"testing"

	"verifharness/internal/refmodel"
)

func TestMatchNested(t *testing.T) {
	B, E := refmodel.OptBegin, refmodel.OptEnd
	cases := []struct {
		model, real []string
		want        bool
	}{
		{[]string{B, "p1", B, "pe2", E, B, "pv9", "p10", E, E}, []string{"p1", "pv9", "p10"}, true},
		{[]string{B, "p1", B, "pe2", E, B, "pv9", "p10", E, E}, []string{"p1", "pe2", "pv9", "p10"}, true},
		{[]string{B, "p1", B, "pe2", E, B, "pv9", "p10", E, E}, []string{"p1", "pe2"}, true},
		{[]string{B, "p1", B, "pe2", E, B, "pv9", "p10", E, E}, []string{}, true},
		{[]string{B, "p1", B, "pe2", E, B, "pv9", "p10", E, E}, []string{"p1", "p10"}, false},
		{[]string{B, "p1", B, "pe2", E, B, "pv9", "p10", E, E}, []string{"pv9"}, false},
		{[]string{"a", B, "b", "c", E, "d"}, []string{"a", "d"}, true},
		{[]string{"a", B, "b", "c", E, "d"}, []string{"a", "b", "d"}, true},
		{[]string{"a", B, "b", "c", E, "d"}, []string{"a", "c", "d"}, false},
		{[]string{"a", B, "b", "c", E, "d"}, []string{"a", "b", "c"}, false},
		{[]string{"a", B, "d", "c", E, "d"}, []string{"a", "d"}, true},
		{[]string{"a", "b"}, []string{"a", "b"}, true},
		{[]string{"a", "b"}, []string{"a"}, false},
		{[]string{"a"}, []string{"a", "b"}, false},
	}
	for i, c := range cases {
		got, _, _ := Match(c.model, c.real)
		if got != c.want {
			t.Errorf("case %d: Match(%q, %q) = %v, want %v", i, c.model, c.real, got, c.want)
		}
	}
}
