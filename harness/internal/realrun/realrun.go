// Package realrun executes a generated program on the real interpreter with
// the host functions of gen.Hosts bound, recording the probe trace, and
// judges the recording against the reference model (offline checker of a
// recorded event log against an executable specification).
package realrun

import (
	"context"
	"errors"
	"fmt"
	"reflect"
	"regexp"
	"runtime"
	"sort"
	"strconv"
	"strings"
	"sync"
	"syscall"
	"time"

	"github.com/mattn/anko/ast"
	"github.com/mattn/anko/env"
	"github.com/mattn/anko/vm"

	"verifharness/internal/ank"
	"verifharness/internal/gen"
	"verifharness/internal/refmodel"
)

// Real is what the monitor observed of one execution.
type Real struct {
	Trace         []string
	GTrace        []string
	Value         string
	Err           string // "" | "T<n>" | "<rt>"
	ErrText       string
	Panicked      bool
	PanicSig      string
	PanicVal      string
	Unsettled     bool    // script goroutines were still running when the trace was read
	Overflow      bool    // the event budget was exceeded (runaway)
	TimedOut      bool    // the execution watchdog fired
	SelfCancelled bool    // the program cancelled its own context through hcancel()
	CPUBurn       float64 // process CPU seconds consumed by this execution when it timed out
}

var reThrown = regexp.MustCompile(`^(T\d+)?$`) // thrown messages of generated programs: T<id>, or the empty message

func errClass(text string) string {
	if reThrown.MatchString(text) {
		return text
	}
	return "<rt>"
}

// Recorder owns the traces; its methods are the host functions.
type Recorder struct {
	mu     sync.Mutex
	trace  []string
	gtrace []string
	done   chan struct{}
	waitTO bool
	// event budget: generated programs emit < 3000 events; a run that exceeds the
	// budget is cut short (a logical-step bound, not a time bound)
	// Base: goroutine count before the run started (for gsettle)
	Base          int
	cancel        func()
	overflow      bool
	selfCancelled bool
	// Budget overrides EventBudget when > 0 (volume phases)
	Budget int
}

const EventBudget = 30000

func (r *Recorder) ev(s string) {
	r.mu.Lock()
	budget := EventBudget
	if r.Budget > 0 {
		budget = r.Budget
	}
	if len(r.trace) < budget {
		r.trace = append(r.trace, s)
	} else if !r.overflow {
		r.overflow = true
		if r.cancel != nil {
			r.cancel()
		}
	}
	r.mu.Unlock()
}

// Bind defines the host functions in e.
func (r *Recorder) Bind(e *env.Env) {
	r.done = make(chan struct{}, 1024)
	e.Define("p", func(k interface{}) interface{} { r.ev("p " + ank.Render(k)); return k })
	e.Define("pv", func(k, v interface{}) interface{} { r.ev("pv " + ank.Render(k)); return v })
	e.Define("pe", func(k interface{}) interface{} {
		r.ev("pe " + ank.Render(k))
		panic(errors.New("host failure"))
	})
	e.Define("rd", func(name string, v interface{}) { r.ev("rd " + name + "=" + ank.Render(v)) })
	e.Define("pc", func(v interface{}) {
		text := ""
		if err, ok := v.(error); ok {
			text = err.Error()
		} else {
			text = "non-error:" + ank.Render(v)
		}
		r.ev("catch " + errClass(text))
	})
	// hcancel cancels the context of the run from inside a host call and returns normally
	// (used by the direct checks only; the generators never emit it)
	e.Define("hcancel", func() {
		r.mu.Lock()
		r.selfCancelled = true
		c := r.cancel
		r.mu.Unlock()
		if c != nil {
			c()
		}
	})
	// hnum / hcont: condition values of host types (used by the direct checks only):
	// a number of the named Go kind, a container or string of the named Go type with n entries
	e.Define("hnum", func(kind string, n int64) interface{} { return HostNum(kind, n) })
	e.Define("hcont", func(kind string, n int64) interface{} { return HostCont(kind, int(n)) })
	// hrun runs a source text as a run of its own (fresh environment) and panics with its error,
	// like core's load() does with a file (used by the direct checks only)
	e.Define("hrun", func(src string) interface{} {
		v, err := vm.Execute(env.NewEnv(), nil, src)
		if err != nil {
			panic(err)
		}
		return v
	})
	// nm: a nil typed map handed in by the host (reads of any key yield nil)
	e.Define("nm", map[string]int64(nil))
	e.Define("mb", func(k interface{}) { r.ev("mb " + ank.Render(k)) })
	e.Define("me", func(k interface{}) { r.ev("me " + ank.Render(k)) })
	e.Define("h0", func() { r.ev("h0") })
	e.Define("h1", func(a interface{}) interface{} { r.ev("h1 " + ank.Render(a)); return a })
	e.Define("h2", func(a, b interface{}) interface{} { r.ev("h2 " + ank.Render(a) + " " + ank.Render(b)); return a })
	e.Define("h3", func(a, b, c interface{}) interface{} {
		r.ev("h3 " + ank.Render(a) + " " + ank.Render(b) + " " + ank.Render(c))
		return a
	})
	e.Define("hv", func(a interface{}, rest ...interface{}) int64 {
		if rest == nil {
			rest = []interface{}{}
		}
		r.ev("hv " + ank.Render(a) + " " + ank.Render(rest))
		return int64(len(rest))
	})
	e.Define("hs", func(s string, i int64) string { r.ev("hs " + ank.Render(s) + " " + ank.Render(i)); return s })
	e.Define("hvs", func(s string, nums ...int64) int64 {
		parts := make([]string, len(nums))
		for i, n := range nums {
			parts[i] = ank.Render(n)
		}
		r.ev("hvs " + ank.Render(s) + " [" + strings.Join(parts, " ") + "]")
		return int64(len(nums))
	})
	e.Define("hcb", func(f func()) { r.ev("hcb"); f() })
	e.Define("hcbe", func(f func() error) { r.ev("hcbe"); _ = f() })
	e.Define("hcbv", func(f func() (interface{}, error)) { r.ev("hcbv"); _, _ = f() })
	e.Define("heach", func(l []interface{}, f func(interface{})) {
		r.ev("heach " + fmt.Sprint(len(l)))
		for _, el := range l {
			f(el)
		}
	})
	e.Define("pg", func(k interface{}) interface{} {
		r.mu.Lock()
		r.gtrace = append(r.gtrace, "pg "+ank.Render(k))
		r.mu.Unlock()
		return k
	})
	e.Define("hg", func(rest ...interface{}) {
		if rest == nil {
			rest = []interface{}{}
		}
		r.mu.Lock()
		r.gtrace = append(r.gtrace, "hg "+ank.Render(rest))
		r.mu.Unlock()
	})
	// hgp: a Go function meant to be started with `go` that records on the goroutine trace
	// and then panics: the goroutine ends, its spawner must not notice
	e.Define("hgp", func(k interface{}) {
		r.mu.Lock()
		r.gtrace = append(r.gtrace, "hgp "+ank.Render(k))
		r.mu.Unlock()
		panic(errors.New("host failure on a goroutine"))
	})
	// gsettle: waits until the goroutines the script started have ended (bounded; a
	// barrier for the programs that use hgp, no event)
	e.Define("gsettle", func() {
		for i := 0; i < 4000 && runtime.NumGoroutine() > r.Base; i++ {
			if i < 50 {
				runtime.Gosched()
			} else {
				time.Sleep(200 * time.Microsecond)
			}
		}
	})
	e.Define("gdone", func() { r.done <- struct{}{} })
	e.Define("gwait", func(n interface{}) {
		cnt, _ := n.(int64)
		for i := int64(0); i < cnt; i++ {
			select {
			case <-r.done:
			case <-time.After(20 * time.Second):
				r.waitTO = true
				return
			}
		}
	})
}

// Snapshot returns copies of the traces.
func (r *Recorder) Snapshot() (trace, gtrace []string) {
	r.mu.Lock()
	defer r.mu.Unlock()
	return append([]string(nil), r.trace...), append([]string(nil), r.gtrace...)
}

// NewEnv returns a core environment with a fresh recorder bound.
func NewEnv() (*env.Env, *Recorder) {
	e := ank.NewCoreEnv()
	r := &Recorder{}
	r.Bind(e)
	e.SetExternalLookup(hostLookup{})
	// nil values of script-convention function types (what make([]F, n)[i] yields for a type F
	// made from a script function): every call of them fails
	var nil1 func(context.Context, reflect.Value) (reflect.Value, reflect.Value)
	var nil2 func(context.Context, reflect.Value, reflect.Value) (reflect.Value, reflect.Value)
	e.Define("hnil1", nil1)
	e.Define("hnil2", nil2)
	return e, r
}

// hostLookup answers the one name xl (int64 99) for the outermost scope: a name that is in no
// scope's table, so every script binding of it is nearer and no assignment reaches it.
type hostLookup struct{}

func (hostLookup) Get(name string) (reflect.Value, error) {
	if name == "xl" {
		return reflect.ValueOf(int64(99)), nil
	}
	return reflect.Value{}, fmt.Errorf("undefined symbol '%s'", name)
}

func (hostLookup) Type(name string) (reflect.Type, error) {
	return nil, fmt.Errorf("undefined type '%s'", name)
}

func finish(o ank.Out, rec *Recorder, ctx context.Context) Real {
	var real Real
	real.Trace, real.GTrace = rec.Snapshot()
	if o.Panicked {
		real.Panicked, real.PanicSig, real.PanicVal = true, o.PanicSig, o.PanicVal
		return real
	}
	if rec.overflow {
		real.Overflow = true
		return real
	}
	if rec.selfCancelled {
		// the program cancelled its own context through hcancel(): the outcome is a result, not a watchdog expiry
		real.SelfCancelled = true
		if o.Err != nil {
			real.ErrText = o.Err.Error()
			real.Err = errClass(real.ErrText)
		}
		return real
	}
	if ctx.Err() != nil || rec.waitTO {
		real.TimedOut = true
		return real
	}
	if o.Err != nil {
		real.ErrText = o.Err.Error()
		real.Err = errClass(real.ErrText)
		return real
	}
	real.Value = ank.Render(o.Val)
	return real
}

// waitGoroutines is a completion barrier for script goroutines (their bodies are
// a few host calls): it waits until the goroutine count is back to base.
// Not reaching it is inconclusive, never a violation.
func waitGoroutines(base int) bool {
	for i := 0; i < 4000; i++ {
		if runtime.NumGoroutine() <= base {
			return true
		}
		if i < 50 {
			runtime.Gosched()
		} else {
			time.Sleep(500 * time.Microsecond)
		}
	}
	return false
}

func cpuSeconds() float64 {
	var ru syscall.Rusage
	syscall.Getrusage(syscall.RUSAGE_SELF, &ru)
	return float64(ru.Utime.Sec+ru.Stime.Sec) + float64(ru.Utime.Usec+ru.Stime.Usec)/1e6
}

// ExecWatchdog bounds one execution of a program that terminates by
// construction. Its firing alone is inconclusive; the CPU time burnt decides.
const ExecWatchdog = 4 * time.Second

// Run executes source text in a fresh environment (debug=false).
func Run(src string) Real {
	e, rec := NewEnv()
	ctx, cancel := context.WithTimeout(context.Background(), ExecWatchdog)
	defer cancel()
	rec.cancel = cancel
	c0 := cpuSeconds()
	base := runtime.NumGoroutine()
	rec.Base = base
	o := ank.ExecCtx(ctx, e, src)
	settled := waitGoroutines(base)
	real := finish(o, rec, ctx)
	real.Unsettled = !settled
	if real.TimedOut {
		real.CPUBurn = cpuSeconds() - c0
	}
	return real
}

// RunTree executes an already parsed tree in a fresh environment.
func RunTree(stmt ast.Stmt) Real { return RunTreeWatchdog(stmt, ExecWatchdog, true) }

// RunTreeWatchdog is RunTree with its own watchdog; settle=false skips the
// goroutine completion barrier (for concurrent callers, whose baseline moves).
func RunTreeWatchdog(stmt ast.Stmt, watchdog time.Duration, settle bool) Real {
	e, rec := NewEnv()
	ctx, cancel := context.WithTimeout(context.Background(), watchdog)
	defer cancel()
	rec.cancel = cancel
	c0 := cpuSeconds()
	base := runtime.NumGoroutine()
	rec.Base = base
	o := ank.RunCtx(ctx, e, stmt)
	settled := !settle || waitGoroutines(base)
	real := finish(o, rec, ctx)
	real.Unsettled = !settled
	if real.TimedOut {
		real.CPUBurn = cpuSeconds() - c0
	}
	return real
}

// ---------------------------------------------------------------------------

// Canon sorts the events of every unordered segment (between "mb x" and "me x").
func Canon(tr []string) []string {
	out := append([]string(nil), tr...)
	for i := 0; i < len(out); i++ {
		if strings.HasPrefix(out[i], "mb ") {
			id := out[i][3:]
			for j := i + 1; j < len(out); j++ {
				if out[j] == "me "+id {
					sort.Strings(out[i+1 : j])
					i = j
					break
				}
			}
		}
	}
	return out
}

// Match reports whether the real trace is admitted by the model trace, which
// may contain optional-prefix regions (possibly nested).
//
// A region admits any prefix of what it holds. What it holds is a sequence of
// events and of nested regions, and a nested region that was cut short does not
// end the enclosing one: `g(p(1), (f6(pe(2), …) ?? h(p(9))))` with g's and f6's
// operand lists both optional admits p1 p9 (f6 refused before its first
// operand, g's list carried on). So the language of a region is the union over
// k of L(x1)…L(xk), with L(event) = {event} and L(region) its own (prefix-closed)
// language - not the prefixes of the flattened event list. Which prefix was
// taken is not always decided by the next event alone, so every cut is tried;
// the furthest mismatch is reported.
func Match(model, real []string) (bool, int, int) {
	type node struct {
		ev     string
		pos    int // index in model (for the mismatch report)
		sub    []node
		region bool
	}
	// parse
	var parse func(i int, inRegion bool) ([]node, int)
	parse = func(i int, inRegion bool) ([]node, int) {
		var out []node
		for i < len(model) {
			switch model[i] {
			case refmodel.OptBegin:
				sub, next := parse(i+1, true)
				out = append(out, node{region: true, sub: sub, pos: i})
				i = next
			case refmodel.OptEnd:
				if inRegion {
					return out, i + 1
				}
				i++ // stray end marker: ignore
			default:
				out = append(out, node{ev: model[i], pos: i})
				i++
			}
		}
		return out, i
	}
	top, _ := parse(0, false)
	bestI, bestJ := 0, 0
	note := func(i, j int) {
		if j > bestJ || (j == bestJ && i > bestI) {
			bestI, bestJ = i, j
		}
	}
	steps := 0
	var seq func(ns []node, j int, optional bool, endPos int, k func(int) bool) bool
	seq = func(ns []node, j int, optional bool, endPos int, k func(int) bool) bool {
		steps++
		if steps > 5000000 {
			// give up on pathological nestings: admitted (never a false alarm); does not occur
			// with the generator's sizes (<= 200 events, nesting <= 4)
			return true
		}
		if optional && k(j) {
			return true // the region is cut here
		}
		if len(ns) == 0 {
			if optional {
				return false // the cut at the end was tried above
			}
			return k(j)
		}
		n := ns[0]
		if n.region {
			return seq(n.sub, j, true, n.pos, func(j2 int) bool { return seq(ns[1:], j2, optional, endPos, k) })
		}
		if j < len(real) && real[j] == n.ev {
			return seq(ns[1:], j+1, optional, endPos, k)
		}
		note(n.pos, j)
		return false
	}
	if seq(top, 0, false, len(model), func(j int) bool {
		if j == len(real) {
			return true
		}
		note(len(model), j)
		return false
	}) {
		return true, len(model), len(real)
	}
	return false, bestI, bestJ
}

func sameMultiset(a, b []string) bool {
	if len(a) != len(b) {
		return false
	}
	x := append([]string(nil), a...)
	y := append([]string(nil), b...)
	sort.Strings(x)
	sort.Strings(y)
	for i := range x {
		if x[i] != y[i] {
			return false
		}
	}
	return true
}

// Verdict of judging one recording.
type Verdict struct {
	Kind    string // ok | finding | violation | excluded | inconclusive
	Finding string // name of the finding flag that explains the recording
	Sig     string // violation signature
	Detail  string
	Variant string // the admissible variant that matched
}

func admits(m refmodel.Outcome, real Real) (bool, string) {
	ok, mi, rj := Match(Canon(m.Trace), Canon(real.Trace))
	if !ok {
		exp, got := "<end>", "<end>"
		ct := Canon(m.Trace)
		if mi < len(ct) {
			exp = ct[mi]
		}
		cr := Canon(real.Trace)
		if rj < len(cr) {
			got = cr[rj]
		}
		return false, fmt.Sprintf("trace diverges at event %d: model expects %q, observed %q", rj, exp, got)
	}
	if !sameMultiset(m.GTrace, real.GTrace) {
		return false, fmt.Sprintf("goroutine events differ: model %v observed %v", m.GTrace, real.GTrace)
	}
	if m.Err != real.Err {
		return false, fmt.Sprintf("error status: model %q observed %q (%s)", m.Err, real.Err, real.ErrText)
	}
	if m.Err == "" && m.HasValue && m.Value != real.Value {
		return false, fmt.Sprintf("result value: model %s observed %s", m.Value, real.Value)
	}
	return true, ""
}

func abstractEvent(s string) string {
	if i := strings.IndexAny(s, " ="); i > 0 {
		return s[:i]
	}
	return s
}

// Judge compares a recording with every admissible model variant, then with
// the listed finding flags.
func Judge(prog []gen.Stmt, real Real) Verdict {
	if real.Overflow {
		if m := refmodel.Run(prog, refmodel.Flags{}); m.Unspec == "" && len(m.Trace) < EventBudget/4 {
			return Verdict{Kind: "violation", Sig: "nontermination", Detail: fmt.Sprintf("the model emits %d events and terminates; the interpreter emitted more than %d and was cut short; observed trace prefix: %q", len(m.Trace), EventBudget, head(real.Trace, 30))}
		}
		return Verdict{Kind: "excluded", Detail: "event budget exceeded by a program the model does not bound"}
	}
	if real.TimedOut {
		// the program terminates by construction (the model terminates); a run that
		// burnt > 1 CPU-second (normal: < 5 ms) is a runaway loop, decided on CPU
		// time, not on the wall clock
		if real.CPUBurn >= 1.0 {
			if m := refmodel.Run(prog, refmodel.Flags{}); m.Unspec == "" {
				return Verdict{Kind: "violation", Sig: "nontermination", Detail: fmt.Sprintf("the program terminates in the model but the interpreter was still running after %.1f CPU-seconds; observed trace prefix: %q", real.CPUBurn, head(real.Trace, 30))}
			}
		}
		return Verdict{Kind: "inconclusive", Detail: "execution watchdog"}
	}
	if real.Unsettled {
		return Verdict{Kind: "inconclusive", Detail: "script goroutines still running"}
	}
	if real.Panicked {
		return Verdict{Kind: "violation", Sig: real.PanicSig, Detail: "panic escaped: " + real.PanicVal}
	}
	var firstWhy string
	var firstModel refmodel.Outcome
	sawUnspec := ""
	for bits := 0; bits < 64; bits++ {
		fl := refmodel.Flags{LoopPerIter: bits&1 != 0, TrySeparate: bits&2 != 0, FinallyOnAbrupt: bits&4 != 0, DeferErrLast: bits&8 != 0, StrayControlNoop: bits&16 != 0, ForInScalarSkips: bits&32 != 0}
		m := refmodel.Run(prog, fl)
		if m.Unspec != "" {
			sawUnspec = m.Unspec
			continue
		}
		ok, why := admits(m, real)
		if ok {
			return Verdict{Kind: "ok", Variant: fmt.Sprintf("%+v", fl)}
		}
		if firstWhy == "" {
			firstWhy, firstModel = why, m
		}
	}
	if sawUnspec != "" {
		return Verdict{Kind: "excluded", Detail: sawUnspec}
	}
	findingUnspec := ""
	// listed findings: each finding flag alone, then both together
	type fset struct {
		name     string
		try, zps bool
	}
	for _, fs := range []fset{{"try-catches-control-signals", true, false}, {"zero-param-spread-ignores-operands", false, true}, {"try-catches-control-signals+zero-param-spread-ignores-operands", true, true}} {
		for bits := 0; bits < 64; bits++ {
			fl := refmodel.Flags{LoopPerIter: bits&1 != 0, TrySeparate: bits&2 != 0, FinallyOnAbrupt: bits&4 != 0, DeferErrLast: bits&8 != 0, StrayControlNoop: bits&16 != 0, ForInScalarSkips: bits&32 != 0,
				TryCatchesControl: fs.try, ZeroParamSpread: fs.zps}
			m := refmodel.Run(prog, fl)
			if !m.UsedFinding {
				continue
			}
			if m.Unspec != "" {
				// the listed deviation steers the program into territory the statements
				// do not determine: it cannot be judged either way
				findingUnspec = m.Unspec
				continue
			}
			if ok, _ := admits(m, real); ok {
				return Verdict{Kind: "finding", Finding: fs.name, Variant: fmt.Sprintf("%+v", fl)}
			}
		}
	}
	if findingUnspec != "" {
		return Verdict{Kind: "excluded", Detail: "after a listed known finding: " + findingUnspec}
	}
	// signature: kind of divergence + the kinds of the two events involved
	sig := "mismatch:"
	switch {
	case strings.HasPrefix(firstWhy, "trace"):
		_, mi, rj := Match(Canon(firstModel.Trace), Canon(real.Trace))
		exp, got := "end", "end"
		if ct := Canon(firstModel.Trace); mi < len(ct) {
			exp = abstractEvent(ct[mi])
		}
		if cr := Canon(real.Trace); rj < len(cr) {
			got = abstractEvent(cr[rj])
		}
		sig += "trace:exp=" + exp + ":got=" + got
	case strings.HasPrefix(firstWhy, "error status"):
		sig += "error-status:model=" + classOnly(firstModel.Err) + ":real=" + classOnly(real.Err)
	case strings.HasPrefix(firstWhy, "result"):
		sig += "value"
	default:
		sig += "goroutine-events"
	}
	return Verdict{Kind: "violation", Sig: sig, Detail: firstWhy + fmt.Sprintf("\nmodel trace (variant 0): %q\nobserved trace: %q", Canon(firstModel.Trace), Canon(real.Trace))}
}

func head(tr []string, n int) []string {
	if len(tr) > n {
		return tr[:n]
	}
	return tr
}

func classOnly(e string) string {
	switch {
	case e == "":
		return "none"
	case e == "<rt>":
		return "runtime"
	}
	return "thrown"
}

// HostNumKinds / HostContKinds list what hnum / hcont can make.
var HostNumKinds = []string{"int", "int8", "int16", "int32", "int64", "uint", "uint8", "uint16", "uint32", "uint64", "uintptr", "float32", "float64", "duration"}
var HostContKinds = []string{"[]int64", "[]string", "[]interface", "map[string]int64", "map[interface]interface", "namedstring", "[]byte"}

type hostNamedString string

// HostNum returns n as a value of the named Go number kind.
func HostNum(kind string, n int64) interface{} {
	switch kind {
	case "int":
		return int(n)
	case "int8":
		return int8(n)
	case "int16":
		return int16(n)
	case "int32":
		return int32(n)
	case "int64":
		return n
	case "uint":
		return uint(n)
	case "uint8":
		return uint8(n)
	case "uint16":
		return uint16(n)
	case "uint32":
		return uint32(n)
	case "uint64":
		return uint64(n)
	case "uintptr":
		return uintptr(n)
	case "float32":
		return float32(n)
	case "float64":
		return float64(n)
	case "duration":
		return time.Duration(n)
	}
	return nil
}

// HostCont returns a container (or string) of the named Go type with n entries.
func HostCont(kind string, n int) interface{} {
	switch kind {
	case "[]int64":
		return make([]int64, n)
	case "[]string":
		return make([]string, n)
	case "[]interface":
		return make([]interface{}, n)
	case "[]byte":
		return make([]byte, n)
	case "map[string]int64":
		m := map[string]int64{}
		for i := 0; i < n; i++ {
			m["k"+strconv.Itoa(i)] = 0
		}
		return m
	case "map[interface]interface":
		m := map[interface{}]interface{}{}
		for i := 0; i < n; i++ {
			m[int64(i)] = nil
		}
		return m
	case "namedstring":
		return hostNamedString(strings.Repeat("x", n))
	}
	return nil
}

// ---------------------------------------------------------------------------
// Sessions: several source texts executed one after another in ONE environment
// (what a host does that keeps an interpreter alive), with an event budget and
// a watchdog of their own. Used by the volume / history phases.

type Session struct {
	E   *env.Env
	Rec *Recorder
}

// NewSession returns a core environment with the host functions bound and the given event budget per Exec.
func NewSession(budget int) *Session {
	e, rec := NewEnv()
	rec.Budget = budget
	return &Session{E: e, Rec: rec}
}

// Exec runs src in the session's environment; the returned trace holds the events of this call only.
func (s *Session) Exec(src string, watchdog time.Duration) Real {
	s.Rec.mu.Lock()
	s.Rec.trace, s.Rec.gtrace, s.Rec.overflow = nil, nil, false
	s.Rec.mu.Unlock()
	ctx, cancel := context.WithTimeout(context.Background(), watchdog)
	defer cancel()
	s.Rec.cancel = cancel
	c0 := cpuSeconds()
	base := runtime.NumGoroutine()
	s.Rec.Base = base
	o := ank.ExecCtx(ctx, s.E, src)
	settled := waitGoroutines(base)
	real := finish(o, s.Rec, ctx)
	real.Unsettled = !settled
	if real.TimedOut {
		real.CPUBurn = cpuSeconds() - c0
	}
	return real
}

// RunNoCtx executes source text with vm.Execute, i.e. under a context that cannot be cancelled
// (programs that terminate by construction only: there is no watchdog but the worker's).
func RunNoCtx(src string) Real {
	e, rec := NewEnv()
	base := runtime.NumGoroutine()
	rec.Base = base
	o := ank.Exec(e, src)
	settled := waitGoroutines(base)
	real := finish(o, rec, context.Background())
	real.Unsettled = !settled
	return real
}
