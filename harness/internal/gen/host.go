package gen

// Host functions bound into every generated program's environment. The table is
// the single specification shared by the reference model (package refmodel) and
// the real bindings (package realrun).

type HostSpec struct {
	Name     string
	Params   []string // "any", "string", "int64"
	Variadic bool     // last entry of Params is the element type of the variadic tail
	NilFunc  bool     // a nil function value: every call of it fails (its operands each evaluated at most once, in order)
}

var Hosts = map[string]*HostSpec{
	"p":       {Name: "p", Params: []string{"any"}},                               // event, returns its argument
	"pv":      {Name: "pv", Params: []string{"any", "any"}},                       // event on k, returns v
	"pe":      {Name: "pe", Params: []string{"any"}},                              // event, then fails
	"rd":      {Name: "rd", Params: []string{"string", "any"}},                    // read-back probe
	"pc":      {Name: "pc", Params: []string{"any"}},                              // catch-variable probe
	"mb":      {Name: "mb", Params: []string{"any"}},                              // begin of an unordered (map iteration) segment
	"me":      {Name: "me", Params: []string{"any"}},                              // end of it
	"h0":      {Name: "h0", Params: []string{}},                                   // Go function, no parameters
	"h1":      {Name: "h1", Params: []string{"any"}},                              // returns a
	"h2":      {Name: "h2", Params: []string{"any", "any"}},                       // returns a
	"h3":      {Name: "h3", Params: []string{"any", "any", "any"}},                // returns a
	"hv":      {Name: "hv", Params: []string{"any", "any"}, Variadic: true},       // (a, rest...) returns len(rest)
	"hs":      {Name: "hs", Params: []string{"string", "int64"}},                  // typed parameters, returns s
	"hvs":     {Name: "hvs", Params: []string{"string", "int64"}, Variadic: true}, // (s, nums...) returns len(nums)
	"hcb":     {Name: "hcb", Params: []string{"func"}},                            // Go function taking func(): calls it
	"hcbe":    {Name: "hcbe", Params: []string{"func"}},                           // Go function taking func() error: calls it, ignores the error VALUE it returns
	"hcbv":    {Name: "hcbv", Params: []string{"func"}},                           // Go function taking func() (interface{}, error): calls it, ignores both results
	"heach":   {Name: "heach", Params: []string{"any", "func"}},                   // Go function taking (list, func(interface{})): calls it per element
	"pg":      {Name: "pg", Params: []string{"any"}},                              // event on the goroutine trace
	"hg":      {Name: "hg", Params: []string{"any"}, Variadic: true},              // Go function meant to be started with `go`: event on the goroutine trace
	"hgp":     {Name: "hgp", Params: []string{"any"}},                             // Go function meant to be started with `go`: event on the goroutine trace, then panics
	"gsettle": {Name: "gsettle", Params: []string{}},                              // waits until the script's goroutines have ended
	"gdone":   {Name: "gdone", Params: []string{}},                                // goroutine completion signal
	"gwait":   {Name: "gwait", Params: []string{"any"}},                           // wait for n completion signals
	"hnil1":   {Name: "hnil1", Params: []string{"any"}, NilFunc: true},            // nil value of a script-convention function type, one parameter
	"hnil2":   {Name: "hnil2", Params: []string{"any", "any"}, NilFunc: true},     // the same, two parameters
}
