// Package gen holds the program IR shared by the generators, the pretty-printer
// to anko source, and (in package refmodel) the reference interpreter.
package gen

import (
	"strconv"
	"strings"
)

// ---------------------------------------------------------------- expressions

type Expr interface{ isExpr() }

type (
	// IntLit etc. are literals.
	IntLit   struct{ V int64 }
	FloatLit struct{ V float64 } // only used as a condition value
	StrLit   struct{ V string }
	BoolLit  struct{ V bool }
	NilLit   struct{}
	Name     struct{ N string }
	ListLit  struct{ Elems []Expr }
	MapLit   struct {
		Keys []Expr // string-valued expressions (usually StrLit)
		Vals []Expr
		// Typed: spelled map[string]int64{...} (int values only; the generator uses it where
		// only the evaluation of the operands and the length are observed)
		Typed bool
	}
	Unary struct {
		Op string
		X  Expr
	} // "-" "!"
	Binary struct {
		Op   string
		L, R Expr
	} // + - * % == != < <= > >=
	Logic struct {
		Op   string
		L, R Expr
	} // && ||
	Ternary  struct{ C, T, F Expr }
	Coalesce struct{ L, R Expr }
	Index    struct{ X, I Expr }
	SliceE   struct{ X, Lo, Hi, Cap Expr } // Lo/Hi/Cap may be nil
	Member   struct {
		X    Expr
		Name string
	}
	Len    struct{ X Expr }
	In     struct{ X, L Expr }
	Paren  struct{ X Expr }
	AddrOf struct{ X Expr } // &x, &a[i]
	// Call: named call when Callee == nil (callee looked up by Fn), anonymous otherwise.
	Call struct {
		Fn     string
		Callee Expr
		Args   []Expr
		Spread bool // last argument is spread with ...
	}
	FuncLit struct {
		Name     string
		Params   []string
		Variadic bool
		Body     []Stmt
	}
	// OpAssign is `target op= r`; IncDec when R == nil (Op "+" or "-", printed as ++/--).
	OpAssign struct {
		Target Expr
		Op     string
		R      Expr
	}
)

func (*IntLit) isExpr()   {}
func (*FloatLit) isExpr() {}
func (*StrLit) isExpr()   {}
func (*BoolLit) isExpr()  {}
func (*NilLit) isExpr()   {}
func (*Name) isExpr()     {}
func (*ListLit) isExpr()  {}
func (*MapLit) isExpr()   {}
func (*Unary) isExpr()    {}
func (*Binary) isExpr()   {}
func (*Logic) isExpr()    {}
func (*Ternary) isExpr()  {}
func (*Coalesce) isExpr() {}
func (*Index) isExpr()    {}
func (*SliceE) isExpr()   {}
func (*Member) isExpr()   {}
func (*Len) isExpr()      {}
func (*In) isExpr()       {}
func (*Paren) isExpr()    {}
func (*AddrOf) isExpr()   {}
func (*Call) isExpr()     {}
func (*FuncLit) isExpr()  {}
func (*OpAssign) isExpr() {}

// ----------------------------------------------------------------- statements

type Stmt interface{ isStmt() }

type (
	ExprStmt struct{ X Expr }
	VarStmt  struct {
		Names []string
		Exprs []Expr
	}
	Assign struct {
		LHS []Expr
		RHS []Expr
		// Unaliased: the generator guarantees that the containers the targets designate have no
		// other names, so a store at index len (an append) is visible exactly through the target
		Unaliased bool
	}
	ElseIf struct {
		Cond Expr
		Body []Stmt
	}
	If struct {
		Cond    Expr
		Then    []Stmt
		ElseIfs []ElseIf
		Else    []Stmt
		HasElse bool
	}
	Loop struct {
		Cond Expr // nil = for { }
		Body []Stmt
	}
	CFor struct {
		Init Stmt // nil, VarStmt or Assign
		Cond Expr
		Post Expr
		Body []Stmt
	}
	ForIn struct {
		Vars []string
		X    Expr
		Body []Stmt
	}
	Case struct {
		Exprs []Expr
		Body  []Stmt
	}
	Switch struct {
		X          Expr
		Cases      []Case
		Default    []Stmt
		HasDefault bool
		DefaultPos int // index among the cases where `default:` is printed
	}
	Break    struct{}
	Continue struct{}
	Return   struct{ Exprs []Expr }
	Throw    struct{ X Expr }
	Try      struct {
		Body       []Stmt
		CatchVar   string
		Catch      []Stmt
		Finally    []Stmt
		HasFinally bool
	}
	// MapItemAssign is `v, ok = m[k]` (the grammar's two-name assignment from an index expression)
	MapItemAssign struct {
		V, Ok string
		X     *Index
	}
	Defer  struct{ C *Call }
	Go     struct{ C *Call }
	Module struct {
		Name string
		Body []Stmt
	}
)

func (*ExprStmt) isStmt()      {}
func (*VarStmt) isStmt()       {}
func (*Assign) isStmt()        {}
func (*If) isStmt()            {}
func (*Loop) isStmt()          {}
func (*CFor) isStmt()          {}
func (*ForIn) isStmt()         {}
func (*Switch) isStmt()        {}
func (*Break) isStmt()         {}
func (*Continue) isStmt()      {}
func (*Return) isStmt()        {}
func (*Throw) isStmt()         {}
func (*Try) isStmt()           {}
func (*Defer) isStmt()         {}
func (*MapItemAssign) isStmt() {}
func (*Go) isStmt()            {}
func (*Module) isStmt()        {}

// -------------------------------------------------------------------- printer

type printer struct {
	b   strings.Builder
	ind int
}

// Source prints a program as anko source.
func Source(prog []Stmt) string {
	p := &printer{}
	p.stmts(prog)
	return p.b.String()
}

// ExprSource prints one expression.
func ExprSource(e Expr) string {
	p := &printer{}
	p.expr(e)
	return p.b.String()
}

func (p *printer) nl() {
	p.b.WriteByte('\n')
	for i := 0; i < p.ind; i++ {
		p.b.WriteString("  ")
	}
}

func (p *printer) stmts(ss []Stmt) {
	for i, s := range ss {
		if i > 0 {
			p.nl()
		}
		p.stmt(s)
	}
}

func (p *printer) block(ss []Stmt) {
	p.b.WriteString("{")
	p.ind++
	for _, s := range ss {
		p.nl()
		p.stmt(s)
	}
	p.ind--
	p.nl()
	p.b.WriteString("}")
}

func (p *printer) exprs(es []Expr) {
	for i, e := range es {
		if i > 0 {
			p.b.WriteString(", ")
		}
		p.expr(e)
	}
}

func (p *printer) stmt(s Stmt) {
	switch s := s.(type) {
	case *ExprStmt:
		p.expr(s.X)
	case *VarStmt:
		p.b.WriteString("var " + strings.Join(s.Names, ", ") + " = ")
		p.exprs(s.Exprs)
	case *Assign:
		p.exprs(s.LHS)
		p.b.WriteString(" = ")
		p.exprs(s.RHS)
	case *If:
		p.b.WriteString("if ")
		p.expr(s.Cond)
		p.b.WriteString(" ")
		p.block(s.Then)
		for _, ei := range s.ElseIfs {
			p.b.WriteString(" else if ")
			p.expr(ei.Cond)
			p.b.WriteString(" ")
			p.block(ei.Body)
		}
		if s.HasElse {
			p.b.WriteString(" else ")
			p.block(s.Else)
		}
	case *Loop:
		p.b.WriteString("for ")
		if s.Cond != nil {
			p.expr(s.Cond)
			p.b.WriteString(" ")
		}
		p.block(s.Body)
	case *CFor:
		p.b.WriteString("for ")
		if s.Init != nil {
			p.stmt(s.Init)
		}
		p.b.WriteString("; ")
		if s.Cond != nil {
			p.expr(s.Cond)
		}
		p.b.WriteString("; ")
		if s.Post != nil {
			p.expr(s.Post)
			p.b.WriteString(" ")
		}
		p.block(s.Body)
	case *ForIn:
		p.b.WriteString("for " + strings.Join(s.Vars, ", ") + " in ")
		p.expr(s.X)
		p.b.WriteString(" ")
		p.block(s.Body)
	case *Switch:
		p.b.WriteString("switch ")
		p.expr(s.X)
		p.b.WriteString(" {")
		printDefault := func() {
			p.nl()
			p.b.WriteString("default:")
			p.ind++
			for _, st := range s.Default {
				p.nl()
				p.stmt(st)
			}
			p.ind--
		}
		for i, c := range s.Cases {
			if s.HasDefault && s.DefaultPos == i {
				printDefault()
			}
			p.nl()
			p.b.WriteString("case ")
			p.exprs(c.Exprs)
			p.b.WriteString(":")
			p.ind++
			for _, st := range c.Body {
				p.nl()
				p.stmt(st)
			}
			p.ind--
		}
		if s.HasDefault && s.DefaultPos >= len(s.Cases) {
			printDefault()
		}
		p.nl()
		p.b.WriteString("}")
	case *Break:
		p.b.WriteString("break")
	case *Continue:
		p.b.WriteString("continue")
	case *Return:
		p.b.WriteString("return")
		if len(s.Exprs) > 0 {
			p.b.WriteString(" ")
			p.exprs(s.Exprs)
		}
	case *Throw:
		p.b.WriteString("throw ")
		p.expr(s.X)
	case *Try:
		p.b.WriteString("try ")
		p.block(s.Body)
		p.b.WriteString(" catch ")
		if s.CatchVar != "" {
			p.b.WriteString(s.CatchVar + " ")
		}
		p.block(s.Catch)
		if s.HasFinally {
			p.b.WriteString(" finally ")
			p.block(s.Finally)
		}
	case *MapItemAssign:
		p.b.WriteString(s.V + ", " + s.Ok + " = ")
		p.expr(s.X)
	case *Defer:
		p.b.WriteString("defer ")
		p.expr(s.C)
	case *Go:
		p.b.WriteString("go ")
		p.expr(s.C)
	case *Module:
		p.b.WriteString("module " + s.Name + " ")
		p.block(s.Body)
	default:
		panic("gen: unknown statement")
	}
}

func (p *printer) expr(e Expr) {
	switch e := e.(type) {
	case *IntLit:
		if e.V < 0 {
			p.b.WriteString("(" + strconv.FormatInt(e.V, 10) + ")")
		} else {
			p.b.WriteString(strconv.FormatInt(e.V, 10))
		}
	case *FloatLit:
		s := strconv.FormatFloat(e.V, 'f', 1, 64)
		if e.V < 0 {
			s = "(" + s + ")"
		}
		p.b.WriteString(s)
	case *StrLit:
		p.b.WriteString(strconv.Quote(e.V))
	case *BoolLit:
		p.b.WriteString(strconv.FormatBool(e.V))
	case *NilLit:
		p.b.WriteString("nil")
	case *Name:
		p.b.WriteString(e.N)
	case *ListLit:
		p.b.WriteString("[")
		p.exprs(e.Elems)
		p.b.WriteString("]")
	case *MapLit:
		if e.Typed {
			p.b.WriteString("map[string]int64")
		}
		p.b.WriteString("{")
		for i := range e.Keys {
			if i > 0 {
				p.b.WriteString(", ")
			}
			p.expr(e.Keys[i])
			p.b.WriteString(": ")
			p.expr(e.Vals[i])
		}
		p.b.WriteString("}")
	case *Unary:
		p.b.WriteString("(" + e.Op)
		p.expr(e.X)
		p.b.WriteString(")")
	case *Binary:
		p.b.WriteString("(")
		p.expr(e.L)
		p.b.WriteString(" " + e.Op + " ")
		p.expr(e.R)
		p.b.WriteString(")")
	case *Logic:
		p.b.WriteString("(")
		p.expr(e.L)
		p.b.WriteString(" " + e.Op + " ")
		p.expr(e.R)
		p.b.WriteString(")")
	case *Ternary:
		p.b.WriteString("(")
		p.expr(e.C)
		p.b.WriteString(" ? ")
		p.expr(e.T)
		p.b.WriteString(" : ")
		p.expr(e.F)
		p.b.WriteString(")")
	case *Coalesce:
		p.b.WriteString("(")
		p.expr(e.L)
		p.b.WriteString(" ?? ")
		p.expr(e.R)
		p.b.WriteString(")")
	case *Index:
		p.postfixOperand(e.X)
		p.b.WriteString("[")
		p.expr(e.I)
		p.b.WriteString("]")
	case *SliceE:
		p.postfixOperand(e.X)
		p.b.WriteString("[")
		if e.Lo != nil {
			p.expr(e.Lo)
		}
		p.b.WriteString(":")
		if e.Hi != nil {
			p.expr(e.Hi)
		}
		if e.Cap != nil {
			p.b.WriteString(":")
			p.expr(e.Cap)
		}
		p.b.WriteString("]")
	case *Member:
		p.postfixOperand(e.X)
		p.b.WriteString("." + e.Name)
	case *Len:
		p.b.WriteString("len(")
		p.expr(e.X)
		p.b.WriteString(")")
	case *In:
		p.b.WriteString("(")
		p.expr(e.X)
		p.b.WriteString(" in ")
		p.expr(e.L)
		p.b.WriteString(")")
	case *Paren:
		p.b.WriteString("(")
		p.expr(e.X)
		p.b.WriteString(")")
	case *AddrOf:
		p.b.WriteString("&")
		p.expr(e.X)
	case *Call:
		if e.Callee == nil {
			p.b.WriteString(e.Fn)
		} else {
			p.postfixOperand(e.Callee)
		}
		p.b.WriteString("(")
		p.exprs(e.Args)
		if e.Spread {
			p.b.WriteString("...")
		}
		p.b.WriteString(")")
	case *FuncLit:
		p.b.WriteString("func")
		if e.Name != "" {
			p.b.WriteString(" " + e.Name)
		}
		p.b.WriteString("(" + strings.Join(e.Params, ", "))
		if e.Variadic {
			p.b.WriteString("...")
		}
		p.b.WriteString(") ")
		p.block(e.Body)
	case *OpAssign:
		p.expr(e.Target)
		if e.R == nil {
			p.b.WriteString(e.Op + e.Op)
		} else {
			p.b.WriteString(" " + e.Op + "= ")
			p.expr(e.R)
		}
	default:
		panic("gen: unknown expression")
	}
}

// postfixOperand prints the operand of a postfix form, parenthesised unless it is
// a name or itself a postfix/primary form.
func (p *printer) postfixOperand(e Expr) {
	switch e.(type) {
	case *Name, *Index, *Member, *Call, *Paren, *ListLit:
		p.expr(e)
	case *FuncLit, *MapLit, *SliceE:
		p.b.WriteString("(")
		p.expr(e)
		p.b.WriteString(")")
	default:
		p.expr(e) // Binary, Unary … already print their own parentheses
	}
}
