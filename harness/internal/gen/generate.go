package gen

import (
	"math/rand"
	"strconv"
)

// Profile weights the statement generator towards one property.
type Profile int

const (
	ProfScope   Profile = iota // C04
	ProfControl                // C08
	ProfError                  // C09
)

// G is a PRNG-driven, depth-bounded generator of terminating programs.
type G struct {
	noAddr          bool
	R               *rand.Rand
	Prof            Profile
	k               int // next probe id
	nfn             int // next function / module / counter name
	budget          int
	pool            []string       // int-valued names used at every nesting level
	Feat            map[string]int // features used (for coverage tags / non-triviality)
	funcs           []fnInfo       // callable script functions in scope (lexically)
	defined         []map[string]bool
	allowTryControl bool
	nestedFuncs     []nestedFunc
}

type nestedFunc struct {
	name  string
	depth int
}

func isAbruptAny(s Stmt) bool {
	switch s.(type) {
	case *Return, *Throw, *Break, *Continue:
		return true
	}
	return false
}

type fnInfo struct {
	name     string
	nparams  int
	variadic bool
}

type ctx struct {
	depth  int
	inLoop bool // break/continue allowed
	inFunc bool
	tryBrk bool // a break/continue here would leave a try body (known finding territory)
	tryRet bool // a return here would leave a try body
}

func New(r *rand.Rand, prof Profile) *G {
	g := &G{R: r, Prof: prof, pool: []string{"a", "b", "c", "x"}, Feat: map[string]int{}}
	g.defined = []map[string]bool{{}}
	return g
}

func (g *G) feat(s string) { g.Feat[s]++ }

func (g *G) probeID() int64 { g.k++; return int64(g.k) }

func (g *G) fresh(prefix string) string { g.nfn++; return prefix + strconv.Itoa(g.nfn) }

func (g *G) isDefined(n string) bool {
	for i := len(g.defined) - 1; i >= 0; i-- {
		if g.defined[i][n] {
			return true
		}
	}
	return false
}
func (g *G) markDefined(n string) { g.defined[len(g.defined)-1][n] = true }
func (g *G) push()                { g.defined = append(g.defined, map[string]bool{}) }
func (g *G) pop()                 { g.defined = g.defined[:len(g.defined)-1] }

// scoped generates a nested block with its own lexical bookkeeping.
func (g *G) scoped(f func() []Stmt) []Stmt {
	g.push()
	nf := len(g.funcs)
	ss := f()
	g.funcs = g.funcs[:nf]
	g.pop()
	return ss
}

func (g *G) pick(names []string) string { return names[g.R.Intn(len(names))] }

func (g *G) definedPool() []string {
	var out []string
	for _, n := range g.pool {
		if g.isDefined(n) {
			out = append(out, n)
		}
	}
	return out
}

// ---- expressions ----

func P(k int64) Expr { return &Call{Fn: "p", Args: []Expr{&IntLit{V: k}}} }

func (g *G) p() Expr { return P(g.probeID()) }

// IntExpr generates an int-valued expression without deliberate failures.
func (g *G) IntExpr(d int) Expr {
	g.budget--
	if d <= 0 || g.R.Intn(3) == 0 {
		switch r := g.R.Intn(10); {
		case r < 4:
			return &IntLit{V: int64(g.R.Intn(7))}
		case r < 8:
			if dp := g.definedPool(); len(dp) > 0 {
				return &Name{N: g.pick(dp)}
			}
			return &IntLit{V: int64(g.R.Intn(7))}
		default:
			return g.p()
		}
	}
	switch r := g.R.Intn(16); {
	case r < 5:
		return &Binary{Op: []string{"+", "-", "*"}[g.R.Intn(3)], L: g.IntExpr(d - 1), R: g.IntExpr(d - 1)}
	case r < 7:
		return &Ternary{C: g.CondExpr(d - 1), T: g.IntExpr(d - 1), F: g.IntExpr(d - 1)}
	case r < 8:
		return &Coalesce{L: g.IntExpr(d - 1), R: g.IntExpr(d - 1)}
	case r < 9:
		return &Call{Fn: "pv", Args: []Expr{&IntLit{V: g.probeID()}, g.IntExpr(d - 1)}}
	case r < 10:
		n := 1 + g.R.Intn(3)
		l := &ListLit{}
		for i := 0; i < n; i++ {
			l.Elems = append(l.Elems, g.IntExpr(d-1))
		}
		return &Index{X: l, I: &IntLit{V: int64(g.R.Intn(n))}}
	case r < 11:
		n := g.R.Intn(3)
		l := &ListLit{}
		for i := 0; i < n; i++ {
			l.Elems = append(l.Elems, g.IntExpr(0))
		}
		return &Len{X: l}
	case r < 14:
		if len(g.funcs) > 0 {
			f := g.funcs[g.R.Intn(len(g.funcs))]
			return g.callOf(f, d-1)
		}
		return g.p()
	default:
		return &Unary{Op: "-", X: g.IntExpr(d - 1)}
	}
}

func (g *G) callOf(f fnInfo, d int) Expr {
	g.feat("call")
	c := &Call{Fn: f.name}
	n := f.nparams
	if f.variadic {
		n = f.nparams - 1 + g.R.Intn(3)
	}
	for i := 0; i < n; i++ {
		c.Args = append(c.Args, g.IntExpr(d))
	}
	return c
}

var truthClasses = []func() Expr{
	func() Expr { return &NilLit{} },
	func() Expr { return &BoolLit{V: true} },
	func() Expr { return &BoolLit{V: false} },
	func() Expr { return &IntLit{V: 0} },
	func() Expr { return &IntLit{V: 1} },
	func() Expr { return &IntLit{V: -3} },
	func() Expr { return &FloatLit{V: 0} },
	func() Expr { return &FloatLit{V: 2.5} },
	func() Expr { return &StrLit{V: ""} },
	func() Expr { return &StrLit{V: "a"} },
	func() Expr { return &ListLit{} },
	func() Expr { return &ListLit{Elems: []Expr{&IntLit{V: 1}}} },
	func() Expr { return &MapLit{} },
	func() Expr { return &MapLit{Keys: []Expr{&StrLit{V: "k"}}, Vals: []Expr{&IntLit{V: 1}}} },
}

// CondExpr generates a condition.
func (g *G) CondExpr(d int) Expr {
	g.budget--
	if d <= 0 || g.R.Intn(3) == 0 {
		if g.Prof == ProfControl && g.R.Intn(2) == 0 {
			g.feat("truth-class")
			e := truthClasses[g.R.Intn(len(truthClasses))]()
			if g.R.Intn(2) == 0 {
				return &Call{Fn: "pv", Args: []Expr{&IntLit{V: g.probeID()}, e}}
			}
			if _, ok := e.(*MapLit); ok {
				return &Paren{X: e}
			}
			return e
		}
		return &Binary{Op: []string{"==", "!=", "<", "<=", ">", ">="}[g.R.Intn(6)], L: g.IntExpr(0), R: g.IntExpr(0)}
	}
	switch r := g.R.Intn(8); {
	case r < 3:
		return &Binary{Op: []string{"==", "!=", "<", "<=", ">", ">="}[g.R.Intn(6)], L: g.IntExpr(d - 1), R: g.IntExpr(d - 1)}
	case r < 5:
		g.feat("logic")
		return &Logic{Op: []string{"&&", "||"}[g.R.Intn(2)], L: g.CondExpr(d - 1), R: g.CondExpr(d - 1)}
	case r < 6:
		return &Unary{Op: "!", X: g.CondExpr(d - 1)}
	default:
		return &Binary{Op: []string{"<", ">="}[g.R.Intn(2)], L: g.p(), R: &IntLit{V: int64(g.k)}}
	}
}

// failing expression statement: a deliberate runtime error
func (g *G) failExpr() Expr {
	g.feat("runtime-error")
	switch g.R.Intn(4) {
	case 0:
		return &Name{N: "zz_undefined"}
	case 1:
		return &Binary{Op: "%", L: &IntLit{V: 1}, R: &IntLit{V: 0}}
	case 2:
		return &Index{X: &ListLit{Elems: []Expr{&IntLit{V: 1}}}, I: &IntLit{V: 5}}
	default:
		return &Call{Fn: "pe", Args: []Expr{&IntLit{V: g.probeID()}}}
	}
}

// ---- statements ----

// ReadBacks returns read-back probes of every pool name.
func (g *G) ReadBacks() []Stmt {
	var ss []Stmt
	for _, n := range g.pool {
		ss = append(ss, &ExprStmt{X: &Call{Fn: "rd", Args: []Expr{&StrLit{V: n},
			&Coalesce{L: &Name{N: n}, R: &StrLit{V: "<undef>"}}}}})
	}
	return ss
}

func (g *G) rdOne() Stmt {
	n := g.pick(g.pool)
	return &ExprStmt{X: &Call{Fn: "rd", Args: []Expr{&StrLit{V: n}, &Coalesce{L: &Name{N: n}, R: &StrLit{V: "<undef>"}}}}}
}

// Program generates a whole terminating program.
func (g *G) Program(budget int) []Stmt {
	g.budget = budget
	var prog []Stmt
	// some names start defined at top level
	for _, n := range g.pool {
		if g.R.Intn(2) == 0 {
			prog = append(prog, &Assign{LHS: []Expr{&Name{N: n}}, RHS: []Expr{&IntLit{V: int64(g.R.Intn(5))}}})
			g.markDefined(n)
		}
	}
	prog = append(prog, g.block(ctx{depth: 0}, 3+g.R.Intn(6))...)
	prog = append(prog, g.ReadBacks()...)
	// a determinate final value
	if g.R.Intn(4) == 0 {
		g.feat("top-return")
		prog = append(prog, &Return{Exprs: []Expr{g.IntExpr(1)}})
	} else {
		prog = append(prog, &ExprStmt{X: g.IntExpr(1)})
	}
	return prog
}

// maybeEmpty turns a block size into 0 now and then: empty blocks are legal
// everywhere and "nothing to run" must not change which branch is taken
func (g *G) maybeEmpty(n int) int {
	if g.R.Intn(9) == 0 {
		g.feat("empty-block")
		return 0
	}
	return n
}

func (g *G) block(c ctx, n int) []Stmt {
	var ss []Stmt
	for i := 0; i < n && g.budget > 0; i++ {
		mark := len(g.nestedFuncs)
		st := g.stmt(c)
		ss = append(ss, st...)
		// functions declared inside nested blocks of this statement are not visible after it
		if len(g.nestedFuncs) > mark && (len(st) == 0 || !isAbruptAny(st[len(st)-1])) {
			for _, nf := range g.nestedFuncs[mark:] {
				if nf.depth > c.depth && g.R.Intn(2) == 0 {
					ss = append(ss, &ExprStmt{X: &Call{Fn: "rd", Args: []Expr{&StrLit{V: nf.name}, &Coalesce{L: &Name{N: nf.name}, R: &StrLit{V: "<undef>"}}}}})
				}
			}
			g.nestedFuncs = g.nestedFuncs[:mark]
		}
		if len(st) > 0 {
			if _, abrupt := st[len(st)-1].(*Break); abrupt {
				break
			}
			if _, abrupt := st[len(st)-1].(*Continue); abrupt {
				break
			}
			if _, abrupt := st[len(st)-1].(*Return); abrupt {
				break
			}
			if _, abrupt := st[len(st)-1].(*Throw); abrupt {
				break
			}
		}
		switch {
		case g.Prof == ProfScope && g.R.Intn(2) == 0:
			ss = append(ss, g.ReadBacks()...)
		case g.R.Intn(3) == 0:
			ss = append(ss, g.rdOne())
		}
	}
	return ss
}

func (g *G) stmt(c ctx) []Stmt {
	g.budget -= 2
	deep := c.depth >= 5
	type choice struct {
		w int
		f func() []Stmt
	}
	var cs []choice
	add := func(w int, f func() []Stmt) {
		if w > 0 {
			cs = append(cs, choice{w, f})
		}
	}
	ws, wc, we := 0, 0, 0
	switch g.Prof {
	case ProfScope:
		ws = 1
	case ProfControl:
		wc = 1
	case ProfError:
		we = 1
	}
	add(6+6*ws, func() []Stmt { return g.assign() })
	add(3+6*ws, func() []Stmt { return g.varStmt() })
	add(2, func() []Stmt { return []Stmt{&ExprStmt{X: g.p()}} })
	add(2, func() []Stmt { return g.opAssign() })
	if !deep {
		add(6+3*wc, func() []Stmt { return g.ifStmt(c) })
		add(5+4*wc, func() []Stmt { return g.loop(c) })
		add(2+3*wc, func() []Stmt { return g.switchStmt(c) })
		add(3+8*we, func() []Stmt { return g.tryStmt(c) })
		add(3+2*ws+2*we, func() []Stmt { return g.funcDef(c) })
		add(1+2*ws, func() []Stmt { return g.closureStmt(c) })
		add(1+2*ws, func() []Stmt { return g.moduleStmt(c) })
		add(1+wc, func() []Stmt { return g.mapIter(c) })
	}
	add(1+7*we, func() []Stmt { return g.deferStmt(c) })
	if !deep {
		add(1+wc, func() []Stmt { return g.strayControl(c) })
		add(1+2*ws, func() []Stmt { return g.escapingClosure(c) })
		add(1+3*we, func() []Stmt { return g.deferLocalClosureTwice(c) })
		add(1+3*we, func() []Stmt { return g.callbackThrows(c) })
		add(1+2*ws, func() []Stmt { return g.declOnlyBlock(c) })
		add(1+2*ws, func() []Stmt { return g.selfNameFunc() })
		add(1+3*ws, func() []Stmt { return g.shadowAfterFirstUse() })
		add(1+2*ws, func() []Stmt { return g.closureFactoryTwice() })
		add(1+2*ws, func() []Stmt { return g.lookupOnlyName() })
		add(1+3*we, func() []Stmt { return g.recursiveDefers() })
		add(1+wc, func() []Stmt { return g.returnElementOrder() })
		add(1+2*wc, func() []Stmt { return g.counterWrittenByBody() })
		add(1+wc, func() []Stmt { return g.mapValuesRewritten() })
		add(1+wc, func() []Stmt { return g.longListExit(c) })
		add(1+wc, func() []Stmt { return g.nestedMapLoops() })
		add(1+2*wc, func() []Stmt { return g.controlAfterFailedLoops() })
		add(1+2*ws, func() []Stmt { return g.closuresThroughHostCallback() })
	}
	if c.inLoop && (!c.tryBrk || g.allowControlInTry()) {
		add(2+3*wc+ws, func() []Stmt { g.feat("break"); return []Stmt{&Break{}} })
		add(2+3*wc+ws, func() []Stmt { g.feat("continue"); return []Stmt{&Continue{}} })
	}
	if c.inFunc && (!c.tryRet || g.allowControlInTry()) {
		add(2+2*wc+ws+we, func() []Stmt { return g.returnStmt() })
	}
	add(1+4*we+ws, func() []Stmt {
		g.feat("throw")
		if g.R.Intn(12) == 0 {
			// an empty message is still an error
			g.feat("throw-empty-message")
			return []Stmt{&Throw{X: &StrLit{V: ""}}}
		}
		return []Stmt{&Throw{X: &StrLit{V: "T" + strconv.FormatInt(g.probeID(), 10)}}}
	})
	add(1+3*we+ws, func() []Stmt { return []Stmt{&ExprStmt{X: g.failExpr()}} })
	total := 0
	for _, ch := range cs {
		total += ch.w
	}
	r := g.R.Intn(total)
	for _, ch := range cs {
		if r < ch.w {
			return ch.f()
		}
		r -= ch.w
	}
	return nil
}

// strayControl: a function whose body executes break/continue outside any loop of
// its own, called as a plain statement from inside a loop of the caller: the
// caller's loop must not be steered by it
func (g *G) strayControl(c ctx) []Stmt {
	g.feat("stray-break-in-callee")
	fn, cnt := g.fresh("sb"), g.fresh("n")
	var ctl Stmt = &Break{}
	if g.R.Intn(2) == 0 {
		ctl = &Continue{}
	}
	params := []string{}
	var args []Expr
	if g.R.Intn(3) == 0 {
		params = []string{"q0", "rest"}
		args = []Expr{&IntLit{V: 1}, &IntLit{V: 2}}
	}
	f := &FuncLit{Name: fn, Params: params, Variadic: len(params) > 0, Body: []Stmt{&ExprStmt{X: g.p()}, ctl, &ExprStmt{X: g.p()}, &Return{Exprs: []Expr{&IntLit{V: 1}}}}}
	loop := &CFor{Init: &Assign{LHS: []Expr{&Name{N: cnt}}, RHS: []Expr{&IntLit{V: 0}}},
		Cond: &Binary{Op: "<", L: &Name{N: cnt}, R: &IntLit{V: 2}}, Post: &OpAssign{Target: &Name{N: cnt}, Op: "+"},
		Body: []Stmt{&ExprStmt{X: g.p()}, &ExprStmt{X: &Call{Fn: fn, Args: args}}, &ExprStmt{X: g.p()}}}
	return []Stmt{&ExprStmt{X: f}, loop, &ExprStmt{X: g.p()}}
}

// selfNameFunc: a named function is bound in the scope of its declaration only: an assignment
// to that name inside the body updates that binding, and a recursive call through the name
// reaches whatever the name denotes at that moment
func (g *G) selfNameFunc() []Stmt {
	fn := g.fresh("sf")
	if g.R.Intn(2) == 0 {
		g.feat("func-assigns-own-name")
		return []Stmt{
			&ExprStmt{X: &FuncLit{Name: fn, Params: []string{"q0"}, Body: []Stmt{
				&ExprStmt{X: g.p()},
				&If{Cond: &Binary{Op: ">", L: &Name{N: "q0"}, R: &IntLit{V: 0}}, Then: []Stmt{&Assign{LHS: []Expr{&Name{N: fn}}, RHS: []Expr{&IntLit{V: 7}}}}},
				&Return{Exprs: []Expr{&Name{N: "q0"}}}}}},
			&ExprStmt{X: &Call{Fn: "rd", Args: []Expr{&StrLit{V: fn}, &Call{Fn: fn, Args: []Expr{&IntLit{V: 1}}}}}},
			&ExprStmt{X: &Call{Fn: "rd", Args: []Expr{&StrLit{V: fn}, &Name{N: fn}}}},
		}
	}
	g.feat("func-recursion-through-rebound-name")
	alias := g.fresh("sg")
	return []Stmt{
		&ExprStmt{X: &FuncLit{Name: fn, Params: []string{"q0"}, Body: []Stmt{
			&ExprStmt{X: g.p()},
			&If{Cond: &Binary{Op: ">", L: &Name{N: "q0"}, R: &IntLit{V: 0}}, Then: []Stmt{
				&Return{Exprs: []Expr{&Binary{Op: "+", L: &Call{Fn: fn, Args: []Expr{&Binary{Op: "-", L: &Name{N: "q0"}, R: &IntLit{V: 1}}}}, R: &IntLit{V: 1}}}}}},
			&Return{Exprs: []Expr{&IntLit{V: 0}}}}}},
		&Assign{LHS: []Expr{&Name{N: alias}}, RHS: []Expr{&Name{N: fn}}},
		&Assign{LHS: []Expr{&Name{N: fn}}, RHS: []Expr{&FuncLit{Params: []string{"q0"}, Body: []Stmt{&ExprStmt{X: g.p()}, &Return{Exprs: []Expr{&IntLit{V: 100}}}}}}},
		&ExprStmt{X: &Call{Fn: "rd", Args: []Expr{&StrLit{V: alias}, &Call{Fn: alias, Args: []Expr{&IntLit{V: 2}}}}}},
	}
}

// shadowAfterFirstUse: a function value that has already read a free name from an outer scope
// is used again after a nearer binding of that name was made, in its defining scope or in a
// scope between that and the old binding: every use resolves the name afresh (nearest binding)
func (g *G) shadowAfterFirstUse() []Stmt {
	g.feat("shadow-after-first-use")
	n := g.pick(g.pool)
	fn := g.fresh("sh")
	params, args := []string{}, []Expr{}
	variadic := false
	switch g.R.Intn(4) {
	case 1:
		params, args = []string{"q0"}, []Expr{&IntLit{V: 1}}
	case 2:
		params, args, variadic = []string{"q0", "rest"}, []Expr{&IntLit{V: 1}, &IntLit{V: 2}}, true
	}
	read := Expr(&Coalesce{L: &Name{N: n}, R: &IntLit{V: -7}})
	var body []Stmt
	switch g.R.Intn(3) {
	case 0:
		body = []Stmt{&Return{Exprs: []Expr{read}}}
	case 1:
		// the read sits in a nested block of the body
		body = []Stmt{&If{Cond: &BoolLit{V: true}, Then: []Stmt{&Return{Exprs: []Expr{read}}}}, &Return{Exprs: []Expr{&IntLit{V: -1}}}}
	default:
		// read, assign (hits the nearest binding), read again
		body = []Stmt{&ExprStmt{X: &Call{Fn: "rd", Args: []Expr{&StrLit{V: "in"}, read}}},
			&Assign{LHS: []Expr{&Name{N: n}}, RHS: []Expr{&Binary{Op: "+", L: read, R: &IntLit{V: 1}}}},
			&Return{Exprs: []Expr{&Name{N: n}}}}
	}
	var mk Stmt
	if g.R.Intn(2) == 0 {
		mk = &ExprStmt{X: &FuncLit{Name: fn, Params: params, Variadic: variadic, Body: body}}
	} else {
		mk = &Assign{LHS: []Expr{&Name{N: fn}}, RHS: []Expr{&FuncLit{Params: params, Variadic: variadic, Body: body}}}
	}
	use := func(tag string) Stmt {
		return &ExprStmt{X: &Call{Fn: "rd", Args: []Expr{&StrLit{V: tag}, &Call{Fn: fn, Args: args}}}}
	}
	rdn := func(tag string) Stmt {
		return &ExprStmt{X: &Call{Fn: "rd", Args: []Expr{&StrLit{V: tag}, &Coalesce{L: &Name{N: n}, R: &StrLit{V: "<undef>"}}}}}
	}
	bind := &VarStmt{Names: []string{n}, Exprs: []Expr{&IntLit{V: int64(60 + g.R.Intn(9))}}}
	var inner []Stmt
	if g.R.Intn(2) == 0 {
		// the nearer binding is made in the defining scope itself
		inner = []Stmt{mk, use("u1"), bind, use("u2"), rdn("n1"), use("u3")}
	} else {
		// the function is created one block deeper (the holder lives in the middle scope):
		// the new binding lies between the defining scope and the old binding
		hold := Stmt(&VarStmt{Names: []string{fn}, Exprs: []Expr{&NilLit{}}})
		var deep Stmt
		mkA := &Assign{LHS: []Expr{&Name{N: fn}}, RHS: []Expr{&FuncLit{Params: params, Variadic: variadic, Body: body}}}
		switch g.R.Intn(3) {
		case 0:
			deep = &If{Cond: &BoolLit{V: true}, Then: []Stmt{mkA, use("u1")}}
		case 1:
			deep = &ForIn{Vars: []string{"it"}, X: &ListLit{Elems: []Expr{&IntLit{V: 1}}}, Body: []Stmt{mkA, use("u1")}}
		default:
			deep = &Try{Body: []Stmt{mkA, use("u1")}, Catch: []Stmt{&ExprStmt{X: g.p()}}}
		}
		inner = []Stmt{hold, deep, bind, use("u2"), rdn("n1"), use("u3")}
	}
	var outer Stmt
	switch g.R.Intn(3) {
	case 0:
		outer = &If{Cond: &BoolLit{V: true}, Then: inner}
	case 1:
		w := g.fresh("sw")
		return []Stmt{&Assign{LHS: []Expr{&Name{N: n}}, RHS: []Expr{&IntLit{V: int64(10 + g.R.Intn(9))}}},
			&ExprStmt{X: &FuncLit{Name: w, Body: append(inner, &Return{Exprs: []Expr{&IntLit{V: 0}}})}},
			&ExprStmt{X: &Call{Fn: w}}, rdn("n2"),
			// a second invocation starts from the outer binding again
			&ExprStmt{X: &Call{Fn: w}}, rdn("n3")}
	default:
		outer = &CFor{Init: &Assign{LHS: []Expr{&Name{N: "i9"}}, RHS: []Expr{&IntLit{V: 0}}},
			Cond: &Binary{Op: "<", L: &Name{N: "i9"}, R: &IntLit{V: 2}}, Post: &OpAssign{Target: &Name{N: "i9"}, Op: "+"}, Body: inner}
	}
	return []Stmt{&Assign{LHS: []Expr{&Name{N: n}}, RHS: []Expr{&IntLit{V: int64(10 + g.R.Intn(9))}}}, outer, rdn("n2")}
}

// closureFactoryTwice: a function literal is evaluated anew every time control reaches it and
// captures the scope of THAT evaluation: two closures made by two invocations of one factory
// read the factory's respective locals - also when the literal itself declares the same name
// in a place that does not cover the read (a block not taken, after the read, an inner function)
func (g *G) closureFactoryTwice() []Stmt {
	g.feat("closure-factory-twice")
	n := g.pick(g.pool)
	mk, c1, c2 := g.fresh("cf"), g.fresh("ca"), g.fresh("cb")
	var body []Stmt
	switch g.R.Intn(4) {
	case 0:
		body = []Stmt{&If{Cond: &BoolLit{V: false}, Then: []Stmt{&VarStmt{Names: []string{n}, Exprs: []Expr{&IntLit{V: 1}}}}}, &Return{Exprs: []Expr{&Name{N: n}}}}
	case 1:
		r := g.fresh("cr")
		body = []Stmt{&Assign{LHS: []Expr{&Name{N: r}}, RHS: []Expr{&Name{N: n}}}, &VarStmt{Names: []string{n}, Exprs: []Expr{&IntLit{V: 5}}}, &Return{Exprs: []Expr{&Name{N: r}}}}
	case 2:
		in := g.fresh("ci")
		body = []Stmt{&Assign{LHS: []Expr{&Name{N: in}}, RHS: []Expr{&FuncLit{Body: []Stmt{&VarStmt{Names: []string{n}, Exprs: []Expr{&IntLit{V: 1}}}, &Return{Exprs: []Expr{&IntLit{V: 0}}}}}}},
			&Return{Exprs: []Expr{&Name{N: n}}}}
	default:
		body = []Stmt{&Return{Exprs: []Expr{&Name{N: n}}}}
	}
	var factory Stmt
	if g.R.Intn(2) == 0 {
		// the name is the factory's parameter
		factory = &ExprStmt{X: &FuncLit{Name: mk, Params: []string{n}, Body: []Stmt{&Return{Exprs: []Expr{&FuncLit{Body: body}}}}}}
	} else {
		// the name is a local of the factory
		factory = &ExprStmt{X: &FuncLit{Name: mk, Params: []string{"q0"}, Body: []Stmt{
			&VarStmt{Names: []string{n}, Exprs: []Expr{&Binary{Op: "*", L: &Name{N: "q0"}, R: &IntLit{V: 10}}}},
			&Return{Exprs: []Expr{&FuncLit{Body: body}}}}}}
	}
	call := func(f string) Expr { return &Call{Fn: f} }
	rd := func(tag string, x Expr) Stmt {
		return &ExprStmt{X: &Call{Fn: "rd", Args: []Expr{&StrLit{V: tag}, x}}}
	}
	out := []Stmt{factory,
		&Assign{LHS: []Expr{&Name{N: c1}}, RHS: []Expr{&Call{Fn: mk, Args: []Expr{&IntLit{V: 1}}}}},
		&Assign{LHS: []Expr{&Name{N: c2}}, RHS: []Expr{&Call{Fn: mk, Args: []Expr{&IntLit{V: 2}}}}},
		rd("c1", call(c1)), rd("c2", call(c2)), rd("c1", call(c1))}
	if g.R.Intn(2) == 0 {
		// a third closure made in a loop, the factory re-entered
		l := g.fresh("cl")
		out = append(out, &ForIn{Vars: []string{l}, X: &ListLit{Elems: []Expr{&IntLit{V: 3}, &IntLit{V: 4}}},
			Body: []Stmt{rd("cl", &Call{Fn: "h1", Args: []Expr{&Call{Fn: mk, Args: []Expr{&Name{N: l}}}}})}})
		out = out[:len(out)-1]
		out = append(out, rd("c2", call(c2)))
	}
	return out
}

// lookupOnlyName: xl is answered by the host's lookup object of the outermost scope only. It reads
// as the host's value until the script binds it; a script binding is nearer from every scope
// below it, and an assignment never reaches the lookup (it updates the nearest script binding
// or creates one in the current block)
func (g *G) lookupOnlyName() []Stmt {
	g.feat("name-answered-by-host-lookup")
	xl := func() Expr { return &Name{N: "xl"} }
	rd := func(tag string) Stmt { return &ExprStmt{X: &Call{Fn: "rd", Args: []Expr{&StrLit{V: tag}, xl()}}} }
	inc := &Assign{LHS: []Expr{xl()}, RHS: []Expr{&Binary{Op: "+", L: xl(), R: &IntLit{V: 1}}}}
	fn := g.fresh("xf")
	var out []Stmt
	out = append(out, rd("x0"), &If{Cond: &BoolLit{V: true}, Then: []Stmt{rd("x1")}})
	switch g.R.Intn(4) {
	case 0:
		out = append(out, &Assign{LHS: []Expr{xl()}, RHS: []Expr{&IntLit{V: int64(5 + g.R.Intn(4))}}})
	case 1:
		out = append(out, &VarStmt{Names: []string{"xl"}, Exprs: []Expr{&IntLit{V: int64(5 + g.R.Intn(4))}}})
	case 2:
		// bound inside a block only: gone after it
		out = append(out, &If{Cond: &BoolLit{V: true}, Then: []Stmt{&VarStmt{Names: []string{"xl"}, Exprs: []Expr{&IntLit{V: 7}}}, rd("xb"),
			&If{Cond: &BoolLit{V: true}, Then: []Stmt{rd("xc"), inc, rd("xd")}}, rd("xe")}})
	}
	out = append(out, rd("x2"))
	// a function reads the name, assigns it (the nearest script binding, else a local of the
	// invocation) and reads it again; called twice
	out = append(out, &ExprStmt{X: &FuncLit{Name: fn, Body: []Stmt{rd("f0"), inc, rd("f1"),
		&If{Cond: &BoolLit{V: true}, Then: []Stmt{rd("f2")}}, &Return{Exprs: []Expr{xl()}}}}},
		&ExprStmt{X: &Call{Fn: "rd", Args: []Expr{&StrLit{V: "r1"}, &Call{Fn: fn}}}},
		&ExprStmt{X: &Call{Fn: "rd", Args: []Expr{&StrLit{V: "r2"}, &Call{Fn: fn}}}})
	switch g.R.Intn(3) {
	case 0:
		out = append(out, &CFor{Init: &Assign{LHS: []Expr{&Name{N: "i9"}}, RHS: []Expr{&IntLit{V: 0}}},
			Cond: &Binary{Op: "<", L: &Name{N: "i9"}, R: &IntLit{V: 3}}, Post: &OpAssign{Target: &Name{N: "i9"}, Op: "+"},
			Body: []Stmt{rd("l0"), inc, rd("l1")}})
	case 1:
		out = append(out, &ForIn{Vars: []string{"it"}, X: &ListLit{Elems: []Expr{&IntLit{V: 1}, &IntLit{V: 2}}}, Body: []Stmt{rd("l0"), inc, rd("l1")}})
	}
	out = append(out, rd("x3"))
	return out
}

// counterWrittenByBody: the counter of a C-style loop is an ordinary variable: what the body (an
// inner loop, a called function) stores into it is what the post expression steps and what the
// condition tests next
func (g *G) counterWrittenByBody() []Stmt {
	g.feat("cfor-body-writes-counter")
	i := g.fresh("ic")
	rd := func(tag string) Stmt {
		return &ExprStmt{X: &Call{Fn: "rd", Args: []Expr{&StrLit{V: tag}, &Name{N: i}}}}
	}
	set := func(at, to int64) Stmt {
		return &If{Cond: &Binary{Op: "==", L: &Name{N: i}, R: &IntLit{V: at}}, Then: []Stmt{&Assign{LHS: []Expr{&Name{N: i}}, RHS: []Expr{&IntLit{V: to}}}}}
	}
	up := func(body ...Stmt) Stmt {
		var post Expr = &OpAssign{Target: &Name{N: i}, Op: "+"} // i++
		if g.R.Intn(3) == 0 {
			post = &OpAssign{Target: &Name{N: i}, Op: "+", R: &IntLit{V: 1}} // i += 1
		}
		return &CFor{Init: &Assign{LHS: []Expr{&Name{N: i}}, RHS: []Expr{&IntLit{V: 0}}},
			Cond: &Binary{Op: "<", L: &Name{N: i}, R: &IntLit{V: 6}}, Post: post, Body: body}
	}
	var loop Stmt
	switch g.R.Intn(5) {
	case 0: // skip ahead
		loop = up(&ExprStmt{X: g.p()}, set(1, 3), rd("i"))
	case 1: // end the loop from the body
		loop = up(rd("i"), set(2, 10))
	case 2: // repeat a round once
		f := g.fresh("once")
		loop = up(rd("i"), &If{Cond: &Binary{Op: "==", L: &Name{N: f}, R: &IntLit{V: 0}}, Then: []Stmt{
			&If{Cond: &Binary{Op: "==", L: &Name{N: i}, R: &IntLit{V: 2}}, Then: []Stmt{&Assign{LHS: []Expr{&Name{N: f}}, RHS: []Expr{&IntLit{V: 1}}},
				&Assign{LHS: []Expr{&Name{N: i}}, RHS: []Expr{&IntLit{V: 1}}}}}}})
		return []Stmt{&Assign{LHS: []Expr{&Name{N: f}}, RHS: []Expr{&IntLit{V: 0}}}, loop, rd("after")}
	case 3: // an inner loop steps the outer counter
		j := g.fresh("jc")
		inner := &CFor{Init: &Assign{LHS: []Expr{&Name{N: j}}, RHS: []Expr{&IntLit{V: 0}}},
			Cond: &Binary{Op: "<", L: &Name{N: j}, R: &IntLit{V: 2}}, Post: &OpAssign{Target: &Name{N: j}, Op: "+"},
			Body: []Stmt{&ExprStmt{X: &OpAssign{Target: &Name{N: i}, Op: "+"}}}}
		loop = up(rd("i"), inner, rd("j"))
	default: // counting down, the counter written by a called function
		fn := g.fresh("dec")
		loop = &CFor{Init: &Assign{LHS: []Expr{&Name{N: i}}, RHS: []Expr{&IntLit{V: 6}}},
			Cond: &Binary{Op: ">", L: &Name{N: i}, R: &IntLit{V: 0}}, Post: &OpAssign{Target: &Name{N: i}, Op: "-"},
			Body: []Stmt{rd("i"), &ExprStmt{X: &Call{Fn: fn}}}}
		return []Stmt{&Assign{LHS: []Expr{&Name{N: i}}, RHS: []Expr{&IntLit{V: 0}}},
			&ExprStmt{X: &FuncLit{Name: fn, Body: []Stmt{&Assign{LHS: []Expr{&Name{N: i}}, RHS: []Expr{&Binary{Op: "-", L: &Name{N: i}, R: &IntLit{V: 1}}}}, &Return{Exprs: []Expr{&IntLit{V: 0}}}}}},
			loop, rd("after")}
	}
	return []Stmt{loop, rd("after")}
}

// mapValuesRewritten: for k, v in m visits every entry once and v is the entry's value when it is
// visited: the first round rewrites every entry (all values equal before and after, so the
// order of the visits does not show)
func (g *G) mapValuesRewritten() []Stmt {
	g.feat("forin-map-values-rewritten-by-first-round")
	id := g.probeID()
	m, fl := g.fresh("mr"), g.fresh("fr")
	n := 2 + g.R.Intn(3)
	lit := &MapLit{}
	var rewrite []Stmt
	for i := 0; i < n; i++ {
		k := "k" + strconv.Itoa(i)
		lit.Keys = append(lit.Keys, &StrLit{V: k})
		lit.Vals = append(lit.Vals, &IntLit{V: 1})
		if i%2 == 0 {
			rewrite = append(rewrite, &Assign{LHS: []Expr{&Member{X: &Name{N: m}, Name: k}}, RHS: []Expr{&IntLit{V: 100}}})
		} else {
			rewrite = append(rewrite, &Assign{LHS: []Expr{&Index{X: &Name{N: m}, I: &StrLit{V: k}}}, RHS: []Expr{&IntLit{V: 100}}})
		}
	}
	first := &If{Cond: &Binary{Op: "==", L: &Name{N: fl}, R: &IntLit{V: 0}}, Then: append([]Stmt{&Assign{LHS: []Expr{&Name{N: fl}}, RHS: []Expr{&IntLit{V: 1}}}}, rewrite...)}
	return []Stmt{
		&Assign{LHS: []Expr{&Name{N: m}}, RHS: []Expr{lit}},
		&Assign{LHS: []Expr{&Name{N: fl}}, RHS: []Expr{&IntLit{V: 0}}},
		&ExprStmt{X: &Call{Fn: "mb", Args: []Expr{&IntLit{V: id}}}},
		&ForIn{Vars: []string{"mk", "mv"}, X: &Name{N: m}, Body: []Stmt{
			&ExprStmt{X: &Call{Fn: "rd", Args: []Expr{&StrLit{V: "v"}, &Name{N: "mv"}}}}, first}},
		&ExprStmt{X: &Call{Fn: "me", Args: []Expr{&IntLit{V: id}}}},
		&ExprStmt{X: &Call{Fn: "rd", Args: []Expr{&StrLit{V: "n"}, &Len{X: &Name{N: m}}}}},
	}
}

// longListExit: break, continue and return inside a for-in over a LONG list act exactly as over a
// short one: break leaves the loop at once, wherever in the list it happens
func (g *G) longListExit(c ctx) []Stmt {
	g.feat("forin-long-list-exit")
	n := 257 + g.R.Intn(500)
	at := int64(g.R.Intn(n))
	if g.R.Intn(2) == 0 {
		at = int64(g.R.Intn(8))
	}
	lit := &ListLit{}
	for i := 0; i < n; i++ {
		lit.Elems = append(lit.Elems, &IntLit{V: int64(i)})
	}
	cnt, l := g.fresh("lc"), g.fresh("ll")
	incr := &Assign{LHS: []Expr{&Name{N: cnt}}, RHS: []Expr{&Binary{Op: "+", L: &Name{N: cnt}, R: &IntLit{V: 1}}}}
	hit := &Binary{Op: "==", L: &Name{N: "lv"}, R: &IntLit{V: at}}
	rdc := &ExprStmt{X: &Call{Fn: "rd", Args: []Expr{&StrLit{V: cnt}, &Name{N: cnt}}}}
	init := []Stmt{&Assign{LHS: []Expr{&Name{N: l}}, RHS: []Expr{lit}}, &Assign{LHS: []Expr{&Name{N: cnt}}, RHS: []Expr{&IntLit{V: 0}}}}
	switch g.R.Intn(4) {
	case 0:
		return append(init, &ForIn{Vars: []string{"lv"}, X: &Name{N: l}, Body: []Stmt{&If{Cond: hit, Then: []Stmt{&ExprStmt{X: g.p()}, &Break{}}}, incr}}, rdc)
	case 1:
		return append(init, &ForIn{Vars: []string{"lv"}, X: &Name{N: l}, Body: []Stmt{&If{Cond: hit, Then: []Stmt{&Continue{}}}, incr}}, rdc)
	case 2:
		// the break sits in an inner loop: only that one is left, every round of the long loop runs
		return append(init, &ForIn{Vars: []string{"lv"}, X: &Name{N: l}, Body: []Stmt{
			&ForIn{Vars: []string{"lw"}, X: &ListLit{Elems: []Expr{&IntLit{V: 1}, &IntLit{V: 2}}}, Body: []Stmt{&Break{}}}, incr}}, rdc)
	default:
		fn := g.fresh("lf")
		return append(init, &ExprStmt{X: &FuncLit{Name: fn, Body: []Stmt{
			&ForIn{Vars: []string{"lv"}, X: &Name{N: l}, Body: []Stmt{&If{Cond: hit, Then: []Stmt{&Return{Exprs: []Expr{&Name{N: cnt}}}}}, incr}},
			&Return{Exprs: []Expr{&IntLit{V: -1}}}}}},
			&ExprStmt{X: &Call{Fn: "rd", Args: []Expr{&StrLit{V: fn}, &Call{Fn: fn}}}}, rdc)
	}
}

// controlAfterFailedLoops: loops that FAIL (a subject that cannot be looped over, a failing
// condition, a body left by an error) inside try blocks of the same invocation, followed by
// loops whose break / continue sit inside switch cases, if blocks and inner loops: whatever the
// failed loops left behind, break and continue act on the innermost enclosing loop only
func (g *G) controlAfterFailedLoops() []Stmt {
	g.feat("control-after-failed-loops")
	var out []Stmt
	failed := func() Stmt {
		var loop Stmt
		switch g.R.Intn(6) {
		case 0:
			loop = &ForIn{Vars: []string{"fv"}, X: &BoolLit{V: g.R.Intn(2) == 0}, Body: []Stmt{&ExprStmt{X: g.p()}}}
		case 1:
			loop = &ForIn{Vars: []string{"fv"}, X: &NilLit{}, Body: []Stmt{&ExprStmt{X: g.p()}}}
		case 2:
			loop = &ForIn{Vars: []string{"fv"}, X: g.failExpr(), Body: []Stmt{&ExprStmt{X: g.p()}}}
		case 3:
			loop = &Loop{Cond: &Binary{Op: "<", L: g.failExpr(), R: &IntLit{V: 1}}, Body: []Stmt{&ExprStmt{X: g.p()}}}
		case 4:
			loop = &CFor{Init: &Assign{LHS: []Expr{&Name{N: "fi"}}, RHS: []Expr{&IntLit{V: 0}}},
				Cond: &Binary{Op: "<", L: &Name{N: "fi"}, R: g.failExpr()}, Post: &OpAssign{Target: &Name{N: "fi"}, Op: "+"},
				Body: []Stmt{&ExprStmt{X: g.p()}}}
		default:
			// the body fails in the second round
			loop = &ForIn{Vars: []string{"fv"}, X: &ListLit{Elems: []Expr{&IntLit{V: 0}, &IntLit{V: 1}, &IntLit{V: 2}}},
				Body: []Stmt{&ExprStmt{X: g.p()}, &If{Cond: &Binary{Op: "==", L: &Name{N: "fv"}, R: &IntLit{V: 1}}, Then: []Stmt{&ExprStmt{X: g.failExpr()}}}}}
		}
		return &Try{Body: []Stmt{loop}, CatchVar: "fe", Catch: []Stmt{&ExprStmt{X: g.p()}}}
	}
	for n := 1 + g.R.Intn(3); n > 0; n-- {
		out = append(out, failed())
	}
	cnt := g.fresh("fc")
	out = append(out, &Assign{LHS: []Expr{&Name{N: cnt}}, RHS: []Expr{&IntLit{V: 0}}})
	incr := &Assign{LHS: []Expr{&Name{N: cnt}}, RHS: []Expr{&Binary{Op: "+", L: &Name{N: cnt}, R: &IntLit{V: 1}}}}
	var ctl Stmt = &Break{}
	if g.R.Intn(3) == 0 {
		ctl = &Continue{}
	}
	list := func() Expr {
		return &ListLit{Elems: []Expr{&IntLit{V: 0}, &IntLit{V: 1}, &IntLit{V: 2}, &IntLit{V: 3}, &IntLit{V: 4}}}
	}
	at := int64(1 + g.R.Intn(3))
	inSwitch := func(v string) Stmt {
		return &Switch{X: &Name{N: v}, Cases: []Case{{Exprs: []Expr{&IntLit{V: at}}, Body: []Stmt{&ExprStmt{X: g.p()}, ctl}},
			{Exprs: []Expr{&IntLit{V: 9}}, Body: []Stmt{&ExprStmt{X: g.p()}}}}}
	}
	switch g.R.Intn(4) {
	case 0:
		out = append(out, &ForIn{Vars: []string{"cv"}, X: list(), Body: []Stmt{inSwitch("cv"), incr}})
	case 1:
		out = append(out, &ForIn{Vars: []string{"cv"}, X: list(), Body: []Stmt{
			&If{Cond: &Binary{Op: "==", L: &Name{N: "cv"}, R: &IntLit{V: at}}, Then: []Stmt{&Switch{X: &IntLit{V: 1}, Cases: []Case{{Exprs: []Expr{&IntLit{V: 1}}, Body: []Stmt{ctl}}}}}}, incr}})
	case 2:
		// the switch sits in the inner loop: only that one is left
		out = append(out, &ForIn{Vars: []string{"co"}, X: &ListLit{Elems: []Expr{&IntLit{V: 0}, &IntLit{V: 1}}}, Body: []Stmt{
			&ForIn{Vars: []string{"cv"}, X: list(), Body: []Stmt{inSwitch("cv"), incr}}, &ExprStmt{X: g.p()}}})
	default:
		out = append(out, &CFor{Init: &Assign{LHS: []Expr{&Name{N: "cv"}}, RHS: []Expr{&IntLit{V: 0}}},
			Cond: &Binary{Op: "<", L: &Name{N: "cv"}, R: &IntLit{V: 5}}, Post: &OpAssign{Target: &Name{N: "cv"}, Op: "+"},
			Body: []Stmt{inSwitch("cv"), incr}})
	}
	out = append(out, &ExprStmt{X: &Call{Fn: "rd", Args: []Expr{&StrLit{V: cnt}, &Name{N: cnt}}}})
	if g.R.Intn(2) == 0 {
		// the same inside one function invocation
		fn := g.fresh("cf")
		return []Stmt{&ExprStmt{X: &FuncLit{Name: fn, Body: append(out, &Return{Exprs: []Expr{&Name{N: cnt}}})}},
			&ExprStmt{X: &Call{Fn: "rd", Args: []Expr{&StrLit{V: fn}, &Call{Fn: fn}}}}}
	}
	return out
}

// nestedMapLoops: a map loop inside a map loop, after an earlier map loop of the same invocation
// has ended, and run twice: every loop visits exactly the entries of ITS map
func (g *G) nestedMapLoops() []Stmt {
	g.feat("forin-map-nested-in-map")
	id := g.probeID()
	mk := func(prefix string, n int, base int64) *MapLit {
		m := &MapLit{}
		for i := 0; i < n; i++ {
			m.Keys = append(m.Keys, &StrLit{V: prefix + strconv.Itoa(i)})
			m.Vals = append(m.Vals, &IntLit{V: base + int64(i)})
		}
		return m
	}
	mo, mi := g.fresh("mo"), g.fresh("mi")
	rd2 := func(tag, k, v string) Stmt {
		return &ExprStmt{X: &Call{Fn: "rd", Args: []Expr{&StrLit{V: tag}, &ListLit{Elems: []Expr{&Name{N: k}, &Name{N: v}}}}}}
	}
	nest := func() Stmt {
		return &ForIn{Vars: []string{"ok", "ov"}, X: &Name{N: mo}, Body: []Stmt{rd2("o", "ok", "ov"),
			&ForIn{Vars: []string{"ik", "iv"}, X: &Name{N: mi}, Body: []Stmt{rd2("i", "ik", "iv")}}, rd2("o2", "ok", "ov")}}
	}
	body := []Stmt{
		&Assign{LHS: []Expr{&Name{N: mo}}, RHS: []Expr{mk("a", 3+g.R.Intn(3), 10)}},
		&Assign{LHS: []Expr{&Name{N: mi}}, RHS: []Expr{mk("b", 3+g.R.Intn(3), 20)}},
		&ExprStmt{X: &Call{Fn: "mb", Args: []Expr{&IntLit{V: id}}}},
		&ForIn{Vars: []string{"ek", "ev"}, X: &Name{N: mi}, Body: []Stmt{rd2("e", "ek", "ev")}},
		nest(), nest(),
		&ExprStmt{X: &Call{Fn: "me", Args: []Expr{&IntLit{V: id}}}},
	}
	if g.R.Intn(2) == 0 {
		fn := g.fresh("mf")
		return []Stmt{&ExprStmt{X: &FuncLit{Name: fn, Body: append(body, &Return{Exprs: []Expr{&IntLit{V: 0}}})}}, &ExprStmt{X: &Call{Fn: fn}}}
	}
	return body
}

// closuresThroughHostCallback: different closures of one shape handed to a Go function from ONE
// call site (a loop body, a function called again): each invocation runs the closure it was
// given, in the scope that closure captured
func (g *G) closuresThroughHostCallback() []Stmt {
	g.feat("closures-through-host-callback")
	mk, fs := g.fresh("hm"), g.fresh("hf")
	host := []string{"hcb", "hcbe", "hcbv"}[g.R.Intn(3)]
	// the closure returns what the callback type of the host function declares
	cbBody := func(read string) []Stmt {
		b := []Stmt{&ExprStmt{X: &Call{Fn: "rd", Args: []Expr{&StrLit{V: "cb"}, &Name{N: read}}}}}
		switch host {
		case "hcbe":
			b = append(b, &Return{Exprs: []Expr{&NilLit{}}})
		case "hcbv":
			b = append(b, &Return{Exprs: []Expr{&IntLit{V: 1}, &NilLit{}}})
		}
		return b
	}
	factory := &ExprStmt{X: &FuncLit{Name: mk, Params: []string{"q0"}, Body: []Stmt{
		&Return{Exprs: []Expr{&FuncLit{Body: cbBody("q0")}}}}}}
	list := &Assign{LHS: []Expr{&Name{N: fs}}, RHS: []Expr{&ListLit{Elems: []Expr{
		&Call{Fn: mk, Args: []Expr{&IntLit{V: 1}}}, &Call{Fn: mk, Args: []Expr{&IntLit{V: 2}}}, &Call{Fn: mk, Args: []Expr{&IntLit{V: 3}}}}}}}
	switch g.R.Intn(3) {
	case 0:
		return []Stmt{factory, list, &ForIn{Vars: []string{"hc"}, X: &Name{N: fs}, Body: []Stmt{&ExprStmt{X: &Call{Fn: host, Args: []Expr{&Name{N: "hc"}}}}}}}
	case 1:
		// a literal written in a nested block of the loop body: a new closure over a new scope each round
		return []Stmt{&ForIn{Vars: []string{"hv"}, X: &ListLit{Elems: []Expr{&IntLit{V: 1}, &IntLit{V: 2}, &IntLit{V: 3}}}, Body: []Stmt{
			&If{Cond: &BoolLit{V: true}, Then: []Stmt{&VarStmt{Names: []string{"hw"}, Exprs: []Expr{&Binary{Op: "*", L: &Name{N: "hv"}, R: &IntLit{V: 10}}}},
				&ExprStmt{X: &Call{Fn: host, Args: []Expr{&FuncLit{Body: cbBody("hw")}}}}}}}}}
	default:
		ap := g.fresh("ha")
		return []Stmt{factory, &ExprStmt{X: &FuncLit{Name: ap, Params: []string{"q1"}, Body: []Stmt{&ExprStmt{X: &Call{Fn: host, Args: []Expr{&Name{N: "q1"}}}}, &Return{Exprs: []Expr{&IntLit{V: 0}}}}}},
			&ExprStmt{X: &Call{Fn: ap, Args: []Expr{&Call{Fn: mk, Args: []Expr{&IntLit{V: 4}}}}}},
			&ExprStmt{X: &Call{Fn: ap, Args: []Expr{&Call{Fn: mk, Args: []Expr{&IntLit{V: 5}}}}}}}
	}
}

// recursiveDefers: a function that defers and re-enters itself, used several times: every
// invocation keeps its own list of deferred calls
func (g *G) recursiveDefers() []Stmt {
	g.feat("defer-in-recursive-function-used-twice")
	fn := g.fresh("rw")
	id := g.probeID()
	body := []Stmt{
		&Defer{C: &Call{Fn: "h2", Args: []Expr{&IntLit{V: id}, &Name{N: "q0"}}}},
		&If{Cond: &Binary{Op: ">", L: &Name{N: "q0"}, R: &IntLit{V: 0}}, Then: []Stmt{&ExprStmt{X: &Call{Fn: fn, Args: []Expr{&Binary{Op: "-", L: &Name{N: "q0"}, R: &IntLit{V: 1}}}}}}},
		&ExprStmt{X: g.p()},
	}
	if g.R.Intn(3) == 0 {
		body = append(body, &If{Cond: &Binary{Op: "==", L: &Name{N: "q0"}, R: &IntLit{V: 0}}, Then: []Stmt{&Throw{X: &StrLit{V: "T" + strconv.FormatInt(g.probeID(), 10)}}}})
	}
	body = append(body, &Return{Exprs: []Expr{&Name{N: "q0"}}})
	call := func(n int64) Stmt {
		return &ExprStmt{X: &Call{Fn: "rd", Args: []Expr{&StrLit{V: fn}, &Coalesce{L: &Call{Fn: fn, Args: []Expr{&IntLit{V: n}}}, R: &StrLit{V: "<failed>"}}}}}
	}
	return []Stmt{&ExprStmt{X: &FuncLit{Name: fn, Params: []string{"q0"}, Body: body}}, call(0), call(2), call(1)}
}

// declOnlyBlock: an if / else-if / else block whose only binding statement is a
// named function declaration: the name is bound in the block, an outer binding
// of the same name is untouched and the name is not visible afterwards
func (g *G) declOnlyBlock(c ctx) []Stmt {
	g.feat("block-with-only-func-decl")
	name := g.fresh("bd")
	outer := g.R.Intn(2) == 0
	decl := []Stmt{&ExprStmt{X: &FuncLit{Name: name, Body: []Stmt{&ExprStmt{X: g.p()}, &Return{Exprs: []Expr{&IntLit{V: 1}}}}}},
		&ExprStmt{X: &Call{Fn: name}}}
	if g.R.Intn(3) == 0 {
		decl = append(decl, &ExprStmt{X: g.p()})
	}
	s := &If{}
	switch g.R.Intn(3) {
	case 0:
		s.Cond, s.Then = &BoolLit{V: true}, decl
	case 1:
		s.Cond, s.Then = &BoolLit{V: false}, []Stmt{&ExprStmt{X: g.p()}}
		s.ElseIfs = []ElseIf{{Cond: &BoolLit{V: true}, Body: decl}}
	default:
		s.Cond, s.Then = &BoolLit{V: false}, []Stmt{&ExprStmt{X: g.p()}}
		s.HasElse, s.Else = true, decl
	}
	var out []Stmt
	if outer {
		out = append(out, &Assign{LHS: []Expr{&Name{N: name}}, RHS: []Expr{&IntLit{V: 7}}})
	}
	out = append(out, s, &ExprStmt{X: &Call{Fn: "rd", Args: []Expr{&StrLit{V: name}, &Coalesce{L: &Name{N: name}, R: &StrLit{V: "<undef>"}}}}})
	return out
}

// returnElementOrder: the operands of a multi-value return are read left to right,
// each when it is evaluated: a later operand that overwrites the slot an earlier
// operand named does not change the value already taken
func (g *G) returnElementOrder() []Stmt {
	g.feat("return-multi-element-then-mutation")
	l, mf, fn := g.fresh("ml"), g.fresh("mm"), g.fresh("mr")
	var first Expr = &Index{X: &Name{N: l}, I: &IntLit{V: 0}}
	mut := Stmt(&Assign{LHS: []Expr{&Index{X: &Name{N: l}, I: &IntLit{V: 0}}}, RHS: []Expr{&IntLit{V: 99}}})
	if g.R.Intn(4) == 0 {
		first = &Index{X: &Index{X: &Name{N: l}, I: &IntLit{V: 2}}, I: &IntLit{V: 0}}
		mut = &Assign{LHS: []Expr{&Index{X: &Index{X: &Name{N: l}, I: &IntLit{V: 2}}, I: &IntLit{V: 0}}}, RHS: []Expr{&IntLit{V: 99}}}
	}
	rets := []Expr{first, &Call{Fn: mf}}
	if g.R.Intn(3) == 0 {
		rets = append(rets, &Index{X: &Name{N: l}, I: &IntLit{V: 1}})
	}
	return []Stmt{
		&Assign{LHS: []Expr{&Name{N: l}}, RHS: []Expr{&ListLit{Elems: []Expr{&IntLit{V: 11}, &IntLit{V: 22}, &ListLit{Elems: []Expr{&IntLit{V: 33}}}}}}},
		&ExprStmt{X: &FuncLit{Name: mf, Body: []Stmt{mut, &ExprStmt{X: g.p()}, &Return{Exprs: []Expr{&IntLit{V: 5}}}}}},
		&ExprStmt{X: &FuncLit{Name: fn, Body: []Stmt{&Return{Exprs: rets}}}},
		&ExprStmt{X: &Call{Fn: "rd", Args: []Expr{&StrLit{V: fn}, &Call{Fn: fn}}}},
		&ExprStmt{X: &Call{Fn: "rd", Args: []Expr{&StrLit{V: l}, &Name{N: l}}}}}
}

// escapingClosure: an invocation stores a closure over its parameters/locals in
// an outer name and then fails; the caller catches the error, the function is
// called again, and the first closure must still see its own invocation's values
func (g *G) escapingClosure(c ctx) []Stmt {
	g.feat("closure-escapes-failing-invocation")
	fn, h1, h2 := g.fresh("ef"), g.fresh("eh"), g.fresh("eh")
	holder := &Name{N: "ehold"}
	body := []Stmt{
		&VarStmt{Names: []string{"loc"}, Exprs: []Expr{&Binary{Op: "*", L: &Name{N: "q0"}, R: &IntLit{V: 10}}}},
		&Assign{LHS: []Expr{holder}, RHS: []Expr{&FuncLit{Body: []Stmt{&Return{Exprs: []Expr{&Name{N: "q0"}, &Name{N: "loc"}}}}}}},
		&If{Cond: &Binary{Op: ">", L: &Name{N: "q1"}, R: &IntLit{V: 0}}, Then: []Stmt{&Throw{X: &StrLit{V: "T" + strconv.FormatInt(g.probeID(), 10)}}}},
		&Return{Exprs: []Expr{&Name{N: "loc"}}}}
	call := func(a, fail int64) Stmt {
		return &Try{Body: []Stmt{&ExprStmt{X: &Call{Fn: fn, Args: []Expr{&IntLit{V: a}, &IntLit{V: fail}}}}}, CatchVar: "e", Catch: []Stmt{&ExprStmt{X: &Call{Fn: "pc", Args: []Expr{&Name{N: "e"}}}}}}
	}
	return []Stmt{
		&Assign{LHS: []Expr{holder}, RHS: []Expr{&NilLit{}}},
		&ExprStmt{X: &FuncLit{Name: fn, Params: []string{"q0", "q1"}, Body: body}},
		call(1, 1), &Assign{LHS: []Expr{&Name{N: h1}}, RHS: []Expr{holder}},
		call(2, int64(g.R.Intn(2))), &Assign{LHS: []Expr{&Name{N: h2}}, RHS: []Expr{holder}},
		call(3, 0),
		&ExprStmt{X: &Call{Fn: "rd", Args: []Expr{&StrLit{V: h1}, &Call{Fn: h1}}}},
		&ExprStmt{X: &Call{Fn: "rd", Args: []Expr{&StrLit{V: h2}, &Call{Fn: h2}}}},
		&ExprStmt{X: &Call{Fn: "rd", Args: []Expr{&StrLit{V: "ehold"}, &Call{Fn: "ehold"}}}},
	}
}

// deferLocalClosureTwice: `defer name()` where name is a closure local to the
// invocation, in a function invoked twice (and in a loop that rebinds the name):
// each execution of the defer statement defers the function the name denotes then
func (g *G) deferLocalClosureTwice(c ctx) []Stmt {
	g.feat("defer-local-closure-twice")
	fn := g.fresh("dt")
	body := []Stmt{
		&Assign{LHS: []Expr{&Name{N: "cleanup"}}, RHS: []Expr{&FuncLit{Body: []Stmt{&ExprStmt{X: &Call{Fn: "h2", Args: []Expr{&IntLit{V: g.probeID()}, &Name{N: "q0"}}}}, &Return{Exprs: []Expr{&IntLit{V: 0}}}}}}},
		&Defer{C: &Call{Fn: "cleanup"}},
		&ExprStmt{X: g.p()},
		&Return{Exprs: []Expr{&Name{N: "q0"}}}}
	if g.R.Intn(2) == 0 {
		// rebinding between two executions of the same defer statement in a loop
		cnt := g.fresh("n")
		body = []Stmt{
			&CFor{Init: &VarStmt{Names: []string{cnt}, Exprs: []Expr{&IntLit{V: 0}}}, Cond: &Binary{Op: "<", L: &Name{N: cnt}, R: &IntLit{V: 2}}, Post: &OpAssign{Target: &Name{N: cnt}, Op: "+"},
				Body: []Stmt{
					&VarStmt{Names: []string{"tag"}, Exprs: []Expr{&Binary{Op: "+", L: &Binary{Op: "*", L: &Name{N: "q0"}, R: &IntLit{V: 10}}, R: &Name{N: cnt}}}},
					&Assign{LHS: []Expr{&Name{N: "cleanup"}}, RHS: []Expr{&FuncLit{Body: []Stmt{&ExprStmt{X: &Call{Fn: "h1", Args: []Expr{&Name{N: "tag"}}}}, &Return{Exprs: []Expr{&IntLit{V: 0}}}}}}},
					&Defer{C: &Call{Fn: "cleanup"}}}},
			&Return{Exprs: []Expr{&Name{N: "q0"}}}}
	}
	return []Stmt{
		&ExprStmt{X: &FuncLit{Name: fn, Params: []string{"q0"}, Body: body}},
		&ExprStmt{X: &Call{Fn: "rd", Args: []Expr{&StrLit{V: fn}, &Call{Fn: fn, Args: []Expr{&IntLit{V: 1}}}}}},
		&ExprStmt{X: &Call{Fn: "rd", Args: []Expr{&StrLit{V: fn}, &Call{Fn: fn, Args: []Expr{&IntLit{V: 2}}}}}},
	}
}

// callbackThrows: a script function handed to Go as a result-less callback fails:
// the error surfaces as the error of the enclosing call, nothing after it runs
func (g *G) callbackThrows(c ctx) []Stmt {
	g.feat("callback-error")
	var fail Stmt = &Throw{X: &StrLit{V: "T" + strconv.FormatInt(g.probeID(), 10)}}
	if g.R.Intn(3) == 0 {
		fail = &ExprStmt{X: g.failExpr()}
	}
	var call Expr
	if g.R.Intn(2) == 0 {
		// the callback type may declare no result, an error result, or a value and an error
		host := []string{"hcb", "hcbe", "hcbv"}[g.R.Intn(3)]
		body := []Stmt{&ExprStmt{X: g.p()}, fail, &ExprStmt{X: g.p()}}
		switch host {
		case "hcbe":
			body = append(body, &Return{Exprs: []Expr{&NilLit{}}})
		case "hcbv":
			body = append(body, &Return{Exprs: []Expr{&IntLit{V: 1}, &NilLit{}}})
		}
		g.feat("callback-error:" + host)
		call = &Call{Fn: host, Args: []Expr{&FuncLit{Body: body}}}
	} else {
		call = &Call{Fn: "heach", Args: []Expr{&ListLit{Elems: []Expr{&IntLit{V: 1}, &IntLit{V: 2}, &IntLit{V: 3}}},
			&FuncLit{Params: []string{"q"}, Body: []Stmt{&ExprStmt{X: &Call{Fn: "h1", Args: []Expr{&Name{N: "q"}}}},
				&If{Cond: &Binary{Op: "==", L: &Name{N: "q"}, R: &IntLit{V: int64(1 + g.R.Intn(3))}}, Then: []Stmt{fail}}}}}}
	}
	if g.R.Intn(3) == 0 {
		return []Stmt{&ExprStmt{X: call}, &ExprStmt{X: g.p()}}
	}
	return []Stmt{&Try{Body: []Stmt{&ExprStmt{X: call}, &ExprStmt{X: g.p()}}, CatchVar: "e", Catch: []Stmt{&ExprStmt{X: &Call{Fn: "pc", Args: []Expr{&Name{N: "e"}}}}}},
		&ExprStmt{X: g.p()}}
}

// control statements directly inside a try body hit the listed known finding;
// they are generated, but rarely, so most programs stay judgeable on everything else.
func (g *G) allowControlInTry() bool { return g.R.Intn(12) == 0 }

func (g *G) assign() []Stmt {
	n := g.pick(g.pool)
	e := g.IntExpr(2)
	g.markDefined(n)
	g.feat("assign")
	if g.R.Intn(8) == 0 {
		m := g.pick(g.pool)
		if m != n {
			e2 := g.IntExpr(1)
			g.markDefined(m)
			g.feat("multi-assign")
			return []Stmt{&Assign{LHS: []Expr{&Name{N: n}, &Name{N: m}}, RHS: []Expr{e, e2}}}
		}
	}
	return []Stmt{&Assign{LHS: []Expr{&Name{N: n}}, RHS: []Expr{e}}}
}

func (g *G) varStmt() []Stmt {
	if g.R.Intn(6) == 0 {
		// var a, b = <one list value>: both names are bound in the current block
		n1, n2 := g.pick(g.pool), g.pick(g.pool)
		if n1 != n2 {
			g.feat("var-destructure")
			if g.isDefined(n1) || g.isDefined(n2) {
				g.feat("shadow")
			}
			var rhs Expr = &ListLit{Elems: []Expr{g.IntExpr(1), g.IntExpr(1)}}
			if g.R.Intn(2) == 0 {
				rhs = &Call{Callee: &FuncLit{Body: []Stmt{&Return{Exprs: []Expr{g.IntExpr(1), g.IntExpr(1)}}}}}
			}
			g.markDefined(n1)
			g.markDefined(n2)
			return []Stmt{&VarStmt{Names: []string{n1, n2}, Exprs: []Expr{rhs}}}
		}
	}
	n := g.pick(g.pool)
	e := g.IntExpr(2)
	if g.isDefined(n) {
		g.feat("shadow")
	}
	g.markDefined(n)
	g.feat("var")
	return []Stmt{&VarStmt{Names: []string{n}, Exprs: []Expr{e}}}
}

func (g *G) opAssign() []Stmt {
	dp := g.definedPool()
	if len(dp) == 0 {
		return g.assign()
	}
	n := g.pick(dp)
	g.feat("op-assign")
	if g.R.Intn(2) == 0 {
		return []Stmt{&ExprStmt{X: &OpAssign{Target: &Name{N: n}, Op: []string{"+", "-"}[g.R.Intn(2)]}}}
	}
	return []Stmt{&ExprStmt{X: &OpAssign{Target: &Name{N: n}, Op: []string{"+", "-", "*"}[g.R.Intn(3)], R: g.IntExpr(1)}}}
}

func (g *G) inner(c ctx) ctx {
	c.depth++
	return c
}

// failingHeader: now and then the controlling expression of a block construct fails
func (g *G) failingHeader() bool {
	if g.R.Intn(14) == 0 {
		g.feat("failing-header")
		return true
	}
	return false
}

func (g *G) ifStmt(c ctx) []Stmt {
	g.feat("if")
	s := &If{Cond: g.CondExpr(2)}
	if g.failingHeader() {
		s.Cond = &Binary{Op: "<", L: g.failExpr(), R: &IntLit{V: 1}}
	}
	s.Then = g.scoped(func() []Stmt { return g.block(g.inner(c), g.maybeEmpty(1+g.R.Intn(3))) })
	for n := g.R.Intn(3); n > 0; n-- {
		g.feat("else-if")
		ei := ElseIf{Cond: g.CondExpr(1)}
		if g.R.Intn(10) == 0 {
			// a failing else-if condition ends the statement with that error: no later branch runs
			g.feat("failing-elseif-condition")
			ei.Cond = &Binary{Op: "<", L: g.failExpr(), R: &IntLit{V: 1}}
		}
		ei.Body = g.scoped(func() []Stmt { return g.block(g.inner(c), g.maybeEmpty(1+g.R.Intn(2))) })
		s.ElseIfs = append(s.ElseIfs, ei)
	}
	if g.R.Intn(2) == 0 {
		g.feat("else")
		s.HasElse = true
		s.Else = g.scoped(func() []Stmt { return g.block(g.inner(c), g.maybeEmpty(1+g.R.Intn(2))) })
	}
	return []Stmt{s}
}

func (g *G) loopCtx(c ctx) ctx {
	c = g.inner(c)
	c.inLoop = true
	c.tryBrk = false
	return c
}

func (g *G) loop(c ctx) []Stmt {
	lc := g.loopCtx(c)
	n := int64(1 + g.R.Intn(3))
	cnt := g.fresh("n")
	switch g.R.Intn(5) {
	case 0: // for { }
		g.feat("loop-forever")
		var body []Stmt
		body = append(body, &ExprStmt{X: &OpAssign{Target: &Name{N: cnt}, Op: "+"}})
		body = append(body, &If{Cond: &Binary{Op: ">", L: &Name{N: cnt}, R: &IntLit{V: n}}, Then: []Stmt{&Break{}}})
		body = append(body, g.scoped(func() []Stmt { return g.block(lc, 1+g.R.Intn(3)) })...)
		return []Stmt{&Assign{LHS: []Expr{&Name{N: cnt}}, RHS: []Expr{&IntLit{V: 0}}}, &Loop{Body: body}}
	case 1: // for cond { }
		g.feat("loop-cond")
		var body []Stmt
		body = append(body, &ExprStmt{X: &OpAssign{Target: &Name{N: cnt}, Op: "+"}})
		body = append(body, g.scoped(func() []Stmt { return g.block(lc, 1+g.R.Intn(3)) })...)
		cond := Expr(&Binary{Op: "<", L: &Name{N: cnt}, R: &IntLit{V: n}})
		if g.failingHeader() || g.R.Intn(8) == 0 {
			// the condition fails (modulo by zero) on the evaluation after n iterations
			g.feat("loop-cond-fails-later")
			cond = &Binary{Op: ">=", L: &Binary{Op: "%", L: &IntLit{V: 1}, R: &Binary{Op: "-", L: &IntLit{V: n}, R: &Name{N: cnt}}}, R: &IntLit{V: 0}}
		} else if g.R.Intn(2) == 0 {
			// condition with a side effect: the number of evaluations becomes visible
			cond = &Logic{Op: "&&", L: &Binary{Op: ">", L: g.p(), R: &IntLit{V: 0}}, R: cond}
		}
		return []Stmt{&Assign{LHS: []Expr{&Name{N: cnt}}, RHS: []Expr{&IntLit{V: 0}}}, &Loop{Cond: cond, Body: body}}
	case 2, 3: // C-style
		g.feat("loop-cfor")
		s := &CFor{}
		var pre []Stmt
		switch g.R.Intn(5) {
		case 0, 1:
			s.Init = &VarStmt{Names: []string{cnt}, Exprs: []Expr{&IntLit{V: 0}}}
		case 2, 3:
			s.Init = &Assign{LHS: []Expr{&Name{N: cnt}}, RHS: []Expr{&IntLit{V: 0}}}
		default:
			// no init statement: the counter lives outside, the loop still has its own scope
			g.feat("loop-cfor-no-init")
			pre = []Stmt{&Assign{LHS: []Expr{&Name{N: cnt}}, RHS: []Expr{&IntLit{V: 0}}}}
		}
		s.Cond = &Binary{Op: "<", L: &Name{N: cnt}, R: &IntLit{V: n}}
		if g.R.Intn(10) == 0 {
			g.feat("loop-cond-fails-later")
			s.Cond = &Binary{Op: ">=", L: &Binary{Op: "%", L: &IntLit{V: 1}, R: &Binary{Op: "-", L: &IntLit{V: n}, R: &Name{N: cnt}}}, R: &IntLit{V: 0}}
		}
		postless := g.R.Intn(6) == 0
		switch {
		case postless:
			// no post expression: the body advances the counter first; the condition starts with a
			// literal now and then (a loop is left only when its condition fails, a continue in it
			// goes to the condition)
			g.feat("loop-cfor-no-post")
			if g.R.Intn(2) == 0 {
				s.Cond = &Binary{Op: ">", L: &IntLit{V: n}, R: &Name{N: cnt}}
			}
		case g.R.Intn(2) == 0:
			// probing post expression: "post runs after continue" is visible
			s.Post = &OpAssign{Target: &Name{N: cnt}, Op: "+", R: &Binary{Op: "-", L: g.p(), R: &IntLit{V: int64(g.k) - 1}}}
		default:
			s.Post = &OpAssign{Target: &Name{N: cnt}, Op: "+"}
		}
		s.Body = g.scoped(func() []Stmt { return g.block(lc, 1+g.R.Intn(3)) })
		if postless {
			s.Body = append([]Stmt{&ExprStmt{X: &OpAssign{Target: &Name{N: cnt}, Op: "+"}}}, s.Body...)
		}
		return append(pre, s)
	default: // for-in over a list
		g.feat("loop-forin-list")
		v := g.pick(g.pool)
		l := &ListLit{}
		for i := int64(0); i < n; i++ {
			l.Elems = append(l.Elems, &IntLit{V: int64(10 + g.R.Intn(5))})
		}
		s := &ForIn{Vars: []string{v}, X: l}
		if g.failingHeader() {
			s.X = g.failExpr()
		}
		s.Body = g.scoped(func() []Stmt {
			g.markDefined(v)
			return g.block(lc, 1+g.R.Intn(3))
		})
		return []Stmt{s}
	}
}

func (g *G) mapIter(c ctx) []Stmt {
	g.feat("loop-forin-map")
	id := g.probeID()
	m := &MapLit{}
	n := 1 + g.R.Intn(3)
	for i := 0; i < n; i++ {
		m.Keys = append(m.Keys, &StrLit{V: "k" + strconv.Itoa(i)})
		m.Vals = append(m.Vals, &IntLit{V: int64(g.R.Intn(9))})
	}
	acc := g.fresh("s")
	// the loop variables are bound in the loop's own scope: now and then they carry the
	// names of outer bindings (or of nothing), and both names are read back after the loop
	mk, mv := "mk", "mv"
	if g.R.Intn(2) == 0 {
		a, b := g.pick(g.pool), g.pick(g.pool)
		if a != b {
			g.feat("forin-map-vars-shadow")
			mk, mv = a, b
		}
	}
	body := []Stmt{
		&ExprStmt{X: &Call{Fn: "pv", Args: []Expr{&Name{N: mk}, &Name{N: mv}}}},
		&Assign{LHS: []Expr{&Name{N: acc}}, RHS: []Expr{&Binary{Op: "+", L: &Name{N: acc}, R: &Name{N: mv}}}},
	}
	switch g.R.Intn(6) {
	case 0:
		body = append(body, &Continue{})
	case 1:
		body = append(body, &If{Cond: &Binary{Op: ">", L: &Name{N: mv}, R: &IntLit{V: 100}}, Then: []Stmt{&Break{}}})
	}
	rb := func(n string) Stmt {
		return &ExprStmt{X: &Call{Fn: "rd", Args: []Expr{&StrLit{V: n}, &Coalesce{L: &Name{N: n}, R: &StrLit{V: "<undef>"}}}}}
	}
	return []Stmt{
		&Assign{LHS: []Expr{&Name{N: acc}}, RHS: []Expr{&IntLit{V: 0}}},
		&ExprStmt{X: &Call{Fn: "mb", Args: []Expr{&IntLit{V: id}}}},
		&ForIn{Vars: []string{mk, mv}, X: m, Body: body},
		&ExprStmt{X: &Call{Fn: "me", Args: []Expr{&IntLit{V: id}}}},
		&ExprStmt{X: &Call{Fn: "rd", Args: []Expr{&StrLit{V: acc}, &Name{N: acc}}}},
		rb(mk), rb(mv),
	}
}

func (g *G) switchStmt(c ctx) []Stmt {
	g.feat("switch")
	if g.R.Intn(10) == 0 {
		return g.switchLiveSubject()
	}
	s := &Switch{X: g.IntExpr(1)}
	if g.failingHeader() {
		s.X = g.failExpr()
	}
	// a boolean or nil subject: nil equals only nil, false is not nil
	boolSubject := g.R.Intn(8) == 0
	if boolSubject {
		g.feat("switch-bool-or-nil-subject")
		s.X = []Expr{&BoolLit{V: false}, &BoolLit{V: true}, &NilLit{}}[g.R.Intn(3)]
	}
	nc := g.R.Intn(4)
	ic := g.inner(c)
	for i := 0; i < nc; i++ {
		cs := Case{}
		for j := 1 + g.R.Intn(2); j > 0; j-- {
			var ce Expr = &IntLit{V: int64(g.R.Intn(6))}
			if boolSubject {
				ce = []Expr{&NilLit{}, &BoolLit{V: false}, &BoolLit{V: true}, &Call{Fn: "pv", Args: []Expr{&IntLit{V: g.probeID()}, &NilLit{}}}}[g.R.Intn(4)]
				cs.Exprs = append(cs.Exprs, ce)
				continue
			}
			switch g.R.Intn(8) {
			case 0:
				// case expressions are compared in order, each evaluated when its turn comes
				g.feat("switch-nonliteral-case")
				ce = &Call{Fn: "pv", Args: []Expr{&IntLit{V: g.probeID()}, &IntLit{V: int64(g.R.Intn(6))}}}
			case 1:
				if dp := g.definedPool(); len(dp) > 0 {
					g.feat("switch-nonliteral-case")
					ce = &Name{N: g.pick(dp)}
				}
			case 2:
				g.feat("switch-nonliteral-case")
				ce = &Unary{Op: "-", X: &IntLit{V: int64(-g.R.Intn(6))}}
			case 3:
				// a case expression that fails ends the statement with that error: no later
				// case is evaluated, no body and no default runs
				if g.R.Intn(2) == 0 {
					g.feat("switch-failing-case-expr")
					ce = g.failExpr()
				}
			}
			cs.Exprs = append(cs.Exprs, ce)
		}
		if len(cs.Exprs) > 1 {
			g.feat("switch-multi-case")
		}
		cs.Body = g.scoped(func() []Stmt { return g.block(ic, g.maybeEmpty(1+g.R.Intn(2))) })
		s.Cases = append(s.Cases, cs)
	}
	if g.R.Intn(3) != 0 {
		s.HasDefault = true
		s.DefaultPos = g.R.Intn(nc + 1)
		if s.DefaultPos < nc {
			g.feat("switch-default-not-last")
		}
		s.Default = g.scoped(func() []Stmt { return g.block(ic, g.maybeEmpty(1+g.R.Intn(2))) })
	}
	return []Stmt{s}
}

// switchLiveSubject: the subject is read once, before the case expressions run: a case
// expression that overwrites the slot the subject was read from does not change it
func (g *G) switchLiveSubject() []Stmt {
	g.feat("switch-subject-then-mutating-case")
	l, mf := g.fresh("sw"), g.fresh("sm")
	return []Stmt{
		&Assign{LHS: []Expr{&Name{N: l}}, RHS: []Expr{&ListLit{Elems: []Expr{&IntLit{V: 1}, &IntLit{V: 5}}}}},
		&ExprStmt{X: &FuncLit{Name: mf, Body: []Stmt{
			&Assign{LHS: []Expr{&Index{X: &Name{N: l}, I: &IntLit{V: 0}}}, RHS: []Expr{&IntLit{V: 2}}},
			&ExprStmt{X: g.p()}, &Return{Exprs: []Expr{&IntLit{V: 2}}}}}},
		&Switch{X: &Index{X: &Name{N: l}, I: &IntLit{V: 0}}, Cases: []Case{
			{Exprs: []Expr{&Call{Fn: mf}}, Body: []Stmt{&ExprStmt{X: g.p()}}},
			{Exprs: []Expr{&IntLit{V: 1}}, Body: []Stmt{&ExprStmt{X: g.p()}}},
			{Exprs: []Expr{&IntLit{V: 2}}, Body: []Stmt{&ExprStmt{X: g.p()}}}},
			HasDefault: true, DefaultPos: 3, Default: []Stmt{&ExprStmt{X: g.p()}}},
		&ExprStmt{X: &Call{Fn: "rd", Args: []Expr{&StrLit{V: l}, &Name{N: l}}}},
	}
}

func (g *G) tryStmt(c ctx) []Stmt {
	g.feat("try")
	s := &Try{}
	tc := g.inner(c)
	tc.tryBrk = true
	tc.tryRet = true
	s.Body = g.scoped(func() []Stmt { return g.block(tc, g.maybeEmpty(1+g.R.Intn(3))) })
	cc := g.inner(c)
	if g.R.Intn(3) != 0 {
		s.CatchVar = "e"
	}
	s.Catch = g.scoped(func() []Stmt {
		var ss []Stmt
		if g.R.Intn(10) == 0 {
			g.feat("empty-catch")
			return nil
		}
		if s.CatchVar != "" {
			ss = append(ss, &ExprStmt{X: &Call{Fn: "pc", Args: []Expr{&Name{N: "e"}}}})
		} else {
			ss = append(ss, &ExprStmt{X: g.p()})
		}
		if g.Prof == ProfScope || g.R.Intn(3) == 0 {
			ss = append(ss, g.ReadBacks()...)
		}
		ss = append(ss, g.block(cc, g.R.Intn(3))...)
		if s.CatchVar != "" && g.R.Intn(8) == 0 && (len(ss) == 0 || !isAbrupt(ss[len(ss)-1])) {
			// rethrow of the caught error
			g.feat("rethrow")
			ss = append(ss, &Throw{X: &Name{N: "e"}})
		}
		return ss
	})
	var out []Stmt
	if s.CatchVar != "" && g.R.Intn(4) == 0 {
		// an outer binding with the catch variable's name must survive the try untouched
		g.feat("catch-var-shadows-outer")
		out = append(out, &Assign{LHS: []Expr{&Name{N: "e"}}, RHS: []Expr{&IntLit{V: int64(600 + g.R.Intn(9))}}})
	}
	if g.R.Intn(2) == 0 {
		g.feat("finally")
		s.HasFinally = true
		s.Finally = g.scoped(func() []Stmt {
			ss := []Stmt{&ExprStmt{X: g.p()}}
			if g.Prof == ProfScope || g.R.Intn(3) == 0 {
				ss = append(ss, g.ReadBacks()...)
			}
			return append(ss, g.block(cc, g.R.Intn(2))...)
		})
	}
	out = append(out, s)
	if len(out) > 1 {
		out = append(out, &ExprStmt{X: &Call{Fn: "rd", Args: []Expr{&StrLit{V: "e"}, &Coalesce{L: &Name{N: "e"}, R: &StrLit{V: "<undef>"}}}}})
	}
	return out
}

func (g *G) returnStmt() []Stmt {
	g.feat("return")
	switch g.R.Intn(6) {
	case 0:
		g.feat("return-none")
		return []Stmt{&Return{}}
	case 1:
		g.feat("return-multi")
		return []Stmt{&Return{Exprs: []Expr{g.IntExpr(1), g.IntExpr(1)}}}
	}
	return []Stmt{&Return{Exprs: []Expr{g.IntExpr(2)}}}
}

// funcDef defines a named function (unique name) and calls it.
func (g *G) funcDef(c ctx) []Stmt {
	g.feat("func")
	name := g.fresh("f")
	g.nestedFuncs = append(g.nestedFuncs, nestedFunc{name, c.depth})
	np := g.R.Intn(4)
	if g.R.Intn(6) == 0 {
		np = 5 + g.R.Intn(2) // reflect call path
		g.feat("func-many-params")
	}
	f := &FuncLit{Name: name}
	if np > 0 && g.R.Intn(5) == 0 {
		f.Variadic = true
		g.feat("func-variadic")
	}
	params := []string{}
	for i := 0; i < np; i++ {
		// parameters shadow pool names half of the time (never the variadic tail, which holds a list)
		if i < len(g.pool) && g.R.Intn(2) == 0 && !(f.Variadic && i == np-1) {
			params = append(params, g.pool[i])
		} else {
			params = append(params, "q"+strconv.Itoa(i))
		}
	}
	f.Params = params
	recursive := g.R.Intn(4) == 0 && np >= 1 && !f.Variadic
	info := fnInfo{name: name, nparams: np, variadic: f.Variadic}
	fc := ctx{depth: c.depth + 1, inFunc: true}
	oddReturns := g.Feat["return-multi"] + g.Feat["return-none"]
	f.Body = g.scoped(func() []Stmt {
		for i, p := range params {
			if !(f.Variadic && i == np-1) {
				for _, pn := range g.pool {
					if pn == p {
						g.markDefined(p)
					}
				}
			}
		}
		var body []Stmt
		if recursive {
			g.feat("recursion")
			// strictly decreasing first parameter
			args := []Expr{&Binary{Op: "-", L: &Name{N: params[0]}, R: &IntLit{V: 1}}}
			for i := 1; i < np; i++ {
				args = append(args, &IntLit{V: int64(i)})
			}
			loc := g.pick(g.pool)
			body = append(body, &VarStmt{Names: []string{loc}, Exprs: []Expr{&Binary{Op: "*", L: &Name{N: params[0]}, R: &IntLit{V: 10}}}})
			g.markDefined(loc)
			body = append(body, &If{Cond: &Binary{Op: ">", L: &Name{N: params[0]}, R: &IntLit{V: 0}},
				Then: []Stmt{&ExprStmt{X: &Call{Fn: name, Args: args}}}})
			// the local must have survived the recursive call
			body = append(body, &ExprStmt{X: &Call{Fn: "rd", Args: []Expr{&StrLit{V: loc}, &Name{N: loc}}}})
		}
		body = append(body, g.block(fc, 1+g.R.Intn(4))...)
		if len(body) == 0 || !isAbrupt(body[len(body)-1]) {
			body = append(body, &Return{Exprs: []Expr{g.IntExpr(1)}})
		}
		return body
	})
	out := []Stmt{&ExprStmt{X: f}}
	if recursive {
		args := []Expr{&IntLit{V: int64(1 + g.R.Intn(2))}}
		for i := 1; i < np; i++ {
			args = append(args, g.IntExpr(0))
		}
		out = append(out, &ExprStmt{X: &Call{Fn: name, Args: args}})
	} else {
		intValued := g.Feat["return-multi"]+g.Feat["return-none"] == oddReturns
		n := g.pick(g.pool)
		call := g.callOf(info, 1)
		if !intValued {
			// the function may return a list or nil: observe the result, never compute with it
			out = append(out, &ExprStmt{X: &Call{Fn: "rd", Args: []Expr{&StrLit{V: name}, &Coalesce{L: call, R: &StrLit{V: "<nil-or-failed>"}}}}})
			return out
		}
		g.funcs = append(g.funcs, info)
		if g.R.Intn(3) == 0 {
			out = append(out, &ExprStmt{X: call})
		} else {
			out = append(out, &Assign{LHS: []Expr{&Name{N: n}}, RHS: []Expr{&Coalesce{L: call, R: &IntLit{V: -1}}}})
			g.markDefined(n)
		}
	}
	return out
}

func isAbrupt(s Stmt) bool {
	switch s.(type) {
	case *Return, *Throw:
		return true
	}
	return false
}

// closureStmt: counter factories and closures that observe later changes of captured names.
// lateBinding: a closure created in a nested block of a (parameterless) function
// before the function scope gets the binding the closure reads or writes
func (g *G) lateBinding() []Stmt {
	g.feat("closure-late-binding")
	fn, cl := g.fresh("lb"), g.fresh("lc")
	n := g.pick(g.pool)
	inner := &FuncLit{Body: []Stmt{&Return{Exprs: []Expr{&Coalesce{L: &Name{N: n}, R: &IntLit{V: -7}}}}}}
	if g.R.Intn(2) == 0 {
		inner = &FuncLit{Body: []Stmt{
			&Assign{LHS: []Expr{&Name{N: n}}, RHS: []Expr{&Binary{Op: "+", L: &Coalesce{L: &Name{N: n}, R: &IntLit{V: 0}}, R: &IntLit{V: 1}}}},
			&Return{Exprs: []Expr{&Name{N: n}}}}}
	}
	mk := Stmt(&Assign{LHS: []Expr{&Name{N: cl}}, RHS: []Expr{inner}})
	var nest Stmt
	switch g.R.Intn(4) {
	case 0:
		nest = &If{Cond: &BoolLit{V: true}, Then: []Stmt{mk}}
	case 1:
		nest = &ForIn{Vars: []string{"it"}, X: &ListLit{Elems: []Expr{&IntLit{V: 1}}}, Body: []Stmt{mk}}
	case 2:
		nest = &Switch{X: &IntLit{V: 1}, Cases: []Case{{Exprs: []Expr{&IntLit{V: 1}}, Body: []Stmt{mk}}}}
	default:
		nest = &Try{Body: []Stmt{mk}, Catch: []Stmt{&ExprStmt{X: g.p()}}}
	}
	var bind Stmt = &VarStmt{Names: []string{n}, Exprs: []Expr{&IntLit{V: int64(40 + g.R.Intn(9))}}}
	if g.R.Intn(3) == 0 {
		bind = &Assign{LHS: []Expr{&Name{N: n}}, RHS: []Expr{&IntLit{V: int64(40 + g.R.Intn(9))}}}
	}
	params := []string{}
	if g.R.Intn(3) == 0 {
		params = []string{"q0"}
	}
	// the holder of the closure lives outside the function, so that the function's
	// own scope holds nothing before the late binding
	holderOutside := g.R.Intn(4) != 0
	body := []Stmt{nest, bind,
		&ExprStmt{X: &Call{Fn: "rd", Args: []Expr{&StrLit{V: "late"}, &Call{Fn: cl}}}},
		&ExprStmt{X: &Call{Fn: "rd", Args: []Expr{&StrLit{V: n}, &Coalesce{L: &Name{N: n}, R: &StrLit{V: "<undef>"}}}}},
		&Return{Exprs: []Expr{&Call{Fn: cl}}}}
	args := []Expr{}
	if len(params) > 0 {
		args = append(args, &IntLit{V: 3})
	}
	if !holderOutside {
		body = append([]Stmt{&VarStmt{Names: []string{cl}, Exprs: []Expr{&NilLit{}}}}, body...)
	}
	return []Stmt{&Assign{LHS: []Expr{&Name{N: cl}}, RHS: []Expr{&NilLit{}}},
		&ExprStmt{X: &FuncLit{Name: fn, Params: params, Body: body}},
		&ExprStmt{X: &Call{Fn: "rd", Args: []Expr{&StrLit{V: fn}, &Call{Fn: fn, Args: args}}}},
		&ExprStmt{X: &Call{Fn: "rd", Args: []Expr{&StrLit{V: n}, &Coalesce{L: &Name{N: n}, R: &StrLit{V: "<undef>"}}}}}}
}

func (g *G) closureStmt(c ctx) []Stmt {
	if g.R.Intn(3) == 0 {
		return g.lateBinding()
	}
	switch g.R.Intn(3) {
	case 0:
		g.feat("closure-factory")
		mk := g.fresh("mk")
		c1, c2 := g.fresh("cl"), g.fresh("cl")
		inner := &FuncLit{Body: []Stmt{
			&Assign{LHS: []Expr{&Name{N: "cnt"}}, RHS: []Expr{&Binary{Op: "+", L: &Name{N: "cnt"}, R: &IntLit{V: 1}}}},
			&Return{Exprs: []Expr{&Name{N: "cnt"}}}}}
		fac := &FuncLit{Name: mk, Params: []string{"start"}, Body: []Stmt{
			&VarStmt{Names: []string{"cnt"}, Exprs: []Expr{&Name{N: "start"}}},
			&Return{Exprs: []Expr{inner}}}}
		call := func(f string) Stmt {
			return &ExprStmt{X: &Call{Fn: "rd", Args: []Expr{&StrLit{V: f}, &Call{Fn: f}}}}
		}
		return []Stmt{&ExprStmt{X: fac},
			&Assign{LHS: []Expr{&Name{N: c1}}, RHS: []Expr{&Call{Fn: mk, Args: []Expr{&IntLit{V: 10}}}}},
			&Assign{LHS: []Expr{&Name{N: c2}}, RHS: []Expr{&Call{Fn: mk, Args: []Expr{&IntLit{V: 20}}}}},
			call(c1), call(c2), call(c1), call(c1), call(c2),
			&ExprStmt{X: &Call{Fn: "rd", Args: []Expr{&StrLit{V: "cnt"}, &Coalesce{L: &Name{N: "cnt"}, R: &StrLit{V: "<undef>"}}}}}}
	case 1:
		g.feat("closure-by-reference")
		n := g.pick(g.pool)
		fn := g.fresh("g")
		g.markDefined(n)
		return []Stmt{
			&Assign{LHS: []Expr{&Name{N: n}}, RHS: []Expr{&IntLit{V: 1}}},
			&Assign{LHS: []Expr{&Name{N: fn}}, RHS: []Expr{&FuncLit{Body: []Stmt{
				&Assign{LHS: []Expr{&Name{N: n}}, RHS: []Expr{&Binary{Op: "+", L: &Name{N: n}, R: &IntLit{V: 100}}}},
				&Return{Exprs: []Expr{&Name{N: n}}}}}}},
			&Assign{LHS: []Expr{&Name{N: n}}, RHS: []Expr{&IntLit{V: 5}}},
			&ExprStmt{X: &Call{Fn: "rd", Args: []Expr{&StrLit{V: "call"}, &Call{Fn: fn}}}},
			&ExprStmt{X: &Call{Fn: "rd", Args: []Expr{&StrLit{V: n}, &Name{N: n}}}},
		}
	default:
		g.feat("closure-reentrant")
		fn := g.fresh("h")
		loc := g.pick(g.pool)
		return []Stmt{
			&ExprStmt{X: &FuncLit{Name: fn, Params: []string{"q"}, Body: []Stmt{
				&VarStmt{Names: []string{loc}, Exprs: []Expr{&Binary{Op: "*", L: &Name{N: "q"}, R: &IntLit{V: 2}}}},
				&ExprStmt{X: g.p()},
				&Return{Exprs: []Expr{&Binary{Op: "+", L: &Name{N: loc}, R: &Name{N: "q"}}}}}}},
			// re-entrant: the function is called from its own argument list
			&ExprStmt{X: &Call{Fn: "rd", Args: []Expr{&StrLit{V: "re"}, &Call{Fn: fn, Args: []Expr{&Call{Fn: fn, Args: []Expr{&IntLit{V: int64(1 + g.R.Intn(3))}}}}}}}},
		}
	}
}

func (g *G) moduleStmt(c ctx) []Stmt {
	g.feat("module")
	name := g.fresh("m")
	v := g.pick(g.pool)
	val := int64(50 + g.R.Intn(9))
	body := []Stmt{
		&VarStmt{Names: []string{v}, Exprs: []Expr{&IntLit{V: val}}},
		&ExprStmt{X: &FuncLit{Name: "get", Body: []Stmt{&Return{Exprs: []Expr{&Name{N: v}}}}}},
		&ExprStmt{X: &FuncLit{Name: "set", Params: []string{"q"}, Body: []Stmt{
			&Assign{LHS: []Expr{&Name{N: v}}, RHS: []Expr{&Name{N: "q"}}}, &Return{Exprs: []Expr{&Name{N: "q"}}}}}},
	}
	if g.R.Intn(2) == 0 {
		body = append(body, g.scoped(func() []Stmt { return g.block(ctx{depth: c.depth + 1, inFunc: c.inFunc}, 1+g.R.Intn(2)) })...)
	}
	return []Stmt{
		&Module{Name: name, Body: body},
		&ExprStmt{X: &Call{Fn: "rd", Args: []Expr{&StrLit{V: name + "." + v}, &Member{X: &Name{N: name}, Name: v}}}},
		&ExprStmt{X: &Call{Callee: &Member{X: &Name{N: name}, Name: "set"}, Args: []Expr{g.IntExpr(0)}}},
		&ExprStmt{X: &Call{Fn: "rd", Args: []Expr{&StrLit{V: name + ".get"}, &Call{Callee: &Member{X: &Name{N: name}, Name: "get"}}}}},
		&ExprStmt{X: &Call{Fn: "rd", Args: []Expr{&StrLit{V: "get"}, &Coalesce{L: &Name{N: "get"}, R: &StrLit{V: "<undef>"}}}}},
	}
}

// deferElement: the argument is a list element that is overwritten after the
// defer statement — the deferred call must see the value at the defer statement,
// whatever kind of callee it is
func (g *G) deferElement() []Stmt {
	g.feat("defer-element-snapshot")
	l := g.fresh("dl")
	id := g.probeID()
	var call *Call
	var pre []Stmt
	switch g.R.Intn(5) {
	case 0:
		call = &Call{Fn: "h2", Args: []Expr{&IntLit{V: id}, &Index{X: &Name{N: l}, I: &IntLit{V: 0}}}}
	case 1:
		call = &Call{Fn: "hv", Args: []Expr{&IntLit{V: id}, &Index{X: &Name{N: l}, I: &IntLit{V: 0}}, &Index{X: &Name{N: l}, I: &IntLit{V: 1}}}}
	case 2:
		fn := g.fresh("df")
		pre = append(pre, &ExprStmt{X: &FuncLit{Name: fn, Params: []string{"q0", "q1"}, Body: []Stmt{
			&Return{Exprs: []Expr{&Call{Fn: "h2", Args: []Expr{&Name{N: "q0"}, &Name{N: "q1"}}}}}}}})
		call = &Call{Fn: fn, Args: []Expr{&IntLit{V: id}, &Index{X: &Name{N: l}, I: &IntLit{V: 0}}}}
	case 3:
		fn := g.fresh("dv")
		pre = append(pre, &ExprStmt{X: &FuncLit{Name: fn, Params: []string{"q0", "rest"}, Variadic: true, Body: []Stmt{
			&Return{Exprs: []Expr{&Call{Fn: "h2", Args: []Expr{&Name{N: "q0"}, &Name{N: "rest"}}}}}}}})
		call = &Call{Fn: fn, Args: []Expr{&IntLit{V: id}, &Index{X: &Name{N: l}, I: &IntLit{V: 0}}, &Index{X: &Name{N: l}, I: &IntLit{V: 1}}}}
	default:
		fn := g.fresh("dw")
		pre = append(pre, &ExprStmt{X: &FuncLit{Name: fn, Params: []string{"rest"}, Variadic: true, Body: []Stmt{
			&Return{Exprs: []Expr{&Call{Fn: "h2", Args: []Expr{&IntLit{V: id}, &Name{N: "rest"}}}}}}}})
		call = &Call{Fn: fn, Args: []Expr{&Index{X: &Name{N: l}, I: &IntLit{V: 1}}}}
	}
	out := []Stmt{&Assign{LHS: []Expr{&Name{N: l}}, RHS: []Expr{&ListLit{Elems: []Expr{&IntLit{V: 11}, &IntLit{V: 22}}}}}}
	out = append(out, pre...)
	out = append(out, &Defer{C: call},
		&Assign{LHS: []Expr{&Index{X: &Name{N: l}, I: &IntLit{V: 0}}}, RHS: []Expr{&IntLit{V: 77}}},
		&Assign{LHS: []Expr{&Index{X: &Name{N: l}, I: &IntLit{V: 1}}}, RHS: []Expr{&IntLit{V: 88}}})
	return out
}

// deferAfterReturn: the result of an invocation is the value at the return
// statement; a deferred call that overwrites the returned slot or variable
// afterwards does not alter it
func (g *G) deferAfterReturn() []Stmt {
	g.feat("defer-does-not-alter-result")
	l, fn := g.fresh("rl"), g.fresh("rf")
	var ret Expr = &Index{X: &Name{N: l}, I: &IntLit{V: 0}}
	mut := Stmt(&Assign{LHS: []Expr{&Index{X: &Name{N: l}, I: &IntLit{V: 0}}}, RHS: []Expr{&IntLit{V: 99}}})
	if g.R.Intn(3) == 0 {
		ret = &Name{N: "rloc"}
		mut = &Assign{LHS: []Expr{&Name{N: "rloc"}}, RHS: []Expr{&IntLit{V: 99}}}
	}
	body := []Stmt{&VarStmt{Names: []string{"rloc"}, Exprs: []Expr{&IntLit{V: 33}}},
		&Defer{C: &Call{Callee: &FuncLit{Body: []Stmt{mut, &ExprStmt{X: g.p()}, &Return{Exprs: []Expr{&IntLit{V: 0}}}}}}},
		&Return{Exprs: []Expr{ret}}}
	return []Stmt{&Assign{LHS: []Expr{&Name{N: l}}, RHS: []Expr{&ListLit{Elems: []Expr{&IntLit{V: 11}, &IntLit{V: 22}}}}},
		&ExprStmt{X: &FuncLit{Name: fn, Body: body}},
		&ExprStmt{X: &Call{Fn: "rd", Args: []Expr{&StrLit{V: fn}, &Call{Fn: fn}}}},
		&ExprStmt{X: &Call{Fn: "rd", Args: []Expr{&StrLit{V: l}, &Name{N: l}}}}}
}

func (g *G) deferStmt(c ctx) []Stmt {
	g.feat("defer")
	if g.R.Intn(6) == 0 {
		return g.deferElement()
	}
	if g.R.Intn(8) == 0 {
		return g.deferAfterReturn()
	}
	switch g.R.Intn(7) {
	case 0, 1:
		return []Stmt{&Defer{C: &Call{Fn: "h1", Args: []Expr{&IntLit{V: g.probeID()}}}}}
	case 2:
		// arguments are evaluated at the defer statement: reassign afterwards
		dp := g.definedPool()
		if len(dp) == 0 {
			return []Stmt{&Defer{C: &Call{Fn: "h1", Args: []Expr{g.p()}}}}
		}
		n := g.pick(dp)
		g.feat("defer-arg-snapshot")
		return []Stmt{&Defer{C: &Call{Fn: "h2", Args: []Expr{&IntLit{V: g.probeID()}, &Name{N: n}}}},
			&Assign{LHS: []Expr{&Name{N: n}}, RHS: []Expr{&Binary{Op: "+", L: &Name{N: n}, R: &IntLit{V: 1000}}}}}
	case 3:
		g.feat("defer-closure")
		body := g.scoped(func() []Stmt {
			return append([]Stmt{&ExprStmt{X: g.p()}}, g.block(ctx{depth: c.depth + 2, inFunc: true}, g.R.Intn(3))...)
		})
		if len(body) == 0 || !isAbrupt(body[len(body)-1]) {
			body = append(body, &Return{Exprs: []Expr{&IntLit{V: 0}}})
		}
		return []Stmt{&Defer{C: &Call{Callee: &FuncLit{Body: body}}}}
	case 4:
		g.feat("defer-failing")
		return []Stmt{&Defer{C: &Call{Fn: "pe", Args: []Expr{&IntLit{V: g.probeID()}}}}}
	case 5:
		g.feat("defer-throwing-closure")
		return []Stmt{&Defer{C: &Call{Callee: &FuncLit{Body: []Stmt{&ExprStmt{X: g.p()},
			&Throw{X: &StrLit{V: "T" + strconv.FormatInt(g.probeID(), 10)}}}}}}}
	default:
		g.feat("defer-variadic")
		if g.R.Intn(3) == 0 {
			// the callee of the deferred spread call is a function literal or a map member
			g.feat("defer-spread-anonymous-callee")
			id := g.probeID()
			lit := &FuncLit{Params: []string{"q0", "rest"}, Variadic: true, Body: []Stmt{
				&Return{Exprs: []Expr{&Call{Fn: "hv", Args: []Expr{&IntLit{V: id}, &Name{N: "q0"}, &Name{N: "rest"}}}}}}}
			args := []Expr{g.IntExpr(0), &ListLit{Elems: []Expr{g.IntExpr(0), g.IntExpr(0), g.IntExpr(0)}}}
			if g.R.Intn(2) == 0 {
				return []Stmt{&Defer{C: &Call{Callee: lit, Spread: true, Args: args}}}
			}
			mn := g.fresh("dm")
			fixed := &FuncLit{Params: []string{"q0", "q1"}, Body: []Stmt{&Return{Exprs: []Expr{&Call{Fn: "h3", Args: []Expr{&IntLit{V: id}, &Name{N: "q0"}, &Name{N: "q1"}}}}}}}
			return []Stmt{&Assign{LHS: []Expr{&Name{N: mn}}, RHS: []Expr{&MapLit{Keys: []Expr{&StrLit{V: "f"}}, Vals: []Expr{fixed}}}},
				&Defer{C: &Call{Callee: &Member{X: &Name{N: mn}, Name: "f"}, Spread: true, Args: []Expr{&ListLit{Elems: []Expr{g.IntExpr(0), g.IntExpr(0)}}}}}}
		}
		if g.R.Intn(2) == 0 {
			return []Stmt{&Defer{C: &Call{Fn: "hv", Args: []Expr{&IntLit{V: g.probeID()}, g.IntExpr(0), g.IntExpr(0)}}}}
		}
		return []Stmt{&Defer{C: &Call{Fn: "hv", Spread: true, Args: []Expr{&IntLit{V: g.probeID()}, &ListLit{Elems: []Expr{g.IntExpr(0), g.IntExpr(0)}}}}}}
	}
}
