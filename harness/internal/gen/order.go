package gen

import "strconv"

// Expression-order profile (C07): programs whose statements are expression
// forms with side-effecting probe leaves, over every call path and
// operator/literal form.

// OrderProgram generates one C07 program.
func (g *G) OrderProgram() []Stmt {
	var prog []Stmt
	// script functions of every arity (0-4: direct path, 5-7: reflect path), variadic ones,
	// and goroutine bodies; each records the arguments it received
	for n := 0; n <= 7; n++ {
		params := make([]string, n)
		args := []Expr{&IntLit{V: int64(100 + n)}}
		for i := range params {
			params[i] = "q" + strconv.Itoa(i)
			args = append(args, &Name{N: params[i]})
		}
		prog = append(prog, &ExprStmt{X: &FuncLit{Name: "f" + strconv.Itoa(n), Params: params,
			Body: []Stmt{&Return{Exprs: []Expr{&Call{Fn: "hv", Args: args}}}}}})
	}
	prog = append(prog,
		&ExprStmt{X: &FuncLit{Name: "fv", Params: []string{"q0", "rest"}, Variadic: true,
			Body: []Stmt{&Return{Exprs: []Expr{&Call{Fn: "hv", Args: []Expr{&IntLit{V: 200}, &Name{N: "q0"}, &Name{N: "rest"}}}}}}}},
		&ExprStmt{X: &FuncLit{Name: "fw", Params: []string{"rest"}, Variadic: true,
			Body: []Stmt{&Return{Exprs: []Expr{&Call{Fn: "hv", Args: []Expr{&IntLit{V: 201}, &Name{N: "rest"}}}}}}}},
		&ExprStmt{X: &FuncLit{Name: "g2", Params: []string{"q0", "q1"},
			Body: []Stmt{&ExprStmt{X: &Call{Fn: "pg", Args: []Expr{&ListLit{Elems: []Expr{&IntLit{V: 2}, &Name{N: "q0"}, &Name{N: "q1"}}}}}}, &Return{}}}},
		&ExprStmt{X: &FuncLit{Name: "g5", Params: []string{"q0", "q1", "q2", "q3", "q4"},
			Body: []Stmt{&ExprStmt{X: &Call{Fn: "pg", Args: []Expr{&ListLit{Elems: []Expr{&IntLit{V: 5}, &Name{N: "q0"}, &Name{N: "q4"}}}}}}, &Return{}}}},
		&ExprStmt{X: &FuncLit{Name: "gv", Params: []string{"rest"}, Variadic: true,
			Body: []Stmt{&ExprStmt{X: &Call{Fn: "pg", Args: []Expr{&Name{N: "rest"}}}}, &Return{}}}},
		&Assign{LHS: []Expr{&Name{N: "m"}}, RHS: []Expr{&MapLit{Keys: []Expr{&StrLit{V: "f"}, &StrLit{V: "g"}}, Vals: []Expr{&Name{N: "f2"}, &Name{N: "h2"}}}}},
		&Assign{LHS: []Expr{&Name{N: "l"}}, RHS: []Expr{&ListLit{Elems: []Expr{&IntLit{V: 10}, &IntLit{V: 20}, &IntLit{V: 30}}}}},
	)
	n := 1 + g.R.Intn(3)
	for i := 0; i < n; i++ {
		prog = append(prog, g.orderStmt()...)
		prog = append(prog, &ExprStmt{X: P(g.probeID())})
	}
	return prog
}

func (g *G) leaf() Expr {
	if g.R.Intn(14) == 0 {
		g.feat("failing-operand")
		return &Call{Fn: "pe", Args: []Expr{&IntLit{V: g.probeID()}}}
	}
	if g.R.Intn(4) == 0 {
		return &Call{Fn: "pv", Args: []Expr{&IntLit{V: g.probeID()}, &IntLit{V: int64(g.R.Intn(5))}}}
	}
	return g.p()
}

// intOrd: an int-valued expression with probe leaves.
func (g *G) intOrd(d int) Expr {
	if d <= 0 || g.R.Intn(4) == 0 {
		return g.leaf()
	}
	switch r := g.R.Intn(20); {
	case r < 4:
		g.feat("binary")
		op := []string{"+", "-", "*", "%"}[g.R.Intn(4)]
		rhs := g.intOrd(d - 1)
		if op == "%" {
			g.feat("modulo")
			rhs = &Call{Fn: "pv", Args: []Expr{&IntLit{V: g.probeID()}, &IntLit{V: int64(g.R.Intn(3))}}} // sometimes zero: fails
		}
		return &Binary{Op: op, L: g.intOrd(d - 1), R: rhs}
	case r < 6:
		g.feat("ternary")
		return &Ternary{C: g.condOrd(d - 1), T: g.intOrd(d - 1), F: g.intOrd(d - 1)}
	case r < 8:
		g.feat("coalesce")
		var l Expr
		switch g.R.Intn(4) {
		case 0:
			l = &Call{Fn: "pv", Args: []Expr{&IntLit{V: g.probeID()}, &NilLit{}}}
		case 1:
			l = &Call{Fn: "pe", Args: []Expr{&IntLit{V: g.probeID()}}}
		case 2:
			l = &Binary{Op: "+", L: g.p(), R: &Call{Fn: "pe", Args: []Expr{&IntLit{V: g.probeID()}}}}
		default:
			l = g.intOrd(d - 1)
		}
		return &Coalesce{L: l, R: g.intOrd(d - 1)}
	case r < 10:
		g.feat("index")
		n := 1 + g.R.Intn(3)
		l := &ListLit{}
		for i := 0; i < n; i++ {
			l.Elems = append(l.Elems, g.intOrd(d-1))
		}
		idx := int64(g.R.Intn(n + 1)) // sometimes out of range: fails after all operands ran
		if g.R.Intn(5) == 0 {
			// a nil map as the container: the index operand is still evaluated, the result is nil
			g.feat("index-of-nil-map")
			return &Coalesce{L: &Index{X: &Name{N: "nm"}, I: &Call{Fn: "pv", Args: []Expr{&IntLit{V: g.probeID()}, &StrLit{V: "k" + strconv.Itoa(g.R.Intn(3))}}}}, R: g.intOrd(d - 1)}
		}
		if g.R.Intn(2) == 0 {
			return &Index{X: l, I: &Call{Fn: "pv", Args: []Expr{&IntLit{V: g.probeID()}, &IntLit{V: idx}}}}
		}
		return &Index{X: &Name{N: "l"}, I: &Call{Fn: "pv", Args: []Expr{&IntLit{V: g.probeID()}, &IntLit{V: int64(g.R.Intn(3))}}}}
	case r < 12:
		g.feat("slice")
		lo, hi := int64(g.R.Intn(2)), int64(2+g.R.Intn(2))
		s := &SliceE{X: &Name{N: "l"}}
		if g.R.Intn(4) != 0 {
			s.Lo = &Call{Fn: "pv", Args: []Expr{&IntLit{V: g.probeID()}, &IntLit{V: lo}}}
		}
		s.Hi = &Call{Fn: "pv", Args: []Expr{&IntLit{V: g.probeID()}, &IntLit{V: hi}}}
		if g.R.Intn(2) == 0 {
			g.feat("slice3")
			s.Cap = &Call{Fn: "pv", Args: []Expr{&IntLit{V: g.probeID()}, &IntLit{V: 3}}}
		}
		return &Len{X: s}
	case r < 13:
		g.feat("len")
		l := &ListLit{}
		for i := g.R.Intn(3); i > 0; i-- {
			l.Elems = append(l.Elems, g.intOrd(d-1))
		}
		return &Len{X: l}
	case r < 14:
		g.feat("map-literal")
		m := &MapLit{}
		if g.R.Intn(3) == 0 {
			// typed spelling: same order, key then value, entry by entry
			g.feat("typed-map-literal")
			m.Typed = true
		}
		for i := 1 + g.R.Intn(3); i > 0; i-- {
			m.Keys = append(m.Keys, &Call{Fn: "pv", Args: []Expr{&IntLit{V: g.probeID()}, &StrLit{V: "k" + strconv.Itoa(i)}}})
			if m.Typed {
				// plain integer operands only: the typed literal converts its values
				m.Vals = append(m.Vals, g.leaf())
			} else {
				m.Vals = append(m.Vals, g.intOrd(d-1))
			}
		}
		return &Len{X: m}
	default:
		return g.callOrdK(d-1, "expr", true)
	}
}

func (g *G) condOrd(d int) Expr {
	if d <= 0 || g.R.Intn(3) == 0 {
		g.feat("truth-leaf")
		e := truthClasses[g.R.Intn(len(truthClasses))]()
		return &Call{Fn: "pv", Args: []Expr{&IntLit{V: g.probeID()}, e}}
	}
	switch r := g.R.Intn(10); {
	case r < 3:
		g.feat("comparison")
		return &Binary{Op: []string{"==", "!=", "<", "<=", ">", ">="}[g.R.Intn(6)], L: g.intOrd(d - 1), R: g.intOrd(d - 1)}
	case r < 7:
		g.feat("short-circuit")
		return &Logic{Op: []string{"&&", "||"}[g.R.Intn(2)], L: g.condOrd(d - 1), R: g.condOrd(d - 1)}
	case r < 8:
		return &Unary{Op: "!", X: g.condOrd(d - 1)}
	default:
		g.feat("in")
		l := &ListLit{}
		for i := g.R.Intn(3); i > 0; i-- {
			l.Elems = append(l.Elems, g.intOrd(d-1))
		}
		return &In{X: g.intOrd(d - 1), L: l}
	}
}

// callOrd generates a call in one cell of the call-shape product.
// mode: "expr" (value used), "go", "defer".
func (g *G) callOrd(d int, mode string) Expr { return g.callOrdK(d, mode, false) }

func (g *G) callOrdK(d int, mode string, intOnly bool) Expr {
	type callee struct {
		name     string
		nparams  int
		variadic bool
		typed    []string
	}
	var cands []callee
	if mode == "go" {
		cands = []callee{{"g2", 2, false, nil}, {"g5", 5, false, nil}, {"gv", 1, true, nil}, {"hg", 1, true, nil}}
	} else {
		for n := 0; n <= 7; n++ {
			cands = append(cands, callee{"f" + strconv.Itoa(n), n, false, nil})
		}
		cands = append(cands, callee{"fv", 2, true, nil}, callee{"fw", 1, true, nil},
			callee{"h1", 1, false, nil}, callee{"h2", 2, false, nil}, callee{"h3", 3, false, nil},
			callee{"hv", 2, true, nil}, callee{"hvs", 2, true, []string{"string", "int64"}})
		if !intOnly {
			cands = append(cands, callee{"h0", 0, false, nil}, callee{"hs", 2, false, []string{"string", "int64"}})
		}
		if mode == "expr" {
			// nil function values: the call fails, its operands were each evaluated at most once
			cands = append(cands, callee{"hnil1", 1, false, nil}, callee{"hnil2", 2, false, nil})
		}
	}
	ce := cands[g.R.Intn(len(cands))]
	g.feat("callee:" + ce.name)
	c := &Call{Fn: ce.name}
	// callee form
	switch g.R.Intn(6) {
	case 0:
		g.feat("call-anon")
		c.Fn, c.Callee = "", &Paren{X: &Call{Fn: "pv", Args: []Expr{&IntLit{V: g.probeID()}, &Name{N: ce.name}}}}
	case 1:
		if ce.name == "f2" || ce.name == "h2" {
			g.feat("call-member")
			c.Fn, c.Callee = "", &Member{X: &Name{N: "m"}, Name: map[string]string{"f2": "f", "h2": "g"}[ce.name]}
		}
	}
	fixed := ce.nparams
	if ce.variadic {
		fixed = ce.nparams - 1
	}
	argFor := func(i int) Expr {
		// typed Go parameters get a value of the right type, or deliberately an unconvertible one
		if ce.typed != nil {
			t := ce.typed[len(ce.typed)-1]
			if i < len(ce.typed) {
				t = ce.typed[i]
			}
			if g.R.Intn(8) == 0 {
				g.feat("unconvertible-argument")
				return &Call{Fn: "pv", Args: []Expr{&IntLit{V: g.probeID()}, &ListLit{Elems: []Expr{&IntLit{V: 1}}}}}
			}
			if t == "string" {
				return &Call{Fn: "pv", Args: []Expr{&IntLit{V: g.probeID()}, &StrLit{V: "s" + strconv.Itoa(i)}}}
			}
			return g.leaf()
		}
		if d > 0 && g.R.Intn(3) == 0 {
			return g.intOrd(d - 1)
		}
		if (ce.name == "h1" || ce.name == "h2" || ce.name == "h3" || ce.name == "hv") && mode == "expr" && !g.noAddr && g.R.Intn(5) == 0 {
			// address-of operands to a Go function: the operands of the addressed expression run once
			g.feat("addr-of-argument")
			if g.R.Intn(3) == 0 {
				return &AddrOf{X: &Name{N: "l"}}
			}
			return &AddrOf{X: &Index{X: &Name{N: "l"}, I: &Call{Fn: "pv", Args: []Expr{&IntLit{V: g.probeID()}, &IntLit{V: int64(g.R.Intn(3))}}}}}
		}
		return g.leaf()
	}
	if ce.nparams == 0 && g.R.Intn(12) == 0 {
		// listed known finding: spread into a zero-parameter function is accepted, operands never run
		g.feat("spread-into-zero-params")
		c.Spread = true
		if g.R.Intn(2) == 0 {
			c.Args = append(c.Args, g.leaf())
		}
		c.Args = append(c.Args, &ListLit{Elems: []Expr{g.leaf()}})
		return c
	}
	spread := g.R.Intn(4) == 0 && ce.nparams > 0
	if spread && ce.typed != nil && ce.variadic {
		spread = false // spreading into a typed variadic tail is left out (conversion of the whole list is not stated)
	}
	if !spread {
		m := fixed
		if ce.variadic {
			m = fixed + g.R.Intn(3)
		}
		switch g.R.Intn(8) {
		case 0:
			if m > 0 && !(ce.variadic && m == fixed && fixed == 0) {
				m--
				g.feat("count-one-too-few")
			}
		case 1:
			if !ce.variadic {
				m++
				g.feat("count-one-too-many")
			}
		}
		for i := 0; i < m; i++ {
			c.Args = append(c.Args, argFor(i))
		}
		g.feat("call-plain")
		return c
	}
	// spread call: leading plain arguments, then a list spread
	g.feat("call-spread")
	c.Spread = true
	var lead, spreadN int
	if ce.variadic {
		lead = fixed // exactly nparams expressions
		spreadN = g.R.Intn(3)
	} else {
		lead = g.R.Intn(ce.nparams)
		spreadN = ce.nparams - lead
		if g.R.Intn(6) == 0 && spreadN > 0 {
			spreadN--
			g.feat("spread-too-few")
		}
	}
	for i := 0; i < lead; i++ {
		c.Args = append(c.Args, argFor(i))
	}
	l := &ListLit{}
	for i := 0; i < spreadN; i++ {
		l.Elems = append(l.Elems, argFor(lead+i))
	}
	if g.R.Intn(3) == 0 {
		g.feat("spread-variable")
		c.Args = append(c.Args, &Call{Fn: "pv", Args: []Expr{&IntLit{V: g.probeID()}, l}})
	} else {
		c.Args = append(c.Args, l)
	}
	return c
}

func (g *G) orderStmt() []Stmt {
	d := 1 + g.R.Intn(3)
	switch r := g.R.Intn(20); {
	case r < 5:
		g.feat("stmt-expr")
		return []Stmt{&ExprStmt{X: g.intOrd(d + 1)}}
	case r < 8:
		g.feat("stmt-call")
		return []Stmt{&ExprStmt{X: &Call{Fn: "rd", Args: []Expr{&StrLit{V: "r"}, &Coalesce{L: g.callOrd(d, "expr"), R: &StrLit{V: "<failed>"}}}}}}
	case r < 10:
		g.feat("stmt-go")
		// no pointers to live slots into a goroutine: what they show depends on timing
		g.noAddr = true
		c := g.callOrd(d, "go").(*Call)
		g.noAddr = false
		return []Stmt{&Go{C: c}}
	case r < 12:
		g.feat("stmt-defer")
		c := g.callOrd(d, "defer").(*Call)
		return []Stmt{&Defer{C: c}}
	case r < 13:
		g.feat("stmt-var-multi")
		return []Stmt{&VarStmt{Names: []string{"v1", "v2"}, Exprs: []Expr{g.intOrd(d), g.intOrd(d)}},
			&ExprStmt{X: &Call{Fn: "rd", Args: []Expr{&StrLit{V: "v"}, &ListLit{Elems: []Expr{&Name{N: "v1"}, &Name{N: "v2"}}}}}}}
	case r < 14:
		g.feat("stmt-assign-multi")
		return []Stmt{&Assign{LHS: []Expr{&Name{N: "v1"}, &Name{N: "v2"}, &Name{N: "v3"}}, RHS: []Expr{g.intOrd(d), g.intOrd(d), g.intOrd(d)}},
			&ExprStmt{X: &Call{Fn: "rd", Args: []Expr{&StrLit{V: "v"}, &ListLit{Elems: []Expr{&Name{N: "v1"}, &Name{N: "v2"}, &Name{N: "v3"}}}}}}}
	case r < 15:
		g.feat("stmt-return-multi")
		fn := g.fresh("r")
		return []Stmt{&ExprStmt{X: &FuncLit{Name: fn, Body: []Stmt{&Return{Exprs: []Expr{g.intOrd(d), g.intOrd(d), g.intOrd(d)}}}}},
			&ExprStmt{X: &Call{Fn: "rd", Args: []Expr{&StrLit{V: fn}, &Coalesce{L: &Call{Fn: fn}, R: &StrLit{V: "<failed>"}}}}}}
	case r < 16:
		g.feat("stmt-list-literal")
		l := &ListLit{}
		for i := 1 + g.R.Intn(4); i > 0; i-- {
			l.Elems = append(l.Elems, g.intOrd(d))
		}
		return []Stmt{&ExprStmt{X: &Call{Fn: "rd", Args: []Expr{&StrLit{V: "list"}, l}}}}
	case r < 17:
		g.feat("stmt-map-literal")
		m := &MapLit{}
		for i := 1 + g.R.Intn(3); i > 0; i-- {
			m.Keys = append(m.Keys, &Call{Fn: "pv", Args: []Expr{&IntLit{V: g.probeID()}, &StrLit{V: "k" + strconv.Itoa(i)}}})
			m.Vals = append(m.Vals, g.intOrd(d))
		}
		return []Stmt{&ExprStmt{X: &Call{Fn: "rd", Args: []Expr{&StrLit{V: "map"}, m}}}}
	case r < 18 && g.R.Intn(3) == 0:
		// v, ok = m[k]: the operands of the index expression are evaluated once, found or not
		g.feat("stmt-map-item-assign")
		key := []string{"k1", "zz"}[g.R.Intn(2)]
		var cont Expr = &Call{Fn: "pv", Args: []Expr{&IntLit{V: g.probeID()}, &MapLit{Keys: []Expr{&StrLit{V: "k1"}}, Vals: []Expr{&IntLit{V: 1}}}}}
		if g.R.Intn(2) == 0 {
			cont = &Index{X: &ListLit{Elems: []Expr{&MapLit{Keys: []Expr{&StrLit{V: "k1"}}, Vals: []Expr{&NilLit{}}}}}, I: &Call{Fn: "pv", Args: []Expr{&IntLit{V: g.probeID()}, &IntLit{V: 0}}}}
		}
		return []Stmt{&MapItemAssign{V: "mv1", Ok: "mok1", X: &Index{X: cont, I: &Call{Fn: "pv", Args: []Expr{&IntLit{V: g.probeID()}, &StrLit{V: key}}}}}}
	case r < 18:
		g.feat("stmt-switch")
		s := &Switch{X: g.intOrd(d)}
		for i := 0; i < 2; i++ {
			s.Cases = append(s.Cases, Case{Exprs: []Expr{&IntLit{V: int64(g.R.Intn(4))}}, Body: []Stmt{&ExprStmt{X: g.p()}}})
		}
		s.HasDefault, s.DefaultPos, s.Default = true, 2, []Stmt{&ExprStmt{X: g.p()}}
		return []Stmt{s}
	case r < 19 && g.R.Intn(6) == 0:
		// a Go function started with `go` panics on its goroutine while the spawner is in the
		// middle of an operand list (inside a script function that waits for the goroutine to be
		// gone): the spawner's operands are all evaluated, its statement does not fail
		g.feat("stmt-go-panicking-host")
		fn := g.fresh("gs")
		return []Stmt{
			&ExprStmt{X: &FuncLit{Name: fn, Params: []string{"q0"}, Body: []Stmt{&ExprStmt{X: &Call{Fn: "gsettle"}}, &Return{Exprs: []Expr{&Name{N: "q0"}}}}}},
			&Go{C: &Call{Fn: "hgp", Args: []Expr{&IntLit{V: g.probeID()}}}},
			&ExprStmt{X: &Call{Fn: "rd", Args: []Expr{&StrLit{V: fn}, &ListLit{Elems: []Expr{g.p(), &Call{Fn: fn, Args: []Expr{g.p()}}, g.p(), &Binary{Op: "+", L: g.p(), R: g.p()}}}}}},
			&ExprStmt{X: &Call{Fn: "rd", Args: []Expr{&StrLit{V: fn}, &Call{Fn: "hv", Args: []Expr{&IntLit{V: g.probeID()}, &Call{Fn: fn, Args: []Expr{g.p()}}, g.p()}}}}},
		}
	case r < 19 && g.R.Intn(4) == 0:
		// a function whose body is exactly one return statement: its operands are evaluated
		// once, also when one of them fails (every arity / call path)
		g.feat("stmt-single-return-function")
		fn := g.fresh("sr")
		np := []int{0, 1, 2, 5, 6}[g.R.Intn(5)]
		params := make([]string, np)
		var args []Expr
		for i := range params {
			params[i] = "q" + strconv.Itoa(i)
			args = append(args, &IntLit{V: int64(i + 1)})
		}
		f := &FuncLit{Name: fn, Params: params}
		if np > 0 && g.R.Intn(3) == 0 {
			f.Variadic = true
		}
		body := g.intOrd(d + 1)
		if g.R.Intn(2) == 0 {
			// make sure something fails after side effects
			body = &Binary{Op: "+", L: &Binary{Op: "+", L: g.p(), R: g.intOrd(d)}, R: &Call{Fn: "pe", Args: []Expr{&IntLit{V: g.probeID()}}}}
			g.feat("failing-operand")
		}
		f.Body = []Stmt{&Return{Exprs: []Expr{body}}}
		var call Expr = &Call{Fn: fn, Args: args}
		if g.R.Intn(3) == 0 {
			call = &Coalesce{L: call, R: &StrLit{V: "<failed>"}}
		}
		return []Stmt{&ExprStmt{X: f}, &ExprStmt{X: &Call{Fn: "rd", Args: []Expr{&StrLit{V: fn}, &Coalesce{L: call, R: &StrLit{V: "<failed>"}}}}},
			&ExprStmt{X: &Call{Fn: "rd", Args: []Expr{&StrLit{V: fn}, &Coalesce{L: &Call{Fn: fn, Args: args}, R: &StrLit{V: "<failed>"}}}}}}
	case r < 19 && g.R.Intn(3) == 0:
		// a nested assignment target: the operands of the container expression and the index are
		// each evaluated once, also when the store appends (index len), adds a map entry or goes
		// three levels deep. `ln` is built here and has no other name.
		g.feat("stmt-nested-target-assign")
		pvI := func(v int64) Expr { return &Call{Fn: "pv", Args: []Expr{&IntLit{V: g.probeID()}, &IntLit{V: v}}} }
		pvS := func(v string) Expr { return &Call{Fn: "pv", Args: []Expr{&IntLit{V: g.probeID()}, &StrLit{V: v}}} }
		mk := &Assign{LHS: []Expr{&Name{N: "ln"}}, RHS: []Expr{&ListLit{Elems: []Expr{
			&ListLit{Elems: []Expr{&IntLit{V: 1}, &IntLit{V: 2}}},
			&ListLit{Elems: []Expr{&IntLit{V: 3}}},
			&MapLit{Keys: []Expr{&StrLit{V: "k"}}, Vals: []Expr{&IntLit{V: 4}}},
			&ListLit{Elems: []Expr{&ListLit{Elems: []Expr{&IntLit{V: 5}}}}}}}}}
		var target Expr
		switch g.R.Intn(5) {
		case 0:
			target = &Index{X: &Index{X: &Name{N: "ln"}, I: pvI(0)}, I: pvI(int64(g.R.Intn(4)))} // 2 = append, 3 = out of range
		case 1:
			target = &Index{X: &Index{X: &Name{N: "ln"}, I: pvI(1)}, I: pvI(int64(g.R.Intn(2)))} // 1 = append
		case 2:
			target = &Index{X: &Index{X: &Name{N: "ln"}, I: pvI(2)}, I: pvS([]string{"k", "k2"}[g.R.Intn(2)])}
		case 3:
			target = &Member{X: &Index{X: &Name{N: "ln"}, I: pvI(2)}, Name: []string{"k", "k3"}[g.R.Intn(2)]}
		default:
			target = &Index{X: &Index{X: &Index{X: &Name{N: "ln"}, I: pvI(3)}, I: pvI(0)}, I: pvI(int64(g.R.Intn(2)))} // 1 = append
		}
		if g.R.Intn(2) == 0 {
			// the container written in parentheses (once or twice): still the same place, its
			// operands still evaluated once - also when the store has to put a new container back
			g.feat("stmt-nested-target-paren-container")
			wrap := func(c Expr) Expr {
				c = &Paren{X: c}
				if g.R.Intn(3) == 0 {
					c = &Paren{X: c}
				}
				return c
			}
			switch t := target.(type) {
			case *Index:
				t.X = wrap(t.X)
			case *Member:
				t.X = wrap(t.X)
			}
		}
		return []Stmt{mk, &Assign{LHS: []Expr{target}, RHS: []Expr{g.intOrd(d)}, Unaliased: true},
			&ExprStmt{X: &Call{Fn: "rd", Args: []Expr{&StrLit{V: "ln"}, &Name{N: "ln"}}}}}
	case r < 19 && g.R.Intn(3) == 0:
		// the same nested-target assignment executed several times (loop body, function called
		// again) with operands that differ each time: every execution evaluates its own operands
		// once and stores into the container THEY designate. `lr` is built here and has no other name.
		g.feat("stmt-nested-target-repeated")
		elem := func() Expr {
			return &MapLit{Keys: []Expr{&StrLit{V: "p"}, &StrLit{V: "q"}},
				Vals: []Expr{&MapLit{Keys: []Expr{&StrLit{V: "x"}}, Vals: []Expr{&IntLit{V: 0}}}, &ListLit{Elems: []Expr{&IntLit{V: 0}, &IntLit{V: 0}}}}}
		}
		mk := &Assign{LHS: []Expr{&Name{N: "lr"}}, RHS: []Expr{&ListLit{Elems: []Expr{elem(), elem(), elem()}}}}
		iv := "i8"
		idx := func() Expr { return &Call{Fn: "pv", Args: []Expr{&IntLit{V: g.probeID()}, &Name{N: iv}}} }
		at := func() Expr { return &Index{X: &Name{N: "lr"}, I: idx()} }
		var target Expr
		switch g.R.Intn(7) {
		case 0:
			target = &Member{X: &Member{X: at(), Name: "p"}, Name: "x"} // lr[i].p.x
		case 1:
			target = &Index{X: &Member{X: at(), Name: "q"}, I: &Call{Fn: "pv", Args: []Expr{&IntLit{V: g.probeID()}, &IntLit{V: int64(g.R.Intn(2))}}}} // lr[i].q[j]
		case 2:
			target = &Member{X: &Paren{X: at()}, Name: "p"} // (lr[i]).p
		case 3:
			target = &Index{X: &Paren{X: &Member{X: at(), Name: "q"}}, I: &IntLit{V: int64(g.R.Intn(2))}} // (lr[i].q)[j]
		case 4:
			target = &Index{X: &Index{X: at(), I: &StrLit{V: "q"}}, I: &IntLit{V: 1}} // lr[i]["q"][1]
		case 5:
			target = &Index{X: &Paren{X: at()}, I: &StrLit{V: "p"}} // (lr[i])["p"]
		default:
			target = &Member{X: &Index{X: at(), I: &StrLit{V: "p"}}, Name: "x"} // lr[i]["p"].x
		}
		val := &Call{Fn: "pv", Args: []Expr{&IntLit{V: g.probeID()}, &Binary{Op: "+", L: &Name{N: iv}, R: &IntLit{V: 10}}}}
		store := &Assign{LHS: []Expr{target}, RHS: []Expr{val}}
		rdl := &ExprStmt{X: &Call{Fn: "rd", Args: []Expr{&StrLit{V: "lr"}, &Name{N: "lr"}}}}
		if g.R.Intn(2) == 0 {
			return []Stmt{mk, &CFor{Init: &Assign{LHS: []Expr{&Name{N: iv}}, RHS: []Expr{&IntLit{V: 0}}},
				Cond: &Binary{Op: "<", L: &Name{N: iv}, R: &IntLit{V: 3}}, Post: &OpAssign{Target: &Name{N: iv}, Op: "+"},
				Body: []Stmt{store}}, rdl}
		}
		fn := g.fresh("put")
		return []Stmt{mk, &ExprStmt{X: &FuncLit{Name: fn, Params: []string{iv}, Body: []Stmt{store, &Return{Exprs: []Expr{&IntLit{V: 0}}}}}},
			&ExprStmt{X: &Call{Fn: fn, Args: []Expr{&IntLit{V: 2}}}}, &ExprStmt{X: &Call{Fn: fn, Args: []Expr{&IntLit{V: 0}}}},
			&ExprStmt{X: &Call{Fn: fn, Args: []Expr{&IntLit{V: 1}}}}, rdl}
	case r < 19 && g.R.Intn(2) == 0:
		// all right-hand values are taken before the first store: the swap idiom
		g.feat("stmt-swap-elements")
		i, j := int64(g.R.Intn(3)), int64(g.R.Intn(3))
		return []Stmt{&Assign{
			LHS: []Expr{&Index{X: &Name{N: "l"}, I: &IntLit{V: i}}, &Index{X: &Name{N: "l"}, I: &IntLit{V: j}}},
			RHS: []Expr{&Index{X: &Name{N: "l"}, I: &Call{Fn: "pv", Args: []Expr{&IntLit{V: g.probeID()}, &IntLit{V: j}}}}, &Index{X: &Name{N: "l"}, I: &Call{Fn: "pv", Args: []Expr{&IntLit{V: g.probeID()}, &IntLit{V: i}}}}}},
			&ExprStmt{X: &Call{Fn: "rd", Args: []Expr{&StrLit{V: "l"}, &Name{N: "l"}}}}}
	case r < 19:
		g.feat("stmt-op-assign-index")
		// the documented exception: x op= e evaluates the operands of x twice
		return []Stmt{&ExprStmt{X: &OpAssign{Target: &Index{X: &Name{N: "l"}, I: &Call{Fn: "pv", Args: []Expr{&IntLit{V: g.probeID()}, &IntLit{V: int64(g.R.Intn(3))}}}},
			Op: []string{"+", "-", "*", "|", "&"}[g.R.Intn(5)], R: g.intOrd(d)}},
			&ExprStmt{X: &Call{Fn: "rd", Args: []Expr{&StrLit{V: "l"}, &Name{N: "l"}}}}}
	default:
		g.feat("stmt-if-cond")
		return []Stmt{&If{Cond: g.condOrd(d + 1), Then: []Stmt{&ExprStmt{X: g.p()}}, HasElse: true, Else: []Stmt{&ExprStmt{X: g.p()}}}}
	}
}
