// Package ank wraps the public boundary of anko for the engines: running a
// script with every panic observed, and rendering values with a bounded,
// cycle-safe, type-revealing printer (never fmt on script values).
package ank

import (
	"context"
	"fmt"
	"math"
	"reflect"
	"regexp"
	"runtime"
	"sort"
	"strconv"
	"strings"

	"github.com/mattn/anko/ast"
	"github.com/mattn/anko/core"
	"github.com/mattn/anko/env"
	"github.com/mattn/anko/parser"
	"github.com/mattn/anko/vm"
)

// Out is what one boundary call produced.
type Out struct {
	Val      interface{}
	Err      error
	Panicked bool
	PanicVal string
	PanicSig string // innermost anko function + abstracted message
	Stack    string
}

// NewCoreEnv returns a fresh environment with the core builtins.
func NewCoreEnv() *env.Env {
	return core.Import(env.NewEnv())
}

func capture(o *Out) {
	if r := recover(); r != nil {
		o.Panicked = true
		o.PanicVal = fmt.Sprint(r)
		buf := make([]byte, 16<<10)
		buf = buf[:runtime.Stack(buf, false)]
		o.Stack = string(buf)
		o.PanicSig = PanicSig(o.PanicVal, o.Stack)
	}
}

// PanicSig builds the finding signature of a panic: innermost anko frame + message
// with numbers and type names abstracted.
func PanicSig(msg, stack string) string {
	site := "?"
	for _, ln := range strings.Split(stack, "\n") {
		ln = strings.TrimSpace(ln)
		if strings.HasPrefix(ln, "github.com/mattn/anko/") {
			fn := ln
			if i := strings.LastIndex(fn, "("); i > 0 {
				fn = fn[:i]
			}
			site = strings.TrimPrefix(fn, "github.com/mattn/anko/")
			break
		}
	}
	return "panic:" + site + ":" + AbstractMsg(msg)
}

// AbstractMsg replaces numbers and hex by N and clips the message.
func AbstractMsg(msg string) string {
	// Go type names are abstracted so that one defect has one signature
	msg = reTypeNames.ReplaceAllString(msg, "${1}T")
	msg = reOnKind.ReplaceAllString(msg, "on K Value")
	var b strings.Builder
	inNum := false
	for i := 0; i < len(msg); i++ {
		c := msg[i]
		if c >= '0' && c <= '9' {
			if !inNum {
				b.WriteByte('N')
				inNum = true
			}
			continue
		}
		if inNum && ((c >= 'a' && c <= 'f') || c == 'x') && i+1 < len(msg) && ((msg[i+1] >= '0' && msg[i+1] <= '9') || (msg[i+1] >= 'a' && msg[i+1] <= 'f')) {
			continue
		}
		inNum = false
		b.WriteByte(c)
	}
	s := b.String()
	if len(s) > 100 {
		s = s[:100]
	}
	return s
}

var (
	reTypeNames = regexp.MustCompile(`((?:value of type|assignable to type|to type|is not|type) )[^ ]+(?: \{[^}]*\})?`)
	reOnKind    = regexp.MustCompile(`on [a-zA-Z0-9]+ Value`)
)

// Exec runs vm.Execute (debug=false) observing panics.
func Exec(e *env.Env, src string) (o Out) {
	defer capture(&o)
	o.Val, o.Err = vm.Execute(e, nil, src)
	return
}

// ExecCtx runs vm.ExecuteContext (debug=false) observing panics.
func ExecCtx(ctx context.Context, e *env.Env, src string) (o Out) {
	defer capture(&o)
	o.Val, o.Err = vm.ExecuteContext(ctx, e, nil, src)
	return
}

// RunCtx runs vm.RunContext on a parsed tree observing panics.
func RunCtx(ctx context.Context, e *env.Env, stmt ast.Stmt) (o Out) {
	defer capture(&o)
	o.Val, o.Err = vm.RunContext(ctx, e, nil, stmt)
	return
}

// Parse runs parser.ParseSrc observing panics.
func Parse(src string) (stmt ast.Stmt, err error, o Out) {
	defer capture(&o)
	stmt, err = parser.ParseSrc(src)
	o.Err = err
	return
}

// Render prints a value with its dynamic types, depth-bounded and cycle-safe.
// Maps are printed with sorted keys; pointers, channels and functions by kind
// only (identity is compared elsewhere).
func Render(v interface{}) string {
	var b strings.Builder
	render(&b, reflect.ValueOf(v), 0, map[uintptr]bool{})
	return b.String()
}

// RenderValue is Render for a reflect.Value.
func RenderValue(v reflect.Value) string {
	var b strings.Builder
	render(&b, v, 0, map[uintptr]bool{})
	return b.String()
}

func render(b *strings.Builder, v reflect.Value, depth int, seen map[uintptr]bool) {
	if !v.IsValid() {
		b.WriteString("nil")
		return
	}
	if depth > 6 {
		b.WriteString("…")
		return
	}
	if v.Type() == reflect.TypeOf(reflect.Value{}) {
		// a boxed reflect.Value (what vm.Execute hands back on a parse error)
		b.WriteString("reflect.Value<")
		if v.CanInterface() {
			render(b, v.Interface().(reflect.Value), depth+1, seen)
		}
		b.WriteString(">")
		return
	}
	switch v.Kind() {
	case reflect.Interface:
		if v.IsNil() {
			b.WriteString("nil")
			return
		}
		render(b, v.Elem(), depth, seen)
	case reflect.Bool:
		typed(b, v, "bool")
		b.WriteString(strconv.FormatBool(v.Bool()))
	case reflect.Int, reflect.Int8, reflect.Int16, reflect.Int32, reflect.Int64:
		b.WriteString(v.Type().String())
		b.WriteString("(")
		b.WriteString(strconv.FormatInt(v.Int(), 10))
		b.WriteString(")")
	case reflect.Uint, reflect.Uint8, reflect.Uint16, reflect.Uint32, reflect.Uint64, reflect.Uintptr:
		b.WriteString(v.Type().String())
		b.WriteString("(")
		b.WriteString(strconv.FormatUint(v.Uint(), 10))
		b.WriteString(")")
	case reflect.Float32, reflect.Float64:
		b.WriteString(v.Type().String())
		b.WriteString("(")
		f := v.Float()
		if math.IsNaN(f) {
			b.WriteString("NaN")
		} else {
			b.WriteString(strconv.FormatFloat(f, 'g', -1, 64))
			if f == 0 && math.Signbit(f) && !strings.HasPrefix(strconv.FormatFloat(f, 'g', -1, 64), "-") {
				b.WriteString("(neg)")
			}
		}
		b.WriteString(")")
	case reflect.String:
		typed(b, v, "string")
		s := v.String()
		if len(s) > 200 {
			s = s[:200] + "…(" + strconv.Itoa(len(v.String())) + ")"
		}
		b.WriteString(strconv.Quote(s))
	case reflect.Slice, reflect.Array:
		if v.Kind() == reflect.Slice {
			if v.IsNil() {
				b.WriteString(v.Type().String() + "(nil)")
				return
			}
			p := v.Pointer()
			if v.Len() > 0 && seen[p] {
				b.WriteString("<cycle>")
				return
			}
			if v.Len() > 0 {
				seen[p] = true
				defer delete(seen, p)
			}
		}
		b.WriteString(v.Type().String())
		b.WriteString("[")
		n := v.Len()
		for i := 0; i < n && i < 64; i++ {
			if i > 0 {
				b.WriteString(" ")
			}
			render(b, v.Index(i), depth+1, seen)
		}
		if n > 64 {
			b.WriteString(" …len=" + strconv.Itoa(n))
		}
		b.WriteString("]")
	case reflect.Map:
		if v.IsNil() {
			b.WriteString(v.Type().String() + "(nil)")
			return
		}
		p := v.Pointer()
		if seen[p] {
			b.WriteString("<cycle>")
			return
		}
		seen[p] = true
		defer delete(seen, p)
		b.WriteString(v.Type().String())
		b.WriteString("{")
		var items []string
		iter := v.MapRange()
		cnt := 0
		for iter.Next() {
			cnt++
			if cnt > 64 {
				break
			}
			var kb, vb strings.Builder
			render(&kb, iter.Key(), depth+1, seen)
			render(&vb, iter.Value(), depth+1, seen)
			items = append(items, kb.String()+":"+vb.String())
		}
		sort.Strings(items)
		b.WriteString(strings.Join(items, " "))
		b.WriteString("}")
	case reflect.Ptr:
		if v.IsNil() {
			b.WriteString(v.Type().String() + "(nil)")
			return
		}
		if v.Type() == reflect.TypeOf((*env.Env)(nil)) {
			b.WriteString("*env.Env")
			return
		}
		p := v.Pointer()
		if seen[p] {
			b.WriteString("<cycle>")
			return
		}
		seen[p] = true
		defer delete(seen, p)
		b.WriteString("&")
		render(b, v.Elem(), depth+1, seen)
	case reflect.Struct:
		b.WriteString(v.Type().String())
		b.WriteString("{")
		for i := 0; i < v.NumField(); i++ {
			if i > 0 {
				b.WriteString(" ")
			}
			b.WriteString(v.Type().Field(i).Name)
			b.WriteString(":")
			f := v.Field(i)
			if !f.CanInterface() {
				b.WriteString("?")
				continue
			}
			render(b, f, depth+1, seen)
		}
		b.WriteString("}")
	case reflect.Chan:
		b.WriteString(v.Type().String())
	case reflect.Func:
		b.WriteString("func")
	default:
		b.WriteString(v.Type().String())
	}
}

func typed(b *strings.Builder, v reflect.Value, basic string) {
	if v.Type().String() != basic {
		b.WriteString(v.Type().String() + ":")
	}
}

// ErrText returns the error text or "".
func ErrText(err error) string {
	if err == nil {
		return ""
	}
	return err.Error()
}
