// Package wk is the worker-side kit: engine registry, per-case context,
// result/checkpoint writer. Engines are registered by the files of cmd/vworker.
package wk

import (
	"encoding/json"
	"flag"
	"fmt"
	"math/rand"
	"os"
	"runtime/debug"
	"sort"
	"strings"
	"syscall"

	"verifharness/internal/fw"
)

// Engine is the monitor + workload for one property.
type Engine struct {
	ID   string
	Plan func(tier string) fw.Plan
	// Init runs once per worker process before the first case.
	Init func(w *Worker)
	// Run executes case c.Index of c.Phase and reports through c.
	Run func(c *Case)
}

var engines = map[string]*Engine{}

func Register(e *Engine) { engines[e.ID] = e }

// Worker is the per-process state.
type Worker struct {
	Prop    string
	Tier    string
	Seed    int64
	Phase   string
	Verbose bool
	Replay  bool
	// Company is the number of background goroutines that execute the self-checking
	// battery of cmd/vworker/company.go (separate environments, separate trees) while
	// the cases of this process run: phases named "<phase>+company".
	Company  int
	recPhase string // phase name written into records (with the +company suffix)

	curF *os.File
	resF *os.File

	// accumulated since last checkpoint
	evals, nontrivial, events int
	tags                      map[string]int
	extra                     map[string]int
	hashes                    map[uint64]struct{}
	seenAll                   map[uint64]struct{}
	samples                   int
	sinceCkpt                 int
	lastCase                  int
	viols                     int
	unlisted                  int // violations not covered by a listed known finding
	known                     []fw.Finding
}

// Case is the context handed to Engine.Run.
type Case struct {
	W     *Worker
	Index int
	Phase string
	Tier  string
	Rng   *rand.Rand
	sub   int
}

const maxSamplesPerWorker = 3

func Main() {
	var (
		prop    = flag.String("prop", "", "property id")
		tier    = flag.String("tier", "quick", "quick|thorough")
		seed    = flag.Int64("seed", 1, "VERIF_SEED")
		phase   = flag.String("phase", "", "phase name")
		lo      = flag.Int("lo", 0, "first case")
		hi      = flag.Int("hi", 0, "one past last case")
		out     = flag.String("out", "", "output prefix (<out>.res, <out>.cur)")
		plan    = flag.Bool("plan", false, "print the plan as JSON and exit")
		verbose = flag.Bool("v", false, "verbose (replay)")
		replay  = flag.Bool("replay", false, "replay mode: print details of the case")
		child   = flag.String("child", "", "internal: run as a child helper of an engine")
		company = flag.Int("company", 3, "goroutines of company for phases named <phase>+company")
	)
	flag.Parse()
	if *child != "" {
		h, ok := children[*child]
		if !ok {
			fmt.Fprintln(os.Stderr, "unknown child mode", *child)
			os.Exit(3)
		}
		h(flag.Args())
		return
	}
	e, ok := engines[*prop]
	if !ok {
		fmt.Fprintln(os.Stderr, "unknown property", *prop)
		os.Exit(3)
	}
	if g, ok := GenericPhases[*phase]; ok {
		// a phase implemented outside the engines (cmd/vworker/swallowed.go): cases are a fixed grid
		e = &Engine{ID: *prop, Run: g}
	}
	if strings.HasPrefix(*phase, CompanyOnly) {
		// the battery alone: every case is one batch of overlapping executions (both build flavours)
		e = &Engine{ID: *prop, Run: func(c *Case) {
			if CompanyBatch == nil {
				c.Inconclusive("no-company", "", nil)
				return
			}
			rep := CompanyBatch(CompanyOnlyGoroutines, CompanyOnlyRounds, CaseSeed(c), c.W.Prop)
			c.Events(rep.Runs)
			c.Count("company_only_executions", rep.Runs)
			c.Count("company_only_batches", 1)
			for item, n := range rep.PerItem {
				c.Count("company_item:"+item, n)
			}
			c.Eval(fmt.Sprintf("company-only|%d", c.Index), rep.Runs > 0)
			for _, m := range rep.Mismatches {
				c.Violation("company:"+m.Item, m.Detail, map[string]interface{}{"company_item": m.Item, "source": m.Src})
			}
		}}
	}
	if *plan {
		p := e.Plan(*tier)
		p.Property = e.ID
		b, _ := json.Marshal(p)
		fmt.Println(string(b))
		return
	}
	w := &Worker{Prop: *prop, Tier: *tier, Seed: *seed, Phase: *phase, Verbose: *verbose, Replay: *replay, recPhase: *phase,
		tags: map[string]int{}, extra: map[string]int{}, hashes: map[uint64]struct{}{}, seenAll: map[uint64]struct{}{}}
	if strings.HasSuffix(*phase, CompanySuffix) {
		// the cases are those of the base phase (same PRNG seeds); only the process they run in differs
		*phase = strings.TrimSuffix(*phase, CompanySuffix)
		w.Phase = *phase
		w.Company = *company
	}
	if *out != "" {
		var err error
		w.resF, err = os.OpenFile(*out+".res", os.O_CREATE|os.O_WRONLY|os.O_APPEND, 0o644)
		if err != nil {
			fmt.Fprintln(os.Stderr, err)
			os.Exit(3)
		}
		w.curF, err = os.OpenFile(*out+".cur", os.O_CREATE|os.O_WRONLY|os.O_TRUNC, 0o644)
		if err != nil {
			fmt.Fprintln(os.Stderr, err)
			os.Exit(3)
		}
	}
	if kf := os.Getenv("VERIF_KNOWN_FILE"); kf != "" {
		w.known, _ = fw.LoadFindings(kf)
	}
	debug.SetTraceback("all")
	if e.Init != nil {
		e.Init(w)
	}
	var stopCompany func() CompanyReport
	if w.Company > 0 && CompanyStart != nil {
		stopCompany = CompanyStart(w.Company, fw.CaseSeed(*seed, *prop, w.recPhase, *lo), *prop)
	}
	var lastCase *Case
	for i := *lo; i < *hi; i++ {
		c := &Case{W: w, Index: i, Phase: *phase, Tier: *tier,
			Rng: rand.New(rand.NewSource(fw.CaseSeed(*seed, *prop, *phase, i)))}
		w.lastCase = i
		lastCase = c
		c.Begin(nil)
		e.Run(c)
		w.sinceCkpt++
		if w.sinceCkpt >= 200 {
			w.flush("ckpt")
		}
		if w.unlisted >= 12 && !w.Replay {
			// the verdict of this chunk is decided; do not burn time on the rest
			w.tags["fail-fast:cases-not-run"] += *hi - i - 1
			break
		}
	}
	if stopCompany != nil && lastCase != nil {
		rep := stopCompany()
		lastCase.Count("company_executions", rep.Runs)
		lastCase.Count("company_goroutines", w.Company)
		lastCase.Events(rep.Runs)
		for item, n := range rep.PerItem {
			lastCase.Count("company_item:"+item, n)
		}
		for _, m := range rep.Mismatches {
			if m.Judged {
				lastCase.Violation("company:"+m.Item, m.Detail, map[string]interface{}{"company_item": m.Item, "source": m.Src, "lo": *lo, "hi": *hi})
			} else {
				lastCase.Tag("company-mismatch-of-another-property:" + m.Item)
			}
		}
	}
	w.flush("done")
	if w.Replay && w.viols > 0 {
		os.Exit(1)
	}
}

var children = map[string]func(args []string){}

// RegisterChild registers a helper mode reachable as `vworker -child name args...`.
func RegisterChild(name string, f func(args []string)) { children[name] = f }

// CompanySuffix marks a phase whose cases are those of the base phase, run while
// background goroutines of the same process execute other programs.
const CompanySuffix = "+company"

// GenericPhases are phases every engine of a listed property gets, implemented once (the
// orchestrator derives them; `vworker -child generic-count <phase> <prop>` prints the case count).
var GenericPhases = map[string]func(c *Case){}

// CompanyOnly is the name (prefix) of the phases in which the battery runs alone: batches of
// CompanyOnlyGoroutines goroutines, CompanyOnlyRounds programs each, released together.
const CompanyOnly = "company-only"

const (
	CompanyOnlyGoroutines = 8
	CompanyOnlyRounds     = 150
)

// CompanyBatch is set by cmd/vworker: k goroutines execute rounds programs each and return.
var CompanyBatch func(k, rounds int, seed int64, prop string) CompanyReport

// CaseSeed returns a seed value of the case's PRNG stream.
func CaseSeed(c *Case) int64 { return c.Rng.Int63() }

// CompanyMismatch is one self-check of the company that failed.
type CompanyMismatch struct {
	Item, Detail, Src string
	Judged            bool // the item is an instance of the statement of the property being checked
}

// CompanyReport is what the company observed about its own executions.
type CompanyReport struct {
	Runs       int
	PerItem    map[string]int
	Mismatches []CompanyMismatch
}

// CompanyStart is set by cmd/vworker: it starts k goroutines and returns the function that stops them.
var CompanyStart func(k int, seed int64, prop string) (stop func() CompanyReport)

func (w *Worker) write(r *fw.Rec) {
	r.Phase = w.recPhase
	b, err := json.Marshal(r)
	if err != nil {
		b, _ = json.Marshal(&fw.Rec{T: r.T, Phase: w.Phase, Case: r.Case, Sig: r.Sig, Detail: "unmarshalable record: " + err.Error()})
	}
	if w.resF != nil {
		w.resF.Write(append(b, '\n'))
	}
	if w.Verbose || w.Replay {
		if r.T != "ckpt" && r.T != "done" {
			fmt.Println(string(b))
		}
	}
}

func (w *Worker) flush(kind string) {
	r := &fw.Rec{T: kind, Case: w.lastCase, Evals: w.evals, Nontrivial: w.nontrivial, Events: w.events, Tags: w.tags, Extra: w.extra}
	r.Hashes = make([]uint64, 0, len(w.hashes))
	for h := range w.hashes {
		r.Hashes = append(r.Hashes, h)
	}
	sort.Slice(r.Hashes, func(i, j int) bool { return r.Hashes[i] < r.Hashes[j] })
	w.write(r)
	w.evals, w.nontrivial, w.events = 0, 0, 0
	w.tags = map[string]int{}
	w.extra = map[string]int{}
	w.hashes = map[uint64]struct{}{}
	w.sinceCkpt = 0
}

func raw(v interface{}) json.RawMessage {
	if v == nil {
		return nil
	}
	b, err := json.Marshal(v)
	if err != nil {
		b, _ = json.Marshal(fmt.Sprintf("%v", v))
	}
	return b
}

// BailExit is the exit status of a worker that ended itself on purpose after
// reporting a case (e.g. because a script goroutine is stuck and would poison
// later cases); the orchestrator resumes after that case without recording a crash.
const BailExit = 77

// Bail flushes everything reported so far and ends the process.
func (c *Case) Bail() {
	c.W.flush("ckpt")
	os.Exit(BailExit)
}

// Begin records the input about to be executed in the in-flight file, so the
// parent can attribute a process death to it. Call it before every execution
// that might kill the process.
func (c *Case) Begin(input interface{}) {
	w := c.W
	if w.curF == nil {
		return
	}
	cur := fw.Cur{Phase: c.Phase, Case: c.Index, Sub: c.sub, Input: raw(input)}
	c.sub++
	b, _ := json.Marshal(cur)
	b = append(b, '\n')
	// overwrite in place; pad by truncating afterwards
	syscall.Pwrite(int(w.curF.Fd()), b, 0)
	syscall.Ftruncate(int(w.curF.Fd()), int64(len(b)))
}

// Eval counts one evaluation. hash identifies the case for the distinct count;
// nontrivial says whether it satisfied the property's non-triviality rule.
func (c *Case) Eval(hash string, nontrivial bool) {
	w := c.W
	w.evals++
	if nontrivial {
		w.nontrivial++
		h := fw.Hash64(hash)
		if _, ok := w.seenAll[h]; !ok {
			w.seenAll[h] = struct{}{}
			w.hashes[h] = struct{}{}
		}
	}
}

// EvalN counts n trivial/non-hashed evaluations at once.
func (c *Case) EvalN(n int) { c.W.evals += n }

func (c *Case) Tag(tags ...string) {
	for _, t := range tags {
		c.W.tags[t]++
	}
}

func (c *Case) Count(name string, n int) { c.W.extra[name] += n }

func (c *Case) Events(n int) { c.W.events += n }

// Sample records an example of what was explored (a few per worker process).
func (c *Case) Sample(v interface{}) {
	if c.W.samples >= maxSamplesPerWorker {
		return
	}
	c.W.samples++
	c.W.write(&fw.Rec{T: "sample", Case: c.Index, Sample: raw(v)})
}

func (c *Case) WantSample() bool { return c.W.samples < maxSamplesPerWorker }

// Violation reports that the oracle was refuted. sig is the finding signature
// (stable across seeds for the same defect), input the witness.
func (c *Case) Violation(sig, detail string, input interface{}) {
	c.W.viols++
	if fw.MatchKnown(c.W.known, c.W.Prop, sig) == nil {
		c.W.unlisted++
	}
	c.W.write(&fw.Rec{T: "viol", Case: c.Index, Sig: sig, Detail: detail, Input: raw(input)})
}

// Excluded reports a case outside the property's domain (counted, not judged).
func (c *Case) Excluded(reason string) {
	c.W.tags["excluded:"+reason]++
}

// Inconclusive reports a case whose monitor could not decide.
func (c *Case) Inconclusive(reason, detail string, input interface{}) {
	c.W.tags["inconclusive:"+reason]++
	c.W.write(&fw.Rec{T: "inconc", Case: c.Index, Sig: reason, Detail: detail, Input: raw(input)})
}
