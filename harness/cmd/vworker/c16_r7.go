package main

// C16, round 7 — two more directions of the same statement.
//
// (1) phase churn: LONG runs that make, use, close and drop a channel per item.
// "Channels made by scripts behave as Go channels": a channel that make() has just
// returned is a fresh, open, empty channel, however many channels the run (or the
// functions the run got from a library call) has made, closed and dropped before, and
// whatever the garbage collector did with them in between. One script makes thousands of
// channels in a loop - loop-back (send, receive, close on the main goroutine), request /
// reply (a reply channel per request, answered and closed by long-lived workers), batch
// (a feeder goroutine per channel, the consumer ranges over it), generator (a function
// that makes the channel, starts the feeder and returns it), signal (a goroutine closes
// the channel its starter waits on) - over 1-3 channel shapes (element type x capacity),
// in one call or spread over several calls on one environment with the functions defined
// by a library call, with the host's garbage collector run through a host function gc()
// at the end of every round / every few rounds / between the calls / not at all (then the
// run is long enough for the collector to run on its own). Every message carries a running
// number: all of them arrive exactly once, in order, converted to the element type of the
// channel they went through; every operation on a fresh channel succeeds (a failing one is
// reported by the script with oops(step, error)); on a sample of the channels the
// closed-channel rules are checked after the close (send / second close are errors,
// receive yields nil), so that "closed" is neither forgotten nor inherited.
//
// (2) phase gofunc: go statements whose callee is not a plain script function but a Go
// func value that wraps one - a script function stored in a func-typed field of a host
// struct, in a []Handler / map[string]Handler / chan Handler / *Handler / struct slot of a
// func type the host defined, handed through a host function (identity, a Go closure
// around it), or passed to a Go function that is itself the callee of the go statement;
// func(), func(int64), func(int64, string), func(...int64) (plain and spread call),
// func(interface{}, interface{}), func(int64) int64 - next to plain script functions.
// Healthy handlers are the producers of a fan-in (they report the arguments they got: the
// values at the go statement); faulty ones send on a closed channel / close a closed channel
// (directly, after closing it themselves, in the body of a for-in), bare or inside try.
// "Sending on a closed channel or closing a channel twice is an error, never a crash": the
// statement after the failing one is not executed, a try around it catches it, the healthy
// traffic is delivered, the interpreter still works afterwards - and the process that hosts
// the interpreter is still there. The programs of this phase run in a CHILD process (the
// worker binary re-executed, `-child c16prog`): its death is observed by the parent as a
// violation, with the panicking goroutine's entry point and innermost interpreter frame as
// the signature.

import (
	"bytes"
	"encoding/json"
	"fmt"
	"math/rand"
	"os"
	"os/exec"
	"regexp"
	"runtime"
	"runtime/debug"
	"sort"
	"strconv"
	"strings"
	"time"

	"verifharness/internal/ank"
	"verifharness/internal/wk"
)

// ---------------------------------------------------------------------------
// host side

// c16Worker is what the host hands to the scripts of phase gofunc: handlers are
// installed in its func-typed fields and started with go
type c16Worker struct {
	H0 func()
	H1 func(int64)
	H2 func(int64, string)
	HV func(...int64)
	HI func(interface{}, interface{})
	HR func(int64) int64
}

type c16HandlerN func(int64)

func c16DefineFuncTypes(e interface {
	Define(string, interface{}) error
	DefineType(string, interface{}) error
}) {
	e.Define("w", &c16Worker{})
	e.DefineType("Handler1", (func(int64))(nil))
	e.DefineType("HandlerV", (func(...int64))(nil))
	e.DefineType("HandlerN", c16HandlerN(nil))
	e.Define("wrap1", func(f func(int64)) func(int64) { return f })
	e.Define("thunk1", func(f func(int64)) func(int64) { return func(x int64) { f(x) } })
	e.Define("call1", func(f func(int64), x int64) { f(x) })
	e.Define("callv", func(f func(...int64), xs ...int64) { f(xs...) })
}

var c16OopsSteps = []string{"make", "send", "recv", "close", "go", "request", "other"}

// defineR7: gc() runs the host's garbage collector (a script has no other way to ask for
// it); oops(step, e) records that an operation of a churn cycle failed (it does not stop
// the run)
func (h *c16Host) defineR7(def func(string, interface{}) error) {
	def("gc", func() {
		h.mu.Lock()
		h.ev()
		h.mu.Unlock()
		runtime.GC()
	})
	def("oops", func(step interface{}, e interface{}) {
		h.mu.Lock()
		defer h.mu.Unlock()
		h.ev()
		s, known := fmt.Sprint(step), false
		for _, k := range c16OopsSteps {
			known = known || k == s
		}
		if !known {
			s = "other"
		}
		if n := "err-" + s; len(h.reports[n]) < 64 {
			h.reports[n] = append(h.reports[n], fmt.Sprint(e))
		}
	})
}

func c16SortedKeys(m map[string]string) []string {
	ks := make([]string, 0, len(m))
	for k := range m {
		ks = append(ks, k)
	}
	sort.Strings(ks)
	return ks
}

func c16Clip(l []string, n int) []string {
	if len(l) <= n {
		return l
	}
	return append(append([]string{}, l[:n]...), fmt.Sprintf("… %d entries", len(l)))
}

// ---------------------------------------------------------------------------
// phase churn

type c16Shape struct {
	el c16Elem
	cp int
	q  int // messages per cycle
}

func (g *c16Gen) mkExpr(sh c16Shape) string {
	if sh.cp == 0 && g.r.Intn(2) == 0 {
		return "make(chan " + sh.el.decl + ")"
	}
	return fmt.Sprintf("make(chan %s, %d)", sh.el.decl, sh.cp)
}

// c16Churn generates one churn program (see the head of this file).
func c16Churn(r *rand.Rand, tier string) *c16Prog {
	pattern := []string{"loopback", "loopback", "reply", "reply", "reply", "batch", "batch", "generator", "signal"}[r.Intn(9)]
	g := newC16Gen(r, "churn:"+pattern, 0)
	g.p.tags = g.p.tags[:0]
	g.tag("kind:churn")
	g.tag("churn:" + pattern)
	g.tag("fam:" + string(g.fam))
	g.pickSource()
	g.heavy = true
	g.p.sleepPm, g.p.yieldPm = 2, 100
	g.jitPc = []int{0, 0, 5, 20}[r.Intn(4)]
	els := c16ElemsOf(g.fam)
	it := func(idx string) string { return g.item("1", idx) }

	// shapes
	S := 1 + r.Intn(3)
	shapes := make([]c16Shape, S)
	for s := range shapes {
		sh := c16Shape{el: els[r.Intn(len(els))], cp: []int{0, 0, 1, 1, 2, 4}[r.Intn(6)]}
		switch pattern {
		case "loopback":
			if sh.cp == 0 {
				sh.cp = 1 + r.Intn(3)
			}
			sh.q = 1 + r.Intn(sh.cp)
		case "reply":
			sh.q = []int{1, 1, 2, 4}[r.Intn(4)] // the window
			if sh.q > 1 && sh.cp == 0 {
				sh.cp = 1
			}
		case "signal":
			sh.q = 2
		default:
			sh.q = r.Intn(5)
		}
		shapes[s] = sh
		g.tag("elem:" + sh.el.decl)
		g.tag(capTag(sh.cp))
	}
	g.tag("shapes:" + strconv.Itoa(S))

	// how the collector comes into play, and how long the run is
	gcMode := []string{"every-round", "every-round", "every-round", "every-4th-round", "natural", "natural"}[r.Intn(6)]
	calls := 1
	if r.Intn(3) == 0 {
		calls = 2 + r.Intn(4)
		if r.Intn(2) == 0 {
			gcMode = "between-calls"
		}
	}
	g.tag("gc:" + gcMode)
	g.tag("calls:" + strconv.Itoa(calls))
	light := pattern == "loopback"
	var cycles int
	switch {
	case gcMode == "natural" && light:
		cycles = 6000 + r.Intn(4000)
	case gcMode == "natural":
		cycles = 5000 + r.Intn(2000)
	case light:
		cycles = 800 + r.Intn(2400)
	default:
		cycles = 500 + r.Intn(1500)
	}
	if tier == "thorough" {
		cycles *= 2
	}
	// R rounds of B inner iterations (each runs one cycle per shape); the collector is run
	// at the end of a round: 12-60 rounds, so that a program calls it some dozens of times
	R := 12 + r.Intn(49)
	B := cycles / (R * S)
	if B < 1 {
		B = 1
	}
	retain := r.Intn(3) == 0 // the closed channels are kept in a list until the end of the round
	if retain {
		g.tag("retain:round")
	}
	P := []int{3, 7, 16, 50}[r.Intn(4)] // closed-channel checks on every P-th cycle
	try := r.Intn(5) != 0               // goroutine bodies report a failing operation (otherwise they just end)
	if try {
		g.tag("stage:try")
	} else {
		g.tag("stage:bare")
	}
	guard := func(stVar, body string) string {
		if !try {
			return body
		}
		return "try {\n" + indent(body) + "} catch e { oops(" + stVar + ", e) }\n"
	}

	// the functions (library) and the per-shape cycle bodies
	lib := &g.decl
	W := 1 + r.Intn(3)
	closer := []string{"worker", "worker", "client", "none"}[r.Intn(4)]
	var setup, teardown string
	switch pattern {
	case "reply":
		fmt.Fprintf(lib, "func serve(k) {\n%s  fin <- k\n}\n", indent("var wst = \"recv\"\n"+guard("wst",
			"for wrq in reqs {\n  "+g.jit()+"var wrp = wrq[1]\n  wst = \"send\"; wrp <- wrq[0]\n"+
				map[bool]string{true: "  wst = \"close\"; close(wrp)\n", false: ""}[closer == "worker"]+"  wst = \"recv\"\n}\n")))
		setup = fmt.Sprintf("reqs = make(chan interface, %d)\nfin = make(chan interface, %d)\nfor j = 0; j < %d; j++ { go serve(j) }\n", []int{0, 1, 4}[r.Intn(3)], []int{0, W}[r.Intn(2)], W)
		teardown = fmt.Sprintf("close(reqs)\nfor j = 0; j < %d; j++ { <-fin }\n", W)
		g.tag("workers:" + strconv.Itoa(W))
		g.tag("reply-closed-by:" + closer)
	case "batch":
		fmt.Fprintf(lib, "func feed(o, base, q) {\n%s}\n", indent("var fst = \"send\"\n"+guard("fst",
			"for fj = 0; fj < q; fj++ { "+g.jit()+"o <- "+it("(base + fj)")+" }\nfst = \"close\"; close(o)\n")))
	}
	var bodies []string
	post := func() string {
		// closed-channel rules on the channel the cycle has just closed
		return fmt.Sprintf("if t %% %d == 0 {\n  try { c <- %s; report(\"closed-send\", t) } catch e { okerr++ }\n  try { close(c); report(\"closed-close\", t) } catch e { okerr++ }\n  if (<-c) != nil { report(\"closed-recv\", t) }\n}\n", P, it("0"))
	}
	posted := true
	for s, sh := range shapes {
		var b strings.Builder
		fmt.Fprintf(&b, "b = seq; seq += %d; t++; st = \"make\"\n", sh.q)
		var body string
		recvOne := func(ch string) string {
			switch r.Intn(3) {
			case 0:
				g.tag("recv:expr")
				return "item(0, <-" + ch + ")"
			case 1:
				g.tag("recv:ok")
				return "v, ok = <-" + ch + "; if !ok { oops(\"recv\", \"ok is false on an open channel\") }; item(0, v)"
			}
			g.tag("recv:assign")
			return "v = <-" + ch + "; item(0, v)"
		}
		recvAll := func(ch string) string {
			switch r.Intn(3) {
			case 0:
				g.tag("recv:forin")
				return "for v in " + ch + " { item(0, v) }"
			case 1:
				g.tag("recv:ok-loop")
				return "for { v, ok = <-" + ch + "; if !ok { break }; item(0, v) }"
			}
			g.tag("recv:expr-loop")
			return "for { v = (<-" + ch + "); if v == nil { break }; item(0, v) }"
		}
		switch pattern {
		case "loopback":
			body = "c = " + g.mkExpr(sh) + "\nst = \"send\"\n"
			for j := 0; j < sh.q; j++ {
				body += fmt.Sprintf("c <- %s\n", it("(b + "+strconv.Itoa(j)+")"))
			}
			if r.Intn(3) == 0 {
				// closed with the messages still queued: they are delivered, then the loop ends
				g.tag("loopback:close-first")
				body += "st = \"close\"; close(c)\nst = \"recv\"; " + recvAll("c") + "\n"
			} else {
				body += "st = \"recv\"\n"
				for j := 0; j < sh.q; j++ {
					body += recvOne("c") + "\n"
				}
				body += "st = \"close\"; close(c)\n"
			}
		case "reply":
			slots := r.Intn(2) == 0 // the reply channels sit in a typed []chan T
			if slots {
				g.tag("reply:typed-slots")
				body = fmt.Sprintf("rps = make([]chan %s, %d)\nfor j = 0; j < %d; j++ { rps[j] = %s }\n", sh.el.decl, sh.q, sh.q, g.mkExpr(sh))
			} else {
				body = fmt.Sprintf("rps = []\nfor j = 0; j < %d; j++ { rps += [%s] }\n", sh.q, g.mkExpr(sh))
			}
			body += fmt.Sprintf("st = \"request\"; for j = 0; j < %d; j++ { reqs <- [%s, rps[j]] }\n", sh.q, it("(b + j)"))
			body += fmt.Sprintf("st = \"recv\"; for j = 0; j < %d; j++ { c = rps[j]; %s", sh.q, recvOne("c"))
			switch closer {
			case "worker":
				// the worker closes after it has answered: wait for that
				body += "; for x in c { oops(\"recv\", \"a second answer\") }"
			case "client":
				body += "; st = \"close\"; close(c); st = \"recv\""
			}
			body += " }\n"
			posted = posted && closer != "none"
		case "batch":
			body = "c = " + g.mkExpr(sh) + "\nst = \"go\"\n"
			switch r.Intn(3) {
			case 0:
				g.tag("launch:named")
				body += fmt.Sprintf("go feed(c, b, %d)\n", sh.q)
			case 1:
				g.tag("launch:anon")
				body += fmt.Sprintf("go func(o, base, q) { feed(o, base, q) }(c, b, %d)\n", sh.q)
			default:
				g.tag("launch:closure")
				body += fmt.Sprintf("go func() { feed(c, b, %d) }()\n", sh.q)
			}
			body += "st = \"recv\"; " + recvAll("c") + "\n"
		case "generator":
			fn := "gen" + strconv.Itoa(s)
			fmt.Fprintf(lib, "func %s(base, q) {\n  var o = %s\n  go func() {\n%s  }()\n  return o\n}\n", fn, g.mkExpr(sh), indent(indent("var fst = \"send\"\n"+guard("fst",
				"for fj = 0; fj < q; fj++ { "+g.jit()+"o <- "+it("(base + fj)")+" }\nfst = \"close\"; close(o)\n"))))
			body = fmt.Sprintf("c = %s(b, %d)\nst = \"recv\"; %s\n", fn, sh.q, recvAll("c"))
		case "signal":
			body = "c = " + g.mkExpr(sh) + "\nst = \"go\"\n"
			body += "go func(d, base) {\n  item(0, " + it("base") + ")\n" + indent(g.jit()+"var fst = \"close\"\n"+guard("fst", "close(d)\n")) + "}(c, b)\nst = \"recv\"\n"
			switch r.Intn(3) {
			case 0:
				g.tag("wait:expr")
				body += "x = <-c; if x != nil { oops(\"recv\", \"a value from a channel nothing was sent on\") }\n"
			case 1:
				g.tag("wait:ok")
				body += "x, ok = <-c; if ok { oops(\"recv\", \"ok is true on a channel nothing was sent on\") }\n"
			default:
				g.tag("wait:forin")
				body += "for x in c { oops(\"recv\", \"a value from a channel nothing was sent on\") }\n"
			}
			body += "item(0, " + it("(b + 1)") + ")\n"
		}
		b.WriteString("try {\n" + indent(body) + "} catch e { oops(st, e) }\n")
		if retain {
			b.WriteString("old += [c]\n")
		}
		bodies = append(bodies, b.String())
	}
	if posted {
		g.tag("closed-channel-checks")
	}
	cycle := strings.Join(bodies, "")
	if posted {
		// after the last shape's cycle (c is that cycle's channel)
		cycle += post()
	}
	rounds := func(n int, last bool) string {
		var b strings.Builder
		fmt.Fprintf(&b, "for round = 0; round < %d; round++ {\n  for i = 0; i < %d; i++ {\n%s  }\n", n, B, indent(indent(cycle)))
		if retain {
			b.WriteString("  old = []\n")
		}
		switch gcMode {
		case "every-round":
			b.WriteString("  c = nil; rps = nil; gc()\n")
		case "every-4th-round":
			b.WriteString("  if round % 4 == 3 { c = nil; rps = nil; gc() }\n")
		}
		b.WriteString("}\n")
		if gcMode == "between-calls" && !last {
			b.WriteString("c = nil; rps = nil; gc()\n")
		}
		return b.String()
	}
	head := "seq = 0; t = 0; okerr = 0; old = []; c = nil; rps = nil; v = nil; ok = nil; x = nil; st = \"\"; b = 0\n"
	tail := teardown + "report(\"okerr\", okerr)\nreport(\"cycles\", t)\n"
	mode := func() string {
		if r.Intn(3) == 0 {
			return "ctx"
		}
		return "exec"
	}
	if calls == 1 {
		g.p.src = lib.String() + head + setup + rounds(R, true) + tail
	} else {
		// the functions come from a library call of their own (half of the time under a
		// context that is released when it has returned), the rounds are dealt to the calls
		libMode := []string{"exec", "ctx", "ctx-released", "run-released"}[r.Intn(4)]
		g.tag("library-call:" + libMode)
		g.p.pre = append(g.p.pre, c16Step{lib.String() + head, libMode})
		per := R / calls
		for cI := 0; cI < calls-1; cI++ {
			src := rounds(per, false)
			if cI == 0 {
				src = setup + src
			}
			g.p.pre = append(g.p.pre, c16Step{src, mode()})
		}
		g.p.mainMode = mode()
		g.p.src = rounds(R-per*(calls-1), true) + tail
	}

	// what must be observed
	T := R * B * S
	seq := 0
	for t := 0; t < T; t++ {
		sh := shapes[t%S]
		typ := c16Fold(g.srcTyp, sh.el)
		if pattern == "signal" {
			typ = g.srcTyp // the messages do not go through the channel
		}
		for j := 0; j < sh.q; j++ {
			key := ank.Render(c16Val(g.fam, 1, seq, typ))
			g.p.keys[key] = c16Msg{group: 1, seq: seq, id: seq}
			g.p.exact = append(g.p.exact, key)
			seq++
		}
	}
	g.p.total = seq
	g.p.final = c16Fold(g.srcTyp, shapes[0].el)
	g.tag("cycles:" + map[bool]string{true: "5000+", false: "<5000"}[T >= 5000])
	for _, s := range c16OopsSteps {
		n := "err-" + s
		g.expect(n, "fresh-chan:"+s+"-failed")
		g.p.firstRep = append(g.p.firstRep, n)
	}
	g.expect("cycles", "churn:cycle-count", ank.Render(int64(T)))
	if posted {
		g.expect("closed-send", "send-closed:no-error:churn")
		g.expect("closed-close", "double-close:no-error:churn")
		g.expect("closed-recv", "closed-recv-expr:not-nil")
		// the checks run after the cycle of the last shape, on the cycles t = S, 2S, ... that P divides
		cnt := 0
		for t := S; t <= T; t += S {
			if t%P == 0 {
				cnt++
			}
		}
		g.expect("okerr", "churn:closed-channel-errors-miscounted", ank.Render(int64(2*cnt)))
	} else {
		g.expect("okerr", "churn:closed-channel-errors-miscounted", "int64(0)")
	}
	g.p.recvForm["int64(0)"] = "churn"
	return g.p
}

// ---------------------------------------------------------------------------
// phase gofunc

type c16Handler struct {
	k     int
	role  string // "producer" | fault name
	guard string // "bare" | "try"
	form  string
}

var c16GoForms = []string{"field-H1", "field-H2", "field-H0", "field-HV", "field-HV-spread", "field-HI", "field-HR",
	"slice-slot", "map-entry", "map-member", "chan-of-func", "script-struct-field", "pointer-slot", "named-func-type",
	"host-identity", "host-thunk", "host-call1", "host-callv", "sync-in-go", "plain-named", "plain-anon"}

var c16Faults = []string{"send-closed", "send-closed", "close-closed", "close-closed", "close-twice", "close-then-send", "send-closed-in-forin", "close-closed-in-forin",
	"x-throw", "x-undefined", "x-index"}

func c16FaultClass(f string) string {
	switch f {
	case "send-closed", "close-then-send", "send-closed-in-forin":
		return "send-closed"
	case "close-closed", "close-twice", "close-closed-in-forin":
		return "double-close"
	}
	return ""
}

// c16GoFunc generates one program of phase gofunc (see the head of this file).
func c16GoFunc(r *rand.Rand, tier string) *c16Prog {
	n := []int{0, 1, 2, 5, 20, 20}[r.Intn(6)]
	g := newC16Gen(r, "gofunc", n)
	g.p.inChild = true
	g.p.mustMark, g.p.noMark = map[string]string{}, map[string]string{}
	els := c16ElemsOf(g.fam)
	el := els[r.Intn(len(els))]
	typ := c16Fold(g.srcTyp, el)
	g.p.final = typ
	g.mkChan("out", el, g.pickCap(n))
	K := 2 + r.Intn(4)
	fmt.Fprintf(&g.decl, "fin = make(chan interface, %d)\n", []int{0, 1, K}[r.Intn(3)])
	dEl := els[r.Intn(len(els))]
	fmt.Fprintf(&g.decl, "dead = make(chan %s, %d)\nclose(dead)\n", dEl.decl, r.Intn(3))
	forms := append([]string{}, c16GoForms...)
	r.Shuffle(len(forms), func(a, b int) { forms[a], forms[b] = forms[b], forms[a] })
	// roles: the first handler is a healthy producer, the second a faulty one, the rest either
	hs := make([]c16Handler, K)
	for i := range hs {
		h := c16Handler{k: 11 + i, role: "producer", guard: "bare", form: forms[i]}
		if i == 1 || i > 1 && r.Intn(2) == 0 {
			h.role = c16Faults[r.Intn(len(c16Faults))]
			if r.Intn(3) == 0 {
				h.guard = "try"
			}
		}
		hs[i] = h
	}
	if r.Intn(4) == 0 {
		// one faulty handler is called synchronously by the main goroutine inside try: the
		// error of the failing operation reaches the caller through the Go func value
		for i := range hs {
			if hs[i].role != "producer" && c16FaultClass(hs[i].role) != "" && hs[i].guard == "bare" && strings.HasPrefix(hs[i].form, "field-H") && hs[i].form != "field-HV-spread" {
				hs[i].form = "sync-main:" + hs[i].form
				break
			}
		}
	}
	r.Shuffle(len(hs), func(a, b int) { hs[a], hs[b] = hs[b], hs[a] })
	finishers, total := 0, 0
	for _, h := range hs {
		ks := strconv.Itoa(h.k)
		kr := ank.Render(int64(h.k))
		form := strings.TrimPrefix(h.form, "sync-main:")
		syncMain := form != h.form
		g.tag("go-callee:" + h.form)
		g.tag("handler:" + h.role + ":" + h.guard)
		// the channel the handler works on: the global, or (func(interface{}, interface{})) its first parameter
		ch, deadCh := "out", "dead"
		if form == "field-HI" {
			ch, deadCh = "o", "o"
		}
		// body
		var body string
		extraArgs := ""
		if form == "field-H2" {
			extraArgs = ", s"
		}
		if h.role == "producer" {
			finishers++
			np := n
			if h.k > 11 {
				np = []int{n, n, n / 2, 1, 0}[r.Intn(5)]
			}
			for i := 0; i < np; i++ {
				g.p.keys[ank.Render(c16Val(g.fam, h.k, i, typ))] = c16Msg{group: h.k, seq: i, id: total}
				total++
			}
			body = g.wrapTry("k", fmt.Sprintf("args(k, %d%s)\nfor fj = 0; fj < %d; fj++ { %s%s <- %s }\nfin <- k\n", np, extraArgs, np, g.jit(), ch, g.item("k", "fj")))
			exp := kr + " " + ank.Render(int64(np))
			if form == "field-H2" {
				exp += " " + ank.Render("p"+ks)
			}
			g.p.expArgs[kr] = exp
			g.p.argForm[kr] = h.form
		} else {
			var fault string
			switch h.role {
			case "send-closed":
				fault = deadCh + " <- " + c16Item(g.fam, "9", "1")
			case "close-closed":
				fault = "close(" + deadCh + ")"
			case "close-twice":
				fault = "var fq = make(chan interface, 1); close(fq); close(fq)"
			case "close-then-send":
				fault = "var fq = make(chan interface, 1); close(fq); fq <- 1"
			case "send-closed-in-forin":
				fault = "var fq = make(chan interface, 2); fq <- 1; fq <- 2; close(fq)\nfor fz in fq { " + deadCh + " <- " + c16Item(g.fam, "9", "1") + " }"
			case "close-closed-in-forin":
				fault = "var fq = make(chan interface, 2); fq <- 1; fq <- 2; close(fq)\nfor fz in fq { close(" + deadCh + ") }"
			case "x-throw":
				fault = "throw \"boom\""
			case "x-undefined":
				fault = "nosuchfunction(k)"
			case "x-index":
				fault = "var fl = [1]; fl[5]"
			}
			class := c16FaultClass(h.role)
			where := ":in-go-handler"
			if syncMain {
				where = ":in-handler-called-by-main"
			}
			g.p.mustMark["pre:"+kr] = "go-handler:never-ran"
			if h.guard == "try" {
				finishers++
				body = "mark(\"pre\", k)\ntry {\n" + indent(fault+"\nmark(\"post\", k)") + "} catch e { mark(\"caught\", k) }\nfin <- k\n"
				if class != "" {
					g.p.mustMark["caught:"+kr] = class + ":not-caught" + where
				}
			} else {
				body = "mark(\"pre\", k)\n" + fault + "\nmark(\"post\", k)\n"
			}
			if class != "" {
				g.p.noMark["post:"+kr] = class + ":no-error" + where
			}
		}
		// the function literal
		var lit string
		switch form {
		case "field-H0":
			lit = "func() {\n  var k = " + ks + "\n" + indent(body) + "}"
		case "field-H2":
			lit = "func(k, s) {\n" + indent(body) + "}"
		case "field-HV", "field-HV-spread", "host-callv":
			lit = "func(a...) {\n  var k = a[0]\n" + indent(body) + "}"
		case "field-HI":
			lit = "func(o, k) {\n" + indent(body) + "}"
		case "field-HR":
			lit = "func(k) {\n" + indent(body) + "  return k\n}"
		default:
			lit = "func(k) {\n" + indent(body) + "}"
		}
		// installing it and starting it; the argument variables are reassigned right after
		m := &g.main
		fmt.Fprintf(m, "gk = %d; gs = \"p%d\"\n", h.k, h.k)
		var call string
		switch form {
		case "field-H1":
			fmt.Fprintf(m, "w.H1 = %s\n", lit)
			call = "w.H1(gk)"
		case "field-H2":
			fmt.Fprintf(m, "w.H2 = %s\n", lit)
			call = "w.H2(gk, gs)"
		case "field-H0":
			fmt.Fprintf(m, "w.H0 = %s\n", lit)
			call = "w.H0()"
		case "field-HV":
			fmt.Fprintf(m, "w.HV = %s\n", lit)
			call = "w.HV(gk, 7)"
		case "field-HV-spread":
			fmt.Fprintf(m, "w.HV = %s\ngl = [gk, 7]\n", lit)
			call = "w.HV(gl...)"
		case "field-HI":
			fmt.Fprintf(m, "w.HI = %s\n", lit)
			if h.role == "producer" {
				call = "w.HI(out, gk)"
			} else {
				call = "w.HI(dead, gk)"
			}
		case "field-HR":
			fmt.Fprintf(m, "w.HR = %s\n", lit)
			call = "w.HR(gk)"
		case "slice-slot":
			fmt.Fprintf(m, "hsl = make([]Handler1, 2)\nhsl[1] = %s\n", lit)
			call = "hsl[1](gk)"
		case "map-entry":
			fmt.Fprintf(m, "hme = make(map[string]Handler1)\nhme[\"a\"] = %s\n", lit)
			call = "hme[\"a\"](gk)"
		case "map-member":
			fmt.Fprintf(m, "hmm = make(map[string]Handler1)\nhmm.run = %s\n", lit)
			call = "hmm.run(gk)"
		case "chan-of-func":
			fmt.Fprintf(m, "hfc = make(chan Handler1, 1)\nhfc <- %s\nhcf = <-hfc\n", lit)
			call = "hcf(gk)"
		case "script-struct-field":
			fmt.Fprintf(m, "hst = make(struct { Run Handler1 })\nhst.Run = %s\n", lit)
			call = "hst.Run(gk)"
		case "pointer-slot":
			fmt.Fprintf(m, "hpp = new(Handler1)\n*hpp = %s\n", lit)
			call = "(*hpp)(gk)"
		case "named-func-type":
			fmt.Fprintf(m, "hnt = make([]HandlerN, 1)\nhnt[0] = %s\n", lit)
			call = "hnt[0](gk)"
		case "host-identity":
			fmt.Fprintf(m, "hid = wrap1(%s)\n", lit)
			call = "hid(gk)"
		case "host-thunk":
			fmt.Fprintf(m, "hth = thunk1(%s)\n", lit)
			call = "hth(gk)"
		case "host-call1":
			fmt.Fprintf(m, "hc1 = %s\n", lit)
			call = "call1(hc1, gk)"
		case "host-callv":
			fmt.Fprintf(m, "hcv = %s\n", lit)
			call = "callv(hcv, gk, 7)"
		case "sync-in-go":
			// called synchronously by a plain function that was started with go (a slot of
			// its own: the goroutine reads it when it gets there)
			fmt.Fprintf(m, "hsg = wrap1(%s)\n", lit)
			call = "func(x) { hsg(x) }(gk)"
		case "plain-named":
			fmt.Fprintf(m, "hpn = %s\n", lit)
			call = "hpn(gk)"
		case "plain-anon":
			call = lit + "(gk)"
		}
		if syncMain {
			fmt.Fprintf(m, "try { %s; mark(\"post-call\", %s) } catch e { mark(\"caught-call\", %s) }\n", call, ks, ks)
			class := c16FaultClass(h.role)
			g.p.mustMark["caught-call:"+kr] = class + ":error-lost:in-handler-called-by-main"
			g.p.noMark["post-call:"+kr] = class + ":error-lost:in-handler-called-by-main"
		} else {
			fmt.Fprintf(m, "go %s\n", call)
		}
		m.WriteString("gk = -7; gs = \"\"; gl = nil\n")
	}
	g.p.total = total
	// a plain goroutine closes out once every finisher has reported; the main goroutine consumes
	fmt.Fprintf(&g.main, "go func() { for fc = 0; fc < %d; fc++ { <-fin }; close(out) }()\n", finishers)
	form := g.pickRecv(false)
	g.p.recvForm["int64(0)"] = form
	g.main.WriteString(g.consumerBody(c16Names{i: "out", o: "nil", k: "0", n: strconv.Itoa(total), pre: "m"}, form, false, ""))
	g.tag("handlers:" + strconv.Itoa(K))
	g.p.epilogue = "ed = make(chan int64, 1); go func() { ed <- 42 }(); <-ed"
	return g.finish()
}

// ---------------------------------------------------------------------------
// running a program in a child process

type c16ChildIn struct {
	Gen   string // generator name
	Seed  int64  // seed of the generator's PRNG
	Tier  string
	Procs []int
	Reps  int
}

type c16ChildVerdict struct{ Sig, Detail string }

type c16ChildOut struct {
	Runs      int
	Events    int
	Delivered int
	Held      int
	Viols     []c16ChildVerdict
	Inconc    []c16ChildVerdict
	Procs     int // GOMAXPROCS of the last run
}

func c16GenByName(name string, r *rand.Rand, tier string) *c16Prog {
	switch name {
	case "gofunc":
		return c16GoFunc(r, tier)
	case "churn":
		return c16Churn(r, tier)
	}
	return nil
}

func init() { wk.RegisterChild("c16prog", c16ProgChild) }

// c16ProgChild is the body of the child process: it generates the program again from the
// seed, runs and judges it like the worker itself would, and prints the verdicts.
func c16ProgChild(args []string) {
	var in c16ChildIn
	if err := json.NewDecoder(os.Stdin).Decode(&in); err != nil {
		fmt.Fprintln(os.Stderr, "c16prog: bad input:", err)
		os.Exit(3)
	}
	debug.SetTraceback("all")
	p := c16GenByName(in.Gen, rand.New(rand.NewSource(in.Seed)), in.Tier)
	if p == nil {
		fmt.Fprintln(os.Stderr, "c16prog: unknown generator", in.Gen)
		os.Exit(3)
	}
	hostRng := rand.New(rand.NewSource(in.Seed ^ 0x5eed16))
	c := &wk.Case{W: &wk.Worker{}, Phase: "child", Tier: in.Tier}
	var out c16ChildOut
runs:
	for _, pr := range in.Procs {
		runtime.GOMAXPROCS(pr)
		for rep := 0; rep < in.Reps; rep++ {
			h := newC16Host(p.total+3, hostRng.Int63(), p.sleepPm, p.yieldPm)
			r := c16Execute(c, p, pr, h)
			viols, inconc, _ := c16Judge(p, r, h)
			out.Runs++
			out.Procs = pr
			out.Events += h.events
			for _, x := range viols {
				out.Viols = append(out.Viols, c16ChildVerdict{x.sig, x.detail})
			}
			for _, x := range inconc {
				out.Inconc = append(out.Inconc, c16ChildVerdict{x.sig, x.detail})
			}
			if len(viols) > 0 || len(inconc) > 0 {
				break runs
			}
			out.Held++
			out.Delivered += len(h.collected[p.consumer])
		}
	}
	b, _ := json.Marshal(out)
	os.Stdout.Write(append(b, '\n'))
	os.Exit(0)
}

var c16ReFrame = regexp.MustCompile(`^github\.com/mattn/anko/([A-Za-z0-9_/]+\.(?:\(\*?[A-Za-z0-9_]+\)\.)?[A-Za-z0-9_.]+?)(?:\(|$)`)

// c16DeathSig reads the fault report of a Go process that died: the signature is the
// entry point of the goroutine that panicked ("created by") and its innermost frame
// inside mattn/anko - the place that lacks the safety net and the place that raised.
func c16DeathSig(stderr string) (sig, msg string, ok bool) {
	lines := strings.Split(stderr, "\n")
	at := -1
	for i, ln := range lines {
		if strings.HasPrefix(ln, "panic: ") || strings.HasPrefix(ln, "fatal error: ") {
			at, msg = i, ln
			break
		}
	}
	if at < 0 {
		return "", "", false
	}
	site, entry := "?", "?"
	in := false
	for _, ln := range lines[at+1:] {
		if strings.HasPrefix(ln, "goroutine ") {
			if in {
				break
			}
			in = true
			continue
		}
		if !in || strings.HasPrefix(ln, "\t") {
			continue
		}
		if ln == "" {
			break
		}
		if strings.HasPrefix(ln, "created by ") {
			e := strings.TrimPrefix(ln, "created by ")
			if i := strings.Index(e, " in goroutine"); i >= 0 {
				e = e[:i]
			}
			entry = strings.TrimPrefix(e, "github.com/mattn/anko/")
			continue
		}
		if site == "?" {
			if m := c16ReFrame.FindStringSubmatch(ln); m != nil {
				site = m[1]
			}
		}
	}
	if strings.HasPrefix(msg, "fatal error: ") {
		return "host-died:" + ank.AbstractMsg(msg), msg, true
	}
	if !strings.Contains(msg, "closed channel") {
		// not one of the two faults the statement names (a throw, an undefined function ...
		// inside a go-started handler): told apart, the statement does not speak of these
		return "host-died:other-error:goroutine-of:" + entry + ":panic-in:" + site, msg, true
	}
	return "host-died:goroutine-of:" + entry + ":panic-in:" + site, msg, true
}

// c16RunInChild runs program p (generated by generator gen from seed) in a child process.
func c16RunInChild(c *wk.Case, gen string, p *c16Prog, seed int64, procs []int, reps int) {
	for _, tg := range p.tags {
		c.Tag(tg)
	}
	bin := os.Getenv("VERIF_WORKER_BIN")
	if bin == "" {
		bin, _ = os.Executable()
	}
	in, _ := json.Marshal(c16ChildIn{Gen: gen, Seed: seed, Tier: c.Tier, Procs: procs, Reps: reps})
	input := p.input(procs[0])
	input["runs_in"] = fmt.Sprintf("a child process (vworker -child c16prog), GOMAXPROCS %v x %d runs", procs, reps)
	c.Begin(input)
	cmd := exec.Command(bin, "-child", "c16prog")
	cmd.Stdin = bytes.NewReader(in)
	var stdout, stderr bytes.Buffer
	cmd.Stdout, cmd.Stderr = &stdout, &stderr
	if err := cmd.Start(); err != nil {
		c.Inconclusive("child-not-started", err.Error(), nil)
		return
	}
	done := make(chan error, 1)
	go func() { done <- cmd.Wait() }()
	var werr error
	select {
	case werr = <-done:
	case <-time.After(300 * time.Second):
		// a stuck child is inconclusive, never a verdict (the child decides deadlocks itself, from goroutine states)
		cmd.Process.Kill()
		<-done
		c.Inconclusive("child-watchdog", "", input)
		return
	}
	c.Count("child-processes", 1)
	var out c16ChildOut
	if werr == nil && json.Unmarshal(bytes.TrimSpace(stdout.Bytes()), &out) == nil {
		for i := 0; i < out.Runs; i++ {
			c.Eval(p.hash(), true)
		}
		c.Events(out.Events)
		c.Count("messages-delivered-and-verified", out.Delivered)
		c.Count("runs-held", out.Held)
		input["gomaxprocs"] = out.Procs
		seen := map[string]bool{}
		for _, x := range out.Viols {
			if !seen[x.Sig] {
				seen[x.Sig] = true
				c.Violation(x.Sig, x.Detail, input)
			}
		}
		for _, x := range out.Inconc {
			c.Inconclusive(x.Sig, x.Detail, input)
		}
		if c.WantSample() {
			c.Sample(map[string]interface{}{"src": p.src, "child_runs": out.Runs, "violations": len(out.Viols), "delivered": out.Delivered})
		}
		return
	}
	// the child died
	c.Eval(p.hash(), true)
	es := stderr.String()
	switch {
	case strings.Contains(es, "out of memory") || strings.Contains(es, "cannot allocate memory") || strings.Contains(es, "runtime: cannot map pages"):
		c.Excluded("memory-exhaustion")
		return
	}
	sig, msg, ok := c16DeathSig(es)
	if !ok {
		// not a Go fault report (killed from outside, could not start ...): nothing learnt
		c.Inconclusive("child-died-without-report", fmt.Sprint(werr)+" "+firstLinesOf(es, 3), input)
		return
	}
	c.Tag("child:died")
	c.Violation(sig, "the process hosting the interpreter died while the goroutines of the script ran ("+msg+"): an error inside a function started with go must stay an error, it is never a crash:\n"+firstLinesOf(es, 40), input)
}
