package main

// Round 7 direct programs for the model-based checks (constructs the reference model does not
// cover): function literals started with go / defer inside blocks capture their scope by reference
// (C04), surplus elements of a list literal on the right of a multi-assignment (C07, in c07Sites),
// a valued return unwinding through every loop form also under vm.Execute (C08), switch against ==
// over subjects of every kind incl. pointers to pointers (C08), errors whose text equals an internal
// sentinel (C09).

import (
	"fmt"
	"strings"

	"verifharness/internal/ank"
	"verifharness/internal/wk"
)

// c04Direct: a function literal that is the callee of a go or defer statement captures the block it
// is written in BY REFERENCE: what the spawning code assigns after the statement is what the literal
// reads later, and what the literal assigns is what the block reads afterwards. The two sides are
// ordered through channels (go) or by the end of the invocation (defer).
func c04Direct() []directProg {
	type wrap struct{ name, open, close, v string }
	wraps := []wrap{
		{"function-body", "var v = 1\n", "", "v"},
		{"if-block", "if true {\nvar v = 1\n", "}\n", "v"},
		{"else-block", "if false { } else {\nvar v = 1\n", "}\n", "v"},
		{"forin-list-body", "for v in [1] {\n", "}\n", "v"},
		{"forin-list-body-2vars", "for k, v in {\"a\": 1} {\n", "}\n", "v"},
		{"forin-body-var", "for q in [0] {\nvar v = 1\n", "}\n", "v"},
		{"cfor-body", "for q = 0; q < 1; q++ {\nvar v = 1\n", "}\n", "v"},
		{"loop-body", "for {\nvar v = 1\n", "break\n}\n", "v"},
		{"try-block", "try {\nvar v = 1\n", "} catch e { rd(\"unexpected\", toString(e)) }\n", "v"},
		{"switch-case", "switch 1 {\ncase 1:\nvar v = 1\n", "}\n", "v"},
		{"plain-assigned-in-block", "if true {\nv = 1\n", "}\n", "v"},
	}
	var out []directProg
	for _, w := range wraps {
		goSrc := "func t() {\n" + w.open +
			"c = make(chan int64)\nd = make(chan int64)\n" +
			"go func() { <-c; rd(\"g\", v); v = 3; w = 7; d <- 1 }()\n" +
			"v = 2\nc <- 1\n<-d\nrd(\"s\", v)\n" + w.close + "}\nt()\nrd(\"end\", 1)"
		out = append(out, directProg{name: "go-literal-in-" + w.name, src: goSrc,
			want: []string{"rd g=" + ank.Render(int64(2)), "rd s=" + ank.Render(int64(3)), "rd end=" + ank.Render(int64(1))}, sig: "go-literal-captures-by-reference"})
		// a named literal binds its name in the block it is written in
		named := "func t() {\n" + w.open +
			"d = make(chan int64)\n" +
			"go func helper() { d <- 1 }()\n<-d\nrd(\"n\", kindOf(helper))\n" + w.close + "}\nt()"
		out = append(out, directProg{name: "go-named-literal-in-" + w.name, src: named,
			want: []string{"rd n=" + ank.Render("func")}, sig: "go-literal-captures-by-reference"})
		deferSrc := "func t() {\n" + w.open +
			"defer func() { rd(\"d1\", v) }()\n" +
			"defer func() { rd(\"d2\", v); v = 5 }()\n" +
			"v = 2\nrd(\"s\", v)\n" + w.close + "rd(\"out\", 1)\n}\nt()\nrd(\"end\", 1)"
		wantD := []string{"rd s=" + ank.Render(int64(2)), "rd out=" + ank.Render(int64(1)), "rd d2=" + ank.Render(int64(2)), "rd d1=" + ank.Render(int64(5)), "rd end=" + ank.Render(int64(1))}
		if w.name == "loop-body" {
			deferSrc = strings.Replace(deferSrc, "break\n}\n", "break\n}\n", 1)
		}
		out = append(out, directProg{name: "defer-literal-in-" + w.name, src: deferSrc, want: wantD, sig: "defer-literal-captures-by-reference"})
	}
	// at the top level of a run in a child scope of the host's environment the same holds (run by realrun in a fresh root: kept simple)
	top := "v = 1\nc = make(chan int64)\nd = make(chan int64)\ngo func() { <-c; rd(\"g\", v); v = 3; d <- 1 }()\nv = 2\nc <- 1\n<-d\nrd(\"s\", v)"
	out = append(out, directProg{name: "go-literal-at-top-level", src: top, want: []string{"rd g=" + ank.Render(int64(2)), "rd s=" + ank.Render(int64(3))}, sig: "go-literal-captures-by-reference"})
	return out
}

// c08ReturnDirect: a valued return ends the invocation from inside every loop form, nested blocks
// included, and yields its value (several as a list) - under a cancellable context and under vm.Execute.
func c08ReturnDirect() []directProg {
	loops := []struct{ name, open, close string }{
		{"forin-channel", "ch = make(chan int64, 4)\nch <- 1\nch <- 2\nch <- 3\nfor v in ch {\n", "}\n"},
		{"forin-list", "for v in [1, 2, 3] {\n", "}\n"},
		{"forin-map", "for k, v in {\"a\": 2} {\n", "}\n"},
		{"cfor", "for v = 1; v < 4; v++ {\n", "}\n"},
		{"cond", "v = 0\nfor v < 4 {\nv++\n", "}\n"},
		{"forever", "v = 0\nfor {\nv++\n", "}\n"},
		{"forin-typed-channel-in-if", "ch = make(chan string, 2)\nch <- \"x\"\nch <- \"y\"\nfor s in ch {\nv = 2\nif true {\n", "}\n}\n"},
		{"nested-forin-channel-in-cfor", "ch = make(chan int64, 4)\nch <- 2\nfor q = 0; q < 2; q++ {\nfor v in ch {\n", "}\n}\n"},
		{"forin-channel-in-try", "ch = make(chan int64, 4)\nch <- 2\nfor v in ch {\nswitch v {\ncase 2:\n", "}\n}\n"},
	}
	rets := []struct{ name, stmt, want string }{
		{"one", "if v == 2 { return v * 10 }\n", ank.Render(int64(20))},
		{"list", "if v == 2 { return v, \"b\" }\n", ank.Render([]interface{}{int64(2), "b"})},
		{"bare", "if v == 2 { return }\n", ank.Render(nil)},
	}
	var out []directProg
	for _, l := range loops {
		for _, r := range rets {
			src := "func f() {\n" + l.open + r.stmt + l.close + "return -1\n}\nrd(\"r\", f())\nrd(\"end\", 1)"
			for _, noCtx := range []bool{false, true} {
				mode := map[bool]string{false: "", true: "-without-context"}[noCtx]
				out = append(out, directProg{name: "return-" + r.name + "-from-" + l.name + mode, src: src, noCtx: noCtx,
					want: []string{"rd r=" + r.want, "rd end=" + ank.Render(int64(1))}, sig: "return-through-loop"})
			}
		}
	}
	return out
}

// c09SentinelDirect: an error is an error whatever its text says: thrown values and host errors whose
// text equals one of the interpreter's internal signals stop at the nearest try like any other, when
// the run's own context is live.
func c09SentinelDirect() []directProg {
	var out []directProg
	for _, text := range []string{"execution interrupted", "unexpected break statement", "unexpected continue statement", "unexpected return statement"} {
		for depth := 0; depth < 3; depth++ {
			body := fmt.Sprintf("throw %q", text)
			pre := ""
			for i := 0; i < depth; i++ {
				pre += fmt.Sprintf("func t%d() { defer h1(%d); %s; rd(\"never\", %d) }\n", i, i, body, i)
				body = fmt.Sprintf("t%d()", i)
			}
			src := pre + "for i = 0; i < 2; i++ {\n try { " + body + "; rd(\"never\", 9) } catch e { rd(\"caught\", toString(e)) } finally { rd(\"fin\", i) }\n rd(\"after\", i)\n}\nrd(\"end\", 1)"
			var want []string
			for i := 0; i < 2; i++ {
				for d := 0; d < depth; d++ {
					want = append(want, "h1 "+ank.Render(int64(d)))
				}
				want = append(want, "rd caught="+ank.Render(text), "rd fin="+ank.Render(int64(i)), "rd after="+ank.Render(int64(i)))
			}
			want = append(want, "rd end="+ank.Render(int64(1)))
			out = append(out, directProg{name: fmt.Sprintf("throw-%q-depth-%d", text, depth), src: src, want: want, ordered: true, sig: "sentinel-text-error"})
		}
	}
	return out
}

// c08SwitchVsEq: "switch runs exactly the first case equal to its subject": for subjects and case
// values of every kind (numbers, numerals as strings, nil, booleans, lists, maps, pointers, pointers to
// pointers, functions' results) the case that runs is the first one for which the script's own
// `subject == value` is true, else the default.
func c08SwitchVsEq(c *wk.Case, mp *modelProp, variant int) {
	vals := []string{"1", "1.0", "\"1\"", "2", "\"a\"", "nil", "true", "false", "0", "\"\"", "a", "p", "pp", "p2", "pp2", "q", "[1]", "l", "m", "1.5", "\"1.5\"", "ppp", "s"}
	setup := "a = 1\nb = 1\np = &a\np2 = &a\nq = &b\npp = &p\npp2 = &p\nppp = &pp\nl = [1]\nm = {\"k\": 1}\ns = \"a\"\n"
	rng := c.Rng
	n := 60
	if c.Tier == "thorough" {
		n = 600
	}
	var b strings.Builder
	b.WriteString(setup)
	type one struct {
		subj  string
		cases []string
	}
	var asks []one
	for i := 0; i < n; i++ {
		o := one{subj: vals[rng.Intn(len(vals))]}
		if i < len(vals) {
			o.subj = vals[i]
		}
		k := 2 + rng.Intn(4)
		for j := 0; j < k; j++ {
			o.cases = append(o.cases, vals[rng.Intn(len(vals))])
		}
		if rng.Intn(2) == 0 {
			o.cases[rng.Intn(k)] = o.subj
		}
		asks = append(asks, o)
		fmt.Fprintf(&b, "sj = %s\nrd(\"eq\", [", o.subj)
		for j, cv := range o.cases {
			if j > 0 {
				b.WriteString(", ")
			}
			fmt.Fprintf(&b, "sj == %s", cv)
		}
		b.WriteString("])\nswitch sj {\n")
		for j, cv := range o.cases {
			fmt.Fprintf(&b, "case %s:\n  rd(\"c\", %d)\n", cv, j)
		}
		b.WriteString("default:\n  rd(\"c\", -1)\n}\n")
	}
	src := b.String()
	input := map[string]interface{}{"scenario": "switch-vs-eq", "source": clipSrc(src)}
	c.Begin(input)
	r := realrunSession(src, 4*n+100)
	c.Eval("c08-switch-eq|"+src, true)
	if !r8Settle(c, mp, "switch-vs-eq", r, "", input) {
		return
	}
	c.Events(len(r.Trace))
	if len(r.Trace) != 2*n {
		c.Violation("C08:switch-vs-eq:events", fmt.Sprintf("expected %d events (one comparison list and one case per switch), observed %d", 2*n, len(r.Trace)), input)
		return
	}
	for i, o := range asks {
		eq, got := r.Trace[2*i], r.Trace[2*i+1]
		// eq is "rd eq=[]interface {}[bool(true) bool(false) ...]": find the first true
		body := eq[strings.Index(eq, "[]interface {}[")+len("[]interface {}["):]
		first := -1
		for j, f := range strings.Fields(strings.TrimSuffix(body, "]")) {
			if strings.Contains(f, "true") {
				first = j
				break
			}
		}
		want := evRd("c", int64(first))
		if got != want {
			input["subject"] = o.subj
			input["cases"] = o.cases
			input["comparisons"] = eq
			c.Violation("C08:switch-vs-eq", fmt.Sprintf("switch %s with cases %v ran %q; the script's own == over the cases says %s, so the first equal case is %d", o.subj, o.cases, got, eq, first), input)
			return
		}
	}
}
