package main

// C19, round-8 phases: VOLUME and HISTORY.
//
// The statement quantifies over "all argument tuples" and "all entries of all package tables".
// Nothing in it lets the answer of a builtin depend on how long a numeral string is, how many
// elements a progression / list / map has, how often the same call node was evaluated before and
// with which kinds of arguments, how many other conversions the process has carried out, how many
// environments have imported a package, or what earlier programs left behind. The older phases
// build every input small, evaluate every call node a few times, ask every question once and run
// in short-lived worker processes. The phases of this file keep the native references of c19.go
// (strconv / native conversions / fmt / reflect / math/big / the live tables) and move the
// workload:
//
//	longstrings  toInt/toFloat/toString/toRune/toByteSlice/toRuneSlice/len/typeOf/kindOf and the
//	             typed-slice forms on STRINGS of exactly 255..257, 799..801, 1023..1025,
//	             4095..4097, 65535..65537 (thorough ~200000, 2^20) characters: numerals with that
//	             many integer digits and a negative exponent, fractions placed exactly on and a
//	             hair beside the middle between two float64 (the middle is computed with
//	             math/big from PRNG-drawn float64s), leading zeros, signs and exponents of that
//	             length, non-numeric text, multi-byte characters at every alignment; handed in as
//	             a variable, as a named string type and as a literal of a source of that size.
//	bigsizes     range with 255 .. 2^20+1 (thorough 2^22+1) elements, EVERY element compared
//	             with start+k*step (math/big for the count), keys / len on maps and the
//	             typed-slice forms on lists of those sizes.
//	hotcall      ONE call node (every builtin, len, range, a package function through a member
//	             expression, the import expression itself) evaluated thousands of times by three
//	             vehicles (script loop, script function called from a loop, one parsed tree re-run
//	             with vm.RunContext) with the reference applied at EVERY evaluation; the kind of
//	             the argument stays the same for 1, 2, 255..257, 999..1001, 1023..1025,
//	             4095..4097 evaluations and then changes (misuse included).
//	stream       one case = one history in ONE process: thousands of pairwise distinct
//	             evaluations (numerals, numbers, strings, lists, maps, progressions, code points,
//	             reflect-built values; values congruent to the reference arguments modulo 256,
//	             1024, 4096, 65536, 2^32, strings sharing length / prefix / suffix with them,
//	             containers allocated where a dropped one lay) in long-lived, fresh, dropped and
//	             leaked environments, under live and cancelled contexts, with parked goroutines
//	             left behind and forced garbage collections, while a fixed reference set is asked
//	             again after exactly N-1, N, N+1 distinct other evaluations, N in 256, 1000,
//	             1024, 4096.
//	imports      thousands of imports of every package into thousands of environments (kept,
//	             dropped, nested; scripts that overwrite members of the module value they got):
//	             every module handed out holds exactly the table's Go functions and types, and
//	             the complete table invariant of phase "tables" is re-checked after 256, 1024,
//	             4096 imports and at the end against a snapshot taken before the first import.
//
// No phase knows a cache, counter or threshold of the code under test: the sizes are the generic
// list 255..257, 799..801 (strconv's documented digit buffer is a property of the REFERENCE, not of
// anko), 1023..1025, 4095..4097, 65535..65537, ~200000, ~10^6.

import (
	"context"
	"fmt"
	"math"
	"math/big"
	"math/rand"
	"reflect"
	"runtime"
	"sort"
	"strconv"
	"strings"
	"unicode/utf8"

	"github.com/mattn/anko/ast"
	"github.com/mattn/anko/env"

	"verifharness/internal/ank"
	"verifharness/internal/fw"
	"verifharness/internal/wk"
)

const c19R8Rule = " Round 8 (volume and history; the native references of the older phases, applied at every evaluation): " +
	"phase longstrings: one case per length L in 255..257, 799..801, 1023..1025, 4095..4097, 65535..65537 (thorough: 199999..200001, 2^20-1..2^20+1 and PRNG lengths): strings of exactly L characters - numerals with ~L integer digits scaled back by a negative exponent, numerals whose value is exactly the middle between two neighbouring float64 (PRNG-drawn floats over 2^-70..2^80 and the 2^53 neighbourhood, the middle written out exactly with math/big) padded with zeros, followed by a single 1 after the padding, and one unit below in the last place followed by nines, both signs, with leading zeros, in shifted exponent notation; integer numerals with leading zeros and signs, exponents with leading zeros, integers beyond int64, non-numeric and ambiguous text; ASCII, 2-, 3- and 4-byte characters starting at byte offsets 0..3 and invalid UTF-8 - under toInt, toFloat, toString, toRune, toByteSlice, toRuneSlice, len, typeOf, kindOf (keys: must be an error), as a variable, as a named string type, inside a script function, as a string literal of a source of that size, and as elements of lists under the four typed-slice forms. " +
	"phase bigsizes: one case per size n in 255..257, 1023..1025, 4095..4097, 65535..65537, 200000, 1000000, 2^20+1 (thorough also 2^20-1, 2^20, 2^22+1): range in 1-, 2- and 3-argument forms with n elements (steps 1, 3, -1, -7, 4096, stops on and off the step grid, starts at 0, negative, next to +-2^63) with every element compared with start+k*step and the count computed in math/big, len of the result; keys and len of host maps (string, int64, interface keys) and script-built maps of n entries (n <= 200000); toBoolSlice / toStringSlice / toIntSlice / toFloatSlice on lists of n mixed elements compared element by element. " +
	"phase hotcall: one case per call node (the 15 builtins of the values phase, range with 1, 2 and 3 arguments, strings.ToUpper and strconv.Itoa through a member expression on a kept module and on import(..) evaluated in place, the import expression with a changing package name): the node is evaluated in rounds of T+300 evaluations, T in {1, 2, 255..257, 999..1001, 1023..1025, 4095..4097}, the first T with arguments of ONE kind (identical or varying values, rotating over all kinds), the rest PRNG-drawn from all kinds including misuse, by three vehicles - a script loop over a host list, a script function called from that loop, one parsed tree re-run with vm.RunContext in one and in fresh environments; every evaluation is judged (value, or error for misuse) and every evaluation must have happened exactly once; between rounds everything is dropped and runtime.GC() runs. " +
	"phase stream: one case is one history in one process: pairwise distinct evaluations of all builtins (PRNG numerals / numbers / strings / lists / maps / small progressions / code points / reflect-built values; integers congruent to the reference arguments modulo 256, 1024, 4096, 65536 and 2^32, floats with the bit pattern or the value of a reference integer, numerals and strings that share length, first and last 8..64 bytes with a reference string, maps and lists built right after equally sized ones were dropped and collected - 160 rounds after the second distance, 400 at the end of the history) in a long-lived environment, fresh environments, leaked environments, child environments, under background, live and cancelled-after-use contexts, a parked script goroutine left behind every 500 evaluations and runtime.GC() every 1500, while ~270 reference evaluations (every builtin on numerals - short and of 801 / 4097 characters -, numbers, strings, lists, maps, progressions, misuse) are asked again - by source text and by a kept parsed tree - after exactly N-1, N, N+1 distinct other evaluations for N in 256, 1000, 1024, 4096 (thorough: 8192, 16384 too). " +
	"phase imports: one case is one history of 9000 (thorough 40000) imports, every second one of ONE package (rotating with case and seed), the others walking all packages of the live tables into fresh, nested, kept and dropped environments by five script forms (three of which then overwrite a function member of the module they got); after every import the module handed out must hold, for every function entry, the table's function (same code pointer and type) and, for every type entry, the table's type; the tables are compared with a snapshot taken before the first import and the complete invariant of phase tables (symbol names, member reads in six positions, type paths) is re-run after 256, 1024 and 4096 imports and at the end."

var c19R8Assumptions = []string{
	"round 8: the length of a string, the size of a container or progression, the number of times a call node was evaluated, the kinds of its earlier arguments and what the process evaluated or imported before are not inputs of a builtin: the reference of a long, large or late evaluation is the same native function as for a short first one (strconv.ParseFloat / ParseInt are exact for numerals of any length)",
	"round 8: progressions of up to 2^22+1 elements are run in-process (8 bytes per element); results whose rendering would be large are described by length, position and element instead of being printed; toInt of an integer numeral outside int64 and toFloat of a numeral outside float64 stay unjudged as in phase values",
	"round 8: import hands out a fresh module value per evaluation: a script that stores into a member of ITS module value changes neither the tables nor what a later import hands out (whether such a store is accepted is not judged)",
}

// ---------------------------------------------------------------------------------------------
// plan and dispatch
// ---------------------------------------------------------------------------------------------

var c19R8LensQuick = []int{255, 256, 257, 799, 800, 801, 1023, 1024, 1025, 4095, 4096, 4097, 65535, 65536, 65537}
var c19R8SizesQuick = []int{255, 256, 257, 1023, 1024, 1025, 4095, 4096, 4097, 65535, 65536, 65537, 200000, 1000000, 1<<20 + 1}

func c19R8Lens(tier string) []int {
	if tier != "thorough" {
		return c19R8LensQuick
	}
	ls := append([]int{}, c19R8LensQuick...)
	ls = append(ls, 199999, 200000, 200001, 1<<20-1, 1<<20, 1<<20+1)
	// PRNG-varied repeats of every length class (index decides; the case Rng draws the content)
	for i := 0; i < 3; i++ {
		ls = append(ls, c19R8LensQuick...)
	}
	return ls
}

func c19R8Sizes(tier string) []int {
	if tier != "thorough" {
		return c19R8SizesQuick
	}
	return append(append([]int{}, c19R8SizesQuick...), 1<<20-1, 1<<20, 1<<22+1)
}

func c19R8Phases(tier string) []fw.Phase {
	nStream, nImports, hotReps := 2, 1, 1
	if tier == "thorough" {
		nStream, nImports, hotReps = 16, 4, 8
	}
	return []fw.Phase{
		{Name: "longstrings", Cases: len(c19R8Lens(tier)), Chunk: 1, TimeoutS: 900, MemMB: 4096},
		{Name: "bigsizes", Cases: len(c19R8Sizes(tier)), Chunk: 1, TimeoutS: 900, MemMB: 4096},
		{Name: "hotcall", Cases: hotReps * len(c19R8HotNodes()), Chunk: 1, TimeoutS: 900, MemMB: 4096},
		{Name: "stream", Cases: nStream, Chunk: 1, TimeoutS: 1800, MemMB: 4096},
		{Name: "imports", Cases: nImports, Chunk: 1, TimeoutS: 1800, MemMB: 4096},
	}
}

// c19R8Run runs a case of one of the round-8 phases; false when the phase is not one of them.
func c19R8Run(c *wk.Case) bool {
	switch c.Phase {
	case "longstrings":
		if ls := c19R8Lens(c.Tier); c.Index < len(ls) {
			c19R8LongStrings(c, ls[c.Index])
		}
	case "bigsizes":
		if sz := c19R8Sizes(c.Tier); c.Index < len(sz) {
			c19R8BigSizes(c, sz[c.Index])
		}
	case "hotcall":
		c19R8Hot(c)
	case "stream":
		c19R8Stream(c)
	case "imports":
		c19R8Imports(c)
	default:
		return false
	}
	return true
}

// ---------------------------------------------------------------------------------------------
// judging
// ---------------------------------------------------------------------------------------------

// c19R8Rep reports violations, at most two per signature and case (one broken path gives
// thousands of wrong evaluations).
type c19R8Rep struct {
	c    *wk.Case
	seen map[string]int
}

func newC19R8Rep(c *wk.Case) *c19R8Rep { return &c19R8Rep{c: c, seen: map[string]int{}} }

func (r *c19R8Rep) viol(sig, detail string, input map[string]interface{}) {
	r.seen[sig]++
	if r.seen[sig] > 2 {
		r.c.Tag("r8:repeats-of-a-reported-signature")
		return
	}
	in := map[string]interface{}{"phase": r.c.Phase, "case": r.c.Index, "seed": r.c.W.Seed, "replay": "the case is rebuilt from (VERIF_SEED, phase, case index): ./vcheck replay re-runs it"}
	for k, v := range input {
		in[k] = v
	}
	r.c.Violation(sig, detail, in)
}

// c19R8Clip shortens a text for a detail or an input.
func c19R8Clip(s string, n int) string {
	if len(s) <= n {
		return s
	}
	return s[:n/2] + "...(" + strconv.Itoa(len(s)) + " bytes)..." + s[len(s)-n/2:]
}

// c19R8Show renders a value for a detail without printing a huge container.
func c19R8Show(v interface{}) string {
	rv := reflect.ValueOf(v)
	if rv.IsValid() {
		switch rv.Kind() {
		case reflect.Slice, reflect.Array, reflect.Map, reflect.String:
			if rv.Len() > 64 {
				if rv.Kind() == reflect.String {
					return fmt.Sprintf("%s(%s)", rv.Type(), strconv.Quote(c19R8Clip(rv.String(), 80)))
				}
				return fmt.Sprintf("%s of %d elements", rv.Type(), rv.Len())
			}
		}
	}
	return c19R8Clip(ank.Render(v), 300)
}

func c19R8ShowWant(w interface{}) string {
	switch x := w.(type) {
	case c19KeySet:
		if len(x) > 40 {
			return fmt.Sprintf("the %d keys of the map", len(x))
		}
		return c19RenderWant(w)
	}
	return c19R8Show(w)
}

// c19R8Diff says where a container result leaves the reference (c19Same only says that it does).
func c19R8Diff(got, want interface{}) string {
	gv := reflect.ValueOf(got)
	var n int
	var at func(i int) interface{}
	switch w := want.(type) {
	case []interface{}:
		n, at = len(w), func(i int) interface{} { return w[i] }
	case []byte:
		n, at = len(w), func(i int) interface{} { return w[i] }
	case []rune:
		n, at = len(w), func(i int) interface{} { return w[i] }
	default:
		return ""
	}
	if !gv.IsValid() || gv.Kind() != reflect.Slice {
		return ""
	}
	if gv.Len() != n {
		return fmt.Sprintf(" (%d elements, want %d)", gv.Len(), n)
	}
	for i := 0; i < n; i++ {
		g := gv.Index(i).Interface()
		ok := false
		switch w := at(i).(type) {
		case byte:
			b, is := g.(byte)
			ok = is && b == w
		case rune:
			b, is := g.(rune)
			ok = is && b == w
		default:
			ok, _ = c19Same(g, w)
		}
		if !ok {
			return fmt.Sprintf(" (element %d of %d is %s, want %s)", i, n, c19R8Show(g), c19R8Show(at(i)))
		}
	}
	return ""
}

// judge applies a reference of c19.go to what one evaluation produced; true when it held.
func (r *c19R8Rep) judge(o ank.Out, ref c19Ref, sig string, input func() map[string]interface{}) bool {
	switch {
	case o.Panicked:
		r.viol(sig+":panic", "panic out of vm.Execute: "+o.PanicVal+" ("+o.PanicSig+")", input())
		return false
	case !ref.judged:
		return true
	case ref.wantErr:
		if o.Err == nil {
			r.viol(sig+":noerror", "misuse not reported as an error; got "+c19R8Show(o.Val), input())
			return false
		}
	case o.Err != nil:
		if !ref.orErr {
			r.viol(sig+":error", fmt.Sprintf("unexpected error %q, want %s", c19R8Clip(o.Err.Error(), 300), c19R8ShowWant(ref.want)), input())
			return false
		}
	default:
		if ok, why := c19Same(o.Val, ref.want); !ok {
			r.viol(sig+":"+why, fmt.Sprintf("got %s, want %s%s", c19R8Show(o.Val), c19R8ShowWant(ref.want), c19R8Diff(o.Val, ref.want)), input())
			return false
		}
	}
	return true
}

// c19R8Max records the largest value of a counter and the generic marks it reached.
func c19R8Max(c *wk.Case, name string, v int, marks []int) {
	for _, m := range marks {
		if v >= m {
			c.Tag(fmt.Sprintf("reached:%s>=%d", name, m))
		}
	}
}

var c19R8Marks = []int{256, 1024, 4096, 65536, 200000, 1000000}

// ---------------------------------------------------------------------------------------------
// phase longstrings
// ---------------------------------------------------------------------------------------------

type c19R8Str struct {
	class string
	s     string
}

// c19R8Fit returns f(d) for the d closest below L that makes the text exactly L characters long
// (the text grows with d); the longest text not beyond L when no d fits exactly.
func c19R8Fit(L int, f func(d int) string) string {
	best := ""
	for d := L; d >= 1 && d >= L-40; d-- {
		s := f(d)
		if len(s) == L {
			return s
		}
		if len(s) < L && len(s) > len(best) {
			best = s
		}
	}
	if best == "" {
		best = f(1)
	}
	return best
}

// c19R8Middle: the exact decimal expansion of the middle between the float64 f > 0 and its upper
// neighbour ("123.4375"): a dyadic rational, so the expansion is finite.
func c19R8Middle(f float64) (string, bool) {
	g := math.Nextafter(f, math.Inf(1))
	if math.IsInf(g, 0) || f <= 0 {
		return "", false
	}
	a, b := new(big.Rat).SetFloat64(f), new(big.Rat).SetFloat64(g)
	if a == nil || b == nil {
		return "", false
	}
	m := new(big.Rat).Add(a, b)
	m.Quo(m, big.NewRat(2, 1))
	// denominator 2^k: exactly k decimals
	k := m.Denom().BitLen() - 1
	if k > 400 {
		return "", false
	}
	s := m.FloatString(k)
	if k == 0 {
		s += "."
	}
	return s, true
}

// c19R8Numerals builds the strings of (where possible exactly) L characters of one case.
func c19R8Numerals(L int, r *rand.Rand) []c19R8Str {
	var out []c19R8Str
	add := func(class, s string) { out = append(out, c19R8Str{class, s}) }
	rep := strings.Repeat
	// many integer digits, scaled back into range by a negative exponent
	add("intdigits-negexp", c19R8Fit(L, func(d int) string { return "1" + rep("0", d-1) + "e-" + strconv.Itoa(d-10) }))
	add("intdigits-negexp", c19R8Fit(L, func(d int) string { return "-7" + rep("3", d-1) + "e" + strconv.Itoa(1-d) }))
	add("intdigits-negexp", c19R8Fit(L, func(d int) string { return rep("9", d) + "." + rep("5", d%7) + "e-" + strconv.Itoa(d) }))
	add("intdigits-negexp", c19R8Fit(L, func(d int) string {
		return "+" + strconv.Itoa(1+r.Intn(9)) + c19R8Digits(r, d-1) + "E-" + strconv.Itoa(d-1-r.Intn(19))
	}))
	add("intdigits-fraction", c19R8Fit(L, func(d int) string {
		return c19R8Digits(r, d/2) + "." + c19R8Digits(r, d-d/2) + "e-" + strconv.Itoa(d/2)
	}))
	// fractions on and beside the middle between two float64
	floats := []float64{9007199254740992, 9007199254740994, 1, 0.5, 4503599627370497, 1e22, 0.1, 123456789.125}
	for i := 0; i < 5; i++ {
		floats = append(floats, math.Ldexp(0.5+r.Float64()/2, r.Intn(150)-70))
	}
	for i, f := range floats {
		mid, ok := c19R8Middle(f)
		if !ok || len(mid)+4 > L {
			continue
		}
		sign := []string{"", "-", "+"}[i%3]
		pad := L - len(mid) - len(sign)
		add("float-boundary-tie", sign+mid+rep("0", pad))
		add("float-boundary-above", sign+mid+rep("0", pad-1)+"1")
		// one unit below in the last place, followed by nines
		b := []byte(mid)
		if last := len(b) - 1; b[last] >= '1' && b[last] <= '9' {
			b[last]--
			add("float-boundary-below", sign+string(b)+rep("9", pad))
		}
		if pad > 8 {
			// leading zeros in front, and the same value in exponent notation
			add("float-boundary-leading-zeros", sign+rep("0", pad-1)+mid+"1")
			e := "e-" + strconv.Itoa(pad/2)
			dot := strings.IndexByte(mid, '.')
			shifted := mid[:dot] + mid[dot+1:] + rep("0", pad/2)
			// the point moves pad/2 places to the right, the exponent takes it back
			shifted = shifted[:dot+pad/2] + "." + shifted[dot+pad/2:]
			if rest := L - len(sign) - len(shifted) - len(e); rest >= 1 {
				add("float-boundary-exponent", sign+shifted+rep("0", rest-1)+"1"+e)
				add("float-boundary-exponent-tie", sign+shifted+rep("0", rest)+e)
			}
		}
	}
	// near-collisions: numerals of one length that agree in their first and last 8..64 characters and
	// differ in value (the significant digits and the point sit in the middle)
	for _, nc := range c19R8NearCollisions(L, r, "") {
		add("near-collision", nc)
	}
	// leading zeros, signs, long exponents
	add("leading-zeros-int", rep("0", L-3)+"123")
	add("leading-zeros-int", "-"+rep("0", L-20)+"9223372036854775808")
	add("leading-zeros-int", "+"+rep("0", L-2)+"7")
	add("leading-zeros-float", "-"+rep("0", L-6)+"1.5e3")
	add("leading-zeros-float", c19R8Fit(L, func(d int) string { return "0." + rep("0", d) + "15e" + strconv.Itoa(d+2) }))
	add("leading-zeros-float", c19R8Fit(L, func(d int) string { return "." + rep("0", d) + c19R8Digits(r, 17) + "E+" + strconv.Itoa(d+5) }))
	add("long-exponent", "1e"+rep("0", L-3)+"5")
	add("long-exponent", "25E-"+rep("0", L-5)+"2")
	add("long-exponent", "1.5e+"+rep("0", L-7)+"10")
	add("zeros", rep("0", L))
	add("zeros", "-0."+rep("0", L-3))
	add("int-beyond-int64", "1"+c19R8Digits(r, L-1))
	add("int-beyond-int64", "-"+rep("9", L-1))
	add("fraction-only", "0."+c19R8Digits(r, L-2))
	add("fraction-only", "3."+rep("9", L-2))
	// not numerals
	add("nonnumeric", rep("a", L))
	add("nonnumeric", rep("-", L))
	add("nonnumeric", rep("é", L/2)+rep("z", L%2))
	add("ambiguous", rep("1", L-1)+"x")
	add("ambiguous", "0x"+rep("f", L-2))
	add("ambiguous", rep("1", L-1)+"e")
	add("ambiguous", " "+rep("1", L-1))
	add("ambiguous", "1"+rep("_", L-2)+"0")
	// multi-byte characters at every alignment (byte length exactly L), and one character per rune
	for _, ch := range []string{"é", "日", "𝄞"} {
		for k := 0; k < 4; k++ {
			n := (L - k) / len(ch)
			s := rep("a", k) + rep(ch, n)
			add("multibyte", s+rep("z", L-len(s)))
		}
		add("multibyte-runes", rep(ch, L))
	}
	add("invalid-utf8", rep("a", L/2)+"\xff\xfe"+rep("日", (L-L/2-2)/3))
	add("invalid-utf8", rep("\xe6\x97", L/2))
	return out
}

// c19R8NearCollisions: four numerals of exactly L characters, all zeros in the first and last K
// characters (K = 64, less for short L), whose middle holds nine significant digits (PRNG, or the
// given ones), 0/2/4/6 zeros and the point: equal length, head and tail, four different values
// (all inside int64).
func c19R8NearCollisions(L int, r *rand.Rand, digits string) []string {
	K := 64
	if L < 2*K+24 {
		K = (L - 24) / 2
	}
	if K < 0 {
		return nil
	}
	var out []string
	for j := 0; j < 4; j++ {
		d := digits
		if d == "" {
			d = strconv.Itoa(1+r.Intn(9)) + c19R8Digits(r, 8)
		} else {
			d = d[j%len(d):] + d[:j%len(d)]
		}
		mid := d + strings.Repeat("0", 2*j) + "."
		mid += strings.Repeat("0", L-2*K-len(mid))
		out = append(out, strings.Repeat("0", K)+mid+strings.Repeat("0", K))
	}
	return out
}

func c19R8Digits(r *rand.Rand, n int) string {
	if n <= 0 {
		return ""
	}
	b := make([]byte, n)
	for i := range b {
		b[i] = byte('0' + r.Intn(10))
	}
	return string(b)
}

var c19R8StringBuiltins = []string{"toInt", "toFloat", "toString", "toRune", "toByteSlice", "toRuneSlice", "len", "typeOf", "kindOf", "keys"}

func c19R8LongStrings(c *wk.Case, L int) {
	rep := newC19R8Rep(c)
	strs := c19R8Numerals(L, c.Rng)
	e := ank.NewCoreEnv()
	exact := 0
	lens := map[int]bool{}
	var list []interface{}
	for si, st := range strs {
		if L > 300000 && si%2 != c.Index%2 && st.class != "intdigits-negexp" && st.class != "near-collision" {
			continue // strings of a million characters: every second one (rotating with the case)
		}
		if len(st.s) == L {
			exact++
		}
		lens[len(st.s)] = true
		list = append(list, st.s)
		for vi, xv := range []interface{}{st.s, c19Str(st.s)} {
			if vi == 1 && si%3 != c.Index%3 {
				continue // the named string type for a third of the strings (rotating with the case)
			}
			if err := e.Define("x", xv); err != nil {
				c.Inconclusive("r8-setup-failed", err.Error(), st.class)
				continue
			}
			for _, name := range c19R8StringBuiltins {
				b := c19BuiltinByName(name)
				ref := b.ref(xv)
				forms := []string{b.call}
				if name == "toInt" || name == "toFloat" {
					forms = append(forms, "func f(v) { return "+name+"(v) }\nf(x)")
					if _, plain := xv.(string); plain && L <= 300000 && !strings.ContainsAny(st.s, "\"\\\n\r\xff\xfe\xe6") {
						// the string as a literal of a source text of that size
						forms = append(forms, name+"(\""+st.s+"\")")
					}
				}
				for fi, src := range forms {
					in := func() map[string]interface{} {
						return map[string]interface{}{"src": c19R8Clip(src, 200), "x": c19R8Clip(st.s, 120), "x_len": len(st.s), "x_class": st.class,
							"x_type": fmt.Sprint(reflect.TypeOf(xv)), "string_index": si, "form": fi}
					}
					c.Begin(map[string]interface{}{"src": c19R8Clip(src, 200), "x_len": len(st.s), "x_class": st.class})
					o := ank.Exec(e, src)
					c.Events(1)
					c.Eval("r8ls|"+name+"|"+strconv.Itoa(fi)+"|"+strconv.Itoa(vi)+"|"+st.class+"|"+strconv.Itoa(len(st.s))+"|"+strconv.Itoa(si), ref.judged)
					c.Tag("r8:longstrings:" + name + ":" + st.class)
					rep.judge(o, ref, "r8:longstrings:"+name+":"+st.class, in)
				}
			}
		}
	}
	// the typed-slice forms over lists holding the long strings (and numbers between them)
	mixed := make([]interface{}, 0, 2*len(list))
	for i, s := range list {
		mixed = append(mixed, s, []interface{}{int64(i), float64(i) + 0.5, nil, true, "s", int32(i + 65)}[i%6])
	}
	for _, lv := range [][]interface{}{list, mixed} {
		e.Define("x", lv)
		for _, name := range []string{"toBoolSlice", "toStringSlice", "toIntSlice", "toFloatSlice", "len", "toString"} {
			if name == "toString" && L > 5000 {
				continue
			}
			b := c19BuiltinByName(name)
			ref := b.ref(lv)
			c.Begin(map[string]interface{}{"src": b.call, "x": "list of the strings of the case", "x_len": L})
			o := ank.Exec(e, b.call)
			c.Events(1)
			c.Eval("r8ls|list|"+name+"|"+strconv.Itoa(L)+"|"+strconv.Itoa(len(lv)), ref.judged)
			c.Tag("r8:longstrings:" + name + ":list-of-long-strings")
			rep.judge(o, ref, "r8:longstrings:"+name+":list-of-long-strings", func() map[string]interface{} {
				return map[string]interface{}{"src": b.call, "x": fmt.Sprintf("list of %d elements: the %d strings of the case (length class %d)", len(lv), len(list), L)}
			})
		}
	}
	c.Count("r8_longstrings_strings", len(strs))
	c.Count("r8_longstrings_strings_of_exact_length", exact)
	c.Tag(fmt.Sprintf("reached:string_length=%d", L))
	c.Count("r8_longstrings_distinct_lengths", len(lens))
}

// ---------------------------------------------------------------------------------------------
// phase bigsizes
// ---------------------------------------------------------------------------------------------

// c19R8RangeCount: the number of elements of the progression in math/big (no cap), and whether the
// element after the last one stays inside int64.
func c19R8RangeCount(start, stop, step int64) (n int64, inside bool) {
	bs, be, bst := big.NewInt(start), big.NewInt(stop), big.NewInt(step)
	diff := new(big.Int).Sub(be, bs)
	if diff.Sign() == 0 || diff.Sign() != bst.Sign() {
		return 0, true
	}
	q, rm := new(big.Int).QuoRem(diff, bst, new(big.Int))
	if rm.Sign() != 0 {
		q.Add(q, big.NewInt(1))
	}
	next := new(big.Int).Add(bs, new(big.Int).Mul(bst, q))
	return q.Int64(), next.Cmp(c19BigMax) <= 0 && next.Cmp(c19BigMin) >= 0
}

func c19R8BigSizes(c *wk.Case, n int) {
	rep := newC19R8Rep(c)
	N := int64(n)
	// --- range
	type tuple struct {
		args []int64
		name string
	}
	var ts []tuple
	ts = append(ts, tuple{[]int64{N}, "stop"}, tuple{[]int64{0, N}, "start-stop"}, tuple{[]int64{-N / 2, N - N/2}, "negative-start"})
	for _, step := range []int64{1, 3, -1, -7, 4096} {
		for _, start := range []int64{0, -5 * N, 1 << 40} {
			ts = append(ts, tuple{[]int64{start, start + N*step, step}, "on-grid"})
			if step > 1 || step < -1 {
				ts = append(ts, tuple{[]int64{start, start + N*step - step/2, step}, "off-grid"}) // still N elements
				ts = append(ts, tuple{[]int64{start, start + N*step + step/2, step}, "off-grid-one-more"})
			}
		}
	}
	// next to the ends of int64 (the element after the last one stays inside)
	ts = append(ts, tuple{[]int64{math.MaxInt64 - N - 1, math.MaxInt64 - 1}, "near-max"}, tuple{[]int64{math.MinInt64 + N + 1, math.MinInt64 + 1, -1}, "near-min"},
		tuple{[]int64{math.MaxInt64 - 3*N - 3, math.MaxInt64 - 3, 3}, "near-max"})
	if n > 100000 {
		// the large progressions: a third of the tuples, rotating with the case
		var keep []tuple
		for i, t := range ts {
			if i < 3 || i%3 == c.Index%3 {
				keep = append(keep, t)
			}
		}
		ts = keep
	}
	elems := 0
	for ti, t := range ts {
		var start, stop, step int64 = 0, 0, 1
		switch len(t.args) {
		case 1:
			stop = t.args[0]
		case 2:
			start, stop = t.args[0], t.args[1]
		case 3:
			start, stop, step = t.args[0], t.args[1], t.args[2]
		}
		want, inside := c19R8RangeCount(start, stop, step)
		if !inside || want > 5000000 {
			continue
		}
		e := ank.NewCoreEnv()
		var parts []string
		for i, a := range t.args {
			nm := string(rune('a' + i))
			e.Define(nm, a)
			parts = append(parts, nm)
		}
		call := "range(" + strings.Join(parts, ", ") + ")"
		forms := []string{call, "func f() { return " + call + " }\nf()", "len(" + call + ")", "r = " + call + "\n[r[0], r[len(r) - 1], len(r)]"}
		for fi, src := range forms {
			if n > 100000 && fi > 0 && (fi+ti)%3 != 0 {
				continue
			}
			in := func() map[string]interface{} {
				return map[string]interface{}{"src": src, "args": fmt.Sprint(t.args), "tuple": t.name, "elements_demanded": want}
			}
			c.Begin(map[string]interface{}{"src": src, "args": fmt.Sprint(t.args)})
			o := ank.Exec(e, src)
			c.Events(1)
			c.Eval("r8bs|range|"+fmt.Sprint(t.args)+"|"+strconv.Itoa(fi), true)
			c.Tag("r8:bigsizes:range:" + t.name)
			sig := "r8:bigsizes:range" + strconv.Itoa(len(t.args)) + ":" + t.name
			switch {
			case o.Panicked:
				rep.viol(sig+":panic", "panic out of vm.Execute: "+o.PanicVal+" ("+o.PanicSig+")", in())
			case o.Err != nil:
				rep.viol(sig+":error", "unexpected error "+c19R8Clip(o.Err.Error(), 300), in())
			case fi == 2:
				if ok, _ := c19Same(o.Val, want); !ok {
					rep.viol(sig+":len", fmt.Sprintf("len of the progression is %s, want %d", c19R8Show(o.Val), want), in())
				}
			case fi == 3:
				ref := []interface{}{start, start + (want-1)*step, want}
				if ok, _ := c19Same(o.Val, ref); !ok {
					rep.viol(sig+":ends", fmt.Sprintf("[first, last, len] is %s, want %s", c19R8Show(o.Val), c19R8Show(ref)), in())
				}
			default:
				got, ok := o.Val.([]int64)
				if !ok {
					rep.viol(sig+":type", "range returned "+c19R8Show(o.Val), in())
					break
				}
				if int64(len(got)) != want {
					rep.viol(sig+":count", fmt.Sprintf("%d elements, want %d (first %d, step %d)", len(got), want, start, step), in())
					break
				}
				for k, g := range got {
					if g != start+int64(k)*step {
						rep.viol(sig+":element", fmt.Sprintf("element %d of %d is %d, want %d", k, len(got), g, start+int64(k)*step), in())
						break
					}
				}
				elems += len(got)
			}
		}
	}
	c.Count("r8_bigsizes_progression_elements_compared", elems)
	c.Tag(fmt.Sprintf("reached:progression_length=%d", n))
	if n > 200000 {
		// containers of a million elements: len only
		e := ank.NewCoreEnv()
		for _, xv := range []interface{}{strings.Repeat("a", n), make([]interface{}, n), make([]int64, n), make([]byte, n)} {
			e.Define("x", xv)
			o := ank.Exec(e, "len(x)")
			c.Events(1)
			c.Eval("r8bs|len|"+fmt.Sprint(reflect.TypeOf(xv))+"|"+strconv.Itoa(n), true)
			rep.judge(o, c19RefLen(xv), "r8:bigsizes:len:"+reflect.ValueOf(xv).Kind().String(), func() map[string]interface{} {
				return map[string]interface{}{"src": "len(x)", "x": fmt.Sprintf("%T of length %d", xv, n)}
			})
		}
		return
	}
	// --- the typed-slice forms on lists of n mixed elements
	pool := []interface{}{int64(7), float64(2.5), "s", true, nil, int32(66), uint8(9), false, "12", float32(-1.25), int(-3), []byte("ab")}
	lists := map[string][]interface{}{}
	mixed, ints, strs := make([]interface{}, n), make([]interface{}, n), make([]interface{}, n)
	for i := 0; i < n; i++ {
		mixed[i] = pool[(i+i/7)%len(pool)]
		ints[i] = int64(i) - 3
		strs[i] = strconv.Itoa(i)
	}
	// position-dependent marks: the element at i differs from every neighbour pattern
	for i := 0; i < n; i += 97 {
		mixed[i] = int64(i)
	}
	lists["mixed"], lists["int64"], lists["numeral-strings"] = mixed, ints, strs
	e := ank.NewCoreEnv()
	for _, ln := range []string{"mixed", "int64", "numeral-strings"} {
		lv := lists[ln]
		e.Define("x", lv)
		for _, name := range []string{"toBoolSlice", "toStringSlice", "toIntSlice", "toFloatSlice", "len"} {
			b := c19BuiltinByName(name)
			ref := b.ref(lv)
			c.Begin(map[string]interface{}{"src": b.call, "x": ln + " list", "x_len": n})
			o := ank.Exec(e, b.call)
			c.Events(1)
			c.Eval("r8bs|"+name+"|"+ln+"|"+strconv.Itoa(n), ref.judged)
			c.Tag("r8:bigsizes:" + name + ":" + ln)
			rep.judge(o, ref, "r8:bigsizes:"+name+":list-"+ln, func() map[string]interface{} {
				return map[string]interface{}{"src": b.call, "x": fmt.Sprintf("list of %d elements (%s)", n, ln)}
			})
		}
	}
	// --- keys / len on maps of n entries
	msi, mib, mii := make(map[string]interface{}, n), map[int64]bool{}, map[interface{}]interface{}{}
	for i := 0; i < n; i++ {
		msi["k"+strconv.Itoa(i)] = int64(i)
		mib[int64(i)*7-3] = i%2 == 0
		if i%2 == 0 {
			mii[int64(i)] = i
		} else {
			mii[strconv.Itoa(i)] = i
		}
	}
	maps := []c19Val{{name: "map-string-iface", v: msi}, {name: "map-int64-bool", v: mib}, {name: "map-iface-iface", v: mii},
		{name: "script-filled-map", src: "func() { m = {}; for i = 0; i < " + strconv.Itoa(n) + "; i++ { m[i] = i }; return m }()"},
		{name: "script-typed-map", src: "func() { m = make(map[string]int64); for i = 0; i < " + strconv.Itoa(n) + "; i++ { m[toString(i)] = i }; return m }()"}}
	for _, mv := range maps {
		xv := mv.v
		if mv.src != "" {
			o := ank.Exec(e, "x = "+mv.src)
			var err error
			if xv, err = e.Get("x"); o.Err != nil || o.Panicked || err != nil {
				c.Inconclusive("r8-setup-failed", mv.src+": "+ank.ErrText(o.Err)+o.PanicVal, mv.src)
				continue
			}
			if l := reflect.ValueOf(xv); l.Kind() != reflect.Map || l.Len() != n {
				c.Inconclusive("r8-setup-failed", "the script did not build a map of the size asked for", mv.src)
				continue
			}
		} else {
			e.Define("x", xv)
		}
		for _, call := range []string{"keys(x)", "len(x)", "len(keys(x))", "func f(m) { return keys(m) }\nf(x)"} {
			ref := c19RefKeys(xv)
			if strings.HasPrefix(call, "len") {
				ref = c19Ref{judged: true, want: N}
			}
			c.Begin(map[string]interface{}{"src": call, "x": mv.name, "x_len": n})
			o := ank.Exec(e, call)
			c.Events(1)
			c.Eval("r8bs|"+call+"|"+mv.name+"|"+strconv.Itoa(n), true)
			c.Tag("r8:bigsizes:keys:" + mv.name)
			what := "keys"
			if strings.HasPrefix(call, "len") {
				what = "len"
			}
			rep.judge(o, ref, "r8:bigsizes:"+what+":map", func() map[string]interface{} {
				return map[string]interface{}{"src": call, "x": fmt.Sprintf("%s of %d entries", mv.name, n)}
			})
		}
	}
	c.Tag(fmt.Sprintf("reached:container_size=%d", n))
}

// ---------------------------------------------------------------------------------------------
// phase hotcall
// ---------------------------------------------------------------------------------------------

// c19R8Node is one call node: its text over the variable(s) of one evaluation, the pool of
// argument tuples by kind, and the reference.
type c19R8Node struct {
	name string
	expr string // over a (b, c): the node that is evaluated again and again
	kind string // "builtin" | "range" | "pkg" | "import"
}

func c19R8HotNodes() []c19R8Node {
	var ns []c19R8Node
	for _, b := range c19Builtins {
		ns = append(ns, c19R8Node{name: b.name, expr: strings.Replace(b.call, "(x)", "(a)", 1), kind: "builtin"})
	}
	ns = append(ns,
		c19R8Node{"range1", "range(a)", "range"}, c19R8Node{"range2", "range(a, b)", "range"}, c19R8Node{"range3", "range(a, b, c)", "range"},
		c19R8Node{"strings.ToUpper", "m.ToUpper(a)", "pkg"}, c19R8Node{"strings.ToUpper-import-in-place", "import(\"strings\").ToUpper(a)", "pkg"},
		c19R8Node{"strconv.Itoa", "import(\"strconv\").Itoa(a)", "pkg"},
		c19R8Node{"import", "import(a)", "import"})
	return ns
}

// one argument tuple of a node with its reference
type c19R8Arg struct {
	vals  []interface{}
	class string
	ref   c19Ref
	// import: the package whose module must come back
	pkg string
}

// c19R8ArgPool builds the argument tuples of a node, grouped by kind.
func c19R8ArgPool(n c19R8Node, r *rand.Rand) map[string][]c19R8Arg {
	pool := map[string][]c19R8Arg{}
	add := func(a c19R8Arg) { pool[a.class] = append(pool[a.class], a) }
	switch n.kind {
	case "builtin":
		b := c19BuiltinByName(n.name)
		var vals []interface{}
		for _, u := range c19Universe() {
			if u.src == "" {
				vals = append(vals, u.v)
			}
		}
		for i := 0; i < 160; i++ {
			vals = append(vals, c19RandNumeral(r), c19RandInt64(r), c19RandFloat(r), c19RandString(r), c19RandScalar(r), c19RandIfaceSlice(r, 1), c19RandMap(r))
		}
		for _, v := range vals {
			if ch := reflect.ValueOf(v); ch.IsValid() && (ch.Kind() == reflect.Func) {
				continue
			}
			add(c19R8Arg{vals: []interface{}{v}, class: c19Class(v), ref: b.ref(v)})
		}
	case "range":
		argc := int(n.name[len(n.name)-1] - '0')
		for i := 0; i < 400; i++ {
			a := make([]int64, argc)
			class := "small"
			switch i % 5 {
			case 0, 1:
				for j := range a {
					a[j] = int64(r.Intn(40)) - 10
				}
			case 2:
				class = "large"
				base := c19RandInt64(r) / 4
				for j := range a {
					a[j] = base + int64(r.Intn(200)) - 100
				}
				if argc == 3 {
					a[2] = int64(r.Intn(9)) - 4
				}
			case 3:
				class = "descending"
				for j := range a {
					a[j] = -int64(r.Intn(60))
				}
				if argc == 3 {
					a[2] = -1 - int64(r.Intn(5))
					a[0] = a[1] + int64(r.Intn(50))
				}
			case 4:
				class = "zero-or-empty"
				for j := range a {
					a[j] = int64(r.Intn(3))
				}
				if argc == 3 && i%2 == 0 {
					a[2] = 0
				}
			}
			ref, ok := c19RangeRefMax(a, c19HistMaxLen)
			if !ok {
				continue
			}
			if ref.wantErr {
				class = "zero-step"
			}
			vals := make([]interface{}, argc)
			for j := range a {
				vals[j] = a[j]
			}
			add(c19R8Arg{vals: vals, class: class, ref: ref})
		}
	case "pkg":
		for i := 0; i < 300; i++ {
			if strings.HasPrefix(n.name, "strings.ToUpper") {
				s := c19RandString(r)
				class := "ascii"
				if !utf8.ValidString(s) {
					class = "invalid-utf8"
				} else if len(s) != utf8.RuneCountInString(s) {
					class = "multibyte"
				}
				add(c19R8Arg{vals: []interface{}{s}, class: class, ref: c19Ref{judged: true, want: strings.ToUpper(s)}})
				continue
			}
			v := c19RandInt64(r) % (1 << 31)
			class := "small"
			if v < 0 {
				class = "negative"
			} else if v > 70000 {
				class = "large"
			}
			add(c19R8Arg{vals: []interface{}{v}, class: class, ref: c19Ref{judged: true, want: strconv.Itoa(int(v))}})
		}
		// misuse: a map is no string / int
		add(c19R8Arg{vals: []interface{}{map[string]interface{}{"a": int64(1)}}, class: "misuse", ref: c19Ref{judged: true, wantErr: true}})
	case "import":
		for _, p := range c19Pkgs() {
			if _, ok := env.Packages[p]; ok {
				add(c19R8Arg{vals: []interface{}{p}, class: p, pkg: p})
			}
		}
		add(c19R8Arg{vals: []interface{}{"no/such/package"}, class: "unknown-package", ref: c19Ref{judged: true, wantErr: true}})
		add(c19R8Arg{vals: []interface{}{map[string]interface{}{}}, class: "misuse", ref: c19Ref{judged: true, wantErr: true}})
	}
	return pool
}

// c19R8ModuleDiff compares a module value an import handed out with the live tables ("" = equal).
func c19R8ModuleDiff(v interface{}, pkg string) string {
	m, ok := v.(*env.Env)
	if !ok || m == nil {
		return "import returned " + c19R8Show(v)
	}
	for key, tv := range env.Packages[pkg] {
		iv, err := m.GetValue(key)
		if err != nil || !iv.IsValid() {
			return fmt.Sprintf("the module has no member %s (%v)", key, err)
		}
		if !tv.IsValid() || tv.Kind() != reflect.Func {
			continue
		}
		if iv.Kind() != reflect.Func || iv.Pointer() != tv.Pointer() || iv.Type() != tv.Type() {
			name := "?"
			if iv.Kind() == reflect.Func && !iv.IsNil() {
				if f := runtime.FuncForPC(iv.Pointer()); f != nil {
					name = f.Name()
				}
			}
			return fmt.Sprintf("member %s of the module is %v (%s), the table lists the Go function %s.%s of type %v", key, iv.Type(), name, pkg, key, tv.Type())
		}
	}
	for key, tt := range env.PackageTypes[pkg] {
		it, err := m.Type(key)
		if err != nil || it != tt {
			return fmt.Sprintf("type %s of the module is %v (%v), the table lists %v", key, it, err, tt)
		}
	}
	return ""
}

type c19R8HotRound struct {
	rep   *c19R8Rep
	node  c19R8Node
	args  []c19R8Arg
	seenI []int8 // per evaluation: 0 not seen, 1 value delivered, 2 failure delivered
	sig   string
	info  func(i int) map[string]interface{}
	bad   int
}

// value is called (by the host probe or by the tree vehicle) with what evaluation i produced.
func (h *c19R8HotRound) value(i int, o ank.Out) {
	if i < 0 || i >= len(h.args) {
		h.rep.viol(h.sig+":probe", fmt.Sprintf("evaluation index %d outside the round", i), h.info(0))
		return
	}
	if h.seenI[i] != 0 {
		h.rep.viol(h.sig+":evaluated-twice", fmt.Sprintf("evaluation %d delivered a second outcome", i), h.info(i))
		h.bad++
		return
	}
	h.seenI[i] = 1
	a := h.args[i]
	if a.pkg != "" && !o.Panicked && o.Err == nil {
		if d := c19R8ModuleDiff(o.Val, a.pkg); d != "" {
			h.rep.viol(h.sig+":"+a.class+":module", d, h.info(i))
			h.bad++
		}
		return
	}
	ref := a.ref
	if a.pkg != "" {
		ref = c19Ref{judged: true, want: "a module"} // an error or a panic is judged below
	}
	if !h.rep.judge(o, ref, h.sig+":"+a.class, func() map[string]interface{} { return h.info(i) }) {
		h.bad++
	}
}

func c19R8Hot(c *wk.Case) {
	nodes := c19R8HotNodes()
	node := nodes[c.Index%len(nodes)]
	rep := newC19R8Rep(c)
	r := c.Rng
	pool := c19R8ArgPool(node, r)
	var classes []string
	var all []c19R8Arg
	for cl, as := range pool {
		classes = append(classes, cl)
		all = append(all, as...)
	}
	sort.Strings(classes)
	sort.SliceStable(all, func(i, j int) bool { return all[i].class < all[j].class })
	if len(all) == 0 {
		return
	}
	// warm-up kinds: for misuse kinds the loop vehicles still work (every evaluation under try/catch)
	switchPoints := []int{1, 2, 256, 1000, 1024, 4096}
	rounds := len(switchPoints) * 3
	if node.kind == "import" || strings.Contains(node.expr, "import(") {
		rounds = len(switchPoints) // an import evaluation defines every member of the package: one vehicle per switch point
	}
	maxEvals := 0
	total := 0
	rot := c.Index / len(nodes)
	for round := 0; round < rounds; round++ {
		T := switchPoints[round%len(switchPoints)] + r.Intn(3) - 1
		if T < 1 {
			T = 1
		}
		vehicle := (round/len(switchPoints) + round + rot) % 3
		warm := classes[(round*7+rot*3+r.Intn(len(classes)))%len(classes)]
		identical := round%2 == 1
		n := T + 300
		args := make([]c19R8Arg, n)
		wp := pool[warm]
		first := wp[r.Intn(len(wp))]
		for i := 0; i < n; i++ {
			switch {
			case i < T && identical:
				args[i] = first
			case i < T:
				args[i] = wp[r.Intn(len(wp))]
			default:
				args[i] = all[r.Intn(len(all))]
			}
		}
		c19R8HotRound1(c, rep, node, args, T, vehicle, warm, round)
		total += n
		if n > maxEvals {
			maxEvals = n
		}
		runtime.GC()
	}
	c.Count("r8_hotcall_evaluations", total)
	c19R8Max(c, "evaluations_of_one_call_node", maxEvals, c19R8Marks)
	c.Tag("r8:hotcall:node:" + node.name)
}

var c19R8Vehicles = []string{"loop", "script-function", "tree-rerun"}

func c19R8HotRound1(c *wk.Case, rep *c19R8Rep, node c19R8Node, args []c19R8Arg, T, vehicle int, warm string, round int) {
	n := len(args)
	h := &c19R8HotRound{rep: rep, node: node, args: args, seenI: make([]int8, n), sig: "r8:hotcall:" + node.name}
	h.info = func(i int) map[string]interface{} {
		var av []string
		for _, v := range args[i].vals {
			av = append(av, c19R8Show(v))
		}
		return map[string]interface{}{"node": node.expr, "vehicle": c19R8Vehicles[vehicle], "evaluation": i, "evaluations_in_round": n, "kind_switch_after": T, "warm_kind": warm,
			"round": round, "args": av, "arg_kind": args[i].class}
	}
	argc := len(args[0].vals)
	e := ank.NewCoreEnv()
	if node.kind == "pkg" {
		if o := ank.Exec(e, "m = import(\"strings\")"); o.Err != nil || o.Panicked {
			c.Inconclusive("r8-setup-failed", "import(\"strings\"): "+ank.ErrText(o.Err)+o.PanicVal, node.name)
			return
		}
	}
	c.Begin(map[string]interface{}{"node": node.expr, "vehicle": c19R8Vehicles[vehicle], "round": round, "kind_switch_after": T, "warm_kind": warm})
	names := []string{"a", "b", "c"}[:argc]
	if vehicle == 2 {
		stmt, perr, po := ank.Parse(node.expr)
		if perr != nil || po.Panicked {
			c.Inconclusive("r8-setup-failed", "parse: "+ank.ErrText(perr)+po.PanicVal, node.expr)
			return
		}
		for i := 0; i < n; i++ {
			ei := e
			if round%2 == 0 && i%3 == 2 {
				ei = e.NewEnv() // a child environment for a third of the runs
			}
			for j, nm := range names {
				ei.Define(nm, args[i].vals[j])
			}
			h.value(i, ank.RunCtx(context.Background(), ei, stmt))
		}
	} else {
		lists := make([][]interface{}, argc)
		for j := range lists {
			lists[j] = make([]interface{}, n)
			for i := 0; i < n; i++ {
				lists[j][i] = args[i].vals[j]
			}
			e.Define("l"+names[j], lists[j])
		}
		e.Define("probe", func(i int64, v interface{}) { h.value(int(i), ank.Out{Val: v}) })
		e.Define("failed", func(i int64, err interface{}) {
			ev, _ := err.(error)
			if ev == nil {
				ev = fmt.Errorf("%v", err)
			}
			h.value(int(i), ank.Out{Err: ev})
		})
		var idx []string
		for _, nm := range names {
			idx = append(idx, "l"+nm+"[i]")
		}
		call := node.expr
		pre := ""
		if vehicle == 1 {
			pre = "func hot(" + strings.Join(names, ", ") + ") { return " + node.expr + " }\n"
			call = "hot(" + strings.Join(idx, ", ") + ")"
		} else {
			// the node reads its arguments from the lists in place
			for j, nm := range names {
				call = c19R8ReplaceArg(call, nm, idx[j])
			}
		}
		src := pre + "for i = 0; i < " + strconv.Itoa(n) + "; i++ {\n\ttry {\n\t\tprobe(i, " + call + ")\n\t} catch err {\n\t\tfailed(i, err)\n\t}\n}\n"
		o := ank.Exec(e, src)
		if o.Panicked {
			rep.viol(h.sig+":panic", "panic out of vm.Execute: "+o.PanicVal+" ("+o.PanicSig+")", h.info(0))
		} else if o.Err != nil {
			rep.viol(h.sig+":loop-error", "the loop around the node ended with "+c19R8Clip(o.Err.Error(), 300), h.info(0))
		}
	}
	missing := 0
	for i, s := range h.seenI {
		if s == 0 {
			missing++
			if missing == 1 {
				rep.viol(h.sig+":not-evaluated", fmt.Sprintf("evaluation %d of %d delivered no outcome", i, n), h.info(i))
			}
		}
	}
	c.Events(n)
	c.EvalN(n - 1)
	c.Eval(fmt.Sprintf("r8hot|%s|%d|%d|%s|%d|%d", node.name, vehicle, T, warm, round, c.Index), true)
	c.Tag("r8:hotcall:vehicle:" + c19R8Vehicles[vehicle])
	c.Tag(fmt.Sprintf("r8:hotcall:kind-switch-after~%d", []int{1, 2, 256, 1000, 1024, 4096}[round%6]))
}

// c19R8ReplaceArg replaces the argument name nm (a whole word inside the parentheses of the
// call) by text.
func c19R8ReplaceArg(call, nm, text string) string {
	open := strings.LastIndexByte(call, '(')
	head, tail := call[:open+1], call[open+1:]
	var out []string
	for _, part := range strings.Split(strings.TrimSuffix(tail, ")"), ", ") {
		if part == nm {
			part = text
		}
		out = append(out, part)
	}
	return head + strings.Join(out, ", ") + ")"
}

// ---------------------------------------------------------------------------------------------
// phase stream
// ---------------------------------------------------------------------------------------------

type c19R8Item struct {
	b     c19Builtin // name "range": args holds the triple
	x     interface{}
	args  []int64
	src   string
	ref   c19Ref
	class string
	stmt  ast.Stmt // reference items: a kept parsed tree
}

func c19R8MkItem(name string, x interface{}) c19R8Item {
	b := c19BuiltinByName(name)
	return c19R8Item{b: b, x: x, src: b.call, ref: b.ref(x), class: c19Class(x)}
}

func c19R8MkRange(args []int64) (c19R8Item, bool) {
	ref, ok := c19RangeRefMax(args, c19HistMaxLen)
	if !ok {
		return c19R8Item{}, false
	}
	names := []string{"x", "y", "z"}[:len(args)]
	return c19R8Item{b: c19Builtin{name: "range"}, args: args, src: "range(" + strings.Join(names, ", ") + ")", ref: ref, class: c19RangeWant(args).class}, true
}

func (it c19R8Item) key() string {
	if it.b.name == "range" {
		return "range|" + fmt.Sprint(it.args)
	}
	rv := reflect.ValueOf(it.x)
	if rv.IsValid() && rv.Kind() == reflect.String {
		return it.b.name + "|" + rv.Type().String() + "|" + rv.String()
	}
	return it.b.name + "|" + fmt.Sprint(reflect.TypeOf(it.x)) + "|" + c19R8Clip(ank.Render(it.x), 400)
}

// c19R8Refs: the reference set - every builtin on arguments with an absolute reference.
func c19R8Refs() []c19R8Item {
	var refs []c19R8Item
	long801 := "1" + strings.Repeat("0", 789) + "e-" + "780" + strings.Repeat("0", 0)
	for len(long801) < 801 {
		long801 = "0" + long801
	}
	mid, _ := c19R8Middle(9007199254740992)
	long4097 := mid + strings.Repeat("0", 4097-len(mid)-1) + "1"
	nums := []interface{}{"0", "1", "-1", "007", "12", "255", "256", "4096", "65536", "9223372036854775807", "-9223372036854775808", "1.5", "-2.75", ".5", "1e3", "1E-2",
		"9007199254740993", "123456789.987654321", "4.9e-324", long801, long4097, c19Str("42"),
		c19R8NearCollisions(193, nil, "123456789")[0], c19R8NearCollisions(801, nil, "123456789")[1], c19R8NearCollisions(4097, nil, "987654321")[2],
		int64(0), int64(1), int64(-1), int64(255), int64(256), int64(1000), int64(1024), int64(4096), int64(65536), int64(1) << 32, int64(math.MaxInt64),
		float64(0), math.Copysign(0, -1), 1.5, -2.75, float64(1 << 53), 1e18, 0.1, float32(2.5), int32(65), uint8(200), nil,
		"", "abc", "héllo", "日本語", "\xff\xfe", strings.Repeat("ab", 400)}
	for _, x := range nums {
		for _, name := range []string{"toInt", "toFloat", "toString"} {
			refs = append(refs, c19R8MkItem(name, x))
		}
	}
	for _, x := range []interface{}{"abc", "héllo", "日本語", "", "\xff\xfe", strings.Repeat("𝄞", 300)} {
		for _, name := range []string{"toRune", "toByteSlice", "toRuneSlice", "len", "typeOf", "kindOf"} {
			refs = append(refs, c19R8MkItem(name, x))
		}
	}
	for _, x := range []interface{}{int64(65), int64(0x65e5), int64(0x1d11e), int32(97), int64(0)} {
		refs = append(refs, c19R8MkItem("toChar", x))
	}
	lists := []interface{}{[]interface{}{int64(1), 2.5, "3", nil, true, int32(66)}, []interface{}{}, []interface{}{"a", "b"}, []interface{}{int64(256), int64(1024), int64(4096)}}
	for _, x := range lists {
		for _, name := range []string{"toBoolSlice", "toStringSlice", "toIntSlice", "toFloatSlice", "len", "typeOf", "kindOf", "toString"} {
			refs = append(refs, c19R8MkItem(name, x))
		}
	}
	maps := []interface{}{map[string]interface{}{"a": int64(1), "b": "x", "c": nil}, map[int64]bool{1: true, 256: false, 1024: true}, map[interface{}]interface{}{int64(1): 1, "1": 2, 1.0: 3}, map[string]interface{}{}}
	for _, x := range maps {
		for _, name := range []string{"keys", "len", "typeOf", "kindOf", "toInt", "toFloat"} {
			refs = append(refs, c19R8MkItem(name, x))
		}
	}
	// misuse
	for _, x := range []interface{}{int64(3), "abc", 1.5} {
		refs = append(refs, c19R8MkItem("keys", x))
	}
	refs = append(refs, c19R8MkItem("len", int64(3)), c19R8MkItem("len", nil), c19R8MkItem("toRune", map[string]interface{}{}), c19R8MkItem("toByteSlice", map[string]interface{}{}))
	for _, a := range [][]int64{{5}, {0}, {-3}, {2, 7}, {7, 2}, {0, 10, 3}, {10, 0, -3}, {0, 256}, {1, 2, 0}, {0, 5, -1}, {-2, 3, 1}} {
		if it, ok := c19R8MkRange(a); ok {
			refs = append(refs, it)
		}
	}
	return refs
}

type c19R8Str8 struct {
	c        *wk.Case
	rep      *c19R8Rep
	r        *rand.Rand
	e0       *env.Env
	base     *env.Env
	leaked   []*env.Env
	cancels  []context.CancelFunc
	seen     map[string]bool
	refs     []c19R8Item
	items    int
	reasks   int
	parked   int
	gcs      int
	garbage  []interface{}
	refStrs  []string
	refInts  []int64
	counter  int64
	perBuilt map[string]int
}

// next draws one item that has not been evaluated before in this history.
func (h *c19R8Str8) next() c19R8Item {
	r := h.r
	for {
		var it c19R8Item
		h.counter++
		switch r.Intn(16) {
		case 0, 1: // numerals
			it = c19R8MkItem([]string{"toInt", "toFloat", "toString"}[r.Intn(3)], c19RandNumeral(r))
		case 2: // numerals made distinct by a counter, long ones among them
			s := strconv.FormatInt(h.counter*7919, 10) + "." + c19R8Digits(r, 1+r.Intn(30))
			if r.Intn(6) == 0 {
				s += strings.Repeat("0", 700+r.Intn(300)) + "1"
			}
			it = c19R8MkItem([]string{"toInt", "toFloat"}[r.Intn(2)], s)
		case 3: // integers congruent to reference integers
			v := h.refInts[r.Intn(len(h.refInts))] + (int64(1+r.Intn(1<<20)))*[]int64{256, 1024, 4096, 65536, 1 << 32}[r.Intn(5)]
			var x interface{} = v
			switch r.Intn(6) {
			case 0:
				x = float64(v)
			case 1:
				x = math.Float64frombits(uint64(h.refInts[r.Intn(len(h.refInts))]) + uint64(h.counter)<<20)
			case 2:
				x = strconv.FormatInt(v, 10)
			}
			it = c19R8MkItem([]string{"toInt", "toFloat", "toString", "typeOf", "kindOf"}[r.Intn(5)], x)
		case 4: // strings sharing length, head and tail with a reference string
			s := []byte(h.refStrs[r.Intn(len(h.refStrs))])
			if r.Intn(2) == 0 {
				// numerals of the length of a reference numeral, equal to it in the first and last 64
				// characters, with other significant digits and another place of the point in the middle
				L := []int{193, 801, 4097}[r.Intn(3)]
				s = []byte(c19R8NearCollisions(L, r, "")[r.Intn(4)])
				it = c19R8MkItem([]string{"toInt", "toFloat", "toString", "len"}[r.Intn(4)], string(s))
				break
			}
			if len(s) > 2 {
				keep := []int{8, 16, 32, 64}[r.Intn(4)]
				lo, hi := keep, len(s)-keep
				if hi <= lo {
					lo, hi = len(s)/2, len(s)/2+1
				}
				for k := 0; k < 1+r.Intn(3); k++ {
					p := lo + r.Intn(hi-lo)
					if s[p] >= '0' && s[p] <= '9' {
						s[p] = byte('0' + (int(s[p]-'0')+1+r.Intn(9))%10)
					} else if s[p] < 0x80 {
						s[p] = byte('a' + r.Intn(26))
					}
				}
			}
			it = c19R8MkItem([]string{"toInt", "toFloat", "toString", "toRune", "toByteSlice", "toRuneSlice", "len"}[r.Intn(7)], string(s))
		case 5, 6:
			it = c19R8MkItem([]string{"toString", "toRune", "toByteSlice", "toRuneSlice", "len", "toInt", "toFloat", "typeOf"}[r.Intn(8)], c19RandString(r))
		case 7:
			it = c19R8MkItem([]string{"toInt", "toFloat", "toString", "toChar", "typeOf", "kindOf"}[r.Intn(6)], c19RandInt64(r))
		case 8:
			it = c19R8MkItem([]string{"toInt", "toFloat", "toString", "typeOf"}[r.Intn(4)], c19RandFloat(r))
		case 9:
			it = c19R8MkItem([]string{"toInt", "toFloat", "toString", "typeOf", "kindOf", "len", "keys", "toChar"}[r.Intn(8)], c19RandScalar(r))
		case 10, 11:
			it = c19R8MkItem([]string{"toBoolSlice", "toStringSlice", "toIntSlice", "toFloatSlice", "len", "toString", "typeOf"}[r.Intn(7)], c19RandIfaceSlice(r, 2))
		case 12:
			it = c19R8MkItem([]string{"keys", "len", "typeOf", "kindOf", "toInt"}[r.Intn(5)], c19RandMap(r))
		case 13:
			t := c19RandType(r, 2)
			it = c19R8MkItem([]string{"typeOf", "kindOf", "len", "toString"}[r.Intn(4)], c19RandValueOf(r, t, 2).Interface())
		case 14:
			it = c19R8MkItem("toChar", int64(r.Intn(0x110000)))
		default:
			a := make([]int64, 1+r.Intn(3))
			for j := range a {
				a[j] = int64(r.Intn(120)) - 40
			}
			if len(a) == 3 && r.Intn(3) > 0 {
				a[2] = int64(r.Intn(9)) - 4
			}
			var ok bool
			if it, ok = c19R8MkRange(a); !ok {
				continue
			}
		}
		k := it.key()
		if h.seen[k] {
			continue
		}
		h.seen[k] = true
		return it
	}
}

// run evaluates one item in environment mode m and judges it.
func (h *c19R8Str8) run(it c19R8Item, mode int, reask bool, dist int) {
	var e *env.Env
	switch mode {
	case 0:
		e = h.e0
	case 1:
		e = ank.NewCoreEnv() // dropped afterwards
	case 2:
		e = ank.NewCoreEnv()
		h.leaked = append(h.leaked, e)
	default:
		e = h.base.NewEnv()
	}
	if it.b.name == "range" {
		for j, a := range it.args {
			e.Define([]string{"x", "y", "z"}[j], a)
		}
	} else {
		e.Define("x", it.x)
	}
	in := func() map[string]interface{} {
		m := map[string]interface{}{"src": it.src, "environment": []string{"long-lived", "fresh", "leaked", "child"}[mode], "distinct_items_before": h.items, "reask": reask}
		if it.b.name == "range" {
			m["args"] = fmt.Sprint(it.args)
		} else {
			m["x"] = c19R8Show(it.x)
			m["x_type"] = fmt.Sprint(reflect.TypeOf(it.x))
		}
		if reask {
			m["distance"] = dist
		}
		return m
	}
	h.c.Begin(map[string]interface{}{"src": it.src, "items_before": h.items, "reask": reask})
	var o ank.Out
	switch {
	case reask && it.stmt != nil && h.reasks%2 == 1:
		o = ank.RunCtx(context.Background(), e, it.stmt)
	case h.items%5 == 3:
		ctx, cancel := context.WithCancel(context.Background())
		o = ank.ExecCtx(ctx, e, it.src)
		if h.items%10 == 3 {
			cancel() // cancelled after use
		} else {
			h.cancels = append(h.cancels, cancel) // left live until the end of the case
		}
	default:
		o = ank.Exec(e, it.src)
	}
	h.c.Events(1)
	sig := "r8:stream:" + it.b.name + ":" + it.class
	if reask {
		sig = "r8:stream:reask:" + it.b.name + ":" + it.class
		h.c.EvalN(1)
	} else {
		h.c.Eval("r8st|"+strconv.Itoa(h.c.Index)+"|"+it.key(), it.ref.judged)
		h.perBuilt[it.b.name]++
	}
	h.rep.judge(o, it.ref, sig, in)
}

func (h *c19R8Str8) housekeeping() {
	if h.items%500 == 250 {
		// a script goroutine of an earlier run stays parked in a leaked environment
		e := ank.NewCoreEnv()
		if o := ank.Exec(e, "ch = make(chan int64)\ngo func() { <-ch }()\n1"); o.Err == nil && !o.Panicked {
			h.leaked = append(h.leaked, e)
			h.parked++
		}
	}
	if h.items%1500 == 750 {
		h.garbage = nil
		if len(h.leaked) > 40 {
			h.leaked = h.leaked[len(h.leaked)-20:]
		}
		runtime.GC()
		h.gcs++
	}
}

// reuse: containers of one size class are built, asked and dropped again and again with
// collections in between, so that a new one lies where a dropped one lay.
func (h *c19R8Str8) reuse(rounds int) {
	r := h.r
	for j := 0; j < rounds; j++ {
		n := []int{1, 4, 8, 9}[j%4]
		m := make(map[string]interface{}, n)
		mi := map[int64]bool{}
		l := make([]interface{}, n)
		bs := make([]byte, 32)
		for k := 0; k < n; k++ {
			h.counter++
			m["k"+strconv.FormatInt(h.counter, 36)] = h.counter
			mi[h.counter*int64(1+r.Intn(5))] = k%2 == 0
			l[k] = []interface{}{h.counter, float64(h.counter) / 4, strconv.FormatInt(h.counter, 10), nil}[r.Intn(4)]
		}
		for k := range bs {
			bs[k] = byte('a' + r.Intn(26))
		}
		for _, it := range []c19R8Item{c19R8MkItem("keys", m), c19R8MkItem("keys", mi), c19R8MkItem("len", m), c19R8MkItem("toIntSlice", l), c19R8MkItem("toFloatSlice", l),
			c19R8MkItem("toStringSlice", l), c19R8MkItem("toString", l), c19R8MkItem("toString", bs), c19R8MkItem("len", l), c19R8MkItem("typeOf", m)} {
			it.class = "reused-memory-" + it.class
			h.run(it, j%2, false, 0)
			h.items++
		}
		if j%16 == 15 {
			runtime.GC()
			h.gcs++
		}
	}
}

func c19R8Distances(tier string) []int {
	ds := []int{256, 1000, 1024, 4096}
	if tier == "thorough" {
		ds = append(ds, 8192, 16384)
	}
	return ds
}

func c19R8Stream(c *wk.Case) {
	h := &c19R8Str8{c: c, rep: newC19R8Rep(c), r: c.Rng, e0: ank.NewCoreEnv(), base: ank.NewCoreEnv(), seen: map[string]bool{}, perBuilt: map[string]int{}}
	h.refs = c19R8Refs()
	for i := range h.refs {
		it := &h.refs[i]
		h.seen[it.key()] = true
		if i%2 == 0 {
			if stmt, err, po := ank.Parse(it.src); err == nil && !po.Panicked {
				it.stmt = stmt
			}
		}
		if s, ok := it.x.(string); ok && len(s) > 0 {
			h.refStrs = append(h.refStrs, s)
		}
		if v, ok := it.x.(int64); ok {
			h.refInts = append(h.refInts, v)
		}
	}
	askRefs := func(dist int) {
		for _, it := range h.refs {
			h.run(it, h.reasks%4, true, dist)
		}
		h.reasks++
	}
	askRefs(0)
	dists := c19R8Distances(c.Tier)
	// the order of the distances rotates with the case
	for k := range dists {
		N := dists[(k+c.Index)%len(dists)]
		for _, d := range []int{N - 1, N, N + 1} {
			for i := 0; i < d; i++ {
				it := h.next()
				mode := 0
				switch {
				case h.items%7 == 6:
					mode = 1
				case h.items%50 == 49:
					mode = 2
				case h.items%11 == 10:
					mode = 3
				}
				h.run(it, mode, false, 0)
				h.items++
				h.housekeeping()
			}
			askRefs(d)
			c.Tag(fmt.Sprintf("r8:stream:reask-distance=%d", d))
		}
		if k == 1 {
			h.reuse(160)
			askRefs(-1)
		}
	}
	// once more after the whole history (whatever switches on late is on now)
	h.reuse(400)
	askRefs(-2)
	for _, cancel := range h.cancels {
		cancel()
	}
	// release the parked goroutines
	for _, e := range h.leaked {
		if ch, err := e.Get("ch"); err == nil {
			if cc, ok := ch.(chan int64); ok {
				close(cc)
			}
		}
	}
	c.Count("r8_stream_distinct_items_in_one_process", h.items)
	c.Count("r8_stream_reference_reasks", h.reasks*len(h.refs))
	c.Count("r8_stream_parked_goroutines_left_behind", h.parked)
	c.Count("r8_stream_forced_gcs", h.gcs)
	for b, n := range h.perBuilt {
		c.Count("r8_stream_items_"+b, n)
	}
	c19R8Max(c, "distinct_items_in_one_process", h.items, c19R8Marks)
}

// ---------------------------------------------------------------------------------------------
// phase imports
// ---------------------------------------------------------------------------------------------

type c19R8Entry struct {
	ptr uintptr
	typ reflect.Type
	fn  bool
}

// c19R8Snapshot records, for every entry of both tables, what it is bound to.
func c19R8Snapshot() (map[string]map[string]c19R8Entry, map[string]map[string]reflect.Type) {
	fs := map[string]map[string]c19R8Entry{}
	for p, tab := range env.Packages {
		fs[p] = map[string]c19R8Entry{}
		for k, v := range tab {
			en := c19R8Entry{}
			if v.IsValid() {
				en.typ = v.Type()
				if v.Kind() == reflect.Func && !v.IsNil() {
					en.fn, en.ptr = true, v.Pointer()
				}
			}
			fs[p][k] = en
		}
	}
	ts := map[string]map[string]reflect.Type{}
	for p, tab := range env.PackageTypes {
		ts[p] = map[string]reflect.Type{}
		for k, t := range tab {
			ts[p][k] = t
		}
	}
	return fs, ts
}

// c19R8SnapshotDiff compares the live tables with the snapshot ("" = unchanged).
func c19R8SnapshotDiff(fs map[string]map[string]c19R8Entry, ts map[string]map[string]reflect.Type) string {
	nf, nt := c19R8Snapshot()
	if len(nf) != len(fs) || len(nt) != len(ts) {
		return fmt.Sprintf("the tables list %d / %d packages, before the first import %d / %d", len(nf), len(nt), len(fs), len(ts))
	}
	for p, tab := range fs {
		if len(nf[p]) != len(tab) {
			return fmt.Sprintf("package %s lists %d values, before the first import %d", p, len(nf[p]), len(tab))
		}
		for k, en := range tab {
			if nf[p][k] != en {
				return fmt.Sprintf("entry %s.%s changed (type %v -> %v, function %v -> %v)", p, k, en.typ, nf[p][k].typ, en.fn, nf[p][k].fn)
			}
		}
	}
	for p, tab := range ts {
		if len(nt[p]) != len(tab) {
			return fmt.Sprintf("package %s lists %d types, before the first import %d", p, len(nt[p]), len(tab))
		}
		for k, t := range tab {
			if nt[p][k] != t {
				return fmt.Sprintf("type entry %s.%s changed (%v -> %v)", p, k, t, nt[p][k])
			}
		}
	}
	return ""
}

func c19R8Imports(c *wk.Case) {
	rep := newC19R8Rep(c)
	r := c.Rng
	total := 9000
	if c.Tier == "thorough" {
		total = 40000
	}
	var pkgs []string
	for _, p := range c19Pkgs() {
		if _, ok := env.Packages[p]; ok {
			pkgs = append(pkgs, p)
		}
	}
	fs, ts := c19R8Snapshot()
	funcKeys := map[string][]string{}
	for _, p := range pkgs {
		for _, k := range c19SortedKeysV(env.Packages[p]) {
			if v := env.Packages[p][k]; v.IsValid() && v.Kind() == reflect.Func {
				funcKeys[p] = append(funcKeys[p], k)
			}
		}
	}
	base := ank.NewCoreEnv()
	hot := pkgs[(c.Index+int(c.W.Seed))%len(pkgs)]
	if len(funcKeys[hot]) == 0 {
		hot = "strings"
	}
	c.Tag("r8:imports:hot-package:" + hot)
	var kept []*env.Env
	full := func(after int) {
		if d := c19R8SnapshotDiff(fs, ts); d != "" {
			rep.viol("r8:imports:tables-changed", fmt.Sprintf("after %d imports: %s", after, d), map[string]interface{}{"imports_before": after})
		}
		for _, p := range c19Pkgs() {
			c19TablesCase(c, p) // the complete invariant of phase tables, under its own signatures
		}
		c.Tag(fmt.Sprintf("r8:imports:full-table-check-after~%d", after))
	}
	checkpoints := map[int]bool{256: true, 1024: true, 4096: true}
	envs := 0
	for i := 0; i < total; i++ {
		// every second import asks for ONE package (rotating with case and seed: a package imported
		// thousands of times), the others walk over all packages in runs and at random
		p := hot
		if i%2 == 1 {
			p = pkgs[(i/97)%len(pkgs)]
			if i%3 == 2 {
				p = pkgs[r.Intn(len(pkgs))]
			}
		}
		q := strconv.Quote(p)
		var e *env.Env
		switch i % 5 {
		case 0, 1:
			e = env.NewEnv() // no core: import is syntax
			envs++
		case 2:
			e = base.NewEnv()
			envs++
		case 3:
			e = base // the long-lived environment itself
		default:
			e = ank.NewCoreEnv()
			kept = append(kept, e)
			envs++
			if len(kept) > 600 {
				kept = kept[300:]
			}
		}
		key := ""
		if ks := funcKeys[p]; len(ks) > 0 {
			key = ks[r.Intn(len(ks))]
		}
		form := (i + i/5) % 5 // every form meets every kind of environment
		if key == "" && form >= 2 {
			form = 0
		}
		var src string
		switch form {
		case 0:
			src = "import(" + q + ")"
		case 1:
			src = "m = import(" + q + ")\nm"
		case 2:
			src = "m = import(" + q + ")\nm." + key + " = 0\nimport(" + q + ")"
		case 3:
			src = "func(p) { p." + key + " = nil }(import(" + q + "))\nimport(" + q + ")"
		default:
			src = "a = import(" + q + ")\nb = import(" + q + ")\na." + key + " = \"rebound\"\nb"
		}
		in := func() map[string]interface{} {
			return map[string]interface{}{"src": src, "package": p, "imports_before": i, "environment": []string{"fresh", "fresh", "child", "long-lived", "kept-core"}[i%5]}
		}
		c.Begin(map[string]interface{}{"src": src, "imports_before": i})
		o := ank.Exec(e, src)
		c.Events(1)
		c.Eval("r8imp|"+strconv.Itoa(i)+"|"+src, true)
		switch {
		case o.Panicked:
			rep.viol("r8:imports:panic", "panic out of vm.Execute: "+o.PanicVal+" ("+o.PanicSig+")", in())
		case o.Err != nil && form < 2:
			rep.viol("r8:imports:error", "import of a listed package failed: "+c19R8Clip(o.Err.Error(), 300), in())
		case o.Err != nil:
			c.Tag("r8:imports:rebind-refused") // whether a member may be assigned is not judged
		default:
			if d := c19R8ModuleDiff(o.Val, p); d != "" {
				rep.viol("r8:imports:module:"+[]string{"plain", "plain", "after-rebind", "after-rebind", "after-rebind"}[form], fmt.Sprintf("import number %d: %s", i+1, d), in())
			}
		}
		if checkpoints[i+1] {
			runtime.GC()
			full(i + 1)
		}
	}
	full(total)
	c.Count("r8_imports_in_one_process", total)
	c.Count("r8_imports_environments", envs)
	c19R8Max(c, "imports_in_one_process", total, c19R8Marks)
}
