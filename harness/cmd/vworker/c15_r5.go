package main

// C15, round 5: tokens the scanner joins across white space.
//
// The receive assignment is one token ('=' ... '<-') although white space may stand between its two
// halves; whatever the scanner steps over there (blanks, tabs, line breaks, CR LF, several of them) has
// to go through the same line bookkeeping as everywhere else. The property statement does not say
// which kinds of white space are allowed in that gap, so nothing here demands that a spelling parses
// or fails: every text is judged by the oracles of c15.go only —
//   - whatever the outcome, an error lies inside the text (line within the lines, column <= len+1),
//   - two parses agree,
//   - IF a spelling parses alone, it composes: A+"\n"+B = stmts(A)++stmts(B), B shifted by A's line count.
//
// Generators: c15RecvGap (PRNG, used by the program generator of c15.go), c15BlankVariants (mutation
// "blank-variation") and the deterministic phase "recvassign" below.

import (
	"reflect"
	"strings"

	"verifharness/internal/astx"
	"verifharness/internal/wk"
)

// white space (and things a reader may take for white space) between '=' and '<-'
var c15RecvGaps = []string{
	"", " ", "\t", "  ", " \t ", // blanks: the documented spellings
	"\n", "\r\n", "\r", "\n\n", " \n", "\n ", " \n\t", "\n    ", "\t\n\n  ", "\r\n\r\n", "\n\r\n\t", "\n\n\n\n\n", // line breaks
	"\f", "\v", "\u00a0", "\u0085", "\u2028", "\u3000", // other characters of Unicode's White_Space
	" /* c */ ", "/*\n*/", " /* c\n\n d */\n", " # c\n", " // c\n\t", // comments, with and without line breaks
}

var c15RecvLHS = []string{"v", "v, ok", "a.b", "a[0]", "a, b.c", "é"}

var c15RecvRHS = []string{"c", "ch", "(c)", "f()", "<- c"}

func c15RecvCases() int { return len(c15RecvLHS) * len(c15RecvGaps) }

// white space a run of blanks is replaced with by the mutation "blank-variation"
var c15BlankVariants = []string{"", " ", "\t", "  ", "\n", "\r\n", "\n\n", " \n\t", "\n  ", "\r", "\t\n"}

// recvGap draws the gap of a generated receive assignment: mostly blanks, one time in three something
// with a line break.
func (g *c15Gen) recvGap() string {
	if g.n(3) > 0 {
		return []string{" ", " ", " ", "", "\t", "  "}[g.n(6)]
	}
	return []string{"\n", "\n", "\r\n", "\n\n", " \n", "\n\t", " \n    ", "\r\n\t", "\n\n\n"}[g.n(9)]
}

// contexts that put an error behind (or before) the receive assignment %s: on the same line, on the next
// line, after an empty line, after a longer / a shorter line, inside blocks, and twice in a row
var c15RecvErrCtx = []string{
	"%s",
	"%s )",
	"%s; w = = 1",
	"%s\n$",
	"%s\n\n          $",
	"%s\nlonger_line_than_all_the_lines_before_it = )",
	"a = 1\n%s\nlonger_line_than_all_the_lines_before_it = )",
	"a = 1\n%s\n\tb = [1,\n2]\n\n\n\t\t\t\t\t\t\t\t$",
	"%s\n%s )",
	"%s\n%s\n%s\n                                        \"open",
	"if x {\n\t%s\n}\n                 )",
	"f = func() {\n%s\n}\n\n                    `open",
	"for {\n\tif y {\n\t\t%s\n\t}\n}\n                               /* open",
	"%s\n\n\n\n                    1e",
	"%s \"open",
	"%s /* open",
	"%s #c\n\n                   ]",
	") %s",
	"x = [1,\n2]; %s; )",
	"%s\r\n\r\n                  }",
}

// contexts a spelling is put into for the compositional check (each result must parse alone to be used)
var c15RecvComposeCtx = []string{
	"%s",
	"%s\n",
	"%s\nw = 1",
	"a = 1; %s",
	"%s; %s",
	"%s\n%s",
	"if x {\n\t%s\n}",
	"f = func() {\n\t%s\n\treturn v\n}",
	"for {\n\tif y {\n\t\t%s\n\t} else {\n\t\t%s\n\t}\n}\n",
	"switch x {\ncase 1:\n\t%s\ndefault:\n\t%s\n}",
}

var c15RecvPartners = []string{"", "\n", "# c", "b = 1", "if b { d }", "f(1,\n2)", "x = `r\nw`", "a\n\nb", "a;b", "switch a {\ncase 1:\n b\n}", "v = <- c", "v, ok = <-c", "a <- 1",
	"func f() {\n return 1\n}", "é = \"é\"", "x = [\n]", "module m {\n a = 1\n}", "if a {\n} else if b {\n} else {\n}", "try {\n a\n} catch e {\n b\n} finally {\n c\n}", "a.b[0](1).c",
	"/* c\n d */ e", "return 1, 2", "for i = 0; i < 3; i++ {\n\tx += i\n}\n", "a = {\n\"k\": 1,\n}\r\n"}

func c15GapClass(gap string) string {
	switch {
	case gap == "":
		return "none"
	case strings.Contains(gap, "/") || strings.Contains(gap, "#"):
		if strings.Contains(gap, "\n") {
			return "comment-with-line-break"
		}
		return "comment"
	case strings.Trim(gap, " \t") == "":
		return "blanks"
	case strings.Trim(gap, " \t\r\n") == "":
		switch {
		case strings.Contains(gap, "\r\n"):
			return "crlf"
		case strings.Contains(gap, "\n"):
			return "line-break"
		}
		return "cr"
	}
	return "other-white-space"
}

// c15RunRecvAssign: case = (target form, gap).
func c15RunRecvAssign(c *wk.Case) {
	nG := len(c15RecvGaps)
	if c.Index >= c15RecvCases() {
		return
	}
	lhs, gap := c15RecvLHS[c.Index/nG], c15RecvGaps[c.Index%nG]
	cls := c15GapClass(gap)
	c.Tag("recv-gap:" + cls)
	var spell []string
	for k, rhs := range c15RecvRHS {
		sp1 := []string{" ", "", "\t"}[(c.Index+k)%3]
		sp2 := []string{" ", "", "  "}[(c.Index/3+k)%3]
		spell = append(spell, lhs+sp1+"="+gap+"<-"+sp2+rhs)
	}

	// (a) error positions: every spelling in every context, and every truncation of one text
	var keep []c15Kept
	for i, s := range spell {
		for j, cx := range c15RecvErrCtx {
			src := strings.ReplaceAll(cx, "%s", s)
			r := c15Check(c, "recv-ctx", src)
			if (i+j)%8 == 0 {
				keep = append(keep, c15Kept{"recv-ctx", src, r})
			}
		}
	}
	for _, src := range c15Prefixes("x = 1\n" + spell[0] + " )\n" + spell[1] + "\n\n                      w = = 1") {
		c15Check(c, "recv-truncated", src)
	}

	// (b) composition, for the texts that parse alone
	type alone struct {
		src string
		r   *c15Res
	}
	var partners []alone
	for _, p := range c15RecvPartners {
		c.Begin(c15BeginInput("recv-partner", p))
		if r := c15Parse(p, c15CPUBudget, true); r.ok {
			partners = append(partners, alone{p, r})
		}
		c.Events(1)
	}
	used := 0
	for i, s := range spell[:3] {
		for j, cx := range c15RecvComposeCtx {
			if i > 0 && j%3 != i {
				continue // the first spelling in every context, the others in a third of them each
			}
			a := strings.ReplaceAll(cx, "%s", s)
			ra := c15Check(c, "recv", a)
			if !ra.ok {
				continue
			}
			used++
			if i == 0 && j == 0 {
				c.Tag("recv-alone-parses:" + cls)
				for _, st := range astx.StmtList(ra.tree) {
					c.Tag("recv-stmt:" + strings.TrimPrefix(strings.TrimPrefix(c15TypeName(st), "*"), "ast."))
				}
			}
			for _, p := range partners {
				c15Compose(c, "pair:recv+partner", a, p.src, ra, p.r)
				c15Compose(c, "pair:partner+recv", p.src, a, p.r, ra)
			}
			c15Compose(c, "pair:recv+recv", a, a, ra, ra)
		}
	}
	if used == 0 {
		// the statement speaks about texts that parse on their own
		c.Excluded("recv-spelling-does-not-parse-alone")
		c.Tag("recv-alone-fails:" + cls)
	}
	for _, k := range keep {
		c15Recheck(c, k.gen, k.src, k.r)
	}
}

func c15TypeName(v interface{}) string {
	if v == nil {
		return "nil"
	}
	return reflect.TypeOf(v).String()
}
