package main

// C12, round 5: path lookup resolves the FIRST element of a path the same way
// whatever the number of elements that follow.
//
// What the statement says about path lookup: it is one of the operations that
// "behaves as a parent-linked chain of dictionaries: a lookup returns the
// nearest enclosing binding (a scope's external lookup is consulted after its
// own table, built-in type names last)". It does NOT say what a path lookup
// does when the nearest enclosing binding of the first element is not a
// module (fail there, or go on to an outer scope), nor whether a module
// answered by an external lookup is a namespace. Those cases stay accepted
// both ways (UNSPECIFIED, as since round 1), under these readings:
//
//	A "nearest binding": the first element is looked up like every other name
//	  (own table, then the scope's external lookup, then the parent); the path
//	  fails unless that nearest binding is a module.
//	B "nearest table module": the nearest enclosing scope whose own table
//	  binds the name to a module; other bindings are passed over and external
//	  lookups are not consulted.
//	C "nearest module": as A, but bindings to non-modules are passed over.
//
// But a path lookup is ONE operation of the chain of dictionaries: it resolves
// the first element from the addressed scope and then descends. Which scope
// the first element denotes is a function of (addressed scope, name, state);
// it cannot depend on how many elements follow, or "m" and the "m" of "m.n"
// would be two different namespaces in one state. So whenever the readings
// differ, the monitor observes the one-element prefix of the path and some
// two-element extensions in the same state and demands that all of them are
// explained by ONE reading.

import (
	"fmt"
	"sort"
	"strconv"
	"strings"

	"github.com/mattn/anko/env"
)

type c12PathReading struct {
	name  string
	start *c12Scope // nil: the path fails at its first element
}

// moduleOf returns the model scope of a value that is a live module.
func (w *c12World) moduleOf(v interface{}) *c12Scope {
	if e, isEnv := v.(*env.Env); isEnv && e != nil {
		return w.byReal[e]
	}
	return nil
}

// pathReadings returns the start of a path whose first element is n under the
// readings A, B, C (see above), without duplicates: one entry = the statement
// fixes the start.
func (w *c12World) pathReadings(s *c12Scope, n string) []c12PathReading {
	var a, b, c *c12Scope
	if v, ok := s.lookupVal(n); ok {
		a = w.moduleOf(v)
	}
	for t := s; t != nil && b == nil; t = t.parent {
		if v, ok := t.vals[n]; ok {
			b = w.moduleOf(v)
		}
	}
	for t := s; t != nil && c == nil; t = t.parent {
		if v, ok := t.vals[n]; ok {
			c = w.moduleOf(v)
		}
		if c == nil && t.ext != nil {
			if v, ok := t.ext.mvals[n]; ok {
				c = w.moduleOf(v)
			}
		}
	}
	out := []c12PathReading{{"the nearest binding, which must be a module", a}}
	if b != a {
		out = append(out, c12PathReading{"the nearest scope whose table binds it to a module", b})
	}
	if c != a && c != b {
		out = append(out, c12PathReading{"the nearest binding to a module, external lookups included", c})
	}
	return out
}

// followPath descends from start through the later elements of a path.
func (w *c12World) followPath(start *c12Scope, rest []string) (out *c12Scope, any bool) {
	cur := start
	if cur == nil {
		return nil, false
	}
	for _, n := range rest {
		var next *c12Scope
		if v, ok := cur.vals[n]; ok {
			next = w.moduleOf(v)
		}
		if next == nil {
			// UNSPECIFIED: whether later path elements are looked up only in the
			// module's own table or like a name seen from the module (its external
			// lookup, its parent chain). When anything beyond the own table could
			// supply a module, any non-panicking outcome is accepted; otherwise an
			// error is required.
			if cur.ext != nil && w.moduleOf(cur.ext.mvals[n]) != nil {
				return nil, true
			}
			for t := cur.parent; t != nil; t = t.parent {
				if w.moduleOf(t.vals[n]) != nil {
					return nil, true
				}
				if t.ext != nil && w.moduleOf(t.ext.mvals[n]) != nil {
					return nil, true
				}
			}
			return nil, false
		}
		cur = next
	}
	return cur, false
}

func c12PathMatches(out *c12Scope, got *env.Env, err error) bool {
	if out == nil {
		return err != nil
	}
	return err == nil && got != nil && out.real == got
}

func (w *c12World) pathOutcome(got *env.Env, err error) string {
	if err != nil {
		return c12ErrStr(err)
	}
	if g := w.byReal[got]; g != nil {
		return "s" + strconv.Itoa(g.h)
	}
	return "an unknown scope"
}

func c12ScopeName(s *c12Scope) string {
	switch {
	case s == nil:
		return "an error"
	case s.h >= 0:
		return "s" + strconv.Itoa(s.h)
	}
	return "a hidden scope"
}

// pathOneReading: the path, its one-element prefix and up to four two-element
// extensions of the prefix, all looked up from s in the same state, must be
// explained by one reading of the first element. (got, gerr) is the result the
// implementation gave for path, already found acceptable under some reading.
func (w *c12World) pathOneReading(s *c12Scope, path []string, got *env.Env, gerr error) (pan *c12Panic, class, detail string) {
	if len(path) == 0 {
		return nil, "", ""
	}
	rds := w.pathReadings(s, path[0])
	if len(rds) < 2 {
		return nil, "", ""
	}
	w.tags["path:first-element-open"]++
	look := func(p []string) (g *env.Env, e error, pn *c12Panic) {
		w.obsCalls++
		pn = c12Protect(func() { g, e = s.real.GetEnvFromPath(p) })
		if pn == nil && w.verbose {
			w.after = append(w.after, fmt.Sprintf("    in the same state: s%d.GetEnvFromPath(%q)  => %s", s.h, p, w.pathOutcome(g, e)))
		}
		return
	}
	r1, r1err := got, gerr
	if len(path) > 1 {
		if r1, r1err, pan = look(path[:1]); pan != nil {
			return pan, "", ""
		}
	}
	var compat []c12PathReading
	var wants []string
	for _, rd := range rds {
		wants = append(wants, c12ScopeName(rd.start))
		if c12PathMatches(rd.start, r1, r1err) {
			compat = append(compat, rd)
		}
	}
	if len(compat) == 0 {
		return nil, "result", fmt.Sprintf("in the same state s%d.GetEnvFromPath(%q) returned %s, want %s", s.h, path[:1], w.pathOutcome(r1, r1err), strings.Join(wants, " or "))
	}
	check := func(p []string, g *env.Env, e error) string {
		var under []string
		for _, rd := range compat {
			out, any := w.followPath(rd.start, p[1:])
			if any || c12PathMatches(out, g, e) {
				return ""
			}
			under = append(under, fmt.Sprintf("%s when %q is %s (= %s)", c12ScopeName(out), path[0], rd.name, c12ScopeName(rd.start)))
		}
		return fmt.Sprintf("in one state s%d.GetEnvFromPath(%q) returned %s but s%d.GetEnvFromPath(%q) returned %s; the first gives %q as %s, so the second should be %s",
			s.h, path[:1], w.pathOutcome(r1, r1err), s.h, p, w.pathOutcome(g, e), path[0], c12ScopeName(compat[0].start), strings.Join(under, " or "))
	}
	const cls = "first-element-depends-on-path-length"
	if len(path) > 1 {
		w.tags["path:checked-against-prefix"]++
		if d := check(path, got, gerr); d != "" {
			return nil, cls, d
		}
	}
	// extensions: sub-modules of the candidate starts
	var probes []string
	seen := map[string]bool{}
	for _, rd := range rds {
		if rd.start == nil {
			continue
		}
		var sub []string
		for k, v := range rd.start.vals {
			if w.moduleOf(v) != nil && !seen[k] {
				sub = append(sub, k)
			}
		}
		sort.Strings(sub)
		if len(sub) > 2 {
			sub = sub[:2]
		}
		for _, k := range sub {
			seen[k] = true
			probes = append(probes, k)
		}
	}
	for _, k := range probes {
		p := []string{path[0], k}
		if len(path) == 2 && path[1] == k {
			continue
		}
		g, e, pn := look(p)
		if pn != nil {
			return pn, "", ""
		}
		w.tags["path:extension-checked"]++
		if d := check(p, g, e); d != "" {
			return nil, cls, d
		}
	}
	return nil, "", ""
}

// ---------------------------------------------------------------------------
// generator of path-centred histories (phase "paths"): few names, modules with
// sub-modules, module names rebound to plain values and to other modules in
// nearer scopes, external lookups that answer values and modules, and path
// lookups of one to three elements from every depth.

func (g *c12Gen) plainName() string {
	if g.r.Intn(2) == 0 {
		return "a"
	}
	return c12PlainNames[g.r.Intn(len(c12PlainNames))]
}

func (g *c12Gen) genPathFrom(s *c12Scope) []string {
	p := []string{g.plainName()}
	if g.r.Intn(2) == 0 {
		return p // one element
	}
	// descend from the start of a randomly chosen reading
	var starts []*c12Scope
	for _, rd := range g.w.pathReadings(s, p[0]) {
		if rd.start != nil {
			starts = append(starts, rd.start)
		}
	}
	var cur *c12Scope
	if len(starts) > 0 {
		cur = starts[g.r.Intn(len(starts))]
	}
	for d := 0; d < 2; d++ {
		var sub []string
		if cur != nil {
			for k, v := range cur.vals {
				if g.w.moduleOf(v) != nil {
					sub = append(sub, k)
				}
			}
			sort.Strings(sub)
		}
		if len(sub) == 0 || g.r.Intn(5) == 0 {
			p = append(p, g.plainName())
			break
		}
		n := sub[g.r.Intn(len(sub))]
		p = append(p, n)
		cur = g.w.moduleOf(cur.vals[n])
		if g.r.Intn(2) == 0 {
			break
		}
	}
	return p
}

func (g *c12Gen) nextPathy() c12Op {
	r := g.r
	s := g.pickScope()
	sc := g.w.scopes[s]
	canGrow := len(g.w.order) < g.maxScopes
	base := c12Op{S: s, A: -1, X: -1, New: -1}
	for {
		switch k := r.Intn(100); {
		case k < 8:
			if !canGrow {
				continue
			}
			base.K, base.New = "NewEnv", g.nextH
			return base
		case k < 20:
			if !canGrow {
				continue
			}
			base.K, base.N, base.New = "NewModule", g.plainName(), g.nextH
			return base
		case k < 32:
			op := g.valueOp("Define", s)
			op.N = g.plainName()
			return op
		case k < 36:
			op := g.valueOp("Set", s)
			op.N = g.plainName()
			return op
		case k < 39:
			base.K, base.N = "Delete", g.plainName()
			return base
		case k < 42:
			base.K, base.N = "DeleteGlobal", g.plainName()
			return base
		case k < 50:
			base.K, base.X = "SetExternalLookup", r.Intn(7)-1
			if base.X > 2 {
				base.X -= 3
			}
			return base
		case k < 60:
			base.K, base.X, base.N = "ExtPut", r.Intn(3), g.plainName()
			if r.Intn(2) == 0 {
				base.A = g.w.order[r.Intn(len(g.w.order))]
			} else {
				base.V = r.Intn(8)
			}
			g.r6ExtForm(&base)
			return base
		case k < 63:
			base.K, base.X, base.N = "ExtDel", r.Intn(3), g.plainName()
			return base
		case k < 65:
			if !canGrow {
				continue
			}
			base.K, base.New = "Copy", g.nextH
			return base
		case k < 67:
			if !canGrow {
				continue
			}
			base.K, base.New = "DeepCopy", g.nextH
			return base
		default:
			base.K, base.P = "GetEnvFromPath", g.genPathFrom(sc)
			return base
		}
	}
}

// fixed histories of round 5
var c12FixedR5 = [][]c12Op{
	// a module's name is a plain value in a nearer scope: paths of one and two elements from below it
	{c12new("NewRoot", -1, 0), c12mod(0, "m", 1), c12mod(1, "a", 2), c12new("NewEnv", 0, 3), c12def("Define", 3, "m", 1), c12new("NewEnv", 3, 4),
		c12path(4, "m", "a"), c12path(4, "m"), c12path(3, "m"), c12path(4, "m", "b"), c12def("Delete", 3, "m", 0), c12path(4, "m"), c12path(4, "m", "a")},
	// external lookups that answer a module's name with a plain value, with another module, and a name no table binds
	{c12new("NewRoot", -1, 0), c12mod(0, "m", 1), c12mod(1, "a", 2), c12new("NewRoot", -1, 3), c12mod(3, "a", 4), c12new("NewEnv", 0, 5),
		{K: "ExtPut", X: 0, N: "m", A: 3, New: -1}, {K: "ExtPut", X: 0, N: "b", A: 3, New: -1}, {K: "ExtPut", X: 0, N: "x", V: 1, A: -1, New: -1},
		{K: "SetExternalLookup", S: 5, X: 0, A: -1, New: -1}, c12new("NewEnv", 5, 6),
		c12path(6, "m"), c12path(6, "m", "a"), c12path(6, "b"), c12path(6, "b", "a"), c12path(6, "x"), c12def("Get", 6, "m", 0), c12def("Get", 6, "b", 0),
		{K: "ExtPut", X: 0, N: "m", V: 2, A: -1, New: -1}, c12path(6, "m"), c12path(6, "m", "a"), c12path(5, "m"),
		c12def("Define", 5, "b", 4), c12path(6, "b"), c12mod(6, "b", 7), c12path(6, "b"), c12path(6, "b", "a")},
	// the module's name is rebound to ANOTHER module in a nearer scope, then to nil, then by a lookup in between
	{c12new("NewRoot", -1, 0), c12mod(0, "a", 1), c12mod(1, "b", 2), c12new("NewEnv", 0, 3), c12mod(3, "a", 4), c12new("NewEnv", 3, 5),
		c12path(5, "a"), c12path(5, "a", "b"), c12def("Define", 5, "a", 0), c12path(5, "a"), c12path(5, "a", "b"), c12def("Delete", 3, "a", 0), c12path(5, "a"), c12path(5, "a", "b"),
		c12def("Delete", 5, "a", 0), {K: "ExtPut", X: 1, N: "a", V: 3, A: -1, New: -1}, {K: "SetExternalLookup", S: 3, X: 1, A: -1, New: -1}, c12path(5, "a"), c12path(5, "a", "b"), c12path(0, "a", "b")},
}

func init() {
	c12Fixed = append(c12Fixed, c12FixedR5...)
}
