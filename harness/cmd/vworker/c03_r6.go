package main

// C03 round 6 — a rejected spelling is rejected whichever way it reaches the parser.
//
// The property names two observation points: the tree returned by
// parser.ParseSrc and the value returned by vm.Execute. "Rejected with a parse
// error" is a statement about the source text, so it holds at both: a script
// with a number that int64/float64 cannot represent (or that is no number at
// all) has no tree, hence vm.Execute and vm.ExecuteContext have nothing to run:
// they must hand back a parse error (*parser.Error), and no statement of the
// script may have taken effect (a parse error is found before the run starts).
// A literal silently standing for nil, or a function body holding it that is
// simply never called, is "not what is written".
//
// The parser can report an error AND hand back a tree (errors found by a grammar
// action or by the lexer at the very end of the input while the parse goes on):
// that is exactly the situation in which an entry point that tests the tree
// instead of the error runs a script the parser rejected.

import (
	"context"
	"errors"
	"fmt"
	"math/rand"
	"strings"

	"github.com/mattn/anko/parser"

	"verifharness/internal/ank"
	"verifharness/internal/astx"
	"verifharness/internal/wk"
)

// c03RejCtx: scripts a rejected literal is embedded in for the Execute
// observation. In most of them a run would never evaluate the literal, or only
// after other statements have taken effect: the error must be reported all the
// same, and before anything runs. (The rejection does not depend on where the
// literal stands: every context is a place where a number literal is allowed.)
var c03RejCtx = []string{
	"%s",
	"x = %s; x",
	"x = %s",
	"f = func(a) { return a + %s }; f(1)",
	"func g() { return %s }",
	"func g() { return %s }; 1",
	"if false { x = %s }",
	"if t { 1 } else { %s }",
	"x = [1, 2, %s]",
	"m = {\"k\": %s}",
	"x = 1\ny = %s\nz = 2",
	"for i in [%s] { }",
	"for false { x = %s }",
	"x = true ? 1 : %s",
	"x = 1 ?? %s",
	"id(%s)",
	"id2(%s, 1)",
	"switch 1 { case %s: x = 1 }",
	"x = %s\n",
	"x = 1 # c\n%s",
	"x = fa && %s == 1",
	"try { x = 1 } catch { x = %s }",
	"xs[0] = %s",
	"x = xs[%s]",
}

const c03ProbeName = "c03ran"

// c03ExecMustReject: src was rejected by parser.ParseSrc. vm.Execute and
// vm.ExecuteContext must reject it with a *parser.Error as well; the third run
// puts a statement in front of the script and checks that it did not take effect.
// The value handed back next to the error is not judged.
func c03ExecMustReject(c *wk.Case, class, src string, input map[string]interface{}) {
	probe := c03ProbeName + " = 1\n"
	for way := 0; way < 3; way++ {
		e := c03Env()
		var o ank.Out
		name, s := "Execute", src
		switch way {
		case 0:
			o = ank.Exec(e, s)
		case 1:
			name = "ExecuteContext"
			o = ank.ExecCtx(context.Background(), e, s)
		default:
			s = probe + src
			if c.Rng.Intn(2) == 0 {
				o = ank.Exec(e, s)
			} else {
				name = "ExecuteContext"
				o = ank.ExecCtx(context.Background(), e, s)
			}
		}
		c.Events(1)
		in := map[string]interface{}{"via": "vm." + name, "script": s}
		for k, v := range input {
			in[k] = v
		}
		if o.Panicked {
			c.Violation("literal:exec-panic:"+name+":"+class+":"+o.PanicSig, "vm."+name+" panicked on a script the parser rejects: "+o.PanicVal, in)
			return
		}
		if o.Err == nil {
			c.Violation("literal:exec-accepted:"+name+":"+class, "parser.ParseSrc rejects the script, vm."+name+" ran it without an error and gave "+c03Clip(ank.Render(o.Val)), in)
			return
		}
		var pe *parser.Error
		if !errors.As(o.Err, &pe) {
			c.Violation("literal:exec-errtype:"+name+":"+class, fmt.Sprintf("parser.ParseSrc rejects the script, vm.%s answered with %T (%s), not with the parse error", name, o.Err, c03Clip(ank.ErrText(o.Err))), in)
			return
		}
		if way == 2 {
			if v, gerr := e.Get(c03ProbeName); gerr == nil {
				c.Violation("literal:exec-ran:"+name+":"+class, "vm."+name+" reported the parse error after running the script: the statement in front of it took effect ("+c03ProbeName+" = "+ank.Render(v)+")", in)
				return
			}
		}
	}
}

// c03LitRejectExec: the rejected spelling inside a larger script.
func c03LitRejectExec(c *wk.Case, class, spelling string, k int) {
	src := fmt.Sprintf(c03RejCtx[k%len(c03RejCtx)], spelling)
	input := map[string]interface{}{"class": class, "spelling": spelling, "src": src, "want": "parse error from ParseSrc, Execute and ExecuteContext; nothing runs"}
	c.Begin(input)
	c.Eval("rejx\x00"+src, true)
	c.Tag("lit:" + class + ":in-script")
	root, err, o := ank.Parse(src)
	c.Events(1)
	if o.Panicked {
		c.Violation("literal:panic:"+class+":"+o.PanicSig, "parser panicked: "+o.PanicVal, input)
		return
	}
	if err == nil {
		c.Violation("literal:accepted:"+class, "unrepresentable/malformed literal accepted: "+c03Clip(astx.Dump(root, astx.Opts{SkipParen: true})), input)
		return
	}
	var pe *parser.Error
	if !errors.As(err, &pe) {
		c.Violation("literal:errtype:"+class, fmt.Sprintf("rejected with %T, not *parser.Error", err), input)
	}
	if root != nil {
		c.Tag("lit:rejected-with-tree")
	}
	c03ExecMustReject(c, class, src, input)
}

// ---- sources whose rejection the statement does not demand ----
//
// An unterminated string is no spelling of any value and a doubled else/default
// branch is no expression: the statement does not say that they are rejected,
// so an acceptance by ParseSrc is not judged (only counted). Judged is the
// agreement of the two observation points: what ParseSrc rejects, Execute and
// ExecuteContext reject. These are the other sources for which today's parser
// reports an error together with a tree.
var c03AgreeFixed = []string{
	"\"abc", "'abc", "`abc", "x = \"abc", "x = 1; y = \"abc", "x = 1\ny = 'abc", "x = `abc\ndef", "\"abc\\", "'abc\\", "x = \"", "x = '", "x = `", "id(\"abc",
	"x = \"a\\\"", "x = [1, \"abc", "func g() { return \"abc",
	"if t { x = 1 } else { x = 2 } else { x = 3 }",
	"x = 0\nif fa { x = 1 } else { x = 2 } else { x = 3 }\nx",
	"switch a { case 1: x = 1; default: x = 2; default: x = 3 }",
	"switch a {\ncase 1:\nx = 1\ndefault:\nx = 2\ndefault:\nx = 3\n}",
	"x = 1 +", "x = (1", "x = [1, 2", "1 ? 2", "x = 1 1", "a b", "x = 1 ?? ", "func(", "x = {\"a\": }", "x = a[1:2:3:4]", "x = @", "x = 1 $ 2", "\\",
}

func c03ExecAgree(c *wk.Case, class, src string) {
	input := map[string]interface{}{"class": class, "src": src, "want": "if ParseSrc rejects the script, Execute and ExecuteContext reject it with the parse error and run nothing"}
	c.Begin(input)
	c.Eval("agree\x00"+src, true)
	root, err, o := ank.Parse(src)
	c.Events(1)
	if o.Panicked {
		c.Violation("literal:panic:"+class+":"+o.PanicSig, "parser panicked: "+o.PanicVal, input)
		return
	}
	if err == nil {
		c.Tag("agree:" + class + ":accepted(not judged)")
		return
	}
	c.Tag("agree:" + class + ":rejected")
	if root != nil {
		c.Tag("agree:" + class + ":rejected-with-tree")
	}
	var pe *parser.Error
	if !errors.As(err, &pe) {
		c.Violation("literal:errtype:"+class, fmt.Sprintf("rejected with %T, not *parser.Error", err), input)
		return
	}
	c03ExecMustReject(c, class, src, input)
}

// c03Unterminated: the quoted spelling of s without its closing quote, at the end of a script.
func c03Unterminated(c *wk.Case, r *rand.Rand, s string) {
	q := []rune{'"', '\''}[r.Intn(2)]
	sp := c03Quote(r, s, q)
	sp = sp[:len(sp)-1]
	pre := []string{"", "x = ", "x = 1\ny = ", "id(", "x = [1, ", "func g() { return "}[r.Intn(6)]
	c03ExecAgree(c, "string-unterminated", pre+sp)
	if !strings.ContainsAny(s, "`") && r.Intn(2) == 0 {
		c03ExecAgree(c, "string-unterminated", pre+"`"+s)
	}
}

// c03DrawMalformed: the shapes of c03Malformed with drawn digits: a number with
// two or three dots, with two exponents, with an exponent without digits, a base
// prefix without digits, a binary number with a digit above 1. None of them is
// the spelling of a number (each starts like one, so it is not anything else either).
func c03DrawMalformed(r *rand.Rand) string {
	d := func() string { return fmt.Sprint(r.Intn(1000)) }
	switch r.Intn(7) {
	case 0:
		return d() + "." + d() + "." + d()
	case 1:
		return d() + "." + d() + "." + d() + "." + d()
	case 2:
		return d() + "e" + fmt.Sprint(r.Intn(9)) + "e" + fmt.Sprint(r.Intn(9))
	case 3:
		return d() + []string{"e", "e+", "e-", "E", "E+", "E-"}[r.Intn(6)]
	case 4:
		return d() + "." + d() + []string{"e", "e+", "e-"}[r.Intn(3)]
	case 5:
		return []string{"0x", "0X", "0b", "0B"}[r.Intn(4)]
	default:
		return []string{"0b", "0B"}[r.Intn(2)] + fmt.Sprintf("%b", r.Intn(64)) + fmt.Sprint(2+r.Intn(8)) + []string{"", "0", "1", "10"}[r.Intn(4)]
	}
}

// ---- string literals holding bytes that are no UTF-8 encoding ----
//
// "Literals denote exactly what is written ... quoted/raw strings parse to
// precisely that Go value." A Go string can hold any bytes, so a literal with the
// byte 0xFF between its quotes either denotes the string with that byte, or the
// source is refused as not being text (as Go does: "illegal UTF-8 encoding"):
// both are accepted. A literal that silently denotes other characters than the
// ones between its quotes (U+FFFD, EF BF BD, in place of the byte) is not what
// was written - the same reasoning as for the undefined escapes in c03.go.
//
// PENDING FIX (see /tmp/strengthen/C03-r6-genuine.md #1): on the unchanged tree
// Scanner.Init / ParseSrc convert the source with []rune(src), which replaces
// every invalid byte by U+FFFD: "a\xffb" denotes "a�b" (5 bytes, not 3).
// While the constant is true the class is not generated, so the check is silent.
const c03PendingFix_InvalidUTF8 = true

// byte sequences that are not UTF-8: a lone continuation byte, bytes that never
// occur, a truncated sequence, an overlong form, an encoded surrogate, a value above U+10FFFF
var c03BadUTF8 = []string{"\x80", "\xbf", "\xff", "\xfe", "\xc0\xaf", "\xc1\x81", "\xe2\x82", "\xf0\x9f\x98", "\xed\xa0\x80", "\xf4\x90\x80\x80", "\xf8\x88\x80\x80\x80", "\xc3", "\xe9"}

func c03InvalidUTF8(c *wk.Case, r *rand.Rand, s string) {
	if c03PendingFix_InvalidUTF8 {
		return
	}
	// split s at a rune boundary, put the bytes in between
	rs := []rune(s)
	cut := r.Intn(len(rs) + 1)
	bad := c03BadUTF8[r.Intn(len(c03BadUTF8))]
	a, b := string(rs[:cut]), string(rs[cut:])
	want := a + bad + b
	type sp struct{ class, src string }
	var sps []sp
	for _, q := range []struct {
		q     rune
		class string
	}{{'"', "string-dq"}, {'\'', "string-sq"}} {
		qa, qb := c03Quote(r, a, q.q), c03Quote(r, b, q.q)
		sps = append(sps, sp{q.class, qa[:len(qa)-1] + bad + qb[1:]})
	}
	if !strings.ContainsAny(s, "`\r") {
		sps = append(sps, sp{"string-raw", "`" + want + "`"})
	}
	for _, x := range sps {
		ctx := c03LitCtx[r.Intn(3)] // bare, `x = %s`, `id(%s)`
		src := fmt.Sprintf(ctx.f, x.src)
		input := map[string]interface{}{"class": x.class, "src": src, "src_bytes": fmt.Sprintf("%q", src), "want": fmt.Sprintf("the string %q (the bytes between the quotes), or a parse error", want)}
		c.Begin(input)
		c.Eval("badutf8\x00"+src, true)
		c.Tag("lit:invalid-utf8:" + x.class)
		root, err, o := ank.Parse(src)
		c.Events(1)
		if o.Panicked {
			c.Violation("literal:panic:invalid-utf8:"+o.PanicSig, "parser panicked: "+o.PanicVal, input)
			continue
		}
		if err != nil {
			var pe *parser.Error
			if !errors.As(err, &pe) {
				c.Violation("literal:errtype:invalid-utf8", fmt.Sprintf("rejected with %T, not *parser.Error", err), input)
				continue
			}
			c.Tag("lit:invalid-utf8:rejected")
			c03ExecMustReject(c, "invalid-utf8", src, input)
			continue
		}
		lits := c03LitNodes(root)
		if len(lits) != 1 || !lits[0].Literal.IsValid() {
			c.Violation("literal:node:invalid-utf8:"+x.class, "one string literal did not parse to one LiteralExpr: "+c03Clip(astx.Dump(root, astx.Opts{SkipParen: true})), input)
			continue
		}
		if got, isStr := lits[0].Literal.Interface().(string); !isStr || got != want {
			c.Violation("literal:invalid-utf8:not-what-is-written:"+x.class, fmt.Sprintf("the literal denotes %q, between the quotes stands %q", lits[0].Literal.Interface(), want), input)
			continue
		}
		ex := ank.Exec(ank.NewCoreEnv(), x.src)
		c.Events(1)
		if v, isS := ex.Val.(string); ex.Panicked || ex.Err != nil || !isS || v != want {
			c.Violation("literal:exec:invalid-utf8:"+x.class, fmt.Sprintf("literal parses to %q but evaluates to %s err=%s", want, ank.Render(ex.Val), ank.ErrText(ex.Err)), input)
		}
	}
}
