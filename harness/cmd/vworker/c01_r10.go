package main

// C01, round 10 ("a fault at a particular point"): an index store x[i] = v is a multi-step
// operation - evaluate the holder x, convert v, write the element (for i == len(x): append,
// possibly into spare capacity shared with other lists), then PUT THE RESULT BACK into the place
// x designates. When x is a plain variable every step succeeds; the fuzz templates mostly spell
// that. Phase `refused` enumerates, completely and on every run, the grid
//
//	LIST    lists with and without spare capacity, the spare slots holding nil, typed nil, zero
//	        values, values of other kinds (literals with nil elements, make(T, len, cap) of 16
//	        element types, lists grown element by element, two- and three-index views of longer
//	        lists, nil lists, host-bound lists, strings; as neighbours nil and non-nil maps: a store
//	        into a nil map makes a map and puts it back)
//	HOLDER  the place the list is taken from: a variable (control), slice expressions, results of
//	        script / host calls, literals, parenthesised / conditional / ?? expressions, map
//	        members and elements (untyped, typed, literal), elements of lists and of views of
//	        lists, module members, dereferenced pointers, members of unaddressable structs,
//	        received values
//	OP      stores of values of several kinds, op-assignments, ++/--, delete, multi-assignments
//	        with the element in every position, nested element / member stores, right sides that
//	        fail or panic in the host (every statement on every third (list, holder) pair, the
//	        basic ones on every pair)
//	INDEX   every index from -1 to cap+1 (a variable, a literal, len(x) spelled in the script)
//	WRAP    inside try in a loop, inside a function / a deferred function / a catch and a finally
//	        block / a goroutine, and WITHOUT any try: builder, statement and read-back are three
//	        runs on one environment (the failed statement ends its run; the next run reads the
//	        lists back, appends to them and walks them)
//
// so that the step that is refused is the last one (put-back), the middle one (conversion) or the
// first one (holder / index), with whatever rollback the interpreter does on those paths.
// The oracle is C01's own: no Go panic reaches the caller, the worker does not die.

import (
	"context"
	"fmt"
	"runtime"
	"strings"
	"time"

	"verifharness/internal/ank"
	"verifharness/internal/fw"
	"verifharness/internal/wk"
)

const c01RuleR10 = " Round 10: phase refused enumerates completely the grid LIST (49 ways a script or the host builds the container: with and without spare capacity, spare slots holding nil / typed nil / zero values / values of other kinds; 16 element types; grown element by element; two- and three-index views; nil lists; strings; as neighbours nil and non-nil maps, where a store into a nil map makes a map and puts it back) x HOLDER (30 places the list is taken from: a variable as control, slice expressions, script and host call results, literals, parenthesised / conditional / ?? expressions, map members and elements, typed maps, list elements, views of lists of lists, module members, dereferenced pointers, struct members, received values) x OP (48 statements on an element of it: stores of values of every kind, op-assignments, ++/--, delete, multi-assignments with the element in every position, nested element and member stores, right sides that fail or panic in the host, stores at len() spelled in the script, member stores, slice and dereference targets; every statement on every third (list, holder) pair, so that every list and every holder meets every statement, and 10 basic statements on every pair) x INDEX (-1 .. cap+1) x WRAP (try in a loop over all indices; function body, and on a quarter of the combinations deferred function, catch block, finally block, goroutine; and no try at all, at the index len(x) and for three statements also next to it, at cap and at -1: builder, statement and read-back as three runs on one environment, the statement's run ending with its error), each followed by a read-back that prints, walks and appends to every list involved; the step of the store that fails is the put-back into the holder, the conversion of the value, or the index / the holder itself."

var c01AssumptionsR10 = []string{
	"phase refused: the grid is a fixed enumeration (no random draws); a case is a slice of it, rebuilt from (phase, case index). It judges only what C01 states (a panic reaching the caller, a dead worker); what a refused store leaves in the lists is C10's subject and is exercised here (read-backs) but not compared",
}

type c01R10List struct {
	build string // defines a (and possibly b, the list a is a view of)
	cap   int    // indices run from -1 to cap+1
	ln    int    // len(a)
}

var c01R10Lists = []c01R10List{
	{"b = [1, 2, nil]; a = b[0:2]", 3, 2},
	{"a = [1, 2, nil]", 3, 3},
	{"b = [nil, nil, nil, nil]; a = b[0:1]", 4, 1},
	{"b = [nil, nil, nil, nil]; a = b[1:1]", 3, 0},
	{"a = make([]interface, 2, 4)", 4, 2},
	{"a = make([]interface, 2, 4); a[0] = \"x\"; a[1] = \"y\"", 4, 2},
	{"a = make([]interface, 0, 1)", 1, 0},
	{"a = []; a[0] = 1; a[1] = 2; a[2] = 3", 4, 3},
	{"a = []; for k = 0; k < 5; k++ { a += [k] }", 8, 5},
	{"a = []; for k = 0; k < 5; k++ { a[len(a)] = nil }", 8, 5},
	{"b = [1, \"s\", 2.5, true, nil, [1], {\"k\": 1}, func() { return 1 }]; a = b[0:1]", 8, 1},
	{"b = [1, \"s\", 2.5, true, nil, [1], {\"k\": 1}, func() { return 1 }]; a = b[2:4]", 6, 2},
	{"b = [1, \"s\", 2.5, true, nil, [1], {\"k\": 1}, func() { return 1 }]; a = b[3:5:6]", 3, 2},
	{"b = [1, \"s\", 2.5, true, nil, [1], {\"k\": 1}, func() { return 1 }]; a = b[4:6]", 4, 2},
	{"b = [1, \"s\", 2.5, true, nil, [1], {\"k\": 1}, func() { return 1 }]; a = b[6:7]", 2, 1},
	{"b = [[1, nil], nil, [nil]]; a = b[0:1]", 3, 1},
	{"b = [1, 2, 3]; a = b[0:3]", 3, 3},
	{"b = [1, 2, 3]; a = b[0:2:2]", 2, 2},
	{"a = []", 0, 0},
	{"a = [nil]", 1, 1},
	{"a = make([]int64, 2, 4)", 4, 2},
	{"b = []int64{1, 2, 3}; a = b[0:1]", 3, 1},
	{"a = make([]float64, 0, 2)", 2, 0},
	{"a = make([]string, 1, 3)", 3, 1},
	{"a = make([]bool, 2, 5)", 5, 2},
	{"a = make([]byte, 1, 4)", 4, 1},
	{"a = make([]uint64, 1, 2)", 2, 1},
	{"a = make([]*int64, 1, 3)", 3, 1},
	{"a = make([][]int64, 1, 3)", 3, 1},
	{"a = make([][]interface, 1, 3)", 3, 1},
	{"a = make([]map[string]int64, 1, 3)", 3, 1},
	{"a = make([]map[string]interface, 1, 3)", 3, 1},
	{"a = make([]chan int64, 1, 3)", 3, 1},
	{"a = make([]TErr, 1, 3)", 3, 1},
	{"make(type LT, 1); a = make([]LT, 1, 3)", 3, 1},
	{"make(type LS, make(struct{A interface})); a = make([]LS, 1, 3)", 3, 1},
	{"make(type LE, gNilErr); b = make([]interface, 3); a = b[0:1]", 3, 1},
	{"b = [gNilErr(), gNilStr(), gNilSl(), gNilMap(), gNilPtr(), gNilFn()]; a = b[0:2]", 6, 2},
	{"b = [gNilErr(), gNilStr(), gNilSl(), gNilMap(), gNilPtr(), gNilFn()]; a = b[2:3]", 4, 1},
	{"a = gNilSl()", 0, 0},
	{"a = vList[0:2]", 4, 2},
	{"a = vTSlice[0:1]", 2, 1},
	{"a = vStr", 6, 6},
	{"a = \"abc\"", 3, 3},
	// neighbours: nil and non-nil maps (a store into a nil map makes a map and puts it back), numeric keys
	{"a = gNilMap()", 1, 0},
	{"a = make([]map[int64]interface, 1)[0]", 1, 0},
	{"a = make([]map[string][]interface, 1)[0]", 1, 0},
	{"a = make(map[int64]interface); a[0] = nil", 1, 1},
	{"a = {\"0\": [1, nil][0:1]}", 1, 1},
}

type c01R10Holder struct {
	setup string // run after the list was built
	x     string // the expression that designates the list
}

var c01R10Holders = []c01R10Holder{
	{"", "a"},
	{"", "a[0:len(a)]"},
	{"", "a[:len(a)]"},
	{"", "a[0:]"},
	{"", "a[0:len(a)][0:len(a)]"},
	{"", "a[0:len(a):len(a)]"},
	{"func f() { return a }", "f()"},
	{"func f() { return a }", "f()[0:len(a)]"},
	{"f = func(l...) { return l[0] }", "f(a)"},
	{"", "gId(a)"},
	{"", "(a)"},
	{"", "(true ? a : nil)"},
	{"", "(a ?? 1)"},
	{"", "(nil ?? a)"},
	{"", "[a][0]"},
	{"", "[a, a][1][0:len(a)]"},
	{"", "{\"k\": a}.k"},
	{"", "{\"k\": a}[\"k\"]"},
	{"m = {\"k\": a}", "m.k"},
	{"m = {\"k\": a}", "m[\"k\"][0:len(a)]"},
	{"m = make(map[string]interface); m.k = a; func f() { return m }", "f().k"},
	{"w = [a, a]", "w[1]"},
	{"w = [a, a]", "w[0:1][0]"},
	{"w = [a, a]; func f() { return w }", "f()[0]"},
	{"module md { la = a }", "md.la"},
	{"p = &a", "*p"},
	{"p = &a; func f() { return p }", "*f()"},
	{"s = make(struct{A interface}); s.A = a; func f() { return s }", "f().A"},
	{"s = make(struct{A interface}); s.A = a; w = [s]", "w[0].A"},
	{"ch = make(chan interface, 8); for k = 0; k < 8; k++ { ch <- a }", "(<-ch)"},
}

// $X is the holder, $I the index
var c01R10Ops = []string{
	"$X[$I] = 9",
	"$X[$I] = nil",
	"$X[$I] = \"s\"",
	"$X[$I] = 2.5",
	"$X[$I] = [1]",
	"$X[$I] = a[0:0]", // (never the list itself: printing a self-referential list exhausts the stack, which is outside the guarantee)
	"$X[$I] = [$X[0]]",
	"$X[$I] = {\"k\": 1}",
	"$X[$I] = func() { return 1 }",
	"$X[$I] = gNilErr()",
	"$X[$I] = gNilSl()",
	"$X[$I] = $X[0]",
	"$X[$I] += 1",
	"$X[$I] -= 1",
	"$X[$I] *= 2",
	"$X[$I] /= 2",
	"$X[$I] += \"s\"",
	"$X[$I] += [1]",
	"$X[$I]++",
	"$X[$I]--",
	"delete($X, $I)",
	"delete($X[$I], 0)",
	"$X[$I], z = 1, 2",
	"z, $X[$I] = 1, 2",
	"$X[$I], $X[$I + 1] = 1, 2",
	"a[$I], $X[$I] = 1, 2",
	"$X[$I], a[$I] = nil, nil",
	"$X[$I], z = gMulti(1)",
	"z, $X[$I] = [1, nil]",
	"$X[$I][0] = 1",
	"$X[$I].k = 1",
	"$X[$I:][0] = 2",
	"$X[0:$I][$I] = 3",
	"$X[$I] = gPanicErr(1)",
	"$X[$I] = gErr(1)",
	"$X[$I] = gApply(func() { throw \"cb\" })",
	"$X[len($X)] = 9",
	"$X[len($X)] = nil",
	"$X[len($X)] += 1",
	"$X += [9]",
	"$X.k = 9",
	"$X[\"k\"] = nil",
	"$X.k[0] = 1",
	"$X[\"0\"][1] = 1",
	"$X[$I:len($X)] = [1]",
	"*$X[$I] = 1",
	"z, $X[$I] = nil, nil",
	"a[$I], $X[$I] = nil, \"s\"",
}

// what runs after the statement: every list involved is printed, walked and appended to
const c01R10ReadBack = "x = [len(a), toString(a)]; for v in a { x = v }; try { x = toString(b); for v in b { x = [v] } } catch e2 { }; a[len(a)] = 7; a += [8]; x = toString(a)"

// the wraps that put the statement inside a try (the index is the loop variable i)
var c01R10Wraps = []string{
	"try { $OP } catch e { nerr++ }",
	"func g(i) { $OP }; try { g(i) } catch e { nerr++ }",
	"func g(i) { defer func() { $OP }(); return 1 }; try { g(i) } catch e { nerr++ }",
	"try { throw 1 } catch e { try { $OP } catch e1 { nerr++ } }",
	"try { try { x = 1 } catch e0 { } finally { $OP } } catch e { nerr++ }",
	"done = make(chan int64, 1); go func() { try { $OP } catch e { }; done <- 1 }(); <- done",
}

// the ops every wrap other than the first two regimes runs (the plain stores and one of each family)
var c01R10WrapOps = []int{0, 1, 2, 12, 18, 20, 22, 23, 36, 40}

// the ops the three-run regime also runs at the indices next to len, at cap and at -1
var c01R10SeqOps = []int{0, 12, 22}

const c01R10Slices = 64

func c01PhasesR10(tier string) []fw.Phase {
	return []fw.Phase{{Name: "refused", Cases: c01R10Slices, Chunk: 2, TimeoutS: 1200, MemMB: 6144, Exhaust: true}}
}

func c01R10Fill(tpl string, h c01R10Holder, idx string) string {
	return strings.ReplaceAll(strings.ReplaceAll(tpl, "$X", h.x), "$I", idx)
}

// one case = every (list, holder) pair of its slice, all ops, all indices, all wraps
func c01RunR10(c *wk.Case) bool {
	if c.Phase != "refused" {
		return false
	}
	pair, loops, seqs := 0, 0, 0
	for li, l := range c01R10Lists {
		for hi, h := range c01R10Holders {
			pair++
			if pair%c01R10Slices != c.Index {
				continue
			}
			prep := l.build
			if h.setup != "" {
				prep += "\n" + h.setup
			}
			for oi, op := range c01R10Ops {
				// every statement on every third pair (all lists with all statements, all holders
				// with all statements); the basic statements on every pair
				if (li+hi)%3 != 0 && !c01R10In(c01R10WrapOps, oi) {
					continue
				}
				// regime 1: all indices in a loop, the statement inside a try
				for wi, w := range c01R10Wraps {
					if wi > 0 && !c01R10In(c01R10WrapOps, oi) {
						continue
					}
					if wi > 1 && (li+hi+oi+wi)%4 != 0 {
						continue // the rarer wraps on every fourth combination
					}
					body := strings.ReplaceAll(w, "$OP", c01R10Fill(op, h, "i"))
					src := fmt.Sprintf("nerr = 0\nfor i = -1; i < %d; i++ {\n%s\n%s\ntry { %s } catch e3 { }\n}\nnerr", l.cap+2, prep, body, c01R10ReadBack)
					c01RunOne(c, src, 3*time.Second)
					loops++
				}
				// regime 2: no try; builder, statement, read-back are three runs on one environment
				for _, idx := range []int{l.ln, l.ln - 1, l.ln + 1, l.cap, -1} {
					if idx != l.ln && (!c01R10In(c01R10SeqOps, oi) || idx < -1 || (idx == l.cap && l.cap <= l.ln+1)) {
						continue
					}
					c01RunSeq(c, []string{prep, c01R10Fill(op, h, fmt.Sprint(idx)), c01R10ReadBack, "try { " + c01R10Fill(op, h, fmt.Sprint(idx)) + " } catch e { }\n" + c01R10ReadBack})
					seqs++
				}
			}
		}
	}
	c.Count("refused_loop_scripts", loops)
	c.Count("refused_three_run_sequences", seqs)
	c.Tag("reached:refused_grid_slice")
	return true
}

func c01R10In(l []int, v int) bool {
	for _, x := range l {
		if x == v {
			return true
		}
	}
	return false
}

// c01RunSeq executes the parts one after another on ONE environment, each through
// vm.ExecuteContext; an error ends its part only. The input recorded is the list of parts.
func c01RunSeq(c *wk.Case, parts []string) {
	e := c01NewEnvFor(strings.Join(parts, "\n"))
	base := runtime.NumGoroutine()
	input := map[string]interface{}{"runs_on_one_environment": parts}
	c.Begin(input)
	errs := 0
	for k, src := range parts {
		ctx, cancel := context.WithTimeout(context.Background(), 2*time.Second)
		o := ank.ExecCtx(ctx, e, src)
		cancel()
		if o.Panicked {
			c.Tag("outcome:panic")
			c.Violation(o.PanicSig, fmt.Sprintf("a Go panic reached the caller in run %d of %d on one environment: %s\n%s", k+1, len(parts), o.PanicVal, firstLinesOf(o.Stack, 14)), input)
			break
		}
		if o.Err != nil {
			errs++
			if k == 1 {
				c.Tag("refused:statement_failed_without_try")
			}
		} else {
			_ = ank.Render(o.Val)
			c01HoldResult(o.Val)
		}
	}
	for i := 0; i < 400 && runtime.NumGoroutine() > base; i++ {
		if i < 20 {
			runtime.Gosched()
		} else {
			time.Sleep(500 * time.Microsecond)
		}
	}
	c.Eval(strings.Join(parts, "\n--\n"), true)
	c.Events(len(parts))
	if errs > 0 {
		c.Tag("outcome:run-error")
	} else {
		c.Tag("outcome:value")
	}
}
