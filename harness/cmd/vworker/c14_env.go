package main

// C14 — environments that differ, deep call nesting, float32 comparisons.
//
// "A tree parsed once can be run any number of times, one after another or from
// many goroutines at once on separate environments, and every run yields the
// result it would yield alone": the environments need not be equal. A program's
// first line may be a comment `# env: <tokens>` that tells the runner how the
// host prepares the (otherwise standard) environment:
//
//	NAME=kind     env.DefineType(NAME, <value of that kind>); NAME may be mod.NAME,
//	              then the type is defined in the host-made module mod
//	f32           host values of type float32 / []float32 / map[string]float32
//	tag=kind harr=n hkey=Name   (round 6, c14_r6.go) host data used as map keys: tag is a value
//	              of that kind, harr a Go array [n]interface{} and hkey a Go struct
//	              {Name interface{}; N int64} that hold it
//	meet          (always bound in a prepared environment) meet() is a no-op in a
//	              solo run; in the concurrent phase the first meet() of a run waits
//	              until every other run of the case has called it or has ended —
//	              a schedule control only, never a verdict
//
// The reference of a run is always "the same text in the same kind of
// environment, alone": in-process where runs in equal environments are compared,
// a fresh child process (c14_hist.go) where the environments differ, because a
// reference taken in this process would share the process with the other kinds.

import (
	"context"
	"fmt"
	"strings"
	"sync"
	"time"

	"github.com/mattn/anko/ast"
	"github.com/mattn/anko/env"

	"verifharness/internal/ank"
	"verifharness/internal/astx"
	"verifharness/internal/realrun"
	"verifharness/internal/wk"
)

const c14SpecPrefix = "# env: "

// c14SpecOf returns the environment spec a program carries ("" = standard environment).
func c14SpecOf(src string) string {
	if !strings.HasPrefix(src, c14SpecPrefix) {
		return ""
	}
	line := src[len(c14SpecPrefix):]
	if nl := strings.Index(line, "\n"); nl >= 0 {
		line = line[:nl]
	}
	return strings.TrimSpace(line)
}

var c14KindValues = map[string]interface{}{
	"int64": int64(0), "string": "", "float64": float64(0), "bool": false, "int32": int32(0), "float32": float32(0),
	"ints": []int64{}, "strs": []string{}, "smap": map[string]int64{},
	"stA": struct{ A int64 }{}, "stS": struct{ A string }{},
}

var c14KindNames = []string{"int64", "string", "float64", "bool", "int32", "float32", "ints", "strs", "smap", "stA", "stS"}

// c14PrepEnv applies a spec to a fresh standard environment.
func c14PrepEnv(e *env.Env, spec string) {
	mods := map[string]*env.Env{}
	for _, tok := range strings.Fields(spec) {
		switch {
		case c14R6PrepToken(e, tok):
			// round 6 (c14_r6.go): host data used as map keys (tag=, harr=, hkey=)
		case tok == "f32":
			e.Define("hf", float32(1.1))
			e.Define("hf2", float32(0.1))
			e.Define("hd", float64(1.1))
			e.Define("hfs", []float32{1.5, 1.1, 2.25, 0.1})
			e.Define("hfm", map[string]float32{"a": 1.1, "b": 2.5})
		case strings.Contains(tok, "="):
			eq := strings.Index(tok, "=")
			name, kind := tok[:eq], tok[eq+1:]
			v, ok := c14KindValues[kind]
			if !ok {
				continue
			}
			target := e
			if dot := strings.Index(name, "."); dot > 0 {
				mod := name[:dot]
				name = name[dot+1:]
				if mods[mod] == nil {
					mods[mod], _ = e.NewModule(mod)
				}
				target = mods[mod]
			}
			if target != nil {
				target.DefineType(name, v)
			}
		}
	}
}

// c14RunTree runs a parsed tree once in a fresh environment prepared after spec.
// spec == "" is exactly realrun.RunTreeWatchdog. meet is the host function bound
// as meet (nil = no-op).
func c14RunTree(tree ast.Stmt, spec string, wd time.Duration, settle bool, meet func()) realrun.Real {
	if spec == "" {
		return realrun.RunTreeWatchdog(tree, wd, settle)
	}
	e, rec := realrun.NewEnv()
	c14PrepEnv(e, spec)
	if meet == nil {
		meet = func() {}
	}
	e.Define("meet", meet)
	ctx, cancel := context.WithTimeout(context.Background(), wd)
	defer cancel()
	// round 9 (c14_r9.go): host functions that cancel the run's context synchronously and return
	// their argument, for operands of channel expressions
	selfCancelled := false
	if strings.Contains(" "+spec+" ", " cancelops ") {
		e.Define("hcv", func(v interface{}) interface{} { selfCancelled = true; cancel(); return v })
	}
	o := ank.RunCtx(ctx, e, tree)
	var real realrun.Real
	real.Trace, real.GTrace = rec.Snapshot()
	switch {
	case selfCancelled && !o.Panicked:
		// the program cancelled its own context: the outcome is a result, not a watchdog expiry
		real.SelfCancelled = true
		if o.Err != nil {
			real.ErrText = o.Err.Error()
		} else {
			real.Value = ank.Render(o.Val)
		}
	case o.Panicked:
		// programs with a spec are goroutine-free: a panic is an outcome like any other and must repeat
		real.Panicked, real.PanicSig, real.PanicVal = true, o.PanicSig, o.PanicVal
		real.ErrText = "panic: " + o.PanicSig
	case len(real.Trace) >= realrun.EventBudget:
		real.Overflow = true
	case ctx.Err() != nil:
		real.TimedOut = true
	case o.Err != nil:
		real.ErrText = o.Err.Error()
	default:
		real.Value = ank.Render(o.Val)
	}
	return real
}

// c14Barrier lets the concurrent runs of one case meet: the first meet() of run i
// returns when every run has called meet() or has ended. The bound wait is a
// fallback so that nothing can hang; it moves schedules, never verdicts.
type c14Barrier struct {
	mu      sync.Mutex
	n       int
	arrived map[int]bool
	all     chan struct{}
}

func c14NewBarrier(n int) *c14Barrier {
	return &c14Barrier{n: n, arrived: map[int]bool{}, all: make(chan struct{})}
}

func (b *c14Barrier) arrive(i int) {
	b.mu.Lock()
	if !b.arrived[i] {
		b.arrived[i] = true
		if len(b.arrived) == b.n {
			close(b.all)
		}
	}
	b.mu.Unlock()
}

func (b *c14Barrier) meetFor(i int) func() {
	return func() {
		b.arrive(i)
		select {
		case <-b.all:
		case <-time.After(30 * time.Second):
		}
	}
}

// ---------------------------------------------------------------------------
// programs whose meaning depends on the type bindings of the environment

// type expressions that name T, U, hm.T inside struct / slice / map / chan / pointer types
var c14TypeTexts = []string{
	"s = make(struct{F T, G int64})\nrd(\"s\", s)\nrd(\"F\", s.F)",
	"a = []struct{F T}{}\nrd(\"a\", a)\nb = make([]struct{F T}, 2)\nrd(\"b\", b)",
	"m = make(map[string]struct{F T})\nrd(\"m\", m)\nrd(\"l\", map[string]struct{F T}{})",
	"p1 = make(*struct{F T})\nrd(\"p\", p1)\nc = make(chan struct{F T}, 1)\nrd(\"c\", c)",
	"s = make(struct{In struct{F T}, L []T, M map[string]T})\nrd(\"s\", s)",
	"func mk() { return make(struct{F T}) }\nrd(\"r\", [mk(), mk()])\nfor i = 0; i < 3; i++ { rd(\"i\", make(struct{F T})) }",
	"s = make(struct{F T}) ?? \"no such type\"\nrd(\"s\", s)\nu = make(struct{F U}) ?? \"no such type\"\nrd(\"u\", u)",
	"s = make(struct{F hm.T, G T}) ?? \"no such type\"\nrd(\"s\", s)\nrd(\"h\", make(struct{F hm.T}) ?? \"no such type\")",
	"x = make(struct{F T})\nx.F = \"abc\"\nrd(\"x\", x)",
	"module q { make(type T, 1 == 1) }\nrd(\"q\", make(struct{F q.T}))\nrd(\"t\", make(struct{F T}) ?? \"no such type\")",
	"rd(\"v\", [make(T) ?? \"no such type\", make([]T, 1) ?? \"no such type\", make(map[string]T) ?? \"no such type\", make(hm.T) ?? \"no such type\"])",
	"a = make([]struct{F T}, 1)\nb = make([]struct{F U}, 1) ?? \"no such type\"\nrd(\"ab\", [a, b])\nrd(\"e\", a[0].F)",
}

// c14RandTypeSpec draws the type bindings of an environment: T mostly bound, U mostly not, hm.T either.
func c14RandTypeSpec(c *wk.Case) string {
	kind := func() string { return c14KindNames[c.Rng.Intn(len(c14KindNames))] }
	toks := []string{"types"}
	if c.Rng.Intn(8) != 0 {
		toks = append(toks, "T="+kind())
	}
	if c.Rng.Intn(4) == 0 {
		toks = append(toks, "U="+kind())
	}
	if c.Rng.Intn(5) < 3 {
		toks = append(toks, "hm.T="+kind())
	}
	return strings.Join(toks, " ")
}

// c14DistinctTypeSpecs draws n different specs.
func c14DistinctTypeSpecs(c *wk.Case, n int) []string {
	var specs []string
	seen := map[string]bool{}
	for try := 0; len(specs) < n && try < 50; try++ {
		if s := c14RandTypeSpec(c); !seen[s] {
			seen[s] = true
			specs = append(specs, s)
		}
	}
	return specs
}

// the same programs with the type bound by the script itself (no host preparation):
// different texts, one spelling of the struct type
func c14ScriptTypePrograms() []string {
	vals := []string{"1", "\"s\"", "2.5", "true", "[1]", "{\"a\": 1}", "[]int64{1}", "make(struct{A int64})", "make(struct{A string})"}
	var out []string
	for i, v := range vals {
		out = append(out, fmt.Sprintf("make(type T, %s)\n%s", v, c14TypeTexts[i%6]))
		out = append(out, fmt.Sprintf("module hm { make(type T, %s) }\nrd(\"h\", make(struct{F hm.T}))\nrd(\"a\", []struct{F hm.T}{})\nrd(\"t\", make(struct{F T}) ?? \"no such type\")", v))
		out = append(out, fmt.Sprintf("make(type T, %s)\nmake(type U, %s)\nrd(\"tu\", make(struct{F T, G U}))\nrd(\"ut\", make(struct{F U, G T}))", v, vals[(i+1)%len(vals)]))
	}
	// one environment, the name bound anew between two evaluations of one type expression
	out = append(out, "func mk() { return make(struct{F T}) }\nmake(type T, 1)\na = mk()\nmake(type T, \"s\")\nb = mk()\nrd(\"ab\", [a, b])")
	out = append(out, "func mk() { return make(struct{F T}) }\nmake(type T, \"s\")\na = mk()\nmake(type T, 1)\nb = mk()\nrd(\"ab\", [a, b])")
	out = append(out, "rd(\"none\", make(struct{F T}) ?? \"no such type\")\nmake(type T, 1.5)\nrd(\"some\", make(struct{F T}))")
	return out
}

// ---------------------------------------------------------------------------
// call nesting: script functions that end with an error, and deep (legal) recursion.
// Nothing here says how deep a recursion may go: a run is only ever compared with the
// same program run alone.

// many script-function activations that end with an error (caught further out)
var c14ErrorExitPrograms = []string{
	"func t(n) { if n == 0 { throw \"T1\" }\n return t(n - 1) }\nk = 0\nfor i = 0; i < 150; i++ { try { t(9) } catch e { k++ } }\nrd(\"k\", k)",
	"func bad(a, n) { if n == 0 { return a[5] }\n return bad(a, n - 1) }\nk = 0\nfor i = 0; i < 120; i++ { try { bad([1], 11) } catch e { k++ } }\nrd(\"k\", k)",
	"module em { func boom(n) { if n == 0 { return zz_undefined_name }\n return boom(n - 1) } }\nk = 0\nfor i = 0; i < 100; i++ { try { em.boom(14) } catch e { k++ } }\nrd(\"k\", k)",
	"k = 0\nfor i = 0; i < 400; i++ { try { (func() { throw \"T2\" })() } catch e { k++ } }\nf = func(n) { if n > 3 { throw \"T3\" }\n return n }\nfor i = 0; i < 400; i++ { k += f(i % 4) ?? 100 }\nrd(\"k\", k)",
	"k = 0\nfor i = 0; i < 200; i++ { try { heach([1, 2], func(x) { throw \"T4\" }) } catch e { k++ } }\nfor i = 0; i < 200; i++ { try { hcb(func() { [1][3] }) } catch e { k++ } }\nrd(\"k\", k)",
	"func chk(v) { if v < 0 { throw \"T5\" }\n return v }\nn = 0\nfor i = 0; i < 600; i++ { try { chk(-1) } catch e { n++ } }\nrd(\"n\", chk(41) + n)",
}

// deep recursions; `# env: meet`: at the bottom the concurrent runs of a case wait for each other
func c14DeepRecursion(depth int) []string {
	d := fmt.Sprint(depth)
	h := fmt.Sprint(depth / 2)
	return []string{
		"# env: meet\nfunc down(n) { if n == 0 { meet()\n return 0 }\n return down(n - 1) + 1 }\nrd(\"d\", down(" + d + "))",
		"# env: meet\nvar f = nil\nf = func(n) { if n == 0 { meet()\n return 0 }\n return f(n - 1) + 1 }\nrd(\"d\", f(" + d + "))",
		"# env: meet\nfunc even(n) { if n == 0 { meet()\n return true }\n return odd(n - 1) }\nfunc odd(n) { if n == 0 { meet()\n return false }\n return even(n - 1) }\nrd(\"e\", even(" + d + "))",
		"# env: meet\nmodule dm { func down(n, acc) { if n == 0 { meet()\n return acc }\n return down(n - 1, acc + n) } }\nrd(\"d\", dm.down(" + d + ", 0))",
		"# env: meet\nfunc down(n) { if n == 0 { meet()\n return 0 }\n return down(n - 1) + 1 }\nrd(\"a\", down(" + h + "))\nrd(\"b\", down(" + h + "))",
	}
}

// error exits and a deep recursion in one program: run k of the tree against run 1
var c14ErrorThenDeepPrograms = []string{
	"func t(n) { if n == 0 { throw \"T1\" }\n return t(n - 1) }\nk = 0\nfor i = 0; i < 300; i++ { try { t(10) } catch e { k++ } }\nfunc down(n) { if n == 0 { return 0 }\n return down(n - 1) + 1 }\nrd(\"r\", [k, down(4000)])",
	"func down(n) { if n == 0 { return 0 }\n return down(n - 1) + 1 }\nfunc bad(n) { if n == 0 { return [1][2] }\n return bad(n - 1) }\nrd(\"d\", down(4000))\nk = 0\nfor i = 0; i < 250; i++ { try { bad(15) } catch e { k++ } }\nrd(\"k\", k)",
}

// ---------------------------------------------------------------------------
// equality of a float32 (from a typed literal or the host) with an ordinary script float

var c14Float32Programs = []string{
	"a = []float32{1.5, 1.1, 2.25, 0.1}\nn = 0\nfor i = 0; i < 150; i++ { for v in a { if v == 1.1 { n++ }\n if v != 0.1 { n += 10 }\n if 2.25 == v { n += 100 } } }\nrd(\"n\", n)",
	"a = []float32{1.5, 1.1, 2.25, 0.1}\nn = 0\nfor i = 0; i < 150; i++ { if 1.1 in a { n++ }\n if 0.3 in a { n += 1000 }\n if 0.1 in a { n += 2 } }\nrd(\"n\", n)",
	"a = []float32{1.5, 1.1, 2.25, 0.1}\nn = 0\nfor i = 0; i < 150; i++ { for v in a { switch v { case 1.5: n += 1\ncase 1.1, 7.5: n += 10\ncase 0.1: n += 100\ndefault: n += 1000 } } }\nrd(\"n\", n)",
	"m = map[string]float32{\"a\": 1.1, \"b\": 2.5}\nn = 0\nfor i = 0; i < 200; i++ { if m.a == 1.1 { n++ }\n if m.b != 2.5 { n += 1000 }\n if m[\"a\"] != 1.2 { n += 3 } }\nrd(\"n\", n)",
	"a = [][]float32{{0.1, 0.2}, {0.3}}\nx = 0.1\nn = 0\nfor i = 0; i < 200; i++ { if a[0][0] == x { n++ }\n if a[1][0] == 0.1 + 0.2 { n += 1000 }\n if a[0][1] == x * 2 { n += 7 } }\nrd(\"n\", n)",
	"# env: f32\nn = 0\nfor i = 0; i < 200; i++ { if hf == 1.1 { n++ }\n if hf == hd { n += 10 }\n if hf2 != 0.1 { n += 1000 }\n if hfs[2] == 2.25 { n += 100 } }\nrd(\"n\", n)",
	"# env: f32\nn = 0\nfor i = 0; i < 150; i++ { switch hf { case 0.1: n += 1000\ncase hd: n++ }\n if hd in hfs { n += 10 }\n if hfm.a == hd { n += 100 }\n for v in hfs { if v == hf { n += 5 } } }\nrd(\"n\", n)",
}

// ---------------------------------------------------------------------------
// c14PendingFix_cancelSelectRace: on the unchanged tree a channel operation that is
// ready, evaluated in the statement in which a host function has already cancelled the
// run's context, goes through reflect.Select over ctx.Done() and the channel
// (vm/vmExpr.go invokeChanExpr, vm/vmStmt.go runChanStmt / runForChanStmt); Select picks
// among ready cases at random, so `c = make(chan int64, 1); c <- 7; [hcancel(), <-c][1]`
// yields 7 in about half of the runs and "execution interrupted" in the others — a
// goroutine-free source whose value and error status differ between equal fresh
// environments (see /tmp/strengthen/C14-r4-genuine.md). Until /repo is repaired the
// programs below stay out of the feature list. Flip to false after the repair.
const c14PendingFix_cancelSelectRace = false

var c14CancelSelectPrograms = []string{
	"c = make(chan int64, 1)\nc <- 7\nrd(\"r\", [hcancel(), <-c][1])",
	"c = make(chan int64, 1)\nrd(\"r\", [hcancel(), c <- 7])",
	"c = make(chan string, 2)\nc <- \"a\"\nc <- \"b\"\nrd(\"r\", [<-c, hcancel(), <-c])",
}

// c14PendingFix_addrNilCell: on the unchanged tree (*env.Env).Addr of a name the host
// bound to nil (Define(name, nil)) returns the address of the process-wide env.NilValue
// cell (env/envValues.go Addr); a host that stores through it changes what `nil`, every
// nil-bound name and the value next to "undefined symbol" read as in EVERY environment of
// the process (see /tmp/strengthen/C14-r4-genuine.md). Until /repo is repaired the
// env-API change "api-Addr-store" stays out of phase iso. Flip to false after the repair.
const c14PendingFix_addrNilCell = false

// ---------------------------------------------------------------------------
// envmix: ONE tree, environments of different kinds

// c14RunEnvMix parses a type-dependent text once and runs the tree in environments that
// bind the type names differently — one after the other (seq) or at the same time (conc).
// The reference of a run in an environment of kind K is the text run alone, as the first
// and only program of a fresh child process, in an environment of kind K.
func c14RunEnvMix(c *wk.Case) {
	text := c14TypeTexts[c.Rng.Intn(len(c14TypeTexts))]
	specs := c14DistinctTypeSpecs(c, 2+c.Rng.Intn(3))
	concurrent := c.Phase == "conc"
	nruns := 4 + c.Rng.Intn(3)
	if concurrent {
		nruns = 8
	}
	order := make([]int, nruns)
	for i := range order {
		if i < len(specs) {
			order[i] = i
		} else {
			order[i] = c.Rng.Intn(len(specs))
		}
	}
	var kinds []string
	for _, k := range order {
		kinds = append(kinds, specs[k])
	}
	input := map[string]interface{}{"source": text, "kind": "envmix", "environment-of-run": kinds, "concurrent": concurrent}
	c.Begin(input)
	tree, perr, po := ank.Parse(text)
	if po.Panicked || perr != nil || tree == nil {
		c.Inconclusive("envmix-program-does-not-parse", ank.ErrText(perr), input)
		return
	}
	var solos []string
	for _, s := range specs {
		solos = append(solos, c14SpecPrefix+s+"\n"+text)
	}
	c14SoloAll(c, solos)
	dump0 := astx.Dump(tree, c14DumpOpts)
	obs := make([]c14Obs, nruns)
	if concurrent {
		var wg sync.WaitGroup
		start := make(chan struct{})
		for i := 0; i < nruns; i++ {
			wg.Add(1)
			go func(i int) {
				defer wg.Done()
				<-start
				obs[i] = c14Observe(c14RunTree(tree, specs[order[i]], 4*time.Second, false, nil))
			}(i)
		}
		close(start)
		wg.Wait()
	} else {
		for i := 0; i < nruns; i++ {
			obs[i] = c14Observe(c14RunTree(tree, specs[order[i]], 4*time.Second, true, nil))
		}
	}
	nontrivial := false
	for i, o := range obs {
		solo := c14SoloCache[solos[order[i]]]
		if solo == nil {
			c.Inconclusive("solo-child-failed", "", input)
			return
		}
		if o.timeout || solo.timeout {
			c.Excluded("watchdog")
			return
		}
		if d := solo.diff(o); d != "" {
			c.Violation("run-among-other-environments-differs:"+c.Phase, fmt.Sprintf("run %d of the shared tree, in an environment prepared as `%s`, differs from the same text run alone in such an environment in a fresh process (the other runs of the tree used environments with other type bindings): alone %s", i, specs[order[i]], d), input)
			return
		}
		nontrivial = nontrivial || o.trace != ""
	}
	if d := astx.Dump(tree, c14DumpOpts); d != dump0 {
		c.Violation("tree-mutated:"+firstDiffNode(dump0, d), "the parsed tree differs after runs in environments of different kinds: "+dumpDiff(dump0, d), input)
		return
	}
	c14Canary(c, "envmix runs")
	c.Eval(text+"|"+strings.Join(kinds, "|"), nontrivial)
	c.Events(nruns)
	c.Tag("kind:envmix", "phase:"+c.Phase)
	if c.WantSample() {
		c.Sample(input)
	}
}

// c14IsEnvMix tells which cases of the phases seq and conc are envmix cases.
func c14IsEnvMix(c *wk.Case) bool {
	switch c.Phase {
	case "seq":
		return c.Index >= len(c14Features) && c.Index%37 == 36
	case "conc":
		return c.Index >= len(c14ConcFeatures) && c.Index < c14ConcPrograms(c.Tier) && c.Index%60 == 59
	}
	return false
}
