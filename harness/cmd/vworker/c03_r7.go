package main

// C03 round 7 — a literal denotes what is written EVERY time it is evaluated,
// and the parsed tree keeps spelling its source.
//
// "Literals denote exactly what is written" is a statement about the literal
// node of the tree, not about its first evaluation: the node `41` denotes 41 in
// the second pass of the enclosing loop, in the second call of the enclosing
// function and in the second vm.Run of the same tree just as in the first, and
// no statement of a script - a store through a pointer, an op-assignment, a host
// function that writes through its argument - can make the tree spell another
// source than the one that was parsed. Three observations follow, all of them
// about values the statement fixes:
//
//	(value)  the written value of a tracked literal is handed to the host
//	         function see(tag, v) every time the literal node is evaluated; every
//	         record must hold exactly the Go value the spelling denotes;
//	(tree)   the dump of the parsed tree (node kinds, positions, Literal values
//	         bit for bit) is the same after every run as right after the parse,
//	         also after ANOTHER source has been parsed and run in between;
//	(rerun)  the same tree run again in an equal fresh environment, and the same
//	         source parsed afresh, give the same outcome and the same records.
//
// Workload (phase reeval): programs that evaluate a literal through a carrier
// that passes the value on (bare, parentheses, ?:, ??, element, member, call
// result, *&), take hold of it (address of the carrier; pointer copied, kept in a
// list/map, returned by a function, passed through a host function, pointer to
// the pointer, captured by a closure; or bound: assignment, var, multi-assign,
// parameter, list element, map value, function result), observe it, and then try
// to change it (store, op-assign, ++/--, host function writing through the
// pointer by reflection or through a typed *int64/*float64/*string/*bool/
// *interface{} parameter, script function, closure, swap), inside a vehicle
// that evaluates the same nodes again (loops, functions called repeatedly,
// closures, recursion, module function, try/switch in loops) and under the
// harness running the tree 2..3 times. Tables of 1..300 (thorough ..1500)
// literals cover sizes (array, rows, statements, table of addresses).
//
// The statements around the literals (for, func, try, op-assign ...) are not
// C03's subject: a program the parser rejects is inconclusive, run errors and
// panics are not judged (C01), only the three observations above are.
//
// Also here: c03RerunTree (phases enum/trees: every executed tree is run twice
// more on its parsed tree and dumped again) and c03LongNumeral (phase literals:
// float numerals of 801..3000 characters against an exact big.Rat reference
// built from the drawn digits, not from the spelling).

import (
	"context"
	"fmt"
	"math"
	"math/big"
	"math/rand"
	"reflect"
	"strconv"
	"strings"

	"github.com/mattn/anko/ast"
	"github.com/mattn/anko/env"

	"verifharness/internal/ank"
	"verifharness/internal/astx"
	"verifharness/internal/wk"
)

// ======================================================================
// every executed tree of the phases enum and trees: evaluated again, dumped again

// c03RerunTree: root is the parsed program of the minimal spelling, dump0 its
// dump right after the parse, r1 the classified outcome of vm.Execute on the
// same source. The tree run twice more (vm.RunContext, fresh equal
// environments; all host functions are pure) must give r1 both times and must
// dump as before.
func c03RerunTree(c *wk.Case, root ast.Stmt, dump0, r1 string, cls func(ank.Out) string, posName, label string, input map[string]interface{}) bool {
	for run := 1; run <= 2; run++ {
		o := ank.RunCtx(context.Background(), c03Env(), root)
		c.Events(1)
		if r := cls(o); r != r1 {
			in := map[string]interface{}{"run-of-the-same-tree": run, "first-result": c03Clip(r1), "this-result": c03Clip(r + " " + ank.ErrText(o.Err))}
			for k, v := range input {
				in[k] = v
			}
			c.Violation("value:rerun:"+posName+":"+label, "the parsed tree evaluated again in an equal environment gives another result than vm.Execute of its source", in)
			return false
		}
		if d := astx.Dump(root, astx.Opts{SkipParen: true}); d != dump0 {
			in := map[string]interface{}{"run-of-the-same-tree": run, "dump-after-parse": c03Clip(dump0), "dump-now": c03Clip(d)}
			for k, v := range input {
				in[k] = v
			}
			c.Violation("dump:changed-by-run:"+posName, "running the parsed tree changed it: it no longer dumps as it did after the parse", in)
			return false
		}
	}
	c.Tag("rerun:tree-twice")
	return true
}

// ======================================================================
// phase reeval: literals

type c03RLit struct {
	src string      // spelling
	cls string      // int float string bool nil
	v   interface{} // int64, float64, string, bool or nil: the value the spelling denotes
}

func c03RSame(want, got interface{}) bool {
	switch w := want.(type) {
	case nil:
		return got == nil
	case int64:
		g, ok := got.(int64)
		return ok && g == w
	case float64:
		g, ok := got.(float64)
		return ok && math.Float64bits(g) == math.Float64bits(w)
	case string:
		g, ok := got.(string)
		return ok && g == w
	case bool:
		g, ok := got.(bool)
		return ok && g == w
	}
	return false
}

func c03RShow(v interface{}) string {
	switch x := v.(type) {
	case nil:
		return "nil"
	case int64:
		return "int64(" + strconv.FormatInt(x, 10) + ")"
	case float64:
		return fmt.Sprintf("float64(%s|%016x)", strconv.FormatFloat(x, 'g', -1, 64), math.Float64bits(x))
	case string:
		return "string(" + strconv.Quote(x) + ")"
	case bool:
		return "bool(" + strconv.FormatBool(x) + ")"
	}
	return c03Clip(c03PtrRe.ReplaceAllString(ank.Render(v), "0xPTR"))
}

// c03RDrawLit draws a value and one of its spellings. MinInt64 is not drawn
// (whether -9223372036854775808 is one literal is not fixed by the statement).
func c03RDrawLit(r *rand.Rand) c03RLit {
	neg := func() string { return []string{"-", "-", "- "}[r.Intn(3)] }
	switch x := r.Intn(20); {
	case x < 9:
		var v int64
		switch r.Intn(3) {
		case 0:
			v = c03IntPool[r.Intn(len(c03IntPool))]
		case 1:
			v = int64(r.Intn(100))
		default:
			v = int64(r.Uint64()>>uint(1+r.Intn(63))) & math.MaxInt64
		}
		sp := c03IntSpellings(r, v)
		s := sp[[]string{"dec", "dec", "dec", "hex", "hexX", "bin", "binB", "dec0"}[r.Intn(8)]]
		if r.Intn(3) == 0 {
			return c03RLit{neg() + s, "int", -v}
		}
		return c03RLit{s, "int", v}
	case x < 14:
		var f float64
		switch r.Intn(3) {
		case 0:
			f = c03FloatPool[r.Intn(len(c03FloatPool))]
		case 1:
			f = float64(r.Intn(100000)) / float64(1+r.Intn(1000))
		default:
			f = math.Abs(math.Float64frombits(r.Uint64()))
		}
		if math.IsNaN(f) || math.IsInf(f, 0) {
			f = 2.5
		}
		sp := c03FloatSpellings(r, f)
		keys := []string{"float-e+", "float-E", "float-e", "float-e1", "float-dot", "float-dot", "float-dot0", "float-lead0"}
		s, ok := sp[keys[r.Intn(len(keys))]]
		if !ok {
			s = sp["float-e+"]
		}
		if r.Intn(3) == 0 {
			return c03RLit{neg() + s, "float", -f}
		}
		return c03RLit{s, "float", f}
	case x < 17:
		s := c03DrawString(r)
		switch r.Intn(3) {
		case 0:
			return c03RLit{c03Quote(r, s, '"'), "string", s}
		case 1:
			return c03RLit{c03Quote(r, s, '\''), "string", s}
		}
		if !strings.ContainsAny(s, "`\r") {
			return c03RLit{"`" + s + "`", "string", s}
		}
		return c03RLit{c03Quote(r, s, '"'), "string", s}
	case x < 19:
		b := r.Intn(2) == 0
		return c03RLit{strconv.FormatBool(b), "bool", b}
	}
	return c03RLit{"nil", "nil", nil}
}

// values a program tries to put in the place of a literal
var c03RMutPool = []c03RLit{
	{"7", "int", int64(7)}, {"-3", "int", int64(-3)}, {"0x1f", "int", int64(31)}, {"0", "int", int64(0)}, {"1000000007", "int", int64(1000000007)},
	{"9.5", "float", 9.5}, {"1e2", "float", 100.0}, {"-0.25", "float", -0.25},
	{`"t"`, "string", "t"}, {"`raw`", "string", "raw"}, {`""`, "string", ""},
	{"true", "bool", true}, {"false", "bool", false}, {"nil", "nil", nil},
}

// c03RMut: a value other than l's; three draws in five of l's own class (a typed cell takes no other).
func c03RMut(r *rand.Rand, l c03RLit) c03RLit {
	same := r.Intn(5) < 3 && l.cls != "nil"
	for {
		m := c03RMutPool[r.Intn(len(c03RMutPool))]
		if c03RSame(l.v, m.v) || (same && m.cls != l.cls) {
			continue
		}
		return m
	}
}

// ---- carriers: expressions that hand the value of the literal on ----

var c03RCarriers = []string{"bare", "paren", "paren2", "tern-then", "tern-else", "coalesce-rhs", "coalesce-lhs", "elem", "member", "key", "id-call", "func-call", "deref-addr"}

func c03RCarrier(i int, l c03RLit) (string, string) {
	s := l.src
	if c03RCarriers[i] == "coalesce-lhs" && l.cls == "nil" {
		i = 1 // nil ?? 0 is 0
	}
	switch c03RCarriers[i] {
	case "paren":
		s = "(" + s + ")"
	case "paren2":
		s = "((" + s + "))"
	case "tern-then":
		s = "(true ? " + s + " : 0)"
	case "tern-else":
		s = "(fa ? 0 : " + s + ")"
	case "coalesce-rhs":
		s = "(nil ?? " + s + ")"
	case "coalesce-lhs":
		s = "(" + s + " ?? 0)"
	case "elem":
		s = "[" + s + ", 0][0]"
	case "member":
		s = "{\"a\": " + s + "}.a"
	case "key":
		s = "{\"a\": " + s + "}[\"a\"]"
	case "id-call":
		s = "id(" + s + ")"
	case "func-call":
		s = "func() { return " + s + " }()"
	case "deref-addr":
		s = "*&" + s
	}
	return s, c03RCarriers[i]
}

// ---- program generator ----

type c03RProg struct {
	kind    string
	src     string
	wants   map[int64]c03RLit // see-tag -> the literal whose evaluations it records
	perPass map[int64]int     // see statements per execution of the body
	passes  int               // executions of the body per run
	result  []c03RLit         // tables: the flattened value of the program
	inOrder []c03RLit         // tables: the literal nodes of the tree, in source order
	tags    []string
}

type c03RGen struct {
	r    *rand.Rand
	p    *c03RProg
	next int64
}

func (g *c03RGen) pick(ss ...string) string { return ss[g.r.Intn(len(ss))] }

// track registers a literal and returns its see-tag.
func (g *c03RGen) track(l c03RLit, perPass int) int64 {
	g.next++
	g.p.wants[g.next] = l
	g.p.perPass[g.next] = perPass
	g.p.tags = append(g.p.tags, "lit:"+l.cls)
	return g.next
}

// draw a literal behind a carrier; weight on the forms that hand the literal's own value on
func (g *c03RGen) carried() (c03RLit, string) {
	l := c03RDrawLit(g.r)
	i := g.r.Intn(len(c03RCarriers))
	if g.r.Intn(3) == 0 {
		i = g.r.Intn(3)
	}
	s, name := c03RCarrier(i, l)
	g.p.tags = append(g.p.tags, "carrier:"+name)
	return l, s
}

func c03RNumeric(l c03RLit) bool { return l.cls == "int" || l.cls == "float" }

// mutate: statements that try to change what lv holds. ptr is an expression for
// a pointer to it ("" = &lv).
func (g *c03RGen) mutate(lv, ptr string, l c03RLit, k int64) []string {
	v := c03RMut(g.r, l)
	if ptr == "" {
		ptr = "&" + lv
	}
	par := lv
	if strings.HasPrefix(lv, "*") {
		par = "(" + lv + ")"
	}
	ks := strconv.FormatInt(k, 10)
	m := g.pick("store", "store", "store", "store2", "op-assign", "incdec", "poke", "poke", "poke-typed", "script-func", "closure-store")
	if (m == "op-assign" && !c03RNumeric(l) && l.cls != "string") || (m == "incdec" && !c03RNumeric(l)) {
		m = "store"
	}
	g.p.tags = append(g.p.tags, "mutator:"+m)
	switch m {
	case "store2":
		return []string{lv + " = " + v.src, lv + " = " + c03RMut(g.r, l).src}
	case "op-assign":
		if l.cls == "string" {
			return []string{lv + " += \"x\""}
		}
		if l.cls == "float" {
			return []string{lv + " " + g.pick("+=", "-=", "*=", "/=") + " " + g.pick("3", "2.5", "7")}
		}
		return []string{lv + " " + g.pick("+=", "-=", "*=", "|=", "&=") + " " + g.pick("3", "5", "6")}
	case "incdec":
		return []string{par + g.pick("++", "--")}
	case "poke":
		return []string{"poke(" + ptr + ", " + v.src + ")"}
	case "poke-typed":
		// a host function with a typed pointer parameter; whether the script's pointer is accepted is not judged
		f, arg := "pokeA", v.src
		switch l.cls {
		case "int":
			f, arg = "pokeI", g.pick("7", "-3", "0")
		case "float":
			f, arg = "pokeF", g.pick("9.5", "0.125")
		case "string":
			f, arg = "pokeS", g.pick(`"t"`, `""`)
		case "bool":
			f, arg = "pokeB", strconv.FormatBool(!l.v.(bool))
		}
		return []string{"try {", f + "(" + ptr + ", " + arg + ")", "} catch e {", "}"}
	case "script-func":
		return []string{"lw" + ks + " = func(q) { *q = " + v.src + " }", "lw" + ks + "(" + ptr + ")"}
	case "closure-store":
		return []string{"func() { " + lv + " = " + v.src + " }()"}
	}
	return []string{lv + " = " + v.src}
}

var c03RAccess = []string{"ptr", "ptr", "ptr", "ptr-copy", "ptr-in-list", "ptr-in-map", "ptr-from-func", "ptr-through-id", "ptr-to-ptr", "ptr-closure",
	"assign", "var", "multi-assign", "param", "list-elem", "map-value", "func-result", "addr-of-result", "swap", "wild-expr"}

// unit: take hold of a literal's value, observe it, try to change it.
func (g *c03RGen) unit() []string {
	a := c03RAccess[g.r.Intn(len(c03RAccess))]
	g.p.tags = append(g.p.tags, "access:"+a)
	see := func(k int64, e string) string { return "see(" + strconv.FormatInt(k, 10) + ", " + e + ")" }
	var out []string
	add := func(ss ...string) { out = append(out, ss...) }
	if a == "wild-expr" {
		// the address of any expression (run errors swallowed): judged by the tree and rerun observations only
		eg := &c03Gen{r: g.r, budget: 12}
		e := eg.gen("IIA"[g.r.Intn(3)], 1+g.r.Intn(3))
		c03FixNegBinary(e)
		if !c03ExecSafe(e) {
			e = c03T(c03N("t"), c03IntLit(41), c03N("a"))
		}
		g.next++
		ks := strconv.FormatInt(g.next, 10)
		add("try {", "lp"+ks+" = &("+c03Print(e, c03Min, false, false)+")", "*lp"+ks+" = "+g.pick("7", "9.5", `"t"`, "nil"), "} catch e {", "}")
		return out
	}
	l, cs := g.carried()
	one := 1
	if a == "ptr-from-func" {
		one = 2
	}
	k := g.track(l, one)
	ks := strconv.FormatInt(k, 10)
	lp, lq, lx, ly, ll, lm, lg, lf := "lp"+ks, "lq"+ks, "lx"+ks, "ly"+ks, "ll"+ks, "lm"+ks, "lg"+ks, "lf"+ks
	switch a {
	case "ptr":
		add(lp+" = &"+cs, see(k, "*"+lp))
		add(g.mutate("*"+lp, lp, l, k)...)
	case "ptr-copy":
		add(lp+" = &"+cs, lq+" = "+lp, see(k, "*"+lq))
		add(g.mutate("*"+lq, lq, l, k)...)
	case "ptr-in-list":
		add(ll+" = [&"+cs+"]", see(k, "*"+ll+"[0]"))
		add(g.mutate("*"+ll+"[0]", ll+"[0]", l, k)...)
	case "ptr-in-map":
		add(lm+" = {\"p\": &"+cs+"}", see(k, "*"+lm+".p"))
		add(g.mutate("*"+lm+".p", lm+".p", l, k)...)
	case "ptr-from-func": // the address expression itself is evaluated at every call
		add("func "+lg+"() { return &"+cs+" }", see(k, "*"+lg+"()"))
		add(g.mutate("*"+lg+"()", lg+"()", l, k)...)
		add(see(k, "*"+lg+"()"))
	case "ptr-through-id":
		add(lp+" = id(&"+cs+")", see(k, "*"+lp))
		add(g.mutate("*"+lp, lp, l, k)...)
	case "ptr-to-ptr":
		add(lp+" = &"+cs, lq+" = &"+lp, see(k, "**"+lq))
		add(g.mutate("**"+lq, "*"+lq, l, k)...)
	case "ptr-closure":
		add(lp+" = &"+cs, "func() {", see(k, "*"+lp))
		add(g.mutate("*"+lp, lp, l, k)...)
		add("}()")
	case "assign":
		add(lx+" = "+cs, see(k, lx))
		add(g.mutate(lx, "", l, k)...)
	case "var":
		add("var "+lx+" = "+cs, see(k, lx))
		add(g.mutate(lx, "", l, k)...)
	case "multi-assign":
		l2, cs2 := g.carried()
		k2 := g.track(l2, 1)
		add(lx+", "+ly+" = "+cs+", "+cs2, see(k, lx), see(k2, ly))
		add(g.mutate(lx, "", l, k)...)
		add(g.mutate(ly, "", l2, k2)...)
	case "param":
		add("func "+lf+"(aa) {", see(k, "aa"))
		add(g.mutate("aa", "", l, k)...)
		add("}", lf+"("+cs+")")
	case "list-elem":
		l2, cs2 := g.carried()
		k2 := g.track(l2, 1)
		add(ll+" = ["+cs+", "+cs2+"]", see(k, ll+"[0]"), see(k2, ll+"[1]"))
		add(g.mutate(ll+"[0]", "", l, k)...)
		add(g.mutate(ll+"[1]", "", l2, k2)...)
	case "map-value":
		add(lm+" = {\"a\": "+cs+"}", see(k, lm+".a"))
		add(g.mutate(g.pick(lm+".a", lm+"[\"a\"]"), "", l, k)...)
	case "func-result":
		add("func "+lg+"() { return "+cs+" }", lx+" = "+lg+"()", see(k, lx))
		add(g.mutate(lx, "", l, k)...)
	case "addr-of-result":
		add("func "+lg+"() { return "+cs+" }", lp+" = &"+lg+"()", see(k, "*"+lp))
		add(g.mutate("*"+lp, lp, l, k)...)
	case "swap":
		l2, cs2 := g.carried()
		k2 := g.track(l2, 1)
		add(lp+" = &"+cs, lq+" = &"+cs2, see(k, "*"+lp), see(k2, "*"+lq), "*"+lp+", *"+lq+" = *"+lq+", *"+lp)
	}
	return out
}

var c03RVehicles = []string{"straight", "cfor", "cfor", "for-in", "for-cond", "func-calls", "funcvalue-in-loop", "closures", "recursion", "try-in-loop", "switch-in-loop", "nested-loops", "module-func", "if-in-loop"}

// c03RUnits builds one program of 1..3 units inside a vehicle.
func c03RUnits(r *rand.Rand) *c03RProg {
	p := &c03RProg{kind: "units", wants: map[int64]c03RLit{}, perPass: map[int64]int{}}
	g := &c03RGen{r: r, p: p}
	var body []string
	for i, n := 0, 1+r.Intn(3); i < n; i++ {
		body = append(body, g.unit()...)
	}
	b := strings.Join(body, "\n")
	n := 2 + r.Intn(3)
	ns := strconv.Itoa(n)
	v := c03RVehicles[r.Intn(len(c03RVehicles))]
	p.tags = append(p.tags, "vehicle:"+v)
	p.passes = n
	switch v {
	case "straight":
		p.src, p.passes = b, 1
	case "cfor":
		p.src = "for i = 0; i < " + ns + "; i++ {\n" + b + "\n}"
	case "for-in":
		p.src = "for it in [" + strings.TrimSuffix(strings.Repeat("0, ", n), ", ") + "] {\n" + b + "\n}"
	case "for-cond":
		p.src = "cnt = 0\nfor cnt < " + ns + " {\n" + b + "\ncnt++\n}"
	case "func-calls":
		p.src = "func body() {\n" + b + "\n}\n" + strings.Repeat("body()\n", n)
	case "funcvalue-in-loop":
		p.src = "body = func() {\n" + b + "\n}\nfor i = 0; i < " + ns + "; i++ {\nbody()\n}"
	case "closures":
		p.src, p.passes = "func mk() {\nreturn func() {\n"+b+"\n}\n}\ng1 = mk()\ng1()\ng2 = mk()\ng2()\ng1()", 3
	case "recursion":
		p.src = "func rec(n) {\nif n == 0 {\nreturn 0\n}\n" + b + "\nreturn rec(n - 1)\n}\nrec(" + ns + ")"
	case "try-in-loop":
		p.src = "for i = 0; i < " + ns + "; i++ {\ntry {\n" + b + "\nthrow \"x\"\n} catch e {\n}\n}"
	case "switch-in-loop":
		p.src = "for i = 0; i < " + ns + "; i++ {\nswitch 1 {\ncase 1:\n" + b + "\n}\n}"
	case "nested-loops":
		p.src, p.passes = "for i = 0; i < 2; i++ {\nfor j = 0; j < "+ns+"; j++ {\n"+b+"\n}\n}", 2*n
	case "module-func":
		p.src = "module lmod {\nfunc run() {\n" + b + "\n}\n}\n" + strings.Repeat("lmod.run()\n", n)
	case "if-in-loop":
		p.src = "for i = 0; i < " + ns + "; i++ {\nif i >= 0 {\n" + b + "\n}\n}"
	}
	return p
}

// c03RTable: many literals in one source (sizes; the storage of literal n is not the storage of literal m).
func c03RTable(r *rand.Rand, max int) *c03RProg {
	p := &c03RProg{kind: "table", wants: map[int64]c03RLit{}, perPass: map[int64]int{}, passes: 1}
	n := 1 + r.Intn(max)
	if r.Intn(3) == 0 { // around multiples of 32/64/100
		n = []int{31, 32, 33, 63, 64, 65, 66, 100, 127, 128, 129, 192, 193, 256, 257}[r.Intn(15)]
		if n > max {
			n = max
		}
	}
	lits := make([]c03RLit, n)
	for i := range lits {
		lits[i] = c03RDrawLit(r)
		if r.Intn(4) != 0 && !c03RNumeric(lits[i]) { // mostly numbers
			lits[i] = c03RLit{strconv.Itoa(i + 1), "int", int64(i + 1)}
		}
	}
	layout := []string{"flat", "rows", "see-stmts", "addr-table"}[r.Intn(4)]
	p.tags = append(p.tags, "table:"+layout)
	var b strings.Builder
	switch layout {
	case "flat":
		b.WriteString("[")
		for i, l := range lits {
			if i > 0 {
				b.WriteString([]string{", ", ",", ",\n"}[r.Intn(3)])
			}
			b.WriteString(l.src)
		}
		b.WriteString("]")
		p.result, p.inOrder = lits, lits
	case "rows":
		w := 1 + r.Intn(9)
		b.WriteString("[")
		for i, l := range lits {
			if i%w == 0 {
				if i > 0 {
					b.WriteString("],\n")
				}
				b.WriteString("[")
			} else {
				b.WriteString(", ")
			}
			b.WriteString(l.src)
		}
		b.WriteString("]]")
		p.result, p.inOrder = lits, lits
	case "see-stmts":
		for i, l := range lits {
			k := int64(i + 1)
			p.wants[k], p.perPass[k] = l, 1
			p.inOrder = append(p.inOrder, c03RLit{strconv.FormatInt(k, 10), "int", k}, l)
			b.WriteString("see(" + strconv.FormatInt(k, 10) + ", " + l.src + ")\n")
		}
	case "addr-table": // the addresses of all literals, each read and overwritten, twice over
		if n > 120 {
			n, lits = 120, lits[:120]
		}
		b.WriteString("for pass = 0; pass < 2; pass++ {\nll = [")
		for i, l := range lits {
			if i > 0 {
				b.WriteString(", ")
			}
			b.WriteString("&" + l.src)
			p.wants[int64(i+1)], p.perPass[int64(i+1)] = l, 1
		}
		b.WriteString("]\nfor i = 0; i < len(ll); i++ {\nsee(i + 1, *ll[i])\n*ll[i] = " + []string{"0", "i", "2.5", "\"s\"", "nil"}[r.Intn(5)] + "\n}\n}")
		p.passes = 2
	}
	p.tags = append(p.tags, fmt.Sprintf("table-size:%d+", n/50*50))
	p.src = b.String()
	return p
}

// ---- environment with the recorder and the host functions that write through pointers ----

type c03RRec struct {
	tag int64
	v   interface{}
}

type c03RTrace struct {
	recs []c03RRec
	over bool
}

func (t *c03RTrace) String() string {
	var b strings.Builder
	for _, r := range t.recs {
		b.WriteString(strconv.FormatInt(r.tag, 10) + "=" + c03RShow(r.v) + ";")
	}
	return b.String()
}

// c03RPoke stores v where p points to, converting between the number kinds as a Go function with reflection would.
func c03RPoke(p, v interface{}) {
	rp := reflect.ValueOf(p)
	if rp.Kind() != reflect.Ptr || rp.IsNil() || !rp.Elem().CanSet() {
		return
	}
	el, rv := rp.Elem(), reflect.ValueOf(v)
	switch {
	case !rv.IsValid():
		el.Set(reflect.Zero(el.Type()))
	case rv.Type().AssignableTo(el.Type()):
		el.Set(rv)
	case (rv.Kind() == reflect.Int64 || rv.Kind() == reflect.Float64) && (el.Kind() == reflect.Int64 || el.Kind() == reflect.Float64):
		el.Set(rv.Convert(el.Type()))
	}
}

func c03REnv(tr *c03RTrace) *env.Env {
	e := c03Env()
	e.Define("see", func(k int64, v interface{}) {
		if len(tr.recs) < 50000 {
			tr.recs = append(tr.recs, c03RRec{k, v})
		} else {
			tr.over = true
		}
	})
	e.Define("poke", c03RPoke)
	e.Define("pokeI", func(p *int64, v int64) {
		if p != nil {
			*p = v
		}
	})
	e.Define("pokeF", func(p *float64, v float64) {
		if p != nil {
			*p = v
		}
	})
	e.Define("pokeS", func(p *string, v string) {
		if p != nil {
			*p = v
		}
	})
	e.Define("pokeB", func(p *bool, v bool) {
		if p != nil {
			*p = v
		}
	})
	e.Define("pokeA", func(p *interface{}, v interface{}) {
		if p != nil {
			*p = v
		}
	})
	return e
}

// ---- the monitor ----

type c03RSnap struct {
	dump string
	lits []string
	cls  []string
}

func c03RSnapshot(root ast.Stmt) c03RSnap {
	s := c03RSnap{dump: astx.Dump(root, astx.Opts{Pos: true})}
	for _, l := range c03LitNodes(root) {
		n := c03FromAST(l)
		s.lits = append(s.lits, n.litString())
		s.cls = append(s.cls, map[byte]string{'i': "int", 'f': "float", 's': "string", 'b': "bool", 'n': "nil"}[n.lk])
	}
	return s
}

// diff: "" when equal; otherwise what changed (signature part) and a description
func (s c03RSnap) diff(now c03RSnap) (string, string) {
	if len(s.lits) == len(now.lits) {
		for i := range s.lits {
			if s.lits[i] != now.lits[i] {
				return "literal-" + s.cls[i], fmt.Sprintf("literal node #%d (source order) was %s after the parse and is %s now", i, c03Clip(s.lits[i]), c03Clip(now.lits[i]))
			}
		}
	}
	if s.dump != now.dump {
		return "structure", "the dump of the tree differs"
	}
	return "", ""
}

func c03ROutcome(o ank.Out) string {
	switch {
	case o.Panicked:
		return "panic " + o.PanicSig
	case o.Err != nil:
		return "error " + c03PtrRe.ReplaceAllString(ank.ErrText(o.Err), "0xPTR")
	}
	return "value " + c03PtrRe.ReplaceAllString(ank.Render(o.Val), "0xPTR")
}

type c03RDone struct {
	p       *c03RProg
	root    ast.Stmt
	snap    c03RSnap
	outcome string
	trace   string
}

func c03RFlatten(v interface{}, out []interface{}) []interface{} {
	if l, ok := v.([]interface{}); ok {
		for _, x := range l {
			out = c03RFlatten(x, out)
		}
		return out
	}
	return append(out, v)
}

// c03RCheck runs one program under the three observations. It returns what a later
// re-check of the same tree needs (nil when the program gave a verdict already).
func c03RCheck(c *wk.Case, p *c03RProg, runs int) *c03RDone {
	input := map[string]interface{}{"kind": p.kind, "src": c03Clip(p.src), "shape": strings.Join(p.tags, " ")}
	if len(p.src) > 600 {
		input["src_full"] = p.src
	}
	c.Begin(input)
	c.Eval("reeval\x00"+p.src, true)
	if c.WantSample() {
		c.Sample(input)
	}
	root, err, po := ank.Parse(p.src)
	c.Events(1)
	if po.Panicked {
		c.Violation("reeval:parse-panic:"+po.PanicSig, "parser panicked: "+po.PanicVal, input)
		return nil
	}
	if err != nil {
		// the statements around the literals are not C03's subject
		c.Inconclusive("reeval-program-rejected", "the generated program does not parse: "+err.Error(), input)
		return nil
	}
	for _, t := range p.tags {
		c.Tag("reeval:" + t)
	}
	snap := c03RSnapshot(root)
	if p.inOrder != nil {
		lits := c03LitNodes(root)
		if len(lits) != len(p.inOrder) {
			c.Violation("reeval:table-nodes", fmt.Sprintf("%d literals written, %d LiteralExpr nodes in the tree", len(p.inOrder), len(lits)), input)
			return nil
		}
		for i, l := range lits {
			if !l.Literal.IsValid() || !c03RSame(p.inOrder[i].v, l.Literal.Interface()) {
				in := map[string]interface{}{"literal#": i, "spelling": p.inOrder[i].src, "want": c03RShow(p.inOrder[i].v), "got": snap.lits[i]}
				for k, v := range input {
					in[k] = v
				}
				c.Violation("reeval:table-literal:"+p.inOrder[i].cls, "literal of a table parsed to another value than written", in)
				return nil
			}
		}
	}
	done := &c03RDone{p: p, root: root, snap: snap}
	for run := 0; run <= runs; run++ {
		tr := &c03RTrace{}
		var o ank.Out
		how := "vm.RunContext on the parsed tree, run " + strconv.Itoa(run+1)
		if run < runs {
			o = ank.RunCtx(context.Background(), c03REnv(tr), root)
		} else {
			how = "vm.Execute on the source (fresh parse)"
			o = ank.Exec(c03REnv(tr), p.src)
		}
		c.Events(1 + len(tr.recs))
		with := func(m map[string]interface{}) map[string]interface{} {
			m["how"] = how
			for k, v := range input {
				m[k] = v
			}
			return m
		}
		// (value) every evaluation of a tracked literal yields what is written
		seen := map[int64]int{}
		for _, rec := range tr.recs {
			l, ok := p.wants[rec.tag]
			if !ok {
				continue
			}
			seen[rec.tag]++
			if !c03RSame(l.v, rec.v) {
				c.Violation("reeval:literal-revalued:"+l.cls,
					fmt.Sprintf("evaluation #%d of the literal %s gave %s, written is %s", seen[rec.tag], c03Clip(l.src), c03RShow(rec.v), c03RShow(l.v)),
					with(map[string]interface{}{"literal": c03Clip(l.src), "want": c03RShow(l.v), "got": c03RShow(rec.v), "evaluation": seen[rec.tag], "result": c03Clip(c03ROutcome(o))}))
				return nil
			}
		}
		outcome, trace := c03ROutcome(o), tr.String()
		if o.Panicked {
			c.Tag("reeval:run-panic(not judged)")
		} else if o.Err != nil {
			c.Tag("reeval:run-error(not judged)")
		} else {
			c.Tag("reeval:run-ok")
			for k, per := range p.perPass {
				if seen[k] != per*p.passes && !tr.over {
					c.Inconclusive("reeval-see-count", fmt.Sprintf("literal %d was recorded %d times in a run without error, the program evaluates it %d times", k, seen[k], per*p.passes),
						with(map[string]interface{}{"trace": c03Clip(trace)}))
					return nil
				}
			}
			if p.result != nil {
				got := c03RFlatten(o.Val, nil)
				bad := -1
				if len(got) != len(p.result) {
					bad = 0
				}
				for i := 0; bad < 0 && i < len(got); i++ {
					if !c03RSame(p.result[i].v, got[i]) {
						bad = i
					}
				}
				if bad >= 0 && bad < len(p.result) {
					g := "(missing)"
					if bad < len(got) {
						g = c03RShow(got[bad])
					}
					c.Violation("reeval:table-value:"+p.result[bad].cls, fmt.Sprintf("element %d of a list of literals is %s, written is %s (%d elements, %d written)", bad, g, c03RShow(p.result[bad].v), len(got), len(p.result)),
						with(map[string]interface{}{"element": bad, "spelling": c03Clip(p.result[bad].src)}))
					return nil
				}
			}
		}
		// (tree) the tree still spells the source
		if what, descr := snap.diff(c03RSnapshot(root)); what != "" {
			c.Violation("reeval:tree-changed:"+what, "running the program changed its parsed tree: "+descr, with(map[string]interface{}{"change": descr}))
			return nil
		}
		// (rerun) the same tree again, and the source parsed afresh: the same outcome and records
		if run == 0 {
			done.outcome, done.trace = outcome, trace
		} else if outcome != done.outcome || trace != done.trace {
			what := "records"
			if outcome != done.outcome {
				what = "outcome"
			}
			sig := "reeval:rerun-differs:" + what
			if run == runs {
				sig = "reeval:fresh-parse-differs:" + what
			}
			c.Violation(sig, "the same program in an equal fresh environment gives other "+what+" than its first run",
				with(map[string]interface{}{"first-outcome": c03Clip(done.outcome), "this-outcome": c03Clip(outcome), "first-records": c03Clip(done.trace), "these-records": c03Clip(trace)}))
			return nil
		}
	}
	return done
}

// c03RAgain: a tree checked earlier, after other sources have been parsed and run: it still dumps as after its parse and runs as it did.
func c03RAgain(c *wk.Case, d *c03RDone, between string) {
	input := map[string]interface{}{"kind": d.p.kind, "src": c03Clip(d.p.src), "parsed-and-run-in-between": c03Clip(between)}
	c.Begin(input)
	if what, descr := d.snap.diff(c03RSnapshot(d.root)); what != "" {
		input["change"] = descr
		c.Violation("reeval:tree-changed-by-other-source:"+what, "a parsed tree changed while another source was parsed and run: "+descr, input)
		return
	}
	tr := &c03RTrace{}
	o := ank.RunCtx(context.Background(), c03REnv(tr), d.root)
	c.Events(1 + len(tr.recs))
	if outcome, trace := c03ROutcome(o), tr.String(); outcome != d.outcome || trace != d.trace {
		input["first-outcome"], input["this-outcome"], input["first-records"], input["these-records"] = c03Clip(d.outcome), c03Clip(outcome), c03Clip(d.trace), c03Clip(trace)
		c.Violation("reeval:rerun-differs:after-other-source", "a parsed tree runs differently after another source has been parsed and run", input)
		return
	}
	c.Tag("reeval:again-after-other-source")
}

// the values that are one per process: seen through a fresh parse at the end of every case
func c03RCanary(c *wk.Case) {
	p := &c03RProg{kind: "canary", wants: map[int64]c03RLit{}, perPass: map[int64]int{}, passes: 1}
	var b strings.Builder
	for i, l := range []c03RLit{{"true", "bool", true}, {"false", "bool", false}, {"nil", "nil", nil}, {"0", "int", int64(0)}, {"1", "int", int64(1)}, {"41", "int", int64(41)},
		{"0.0", "float", 0.0}, {"2.5", "float", 2.5}, {`""`, "string", ""}, {`"s"`, "string", "s"}} {
		k := int64(i + 1)
		p.wants[k], p.perPass[k] = l, 2
		b.WriteString(fmt.Sprintf("see(%d, %s)\nsee(%d, *&%s)\n", k, l.src, k, l.src))
	}
	b.WriteString("cx = 5\ncx++\nsee(90, cx)\ncx--\ncx--\nsee(91, cx)\n") // x++ is x + 1: the one that is added is written nowhere, it must stay 1
	p.wants[90], p.perPass[90] = c03RLit{"5 + 1", "int", int64(6)}, 1
	p.wants[91], p.perPass[91] = c03RLit{"5 + 1 - 1 - 1", "int", int64(4)}, 1
	p.src = b.String()
	c03RCheck(c, p, 1)
}

func c03ReevalCase(c *wk.Case) {
	per, tables, max := 40, 3, 300
	if c.Tier == "thorough" {
		per, tables, max = 60, 4, 1500
	}
	var prev *c03RDone
	for k := 0; k < per+tables; k++ {
		var p *c03RProg
		if k < per {
			p = c03RUnits(c.Rng)
		} else {
			p = c03RTable(c.Rng, max)
		}
		d := c03RCheck(c, p, 2+c.Rng.Intn(2))
		if prev != nil && d != nil {
			c03RAgain(c, prev, p.src)
		}
		prev = d
	}
	c03RCanary(c)
}

// ======================================================================
// phase literals: float numerals of 801..3000 characters
//
// A numeral is drawn as (digit string, position of the dot or none, exponent);
// its exact value is digits x 10^(exponent - digits behind the dot), built here
// with big.Int arithmetic from the drawn parts - not parsed back from the
// spelling - and rounded once to float64 by big.Rat.Float64 (round to nearest
// even, documented exact). Magnitudes 1e-300..1e305 must parse to precisely
// that float64; magnitudes from 1e311 are not representable and must be
// rejected. The thin band around MaxFloat64 and everything below 1e-300 (float
// underflow: unspecified, see Assumptions) are not drawn. A numeral without dot
// and exponent is an integer: with more than 800 digits it is out of int64's
// range whatever its digits are (leading zeros aside).

// c03PendingFix_LongNegZero: `-0.000…0` spelled with more than 800 characters
// was +0 (sign bit clear) while the same numeral in up to 800 characters (`-0.0`,
// 700 zeros) is -0, as the negative-literal oracle demands ("-"+spelling denotes
// -v, bit for bit): the repair of a7b8f21 replaced the float of a long numeral
// by big.Rat.Float64 of its exact value, and a big.Rat has no negative zero.
// Reported in /tmp/hw-C03/GENUINE.md (item 1), repaired in /repo as 6ccc49e: the
// constant is false, long numerals whose digits are all zero are negated too.
const c03PendingFix_LongNegZero = false

func c03LongDigits(r *rand.Rand, n int) string {
	b := make([]byte, n)
	switch r.Intn(6) {
	case 0: // 1 and zeros: the scale is all there is
		for i := range b {
			b[i] = '0'
		}
		b[0] = '1'
	case 1: // nines: every carry propagates
		for i := range b {
			b[i] = '9'
		}
	case 2: // a few significant digits, zeros, and a last digit that decides a tie
		for i := range b {
			b[i] = '0'
		}
		for i := 0; i < 20 && i < n; i++ {
			b[i] = byte('0' + r.Intn(10))
		}
		b[n-1] = byte('0' + r.Intn(10))
	case 3: // exactly half-way between two floats in the first 17 digits (2^53+1), then zeros and a tail
		for i := range b {
			b[i] = '0'
		}
		copy(b, "9007199254740993")
		if r.Intn(2) == 0 {
			b[n-1] = '1'
		}
	default:
		for i := range b {
			b[i] = byte('0' + r.Intn(10))
		}
	}
	if b[0] == '0' && r.Intn(4) != 0 {
		b[0] = byte('1' + r.Intn(9))
	}
	return string(b)
}

// c03LongNumeral checks one drawn numeral (shape < 0: drawn shape).
func c03LongNumeral(c *wk.Case, r *rand.Rand, shape int) {
	if shape < 0 {
		shape = r.Intn(8)
	}
	total := 801 + r.Intn(2200)
	if r.Intn(4) == 0 {
		total = 801 + r.Intn(12) // just over the 800 that strconv keeps
	}
	lead := ""
	if shape == 6 { // zeros in front take the length, the digits are few
		lead = strings.Repeat("0", total-40)
		total = 40
	}
	nd := total - 8
	if nd < 10 {
		nd = 10
	}
	ds := c03LongDigits(r, nd)
	dp := -1 // digits before the dot; -1: no dot
	switch shape {
	case 0, 1: // integer digits and an exponent
	case 2: // dot near the front
		dp = 1 + r.Intn(3)
	case 3: // dot in the middle
		dp = 1 + r.Intn(nd-1)
	case 4: // dot near the end (more than 800 digits in front of it)
		dp = nd - 1 - r.Intn(3)
	case 5: // 0.000…ddd
		z := r.Intn(nd - 5)
		ds = "0" + strings.Repeat("0", z) + ds[z+1:]
		dp = 1
	case 6:
		dp = 1 + r.Intn(nd-1)
	case 7: // an integer numeral: no dot, no exponent
	}
	if dp >= nd {
		dp = nd - 1
	}
	m, _ := new(big.Int).SetString(ds, 10)
	sig := len(strings.TrimLeft(ds, "0"))
	if shape == 7 {
		s := lead + ds
		if m.IsInt64() { // only zeros and a short tail: representable after all
			c03LitMust(c, "dec-long", s, c03Want{kind: 'i', i: m.Int64()}, r.Intn(len(c03LitCtx)))
		} else {
			c03LitReject(c, "out-of-range-dec-long", s, r.Intn(len(c03LitCtx)))
		}
		return
	}
	frac := 0
	if dp >= 0 {
		frac = nd - dp
	}
	// decimal magnitude wanted: the value is about 10^mag
	reject := r.Intn(6) == 0
	mag := r.Intn(606) - 300
	if reject {
		mag = 311 + r.Intn(1500)
	}
	if m.Sign() == 0 {
		sig, reject = 1, false
	}
	e := mag - sig + frac
	if dp >= 0 && r.Intn(5) == 0 && !reject { // no exponent at all: the dot alone
		e = 0
	}
	scale := e - frac
	val := new(big.Rat).SetInt(m)
	p10 := new(big.Int).Exp(big.NewInt(10), big.NewInt(int64(c03Abs(scale))), nil)
	if scale >= 0 {
		val.Mul(val, new(big.Rat).SetInt(p10))
	} else {
		val.Quo(val, new(big.Rat).SetInt(p10))
	}
	f, _ := val.Float64()
	s := lead + ds
	if dp >= 0 {
		s = lead + ds[:dp] + "." + ds[dp:]
	}
	if e != 0 || dp < 0 {
		es := strconv.Itoa(e)
		if e >= 0 && r.Intn(2) == 0 {
			es = "+" + es
		}
		s += []string{"e", "E"}[r.Intn(2)] + es
	}
	ctx := r.Intn(len(c03LitCtx))
	switch {
	case math.IsInf(f, 0):
		if val.Cmp(new(big.Rat).SetInt(new(big.Int).Exp(big.NewInt(10), big.NewInt(310), nil))) < 0 {
			return // the band around MaxFloat64 is not drawn
		}
		c03LitReject(c, "out-of-range-float-long", s, ctx)
	case m.Sign() != 0 && f < 1e-300:
		return // float underflow: unspecified
	case r.Intn(4) == 0 && !(c03PendingFix_LongNegZero && m.Sign() == 0):
		c03LitNeg(c, "neg-float-long", s, c03Want{kind: 'f', f: f}, []string{"", " "}[r.Intn(2)], false)
	default:
		c03LitMust(c, "float-long", s, c03Want{kind: 'f', f: f}, ctx)
	}
}

func c03Abs(x int) int {
	if x < 0 {
		return -x
	}
	return x
}

// c03LongNumerals: n drawn numerals; fixed: every shape twice first.
func c03LongNumerals(c *wk.Case, r *rand.Rand, n int, fixed bool) {
	if fixed {
		for shape := 0; shape < 8; shape++ {
			c03LongNumeral(c, r, shape)
			c03LongNumeral(c, r, shape)
		}
		// the repaired case and its neighbours, spelled out
		for _, f := range []struct {
			s string
			f float64
		}{
			{"1" + strings.Repeat("0", 899) + "e-890", 1e9},
			{"1" + strings.Repeat("0", 800) + "e-800", 1},
			{"1" + strings.Repeat("0", 799) + "e-799", 1},
			{"1" + strings.Repeat("0", 2990) + "E-2990", 1},
			{"25" + strings.Repeat("0", 1000) + ".0e-1001", 2.5},
			{"1" + strings.Repeat("0", 850) + "." + strings.Repeat("0", 10) + "e-700", 1e150},
			{strings.Repeat("0", 900) + "1.5", 1.5},
			{"0." + strings.Repeat("0", 900) + "1e+901", 1},
			{"1." + strings.Repeat("0", 900) + "e0", 1},
			{"0." + strings.Repeat("9", 900), 1},
			{"9007199254740993" + strings.Repeat("0", 900) + "e-900", 9007199254740992},
			{"9007199254740993" + strings.Repeat("0", 899) + "1e-900", 9007199254740994},
			{"9007199254740993." + strings.Repeat("0", 899) + "1", 9007199254740994},
			{"0." + strings.Repeat("0", 900), 0}, // negated below: -0, as `-0.0` (c03PendingFix_LongNegZero)
			{strings.Repeat("0", 850) + ".0e5", 0},
		} {
			if c03PendingFix_LongNegZero && f.f == 0 {
				continue
			}
			c03LitMust(c, "float-long-fixed", f.s, c03Want{kind: 'f', f: f.f}, r.Intn(len(c03LitCtx)))
			c03LitNeg(c, "neg-float-long", f.s, c03Want{kind: 'f', f: f.f}, "", false)
		}
		for _, s := range []string{"1" + strings.Repeat("0", 899) + ".0", "1" + strings.Repeat("0", 899) + "e0", "1" + strings.Repeat("0", 899) + "e-500",
			"1" + strings.Repeat("0", 1200) + "e-800", "9" + strings.Repeat("9", 2000) + "E-1600", "1" + strings.Repeat("0", 900), strings.Repeat("9", 801)} {
			c03LitReject(c, "out-of-range-long", s, r.Intn(len(c03LitCtx)))
		}
	}
	for i := 0; i < n; i++ {
		c03LongNumeral(c, r, -1)
	}
}
