package main

// C03 — the parser builds the tree the source spells out.
//
// Monitor. An expression tree T is drawn in a small IR. Two printers written
// from the property's operator table (not from the grammar) spell it:
// minimal(T) with only the parentheses the table requires, full(T) with every
// implied parenthesis explicit. Every spelling is parsed by the real parser;
// the parsed tree is converted back to the IR shape (parentheses and positions
// ignored) and must equal T; the spellings must also dump identically
// (astx.Dump, SkipParen) and evaluate to the same value in equal environments.
// Literals: a Go value is drawn, spelled in every form the lexer documents,
// parsed, and LiteralExpr.Literal compared bit-for-bit.
//
// Sections: IR, printers, AST->IR conversion and structural diff; environment,
// statement positions and the per-tree oracle; exhaustive enumeration and the
// random generator; literal spellings; plan and case dispatch. c03_r6.go: rejected
// spellings through vm.Execute. c03_r7.go: literals evaluated again (phase
// reeval), every executed tree run again, numerals of more than 800 characters.

import (
	"context"
	"errors"
	"fmt"
	"math"
	"math/big"
	"math/rand"
	"regexp"
	"runtime/debug"
	"sort"
	"strconv"
	"strings"
	"unicode/utf8"

	"github.com/mattn/anko/ast"
	"github.com/mattn/anko/env"
	"github.com/mattn/anko/parser"

	"verifharness/internal/ank"
	"verifharness/internal/astx"
	"verifharness/internal/fw"
	"verifharness/internal/wk"
)

type c03Kind uint8

const (
	c03Lit c03Kind = iota
	c03Name
	c03Call  // op(args...) — call of a named function (a primary)
	c03Bin   // kids[0] op kids[1]; op includes "in" and "??"
	c03Tern  // kids[0] ? kids[1] : kids[2]
	c03Un    // op kids[0]; op in - ! ^ & *
	c03ACall // kids[0](kids[1:]...)
	c03Idx   // kids[0][kids[1]]
	c03Slice // kids[0][kids[1]:kids[2](:kids[3])]; bounds may be nil
	c03Mem   // kids[0].op
	c03Arr   // [kids...]
	c03Map   // {kids[0]: kids[1], ...}
	c03Func  // func(op){ return kids[0] }
	c03Unknown
)

type c03Node struct {
	k    c03Kind
	op   string
	kids []*c03Node
	lk   byte // literal kind: 'i' 'f' 's' 'b' 'n', '?' other
	li   int64
	lf   float64
	ls   string
	lb   bool
	src  string // literal spelling
}

// The operator table of the property, loosest (1) to tightest.
var c03BinOps = []string{"??", "||", "&&", "==", "!=", "<", "<=", ">", ">=", "+", "-", "|", "*", "/", "%", "<<", ">>", "&", "in"}
var c03UnOps = []string{"-", "!", "^", "&", "*"}

func c03BinLevel(op string) int {
	switch op {
	case "??":
		return 1
	case "||":
		return 2
	case "&&":
		return 3
	case "==", "!=", "<", "<=", ">", ">=":
		return 4
	case "+", "-", "|":
		return 5
	case "*", "/", "%", "<<", ">>", "&":
		return 6
	case "in":
		return 7
	}
	return 0
}

func (n *c03Node) level() int {
	switch n.k {
	case c03Bin:
		return c03BinLevel(n.op)
	case c03Tern:
		return 1
	case c03Un:
		return 8
	case c03ACall, c03Idx, c03Slice, c03Mem:
		return 9
	}
	return 10
}

func (n *c03Node) isOp() bool { return n.level() < 10 }

func (n *c03Node) isNum() bool { return n.k == c03Lit && (n.lk == 'i' || n.lk == 'f') }

func (n *c03Node) countOps() int {
	if n == nil {
		return 0
	}
	c := 0
	if n.isOp() {
		c = 1
	}
	for _, k := range n.kids {
		c += k.countOps()
	}
	return c
}

func (n *c03Node) depth() int {
	if n == nil {
		return 0
	}
	d := 0
	for _, k := range n.kids {
		if x := k.depth(); x > d {
			d = x
		}
	}
	return d + 1
}

func (n *c03Node) walk(f func(*c03Node)) {
	if n == nil {
		return
	}
	f(n)
	for _, k := range n.kids {
		k.walk(f)
	}
}

// ---- printers ----

const (
	c03Min     = 0 // only the parentheses the table requires
	c03Full    = 1 // every operator application parenthesised
	c03FullAll = 2 // every sub-expression, leaves included, parenthesised
)

type c03Tok struct {
	s      string
	sb, sa bool // wants a space before / after in spaced layout
}

type c03Printer struct {
	toks []c03Tok
	mode int
}

func (p *c03Printer) e(s string)  { p.toks = append(p.toks, c03Tok{s: s}) }
func (p *c03Printer) es(s string) { p.toks = append(p.toks, c03Tok{s: s, sb: true, sa: true}) }
func (p *c03Printer) ea(s string) { p.toks = append(p.toks, c03Tok{s: s, sa: true}) }

func (p *c03Printer) sub(n *c03Node, need bool) {
	wrap := need
	if p.mode >= c03Full && n.isOp() {
		wrap = true
	}
	if p.mode == c03FullAll {
		wrap = true
	}
	if wrap {
		p.e("(")
		p.node(n)
		p.e(")")
	} else {
		p.node(n)
	}
}

func (p *c03Printer) list(ns []*c03Node) {
	for i, a := range ns {
		if i > 0 {
			p.ea(",")
		}
		p.sub(a, false)
	}
}

// c03PendingFix_InRightAssoc: the statement puts `in` into the operator table
// and says "binary operators left-associative" (only `?:` and `??` are named
// right-associative), so `a in xs in ys` spells (a in xs) in ys. On the
// unchanged tree the grammar declares `%right IN` and builds a in (xs in ys)
// (always a run error: the inner `in` yields a bool, which is no list).
// Reported in /tmp/strengthen/C03-r4-genuine.md (item 1). While the constant is
// true an `in` expression that is an operand of `in` is spelled in parentheses
// on both sides, as it always was; set it to false once /repo is repaired
// (`%left IN`): the left operand is then spelled bare in the minimal spellings
// (all 2- and 3-operator trees of phase enum hold every such chain) and must
// parse to the left-associative tree.
const c03PendingFix_InRightAssoc = false

// c03PendingFix_NegNumPostfix: on the unchanged tree `-5[0]` parses to
// (-5)[0]: the production `expr_literals: '-' NUMBER` is reduced before the
// postfix operator is looked at, although the table puts postfix tighter than
// unary minus (`-"abc"[0]`, `-a[0]`, `!5[0]` do parse to op(x[0])). Reported in
// /tmp/strengthen/C03-genuine.md (item 2). While the constant is true a numeric
// literal that is the base of a postfix form is spelled in parentheses, as it
// always was; set it to false once /repo is repaired: `5[0]`, `-5(2)`,
// `-0xe[1:2]` are then spelled bare and must parse to the table's tree.
const c03PendingFix_NegNumPostfix = false

// c03HasChainedIn: the tree holds an `in` whose left operand is an `in` (written without parentheses: `a in b in c`).
func c03HasChainedIn(n *c03Node) bool {
	if n == nil {
		return false
	}
	if n.k == c03Bin && n.op == "in" && len(n.kids) == 2 && n.kids[0] != nil && n.kids[0].k == c03Bin && n.kids[0].op == "in" {
		return true
	}
	for _, k := range n.kids {
		if c03HasChainedIn(k) {
			return true
		}
	}
	return false
}

// c03HasNegNumPostfix: the tree holds a unary minus applied to a postfix chain
// (call, index, slice, member) whose innermost base is a numeric literal.
func c03HasNegNumPostfix(n *c03Node) bool {
	if n == nil {
		return false
	}
	if n.k == c03Un && n.op == "-" && len(n.kids) == 1 {
		b := n.kids[0]
		depth := 0
		for b != nil && (b.k == c03ACall || b.k == c03Idx || b.k == c03Slice || b.k == c03Mem) && len(b.kids) > 0 {
			b = b.kids[0]
			depth++
		}
		if depth > 0 && b != nil && b.isNum() {
			return true
		}
	}
	for _, k := range n.kids {
		if c03HasNegNumPostfix(k) {
			return true
		}
	}
	return false
}

// base of a postfix form: anything looser than postfix needs parentheses; a
// numeric literal before `.name` is always parenthesised (`5.x` is number
// scanning: the lexer takes `5.` as the beginning of a float, the statement
// fixes no token boundary there; `f(1...)` likewise); a bare name as the callee
// of the postfix-call form must be parenthesised or it would spell the named
// call.
func (p *c03Printer) base(n *c03Node, call, member bool) {
	need := n.level() < 9 || (call && n.k == c03Name)
	if n.isNum() && (member || c03PendingFix_NegNumPostfix) {
		need = true
	}
	p.sub(n, need)
}

func (p *c03Printer) node(n *c03Node) {
	switch n.k {
	case c03Lit:
		p.e(n.src)
	case c03Name:
		p.e(n.op)
	case c03Call:
		p.e(n.op)
		p.e("(")
		p.list(n.kids)
		p.e(")")
	case c03Bin:
		L := c03BinLevel(n.op)
		l, r := n.kids[0], n.kids[1]
		var nl, nr bool
		switch n.op {
		case "??": // right-associative, same level as ?:
			nl, nr = l.level() <= 1, false
		case "in":
			if c03PendingFix_InRightAssoc { // an `in` operand of `in` is always parenthesised
				nl, nr = l.level() <= L, r.level() <= L
			} else { // left-associative like every binary operator but ??
				nl, nr = l.level() < L, r.level() <= L
			}
		default: // left-associative
			nl, nr = l.level() < L, r.level() <= L
		}
		p.sub(l, nl)
		p.es(n.op)
		p.sub(r, nr)
	case c03Tern:
		p.sub(n.kids[0], n.kids[0].level() <= 1)
		p.es("?")
		p.sub(n.kids[1], false) // delimited by ? and :
		p.es(":")
		p.sub(n.kids[2], false) // right-associative, loosest level
	case c03Un:
		p.e(n.op)
		p.sub(n.kids[0], n.kids[0].level() < 8)
	case c03ACall:
		p.base(n.kids[0], true, false)
		p.e("(")
		p.list(n.kids[1:])
		p.e(")")
	case c03Idx:
		p.base(n.kids[0], false, false)
		p.e("[")
		p.sub(n.kids[1], false)
		p.e("]")
	case c03Slice:
		p.base(n.kids[0], false, false)
		p.e("[")
		if n.kids[1] != nil {
			p.sub(n.kids[1], false)
		}
		p.e(":")
		if n.kids[2] != nil {
			p.sub(n.kids[2], false)
		}
		if n.kids[3] != nil {
			p.e(":")
			p.sub(n.kids[3], false)
		}
		p.e("]")
	case c03Mem:
		p.base(n.kids[0], false, true)
		p.e(".")
		p.e(n.op)
	case c03Arr:
		p.e("[")
		p.list(n.kids)
		p.e("]")
	case c03Map:
		p.e("{")
		for i := 0; i+1 < len(n.kids); i += 2 {
			if i > 0 {
				p.ea(",")
			}
			p.sub(n.kids[i], false)
			p.ea(":")
			p.sub(n.kids[i+1], false)
		}
		p.e("}")
	case c03Func:
		p.e("func")
		p.e("(")
		p.e(n.op)
		p.e(")")
		p.ea("{")
		p.ea("return")
		p.sub(n.kids[0], false)
		p.e(" }")
	}
}

func c03IsOpch(c byte) bool { return strings.IndexByte("=!<>&|?+-*/.:", c) >= 0 }
func c03IsWord(c byte) bool {
	return c == '_' || (c >= '0' && c <= '9') || (c >= 'a' && c <= 'z') || (c >= 'A' && c <= 'Z') || c >= 0x80
}

// join lays the tokens out. Two adjacent tokens are always separated when
// gluing them could form another token (`- -`, `& &`, `/ *`, `< -`, `5 in`).
func c03Join(toks []c03Tok, tight bool) string {
	var b strings.Builder
	for i, t := range toks {
		if i > 0 {
			pr := toks[i-1]
			la, fb := pr.s[len(pr.s)-1], t.s[0]
			merge := (c03IsOpch(la) && c03IsOpch(fb)) || (c03IsWord(la) && c03IsWord(fb))
			if merge || (!tight && (pr.sa || t.sb)) {
				b.WriteByte(' ')
			}
		}
		b.WriteString(t.s)
	}
	return b.String()
}

// c03Print spells T. rootParen forces parentheses around the whole expression
// (used where a statement position is itself ambiguous, see c03Positions).
func c03Print(n *c03Node, mode int, tight, rootParen bool) string {
	p := &c03Printer{mode: mode}
	p.sub(n, rootParen)
	return c03Join(p.toks, tight)
}

// c03PrintBareRoot: as c03Print, but the complete expression itself is never wrapped.
func c03PrintBareRoot(n *c03Node, mode int, tight bool) string {
	p := &c03Printer{mode: mode}
	p.node(n)
	return c03Join(p.toks, tight)
}

// ---- canonical form / diff ----

func (n *c03Node) litString() string {
	switch n.lk {
	case 'i':
		return "i:" + strconv.FormatInt(n.li, 10)
	case 'f':
		return "f:" + strconv.FormatFloat(n.lf, 'g', -1, 64) + "|" + strconv.FormatUint(math.Float64bits(n.lf), 16)
	case 's':
		return "s:" + strconv.Quote(n.ls)
	case 'b':
		return "b:" + strconv.FormatBool(n.lb)
	case 'n':
		return "nil"
	}
	return "?:" + n.ls
}

// label is the node's identity for signatures (no values).
func (n *c03Node) label() string {
	if n == nil {
		return "none"
	}
	switch n.k {
	case c03Lit:
		return "lit-" + string(n.lk)
	case c03Name:
		return "name"
	case c03Call:
		return "call"
	case c03Bin:
		return n.op
	case c03Tern:
		return "?:"
	case c03Un:
		return "unary" + n.op
	case c03ACall:
		return "postfix-call"
	case c03Idx:
		return "index"
	case c03Slice:
		s := "slice["
		for i := 1; i <= 3; i++ {
			if n.kids[i] != nil {
				s += "x"
			}
			if i < 3 {
				s += ":"
			}
		}
		return s + "]"
	case c03Mem:
		return "member"
	case c03Arr:
		return "array"
	case c03Map:
		return "map"
	case c03Func:
		return "func"
	}
	return "unknown(" + n.op + ")"
}

func (n *c03Node) canon() string {
	if n == nil {
		return "_"
	}
	var b strings.Builder
	switch n.k {
	case c03Lit:
		return n.litString()
	case c03Name:
		return n.op
	case c03Call:
		b.WriteString("(call " + n.op)
	case c03Mem:
		b.WriteString("(." + n.op)
	case c03Func:
		b.WriteString("(func " + n.op)
	case c03Unknown:
		return "<" + n.op + " " + n.ls + ">"
	default:
		b.WriteString("(" + n.label())
	}
	for _, k := range n.kids {
		b.WriteString(" " + k.canon())
	}
	b.WriteString(")")
	return b.String()
}

// c03Norm folds unary minus over a numeric literal into the literal: `-5` is
// the lexer's negative literal, so it may parse as UnaryExpr(-,5) or as the
// literal -5; trees are compared modulo that.
func c03Norm(n *c03Node) *c03Node {
	if n == nil {
		return nil
	}
	m := *n
	m.kids = make([]*c03Node, len(n.kids))
	for i, k := range n.kids {
		m.kids[i] = c03Norm(k)
	}
	if m.k == c03Un && m.op == "-" && m.kids[0].isNum() {
		l := *m.kids[0]
		l.src = ""
		if l.lk == 'i' {
			l.li = -l.li
		} else {
			l.lf = -l.lf
		}
		return &l
	}
	return &m
}

// sigLabel collapses plain operands so that one defect keeps one signature.
func (n *c03Node) sigLabel() string {
	if n != nil && (n.k == c03Name || n.k == c03Call || (n.k == c03Lit && n.lk != '?')) {
		return "operand"
	}
	return n.label()
}

// c03Diff compares two normalised trees; on a mismatch it classifies the first
// point of divergence: the same operands in another order, another operator
// over the same operands, a literal/name that differs, or a different shape
// (want/got labels, parent label and slot).
func c03Diff(want, got *c03Node, parent string, slot int) (ok bool, where string) {
	at := "under[" + parent + "#" + strconv.Itoa(slot) + "]"
	if want == nil || got == nil {
		if want == nil && got == nil {
			return true, ""
		}
		return false, "shape:want[" + want.sigLabel() + "]got[" + got.sigLabel() + "]" + at
	}
	sameKids := len(want.kids) == len(got.kids)
	if sameKids {
		for i := range want.kids {
			if want.kids[i].canon() != got.kids[i].canon() {
				sameKids = false
				break
			}
		}
	}
	if want.k == c03Unknown || got.k == c03Unknown {
		return false, "node:want[" + want.sigLabel() + "]got[" + got.label() + "]"
	}
	if want.k != got.k || want.label() != got.label() || len(want.kids) != len(got.kids) {
		if want.isOp() && got.isOp() && want.k == got.k && len(want.kids) == len(got.kids) {
			return false, "operator:want[" + want.label() + "]got[" + got.label() + "]"
		}
		return false, "shape:want[" + want.sigLabel() + "]got[" + got.sigLabel() + "]" + at
	}
	switch want.k {
	case c03Lit:
		if want.litString() != got.litString() {
			return false, "literal-differs:" + want.label()
		}
	case c03Name, c03Call, c03Mem, c03Func:
		if want.op != got.op {
			return false, "name-differs:" + want.label()
		}
	}
	if !sameKids && len(want.kids) > 1 {
		// the same operands in another order?
		var a, b []string
		for i := range want.kids {
			a, b = append(a, want.kids[i].canon()), append(b, got.kids[i].canon())
		}
		sort.Strings(a)
		sort.Strings(b)
		if strings.Join(a, "\x00") == strings.Join(b, "\x00") {
			return false, "operands-permuted:" + want.label()
		}
	}
	for i := range want.kids {
		if ok, w := c03Diff(want.kids[i], got.kids[i], want.label(), i); !ok {
			return false, w
		}
	}
	return true, ""
}

// scanon is canon with the operands of every node sorted: equal for two trees
// that differ only in operand order.
func (n *c03Node) scanon() string {
	if n == nil {
		return "_"
	}
	if len(n.kids) == 0 {
		return n.canon()
	}
	ks := make([]string, len(n.kids))
	for i, k := range n.kids {
		ks[i] = k.scanon()
	}
	sort.Strings(ks)
	return "(" + n.label() + "/" + n.op + " " + strings.Join(ks, " ") + ")"
}

func c03PermAt(w, g *c03Node) string {
	if w == nil || g == nil || len(w.kids) != len(g.kids) {
		return ""
	}
	for i := range w.kids {
		if w.kids[i].scanon() != g.kids[i].scanon() {
			return w.label()
		}
	}
	for i := range w.kids {
		if w.kids[i].canon() != g.kids[i].canon() {
			return c03PermAt(w.kids[i], g.kids[i])
		}
	}
	return ""
}

// c03DiffSig: c03Diff, with "the same operands in another order" recognised
// even when several nodes of the tree are affected.
func c03DiffSig(want, got *c03Node) (bool, string) {
	ok, where := c03Diff(want, got, "root", 0)
	if !ok && want.scanon() == got.scanon() {
		if l := c03PermAt(want, got); l != "" {
			where = "operands-permuted:" + l
		}
	}
	return ok, where
}

// ---- AST -> IR (by the documented meaning of the node fields) ----

func c03Unk(e interface{}, why string) *c03Node {
	return &c03Node{k: c03Unknown, op: why, ls: astx.Dump(e, astx.Opts{SkipParen: true})}
}

func c03FromASTs(es []ast.Expr) []*c03Node {
	out := make([]*c03Node, len(es))
	for i, e := range es {
		out[i] = c03FromAST(e)
	}
	return out
}

func c03FromAST(e ast.Expr) *c03Node {
	switch x := e.(type) {
	case nil:
		return nil
	case *ast.ParenExpr:
		return c03FromAST(x.SubExpr)
	case *ast.LiteralExpr:
		n := &c03Node{k: c03Lit}
		if !x.Literal.IsValid() {
			n.lk = '?'
			n.ls = "invalid reflect.Value"
			return n
		}
		switch v := x.Literal.Interface().(type) {
		case nil:
			n.lk = 'n'
		case int64:
			n.lk, n.li = 'i', v
		case float64:
			n.lk, n.lf = 'f', v
		case string:
			n.lk, n.ls = 's', v
		case bool:
			n.lk, n.lb = 'b', v
		default:
			n.lk, n.ls = '?', x.Literal.Type().String()
		}
		return n
	case *ast.IdentExpr:
		return &c03Node{k: c03Name, op: x.Lit}
	case *ast.OpExpr:
		var l, r ast.Expr
		var op string
		switch o := x.Op.(type) {
		case *ast.BinaryOperator:
			l, op, r = o.LHS, o.Operator, o.RHS
		case *ast.ComparisonOperator:
			l, op, r = o.LHS, o.Operator, o.RHS
		case *ast.AddOperator:
			l, op, r = o.LHS, o.Operator, o.RHS
		case *ast.MultiplyOperator:
			l, op, r = o.LHS, o.Operator, o.RHS
		default:
			return c03Unk(e, "OpExpr with unknown operator node")
		}
		return &c03Node{k: c03Bin, op: op, kids: []*c03Node{c03FromAST(l), c03FromAST(r)}}
	case *ast.IncludeExpr:
		return &c03Node{k: c03Bin, op: "in", kids: []*c03Node{c03FromAST(x.ItemExpr), c03FromAST(x.ListExpr)}}
	case *ast.NilCoalescingOpExpr:
		return &c03Node{k: c03Bin, op: "??", kids: []*c03Node{c03FromAST(x.LHS), c03FromAST(x.RHS)}}
	case *ast.TernaryOpExpr:
		return &c03Node{k: c03Tern, kids: []*c03Node{c03FromAST(x.Expr), c03FromAST(x.LHS), c03FromAST(x.RHS)}}
	case *ast.UnaryExpr:
		return &c03Node{k: c03Un, op: x.Operator, kids: []*c03Node{c03FromAST(x.Expr)}}
	case *ast.AddrExpr:
		return &c03Node{k: c03Un, op: "&", kids: []*c03Node{c03FromAST(x.Expr)}}
	case *ast.DerefExpr:
		return &c03Node{k: c03Un, op: "*", kids: []*c03Node{c03FromAST(x.Expr)}}
	case *ast.CallExpr:
		if x.VarArg || x.Go {
			return c03Unk(e, "CallExpr with VarArg/Go set")
		}
		return &c03Node{k: c03Call, op: x.Name, kids: c03FromASTs(x.SubExprs)}
	case *ast.AnonCallExpr:
		if x.VarArg || x.Go {
			return c03Unk(e, "AnonCallExpr with VarArg/Go set")
		}
		return &c03Node{k: c03ACall, kids: append([]*c03Node{c03FromAST(x.Expr)}, c03FromASTs(x.SubExprs)...)}
	case *ast.ItemExpr:
		return &c03Node{k: c03Idx, kids: []*c03Node{c03FromAST(x.Item), c03FromAST(x.Index)}}
	case *ast.SliceExpr:
		return &c03Node{k: c03Slice, kids: []*c03Node{c03FromAST(x.Item), c03FromAST(x.Begin), c03FromAST(x.End), c03FromAST(x.Cap)}}
	case *ast.MemberExpr:
		return &c03Node{k: c03Mem, op: x.Name, kids: []*c03Node{c03FromAST(x.Expr)}}
	case *ast.ArrayExpr:
		if x.TypeData != nil {
			return c03Unk(e, "typed ArrayExpr")
		}
		return &c03Node{k: c03Arr, kids: c03FromASTs(x.Exprs)}
	case *ast.MapExpr:
		if x.TypeData != nil || len(x.Keys) != len(x.Values) {
			return c03Unk(e, "typed/odd MapExpr")
		}
		n := &c03Node{k: c03Map}
		for i := range x.Keys {
			n.kids = append(n.kids, c03FromAST(x.Keys[i]), c03FromAST(x.Values[i]))
		}
		return n
	case *ast.FuncExpr:
		if x.Name == "" && !x.VarArg && len(x.Params) == 1 {
			if ss := astx.StmtList(x.Stmt); len(ss) == 1 {
				if r, ok := ss[0].(*ast.ReturnStmt); ok && len(r.Exprs) == 1 {
					return &c03Node{k: c03Func, op: x.Params[0], kids: []*c03Node{c03FromAST(r.Exprs[0])}}
				}
			}
		}
		return c03Unk(e, "FuncExpr of another shape")
	}
	return c03Unk(e, fmt.Sprintf("%T", e))
}

// ======================================================================
// C03: environment, statement positions and the per-tree oracle.

// c03Env builds a fresh environment; every call yields equal bindings, all
// host functions are pure.
func c03Env() *env.Env {
	e := ank.NewCoreEnv()
	id := func(x interface{}) interface{} { return x }
	pv := int64(9)
	defs := map[string]interface{}{
		"a": int64(7), "b": int64(3), "c": int64(12), "d": int64(2), "n0": int64(0), "fl": 2.5,
		"t": true, "fa": false, "s": "hello", "s2": "lo", "nilv": nil,
		"xs": []interface{}{int64(1), int64(2), int64(3), int64(7)},
		"ys": []interface{}{"a", "b", "hello"},
		"zs": []interface{}{[]interface{}{int64(1), int64(2)}, []interface{}{int64(3), int64(4)}},
		"bs": []interface{}{true, false},
		"m": map[interface{}]interface{}{"a": int64(1), "b": []interface{}{int64(1), int64(2), int64(3)}, "f": id,
			"m": map[interface{}]interface{}{"a": int64(5)}, "s": "str"},
		"mm":   map[interface{}]interface{}{int64(1): "one", "a": "A", true: "T", int64(7): "seven"},
		"id":   id,
		"id2":  func(x, y interface{}) interface{} { return y },
		"add":  func(x, y int64) int64 { return x + y },
		"mk":   func() []interface{} { return []interface{}{int64(4), int64(5), int64(6)} },
		"mkm":  func() map[interface{}]interface{} { return map[interface{}]interface{}{"a": int64(2)} },
		"getf": func() interface{} { return id },
		"p":    &pv,
		"r":    int64(0), "v": int64(0),
	}
	for k, v := range defs {
		e.Define(k, v)
	}
	return e
}

// c03Pos is one statement position that accepts an expression.
type c03Pos struct {
	name      string
	pre, post string
	get       func(ss []ast.Stmt) ast.Expr
}

func c03First(s ast.Stmt) ast.Stmt {
	if l := astx.StmtList(s); len(l) > 0 {
		return l[0]
	}
	return nil
}

var c03Positions = []c03Pos{
	{"expr-stmt", "", "", func(ss []ast.Stmt) ast.Expr { return ss[0].(*ast.ExprStmt).Expr }},
	{"var-rhs", "var v = ", "\nv", func(ss []ast.Stmt) ast.Expr { return ss[0].(*ast.VarStmt).Exprs[0] }},
	{"assign-rhs", "v = ", "\nv", func(ss []ast.Stmt) ast.Expr { return ss[0].(*ast.LetsStmt).RHSS[0] }},
	{"if-cond", "if ", " { r = 1 } else { r = 2 }\nr", func(ss []ast.Stmt) ast.Expr { return ss[0].(*ast.IfStmt).If }},
	{"elseif-cond", "if fa { r = 1 } else if ", " { r = 2 }\nr", func(ss []ast.Stmt) ast.Expr {
		return ss[0].(*ast.IfStmt).ElseIf[0].(*ast.IfStmt).If
	}},
	{"for-cond", "for ", " { r = 1; break }\nr", func(ss []ast.Stmt) ast.Expr { return ss[0].(*ast.LoopStmt).Expr }},
	{"cfor-cond", "for i = 0; ", "; i++ { r = 1; break }\nr", func(ss []ast.Stmt) ast.Expr { return ss[0].(*ast.CForStmt).Expr2 }},
	{"switch-cond", "switch ", " {\ncase 1:\nr = 1\ndefault:\nr = 2\n}\nr", func(ss []ast.Stmt) ast.Expr { return ss[0].(*ast.SwitchStmt).Expr }},
	{"return", "rf = func() { return ", " }\nrf()", func(ss []ast.Stmt) ast.Expr {
		return c03First(ss[0].(*ast.LetsStmt).RHSS[0].(*ast.FuncExpr).Stmt).(*ast.ReturnStmt).Exprs[0]
	}},
	// the catch block does not echo the error: fmt.Sprint of a pointer value would differ between runs
	{"throw", "try { throw ", " } catch e { r = 1 }\nr", func(ss []ast.Stmt) ast.Expr {
		return c03First(ss[0].(*ast.TryStmt).Try).(*ast.ThrowStmt).Expr
	}},
	{"call-arg", "id2(1, ", ")", func(ss []ast.Stmt) ast.Expr { return ss[0].(*ast.ExprStmt).Expr.(*ast.CallExpr).SubExprs[1] }},
	{"index", "mm[", "]", func(ss []ast.Stmt) ast.Expr { return ss[0].(*ast.ExprStmt).Expr.(*ast.ItemExpr).Index }},
	{"map-value", "{\"k\": ", ", \"j\": 1}", func(ss []ast.Stmt) ast.Expr { return ss[0].(*ast.ExprStmt).Expr.(*ast.MapExpr).Values[0] }},
	{"array-elem", "[0, ", ", 2]", func(ss []ast.Stmt) ast.Expr { return ss[0].(*ast.ExprStmt).Expr.(*ast.ArrayExpr).Exprs[1] }},
	// two targets, one expression: the documented (value, found) form when the expression is an index
	// expression (LetMapItemStmt), otherwise an ordinary assignment that spreads a list (LetsStmt)
	{"two-target-rhs", "r, v = ", "\n[r, v]", func(ss []ast.Stmt) ast.Expr {
		switch x := ss[0].(type) {
		case *ast.LetMapItemStmt:
			return x.RHS
		case *ast.LetsStmt:
			if len(x.LHSS) == 2 && len(x.RHSS) == 1 {
				return x.RHSS[0]
			}
		}
		return nil
	}},
}

const c03ForPos = 5

var c03TwoTargetPos = len(c03Positions) - 1

// c03PendingFix_ParenMapItem: on the unchanged tree `r, v = (m["k"])` is an
// ordinary two-target assignment (LetsStmt: the element is spread over r and v,
// or `v` stays undefined) while `r, v = m["k"]` is the (value, found) form
// (LetMapItemStmt): the grammar action tests the right-hand side for
// *ast.ItemExpr without looking through ParenExpr, so a parenthesis around the
// complete expression changes the statement and the run result. Reported in
// /tmp/strengthen/C03-genuine.md (item 3). While true, exactly that input class
// (root-parenthesised spelling of a tree whose root is an index expression, in
// the two-target position) is left out; set to false once /repo is repaired.
const c03PendingFix_ParenMapItem = false

// c03PendingFix_ScannerReinit: on the unchanged tree parser.Scanner.Init
// replaces the source but keeps offset/line of the previous scan, so a Scanner
// that is re-initialised (documented: "Init resets code to scan") parses a
// suffix of the new source (or nothing) without any error. Reported in
// /tmp/strengthen/C03-genuine.md (item 1). While true the re-initialised-Scanner
// observation is skipped; set to false once /repo is repaired.
const c03PendingFix_ScannerReinit = false

// c03ParseReinit parses src with a Scanner that has already scanned `first`
// and was re-initialised with Init (public API: parser.Scanner, parser.Parse).
func c03ParseReinit(first, src string) (stmt ast.Stmt, err error, o ank.Out) {
	defer func() {
		if r := recover(); r != nil {
			o.Panicked = true
			o.PanicVal = fmt.Sprint(r)
			o.PanicSig = ank.PanicSig(o.PanicVal, string(debug.Stack()))
		}
	}()
	sc := &parser.Scanner{}
	sc.Init(first)
	parser.Parse(sc) // result irrelevant; may be an error for a deliberately unfinished first source
	sc.Init(src)
	stmt, err = parser.Parse(sc)
	return
}

// c03Extract applies the position's extractor; any shape surprise is reported as nil.
func c03Extract(p *c03Pos, root ast.Stmt) (e ast.Expr) {
	defer func() {
		if recover() != nil {
			e = nil
		}
	}()
	ss := astx.StmtList(root)
	if len(ss) == 0 {
		return nil
	}
	return p.get(ss)
}

// may the node evaluate to a string? (conservative; only used to keep
// `string * n` — strings.Repeat — from exhausting memory)
func c03MayBeString(n *c03Node) bool {
	switch n.k {
	case c03Lit:
		return n.lk == 's'
	case c03Name:
		return n.op == "s" || n.op == "s2"
	case c03Bin:
		if n.op == "+" || n.op == "??" {
			return c03MayBeString(n.kids[0]) || c03MayBeString(n.kids[1])
		}
		return false
	case c03Tern:
		return c03MayBeString(n.kids[1]) || c03MayBeString(n.kids[2])
	case c03Un:
		return n.op == "*"
	case c03Arr, c03Map, c03Func:
		return false
	}
	return true
}

// c03ExecSafe: false when evaluating T might build an astronomically long string.
func c03ExecSafe(t *c03Node) bool {
	repeats, safe := 0, true
	t.walk(func(n *c03Node) {
		if n.k == c03Bin && n.op == "*" && c03MayBeString(n.kids[0]) {
			repeats++
			n.kids[1].walk(func(m *c03Node) {
				if m.k == c03Bin && (m.op == "<<" || m.op == "*") {
					safe = false
				}
				if m.k == c03Lit && m.lk == 'i' && m.li > 100000 {
					safe = false
				}
				if m.k != c03Lit && m.k != c03Name && m.k != c03Bin && m.k != c03Un && m.k != c03Tern {
					safe = false
				}
			})
		}
	})
	return safe && repeats <= 1
}

var c03PtrRe = regexp.MustCompile(`0xc[0-9a-f]{6,}`)

type c03Spelling struct {
	name string
	src  string // the expression
	prog string // embedded in the statement position
}

func c03Clip(s string) string {
	if len(s) > 600 {
		return s[:600] + "…"
	}
	return s
}

// c03CheckTree is the oracle for one tree in one statement position.
// exec: also run minimal and full and compare the values.
func c03CheckTree(c *wk.Case, t *c03Node, posIdx int, exec bool, origin string) {
	pos := &c03Positions[posIdx]
	// `for x in xs {` is the for-in statement and `for {` opens a block: where the
	// position itself is ambiguous the property fixes nothing, so the whole
	// expression is parenthesised there (the tree below is unaffected).
	rootParen := false
	if posIdx == c03ForPos {
		pr := &c03Printer{mode: c03Min}
		pr.sub(t, false)
		if pr.toks[0].s == "{" || (len(pr.toks) > 1 && pr.toks[1].s == "in" && c03IsWord(pr.toks[0].s[0])) {
			rootParen = true
		}
	}
	// pending fix: `r, v = (x[i])` is not the (value, found) form (see c03PendingFix_ParenMapItem)
	bareRoot := c03PendingFix_ParenMapItem && posIdx == c03TwoTargetPos && t.k == c03Idx
	mk := func(name string, mode int, tight bool) c03Spelling {
		e := c03Print(t, mode, tight, rootParen)
		if bareRoot {
			e = c03PrintBareRoot(t, mode, tight)
		}
		return c03Spelling{name, e, pos.pre + e + pos.post}
	}
	// all four spellings in the bare position; minimal and full elsewhere. The
	// full spelling wraps the complete expression when its root is an operator
	// or postfix form; for another root (name, call, literal, array/map/func
	// literal) the minimal spelling with the complete expression in parentheses
	// is added where the case is executed: a statement position that accepts an
	// expression accepts the parenthesised expression, and the program tree
	// (ParenExpr ignored) and the value must not change.
	sp := []c03Spelling{mk("min", c03Min, false), mk("full", c03Full, false)}
	rootParenIdx := -1
	if posIdx == 0 {
		sp = append(sp, mk("tight", c03Min, true), mk("fullall", c03FullAll, false))
	} else if !rootParen && exec && !t.isOp() {
		e := c03Print(t, c03Min, false, true)
		sp = append(sp, c03Spelling{"rootparen", e, pos.pre + e + pos.post})
		rootParenIdx = len(sp) - 1
	}
	want := c03Norm(t)
	nops := t.countOps()
	input := map[string]interface{}{"origin": origin, "position": pos.name, "tree": c03Clip(want.canon()),
		"min": c03Clip(sp[0].prog), "full": c03Clip(sp[1].prog)}
	if posIdx == 0 || exec {
		c.Begin(input)
	}
	c.Eval(pos.name+"\x00"+sp[0].src, nops >= 2)
	if c.WantSample() && nops >= 3 {
		c.Sample(map[string]interface{}{"position": pos.name, "tree": want.canon(), "min": sp[0].prog, "full": sp[1].src})
	}
	dumps := make([]string, len(sp))
	var root0 ast.Stmt // the parsed program of the minimal spelling
	allParsed := true
	for i, s := range sp {
		root, err, o := ank.Parse(s.prog)
		if i == 0 {
			root0 = root
		}
		c.Events(1)
		if o.Panicked {
			c.Violation("parse-panic:"+s.name+":"+o.PanicSig, "parser panicked on "+s.name+" spelling: "+o.PanicVal, input)
			return
		}
		if err != nil {
			in := map[string]interface{}{"origin": origin, "position": pos.name, "tree": c03Clip(want.canon()), "spelling": s.name, "src": c03Clip(s.prog)}
			c.Violation("parse-error:"+s.name+":"+ank.AbstractMsg(err.Error()),
				"the "+s.name+" spelling of a well-formed expression was rejected: "+err.Error(), in)
			allParsed = false
			continue
		}
		ex := c03Extract(pos, root)
		if ex == nil {
			c.Violation("position-shape:"+pos.name+":"+s.name, "the statement around the expression did not parse to its documented shape: "+
				c03Clip(astx.Dump(root, astx.Opts{SkipParen: true})), input)
			allParsed = false
			continue
		}
		got := c03Norm(c03FromAST(ex))
		if ok, where := c03DiffSig(want, got); !ok {
			in := map[string]interface{}{"origin": origin, "position": pos.name, "spelling": s.name, "src": c03Clip(s.prog),
				"want": c03Clip(want.canon()), "got": c03Clip(got.canon())}
			if strings.Contains(where, "[in]") && c03HasChainedIn(want) {
				// the listed finding: `a in b in c` groups to the right. Its own signature, so that
				// any other deviation around `in` is still reported.
				where = "chained-in-groups-to-the-right"
			}
			if strings.HasPrefix(where, "shape:want[unary-]") && c03HasNegNumPostfix(want) {
				// the listed finding: `-5[0]` is built as (-5)[0]. Its own signature, so that a
				// unary minus that binds too tightly on any OTHER operand is still reported.
				where = "neg-number-literal-binds-tighter-than-postfix"
			}
			c.Violation("tree:"+where, "parsed tree of the "+s.name+" spelling differs from the tree the operator table dictates ("+where+")", in)
			allParsed = false
			continue
		}
		dumps[i] = astx.Dump(root, astx.Opts{SkipParen: true})
	}
	if !allParsed {
		return
	}
	// whole-program structural identity (min / tight / full; fullall spells -5 as -(5), compared above modulo that)
	for i := 1; i < len(sp) && i <= 2; i++ {
		if dumps[i] != dumps[0] {
			c.Violation("dump:"+sp[i].name+":"+pos.name, "program with the "+sp[i].name+" spelling dumps differently from the minimal one", input)
			return
		}
	}
	// the same source through a re-initialised Scanner: the tree is dictated by the source alone
	if posIdx == 0 && !c03PendingFix_ScannerReinit {
		for _, first := range []string{sp[1].prog + " + 1", "a", "x = [1,\n2]\n"} {
			root, err, o := c03ParseReinit(first, sp[0].prog)
			c.Events(1)
			in := map[string]interface{}{"origin": origin, "first-source": c03Clip(first), "src": c03Clip(sp[0].prog)}
			switch {
			case o.Panicked:
				c.Violation("scanner-reinit:panic:"+o.PanicSig, "parser.Parse panicked on a re-initialised Scanner: "+o.PanicVal, in)
				return
			case err != nil:
				c.Violation("scanner-reinit:parse-error", "parser.Parse on a Scanner re-initialised with Init rejects a source that ParseSrc accepts: "+err.Error(), in)
				return
			}
			if d := astx.Dump(root, astx.Opts{SkipParen: true}); d != dumps[0] {
				in["got"] = c03Clip(d)
				in["want"] = c03Clip(dumps[0])
				c.Violation("scanner-reinit:tree-differs", "parser.Parse on a Scanner re-initialised with Init builds another tree than ParseSrc for the same source", in)
				return
			}
		}
		c.Tag("scanner-reinit")
	}
	t.walk(func(n *c03Node) {
		if n.isOp() {
			c.Tag("op:" + n.label())
		}
	})
	c.Tag("pos:" + pos.name)
	if rootParenIdx >= 0 {
		c.Tag("rootparen:" + pos.name)
	}
	if !exec {
		return
	}
	if !c03ExecSafe(t) {
		c.Tag("exec:skipped-string-repeat")
		return
	}
	o1 := ank.Exec(c03Env(), sp[0].prog)
	o2 := ank.Exec(c03Env(), sp[1].prog)
	c.Events(2)
	cls := func(o ank.Out) string {
		switch {
		case o.Panicked:
			return "panic" // a crash is C01's business; here only agreement matters
		case o.Err != nil:
			return "error"
		}
		// a pointer formatted into a string ("x" + &a) carries its address: masked, fresh per run
		return "value " + c03PtrRe.ReplaceAllString(ank.Render(o.Val), "0xPTR")
	}
	r1, r2 := cls(o1), cls(o2)
	if r1 != r2 {
		in := map[string]interface{}{"origin": origin, "position": pos.name, "min": c03Clip(sp[0].prog), "full": c03Clip(sp[1].prog),
			"min-result": c03Clip(r1 + " " + ank.ErrText(o1.Err)), "full-result": c03Clip(r2 + " " + ank.ErrText(o2.Err))}
		c.Violation("value:"+pos.name+":"+t.label(), "minimal and fully parenthesised spelling evaluate differently", in)
		return
	}
	if rootParenIdx >= 0 {
		o3 := ank.Exec(c03Env(), sp[rootParenIdx].prog)
		c.Events(1)
		if r3 := cls(o3); r3 != r1 {
			in := map[string]interface{}{"origin": origin, "position": pos.name, "min": c03Clip(sp[0].prog), "rootparen": c03Clip(sp[rootParenIdx].prog),
				"min-result": c03Clip(r1 + " " + ank.ErrText(o1.Err)), "rootparen-result": c03Clip(r3 + " " + ank.ErrText(o3.Err))}
			c.Violation("value:rootparen:"+pos.name+":"+t.label(), "the expression and the same expression in parentheses evaluate differently in this statement position", in)
			return
		}
	}
	// the tree of the minimal spelling evaluated again (twice) and dumped again: it denotes the same value
	// every time and still spells its source (c03_r7.go)
	if !c03RerunTree(c, root0, dumps[0], r1, cls, pos.name, t.label(), input) {
		return
	}
	if strings.HasPrefix(r1, "value") {
		c.Tag("exec:both-value")
	} else {
		c.Tag("exec:both-" + r1)
	}
}

// ======================================================================
// C03: exhaustive enumeration of operator neighbourhoods and the random tree generator.

// ---- exhaustive: all trees with k operators over the 19 binary operators and ?: ----

const c03NOps = 20 // c03BinOps + "?:"

var c03CountMemo = map[int]int{0: 1}

// compositions of n into parts non-negative parts
func c03Compositions(n, parts int) [][]int {
	if parts == 1 {
		return [][]int{{n}}
	}
	var out [][]int
	for f := 0; f <= n; f++ {
		for _, rest := range c03Compositions(n-f, parts-1) {
			out = append(out, append([]int{f}, rest...))
		}
	}
	return out
}

func c03Count(k int) int {
	if v, ok := c03CountMemo[k]; ok {
		return v
	}
	total := 0
	for op := 0; op < c03NOps; op++ {
		ar := 2
		if op == c03NOps-1 {
			ar = 3
		}
		for _, comp := range c03Compositions(k-1, ar) {
			p := 1
			for _, ki := range comp {
				p *= c03Count(ki)
			}
			total += p
		}
	}
	c03CountMemo[k] = total
	return total
}

// c03Unrank returns tree number idx of the enumeration of all trees with k operators (leaves nil).
func c03Unrank(k, idx int) *c03Node {
	if k == 0 {
		return &c03Node{k: c03Name}
	}
	for op := 0; op < c03NOps; op++ {
		ar := 2
		if op == c03NOps-1 {
			ar = 3
		}
		for _, comp := range c03Compositions(k-1, ar) {
			size := 1
			for _, ki := range comp {
				size *= c03Count(ki)
			}
			if idx >= size {
				idx -= size
				continue
			}
			n := &c03Node{k: c03Bin}
			if ar == 3 {
				n.k = c03Tern
			} else {
				n.op = c03BinOps[op]
			}
			for _, ki := range comp {
				cnt := c03Count(ki)
				n.kids = append(n.kids, c03Unrank(ki, idx%cnt))
				idx /= cnt
			}
			return n
		}
	}
	return nil
}

// c03NameLeaves gives the placeholder leaves names in left-to-right order;
// the right operand of `in` gets a list so that the operator is defined.
func c03NameLeaves(t *c03Node) {
	names := []string{"a", "b", "c", "d", "a", "b", "c", "d"}
	i := 0
	var rec func(n *c03Node, list bool)
	rec = func(n *c03Node, list bool) {
		if n.k == c03Name && n.op == "" {
			if list {
				n.op = "xs"
			} else {
				n.op = names[i%len(names)]
			}
			i++
			return
		}
		for j, k := range n.kids {
			if k != nil {
				rec(k, n.k == c03Bin && n.op == "in" && j == 1)
			}
		}
	}
	rec(t, false)
}

func c03N(op string) *c03Node { return &c03Node{k: c03Name, op: op} }
func c03IntLit(v int64) *c03Node {
	return &c03Node{k: c03Lit, lk: 'i', li: v, src: strconv.FormatInt(v, 10)}
}
func c03StrLit(s string) *c03Node {
	return &c03Node{k: c03Lit, lk: 's', ls: s, src: strconv.Quote(s)}
}
func c03B(op string, l, r *c03Node) *c03Node {
	return &c03Node{k: c03Bin, op: op, kids: []*c03Node{l, r}}
}
func c03T(a, b, c *c03Node) *c03Node      { return &c03Node{k: c03Tern, kids: []*c03Node{a, b, c}} }
func c03U(op string, x *c03Node) *c03Node { return &c03Node{k: c03Un, op: op, kids: []*c03Node{x}} }

// the six postfix forms applied to a base
var c03PostNames = []string{"call", "index", "slice2", "slice3", "slice-open", "member"}

func c03Post(i int, base *c03Node) *c03Node {
	switch i {
	case 0:
		return &c03Node{k: c03ACall, kids: []*c03Node{base, c03N("b")}}
	case 1:
		return &c03Node{k: c03Idx, kids: []*c03Node{base, c03IntLit(1)}}
	case 2:
		return &c03Node{k: c03Slice, kids: []*c03Node{base, c03IntLit(0), c03IntLit(2), nil}}
	case 3:
		return &c03Node{k: c03Slice, kids: []*c03Node{base, c03IntLit(0), c03IntLit(1), c03IntLit(2)}}
	case 4:
		return &c03Node{k: c03Slice, kids: []*c03Node{base, nil, c03IntLit(2), nil}}
	}
	return &c03Node{k: c03Mem, op: "a", kids: []*c03Node{base}}
}

// a base on which postfix form i is defined at run time
func c03PostBase(i int) *c03Node {
	switch i {
	case 0:
		return c03Post(5, c03N("m")) // placeholder, replaced below
	case 5:
		return c03N("m")
	}
	return c03N("xs")
}

// c03Neighbourhoods: every unary x binary (both sides, and the unary applied
// to the whole), unary x ?: (three slots), unary x postfix, unary x unary,
// binary x postfix (both sides, and postfix of the whole), postfix x postfix,
// and operators inside the delimited slots of postfix forms.
func c03Neighbourhoods() []*c03Node {
	var out []*c03Node
	leafFor := func(u string) *c03Node {
		switch u {
		case "*":
			return c03N("p")
		case "!":
			return c03N("t")
		}
		return c03N("a")
	}
	rhs := func(op string) *c03Node {
		if op == "in" {
			return c03N("xs")
		}
		return c03N("b")
	}
	callBase := func() *c03Node { return &c03Node{k: c03Mem, op: "f", kids: []*c03Node{c03N("m")}} }
	pbase := func(i int) *c03Node {
		if i == 0 {
			return callBase()
		}
		return c03PostBase(i)
	}
	for _, u := range c03UnOps {
		for _, op := range c03BinOps {
			out = append(out, c03B(op, c03U(u, leafFor(u)), rhs(op)), c03B(op, c03N("c"), c03U(u, rhs(op))), c03U(u, c03B(op, c03N("a"), rhs(op))))
		}
		out = append(out, c03T(c03U(u, leafFor(u)), c03N("a"), c03N("b")), c03T(c03N("t"), c03U(u, leafFor(u)), c03N("b")),
			c03T(c03N("t"), c03N("a"), c03U(u, leafFor(u))), c03U(u, c03T(c03N("t"), c03N("a"), c03N("b"))))
		for i := range c03PostNames {
			out = append(out, c03U(u, c03Post(i, pbase(i))), c03Post(i, c03U(u, pbase(i))))
		}
		out = append(out, c03U(u, &c03Node{k: c03Call, op: "id", kids: []*c03Node{c03N("a")}}))
		// postfix form of a numeric literal under a unary operator (`-5[1]` is -(5[1]) by the table; a run error either way)
		for i := range c03PostNames {
			out = append(out, c03U(u, c03Post(i, c03IntLit(5))), c03U(u, c03Post(i, &c03Node{k: c03Lit, lk: 'f', lf: 2.5, src: "2.5"})),
				c03U(u, c03Post(i, &c03Node{k: c03Lit, lk: 'i', li: 14, src: "0xe"})))
		}
		for _, u2 := range c03UnOps {
			out = append(out, c03U(u, c03U(u2, leafFor(u2))), c03U(u, c03U(u2, c03IntLit(5))))
		}
		out = append(out, c03U(u, c03IntLit(5)), c03U(u, &c03Node{k: c03Lit, lk: 'f', lf: 2.5, src: "2.5"}))
	}
	for _, op := range c03BinOps {
		for i := range c03PostNames {
			out = append(out, c03B(op, c03N("a"), c03Post(i, pbase(i))), c03B(op, c03Post(i, pbase(i)), rhs(op)), c03Post(i, c03B(op, pbase(i), rhs(op))))
			// operator inside the delimited slot
			inner := c03B(op, c03N("a"), rhs(op))
			switch i {
			case 0:
				out = append(out, &c03Node{k: c03ACall, kids: []*c03Node{callBase(), inner}})
			case 1:
				out = append(out, &c03Node{k: c03Idx, kids: []*c03Node{c03N("xs"), inner}})
			case 2:
				out = append(out, &c03Node{k: c03Slice, kids: []*c03Node{c03N("xs"), inner, c03B(op, c03N("c"), rhs(op)), nil}})
			case 3:
				out = append(out, &c03Node{k: c03Slice, kids: []*c03Node{c03N("xs"), c03IntLit(0), inner, c03B(op, c03N("c"), rhs(op))}})
			case 4:
				out = append(out, &c03Node{k: c03Slice, kids: []*c03Node{c03N("xs"), nil, inner, nil}})
			}
		}
		out = append(out, &c03Node{k: c03Call, op: "id2", kids: []*c03Node{inner2(op, rhs), inner2(op, rhs)}})
		out = append(out, &c03Node{k: c03Arr, kids: []*c03Node{inner2(op, rhs), inner2(op, rhs)}})
		out = append(out, &c03Node{k: c03Map, kids: []*c03Node{c03StrLit("k"), inner2(op, rhs), c03StrLit("j"), inner2(op, rhs)}})
		out = append(out, &c03Node{k: c03Func, op: "x", kids: []*c03Node{c03B(op, c03N("x"), rhs(op))}})
	}
	tern := func() *c03Node { return c03T(c03N("t"), c03IntLit(1), c03IntLit(2)) }
	for i := range c03PostNames {
		out = append(out, c03T(c03N("t"), c03Post(i, pbase(i)), c03N("b")), c03T(c03Post(i, pbase(i)), c03N("a"), c03N("b")),
			c03T(c03N("t"), c03N("a"), c03Post(i, pbase(i))), c03Post(i, c03T(c03N("t"), pbase(i), pbase(i))))
		for j := range c03PostNames {
			out = append(out, c03Post(j, c03Post(i, pbase(i))))
		}
	}
	// ?: inside every delimited slot, incl. slice bounds and map values
	out = append(out,
		&c03Node{k: c03Idx, kids: []*c03Node{c03N("xs"), tern()}},
		&c03Node{k: c03Slice, kids: []*c03Node{c03N("xs"), tern(), c03IntLit(3), nil}},
		&c03Node{k: c03Slice, kids: []*c03Node{c03N("xs"), c03IntLit(0), tern(), nil}},
		&c03Node{k: c03Slice, kids: []*c03Node{c03N("xs"), nil, tern(), nil}},
		&c03Node{k: c03Slice, kids: []*c03Node{c03N("xs"), tern(), nil, nil}},
		&c03Node{k: c03Slice, kids: []*c03Node{c03N("xs"), nil, tern(), c03IntLit(4)}},
		&c03Node{k: c03Slice, kids: []*c03Node{c03N("xs"), c03IntLit(0), tern(), tern()}},
		&c03Node{k: c03Slice, kids: []*c03Node{c03N("xs"), tern(), tern(), tern()}},
		&c03Node{k: c03Call, op: "id2", kids: []*c03Node{tern(), tern()}},
		&c03Node{k: c03Arr, kids: []*c03Node{tern(), tern()}},
		&c03Node{k: c03Map, kids: []*c03Node{c03StrLit("k"), tern(), c03StrLit("j"), tern()}},
		&c03Node{k: c03Func, op: "x", kids: []*c03Node{c03T(c03N("x"), c03IntLit(1), c03IntLit(2))}},
		&c03Node{k: c03ACall, kids: []*c03Node{&c03Node{k: c03Func, op: "x", kids: []*c03Node{c03B("+", c03N("x"), c03IntLit(1))}}, c03N("a")}},
		&c03Node{k: c03ACall, kids: []*c03Node{c03N("id"), c03N("a")}},
		&c03Node{k: c03Idx, kids: []*c03Node{&c03Node{k: c03Arr, kids: []*c03Node{c03IntLit(1), c03IntLit(2)}}, c03IntLit(0)}},
		&c03Node{k: c03Mem, op: "k", kids: []*c03Node{&c03Node{k: c03Map, kids: []*c03Node{c03StrLit("k"), c03IntLit(1)}}}},
		&c03Node{k: c03Idx, kids: []*c03Node{c03StrLit("abc"), c03IntLit(1)}},
		&c03Node{k: c03Idx, kids: []*c03Node{c03IntLit(5), c03IntLit(1)}},
	)
	return out
}

func inner2(op string, rhs func(string) *c03Node) *c03Node { return c03B(op, c03N("a"), rhs(op)) }

// ---- random typed trees ----

type c03Gen struct {
	r      *rand.Rand
	budget int
	param  string // name of the enclosing func literal's parameter, if any
}

func (g *c03Gen) pick(ss ...string) string { return ss[g.r.Intn(len(ss))] }

func (g *c03Gen) intLit() *c03Node {
	var v int64
	switch g.r.Intn(6) {
	case 0:
		v = int64(g.r.Intn(3))
	case 1:
		v = []int64{7, 8, 15, 16, 63, 64, 255, 256, 1000, 4095, 4096}[g.r.Intn(11)]
	default:
		v = int64(g.r.Intn(21))
	}
	n := c03IntLit(v)
	switch g.r.Intn(8) {
	case 0:
		n.src = "0x" + strconv.FormatInt(v, 16)
	case 1:
		n.src = "0b" + strconv.FormatInt(v, 2)
	case 2: // a decimal literal behind zeros denotes the decimal number written (see c03IntSpellings)
		n.src = strings.Repeat("0", 1+g.r.Intn(2)) + strconv.FormatInt(v, 10)
	}
	return n
}

func (g *c03Gen) floatLit() *c03Node {
	f := []float64{0.5, 1.5, 2.0, 0.25, 10.0, 1e3, 2.5e-3}[g.r.Intn(7)]
	src := []string{"0.5", "1.5", "2.0", "0.25", "10.0", "1e3", "2.5e-3"}
	for i, s := range src {
		if v, _ := strconv.ParseFloat(s, 64); v == f {
			return &c03Node{k: c03Lit, lk: 'f', lf: f, src: src[i]}
		}
	}
	return &c03Node{k: c03Lit, lk: 'f', lf: 0.5, src: "0.5"}
}

func (g *c03Gen) strLit() *c03Node {
	s := g.pick("a", "b", "hello", "lo", "", "x y", "it's", "q\"q", "1+2", "a//b", "#c")
	n := c03StrLit(s)
	switch g.r.Intn(3) {
	case 0:
		if !containsAny(s, "'\\") {
			n.src = "'" + s + "'"
		}
	case 1:
		if !containsAny(s, "`") {
			n.src = "`" + s + "`"
		}
	}
	return n
}

func containsAny(s, chars string) bool {
	for i := 0; i < len(s); i++ {
		for j := 0; j < len(chars); j++ {
			if s[i] == chars[j] {
				return true
			}
		}
	}
	return false
}

func (g *c03Gen) leaf(kind byte) *c03Node {
	if g.param != "" && g.r.Intn(3) == 0 {
		return c03N(g.param)
	}
	switch kind {
	case 'I':
		switch g.r.Intn(10) {
		case 0, 1, 2:
			return g.intLit()
		case 3:
			return g.floatLit()
		case 4:
			return c03N("fl")
		}
		return c03N(g.pick("a", "b", "c", "d", "n0"))
	case 'B':
		if g.r.Intn(3) == 0 {
			b := g.r.Intn(2) == 0
			return &c03Node{k: c03Lit, lk: 'b', lb: b, src: strconv.FormatBool(b)}
		}
		return c03N(g.pick("t", "fa"))
	case 'S':
		if g.r.Intn(2) == 0 {
			return g.strLit()
		}
		return c03N(g.pick("s", "s2"))
	case 'L':
		return c03N(g.pick("xs", "xs", "ys", "zs", "bs"))
	case 'M':
		return c03N(g.pick("m", "m", "mm"))
	case 'F':
		return c03N(g.pick("id", "getf"))
	}
	switch g.r.Intn(9) {
	case 0:
		return &c03Node{k: c03Lit, lk: 'n', src: "nil"}
	case 1:
		return c03N("nilv")
	case 2:
		return c03N("p")
	}
	return g.leaf("IIBSLMF"[g.r.Intn(7)])
}

// gen draws a tree of the requested result kind ('A' = any). About one node in
// seven ignores the kinds of its operands ("wild") so that every operator
// neighbourhood is reachable, at the price of run-time errors (which both
// spellings must then share).
func (g *c03Gen) gen(kind byte, d int) *c03Node {
	g.budget--
	if d <= 0 || g.budget <= 0 || g.r.Intn(9) == 0 {
		return g.leaf(kind)
	}
	sub := func(k byte) *c03Node {
		if g.r.Intn(7) == 0 {
			k = 'A'
		}
		// thin spines reach the depth bound without exhausting the node budget
		dd := d - 1
		if g.r.Intn(3) == 0 {
			dd = g.r.Intn(d)
		}
		return g.gen(k, dd)
	}
	if kind == 'A' || g.r.Intn(7) == 0 {
		kind = "IIIBBSLMF"[g.r.Intn(9)]
	}
	slice := func(base *c03Node) *c03Node {
		n := &c03Node{k: c03Slice, kids: []*c03Node{base, nil, nil, nil}}
		switch g.r.Intn(5) {
		case 0:
			n.kids[1], n.kids[2] = sub('I'), sub('I')
		case 1:
			n.kids[1] = sub('I')
		case 2:
			n.kids[2] = sub('I')
		case 3:
			n.kids[2], n.kids[3] = sub('I'), sub('I')
		default:
			n.kids[1], n.kids[2], n.kids[3] = sub('I'), sub('I'), sub('I')
		}
		return n
	}
	common := func(k byte) *c03Node { // forms available for every kind
		switch g.r.Intn(6) {
		case 0, 1:
			return c03T(sub('B'), sub(k), sub(k))
		case 2:
			l := sub(k)
			if g.r.Intn(2) == 0 {
				l = g.leaf('A')
			}
			return c03B("??", l, sub(k))
		case 3:
			return &c03Node{k: c03Call, op: "id", kids: []*c03Node{sub(k)}}
		case 4:
			return &c03Node{k: c03ACall, kids: []*c03Node{sub('F'), sub(k)}}
		}
		return &c03Node{k: c03Call, op: "id2", kids: []*c03Node{sub('A'), sub(k)}}
	}
	switch kind {
	case 'I':
		switch x := g.r.Intn(20); {
		case x < 10:
			return c03B(g.pick("+", "-", "*", "/", "%", "<<", ">>", "&", "|"), sub('I'), sub('I'))
		case x < 13:
			return c03U(g.pick("-", "-", "^"), sub('I'))
		case x < 14:
			return &c03Node{k: c03Idx, kids: []*c03Node{sub('L'), sub('I')}}
		case x < 15:
			return &c03Node{k: c03Mem, op: "a", kids: []*c03Node{sub('M')}}
		case x < 16:
			return &c03Node{k: c03Call, op: "add", kids: []*c03Node{sub('I'), sub('I')}}
		case x < 17:
			if g.r.Intn(2) == 0 {
				return c03U("*", c03N("p"))
			}
			return c03U("*", c03U("&", sub('I')))
		}
		return common('I')
	case 'B':
		switch x := g.r.Intn(20); {
		case x < 6:
			return c03B(g.pick("==", "!=", "<", "<=", ">", ">="), sub('I'), sub('I'))
		case x < 11:
			return c03B(g.pick("&&", "||"), sub('B'), sub('B'))
		case x < 14:
			return c03U("!", sub('B'))
		case x < 17:
			if g.r.Intn(3) == 0 {
				return c03B("in", sub('S'), c03N("ys"))
			}
			return c03B("in", sub('I'), sub('L'))
		case x < 18:
			return c03B(g.pick("==", "!="), sub('S'), sub('S'))
		}
		return common('B')
	case 'S':
		switch x := g.r.Intn(10); {
		case x < 4:
			return c03B("+", sub('S'), sub('S'))
		case x < 5:
			return &c03Node{k: c03Idx, kids: []*c03Node{c03N("ys"), sub('I')}}
		case x < 6:
			return slice(sub('S'))
		case x < 7:
			return &c03Node{k: c03Mem, op: "s", kids: []*c03Node{sub('M')}}
		}
		return common('S')
	case 'L':
		switch x := g.r.Intn(12); {
		case x < 4:
			return slice(sub('L'))
		case x < 5:
			return c03B("+", sub('L'), sub('L'))
		case x < 6:
			return &c03Node{k: c03Mem, op: "b", kids: []*c03Node{sub('M')}}
		case x < 7:
			return &c03Node{k: c03Idx, kids: []*c03Node{c03N("zs"), sub('I')}}
		case x < 8:
			return &c03Node{k: c03Call, op: "mk"}
		case x < 10:
			n := &c03Node{k: c03Arr}
			for i, cnt := 0, 1+g.r.Intn(3); i < cnt; i++ {
				n.kids = append(n.kids, sub("IIA"[g.r.Intn(3)]))
			}
			return n
		}
		return common('L')
	case 'M':
		switch x := g.r.Intn(8); {
		case x < 2:
			return &c03Node{k: c03Mem, op: "m", kids: []*c03Node{sub('M')}}
		case x < 3:
			return &c03Node{k: c03Call, op: "mkm"}
		case x < 6:
			n := &c03Node{k: c03Map}
			for i, cnt := 0, 1+g.r.Intn(2); i < cnt; i++ {
				n.kids = append(n.kids, c03StrLit([]string{"a", "s", "m"}[i]), sub('A'))
			}
			return n
		}
		return common('M')
	case 'F':
		switch x := g.r.Intn(8); {
		case x < 2:
			return &c03Node{k: c03Mem, op: "f", kids: []*c03Node{sub('M')}}
		case x < 3:
			return &c03Node{k: c03Call, op: "getf"}
		case x < 6:
			old := g.param
			g.param = "x"
			body := sub('A')
			g.param = old
			return &c03Node{k: c03Func, op: "x", kids: []*c03Node{body}}
		}
		return common('F')
	}
	return g.leaf(kind)
}

// c03FixNegBinary: a binary-spelled literal directly under unary minus is
// respelled in decimal. `-0b101` is rejected by the parser (reported by the
// literals phase under its own signature); keeping it out of the trees keeps
// that one defect from masking tree verdicts.
func c03FixNegBinary(t *c03Node) {
	t.walk(func(n *c03Node) {
		if n.k == c03Un && n.op == "-" && n.kids[0].k == c03Lit && n.kids[0].lk == 'i' && len(n.kids[0].src) > 1 && n.kids[0].src[1] == 'b' {
			n.kids[0].src = strconv.FormatInt(n.kids[0].li, 10)
		}
	})
}

// ======================================================================
// C03: literal spellings.

// contexts a literal is placed in: source with %s, and which LiteralExpr (pre-order) it becomes
var c03LitCtx = []struct {
	f   string
	idx int
}{
	{"%s", 0}, {"x = %s", 0}, {"id(%s)", 0}, {"[%s, 1]", 0}, {"(%s)", 0}, {"%s # c", 0}, {"%s // c\n", 0}, {"%s\n", 0}, {"\t%s ", 0},
	{"%s ? 1 : 2", 0}, {"%s == 1", 0}, {"{\"k\": %s}", 1}, {"[1, %s]", 1}, {"1 + %s", 1}, {"id2(1,%s)", 1}, {"xs[%s:]", 0}, {"/* c */ %s", 0},
}

type c03Want struct {
	kind byte // 'i' 'f' 's'
	i    int64
	f    float64
	s    string
}

func (w c03Want) String() string {
	switch w.kind {
	case 'i':
		return "int64(" + strconv.FormatInt(w.i, 10) + ")"
	case 'f':
		return fmt.Sprintf("float64(%s|%016x)", strconv.FormatFloat(w.f, 'g', -1, 64), math.Float64bits(w.f))
	}
	return "string(" + strconv.Quote(w.s) + ")"
}

func c03Same(w c03Want, v interface{}) bool {
	switch w.kind {
	case 'i':
		x, ok := v.(int64)
		return ok && x == w.i
	case 'f':
		x, ok := v.(float64)
		return ok && math.Float64bits(x) == math.Float64bits(w.f)
	}
	x, ok := v.(string)
	return ok && x == w.s
}

func c03LitNodes(root ast.Stmt) []*ast.LiteralExpr {
	var out []*ast.LiteralExpr
	for _, ni := range astx.Nodes(root) {
		if l, ok := ni.Node.(*ast.LiteralExpr); ok {
			out = append(out, l)
		}
	}
	return out
}

// c03LitMust: the spelling denotes `want`; it must parse to exactly that
// literal in the given context and evaluate to it when written alone.
func c03LitMust(c *wk.Case, class, spelling string, want c03Want, ctx int) {
	cx := c03LitCtx[ctx%len(c03LitCtx)]
	src := fmt.Sprintf(cx.f, spelling)
	input := map[string]interface{}{"class": class, "spelling": spelling, "src": src, "want": want.String()}
	c.Begin(input)
	c.Eval("lit\x00"+src, true)
	c.Tag("lit:" + class)
	if c.WantSample() {
		c.Sample(input)
	}
	root, err, o := ank.Parse(src)
	c.Events(1)
	if o.Panicked {
		c.Violation("literal:panic:"+class+":"+o.PanicSig, "parser panicked: "+o.PanicVal, input)
		return
	}
	if err != nil {
		c.Violation("literal:rejected:"+class, "representable literal rejected: "+err.Error(), input)
		return
	}
	lits := c03LitNodes(root)
	if cx.idx >= len(lits) || !lits[cx.idx].Literal.IsValid() {
		c.Violation("literal:node:"+class, "no LiteralExpr where the literal was written: "+astx.Dump(root, astx.Opts{SkipParen: true}), input)
		return
	}
	got := lits[cx.idx].Literal.Interface()
	if !c03Same(want, got) {
		c.Violation("literal:value:"+class, "literal parsed to "+ank.Render(got)+", written "+want.String(), input)
		return
	}
	ex := ank.Exec(ank.NewCoreEnv(), spelling)
	c.Events(1)
	if ex.Panicked || ex.Err != nil || !c03Same(want, ex.Val) {
		c.Violation("literal:exec:"+class, "literal evaluates to "+ank.Render(ex.Val)+" err="+ank.ErrText(ex.Err)+", written "+want.String(), input)
		return
	}
	// the same through vm.ExecuteContext, the literal stored and read back
	ex = ank.ExecCtx(context.Background(), ank.NewCoreEnv(), "x = "+spelling+"; x")
	c.Events(1)
	if ex.Panicked || ex.Err != nil || !c03Same(want, ex.Val) {
		c.Violation("literal:exec-ctx:"+class, "`x = <literal>; x` through vm.ExecuteContext evaluates to "+ank.Render(ex.Val)+" err="+ank.ErrText(ex.Err)+", written "+want.String(), input)
	}
}

// c03LitNeg: `-`+spelling denotes -v. It may parse as the literal -v or as
// unary minus applied to the literal v; it must evaluate to exactly -v.
// mayReject: the positive spelling is itself out of range (2^63), so a reading
// as "unary minus of an unrepresentable literal" may legitimately reject it.
func c03LitNeg(c *wk.Case, class, spelling string, pos c03Want, sep string, mayReject bool) {
	src := "-" + sep + spelling
	neg := pos
	if neg.kind == 'i' {
		neg.i = -neg.i
	} else {
		neg.f = -neg.f
	}
	input := map[string]interface{}{"class": class, "src": src, "want": neg.String()}
	c.Begin(input)
	c.Eval("neg\x00"+src, true)
	c.Tag("lit:" + class)
	root, err, o := ank.Parse(src)
	c.Events(1)
	if o.Panicked {
		c.Violation("literal:panic:"+class+":"+o.PanicSig, "parser panicked: "+o.PanicVal, input)
		return
	}
	if err != nil {
		if mayReject {
			var pe *parser.Error
			if !errors.As(err, &pe) {
				c.Violation("literal:errtype:"+class, fmt.Sprintf("rejected with %T, not *parser.Error", err), input)
			}
			c.Tag("lit:" + class + ":rejected(allowed)")
			c03ExecMustReject(c, class, src, input) // rejected by the parser: rejected by Execute too
			return
		}
		c.Violation("literal:rejected:"+class, "representable negative literal rejected: "+err.Error(), input)
		return
	}
	ss := astx.StmtList(root)
	var e ast.Expr
	if len(ss) == 1 {
		if es, ok := ss[0].(*ast.ExprStmt); ok {
			e = es.Expr
		}
	}
	okShape := false
	switch x := e.(type) {
	case *ast.LiteralExpr:
		okShape = x.Literal.IsValid() && c03Same(neg, x.Literal.Interface())
	case *ast.UnaryExpr:
		if l, ok := x.Expr.(*ast.LiteralExpr); ok && x.Operator == "-" && !mayReject {
			okShape = l.Literal.IsValid() && c03Same(pos, l.Literal.Interface())
		}
	}
	if !okShape {
		c.Violation("literal:value:"+class, "parsed neither to the literal "+neg.String()+" nor to unary minus of "+pos.String()+": "+astx.Dump(root, astx.Opts{SkipParen: true}), input)
		return
	}
	ex := ank.Exec(ank.NewCoreEnv(), src)
	c.Events(1)
	if ex.Panicked || ex.Err != nil || !c03Same(neg, ex.Val) {
		c.Violation("literal:exec:"+class, "evaluates to "+ank.Render(ex.Val)+" err="+ank.ErrText(ex.Err)+", written "+neg.String(), input)
	}
}

// c03LitReject: the spelling is not representable (or not a number at all): a *parser.Error is required.
func c03LitReject(c *wk.Case, class, spelling string, ctx int) {
	cx := c03LitCtx[ctx%len(c03LitCtx)]
	src := fmt.Sprintf(cx.f, spelling)
	input := map[string]interface{}{"class": class, "spelling": spelling, "src": src, "want": "parse error"}
	c.Begin(input)
	c.Eval("rej\x00"+src, true)
	c.Tag("lit:" + class)
	root, err, o := ank.Parse(src)
	c.Events(1)
	if o.Panicked {
		c.Violation("literal:panic:"+class+":"+o.PanicSig, "parser panicked: "+o.PanicVal, input)
		return
	}
	if err == nil {
		c.Violation("literal:accepted:"+class, "unrepresentable/malformed literal accepted: "+astx.Dump(root, astx.Opts{SkipParen: true}), input)
		return
	}
	var pe *parser.Error
	if !errors.As(err, &pe) {
		c.Violation("literal:errtype:"+class, fmt.Sprintf("rejected with %T, not *parser.Error", err), input)
	}
	if root != nil {
		c.Tag("lit:rejected-with-tree")
	}
	// the second observation point: vm.Execute / vm.ExecuteContext reject it too and run nothing (c03_r6.go)
	c03ExecMustReject(c, class, src, input)
}

// ---- spellings ----

func c03MixCase(r *rand.Rand, s string) string {
	b := []byte(s)
	for i := range b {
		if b[i] >= 'a' && b[i] <= 'f' && r.Intn(2) == 0 {
			b[i] -= 32
		}
	}
	return string(b)
}

// c03LeadZeros: a run of 1..3 zeros (one draw in eight: 20..29 zeros, longer than any int64 has digits).
func c03LeadZeros(r *rand.Rand) string {
	n := 1 + r.Intn(3)
	if r.Intn(8) == 0 {
		n = 20 + r.Intn(10)
	}
	return strings.Repeat("0", n)
}

// "dec0": the decimal digits of v behind a run of zeros. The language has decimal,
// hexadecimal (0x) and binary (0b) integers and no octal form: a literal made of
// decimal digits only is a decimal integer and "denotes exactly what is written",
// so 010 is ten, 0755 is seven hundred and fifty-five, 08 is eight, and
// 09223372036854775807 is MaxInt64 (representable, hence not to be rejected).
func c03IntSpellings(r *rand.Rand, v int64) map[string]string {
	zeros := strings.Repeat("0", r.Intn(3)*r.Intn(3))
	return map[string]string{
		"dec":  strconv.FormatInt(v, 10),
		"dec0": c03LeadZeros(r) + strconv.FormatInt(v, 10),
		"hex":  "0x" + zeros + c03MixCase(r, strconv.FormatInt(v, 16)),
		"hexX": "0X" + c03MixCase(r, strconv.FormatInt(v, 16)),
		"bin":  "0b" + zeros + strconv.FormatInt(v, 2),
		"binB": "0B" + strconv.FormatInt(v, 2),
	}
}

// float spellings that denote f exactly (shortest round-trip digits)
func c03FloatSpellings(r *rand.Rand, f float64) map[string]string {
	out := map[string]string{}
	e := strconv.FormatFloat(f, 'e', -1, 64) // d.ddde±XX
	out["float-e+"] = e
	out["float-E"] = strings.Replace(e, "e", "E", 1)
	if strings.Contains(e, "e+") {
		out["float-e"] = strings.Replace(e, "e+", "e", 1)
		out["float-E-noplus"] = strings.Replace(e, "e+", "E", 1)
	}
	if i := strings.Index(e, "e"); i > 0 { // strip the leading zero of the exponent: 1e+06 -> 1e+6
		exp := e[i+2:]
		if len(exp) == 2 && exp[0] == '0' {
			out["float-e1"] = e[:i+2] + exp[1:]
		}
		if !strings.Contains(e[:i], ".") { // integral mantissa without a dot: 5e-324
			out["float-nodot"] = e
		}
	}
	if f == 0 || (f >= 1e-9 && f < 1e25) {
		s := strconv.FormatFloat(f, 'f', -1, 64)
		if !strings.Contains(s, ".") {
			s += ".0"
		}
		out["float-dot"] = s
		out["float-dot0"] = s + "0"
		// zeros in front of the integer part change nothing about the decimal fraction written: 010.5 is ten and a half
		out["float-lead0"] = c03LeadZeros(r) + s
	}
	out["float-lead0-e"] = c03LeadZeros(r) + e // 01e+01, 007.5e-03
	return out
}

var c03StrPool = []rune{'a', 'b', 'n', 't', 'x', 'u', '0', '4', '1', ' ', ' ', '"', '\'', '\\', '`', '\n', '\t', '\r', '\b', '\f',
	'é', '日', '😀', '#', '/', '*', '{', '}', '(', ';', ',', '$', '%', '-', '.', 'Z', '_'}

func c03DrawString(r *rand.Rand) string {
	n := r.Intn(13)
	rs := make([]rune, n)
	for i := range rs {
		rs[i] = c03StrPool[r.Intn(len(c03StrPool))]
		if r.Intn(8) == 0 {
			rs[i] = c03RandRune(r) // any non-ASCII character: written as itself (also directly after `\\`)
		}
	}
	return string(rs)
}

// c03RandRune draws a valid non-ASCII code point from the whole range; half of
// the draws get the low byte of an ASCII character that means something to the
// lexer (escape letters, quotes, backslash, newline), the classic victim of a
// rune-to-byte truncation.
func c03RandRune(r *rand.Rand) rune {
	var x rune
	switch r.Intn(4) {
	case 0:
		x = 0x80 + rune(r.Intn(0x3000-0x80))
	case 1:
		x = 0x3000 + rune(r.Intn(0xD800-0x3000))
	case 2:
		x = 0xE000 + rune(r.Intn(0x2000))
	default:
		x = 0x10000 + rune(r.Intn(0x100000))
	}
	if r.Intn(2) == 0 {
		const low = "bfnrt\\\"'`\n\r0xuae#/ "
		x = x&^0xFF | rune(low[r.Intn(len(low))])
		if x < 0x100 {
			x += 0x100
		}
	}
	if !utf8.ValidRune(x) { // surrogates
		x = 0x162
	}
	return x
}

// quoted spelling with the escapes the lexer documents: \\ \" \' \n \t \r \b \f,
// and a backslash before any other (punctuation) rune passes that rune through.
// Backslash before a letter or digit is never produced (\x41, \u.., \0 are undefined).
func c03Quote(r *rand.Rand, s string, q rune) string {
	var b strings.Builder
	b.WriteRune(q)
	for _, ch := range s {
		switch ch {
		case '\\':
			b.WriteString(`\\`)
		case '\n':
			b.WriteString(`\n`)
		case '\r':
			b.WriteString(`\r`)
		case '\b':
			b.WriteString(`\b`)
		case '\f':
			b.WriteString(`\f`)
		case '\t':
			if r.Intn(2) == 0 {
				b.WriteString(`\t`)
			} else {
				b.WriteRune(ch)
			}
		default:
			if ch == q {
				b.WriteRune('\\')
				b.WriteRune(ch)
			} else if ch < 0x80 && !c03IsWord(byte(ch)) && ch != ' ' && r.Intn(4) == 0 {
				b.WriteRune('\\') // pass-through escape of punctuation, incl. the other quote and the back-quote
				b.WriteRune(ch)
			} else {
				b.WriteRune(ch)
			}
		}
	}
	b.WriteRune(q)
	return b.String()
}

var c03IntPool = []int64{0, 1, 2, 5, 7, 10, 255, 256, 4095, 4096, 4097, 65535, 1<<31 - 1, 1 << 31, 1 << 32, 1<<53 - 1, 1 << 53, 1<<53 + 1,
	1 << 62, math.MaxInt64 - 1, math.MaxInt64, 0x5555555555555555, 1000000007, 123456789012345678}

// values spelled with leading zeros in the fixed case
var c03Lead0Pool = []int64{0, 1, 7, 8, 9, 10, 17, 18, 19, 42, 77, 80, 89, 98, 100, 101, 108, 644, 755, 777, 1000, 1777, 2019, 8080, 9999, 1234567, 7654321, 1<<31 - 1,
	1 << 32, 1000000007, 1 << 53, 1 << 62, 777777777777777777, 888888888888888888, 999999999999999999, 1000000000000000000, math.MaxInt64 - 1, math.MaxInt64}

var c03FloatPool = []float64{0, 0.5, 1, 1.5, 2.5, 0.1, 0.2, 0.3, 1.0 / 3, 4.35, 1e6, 1e15, 1e16, 1e21, 1e22, 1e23, 1e-7, 1e-5, 123.456,
	math.MaxFloat64, math.SmallestNonzeroFloat64, 2.2250738585072014e-308, 2.2250738585072011e-308, 1 << 53, 1<<53 + 2, 9007199254740993,
	9.223372036854775807e18, 1.7976931348623157e308, 5e-324, 3.141592653589793, 2.718281828459045, 6.02214076e23, 1.602176634e-19}

// fixed spellings whose value is given by a Go constant (compile-time exact rounding: an independent reference)
var c03FixedFloats = []struct {
	s string
	f float64
}{
	{"1e3", 1e3}, {"1E3", 1e3}, {"1e+3", 1e+3}, {"1e-3", 1e-3}, {"15e-1", 15e-1}, {"0.0", 0.0}, {"100.0", 100.0}, {"1.50", 1.50},
	{"0.1", 0.1}, {"123456789012345678901234567890.0", 123456789012345678901234567890.0}, {"1.7976931348623157e308", 1.7976931348623157e308},
	{"4.9e-324", 4.9e-324}, {"0.000001", 0.000001}, {"9007199254740993.0", 9007199254740993.0}, {"1e23", 1e23}, {"8.41e21", 8.41e21},
	{"2.2250738585072011e-308", 2.2250738585072011e-308}, {"0e0", 0e0}, {"12.5E+1", 12.5e+1}, {"3.0e0", 3.0e0},
}

var c03Malformed = []string{"1e", "0x", "0b", "1.2.3", "0b2", "0X", "0B", "1e+", "1e-", "1.2.3.4", "0b12", "1e5e3"}

var c03OutOfRange = []string{"9223372036854775808", "9223372036854775809", "18446744073709551615", "18446744073709551616", "99999999999999999999999",
	"0x8000000000000000", "0xFFFFFFFFFFFFFFFF", "0XFFFFFFFFFFFFFFFF", "0x10000000000000000", "0b1" + strings.Repeat("0", 63), "0b" + strings.Repeat("1", 64),
	"0B" + strings.Repeat("1", 64), "1e400", "1e309", "1.8e308", "2e308", "1E400", "1.0e+400", "123456789e999", "17976931348623159" + strings.Repeat("0", 292) + ".0"}

// c03LiteralCase: case 0 is the fixed deterministic list; the others draw values.
func c03LiteralCase(c *wk.Case, per int) {
	r := c.Rng
	if c.Index == 0 {
		// negative forms first (exercises the known finding deterministically)
		for _, sep := range []string{"", " "} {
			c03LitNeg(c, "neg-bin", "0b101", c03Want{kind: 'i', i: 5}, sep, false)
			c03LitNeg(c, "neg-hex", "0x10", c03Want{kind: 'i', i: 16}, sep, false)
			c03LitNeg(c, "neg-dec", "5", c03Want{kind: 'i', i: 5}, sep, false)
			c03LitNeg(c, "neg-float", "1.5e3", c03Want{kind: 'f', f: 1.5e3}, sep, false)
			c03LitNeg(c, "neg-float", "0.0", c03Want{kind: 'f', f: 0}, sep, false)
			c03LitNeg(c, "neg-dec", "9223372036854775807", c03Want{kind: 'i', i: math.MaxInt64}, sep, false)
			// 2^63 itself is not an int64: whether `-9223372036854775808` is one literal (MinInt64)
			// or minus applied to an unrepresentable one is not fixed by the statement: both accepted.
			c03LitNeg(c, "neg-dec-min", "9223372036854775808", c03Want{kind: 'i', i: math.MinInt64}, sep, true)
			c03LitNeg(c, "neg-hex-min", "0x8000000000000000", c03Want{kind: 'i', i: math.MinInt64}, sep, true)
		}
		for i, v := range c03IntPool {
			for cl, s := range c03IntSpellings(r, v) {
				c03LitMust(c, cl, s, c03Want{kind: 'i', i: v}, i)
			}
		}
		// decimal integers behind 1, 2, 3 and 21 zeros: values whose digits are all below 8 (a reading in
		// another base gives another number), values with the digits 8 and 9, and the int64 boundaries
		for i, v := range c03Lead0Pool {
			d := strconv.FormatInt(v, 10)
			for nz, z := range []string{"0", "00", "000", strings.Repeat("0", 21)} {
				c03LitMust(c, "dec0", z+d, c03Want{kind: 'i', i: v}, 0)
				c03LitMust(c, "dec0", z+d, c03Want{kind: 'i', i: v}, 1+i+nz)
				c03LitNeg(c, "neg-dec0", z+d, c03Want{kind: 'i', i: v}, []string{"", " "}[(i+nz)%2], false)
			}
		}
		for i, f := range []struct {
			s string
			f float64
		}{{"010.5", 10.5}, {"01e1", 1e1}, {"00.5", 0.5}, {"007.25e2", 7.25e2}, {"08.0", 8.0}, {"019.75", 19.75}, {"0010E-1", 10e-1}, {"09e0", 9e0}, {"0123.0e+1", 123.0e+1}} {
			c03LitMust(c, "float-lead0-fixed", f.s, c03Want{kind: 'f', f: f.f}, i)
			c03LitNeg(c, "neg-float-lead0", f.s, c03Want{kind: 'f', f: f.f}, []string{"", " "}[i%2], false)
		}
		for i, f := range c03FixedFloats {
			c03LitMust(c, "float-fixed", f.s, c03Want{kind: 'f', f: f.f}, i)
		}
		for i, f := range c03FloatPool {
			for cl, s := range c03FloatSpellings(r, f) {
				c03LitMust(c, cl, s, c03Want{kind: 'f', f: f}, i)
			}
		}
		for i, s := range c03Malformed {
			c03LitReject(c, "malformed", s, 0)
			c03LitReject(c, "malformed", s, i+1)
		}
		for i, s := range c03OutOfRange {
			c03LitReject(c, "out-of-range", s, 0)
			c03LitReject(c, "out-of-range", s, i+1)
		}
		// zeros in front do not make an unrepresentable decimal representable
		for i, s := range []string{"09223372036854775808", "0009223372036854775809", "018446744073709551615", "0018446744073709551616", "099999999999999999999999",
			"01000000000000000000000", "0777777777777777777777777", "01e400", "002e308"} {
			c03LitReject(c, "out-of-range-lead0", s, 0)
			c03LitReject(c, "out-of-range-lead0", s, i+1)
		}
		for _, sep := range []string{"", " "} {
			c03LitNeg(c, "neg-dec0-min", "09223372036854775808", c03Want{kind: 'i', i: math.MinInt64}, sep, true) // as neg-dec-min: both accepted
		}
		// below MinInt64: not representable whichever way the minus sign is read
		for i, s := range []string{"-9223372036854775809", "-18446744073709551615", "-0x8000000000000001", "-0xFFFFFFFFFFFFFFFF", "-0XC000000000000000",
			"-0x10000000000000000", "-0b1" + strings.Repeat("0", 62) + "1", "-0b" + strings.Repeat("1", 64), "- 0xFFFFFFFFFFFFFFFF", "-1e400",
			"-09223372036854775809", "-00018446744073709551615", "- 09223372036854775809"} {
			c03LitReject(c, "out-of-range-negative", s, 0)
			c03LitReject(c, "out-of-range-negative", s, i+1)
		}
		// every fixed rejected spelling in every script context, through ParseSrc, Execute and ExecuteContext (c03_r6.go)
		rej := map[string][]string{"malformed": c03Malformed, "out-of-range": c03OutOfRange,
			"out-of-range-lead0":    {"09223372036854775808", "018446744073709551616", "01e400"},
			"out-of-range-negative": {"-9223372036854775809", "-0xFFFFFFFFFFFFFFFF", "-0b" + strings.Repeat("1", 64), "-1e400", "- 9223372036854775809", "-1.5e400"}}
		for _, cl := range []string{"malformed", "out-of-range", "out-of-range-lead0", "out-of-range-negative"} {
			for _, s := range rej[cl] {
				for k := range c03RejCtx {
					c03LitRejectExec(c, cl, s, k)
				}
			}
		}
		for _, s := range c03AgreeFixed {
			c03ExecAgree(c, "fixed-error", s)
		}
		for _, s := range []string{"", "a", "\\", "\"", "'", "`", "\n", "a\nb", "\t\r\b\f", "\\n", "é日😀", "//x", "/*x*/", "#x", "a\\\"b", "''", "\"\"",
			"\\é", "é\\", "\\\u0162\\\U0001F46E", "\u0122\u0127\u0160\u2028\u0085\u00a0", "\\\\\u016e"} {
			c03Strings(c, r, s)
			c03Unterminated(c, r, s)
			c03InvalidUTF8(c, r, s)
		}
		c03LongNumerals(c, r, 16, true) // float numerals of 801..3000 characters (c03_r7.go)
		return
	}
	c03EscSweep(c, c.Index-1, 32)
	c03LongNumerals(c, r, 3, false)
	for k := 0; k < per; k++ {
		ctx := r.Intn(len(c03LitCtx))
		switch x := r.Intn(20); {
		case x < 6: // integers
			var v int64
			if r.Intn(4) == 0 {
				v = c03IntPool[r.Intn(len(c03IntPool))]
			} else {
				v = int64(r.Uint64()>>uint(1+r.Intn(63))) & math.MaxInt64
			}
			sp := c03IntSpellings(r, v)
			cl := []string{"dec", "hex", "hexX", "bin", "binB", "dec0", "dec0"}[r.Intn(7)]
			if r.Intn(5) == 0 {
				sep := []string{"", " "}[r.Intn(2)]
				ncl := "neg-" + strings.ToLower(cl[:3])
				if cl == "dec0" {
					ncl = "neg-dec0"
				}
				c03LitNeg(c, ncl, sp[cl], c03Want{kind: 'i', i: v}, sep, false)
			} else {
				c03LitMust(c, cl, sp[cl], c03Want{kind: 'i', i: v}, ctx)
			}
		case x < 11: // floats
			var f float64
			switch r.Intn(4) {
			case 0:
				f = c03FloatPool[r.Intn(len(c03FloatPool))]
			case 1:
				f = math.Abs(math.Float64frombits(r.Uint64()))
			case 2:
				f = float64(r.Intn(100000)) / float64(1+r.Intn(1000))
			default:
				f = r.Float64() * math.Pow(10, float64(r.Intn(40)-20))
			}
			if math.IsNaN(f) || math.IsInf(f, 0) {
				f = 1.5
			}
			sp := c03FloatSpellings(r, f)
			keys := []string{"float-e+", "float-E", "float-e", "float-E-noplus", "float-e1", "float-nodot", "float-dot", "float-dot0", "float-lead0", "float-lead0-e"}
			cl := keys[r.Intn(len(keys))]
			s, ok := sp[cl]
			if !ok {
				cl, s = "float-e+", sp["float-e+"]
			}
			if r.Intn(6) == 0 {
				c03LitNeg(c, "neg-float", s, c03Want{kind: 'f', f: f}, []string{"", " "}[r.Intn(2)], false)
			} else {
				c03LitMust(c, cl, s, c03Want{kind: 'f', f: f}, ctx)
			}
		case x < 17: // strings
			ds := c03DrawString(r)
			c03Strings(c, r, ds)
			if r.Intn(4) == 0 {
				c03Unterminated(c, r, ds)
			}
			if r.Intn(4) == 0 {
				c03InvalidUTF8(c, r, ds)
			}
		case x < 19: // out of range
			var s, cl string
			if r.Intn(2) == 0 {
				v := new(big.Int).Lsh(big.NewInt(1), 63)
				v.Add(v, new(big.Int).Rsh(new(big.Int).SetUint64(r.Uint64()), uint(r.Intn(64))))
				if r.Intn(3) == 0 {
					v.Lsh(v, uint(r.Intn(40)))
				}
				switch r.Intn(3) {
				case 0:
					s, cl = v.String(), "out-of-range-dec"
					if r.Intn(3) == 0 {
						s, cl = c03LeadZeros(r)+s, "out-of-range-dec0"
					}
				case 1:
					s, cl = "0x"+c03MixCase(r, v.Text(16)), "out-of-range-hex"
				default:
					s, cl = "0b"+v.Text(2), "out-of-range-bin"
				}
				if v.Cmp(new(big.Int).Lsh(big.NewInt(1), 63)) > 0 && r.Intn(2) == 0 {
					// magnitude above 2^63: the negated literal is below MinInt64
					s, cl = "-"+s, cl+"-negative"
				}
			} else {
				s, cl = fmt.Sprintf("%d.%de%s%d", 1+r.Intn(9), r.Intn(1000), []string{"", "+"}[r.Intn(2)], 309+r.Intn(5000)), "out-of-range-float"
				if r.Intn(2) == 0 {
					s = strings.Replace(s, "e", "E", 1)
				}
			}
			c03LitReject(c, cl, s, ctx)
			c03LitRejectExec(c, cl, s, r.Intn(len(c03RejCtx)))
		default:
			ms := c03Malformed[r.Intn(len(c03Malformed))]
			if r.Intn(2) == 0 {
				ms = c03DrawMalformed(r)
			}
			c03LitReject(c, "malformed", ms, ctx)
			c03LitRejectExec(c, "malformed", ms, r.Intn(len(c03RejCtx)))
		}
	}
}

func c03Strings(c *wk.Case, r *rand.Rand, s string) {
	ctx := r.Intn(len(c03LitCtx))
	if c03LitCtx[ctx].f == "xs[%s:]" {
		ctx = 0
	}
	want := c03Want{kind: 's', s: s}
	c03LitMust(c, "string-dq", c03Quote(r, s, '"'), want, ctx)
	c03LitMust(c, "string-sq", c03Quote(r, s, '\''), want, ctx+1)
	// raw strings: no back-quote inside; a carriage return is left out (Go drops it from raw strings, the statement does not say)
	if !strings.ContainsAny(s, "`\r") {
		c03LitMust(c, "string-raw", "`"+s+"`", want, ctx+2)
	}
}

// ---- backslash before a character that has no defined escape ----
//
// The statement gives the escapes \\ \" \' \n \t \r \b \f their Go value and
// says nothing about a backslash before another character (Go itself rejects
// `"\é"`), so the value of `"\X"` for a non-ASCII X is not judged against one
// expected string. Two things are fixed all the same:
//   - "literals denote exactly what is written": whatever the rule for an
//     undefined escape is, the denoted string is made of what was written: X
//     kept, backslash and X both kept, both dropped, or the literal rejected with
//     a parse error. A string holding a character that occurs nowhere in the
//     spelling (a control character, another letter) is not what was written.
//   - no X outside ASCII has a defined escape, so the rule cannot depend on
//     which X it is: all X of a sweep must be treated alike. They are compared
//     with each other and with three fixed anchors (U+00E9, U+65E5, U+1F600).
// The parts of the literal around `\X` are defined and must come out exactly.

// c03EscBlocks: first code points of the 256-code-point blocks swept completely
// in every run: all of U+0080..U+307F, and samples of the rest of the BMP and
// of the astral planes (one block per literals case, case 1 onwards).
var c03EscBlocks = func() []rune {
	var out []rune
	for lo := rune(0x80); lo < 0x3000; lo += 0x100 {
		out = append(out, lo)
	}
	out = append(out, 0x4E00, 0xAC00, 0xD700, 0xE000, 0xF900, 0xFE00, 0xFF00, 0x10000, 0x1D400,
		0x1F300, 0x1F400, 0x1F500, 0x1F600, 0x1F900, 0x20000, 0x2FF00, 0xE0000, 0xF0000, 0x10FF00)
	return out
}()

type c03EscCtx struct{ pre, preVal, post, postVal string }

// defined text around the undefined escape (no quote characters: valid in both quote styles)
var c03EscCtxs = []c03EscCtx{
	{"", "", "", ""},
	{"a", "a", "b", "b"},
	{`\n`, "\n", `\t`, "\t"},
	{`x\\`, `x\`, `\\y`, `\y`},
	{"é", "é", "日", "日"},
	{`\r\f\b `, "\r\f\b ", ` n`, " n"},
}

var c03EscQuotes = []struct {
	q     string
	class string
}{{`"`, "string-dq"}, {"'", "string-sq"}}

// c03EscOne parses one literal with `\X` in it and classifies the treatment of X.
// ok=false: a violation was already reported (or the parse panicked).
func c03EscOne(c *wk.Case, x rune, qi, ci int, doExec bool) (cls string, ok bool) {
	q, ctx := c03EscQuotes[qi], c03EscCtxs[ci%len(c03EscCtxs)]
	spelling := q.q + ctx.pre + `\` + string(x) + ctx.post + q.q
	input := map[string]interface{}{"class": q.class, "escaped": fmt.Sprintf("U+%04X", x), "src": spelling,
		"want": "the written characters only: " + strconv.Quote(ctx.preVal) + " + [X | \\X | nothing] + " + strconv.Quote(ctx.postVal) + ", or a parse error; the same choice for every non-ASCII X"}
	c.Begin(input)
	c.Eval("esc\x00"+spelling, true)
	root, err, o := ank.Parse(spelling)
	c.Events(1)
	if o.Panicked {
		c.Violation("literal:panic:undef-escape:"+o.PanicSig, "parser panicked: "+o.PanicVal, input)
		return "", false
	}
	if err != nil {
		var pe *parser.Error
		if !errors.As(err, &pe) {
			c.Violation("literal:errtype:undef-escape", fmt.Sprintf("rejected with %T, not *parser.Error", err), input)
			return "", false
		}
		c03ExecMustReject(c, "undef-escape", spelling, input) // rejected by the parser: rejected by Execute too
		return "rejected", true
	}
	lits := c03LitNodes(root)
	if len(lits) != 1 || !lits[0].Literal.IsValid() {
		c.Violation("literal:node:undef-escape:"+q.class, "one quoted string did not parse to one LiteralExpr: "+c03Clip(astx.Dump(root, astx.Opts{SkipParen: true})), input)
		return "", false
	}
	got, isStr := lits[0].Literal.Interface().(string)
	switch {
	case !isStr:
		cls = "other"
	case got == ctx.preVal+string(x)+ctx.postVal:
		cls = "kept"
	case got == ctx.preVal+`\`+string(x)+ctx.postVal:
		cls = "kept-with-backslash"
	case got == ctx.preVal+ctx.postVal:
		cls = "dropped"
	default:
		cls = "other"
	}
	if cls == "other" {
		c.Violation("literal:undef-escape:not-what-is-written:"+q.class,
			"backslash before a character without a defined escape: the literal denotes "+ank.Render(lits[0].Literal.Interface())+
				", which is not made of the characters written", input)
		return "", false
	}
	if doExec {
		ex := ank.Exec(ank.NewCoreEnv(), spelling)
		c.Events(1)
		if v, isS := ex.Val.(string); ex.Panicked || ex.Err != nil || !isS || v != got {
			c.Violation("literal:exec:undef-escape:"+q.class, "literal parses to "+strconv.Quote(got)+" but evaluates to "+ank.Render(ex.Val)+" err="+ank.ErrText(ex.Err), input)
			return "", false
		}
	}
	return cls, true
}

// c03EscSweep: block b of c03EscBlocks (every code point, both quote styles,
// rotating surroundings) plus `extra` code points drawn from the whole range.
func c03EscSweep(c *wk.Case, b, extra int) {
	// reference treatment: the anchors, which must agree among themselves
	var ref [2]string
	for qi := range c03EscQuotes {
		for ai, a := range []rune{0xE9, 0x65E5, 0x1F600} {
			cls, ok := c03EscOne(c, a, qi, ai, false)
			if !ok {
				return
			}
			if ref[qi] == "" {
				ref[qi] = cls
			} else if cls != ref[qi] {
				c.Violation("literal:undef-escape:not-uniform:"+c03EscQuotes[qi].class, fmt.Sprintf("`\\X` is treated as %q for U+00E9 but as %q for U+%04X", ref[qi], cls, a),
					map[string]interface{}{"class": c03EscQuotes[qi].class, "escaped": fmt.Sprintf("U+%04X", a)})
				return
			}
		}
	}
	one := func(x rune, k int) {
		if !utf8.ValidRune(x) || x < 0x80 {
			return
		}
		for qi := range c03EscQuotes {
			cls, ok := c03EscOne(c, x, qi, k+qi, k%16 == 0)
			if !ok {
				continue
			}
			c.Tag("lit:undef-escape:" + c03EscQuotes[qi].class + ":" + cls)
			if cls != ref[qi] {
				c.Violation("literal:undef-escape:not-uniform:"+c03EscQuotes[qi].class,
					fmt.Sprintf("`\\X` is treated as %q for U+00E9, U+65E5, U+1F600 but as %q for U+%04X", ref[qi], cls, x),
					map[string]interface{}{"class": c03EscQuotes[qi].class, "escaped": fmt.Sprintf("U+%04X", x), "reference": ref[qi], "got": cls})
			}
		}
	}
	if b >= 0 && b < len(c03EscBlocks) {
		for k := 0; k < 256; k++ {
			one(c03EscBlocks[b]+rune(k), k)
		}
		c.Tag("lit:undef-escape:block-swept")
	}
	for k := 0; k < extra; k++ {
		one(c03RandRune(c.Rng), c.Rng.Intn(64))
	}
}

// ======================================================================
// C03: plan and case dispatch.

const c03EnumBatch = 100

var c03Nbr []*c03Node

func c03EnumCounts() (nbrCases, k2, k3 int) {
	if c03Nbr == nil {
		c03Nbr = c03Neighbourhoods()
	}
	return (len(c03Nbr) + c03EnumBatch - 1) / c03EnumBatch, c03Count(2), c03Count(3)
}

func init() {
	wk.Register(&wk.Engine{
		ID: "C03",
		Plan: func(tier string) fw.Plan {
			nbrCases, k2, k3 := c03EnumCounts()
			enumCases := nbrCases + (k2+k3+c03EnumBatch-1)/c03EnumBatch
			trees, lits, reeval := 320, 200, 80
			if tier == "thorough" {
				trees, lits, reeval = 4000, 3000, 1500
			}
			return fw.Plan{
				Level: "exploration",
				Rule: "phase enum (complete every run): every tree with 2 and with 3 operators over the 19 binary operators (incl. ??, in) and ?: (" +
					strconv.Itoa(k2) + "+" + strconv.Itoa(k3) + " trees = all ordered pairs and triples in every shape), plus all unary x binary/?:/postfix/unary, binary x postfix, postfix x postfix " +
					"neighbourhoods and operators inside delimited slots (" + strconv.Itoa(len(c03Nbr)) + " trees); each spelled minimal, minimal without optional blanks, fully parenthesised (operators) and fully parenthesised (leaves too), " +
					"bare and embedded in a rotating statement position; each spelling must parse to the tree itself (AST converted back, ParenExpr/positions ignored, -5 ~ literal -5), dump identically, and minimal/full must evaluate alike. " +
					"phase trees: PRNG-drawn typed trees (depth<=6 quick, <=8 thorough) over all operators, postfix forms, literals (integers also as 0x/0b and behind leading zeros), names, calls, array/map/func literals, embedded in all " + strconv.Itoa(len(c03Positions)) + " statement positions (incl. the right-hand side of a two-target assignment `r, v = e`; the fully parenthesised spelling wraps the complete expression, a root that is no operator is wrapped in an extra spelling where the case is executed): same program tree and value. " +
					"phase literals: Go values spelled as decimal/0x/0X/0b/0B integers, decimal integers and floats behind 1..3 (one draw in eight 20..29) leading zeros (they denote the decimal number written: 010 is ten, 08 eight, 09223372036854775807 MaxInt64; fixed list of values with only digits below 8, with the digits 8 and 9 and at the int64 boundaries, each also negated; unrepresentable decimals stay rejected behind zeros), floats (., e, E, signed exponents), \"..\"/'..' strings with escapes, raw strings; negative forms; out-of-range and malformed spellings must give *parser.Error; " +
					"every rejected spelling (also the malformed shapes with drawn digits: several dots, two exponents, empty exponent, bare 0x/0b, binary digit above 1) is also handed to vm.Execute and vm.ExecuteContext, in its parse context and embedded in one of " + strconv.Itoa(len(c03RejCtx)) + " scripts (function body never called, dead branch, later statement, list/map item, call argument, case label: the fixed spellings in all of them): both must answer with a *parser.Error and a statement put in front of the script must not have taken effect; every accepted literal is also read back from `x = <literal>; x` through vm.ExecuteContext; " +
					"sources the statement does not require to be rejected (unterminated strings, fixed and drawn; doubled else/default; plain syntax errors): only the agreement is judged - what ParseSrc rejects, Execute and ExecuteContext reject; " +
					"string values also draw non-ASCII code points from the whole range (half of them with the low byte of a lexically meaningful ASCII character), written as themselves and after an escaped backslash; " +
					"undefined escapes (complete every run, one 256-code-point block per case from case 1): a backslash before every code point of U+0080..U+307F and of " + strconv.Itoa(len(c03EscBlocks)-0x30) + " further BMP/astral blocks, plus 32 drawn code points per case, in both quote styles with rotating defined surroundings: the literal must denote only characters that were written (X kept, backslash and X kept, both dropped, or *parser.Error) and the choice must be the same for every X (compared with U+00E9, U+65E5, U+1F600). " +
					"bare position also: the same source through a parser.Scanner re-initialised with Init must give ParseSrc's tree. " +
					"every executed tree (enum, trees) is also run twice more on its parsed tree (vm.RunContext, fresh equal environments): the result of vm.Execute each time, and the tree dumps as after the parse. " +
					"phase literals also: float numerals of 801..3000 characters (digits and an exponent, dot near the front / in the middle / behind more than 800 digits, 0.000..ddd, zeros in front, no exponent; digit patterns 1000.., 999.., few digits + deciding last digit, 2^53+1 + tail; 3 per case and a fixed list) against the exact value digits x 10^k built with big.Int from the drawn parts and rounded once by big.Rat.Float64: magnitudes 1e-300..1e305 parse to precisely that float64 (every fourth negated), from 1e311 on and integer numerals of more than 800 digits are rejected. " +
					"phase reeval (a literal denotes what is written EVERY time it is evaluated, the tree keeps spelling its source): per case 40 (thorough 60) programs of 1..3 units in one of " + strconv.Itoa(len(c03RVehicles)-1) + " vehicles that evaluate the same nodes again (straight line, C-style/for-in/condition loops, function called 2..4 times, function value in a loop, closures from one maker, recursion, try/switch/if in a loop, nested loops, module function). A unit draws a literal (integer dec/hex/bin/leading zeros, float, quoted/raw string, true/false/nil; numbers also with the lexer's minus), puts it behind one of " + strconv.Itoa(len(c03RCarriers)) + " carriers that hand its value on (bare, (..), ((..)), both arms of ?:, both sides of ??, list element, map member/key, id() result, func-literal result, *&), takes hold of it in one of " + strconv.Itoa(len(c03RAccess)-2) + " ways (address of the carrier: kept, copied, in a list, in a map, returned by a function that is called again, passed through a host function, pointer to the pointer, used inside a closure, two pointers swapped; value bound by assignment, var, multi-assignment, parameter, list element, map value, function result, address of a call result; address of a drawn expression tree), hands the value to the recorder see(tag, v), and then tries to change it (store, two stores, op-assign, ++/--, host function storing through the pointer by reflection, host functions with *int64/*float64/*string/*bool/*interface{} parameters, script function, closure). Plus 3 (4) tables of 1..300 (1500) literals (sizes around 32/64/100/128/256 favoured): one list, rows, one see() statement each, or a list of the addresses of all literals read and overwritten in two passes; plus a canary of true/false/nil/0/1/2.5/\"s\" and x++/x-- read through a fresh parse at the end of every case. Each program is parsed once and the tree run 2..3 times (vm.RunContext) in fresh equal environments, then its source is run by vm.Execute; the previous program's tree is dumped and run once more after each program. Judged: (value) every record of a tracked literal holds exactly the written Go value (type and bits), table literals parse and evaluate to the written values in order; (tree) the dump with positions and all Literal values bit for bit is after every run what it was after the parse, also after another source was parsed and run; (rerun) later runs of the tree and the fresh parse give the outcome and records of the first run. " +
					"non-trivial = tree with >=2 operators, or any literal check, or any reeval program; distinct = distinct (position, minimal source) / (literal source) / (program source)." + c03R8Rule,
				Assumptions: []string{
					"strconv.FormatFloat(-1) emits digits that denote the float exactly; Go constant arithmetic is the reference for fixed float spellings",
					"unspecified, kept out or accepted both ways: `<-`, ++/--/op=, escapes before letters/digits (\\x41), `1.`, `.5`, float underflow (1e-400), CR in raw strings, numeric literal directly before `.name` or `...` (`5.x`, `f(1...)`: where the number token ends is not fixed by the statement), top-level `in`/map literal directly after `for`, -2^63 spelled with a minus sign (MinInt64 or rejection)",
					"a backslash before a non-ASCII character has no defined value (Go rejects it): only 'made of the written characters' and 'the same rule for every such character' are judged",
					"chained `in` (`a in xs in ys`) is generated bare: it parses right-associatively although the statement says left; reported every run as a known finding (the baseline suite pins the right-associative reading in TestItemInList). The earlier constants are false, their workload is on: numeric literal as the bare base of call/index/slice (`-5[0]` parses to (-5)[0]: reported every run as a known finding), `r, v = (m[k])` and the re-initialised Scanner (both repaired in /repo)",
					"run-time errors of type-wild trees are not judged, only that both spellings agree",
					"a parse error is found before the run starts: a script the parser rejects has no tree, so vm.Execute/vm.ExecuteContext run no part of it; the value they hand back next to the error is not judged, nor is the wording or position of the error",
					"PENDING (c03PendingFix_InvalidUTF8 = true, class not generated): a string literal holding bytes that are no UTF-8 encoding must denote exactly those bytes or be rejected with a *parser.Error; today []rune(src) turns each such byte into U+FFFD (C03-r6-genuine.md #1)",
					"phase reeval: 'a literal denotes exactly what is written' is read as a statement about the literal node, hence about each of its evaluations and about the tree after any run; that *&x is x, that `p = &e; *p` is the value of e, and that a loop/function body is evaluated once per pass/call are taken from the language. The statements around the literals (for, func, try, module, op-assign, ++) are not C03's subject: a generated program the parser rejects is inconclusive, run errors and panics are not judged (C01), a run without error that records a literal another number of times than the program evaluates it is inconclusive; whether a host function with a typed pointer parameter accepts the script's pointer is not judged (call wrapped in try). -2^63, NaN/Inf and float underflow are not drawn",
					"long numerals: big.Rat.Float64 rounds the exact value to nearest-even (documented); the band between MaxFloat64 and 1e310 and everything below 1e-300 is not drawn. c03PendingFix_LongNegZero is false, its workload is on: `-0.000..0` beyond 800 characters is -0 like its shorter spellings (was +0; GENUINE.md #1, repaired in /repo as 6ccc49e)",
					"the statement names decimal, hexadecimal and binary integers and no octal form: a literal of decimal digits only is read as decimal whatever its first digit (leading zeros carry no meaning, as in Go's 010.5 and strconv base 10)",
					c03R8Assumptions[0], c03R8Assumptions[1], c03R8Assumptions[2],
				},
				Phases: append([]fw.Phase{
					{Name: "enum", Cases: enumCases, Chunk: 30, Exhaust: true, TimeoutS: 900},
					{Name: "literals", Cases: lits, Chunk: 25, TimeoutS: 900},
					{Name: "trees", Cases: trees, Chunk: 25, TimeoutS: 1800},
					{Name: "reeval", Cases: reeval, Chunk: 20, TimeoutS: 900},
				}, c03R8Phases(tier)...), // history, sizes, hot: see c03_r8.go
			}
		},
		Run: func(c *wk.Case) {
			if c03R8Run(c) {
				return
			}
			switch c.Phase {
			case "enum":
				c03EnumCase(c)
			case "literals":
				c03LiteralCase(c, 100)
			case "trees":
				c03TreesCase(c)
			case "reeval":
				c03ReevalCase(c)
			}
		},
	})
}

func c03EnumCase(c *wk.Case) {
	nbrCases, k2, k3 := c03EnumCounts()
	npos := len(c03Positions)
	if c.Index < nbrCases {
		lo := c.Index * c03EnumBatch
		for i := lo; i < lo+c03EnumBatch && i < len(c03Nbr); i++ {
			t := c03Nbr[i]
			origin := "enum/neighbourhood#" + strconv.Itoa(i)
			c03CheckTree(c, t, 0, true, origin)
			c03CheckTree(c, t, 1+i%(npos-1), true, origin)
			if t.k == c03Idx && 1+i%(npos-1) != c03TwoTargetPos {
				c03CheckTree(c, t, c03TwoTargetPos, true, origin) // every index-rooted neighbourhood also as `r, v = x[i]`
			}
		}
		return
	}
	lo := (c.Index - nbrCases) * c03EnumBatch
	for i := lo; i < lo+c03EnumBatch && i < k2+k3; i++ {
		var t *c03Node
		origin := ""
		if i < k2 {
			t = c03Unrank(2, i)
			origin = "enum/2ops#" + strconv.Itoa(i)
		} else {
			t = c03Unrank(3, i-k2)
			origin = "enum/3ops#" + strconv.Itoa(i-k2)
		}
		c03NameLeaves(t)
		c03CheckTree(c, t, 0, true, origin)
		c03CheckTree(c, t, 1+i%(npos-1), i%4 == 0, origin)
	}
}

func c03TreesCase(c *wk.Case) {
	maxDepth, per := 6, 50
	if c.Tier == "thorough" {
		maxDepth, per = 8, 100
	}
	npos := len(c03Positions)
	for k := 0; k < per; k++ {
		g := &c03Gen{r: c.Rng, budget: 40 + c.Rng.Intn(80)}
		d := 2 + c.Rng.Intn(maxDepth-1)
		t := g.gen('A', d)
		c03FixNegBinary(t)
		c.Tag("depth:" + strconv.Itoa(t.depth()))
		origin := "trees/" + strconv.Itoa(c.Index) + "." + strconv.Itoa(k)
		ex1, ex2 := c.Rng.Intn(npos), c.Rng.Intn(npos)
		for p := 0; p < npos; p++ {
			c03CheckTree(c, t, p, p == 0 || p == ex1 || p == ex2, origin)
		}
	}
}
