package main

// C15, round 6: texts that END inside an open token, as FIRST parts of a concatenation.
//
// "If two texts each parse on their own, their concatenation with a newline parses to the concatenation
// of their statement lists": the hypothesis is about what ParseSrc answers for each text alone, whatever
// a reader thinks of the text. A text that ends in an unterminated string, raw string or block comment,
// or in a half-written number or a stray byte, normally does not parse alone and is then outside the
// clause. When the parser does accept such a text (for instance because the scanner error that came
// with a token read ahead is lost), the clause applies to it: A+"\n"+B must still contain B's
// statements, shifted by A's lines. With an accepted open raw string or comment that is impossible -
// the open token swallows B - so the composition oracle of c15.go reports it. Nothing here demands that
// an open-ended text fails or parses (the statement is silent about which texts are programs); every
// text is judged by the oracles of c15.go only:
//   - whatever the outcome, an error is a *parser.Error inside the text,
//   - two parses of the text agree (also after other inputs),
//   - IF the text parses alone it composes with every partner that parses alone, in both orders.
//
// Generators:
//   phase "openends" (deterministic): every token (operators, keywords, atoms) at the end of six stems
//     (two with every tail, four with one tail of every kind) x gap x "tail", the tails being every kind of open or malformed token the scanner reports
//     (unterminated raw string / string / char / block comment, escaped line end at EOF, half numbers,
//     '..', stray and invalid bytes) and, as the control group that keeps the composition non-vacuous,
//     their terminated counterparts and line comments;
//   phase "fuzz": after the PRNG inputs, 30 "open-end mutants" of corpus scripts per case (cut inside a
//     quoted token, token after a random token replaced by an open tail, closing quote removed, open
//     tail after an '='); every fuzz input that parses alone is composed with a partner;
//   phase "corpus": every prefix of a corpus script that parses alone is composed with a partner.

import (
	"strings"
	"sync"

	"verifharness/internal/astx"
	"verifharness/internal/wk"
)

// second parts: texts that parse alone and contain what an open token of the first part would react to
// (back quotes, quotes, comment ends), and plain statements whose disappearance shows in the count
var c15OpenPartners = []string{
	"b = 2",
	"b = `q`\nc = b",
	"if b { c }",
	"d = \"`\"",
	"e = 1 /* c */ + 2",
	"f('\"', \"'\")",
	"# ` \" ' */\ng = 3",
	"x = `r\nw`\ny",
	"/* ` */ h",
	"s = \"a\\\nb\"",
	"\n\nk = [1,\n2]",
	"v = <- c",
}

type c15Partner struct {
	src string
	r   *c15Res
}

var (
	c15OpenPartnersOnce sync.Once
	c15OpenPartnersOK   []c15Partner
)

// c15Partners parses the partner texts once per process (parsing has no memory between calls, so a
// result obtained earlier is as good as a fresh one; the trees are only read).
func c15Partners(c *wk.Case) []c15Partner {
	c15OpenPartnersOnce.Do(func() {
		for _, p := range c15OpenPartners {
			c.Begin(c15BeginInput("open-partner", p))
			r := c15Parse(p, c15CPUBudget, true)
			c.Events(1)
			if r.ok { // the clause speaks about texts that parse on their own
				c15OpenPartnersOK = append(c15OpenPartnersOK, c15Partner{p, r})
			}
		}
	})
	return c15OpenPartnersOK
}

// c15ComposeWithPartner: a parses alone (ra.ok) - it is the first part of a concatenation with the
// k-th partner.
func c15ComposeWithPartner(c *wk.Case, gen, a string, ra *c15Res, k int) {
	if !ra.ok {
		return
	}
	ps := c15Partners(c)
	if len(ps) == 0 {
		return
	}
	if k < 0 {
		k = -k
	}
	p := ps[k%len(ps)]
	c15Compose(c, gen, a, p.src, ra, p.r)
}

// ---- phase "openends" ----

// tails: how a text can end (or go on) in a token the scanner cannot finish
var c15OpenTails = []string{
	// unterminated raw strings
	"`", "`abc", "`abc\n", "`abc\ndef = 1", "`é日本\n\n", "`\"", "``", "`a``",
	// unterminated strings / chars (at EOF, at a line end, after a backslash, after an escaped quote)
	"\"", "\"abc", "\"abc\n", "\"abc\\", "\"abc\\\n", "\"a\\\"", "\"`",
	"'", "'abc", "'\\", "'a\\'", "'abc\nd",
	// unterminated block comments
	"/*", "/* abc", "/* abc *", "/* abc\n* /", "/**", "/*/", "/* ` \" */ /*",
	// half-written numbers, '..', stray and invalid bytes
	"1e", "0x", "0b", "1.5.", "1a", "..", "$", "@", "\\", "~", "\x00", "\xff", "\xc3",
	// control group: the terminated counterparts, line comments (ended by the end of the text) and nothing
	"`abc`", "`a\nb`", "\"abc\"", "'c'", "/* c */", "/* c\n */ 1", "1", "b", "# c", "// c", "#", "",
}

// the first c15OpenTailsOpen tails are the open strings and comments
const c15OpenTailsOpen = 27

// one tail of every kind, for the stems that do not get the whole list
var c15OpenTailsCore = []string{"`abc", "`abc\ndef = 1", "\"abc", "'abc", "\"abc\\\n", "/* abc", "1e", "$", "`abc`", "\"abc\"", "# c", "b"}

// stems: the token %s ends the text's head; the first c15OpenStemsFull stems get every tail
var c15OpenStems = []string{"a %s", "a = b %s", "%s", "v, ok %s", "x = 1\na.b[0] %s", "f(1, %s"}

const c15OpenStemsFull = 2

var c15OpenGaps = []string{"", " ", "\n"}

func c15OpenTokens() []string {
	var out []string
	out = append(out, c15Ops...)
	out = append(out, c15Keywords...)
	out = append(out, c15Atoms...)
	return out
}

func c15OpenCases() int { return len(c15OpenTokens()) }

func c15TailClass(t string) string {
	switch {
	case t == "":
		return "none"
	case strings.HasPrefix(t, "`"):
		if len(t) > 1 && strings.Count(t, "`")%2 == 0 {
			return "raw-string-closed"
		}
		return "raw-string-open"
	case strings.HasPrefix(t, "\"") || strings.HasPrefix(t, "'"):
		if len(t) > 2 && t[len(t)-1] == t[0] && t[len(t)-2] != '\\' {
			return "string-closed"
		}
		return "string-open"
	case strings.HasPrefix(t, "/*"):
		if strings.HasSuffix(t, "*/") || strings.HasSuffix(t, " 1") {
			return "block-comment-closed"
		}
		return "block-comment-open"
	case strings.HasPrefix(t, "#") || strings.HasPrefix(t, "//"):
		return "line-comment"
	case t == "1" || t == "b":
		return "operand"
	}
	return "malformed-token"
}

// c15RunOpenEnds: case = the token the tail follows.
func c15RunOpenEnds(c *wk.Case) {
	toks := c15OpenTokens()
	if c.Index >= len(toks) {
		return
	}
	tok := toks[c.Index]
	ps := c15Partners(c)
	var keep []c15Kept
	n := 0
	for si, stem := range c15OpenStems {
		head := strings.ReplaceAll(stem, "%s", tok)
		tails := c15OpenTails
		if si >= c15OpenStemsFull {
			tails = c15OpenTailsCore
		}
		for _, gap := range c15OpenGaps {
			for _, tail := range tails {
				a := head + gap + tail
				n++
				ra := c15Check(c, "open-end", a)
				if n%64 == 0 && len(keep) < 24 {
					keep = append(keep, c15Kept{"open-end", a, ra})
				}
				cls := c15TailClass(tail)
				if !ra.ok {
					c.Tag("open-end-fails-alone:" + cls)
					continue
				}
				c.Tag("open-end-parses-alone:" + cls)
				if len(astx.StmtList(ra.tree)) == 0 {
					continue // blank first parts are covered by the edge square
				}
				for i, p := range ps {
					c15Compose(c, "pair:open-end+partner", a, p.src, ra, p.r)
					if i < 3 {
						c15Compose(c, "pair:partner+open-end", p.src, a, p.r, ra)
					}
				}
			}
		}
	}
	for _, k := range keep {
		c15Recheck(c, k.gen, k.src, k.r)
	}
}

// ---- open-end mutants of corpus scripts (phase "fuzz") ----

func c15IsQuoted(t string) bool {
	return len(t) >= 2 && (t[0] == '"' || t[0] == '\'' || t[0] == '`')
}

// c15OpenEndMutant makes a text that ends - or goes on - inside a token the scanner cannot finish.
func c15OpenEndMutant(c *wk.Case, scripts []string) (string, string) {
	s := scripts[c.Rng.Intn(len(scripts))]
	toks := c15Split(s)
	if len(toks) == 0 {
		return s + c15Pick(c, c15OpenTails), "open-tail-appended"
	}
	var quoted, assigns []int
	for j, t := range toks {
		if c15IsQuoted(t) {
			quoted = append(quoted, j)
		}
		if t == "=" {
			assigns = append(assigns, j)
		}
	}
	gap := []string{"", " ", " ", "\t", "\n"}[c.Rng.Intn(5)]
	switch r := c.Rng.Intn(8); {
	case r < 2 && len(quoted) > 0:
		// the text stops inside a quoted token: at least its closing delimiter is gone
		j := quoted[c.Rng.Intn(len(quoted))]
		cut := 1 + c.Rng.Intn(len(toks[j])-1)
		return strings.Join(toks[:j], "") + toks[j][:cut], "open-cut-in-quoted"
	case r < 3 && len(quoted) > 0:
		// only the closing delimiter is removed: the token goes on into the rest of the text
		j := quoted[c.Rng.Intn(len(quoted))]
		return strings.Join(toks[:j], "") + toks[j][:len(toks[j])-1] + strings.Join(toks[j+1:], ""), "open-closing-quote-removed"
	case r < 5 && len(assigns) > 0:
		// an open tail directly after an '='
		j := assigns[c.Rng.Intn(len(assigns))]
		return strings.Join(toks[:j+1], "") + gap + c15Pick(c, c15OpenTails[:c15OpenTailsOpen]), "open-tail-after-assign"
	case r < 6 && len(assigns) > 0:
		// an unterminated raw string after an '=', the rest of the text kept behind it
		j := assigns[c.Rng.Intn(len(assigns))]
		return strings.Join(toks[:j+1], "") + gap + "`" + strings.Join(toks[j+1:], ""), "open-raw-string-after-assign"
	default:
		// an open tail after any token
		j := c.Rng.Intn(len(toks))
		return strings.Join(toks[:j+1], "") + gap + c15Pick(c, c15OpenTails[:c15OpenTailsOpen]), "open-tail-after-token"
	}
}

// c15RunFuzzOpenEnds runs after the PRNG inputs of a fuzz case (so their draws stay what they were).
func c15RunFuzzOpenEnds(c *wk.Case, scripts []string) {
	if len(scripts) == 0 {
		return
	}
	for k := 0; k < 30; k++ {
		src, gen := c15OpenEndMutant(c, scripts)
		r := c15Check(c, gen, src)
		if r.ok {
			c.Tag("open-mutant-parses-alone")
			for i := 0; i < 3; i++ {
				c15ComposeWithPartner(c, "pair:open-mutant+partner", src, r, k+4*i)
			}
		}
	}
}
