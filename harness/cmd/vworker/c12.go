package main

// C12 — the environment API behaves as a parent-linked chain of dictionaries.
//
// Monitor: history + executable model, single goroutine. A history is a list
// of API calls (data: c12Op) on a growing forest of scopes. Every call is run
// on the real env package under recover and on an independent model written
// from the property statement (c12Scope: values, types, parent, external
// lookup). After EVERY call the call's results are compared with the model
// and the complete observable state of every live scope (value/type symbol
// sets, Get/GetValue and Type of every pool name from every scope) is
// compared with the model. A panic is a violation. Failing histories are
// shrunk (re-executed from scratch with ops removed) before being reported.
//
// Behaviour the statement does not fix is accepted both ways (see the
// comments tagged "UNSPECIFIED" below).

import (
	"errors"
	"fmt"
	"math/rand"
	"reflect"
	"runtime"
	"sort"
	"strconv"
	"strings"

	"github.com/mattn/anko/env"

	"verifharness/internal/ank"
	"verifharness/internal/fw"
	"verifharness/internal/wk"
)

// ---------------------------------------------------------------------------
// pools

// value names: plain names (every one of them is also used as a module name),
// and dotted names (must be rejected by every define operation).
var c12ValNames = []string{"a", "b", "m", "x", "a.b", "m.x", ".a", ".", "a."}
var c12PlainNames = []string{"a", "b", "m", "x"}

// names used by type definitions (two of them shadow built-in type names,
// one is shared with the value pool, one is dotted)
var c12TypeNames = []string{"T", "U", "a", "int64", "string", "T.x"}

// names looked up by the state audit
var c12AuditTypeNames = []string{"T", "U", "a", "int64", "string", "bool", "interface", "T.x", "nosuch"}

type c12T struct{ F int }

var c12Types = []reflect.Type{
	reflect.TypeOf(int64(0)),
	reflect.TypeOf(""),
	reflect.TypeOf(true),
	reflect.TypeOf([]interface{}{}),
	reflect.TypeOf(map[string]interface{}{}),
	reflect.TypeOf(c12T{}),
	reflect.TypeOf((*env.Env)(nil)),
	nil, // "the type of nil" (env.NilType)
	reflect.TypeOf(float64(0)),
}

// a sample value of every pool type (for DefineType(symbol, value))
var c12TypeSamples = []interface{}{int64(0), "", true, []interface{}{}, map[string]interface{}{}, c12T{}, (*env.Env)(nil), nil, float64(0)}

// built-in type names the audit looks at. The statement only says built-in
// names resolve last; which Go type each of these names denotes is taken from
// the name itself.
var c12Builtin = map[string]reflect.Type{
	"int64":     reflect.TypeOf(int64(0)),
	"string":    reflect.TypeOf(""),
	"bool":      reflect.TypeOf(true),
	"interface": reflect.TypeOf((*interface{})(nil)).Elem(),
}

// ---------------------------------------------------------------------------
// operations (pure data, so a history can be re-executed and shrunk)

type c12Op struct {
	K   string   `json:"k"`           // operation kind
	S   int      `json:"s"`           // handle of the addressed scope
	N   string   `json:"n,omitempty"` // symbol
	V   int      `json:"v,omitempty"` // value code: 0..7 pool, >=100 the int64 itself
	A   int      `json:"a"`           // >=0: the value is the *env.Env of this scope handle
	F   int      `json:"f,omitempty"` // API form (interface / reflect.Value / addressable / boxed and read-only reflect.Values, c12_r6.go; Get vs GetValue; type forms)
	T   int      `json:"t,omitempty"` // type pool index
	P   []string `json:"p,omitempty"` // path
	X   int      `json:"x"`           // external lookup object (-1 = nil)
	New int      `json:"new"`         // handle given to the scope this op creates
}

func (o *c12Op) key(b *strings.Builder) {
	b.WriteString(o.K)
	b.WriteByte(' ')
	b.WriteString(strconv.Itoa(o.S))
	b.WriteByte(' ')
	b.WriteString(o.N)
	b.WriteByte(' ')
	b.WriteString(strconv.Itoa(o.V))
	b.WriteByte(' ')
	b.WriteString(strconv.Itoa(o.A))
	b.WriteByte(' ')
	b.WriteString(strconv.Itoa(o.F))
	b.WriteByte(' ')
	b.WriteString(strconv.Itoa(o.T))
	b.WriteByte(' ')
	b.WriteString(strings.Join(o.P, "/"))
	b.WriteByte(' ')
	b.WriteString(strconv.Itoa(o.X))
	b.WriteByte(' ')
	b.WriteString(strconv.Itoa(o.New))
	b.WriteByte(';')
}

// ---------------------------------------------------------------------------
// external lookup owned by the harness

type c12Ext struct {
	id    int
	vals  map[string]reflect.Value
	mvals map[string]interface{}
	types map[string]reflect.Type
	calls int
	flt   *c12R10Fault // round 10: the lookup objects of a world can be armed to fail at their k-th call (c12_r10.go)
}

var errC12Ext = errors.New("c12ext: not found")

func (x *c12Ext) Get(n string) (reflect.Value, error) {
	x.calls++
	if x.flt != nil && x.flt.hit(x, false) {
		return x.flt.getAnswer()
	}
	if v, ok := x.vals[n]; ok {
		return v, nil
	}
	return reflect.Value{}, errC12Ext
}

func (x *c12Ext) Type(n string) (reflect.Type, error) {
	x.calls++
	if x.flt != nil && x.flt.hit(x, true) {
		return x.flt.typeAnswer()
	}
	if t, ok := x.types[n]; ok {
		return t, nil
	}
	return nil, errC12Ext
}

// ---------------------------------------------------------------------------
// the model: a parent-linked chain of dictionaries

type c12Scope struct {
	h      int // handle; -1 for scopes that exist only inside a deep copy
	parent *c12Scope
	vals   map[string]interface{}
	types  map[string]reflect.Type
	ext    *c12Ext
	real   *env.Env // nil for hidden scopes
}

func c12NewScope(h int, parent *c12Scope, real *env.Env) *c12Scope {
	return &c12Scope{h: h, parent: parent, vals: map[string]interface{}{}, types: map[string]reflect.Type{}, real: real}
}

func (s *c12Scope) root() *c12Scope {
	for s.parent != nil {
		s = s.parent
	}
	return s
}

// lookupVal: nearest enclosing binding; a scope's external lookup is consulted
// after its own table.
func (s *c12Scope) lookupVal(n string) (interface{}, bool) {
	for ; s != nil; s = s.parent {
		if v, ok := s.vals[n]; ok {
			return v, true
		}
		if s.ext != nil {
			if v, ok := s.ext.mvals[n]; ok {
				return v, true
			}
		}
	}
	return nil, false
}

// lookupType: same walk, built-in type names last.
func (s *c12Scope) lookupType(n string) (reflect.Type, bool) {
	for ; s != nil; s = s.parent {
		if t, ok := s.types[n]; ok {
			return t, true
		}
		if s.ext != nil {
			if t, ok := s.ext.types[n]; ok {
				return t, true
			}
		}
	}
	t, ok := c12Builtin[n]
	return t, ok
}

// nearestTable returns the nearest scope whose own table binds n, and whether
// an external lookup of a nearer scope also supplies n.
func (s *c12Scope) nearestTable(n string) (t *c12Scope, extShadow bool) {
	for ; s != nil; s = s.parent {
		if _, ok := s.vals[n]; ok {
			return s, extShadow
		}
		if s.ext != nil {
			if _, ok := s.ext.mvals[n]; ok {
				extShadow = true
			}
		}
	}
	return nil, extShadow
}

func (s *c12Scope) copyOne(h int, real *env.Env) *c12Scope {
	c := c12NewScope(h, s.parent, real)
	for k, v := range s.vals {
		c.vals[k] = v
	}
	for k, v := range s.types {
		c.types[k] = v
	}
	c.ext = s.ext
	return c
}

// ---------------------------------------------------------------------------
// world = real scopes + model scopes

type c12Fail struct {
	sig    string
	detail string
	op     int // index of the op in the history
}

type c12World struct {
	scopes  map[int]*c12Scope
	order   []int
	byReal  map[*env.Env]*c12Scope
	exts    [3]*c12Ext
	ptr     *int64
	verbose bool
	log     []string
	after   []string // observer calls made by the operation, logged after it

	apiCalls  int
	obsCalls  int
	audits    int
	executed  int
	skipped   int
	mutations int
	failedReq int
	tags      map[string]int
	fails     []c12Fail
	seenSig   map[string]bool
	dead      bool // model and implementation may have diverged: stop

	// A call that panicked may have left a lock held, so nothing may touch the
	// scopes it ran on any more. The world is rebuilt instead: the history so
	// far (without the panicking calls) is re-executed quietly on fresh scopes
	// and the history goes on from there.
	needRebuild bool
	quiet       bool
	skip        map[int]bool // ops that panicked: not re-executed
	undone      map[int]bool // ops whose UNSPECIFIED second variant was observed

	// names outside the fixed pools that the history has used (c12_r7.go): the
	// audit looks up the name the call just addressed from every scope, two more
	// of these names in rotation, and all of them every 64th audit and whenever a
	// scope has just been copied
	longVals   []string
	longTypes  []string
	longSeen   map[string]bool
	hotVal     string
	hotType    string
	sweepNext  bool
	sweeps     int
	stmtCalls  int
	churnCalls int

	// round 10 (c12_r10.go)
	flt         *c12R10Fault
	faultOps    int
	faultsFired int
}

func c12NewWorld(verbose bool) *c12World {
	w := &c12World{scopes: map[int]*c12Scope{}, byReal: map[*env.Env]*c12Scope{}, ptr: new(int64), verbose: verbose,
		tags: map[string]int{}, seenSig: map[string]bool{}, skip: map[int]bool{}, undone: map[int]bool{}, longSeen: map[string]bool{}}
	for i := range w.exts {
		w.exts[i] = &c12Ext{id: i, vals: map[string]reflect.Value{}, mvals: map[string]interface{}{}, types: map[string]reflect.Type{}}
	}
	w.r10Init()
	return w
}

func (w *c12World) add(s *c12Scope) {
	w.scopes[s.h] = s
	w.order = append(w.order, s.h)
	w.byReal[s.real] = s
}

type c12Panic struct {
	msg, stack string
}

func c12Protect(f func()) (p *c12Panic) {
	defer func() {
		if r := recover(); r != nil {
			buf := make([]byte, 16<<10)
			buf = buf[:runtime.Stack(buf, false)]
			p = &c12Panic{msg: fmt.Sprint(r), stack: string(buf)}
		}
	}()
	f()
	return nil
}

func (p *c12Panic) sig() string { return ank.PanicSig(p.msg, p.stack) }

func (w *c12World) value(code int) interface{} {
	switch code {
	case 0:
		return nil
	case 1:
		return int64(1)
	case 2:
		return "s"
	case 3:
		return true
	case 4:
		return float64(2.5)
	case 5:
		return ""
	case 6:
		return w.ptr
	case 7:
		return int64(0)
	}
	return int64(code)
}

func (w *c12World) renderVal(v interface{}) string {
	if ro, ok := v.(c12RO); ok {
		return w.renderVal(ro.v) + " (read out of an unexported struct field)"
	}
	if e, ok := v.(*env.Env); ok && e != nil {
		if s := w.byReal[e]; s != nil {
			return "s" + strconv.Itoa(s.h)
		}
		return "*env.Env(unknown)"
	}
	if p, ok := v.(*int64); ok {
		if p == w.ptr {
			return "ptr0"
		}
		return "*int64(other)"
	}
	return ank.Render(v)
}

func c12TypeStr(t reflect.Type) string {
	if t == nil {
		return "NilType"
	}
	return t.String()
}

func c12Eq(a, b interface{}) (eq bool) {
	defer func() {
		if recover() != nil {
			eq = false
		}
	}()
	return a == b
}

func c12Dotted(n string) bool { return strings.Contains(n, ".") }

func (w *c12World) fail(opIdx int, sig, detail string) {
	if w.quiet || w.seenSig[sig] {
		return
	}
	w.seenSig[sig] = true
	w.fails = append(w.fails, c12Fail{sig: sig, detail: detail, op: opIdx})
}

// ---------------------------------------------------------------------------
// state audit: the complete observable state of every live scope

func c12SetDiff(got []string, want map[string]bool) string {
	seen := map[string]bool{}
	for _, g := range got {
		if seen[g] {
			return "duplicate symbol " + strconv.Quote(g)
		}
		seen[g] = true
		if !want[g] {
			return "lists " + strconv.Quote(g) + " which the scope does not bind"
		}
	}
	for k := range want {
		if !seen[k] {
			return "does not list " + strconv.Quote(k) + " which the scope binds"
		}
	}
	return ""
}

// audit returns ("", "") when the observable state equals the model, else the
// observer that differed and a description.
func (w *c12World) audit() (class, detail string) {
	w.audits++
	useValue := w.audits%2 == 0
	valNames, typeNames := w.auditNames()
	for _, h := range w.order {
		s := w.scopes[h]
		p := c12Protect(func() {
			// symbol sets
			want := map[string]bool{}
			for k := range s.vals {
				want[k] = true
			}
			w.obsCalls++
			if d := c12SetDiff(s.real.GetValueSymbols(), want); d != "" {
				class, detail = "GetValueSymbols", fmt.Sprintf("s%d.GetValueSymbols() %s", h, d)
				return
			}
			want = map[string]bool{}
			for k := range s.types {
				want[k] = true
			}
			w.obsCalls++
			if d := c12SetDiff(s.real.GetTypeSymbols(), want); d != "" {
				class, detail = "GetTypeSymbols", fmt.Sprintf("s%d.GetTypeSymbols() %s", h, d)
				return
			}
			// value lookups
			for _, n := range valNames {
				var got interface{}
				var err error
				w.obsCalls++
				if useValue {
					var rv reflect.Value
					rv, err = s.real.GetValue(n)
					if err == nil {
						if !rv.IsValid() {
							class, detail = "Get", fmt.Sprintf("s%d.GetValue(%q) returned an invalid reflect.Value without error", h, n)
							return
						}
						if !rv.CanInterface() {
							class, detail = "Get-readonly", fmt.Sprintf("s%d.GetValue(%q) returned, without an error, a reflect.Value that was read out of an unexported struct field (Interface() panics on it)", h, n)
							return
						}
						got = rv.Interface()
					}
				} else {
					got, err = s.real.Get(n)
				}
				wv, ok := s.lookupVal(n)
				if _, ro := wv.(c12RO); ro {
					// the nearest supplier is a lookup object answering a value reflect forbids
					// to hand out: the lookup is an invalid request - an error (c12_r7.go)
					fn := "Get"
					if useValue {
						fn = "GetValue"
					}
					if err == nil {
						class, detail = "Get-readonly", fmt.Sprintf("s%d.%s(%q) succeeded, but the nearest supplier of the name is a lookup object answering a reflect.Value read out of an unexported struct field", h, fn, n)
						return
					}
					// both observers are asked about such a name in every audit
					w.obsCalls++
					if useValue {
						fn = "Get"
						_, err = s.real.Get(n)
					} else {
						fn = "GetValue"
						_, err = s.real.GetValue(n)
					}
					if err == nil {
						class, detail = "Get-readonly", fmt.Sprintf("s%d.%s(%q) succeeded, but the nearest supplier of the name is a lookup object answering a reflect.Value read out of an unexported struct field", h, fn, n)
						return
					}
					continue
				}
				switch {
				case ok && err != nil:
					class, detail = "Get", fmt.Sprintf("s%d.Get(%q) fails with %q, the chain binds it to %s", h, n, err.Error(), w.renderVal(wv))
					return
				case !ok && err == nil:
					class, detail = "Get", fmt.Sprintf("s%d.Get(%q) = %s, but no enclosing scope binds it", h, n, w.renderVal(got))
					return
				case ok && !c12Eq(got, wv):
					class, detail = "Get", fmt.Sprintf("s%d.Get(%q) = %s, the nearest binding is %s", h, n, w.renderVal(got), w.renderVal(wv))
					return
				}
			}
			// type lookups
			for _, n := range typeNames {
				w.obsCalls++
				got, err := s.real.Type(n)
				wt, ok := s.lookupType(n)
				switch {
				case ok && err != nil:
					class, detail = "Type", fmt.Sprintf("s%d.Type(%q) fails with %q, the chain binds it to %s", h, n, err.Error(), c12TypeStr(wt))
					return
				case !ok && err == nil:
					class, detail = "Type", fmt.Sprintf("s%d.Type(%q) = %s, but nothing binds it", h, n, c12TypeStr(got))
					return
				case ok && got != wt:
					class, detail = "Type", fmt.Sprintf("s%d.Type(%q) = %s, the nearest binding is %s", h, n, c12TypeStr(got), c12TypeStr(wt))
					return
				}
			}
		})
		if p != nil {
			return "observer-" + p.sig(), fmt.Sprintf("observing s%d panicked: %s", h, p.msg)
		}
		if class != "" {
			return
		}
	}
	return "", ""
}

// ---------------------------------------------------------------------------
// path lookup in the model

// resolvePath returns the acceptable results (nil entry = an error) or any=true
// when the statement does not fix the outcome. The acceptable results are the
// results under every reading of the first element (c12_r5.go: pathReadings);
// the GetEnvFromPath operation additionally demands that ONE reading is
// followed for a path and for its one-element prefix.
func (w *c12World) resolvePath(s *c12Scope, path []string) (outs []*c12Scope, any bool) {
	if len(path) == 0 {
		return []*c12Scope{s}, false
	}
	seen := map[*c12Scope]bool{}
	for _, rd := range w.pathReadings(s, path[0]) {
		out, a := w.followPath(rd.start, path[1:])
		if a {
			return nil, true
		}
		if !seen[out] {
			seen[out] = true
			outs = append(outs, out)
		}
	}
	return outs, false
}

// ---------------------------------------------------------------------------
// executing one operation on both sides

func (w *c12World) logf(format string, a ...interface{}) {
	if w.verbose && !w.quiet {
		w.log = append(w.log, fmt.Sprintf(format, a...))
	}
}

func c12ErrStr(err error) string {
	if err == nil {
		return "nil"
	}
	return "error(" + strconv.Quote(err.Error()) + ")"
}

var c12DefineNames = map[string][3]string{
	"Define":       {"Define", "DefineValue", "DefineValue"},
	"DefineGlobal": {"DefineGlobal", "DefineGlobalValue", "DefineGlobalValue"},
	"Set":          {"Set", "SetValue", "SetValue"},
}

func (w *c12World) exec(i int, op *c12Op) {
	var s *c12Scope
	if op.K != "NewRoot" && !strings.HasPrefix(op.K, "Ext") {
		s = w.scopes[op.S]
		if s == nil {
			w.skipped++
			return
		}
	}
	if op.New >= 0 && w.scopes[op.New] != nil {
		w.skipped++
		return
	}
	w.executed++
	w.after = nil
	var pan *c12Panic
	call := ""          // rendered call
	outcome := ""       // rendered outcome
	expectFail := false // the model says the request is invalid
	mutated := false
	var undo func() // second variant of an UNSPECIFIED mutation
	label := op.K   // the operation's part of a violation signature
	if op.K == "Stmt" || op.K == "Churn" {
		label = c12R7Label(op)
	} else if op.K == "Fault" || op.K == "FaultType" {
		label = c12R10Label(op)
	}
	resFail := func(class, detail string) {
		w.fail(i, label+":"+class, call+": "+detail)
		w.dead = true
	}
	w.noteNames(op)

	switch op.K {
	case "NewRoot":
		call = fmt.Sprintf("s%d = env.NewEnv()", op.New)
		var e *env.Env
		w.apiCalls++
		pan = c12Protect(func() { e = env.NewEnv() })
		if pan == nil {
			if e == nil {
				resFail("result", "returned nil")
				break
			}
			w.add(c12NewScope(op.New, nil, e))
		}
	case "NewEnv":
		call = fmt.Sprintf("s%d = s%d.NewEnv()", op.New, op.S)
		var e *env.Env
		w.apiCalls++
		pan = c12Protect(func() { e = s.real.NewEnv() })
		if pan == nil {
			if e == nil || w.byReal[e] != nil {
				resFail("result", "did not return a fresh scope")
				break
			}
			w.add(c12NewScope(op.New, s, e))
		}
	case "NewModule":
		call = fmt.Sprintf("s%d, err = s%d.NewModule(%q)", op.New, op.S, op.N)
		var e *env.Env
		var err error
		w.apiCalls++
		pan = c12Protect(func() { e, err = s.real.NewModule(op.N) })
		if pan != nil {
			expectFail = c12Dotted(op.N)
			break
		}
		outcome = c12ErrStr(err)
		if c12Dotted(op.N) {
			expectFail = true
			if err == nil {
				resFail("no-error", "a name containing '.' was accepted")
			}
			break
		}
		if err != nil {
			resFail("unexpected-error", err.Error())
			break
		}
		if e == nil || w.byReal[e] != nil {
			resFail("result", "did not return a fresh scope")
			break
		}
		m := c12NewScope(op.New, s, e)
		w.add(m)
		s.vals[op.N] = e
		mutated = true
	case "Define", "DefineGlobal", "Set":
		var v interface{}
		if op.A >= 0 {
			a := w.scopes[op.A]
			if a == nil {
				w.executed--
				w.skipped++
				return
			}
			v = a.real
		} else {
			v = w.value(op.V)
		}
		form := op.F
		zeroRV := false
		if v == nil && form == 2 {
			// nil has no addressable form: pass the zero reflect.Value instead, which stands for nil too
			form, zeroRV = 1, true
		}
		var rv reflect.Value
		switch form {
		case 1:
			if zeroRV {
				rv = reflect.Value{}
			} else if v == nil {
				rv = env.NilValue
			} else {
				rv = reflect.ValueOf(v)
			}
		case 2:
			rv = reflect.New(reflect.TypeOf(v)).Elem()
			rv.Set(reflect.ValueOf(v))
		case c12FormMapElem, c12FormIfaceCell:
			// the value arrives boxed in a reflect.Value of kind Interface (c12_r6.go)
			rv = c12BoxValue(v, form)
		case c12FormROField, c12FormROCell, c12FormROStruct:
			// a reflect.Value read out of an unexported struct field (c12_r6.go)
			rv = c12ReadOnlyValue(v, form)
		}
		readOnly := form >= c12FormROField
		fn := c12DefineNames[op.K][c12Min(form, 1)]
		call = fmt.Sprintf("s%d.%s(%q, %s%s)", op.S, fn, op.N, w.renderVal(v), c12FormSuffix[form])
		if form >= c12FormMapElem {
			w.tags["bind:"+c12FormTag[form]]++
			if op.A >= 0 {
				w.tags["bind:module:"+c12FormTag[form]]++
			}
		}
		var err error
		w.apiCalls++
		pan = c12Protect(func() {
			switch {
			case op.K == "Define" && form == 0:
				err = s.real.Define(op.N, v)
			case op.K == "Define":
				err = s.real.DefineValue(op.N, rv)
			case op.K == "DefineGlobal" && form == 0:
				err = s.real.DefineGlobal(op.N, v)
			case op.K == "DefineGlobal":
				err = s.real.DefineGlobalValue(op.N, rv)
			case form == 0:
				err = s.real.Set(op.N, v)
			default:
				err = s.real.SetValue(op.N, rv)
			}
		})
		var target *c12Scope
		either := false
		switch op.K {
		case "Define":
			target = s
			expectFail = c12Dotted(op.N)
		case "DefineGlobal":
			target = s.root()
			expectFail = c12Dotted(op.N)
		case "Set":
			var shadow bool
			target, shadow = s.nearestTable(op.N)
			expectFail = target == nil
			// UNSPECIFIED: an external lookup of a nearer scope supplies the name,
			// so the "nearest existing binding" is one that cannot be updated.
			// Failing, and updating the nearest table binding, are both accepted.
			either = shadow && target != nil
		}
		if readOnly {
			// reflect forbids handing such a value out again as an interface value,
			// so no later Get could "return the nearest enclosing binding": the
			// request cannot be honoured and is invalid - an error, every scope
			// unchanged (the audit below), no panic.
			expectFail, either = true, false
		}
		if pan != nil {
			if either {
				expectFail = true
				w.dead = true
			}
			break
		}
		outcome = c12ErrStr(err)
		if readOnly {
			if err == nil {
				resFail("readonly-value-accepted", "a reflect.Value read out of an unexported struct field was accepted as a binding")
			}
			break
		}
		if either {
			w.tags["set:ext-shadowed"]++
			if err == nil {
				target.vals[op.N] = v
				mutated = true
			} else {
				expectFail = true
			}
			break
		}
		if expectFail {
			if err == nil {
				what := "a name containing '.' was accepted"
				if op.K == "Set" {
					what = "set of a name no enclosing scope binds succeeded"
				}
				resFail("no-error", what)
			}
			break
		}
		if err != nil {
			resFail("unexpected-error", err.Error())
			break
		}
		target.vals[op.N] = v
		mutated = true
	case "Get":
		fn := "Get"
		if op.F == 1 {
			fn = "GetValue"
		}
		call = fmt.Sprintf("s%d.%s(%q)", op.S, fn, op.N)
		var got interface{}
		var err error
		roGot := false
		w.apiCalls++
		pan = c12Protect(func() {
			if op.F == 1 {
				var rv reflect.Value
				rv, err = s.real.GetValue(op.N)
				if err == nil {
					if roGot = rv.IsValid() && !rv.CanInterface(); !roGot {
						got = rv.Interface()
					}
				}
			} else {
				got, err = s.real.Get(op.N)
			}
		})
		wv, ok := s.lookupVal(op.N)
		_, roWant := wv.(c12RO)
		expectFail = !ok || roWant
		if pan != nil {
			break
		}
		if err != nil {
			outcome = c12ErrStr(err)
		} else if roGot {
			outcome = "a read-only reflect.Value"
		} else {
			outcome = w.renderVal(got)
		}
		switch {
		case roWant:
			// a lookup object answers a value reflect forbids to hand out: no Get can
			// "return the nearest enclosing binding" - an invalid request (c12_r7.go)
			w.tags["get:readonly-from-lookup"]++
			if err == nil {
				resFail("readonly-value-answered", "succeeded, but the nearest supplier of the name is a lookup object answering a reflect.Value read out of an unexported struct field")
			}
		case roGot:
			resFail("result", "returned, without an error, a reflect.Value read out of an unexported struct field")
		case ok && err != nil:
			resFail("unexpected-error", fmt.Sprintf("%s, the nearest binding is %s", err.Error(), w.renderVal(wv)))
		case !ok && err == nil:
			resFail("no-error", fmt.Sprintf("returned %s for a name no enclosing scope binds", w.renderVal(got)))
		case ok && !c12Eq(got, wv):
			resFail("result", fmt.Sprintf("returned %s, the nearest binding is %s", w.renderVal(got), w.renderVal(wv)))
		}
	case "Addr":
		call = fmt.Sprintf("s%d.Addr(%q)", op.S, op.N)
		var rv reflect.Value
		var err error
		var got interface{}
		derefOK, roAddr := false, false
		w.apiCalls++
		pan = c12Protect(func() {
			rv, err = s.real.Addr(op.N)
			if err == nil && rv.IsValid() && rv.Kind() == reflect.Ptr && !rv.IsNil() {
				if roAddr = !rv.CanInterface() || !rv.Elem().CanInterface(); !roAddr {
					got = rv.Elem().Interface()
					derefOK = true
				}
			}
		})
		wv, ok := s.lookupVal(op.N)
		_, roWant := wv.(c12RO)
		expectFail = !ok || roWant
		if pan != nil {
			break
		}
		outcome = c12ErrStr(err)
		// UNSPECIFIED: which bindings are addressable; an error is always accepted.
		switch {
		case roWant:
			w.tags["addr:readonly-from-lookup"]++
			if err == nil {
				resFail("readonly-value-answered", "returned an address, but the nearest supplier of the name is a lookup object answering a reflect.Value read out of an unexported struct field")
			}
		case roAddr:
			resFail("result", "returned, without an error, the address of a value read out of an unexported struct field (it cannot be read through)")
		case !ok && err == nil:
			resFail("no-error", "returned an address for a name no enclosing scope binds")
		case ok && err == nil && !derefOK:
			resFail("result", "returned neither an error nor a non-nil pointer")
		case ok && err == nil && !c12Eq(got, wv):
			resFail("result", fmt.Sprintf("address of %s, the nearest binding is %s", w.renderVal(got), w.renderVal(wv)))
		}
		if err != nil {
			expectFail = true
		}
	case "Delete":
		call = fmt.Sprintf("s%d.Delete(%q)", op.S, op.N)
		w.apiCalls++
		pan = c12Protect(func() { s.real.Delete(op.N) })
		if pan == nil {
			if _, ok := s.vals[op.N]; ok {
				delete(s.vals, op.N)
				mutated = true
			}
		}
	case "DeleteGlobal":
		call = fmt.Sprintf("s%d.DeleteGlobal(%q)", op.S, op.N)
		w.apiCalls++
		pan = c12Protect(func() { s.real.DeleteGlobal(op.N) })
		if pan == nil {
			t, shadow := s.nearestTable(op.N)
			if t != nil {
				old := t.vals[op.N]
				delete(t.vals, op.N)
				mutated = true
				if shadow {
					// UNSPECIFIED: as for Set; "nothing deleted" is accepted as well.
					w.tags["deleteglobal:ext-shadowed"]++
					undo = func() { t.vals[op.N] = old }
				}
			}
		}
	case "DefineType", "DefineGlobalType":
		t := c12Types[op.T]
		global := op.K == "DefineGlobalType"
		fn := []string{"DefineType", "DefineType", "DefineReflectType"}[op.F]
		if global {
			fn = []string{"DefineGlobalType", "DefineGlobalType", "DefineGlobalReflectType"}[op.F]
		}
		arg := c12TypeStr(t)
		if op.F == 1 {
			arg = "a value of type " + arg
		}
		call = fmt.Sprintf("s%d.%s(%q, %s)", op.S, fn, op.N, arg)
		var err error
		w.apiCalls++
		pan = c12Protect(func() {
			switch {
			case op.F == 0 && !global:
				var a interface{}
				if t != nil {
					a = t
				}
				err = s.real.DefineType(op.N, a)
			case op.F == 1 && !global:
				err = s.real.DefineType(op.N, c12TypeSamples[op.T])
			case op.F == 2 && !global:
				err = s.real.DefineReflectType(op.N, t)
			case op.F == 0:
				var a interface{}
				if t != nil {
					a = t
				}
				err = s.real.DefineGlobalType(op.N, a)
			case op.F == 1:
				err = s.real.DefineGlobalType(op.N, c12TypeSamples[op.T])
			default:
				err = s.real.DefineGlobalReflectType(op.N, t)
			}
		})
		expectFail = c12Dotted(op.N)
		if pan != nil {
			break
		}
		outcome = c12ErrStr(err)
		if expectFail {
			if err == nil {
				resFail("no-error", "a name containing '.' was accepted")
			}
			break
		}
		if err != nil {
			resFail("unexpected-error", err.Error())
			break
		}
		target := s
		if global {
			target = s.root()
		}
		target.types[op.N] = t
		mutated = true
	case "Type":
		call = fmt.Sprintf("s%d.Type(%q)", op.S, op.N)
		var got reflect.Type
		var err error
		w.apiCalls++
		pan = c12Protect(func() { got, err = s.real.Type(op.N) })
		wt, ok := s.lookupType(op.N)
		expectFail = !ok
		if pan != nil {
			break
		}
		if err != nil {
			outcome = c12ErrStr(err)
		} else {
			outcome = c12TypeStr(got)
		}
		switch {
		case ok && err != nil:
			resFail("unexpected-error", fmt.Sprintf("%s, the nearest binding is %s", err.Error(), c12TypeStr(wt)))
		case !ok && err == nil:
			resFail("no-error", fmt.Sprintf("returned %s for a type name nothing binds", c12TypeStr(got)))
		case ok && got != wt:
			resFail("result", fmt.Sprintf("returned %s, the nearest binding is %s", c12TypeStr(got), c12TypeStr(wt)))
		}
	case "GetEnvFromPath":
		call = fmt.Sprintf("s%d.GetEnvFromPath(%q)", op.S, op.P)
		var got *env.Env
		var err error
		w.apiCalls++
		pan = c12Protect(func() { got, err = s.real.GetEnvFromPath(op.P) })
		outs, any := w.resolvePath(s, op.P)
		expectFail = true // read-only either way: the state must be unchanged
		if any {
			w.tags["path:unspecified"]++
		} else if len(outs) > 1 {
			w.tags["path:ambiguous"]++
		} else if outs[0] == nil {
			w.tags["path:invalid"]++
		} else {
			w.tags["path:found"]++
		}
		if pan != nil {
			break
		}
		if err != nil {
			outcome = c12ErrStr(err)
		} else if g := w.byReal[got]; g != nil {
			outcome = "s" + strconv.Itoa(g.h)
		} else {
			outcome = "an unknown scope"
		}
		okRes := any
		var wants []string
		for _, o := range outs {
			if o == nil {
				wants = append(wants, "an error")
				if err != nil {
					okRes = true
				}
			} else {
				if o.h >= 0 {
					wants = append(wants, "s"+strconv.Itoa(o.h))
				} else {
					wants = append(wants, "a hidden scope")
				}
				if err == nil && got != nil && o.real == got {
					okRes = true
				}
			}
		}
		if !okRes {
			cls := "result"
			if err != nil {
				cls = "unexpected-error"
			} else if len(outs) == 1 && outs[0] == nil {
				cls = "no-error"
			}
			resFail(cls, fmt.Sprintf("returned %s, want %s", outcome, strings.Join(wants, " or ")))
			break
		}
		if !w.quiet {
			// one reading of the first element for this path, its one-element
			// prefix and its extensions (c12_r5.go)
			if p, class, detail := w.pathOneReading(s, op.P, got, err); p != nil {
				pan = p
			} else if class != "" {
				resFail(class, detail)
			}
		}
	case "Copy":
		call = fmt.Sprintf("s%d = s%d.Copy()", op.New, op.S)
		var e *env.Env
		w.apiCalls++
		pan = c12Protect(func() { e = s.real.Copy() })
		if pan == nil {
			if e == nil || w.byReal[e] != nil {
				resFail("result", "did not return a fresh scope")
				break
			}
			w.add(s.copyOne(op.New, e))
		}
	case "DeepCopy":
		call = fmt.Sprintf("s%d = s%d.DeepCopy()", op.New, op.S)
		var e *env.Env
		w.apiCalls++
		pan = c12Protect(func() { e = s.real.DeepCopy() })
		if pan == nil {
			if e == nil || w.byReal[e] != nil {
				resFail("result", "did not return a fresh scope")
				break
			}
			c := s.copyOne(op.New, e)
			w.add(c)
			// the whole chain is copied; the copies of the ancestors have no handle
			for t := c; t.parent != nil; t = t.parent {
				t.parent = t.parent.copyOne(-1, nil)
			}
		}
	case "GetValueSymbols", "GetTypeSymbols":
		call = fmt.Sprintf("s%d.%s()", op.S, op.K)
		var got []string
		w.apiCalls++
		pan = c12Protect(func() {
			if op.K == "GetValueSymbols" {
				got = s.real.GetValueSymbols()
			} else {
				got = s.real.GetTypeSymbols()
			}
		})
		expectFail = true
		if pan != nil {
			break
		}
		sort.Strings(got)
		outcome = fmt.Sprintf("%q", got)
		want := map[string]bool{}
		if op.K == "GetValueSymbols" {
			for k := range s.vals {
				want[k] = true
			}
		} else {
			for k := range s.types {
				want[k] = true
			}
		}
		if d := c12SetDiff(got, want); d != "" {
			resFail("result", d)
		}
	case "SetExternalLookup":
		w.apiCalls++
		if op.X < 0 {
			call = fmt.Sprintf("s%d.SetExternalLookup(nil)", op.S)
			pan = c12Protect(func() { s.real.SetExternalLookup(nil) })
			if pan == nil {
				s.ext = nil
			}
		} else {
			call = fmt.Sprintf("s%d.SetExternalLookup(ext%d)", op.S, op.X)
			x := w.exts[op.X]
			pan = c12Protect(func() { s.real.SetExternalLookup(x) })
			if pan == nil {
				s.ext = x
			}
		}
		mutated = true
	case "String":
		call = fmt.Sprintf("s%d.String()", op.S)
		w.apiCalls++
		pan = c12Protect(func() { _ = s.real.String() })
		expectFail = true
	case "ExtPut":
		// harness-side: the content of an external lookup object changes
		x := w.exts[op.X]
		v := w.value(op.V)
		if op.A >= 0 {
			// the lookup object answers a module (an existing scope)
			a := w.scopes[op.A]
			if a == nil {
				w.executed--
				w.skipped++
				return
			}
			v = a.real
		}
		call = fmt.Sprintf("ext%d.values[%q] = %s", op.X, op.N, w.renderVal(v))
		if op.F == c12FormMapElem || op.F == c12FormIfaceCell {
			// the lookup object answers the value boxed in a reflect.Value of kind Interface (c12_r6.go)
			call += c12FormSuffix[op.F]
			w.tags["ext:"+c12FormTag[op.F]]++
			x.vals[op.N] = c12BoxValue(v, op.F)
		} else if op.F >= c12FormROField && op.F <= c12FormROStruct {
			// the lookup object answers a reflect.Value read out of an unexported struct field (c12_r7.go)
			call += c12FormSuffix[op.F]
			w.tags["ext:"+c12FormTag[op.F]]++
			x.vals[op.N] = c12ReadOnlyValue(v, op.F)
			x.mvals[op.N] = c12RO{v: v}
			break
		} else if v == nil && i%2 == 1 {
			// a lookup object may answer the zero reflect.Value without an error: that reads as nil too
			call = fmt.Sprintf("ext%d.values[%q] = reflect.Value{}", op.X, op.N)
			x.vals[op.N] = reflect.Value{}
		} else if v == nil {
			x.vals[op.N] = env.NilValue
		} else {
			x.vals[op.N] = reflect.ValueOf(v)
		}
		x.mvals[op.N] = v
	case "ExtDel":
		x := w.exts[op.X]
		call = fmt.Sprintf("delete(ext%d.values, %q)", op.X, op.N)
		delete(x.vals, op.N)
		delete(x.mvals, op.N)
	case "ExtPutType":
		x := w.exts[op.X]
		call = fmt.Sprintf("ext%d.types[%q] = %s", op.X, op.N, c12TypeStr(c12Types[op.T]))
		x.types[op.N] = c12Types[op.T]
	case "ExtDelType":
		x := w.exts[op.X]
		call = fmt.Sprintf("delete(ext%d.types, %q)", op.X, op.N)
		delete(x.types, op.N)
	case "Stmt":
		// one script statement executed by vm.Execute on the addressed scope (c12_r7.go)
		var fc, fd string
		call, outcome, pan, expectFail, mutated, undo, fc, fd = w.execStmt(op, s)
		if fc != "" && pan == nil {
			resFail(fc, fd)
		}
	case "Fault", "FaultType":
		// a lookup during which the lookup objects fail at their k-th call (c12_r10.go)
		var fc, fd string
		call, outcome, pan, expectFail, fc, fd = w.execFault(op, s)
		if fc != "" && pan == nil {
			resFail(fc, fd)
		}
	case "Churn":
		// many short-lived children / copies of the addressed scope (c12_r7.go)
		var fc, fd string
		call, outcome, pan, fc, fd = w.execChurn(op, s)
		if fc != "" && pan == nil {
			resFail(fc, fd)
		}
	default:
		panic("c12: unknown op " + op.K)
	}

	if pan != nil {
		w.logf("%s  => PANIC %s", call, pan.msg)
		w.tags["op:"+label+":panic"]++
		w.fail(i, label+":"+pan.sig(), call+": panic: "+pan.msg)
		if !expectFail {
			// the call should have succeeded; what it did before panicking is unknown
			w.dead = true
			return
		}
		// a failing or read-only request: the state must be unchanged, but the
		// scopes cannot be touched safely any more (see needRebuild)
		w.skip[i] = true
		w.needRebuild = true
		return
	} else {
		if outcome != "" {
			w.logf("%s  => %s", call, outcome)
		} else {
			w.logf("%s", call)
		}
		for _, l := range w.after {
			w.logf("%s", l)
		}
		w.after = nil
		cls := "ok"
		if expectFail && (op.K == "Stmt" || op.K == "Define" || op.K == "DefineGlobal" || op.K == "Set" || op.K == "NewModule" || op.K == "DefineType" || op.K == "DefineGlobalType" || op.K == "Get" || op.K == "Type" || op.K == "Addr") {
			cls = "err"
			w.failedReq++
		}
		w.tags["op:"+label+":"+cls]++
	}
	if mutated {
		w.mutations++
	}
	if w.dead {
		return
	}
	if w.quiet {
		if undo != nil && w.undone[i] {
			undo()
		}
		return
	}
	class, detail := w.audit()
	if class != "" && undo != nil {
		undo()
		if c2, _ := w.audit(); c2 == "" {
			class = ""
			w.undone[i] = true
		}
	}
	if class != "" {
		kind := ":state:"
		if expectFail || pan != nil {
			kind = ":state-changed-by-failing-call:"
		}
		sig := label + kind + class
		if class == "Get-readonly" {
			// the call only made the state visible; the defect is the observer's
			sig = "audit:Get-readonly"
		}
		w.fail(i, sig, "after "+call+": "+detail)
		w.dead = true
	}
}

// rebuild re-executes ops[0..upto] (minus the calls that panicked) on fresh
// scopes without observing anything, and carries the monitor's records over.
func (w *c12World) rebuild(ops []c12Op, upto int) *c12World {
	nw := c12NewWorld(w.verbose)
	nw.quiet = true
	nw.skip, nw.undone = w.skip, w.undone
	for j := 0; j <= upto && !nw.dead; j++ {
		if !nw.skip[j] {
			nw.exec(j, &ops[j])
		}
	}
	nw.quiet = false
	nw.needRebuild = false
	nw.log, nw.tags, nw.fails, nw.seenSig = w.log, w.tags, w.fails, w.seenSig
	nw.apiCalls, nw.obsCalls, nw.audits, nw.executed, nw.skipped, nw.mutations, nw.failedReq = w.apiCalls, w.obsCalls, w.audits, w.executed, w.skipped, w.mutations, w.failedReq
	for i := range nw.exts {
		nw.exts[i].calls = w.exts[i].calls
	}
	if nw.dead {
		// the quiet re-execution did not behave like the first execution
		nw.fail(upto, "nondeterministic-replay", "re-executing the history after a panic did not reproduce the recorded outcomes")
	}
	return nw
}

// step executes ops[i] and returns the world to go on with.
func c12Step(w *c12World, ops []c12Op, i int) *c12World {
	w.exec(i, &ops[i])
	if w.needRebuild && !w.dead {
		w = w.rebuild(ops, i)
	}
	return w
}

// run executes a history on a fresh world.
func c12Run(ops []c12Op, verbose bool) *c12World {
	w := c12NewWorld(verbose)
	for i := range ops {
		w = c12Step(w, ops, i)
		if w.dead {
			break
		}
	}
	return w
}

func c12HasSig(w *c12World, sig string) (int, bool) {
	for _, f := range w.fails {
		if f.sig == sig {
			return f.op, true
		}
	}
	return 0, false
}

// c12Shrink removes operations while the failure with signature sig persists.
// The budget is logical (number of re-executed operations), never time.
func c12Shrink(ops []c12Op, sig string, budget int) []c12Op {
	cur := append([]c12Op(nil), ops...)
	try := func(cand []c12Op) ([]c12Op, bool) {
		budget -= len(cand) + 1
		w := c12Run(cand, false)
		if at, ok := c12HasSig(w, sig); ok {
			return cand[:at+1], true
		}
		return nil, false
	}
	if c, ok := try(cur); ok {
		cur = c
	} else {
		return cur
	}
	for chunk := len(cur) / 2; chunk >= 1; {
		progress := false
		for i := 0; i+chunk <= len(cur) && budget > 0; {
			cand := append(append([]c12Op(nil), cur[:i]...), cur[i+chunk:]...)
			if c, ok := try(cand); ok {
				cur = c
				progress = true
			} else {
				i++
			}
		}
		if budget <= 0 {
			break
		}
		if chunk == 1 && !progress {
			break
		}
		if chunk > 1 {
			chunk /= 2
		}
	}
	return cur
}

// ---------------------------------------------------------------------------
// generator

type c12Gen struct {
	r         *rand.Rand
	w         *c12World
	ops       []c12Op
	nextH     int
	maxScopes int
	fresh     int
	focus     []int
	focusTTL  int
	pathy     bool // path-centred weights (c12_r5.go)
}

func (g *c12Gen) pickScope() int {
	o := g.w.order
	if g.focusTTL > 0 && len(g.focus) > 0 && g.r.Intn(10) < 7 {
		return g.focus[g.r.Intn(len(g.focus))]
	}
	if len(o) > 3 && g.r.Intn(2) == 0 {
		return o[len(o)-1-g.r.Intn(3)]
	}
	return o[g.r.Intn(len(o))]
}

func (g *c12Gen) pickName() string {
	if g.r.Intn(8) == 0 {
		return c12ValNames[4+g.r.Intn(len(c12ValNames)-4)]
	}
	// skewed so that shadowing along a chain is frequent
	if g.r.Intn(2) == 0 {
		return "a"
	}
	return c12PlainNames[g.r.Intn(len(c12PlainNames))]
}

func (g *c12Gen) pickTypeName() string {
	if g.r.Intn(3) == 0 {
		return "T"
	}
	return c12TypeNames[g.r.Intn(len(c12TypeNames))]
}

func (g *c12Gen) valueOp(k string, s int) c12Op {
	op := c12Op{K: k, S: s, N: g.pickName(), A: -1, X: -1, New: -1, F: g.r.Intn(3)}
	switch r := g.r.Intn(10); {
	case r < 5:
		g.fresh++
		op.V = 100 + g.fresh
	case r < 8:
		op.V = g.r.Intn(8)
	default:
		op.A = g.w.order[g.r.Intn(len(g.w.order))] // an existing scope as a value: a module alias
	}
	g.r6Form(&op)
	return op
}

// genPath: mostly paths that resolve (walk the model), sometimes arbitrary ones.
func (g *c12Gen) genPath(s *c12Scope) []string {
	if g.r.Intn(10) < 6 {
		var cands []string
		seen := map[string]bool{}
		for t := s; t != nil; t = t.parent {
			for k, v := range t.vals {
				if _, ok := v.(*env.Env); ok && !seen[k] {
					seen[k] = true
					cands = append(cands, k)
				}
			}
		}
		sort.Strings(cands)
		if len(cands) > 0 {
			p := []string{cands[g.r.Intn(len(cands))]}
			outs, _ := g.w.resolvePath(s, p)
			var cur *c12Scope
			for _, o := range outs {
				if o != nil {
					cur = o
				}
			}
			for d := 0; cur != nil && d < 3 && g.r.Intn(2) == 0; d++ {
				var sub []string
				for k, v := range cur.vals {
					if _, ok := v.(*env.Env); ok {
						sub = append(sub, k)
					}
				}
				sort.Strings(sub)
				if len(sub) == 0 {
					if g.r.Intn(3) == 0 {
						p = append(p, g.pickName())
					}
					break
				}
				n := sub[g.r.Intn(len(sub))]
				p = append(p, n)
				cur = g.w.byReal[cur.vals[n].(*env.Env)]
			}
			return p
		}
	}
	n := g.r.Intn(4)
	if n == 0 && g.r.Intn(2) == 0 {
		return nil
	}
	p := make([]string, n)
	for i := range p {
		p[i] = g.pickName()
	}
	return p
}

func (g *c12Gen) next() c12Op {
	r := g.r
	s := g.pickScope()
	sc := g.w.scopes[s]
	canGrow := len(g.w.order) < g.maxScopes
	base := c12Op{S: s, A: -1, X: -1, New: -1}
	if r.Intn(12) == 0 {
		// the script spelling of define / delete / delete-nearest / lookup (c12_r7.go)
		return g.stmtOp(s, sc)
	}
	for {
		switch k := r.Intn(100); {
		case k < 3:
			if !canGrow {
				continue
			}
			base.K, base.New = "NewRoot", g.nextH
			return base
		case k < 9:
			if !canGrow {
				continue
			}
			base.K, base.New = "NewEnv", g.nextH
			return base
		case k < 15:
			base.K, base.N = "NewModule", g.pickName()
			if !canGrow {
				if !c12Dotted(base.N) {
					continue
				}
			}
			base.New = g.nextH
			return base
		case k < 27:
			return g.valueOp("Define", s)
		case k < 32:
			return g.valueOp("DefineGlobal", s)
		case k < 42:
			return g.valueOp("Set", s)
		case k < 46:
			base.K, base.N, base.F = "Get", g.roName(sc, c12ValNames[r.Intn(len(c12ValNames))]), r.Intn(2)
			return base
		case k < 52:
			base.K, base.N = "Delete", g.pickName()
			return base
		case k < 59:
			base.K, base.N = "DeleteGlobal", g.pickName()
			return base
		case k < 66:
			base.K, base.N, base.T, base.F = "DefineType", g.pickTypeName(), r.Intn(len(c12Types)), r.Intn(3)
			return base
		case k < 70:
			base.K, base.N, base.T, base.F = "DefineGlobalType", g.pickTypeName(), r.Intn(len(c12Types)), r.Intn(3)
			return base
		case k < 72:
			base.K, base.N = "Type", c12AuditTypeNames[r.Intn(len(c12AuditTypeNames))]
			return base
		case k < 79:
			base.K, base.P = "GetEnvFromPath", g.genPath(sc)
			return base
		case k < 83:
			if !canGrow {
				continue
			}
			base.K, base.New = "Copy", g.nextH
			return base
		case k < 87:
			if !canGrow {
				continue
			}
			base.K, base.New = "DeepCopy", g.nextH
			return base
		case k < 88:
			base.K = "GetValueSymbols"
			return base
		case k < 89:
			base.K = "GetTypeSymbols"
			return base
		case k < 92:
			base.K, base.X = "SetExternalLookup", r.Intn(4)-1
			return base
		case k < 94:
			base.K, base.N = "Addr", g.roName(sc, g.pickName())
			return base
		case k < 95:
			base.K = "String"
			return base
		case k < 97:
			// external values: plain names only. UNSPECIFIED: what a lookup of a
			// dotted name does when an external lookup supplies it. A lookup may
			// answer a module (an existing scope): an ordinary value for Get; what
			// it means for a path lookup is accepted both ways (c12_r5.go).
			base.K, base.X, base.N = "ExtPut", r.Intn(3), c12PlainNames[r.Intn(len(c12PlainNames))]
			g.fresh++
			base.V = 100 + g.fresh
			if r.Intn(4) == 0 {
				base.V = r.Intn(8)
			}
			if r.Intn(5) == 0 {
				base.A = g.w.order[r.Intn(len(g.w.order))]
			}
			g.r6ExtForm(&base)
			return base
		case k < 98:
			base.K, base.X, base.N = "ExtDel", r.Intn(3), c12PlainNames[r.Intn(len(c12PlainNames))]
			return base
		case k < 99:
			base.K, base.X, base.N, base.T = "ExtPutType", r.Intn(3), c12TypeNames[r.Intn(5)], r.Intn(len(c12Types))
			return base
		default:
			base.K, base.X, base.N = "ExtDelType", r.Intn(3), c12TypeNames[r.Intn(5)]
			return base
		}
	}
}

// c12Generate builds and executes one random history.
func c12Generate(r *rand.Rand, length, maxScopes int) ([]c12Op, *c12World) {
	return c12GenerateWith(r, length, maxScopes, false)
}

func c12GenerateWith(r *rand.Rand, length, maxScopes int, pathy bool) ([]c12Op, *c12World) {
	g := &c12Gen{r: r, w: c12NewWorld(false), maxScopes: maxScopes, nextH: 0, pathy: pathy}
	push := func(op c12Op) bool {
		i := len(g.ops)
		g.ops = append(g.ops, op)
		if op.New >= 0 {
			g.nextH = op.New + 1
		}
		g.w = c12Step(g.w, g.ops, i)
		if (op.K == "Copy" || op.K == "DeepCopy") && g.w.scopes[op.New] != nil {
			// look at both sides of the copy for a while: later changes on either
			// side must be invisible to the other
			g.focus = []int{op.S, op.New}
			if p := g.w.scopes[op.S].parent; p != nil && p.h >= 0 {
				g.focus = append(g.focus, p.h)
			}
			g.focusTTL = 8
		} else if g.focusTTL > 0 {
			g.focusTTL--
		}
		return !g.w.dead
	}
	if !push(c12Op{K: "NewRoot", S: -1, A: -1, X: -1, New: 0}) {
		return g.ops, g.w
	}
	for len(g.ops) < length {
		op := c12Op{}
		if g.pathy {
			op = g.nextPathy()
		} else {
			op = g.next()
		}
		if !push(op) {
			return g.ops, g.w
		}
	}
	if g.pathy {
		return g.ops, g.w
	}
	// drain: delete-nearest every name from every live scope until nothing is
	// left, which exposes the bindings that were shadowed (also inside deep copies)
	for _, h := range append([]int(nil), g.w.order...) {
		for _, n := range c12PlainNames {
			for k := 0; k < 40; k++ {
				if t, _ := g.w.scopes[h].nearestTable(n); t == nil {
					break
				}
				if !push(c12Op{K: "DeleteGlobal", S: h, N: n, A: -1, X: -1, New: -1}) {
					return g.ops, g.w
				}
			}
		}
	}
	return g.ops, g.w
}

// ---------------------------------------------------------------------------
// fixed histories (deterministic; the first ones exercise the known finding)

func c12op(k string, s int) c12Op { return c12Op{K: k, S: s, A: -1, X: -1, New: -1} }
func c12new(k string, s, h int) c12Op {
	return c12Op{K: k, S: s, A: -1, X: -1, New: h}
}
func c12def(k string, s int, n string, v int) c12Op {
	return c12Op{K: k, S: s, N: n, V: v, A: -1, X: -1, New: -1}
}
func c12path(s int, p ...string) c12Op {
	return c12Op{K: "GetEnvFromPath", S: s, P: p, A: -1, X: -1, New: -1}
}
func c12mod(s int, n string, h int) c12Op {
	return c12Op{K: "NewModule", S: s, N: n, A: -1, X: -1, New: h}
}
func c12typ(k string, s int, n string, t, f int) c12Op {
	return c12Op{K: k, S: s, N: n, T: t, F: f, A: -1, X: -1, New: -1}
}

var c12Fixed = [][]c12Op{
	// 0: minimal history of the known finding: a path element bound to a non-module
	{c12new("NewRoot", -1, 0), c12def("Define", 0, "a", 101), c12path(0, "a")},
	// 1: the script-level shape `a = 1; make(a.b)`: lookup from an inner scope, two elements
	{c12new("NewRoot", -1, 0), c12def("Define", 0, "a", 101), c12new("NewEnv", 0, 1), c12path(1, "a", "b")},
	// 2: nearest binding is nil (Define(sym, nil)), outer scope holds a module of that name
	{c12new("NewRoot", -1, 0), c12mod(0, "a", 1), c12new("NewEnv", 0, 2), c12def("Define", 2, "a", 0), c12path(2, "a")},
	// 3: valid paths, nested modules, non-module in a later element, empty path
	{c12new("NewRoot", -1, 0), c12mod(0, "m", 1), c12mod(1, "a", 2), c12def("Define", 1, "x", 7), c12new("NewEnv", 0, 3),
		c12path(3, "m"), c12path(3, "m", "a"), c12path(3, "m", "x"), c12path(3, "m", "a", "b"), c12path(3), c12path(3, "b"), c12path(3, "m.a"), c12path(2, "a"), c12path(2, "m", "a")},
	// 4: dotted names rejected everywhere, state unchanged
	{c12new("NewRoot", -1, 0), c12new("NewEnv", 0, 1), c12def("Define", 1, "a.b", 101), c12def("DefineGlobal", 1, "a.b", 102), c12def("Set", 1, "a.b", 103),
		c12mod(1, "m.x", 2), c12typ("DefineType", 1, "T.x", 0, 0), c12typ("DefineType", 1, "T.x", 1, 2), c12typ("DefineGlobalType", 1, "T.x", 0, 1),
		{K: "Define", S: 1, N: "a.b", V: 104, F: 1, A: -1, X: -1, New: -1}, {K: "DefineGlobal", S: 1, N: "m.x", V: 105, F: 2, A: -1, X: -1, New: -1}},
	// 5: set updates the nearest binding or fails without creating one; delete vs delete-nearest
	{c12new("NewRoot", -1, 0), c12new("NewEnv", 0, 1), c12new("NewEnv", 1, 2), c12def("Set", 2, "a", 101), c12def("Define", 0, "a", 102), c12def("Set", 2, "a", 103),
		c12def("Define", 1, "a", 104), c12def("Set", 2, "a", 105), c12def("Delete", 2, "a", 0), c12def("DeleteGlobal", 2, "a", 0), c12def("Set", 2, "a", 106), c12def("DeleteGlobal", 2, "a", 0),
		c12def("DeleteGlobal", 2, "a", 0), c12def("Set", 2, "a", 107), c12def("DefineGlobal", 2, "a", 108), c12def("Delete", 0, "a", 0)},
	// 6: Copy = independent snapshot of one scope (parent shared), DeepCopy = whole chain
	{c12new("NewRoot", -1, 0), c12new("NewEnv", 0, 1), c12def("Define", 0, "a", 101), c12def("Define", 1, "b", 102), c12typ("DefineType", 1, "T", 0, 0),
		c12new("Copy", 1, 2), c12new("DeepCopy", 1, 3), c12def("Define", 1, "x", 103), c12def("Set", 2, "b", 104), c12def("Delete", 3, "b", 0), c12typ("DefineType", 2, "T", 1, 2),
		c12def("Set", 3, "a", 105), c12def("Set", 2, "a", 106), c12def("DefineGlobal", 3, "m", 107), c12def("DefineGlobal", 2, "m", 108), c12def("DeleteGlobal", 3, "a", 0), c12def("DeleteGlobal", 1, "a", 0),
		c12typ("DefineGlobalType", 3, "U", 2, 0), c12typ("DefineGlobalType", 1, "U", 3, 1)},
	// 7: external lookups: consulted after the own table, before the parent; built-in type names last
	{c12new("NewRoot", -1, 0), c12new("NewEnv", 0, 1), c12new("NewEnv", 1, 2),
		{K: "ExtPut", X: 0, N: "a", V: 101, A: -1, New: -1}, {K: "ExtPutType", X: 0, N: "int64", T: 1, A: -1, New: -1}, {K: "ExtPutType", X: 0, N: "T", T: 2, A: -1, New: -1},
		{K: "SetExternalLookup", S: 1, X: 0, A: -1, New: -1}, c12def("Define", 0, "a", 102), c12def("Define", 1, "a", 103), c12def("Delete", 1, "a", 0),
		c12typ("DefineType", 0, "int64", 4, 0), c12typ("DefineType", 1, "T", 5, 2), c12typ("DefineType", 2, "string", 0, 1), c12new("Copy", 1, 3), c12new("DeepCopy", 2, 4),
		{K: "SetExternalLookup", S: 1, X: -1, A: -1, New: -1}, {K: "ExtDel", X: 0, N: "a", A: -1, New: -1}, {K: "SetExternalLookup", S: 0, X: 0, A: -1, New: -1},
		{K: "Addr", S: 2, N: "a", A: -1, X: -1, New: -1}, {K: "Addr", S: 2, N: "x", A: -1, X: -1, New: -1}, {K: "Define", S: 2, N: "x", V: 110, F: 2, A: -1, X: -1, New: -1}, {K: "Addr", S: 2, N: "x", A: -1, X: -1, New: -1},
		c12op("String", 0), c12op("String", 1), c12op("GetValueSymbols", 1), c12op("GetTypeSymbols", 1)},
	// 8: a name that is a value here and a module there; module aliases; self reference
	{c12new("NewRoot", -1, 0), c12mod(0, "a", 1), c12new("NewEnv", 0, 2), c12mod(2, "a", 3), c12path(2, "a"), c12path(0, "a"), c12path(3, "a"),
		{K: "Define", S: 1, N: "m", A: 3, X: -1, New: -1}, c12path(2, "a", "m"), c12path(0, "a", "m"), {K: "Define", S: 0, N: "m", A: 0, X: -1, New: -1}, c12path(1, "m", "m", "a"),
		c12def("Delete", 2, "a", 0), c12path(2, "a"), c12op("String", 0), c12def("Define", 0, "a", 3), c12def("Get", 2, "a", 0)},
}

// ---------------------------------------------------------------------------
// enumeration: all sequences over a fixed alphabet on a fixed shape
//   s0 = NewEnv(); s1 = s0.NewEnv(); s2 = s1.NewEnv(); ext0 = {a: v, T: bool, int64: string}

var c12EnumPrefix = []c12Op{
	c12new("NewRoot", -1, 0), c12new("NewEnv", 0, 1), c12new("NewEnv", 1, 2),
	{K: "ExtPut", X: 0, N: "a", V: 99, A: -1, New: -1}, {K: "ExtPutType", X: 0, N: "T", T: 2, A: -1, New: -1}, {K: "ExtPutType", X: 0, N: "int64", T: 1, A: -1, New: -1},
}

var c12EnumVals = []c12Op{
	c12def("Define", 0, "a", 0),
	c12def("Define", 1, "a", 0),
	c12def("Define", 2, "a", 0),
	c12def("Set", 2, "a", 0),
	c12def("Delete", 2, "a", 0),
	c12def("Delete", 1, "a", 0),
	c12def("DeleteGlobal", 2, "a", 0),
	c12def("DefineGlobal", 2, "a", 0),
	c12mod(1, "a", 3),
	c12path(2, "a"),
	c12path(2, "a", "a"),
	c12def("Define", 3, "a", 0),
	c12mod(3, "a", 6),
	c12new("Copy", 2, 4),
	c12def("Define", 4, "a", 0),
	c12def("DeleteGlobal", 4, "a", 0),
	c12new("DeepCopy", 1, 5),
	c12def("Set", 5, "a", 0),
	c12def("DefineGlobal", 5, "a", 0),
	c12def("DeleteGlobal", 5, "a", 0),
	{K: "SetExternalLookup", S: 1, X: 0, A: -1, New: -1},
	c12def("Define", 0, "a.b", 0),
}

var c12EnumTypes = []c12Op{
	c12typ("DefineType", 0, "T", 0, 0),
	c12typ("DefineType", 1, "T", 1, 1),
	c12typ("DefineType", 2, "T", 3, 2),
	c12typ("DefineGlobalType", 2, "T", 4, 0),
	c12typ("DefineType", 1, "int64", 5, 2),
	c12typ("DefineGlobalType", 2, "int64", 8, 1),
	{K: "SetExternalLookup", S: 1, X: 0, A: -1, New: -1},
	{K: "SetExternalLookup", S: 0, X: 0, A: -1, New: -1},
	c12new("Copy", 2, 4),
	c12typ("DefineType", 4, "T", 6, 0),
	c12new("DeepCopy", 1, 5),
	c12typ("DefineGlobalType", 5, "T", 2, 2),
	c12typ("DefineType", 5, "int64", 3, 0),
	c12typ("DefineType", 0, "T.x", 0, 0),
	c12typ("DefineGlobalType", 2, "T.x", 0, 2),
}

func c12Pow(b, e int) int {
	p := 1
	for i := 0; i < e; i++ {
		p *= b
	}
	return p
}

// c12EnumHistory builds the history number idx (base-len(alpha) digits) of length n.
func c12EnumHistory(alpha []c12Op, n, idx int) []c12Op {
	ops := append([]c12Op(nil), c12EnumPrefix...)
	for pos := 0; pos < n; pos++ {
		op := alpha[idx%len(alpha)]
		idx /= len(alpha)
		switch op.K {
		case "Define", "DefineGlobal", "Set":
			op.V = 101 + pos
			op.F = pos % 3
		}
		ops = append(ops, op)
	}
	return ops
}

// ---------------------------------------------------------------------------
// reporting

func c12Key(ops []c12Op) string {
	var b strings.Builder
	for i := range ops {
		ops[i].key(&b)
	}
	return b.String()
}

type c12Reporter struct {
	shrunk map[string]int // per process: how many witnesses of a signature were shrunk
}

var c12Rep = &c12Reporter{shrunk: map[string]int{}}

func c12Report(c *wk.Case, kind string, ops []c12Op, w *c12World) {
	c.Eval(c12Key(ops), w.mutations >= 2 && len(w.order) >= 2 && w.executed >= 3)
	c.Events(w.apiCalls)
	c.Count("api_calls_in_histories", w.apiCalls)
	c.Count("observer_calls", w.obsCalls)
	c.Count("state_audits", w.audits)
	c.Count("ops_skipped", w.skipped)
	c.Count("failing_requests", w.failedReq)
	c.Count("scopes", len(w.order))
	for _, x := range w.exts {
		c.Count("external_lookup_calls", x.calls)
	}
	for k, n := range w.tags {
		for j := 0; j < n; j++ {
			c.Tag(k)
		}
	}
	for _, f := range w.fails {
		min := ops
		if f.op+1 < len(min) {
			min = min[:f.op+1]
		}
		tail := 12
		if c12Rep.shrunk[f.sig] < 3 || len(min) <= 12 {
			// shrinking is bounded per process and signature: a known finding hit by
			// thousands of random histories must not dominate the run
			c12Rep.shrunk[f.sig]++
			budget := 100000
			if kind == "long" || len(min) > 300 {
				// a long history (c12_r7.go): what such a history shows usually needs its
				// length (nothing can be removed, and finding that out costs a budget of any
				// size): one witness per process and signature is shrunk, with a smaller
				// (logical) budget
				c12Rep.shrunk[f.sig] += 2
				if budget = 40 * len(min); budget > 30000 {
					budget = 30000
				}
			}
			min = c12Shrink(min, f.sig, budget)
			tail = 60
		}
		vw := c12Run(min, true)
		detail := f.detail
		for _, f2 := range vw.fails {
			if f2.sig == f.sig {
				detail = f2.detail
			}
		}
		hist := vw.log
		if len(hist) > tail {
			hist = append([]string{fmt.Sprintf("... %d earlier calls ...", len(hist)-tail)}, hist[len(hist)-tail:]...)
		}
		c.Violation(f.sig, detail, map[string]interface{}{"kind": kind, "history": hist, "history_len_before_shrinking": f.op + 1})
	}
	if c.WantSample() && len(w.fails) == 0 && kind != "enum" {
		vw := c12Run(ops, true)
		hist := vw.log
		if len(hist) > 40 {
			hist = append(hist[:40:40], fmt.Sprintf("... %d more calls ...", len(vw.log)-40))
		}
		c.Sample(map[string]interface{}{"kind": kind, "calls": len(vw.log), "scopes": len(vw.order), "history": hist})
	}
}

func init() {
	nv, nt := len(c12EnumVals), len(c12EnumTypes)
	wk.Register(&wk.Engine{
		ID: "C12",
		Plan: func(tier string) fw.Plan {
			nRand := 4000
			nPaths := 1500
			enumLen := 4
			if tier == "thorough" {
				nRand = 120000
				nPaths = 40000
				enumLen = 5
			}
			_ = enumLen
			return fw.Plan{
				Level: "exploration",
				Rule: "one evaluation = one history of env API calls executed on the real package and on an independent chain-of-dictionaries model; after every call the results and the complete observable state " +
					"(value/type symbol sets, Get/GetValue of 6 names and Type of 9 names from every live scope) are compared. phase fixed: hand-written histories. phase enum: ALL sequences of length 4 (thorough: 5) over a " +
					fmt.Sprintf("%d-operation value alphabet and of length 4 over a %d-operation type alphabet on a fixed 3-level chain with module, copy, deep copy and external lookup. ", nv, nt) +
					"phase random: PRNG histories of 40-200 calls over all 26 API entry points on a forest of <=12 scopes, followed by a delete-nearest drain that exposes shadowed bindings. " +
					"phase paths: PRNG histories of 30-90 calls centred on path lookup: modules with sub-modules on a forest of <=10 scopes, module names rebound to plain values and to other modules in nearer scopes, " +
					"external lookups answering plain values and modules, path lookups of 1-3 elements from every depth. Whenever the statement leaves the scope denoted by the first element of a path open, the same scope also looks up " +
					"the one-element prefix and up to four two-element extensions in the same state: all results must follow ONE reading of the first element. " +
					"Values reach Define/DefineGlobal/Set in 8 forms: interface value, reflect.Value, addressable reflect.Value, reflect.Value of kind Interface (element of a map[string]interface{}; pointee of a *interface{}) - " +
					"the model binds the carried value whatever the form, so a module bound through an interface-kind reflect.Value must be a namespace for path lookup like any other - and read-only reflect.Values " +
					"(read out of an unexported struct field, plain / addressable / struct-typed), which must be refused with an error and an unchanged state; external lookups answer boxed values too. " +
					"Round 7: external lookups also answer read-only reflect.Values (all three shapes, plain values and modules): every lookup of a name whose nearest supplier is such an answer - Get, GetValue, Addr, " +
					"the script uses `n`, `[n]`, `func() { return n }()`, `&n` run by vm.Execute on the scope - must fail with an error, without a panic and with every scope unchanged; a path lookup treats the answer as a non-module. " +
					"Script spellings: one-statement scripts `var n = v`, `delete(\"n\")`, `delete(\"n\", false)`, `delete(\"n\", true)` and the four uses of a name are executed by vm.Execute on a scope as operations of the history (model: Define, Delete, DeleteGlobal, lookup), in the random and long phases. " +
					"phase long: PRNG histories of 300-2600 calls (thorough: up to 4600) concentrated on ONE scope of a chain of 2-4 scopes (root, middle or leaf; enclosing scopes bind the same names, sometimes a lookup object supplies one), built from segments whose sizes sit on and next to the powers of two 8..1024: " +
					"define/delete cycles on 1-3 names (Define, DefineValue forms, DefineGlobal from below, `var`; Delete, DeleteGlobal from the scope and from below, `delete`), fill-and-drain of up to 1100 distinct names (first-in-first-out, last-in-first-out, shuffled, complete or down to a rest, repeated with the same or new names), " +
					"a sliding window of W live bindings, PRNG mixes of define/set/delete/delete-nearest/get/addr/String/path lookup with unbound deletes, Set storms on one binding whose nearest holder moves, type tables of up to 300 names, and 'churn' calls that create up to 1100 short-lived children, Copies or DeepCopies of the scope, " +
					"write to each and drop it; Copy/DeepCopy snapshots are taken between and inside segments (the history may go on on the snapshot) and at the end, followed by a delete-nearest drain. In these histories the audit after every call also looks up, from every live scope, the name just addressed and two more names in rotation, " +
					"and every name the history ever used on every 64th audit and right after each copy; the symbol lists of every scope are compared in full after every call as everywhere. " +
					"A history is non-trivial when it performed >=2 state changes on >=2 scopes; distinct = distinct operation list." + c12R8Rule + c12R10Rule,
				Assumptions: []string{
					"values are compared by Go interface equality (pool: nil, int64, string, bool, float64, one pointer, *env.Env); reflect.Values handed to the API are always valid",
					"a reflect.Value that reflect marks read-only (obtained through an unexported struct field) cannot be returned by Get, so binding one is taken to be an invalid request (error, state unchanged); when an external lookup answers one, the lookup of that name is the invalid request (error from Get/GetValue/Addr/a script use, state unchanged, no panic): the answer shadows the enclosing scopes like every other answer of a lookup object, falling through to them is not accepted; Set/DeleteGlobal of such a name are accepted both ways like for every name a nearer lookup object supplies; for path lookup the answer is a non-module",
					"script spellings (a reading of the language, not of the statement): vm.Execute(scope, nil, src) runs the statements of src in that very scope; `var n = <literal>` is scope.Define(n, value of the literal) with integer literals int64 and 2.5 a float64; `delete(\"n\")` and `delete(\"n\", false)` are scope.Delete(n); `delete(\"n\", true)` is scope.DeleteGlobal(n); an expression using the name n looks n up from the scope (a function literal's body: from a fresh child of it). `n = v` is not used: its set-or-define meaning is not part of the statement. What `&n` points at is not compared, and `&n` failing on a bound name is accepted (as Addr's 'unaddressable')",
					"long histories: a scope has no memory - the outcome of a call depends on the current content of the chain only, however many calls, bindings, removals, copies or children came before",
					"external lookups are harness objects holding plain (undotted) names; they answer plain values and modules (existing scopes)",
					c12R8Assumptions[0], c12R8Assumptions[1], c12R10Assumptions[0],
					"accepted both ways: Set/DeleteGlobal of a name an external lookup of a nearer scope supplies; path lookup whose nearest first-element binding is a non-module while an outer module exists, or whose first element an external lookup answers with a module (three readings of the first element: nearest binding / nearest table module / nearest module with lookups; one reading must explain a path, its one-element prefix and its two-element extensions in one state); later path elements that only the module's external lookup or parent chain could supply; Addr returning 'unaddressable'",
				},
				Phases: append([]fw.Phase{
					{Name: "fixed", Cases: len(c12Fixed), Chunk: len(c12Fixed), TimeoutS: 300},
					{Name: "enum", Cases: c12EnumCases(tier), Chunk: c12EnumChunk(tier), Exhaust: true, TimeoutS: 900},
					{Name: "random", Cases: nRand, Chunk: c12RandChunk(tier), TimeoutS: 900},
					{Name: "paths", Cases: nPaths, Chunk: 4 * c12RandChunk(tier), Jobs: 4, MemMB: 3072, TimeoutS: 900},
					{Name: "long", Cases: c12LongCases(tier), Chunk: c12LongChunk(tier), TimeoutS: 900},
				}, append(c12R8Phases(tier), c12R10Phases(tier)...)...), // volume, hot, stream: see c12_r8.go; fault: see c12_r10.go
			}
		},
		Run: func(c *wk.Case) {
			if c12R8Run(c) || c12R10Run(c) {
				return
			}
			switch c.Phase {
			case "fixed":
				ops := c12Fixed[c.Index]
				c.Begin(map[string]interface{}{"fixed": c.Index})
				w := c12Run(ops, false)
				c.Tag("fixed-history")
				c12Report(c, "fixed", ops, w)
			case "enum":
				// case index = the first two operations; the case enumerates the rest
				enumLen := 4
				if c.Tier == "thorough" {
					enumLen = 5
				}
				c.Begin(map[string]interface{}{"enum": c.Index})
				if c.Index < nv*nv {
					rest := c12Pow(nv, enumLen-2)
					for j := 0; j < rest; j++ {
						ops := c12EnumHistory(c12EnumVals, enumLen, c.Index+nv*nv*j)
						w := c12Run(ops, false)
						c12Report(c, "enum", ops, w)
					}
					c.Tag("enum:values")
				} else {
					idx := c.Index - nv*nv
					rest := c12Pow(nt, 2)
					for j := 0; j < rest; j++ {
						ops := c12EnumHistory(c12EnumTypes, 4, idx+nt*nt*j)
						w := c12Run(ops, false)
						c12Report(c, "enum", ops, w)
					}
					c.Tag("enum:types")
				}
			case "long":
				c12RunLong(c)
			case "paths":
				c.Begin(map[string]interface{}{"paths": c.Index})
				ops, w := c12GenerateWith(c.Rng, 30+c.Rng.Intn(61), 10, true)
				c.Tag("path-history")
				c12Report(c, "paths", ops, w)
			default:
				c.Begin(map[string]interface{}{"random": c.Index})
				length := 40 + c.Rng.Intn(161)
				ops, w := c12Generate(c.Rng, length, 12)
				c.Tag("random-history")
				c12Report(c, "random", ops, w)
			}
		},
	})
}

func c12EnumCases(tier string) int {
	return len(c12EnumVals)*len(c12EnumVals) + len(c12EnumTypes)*len(c12EnumTypes)
}

func c12EnumChunk(tier string) int {
	if tier == "thorough" {
		return 8
	}
	return 24
}

func c12RandChunk(tier string) int {
	if tier == "thorough" {
		return 1500
	}
	return 125
}
