package main

// C13, round 7: phase "trees" (race build): operations that walk a tree of RELATED scopes in
// opposite directions.
//
// "No combination of concurrent environment operations produces a data race, a deadlock or a lost
// update inside the environment itself." The other stress phases keep their goroutines on one
// scope, on a chain they only walk outwards, or on modules they only look up from outside. A
// deadlock between two scopes needs both directions at once: an operation that walks outwards
// (DeleteGlobal, Set, Get, Addr, Type, DefineGlobal, DeepCopy started INSIDE a nested module or
// below it) and one that walks inwards (GetEnvFromPath through module in module, also back out over
// a module's binding of an outer module), with writers on the scopes in between (a queued writer
// stops new readers, which is what turns a reader holding two locks into a standstill).
//
//	root { kp, type tr, m, [alias = n] }
//	  m = module { n }    n = module { o, [up = m] }    o = module { }
//	  c = child of n, cc = child of c, oc = child of o
//
// The module bindings are never written, so every path has ONE answer. Every goroutine owns a
// symbol on root and one on m: it alone defines them (directly or by DefineGlobal from inside),
// sets them from inside and deletes them by DeleteGlobal started inside, so its own reads through
// any inner scope are fixed by its program order.
//
// The deadlock verdict comes from goroutine states, never from the clock: the timer only says when
// to look. A standstill = in two looks every unfinished worker is parked in a lock wait below an
// env frame, they are the same goroutines at the same frames, and the count of completed
// operations has not moved.

import (
	"context"
	"fmt"
	"runtime"
	"sort"
	"strings"
	"sync"
	"sync/atomic"
	"time"

	"github.com/mattn/anko/ast"
	"github.com/mattn/anko/env"

	"verifharness/internal/ank"
	"verifharness/internal/fw"
	"verifharness/internal/wk"
)

const c13r7TreeRule = " phase trees (race build, GOMAXPROCS 2/4/8/16): a tree root{kp, type tr, m} <- module m{n} <- module n{o} <- module o with c = child of n, cc = child of c, oc = child of o (half of the cases with the extra bindings n.up = m and root.alias = n); 4-10 goroutines x 1200-3000 operations, 40% walking outwards from n/o/c/cc/oc/a fresh child (DeleteGlobal of the goroutine's own symbol bound on root or on m, of a name bound nowhere, Set, Get, Addr, Type, DefineGlobal, DeepCopy), 35% walking inwards (GetEnvFromPath of m.n, m.n.o, n.o, m.n.up.n.o, alias.o, alias.up.n ... started in root, m or below), 25% on the scopes in between (Define/Delete of an own symbol on m or n, String, Copy, listings, NewModule of an own name), the two walks also in their script forms (delete(name, true) and make(m.n.T) run in an inner scope, trees parsed per goroutine); each goroutine is the only writer of its symbols g<w> (root) and h<w> (m), so what it reads of them through any inner scope is fixed (after its DeleteGlobal the name is gone, after its Set the value is the one set), and every path answers the one module the never-written bindings lead to. A run that stops moving is judged from goroutine states: every unfinished worker parked in a lock wait under an env frame, the same goroutines at the same frames in two looks, no operation completed in between = deadlock-in-env:related-scopes (the detail names the frames)."

const c13r7TreeAssumption = "phase trees: the module bindings m, n, o, up, alias are never re-bound or deleted, so a path has one answer; values other than the goroutine's own symbols are not compared (an operation that walks the chain takes one scope at a time, and the statement orders the operations of one scope)"

func c13r7TreePhase(tier string) fw.Phase {
	n := 8
	if tier == "thorough" {
		n = 160
	}
	return fw.Phase{Name: "trees", Race: true, Cases: n, Chunk: 1, TimeoutS: 900, Jobs: 8}
}

// c13r7Parked looks at all goroutines: the workers of this phase (a frame of this file's worker
// closure), how many of them are parked in a lock wait below an env frame, and a fingerprint of
// who is parked where.
func c13r7Parked() (workers, parked int, where, fingerprint string) {
	buf := make([]byte, 8<<20)
	dump := string(buf[:runtime.Stack(buf, true)])
	sites := map[string]bool{}
	var who []string
	for _, g := range strings.Split(dump, "\n\n") {
		if !strings.Contains(g, "main.c13r7Trees.func") || !strings.Contains(g, "c13_r7_trees.go") || strings.Contains(g, "sync.(*WaitGroup).Wait") {
			continue // not a worker (the goroutine that waits for the workers is a closure of this file, too)
		}
		workers++
		head := g
		if i := strings.Index(g, "\n"); i > 0 {
			head = g[:i]
		}
		waiting := strings.Contains(head, "[sync.RWMutex.") || strings.Contains(head, "[sync.Mutex.") || strings.Contains(head, "[semacquire")
		if !waiting || !strings.Contains(g, "github.com/mattn/anko/env.") {
			continue
		}
		parked++
		for _, ln := range strings.Split(g, "\n") {
			if strings.HasPrefix(ln, "github.com/mattn/anko/env.") {
				fn := ln
				if i := strings.LastIndex(fn, "("); i > 0 {
					fn = fn[:i]
				}
				fn = strings.TrimPrefix(fn, "github.com/mattn/anko/")
				sites[fn] = true
				id := head
				if i := strings.Index(head, " ["); i > 0 {
					id = head[:i]
				}
				who = append(who, id+"@"+fn)
				break
			}
		}
	}
	var names []string
	for k := range sites {
		names = append(names, k)
	}
	sort.Strings(names)
	sort.Strings(who)
	return workers, parked, strings.Join(names, ","), strings.Join(who, ";")
}

func c13r7Trees(c *wk.Case) {
	procs := []int{16, 2, 4, 8}[c.Index%4]
	old := runtime.GOMAXPROCS(procs)
	defer runtime.GOMAXPROCS(old)
	links := c.Rng.Intn(2) == 0
	root := env.NewEnv()
	root.Define("kp", "P")
	root.DefineReflectType("tr", c13r5Types[0])
	m, _ := root.NewModule("m")
	n, _ := m.NewModule("n")
	o, _ := n.NewModule("o")
	cs := n.NewEnv()
	cc := cs.NewEnv()
	oc := o.NewEnv()
	if links {
		n.Define("up", m)
		root.Define("alias", n)
	}
	n.DefineReflectType("TN", c13r5Types[0])
	o.DefineReflectType("TO", c13r5Types[1])
	inner := []*env.Env{n, o, cs, cc, oc}
	innerNames := []string{"n", "o", "c", "cc", "oc"}
	// the paths and their one answer, per starting scope: every scope sees m (bound on root), the
	// scopes inside m see n, the scopes inside n see o and up
	type pathT struct {
		from *env.Env
		path []string
		want *env.Env
		text string
	}
	var paths []pathT
	add := func(fromName string, from *env.Env, p string, want *env.Env) {
		paths = append(paths, pathT{from, strings.Split(p, "."), want, p + " from " + fromName})
	}
	all := map[string]*env.Env{"root": root, "m": m, "n": n, "o": o, "c": cs, "cc": cc, "oc": oc}
	for name, e := range all {
		add(name, e, "m", m)
		add(name, e, "m.n", n)
		add(name, e, "m.n.o", o)
		add(name, e, "m.n.o", o)
		if links {
			add(name, e, "m.n.up", m)
			add(name, e, "m.n.up.n.o", o)
			add(name, e, "alias.o", o)
			add(name, e, "alias.up.n", n)
		}
		if name != "root" {
			add(name, e, "n.o", o)
			add(name, e, "n", n)
		}
		if name != "root" && name != "m" {
			add(name, e, "o", o)
			if links {
				add(name, e, "up.n.o", o)
			}
		}
	}
	sort.Slice(paths, func(i, j int) bool { return paths[i].text < paths[j].text })
	ng := 4 + c.Rng.Intn(7)
	nops := 1200 + c.Rng.Intn(1801)
	seeds := make([]int64, ng)
	for i := range seeds {
		seeds[i] = c.Rng.Int63()
		root.Define(fmt.Sprintf("g%d", i), int64(0))
		m.Define(fmt.Sprintf("h%d", i), int64(0))
	}
	input := map[string]interface{}{"phase": "trees", "goroutines": ng, "ops": nops, "gomaxprocs": procs, "up_and_alias_links": links}
	c.Begin(input)
	// the script forms of the two walks, parsed here one-at-a-time, each tree for one goroutine alone:
	// delete(name, true) is DeleteGlobal started in the scope the script runs in, a type path m.n.T is
	// GetEnvFromPath started there
	scripts := make([][]ast.Stmt, ng)
	for w := 0; w < ng; w++ {
		for _, src := range []string{fmt.Sprintf(`delete("g%d", true)`, w), fmt.Sprintf(`delete("h%d", true)`, w), "make(m.n.TN)", "make(m.n.o.TO)"} {
			stmt, err, out := ank.Parse(src)
			if err != nil || out.Panicked {
				c.Inconclusive("trees-script-does-not-parse", fmt.Sprintf("%s: %v %s", src, err, out.PanicVal), input)
				return
			}
			scripts[w] = append(scripts[w], stmt)
		}
	}
	rep := &c13r5Reporter{viol: map[string]string{}, counts: map[string]int{}}
	var progress int64
	var wg sync.WaitGroup
	start := make(chan struct{})
	for w := 0; w < ng; w++ {
		wg.Add(1)
		go func(w int) {
			defer wg.Done()
			defer func() {
				if r := recover(); r != nil {
					rep.recovered(r)
				}
			}()
			next := c13r7Xor(seeds[w])
			local := map[string]int{}
			// own[0] = g<w> on root, own[1] = h<w> on m: the value this goroutine left, bound or not
			names := []string{fmt.Sprintf("g%d", w), fmt.Sprintf("h%d", w)}
			homes := []*env.Env{root, m}
			vals := []int64{0, 0}
			bound := []bool{true, true}
			tmp := fmt.Sprintf("t%d", w)
			from := func() (*env.Env, string) {
				i := next(len(inner) + 1)
				if i == len(inner) {
					return inner[next(len(inner))].NewEnv(), "a fresh child"
				}
				return inner[i], innerNames[i]
			}
			<-start
			for i := int64(1); i <= int64(nops); i++ {
				d, via := from()
				x := next(2)
				var name string
				switch r := next(40); {
				// ---- outwards
				case r < 5:
					name = "DeleteGlobal"
					if next(4) == 0 {
						name = "script-delete-global"
						if out := ank.RunCtx(context.Background(), d, scripts[w][x]); out.Panicked || out.Err != nil {
							rep.report("trees:script:delete-fails", fmt.Sprintf("delete(%q, true) run in %s: %v %s", names[x], via, out.Err, out.PanicSig))
						}
					} else {
						d.DeleteGlobal(names[x])
					}
					bound[x] = false
				case r < 7:
					name = "DeleteGlobal-unbound"
					d.DeleteGlobal("never-bound")
				case r < 10:
					name = "Define-home"
					var err error
					if x == 0 && next(2) == 0 {
						err = d.DefineGlobal(names[x], i)
					} else {
						err = homes[x].Define(names[x], i)
					}
					if err != nil {
						rep.report("trees:Define:fails", fmt.Sprintf("goroutine %d: Define of %s on its home scope fails: %v", w, names[x], err))
					}
					vals[x], bound[x] = i, true
				case r < 12:
					name = "Set"
					err := d.Set(names[x], i)
					if bound[x] != (err == nil) {
						rep.report("trees:Set:own-symbol", fmt.Sprintf("goroutine %d is the only writer of %s and left it bound: %v; Set started in %s: error %v", w, names[x], bound[x], via, err))
					} else if bound[x] {
						vals[x] = i
					}
				case r < 15:
					name = "Get"
					v, err := d.Get(names[x])
					if bound[x] != (err == nil) || (bound[x] && v != vals[x]) {
						rep.report("trees:Get:own-symbol", fmt.Sprintf("goroutine %d is the only writer of %s and left it bound: %v, to %d; Get started in %s = %s (error %v)", w, names[x], bound[x], vals[x], via, ank.Render(v), err))
					}
				case r < 16:
					name = "Addr+Type"
					d.Addr(names[x])
					if t, err := d.Type("tr"); err != nil || t != c13r5Types[0] {
						rep.report("trees:Type:root-type", fmt.Sprintf("Type(tr) started in %s = %v (error %v); root defines it and nobody writes it", via, t, err))
					}
				// ---- inwards
				case r < 18:
					name = "script-make-type-path"
					si := 2 + next(2)
					out := ank.RunCtx(context.Background(), d, scripts[w][si])
					if want := []interface{}{int64(0), ""}[si-2]; out.Panicked || out.Err != nil || out.Val != want {
						rep.report("trees:script:make-type-path", fmt.Sprintf("%s run in %s = %s (error %v %s); the modules and the type on the path are never written", []string{"make(m.n.TN)", "make(m.n.o.TO)"}[si-2], via, ank.Render(out.Val), out.Err, out.PanicSig))
					}
				case r < 30:
					name = "GetEnvFromPath"
					p := paths[next(len(paths))]
					if got, err := p.from.GetEnvFromPath(p.path); err != nil || got != p.want {
						rep.report("trees:GetEnvFromPath:wrong-module", fmt.Sprintf("GetEnvFromPath(%s): error %v, the right module: %v; the module bindings are never written", p.text, err, got == p.want))
					}
				// ---- in between
				case r < 33:
					name = "Define+Delete-between"
					e := []*env.Env{m, n, cs}[next(3)]
					e.Define(tmp, i)
					if v, err := e.Get(tmp); err != nil || v != i {
						rep.report("trees:Get:own-symbol", fmt.Sprintf("goroutine %d defined %s = %d on a scope in between, Get = %s (error %v)", w, tmp, i, ank.Render(v), err))
					}
					e.Delete(tmp)
				case r < 35:
					name = "String"
					_ = []*env.Env{root, m, n, o}[next(4)].String()
				case r < 37:
					name = "Copy+listing"
					e := []*env.Env{m, n, o, cs}[next(4)]
					e.Copy().GetValueSymbols()
					e.GetValueSymbols()
				case r < 39:
					name = "DeepCopy"
					cp := d.DeepCopy()
					if v, err := cp.Get(names[x]); bound[x] != (err == nil) || (bound[x] && v != vals[x]) {
						rep.report("trees:DeepCopy:own-symbol", fmt.Sprintf("goroutine %d is the only writer of %s and left it bound: %v, to %d; a DeepCopy started in %s shows %s (error %v)", w, names[x], bound[x], vals[x], via, ank.Render(v), err))
					}
				default:
					name = "NewModule"
					m.NewModule(fmt.Sprintf("x%d", w))
				}
				local[name]++
				atomic.AddInt64(&progress, 1)
				if next(16) == 0 {
					runtime.Gosched()
				}
			}
			rep.merge(local)
		}(w)
	}
	close(start)
	finished := make(chan struct{})
	go func() { wg.Wait(); close(finished) }()
	lastProgress, lastPrint := int64(-1), ""
	looks := 0
wait:
	for {
		select {
		case <-finished:
			break wait
		case <-time.After(300 * time.Millisecond):
		}
		looks++
		p1 := atomic.LoadInt64(&progress)
		workers, parked, where, fp := c13r7Parked()
		p2 := atomic.LoadInt64(&progress)
		if workers > 0 && parked == workers && p1 == p2 {
			if p1 == lastProgress && fp == lastPrint {
				c.Violation("deadlock-in-env:related-scopes", fmt.Sprintf("all %d unfinished worker goroutines are parked in a lock wait under an env frame, the same goroutines at the same frames in two looks, and none of the %d operations completed so far was followed by another: %s (%s)", workers, p1, where, fp), input)
				c.Bail()
			}
			lastProgress, lastPrint = p1, fp
		} else {
			lastProgress, lastPrint = -1, ""
		}
		if looks > 2000 {
			c.Inconclusive("trees-stress-watchdog", fmt.Sprintf("workers=%d parked=%d after %d operations", workers, parked, p2), input)
			c.Bail()
		}
	}
	// the final state: every own symbol as its writer left it (the goroutines are done: their states are read after wg.Wait)
	total := rep.flush(c, "trees_ops:", input)
	c.Eval(fmt.Sprintf("trees g=%d ops=%d procs=%d links=%v seed0=%d", ng, nops, procs, links, seeds[0]), total > 0)
	c.Tag(fmt.Sprintf("trees-gomaxprocs:%d", procs), fmt.Sprintf("trees-links:%v", links))
	if c.WantSample() {
		c.Sample(map[string]interface{}{"phase": "trees", "goroutines": ng, "ops_per_goroutine": nops, "gomaxprocs": procs, "up_and_alias_links": links, "operation_counts": rep.counts})
	}
}
