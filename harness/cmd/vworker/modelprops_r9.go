package main

// Round 9 direct programs for the model-based checks: OVERLAP inside one run.
//
// The reference model cannot order a goroutine against its spawner (section 2.1 of DESIGN.md),
// so the generated programs start goroutines only to return at once. The statements of C04, C07,
// C08 and C09 are about invocations, operands, branch decisions and deferred calls of "every"
// invocation - also of invocations that overlap in time because goroutines of one script call
// the SAME function value, evaluate the SAME node, or decide the SAME switch together. The
// programs here have that shape:
//
//	work(tag, g) does the thing under test K times for goroutine number g and records, through the
//	host function rd, what each invocation itself observed (its own parameters and locals, the
//	operands it evaluated, the case it ran, the deferred calls that ran in it and their order);
//	pass c (cold): G goroutines, released together by closing a channel, run work("c", g);
//	pass s: the same work("s", g) calls one after another on the main goroutine;
//	pass d: G goroutines again.
//
// Every record carries g and k, so the multiset of records of a pass does not depend on the
// schedule: the three passes must give the same multiset, and for the programs whose records can
// be computed from the statement in Go the multiset is also compared with that (want). A fresh
// parse per repetition (runDirect repeats six times) makes pass c the first evaluation of every
// node of the tree.

import (
	"fmt"
	"strings"

	"verifharness/internal/ank"
)

const (
	r9G = 8
)

// r9Harness wraps a definition of work(tag, g) into the three passes.
func r9Harness(defs string) string {
	return defs + fmt.Sprintf(`
func pass(tag) {
  start = make(chan int64)
  done = make(chan int64)
  for g = 0; g < %d; g++ {
    go func(g) { <-start; work(tag, g); done <- 1 }(g)
  }
  close(start)
  for g = 0; g < %d; g++ { <-done }
}
pass("c")
for g = 0; g < %d; g++ { work("s", g) }
pass("d")
`, r9G, r9G, r9G)
}

func r9Passes() []string { return []string{"c", "s", "d"} }

// c04Overlap: parameters and locals belong to the invocation. Every script function of 1-7
// parameters (both call paths), variadic ones, closures over an invocation's locals, and a
// recursive function are called by all goroutines at once with arguments that identify the caller.
func c04Overlap() []directProg {
	const K = 120
	var defs strings.Builder
	var want []string
	for n := 1; n <= 7; n++ {
		ps := []string{"tag", "g", "k"}
		for j := 0; j < n; j++ {
			ps = append(ps, fmt.Sprintf("q%d", j))
		}
		// the function records its parameters after a few statements of its own and a nested call
		fmt.Fprintf(&defs, "func f%d(%s) {\n  var loc = g * 1000 + k\n  for i = 0; i < 3; i++ { loc = loc + 0 }\n  rd(tag, [%d, g, k, %s, loc])\n}\n", n, strings.Join(ps, ", "), n, strings.Join(ps[3:], ", "))
	}
	defs.WriteString("func fv(tag, g, k, rest...) {\n  var n = len(rest)\n  for i = 0; i < 3; i++ { n = n + 0 }\n  rd(tag, [\"v\", g, k, rest, n])\n}\n")
	defs.WriteString("func fw(rest...) {\n  var first = rest[0]\n  for i = 0; i < 3; i++ { first = first }\n  rd(first, [\"w\", rest[1], rest[2], rest[1:], first == rest[0]])\n}\n")
	defs.WriteString("func mk(g) {\n  var c = g * 10\n  return func(d) { c = c + d; return c }\n}\n")
	defs.WriteString("func down(g, n) {\n  var mine = g * 100 + n\n  if n == 0 { return mine }\n  r = down(g, n - 1)\n  return mine == g * 100 + n ? r + 1 : -100000\n}\n")
	defs.WriteString(fmt.Sprintf("func work(tag, g) {\n  inc = mk(g)\n  for k = 0; k < %d; k++ {\n", K))
	for n := 1; n <= 7; n++ {
		args := []string{"tag", "g", "k"}
		for j := 0; j < n; j++ {
			args = append(args, fmt.Sprintf("g * 100000 + k * 10 + %d", j))
		}
		fmt.Fprintf(&defs, "    f%d(%s)\n", n, strings.Join(args, ", "))
	}
	defs.WriteString("    fv(tag, g, k, g * 7, k * 3, \"x\" + g)\n    fw(tag, g, k, g + k)\n    inc(1)\n  }\n")
	defs.WriteString(fmt.Sprintf("  rd(tag, [\"ctr\", g, inc(0)])\n  rd(tag, [\"rec\", g, down(g, 40)])\n}\n"))
	for g := int64(0); g < r9G; g++ {
		for k := int64(0); k < K; k++ {
			for n := 1; n <= 7; n++ {
				rec := []interface{}{int64(n), g, k}
				for j := 0; j < n; j++ {
					rec = append(rec, g*100000+k*10+int64(j))
				}
				rec = append(rec, g*1000+k)
				want = append(want, ank.Render(rec))
			}
			want = append(want, ank.Render([]interface{}{"v", g, k, []interface{}{g * 7, k * 3, "x" + fmt.Sprint(g)}, int64(3)}))
			want = append(want, ank.Render([]interface{}{"w", g, k, []interface{}{g, k, g + k}, true}))
		}
		want = append(want, ank.Render([]interface{}{"ctr", g, g*10 + K}))
		want = append(want, ank.Render([]interface{}{"rec", g, g*100 + 40}))
	}
	return []directProg{{name: "overlap-invocations-of-one-function-value", src: r9Harness(defs.String()), passes: r9Passes(), want: want, sig: "overlap:invocation-locals"}}
}

// c07Overlap: the operands a short-circuit form evaluates depend on its own deciding operand only.
// Deciding operands of every truthiness class, strings of many shapes among them, differ from
// goroutine to goroutine at every moment; the probes record which operands were evaluated.
func c07Overlap() []directProg {
	const K = 90
	defs := `conds = ["", "a", "abc", "0", "0.0", "1", "true", "false", "1.5", "x y", "00", "nil", 0, 1, 2.5, 0.0, nil, true, false, [], [0], {}, {"a": 1}]
func pr(tag, g, k, what, v) { rd(tag, [g, k, what]); return v }
func two(a, b) { return [a, b] }
func work(tag, g) {
  n = len(conds)
  for k = 0; k < ` + fmt.Sprint(K) + `; k++ {
    c = conds[(g * 3 + k) % n]
    x = c && pr(tag, g, k, "and-right", 1)
    y = c || pr(tag, g, k, "or-right", 1)
    z = c ? pr(tag, g, k, "then", 1) : pr(tag, g, k, "else", 2)
    w = c ?? pr(tag, g, k, "coalesce-right", 3)
    l = [pr(tag, g, k, "e0", 0), pr(tag, g, k, "e1", 1), pr(tag, g, k, "e2", 2)]
    t = two(pr(tag, g, k, "a0", g), pr(tag, g, k, "a1", k))
    rd(tag, [g, k, "values", l, t, w == nil])
  }
}
`
	return []directProg{{name: "overlap-short-circuit-and-operand-lists", src: r9Harness(defs), passes: r9Passes(), sig: "overlap:operands-evaluated"}}
}

// c08Overlap: a branch decision belongs to the evaluation that made it. All goroutines decide the
// same switch statements (8 to 200 cases: string literals, numbers, mixed; default first, in the
// middle, last, absent), if chains and loops with break/continue at the same time - in pass c for
// the first time in the life of the tree.
func c08Overlap() []directProg {
	const K = 60
	var defs strings.Builder
	var want []string
	sizes := []int{8, 9, 31, 200}
	for si, n := range sizes {
		fmt.Fprintf(&defs, "func pickS%d(s) {\n  switch s {\n", si)
		for i := 0; i < n; i++ {
			fmt.Fprintf(&defs, "  case \"k%03d\":\n    return %d\n", (i*7)%n, i)
		}
		defs.WriteString("  default:\n    return -1\n  }\n}\n")
		fmt.Fprintf(&defs, "func pickN%d(s) {\n  switch s {\n  default:\n    return -1\n", si)
		for i := 0; i < n; i++ {
			fmt.Fprintf(&defs, "  case %d, \"n%d\":\n    return %d\n", i*3, i*3, i)
		}
		defs.WriteString("  }\n}\n")
	}
	defs.WriteString(`func chain(v) {
  if v < 10 { return "lt10" } else if v < 20 { return "lt20" } else if v == 25 { return "is25" } else if v % 2 == 0 { return "even" } else { return "odd" }
}
func loops(g, k) {
  s = 0
  for i = 0; i < 40; i++ {
    if i % 3 == g % 3 { continue }
    if i > 20 + k % 10 { break }
    for j in [1, 2, 3, 4] { if j == 3 { break }; if j == 1 { continue }; s += j }
    s += i
  }
  return s
}
`)
	fmt.Fprintf(&defs, "func work(tag, g) {\n  for k = 0; k < %d; k++ {\n", K)
	for si, n := range sizes {
		fmt.Fprintf(&defs, "    a = (g * 13 + k * 5) %% %d\n    rd(tag, [g, k, \"S%d\", pickS%d(\"k\" + (a < 10 ? \"00\" : a < 100 ? \"0\" : \"\") + a), pickS%d(\"absent\" + g), pickN%d(a * 3), pickN%d(\"n\" + a * 3), pickN%d(a * 3 + 1)])\n", n+2, si, si, si, si, si, si)
	}
	defs.WriteString("    rd(tag, [g, k, \"chain\", chain(g + k), chain(25), chain(g * 2 + 30)])\n    rd(tag, [g, k, \"loops\", loops(g, k)])\n  }\n}\n")
	for g := int64(0); g < r9G; g++ {
		for k := int64(0); k < K; k++ {
			for si, n := range sizes {
				a := (g*13 + k*5) % int64(n+2)
				// pickS: the case whose label is k%03d of a
				ps := int64(-1)
				for i := 0; i < n; i++ {
					if int64((i*7)%n) == a {
						ps = int64(i)
						break
					}
				}
				pn := int64(-1)
				if a < int64(n) {
					pn = a
				}
				want = append(want, ank.Render([]interface{}{g, k, fmt.Sprintf("S%d", si), ps, int64(-1), pn, pn, int64(-1)}))
			}
			ch := func(v int64) string {
				switch {
				case v < 10:
					return "lt10"
				case v < 20:
					return "lt20"
				case v == 25:
					return "is25"
				case v%2 == 0:
					return "even"
				}
				return "odd"
			}
			want = append(want, ank.Render([]interface{}{g, k, "chain", ch(g + k), "is25", ch(g*2 + 30)}))
			s := int64(0)
			for i := int64(0); i < 40; i++ {
				if i%3 == g%3 {
					continue
				}
				if i > 20+k%10 {
					break
				}
				s += 2 + i
			}
			want = append(want, ank.Render([]interface{}{g, k, "loops", s}))
		}
	}
	return []directProg{{name: "overlap-branch-decisions-of-one-node", src: r9Harness(defs.String()), passes: r9Passes(), want: want, sig: "overlap:branch-decision"}}
}

// c09Overlap: the deferred calls of an invocation run when THAT invocation ends, in reverse order,
// with the arguments evaluated at the defer statement, and a caught error belongs to the try that
// caught it - while other goroutines of the run are inside invocations of the same functions.
func c09Overlap() []directProg {
	const K = 70
	defs := `func job(tag, g, k) {
  var log = []
  add = func(what) { log += what }
  defer func() { rd(tag, [g, k, log]) }()
  defer add("d1:" + g + ":" + k)
  defer func(a) { log += "d2:" + a }(g * 1000 + k)
  add("body")
  try {
    if k % 3 == 0 { throw "e:" + g + ":" + k }
    add("no-throw")
  } catch e {
    add("caught:" + toString(e))
  } finally {
    add("finally")
  }
  for i = 0; i < 5; i++ { }
  add("end")
  return k
}
func outer(tag, g, k) {
  var seen = []
  defer func() { rd(tag, [g, k, "outer", seen]) }()
  seen += job(tag, g, k)
  try { inner_fail(g, k) } catch e { seen += "caught:" + toString(e) }
  seen += "after"
}
func inner_fail(g, k) {
  defer func() { }()
  throw "inner:" + g + ":" + k
}
func work(tag, g) {
  for k = 0; k < ` + fmt.Sprint(K) + `; k++ { outer(tag, g, k) }
}
`
	var want []string
	for g := int64(0); g < r9G; g++ {
		for k := int64(0); k < K; k++ {
			log := []interface{}{"body"}
			if k%3 == 0 {
				log = append(log, fmt.Sprintf("caught:e:%d:%d", g, k))
			} else {
				log = append(log, "no-throw")
			}
			log = append(log, "finally", "end", fmt.Sprintf("d2:%d", g*1000+k), fmt.Sprintf("d1:%d:%d", g, k))
			want = append(want, ank.Render([]interface{}{g, k, log}))
			want = append(want, ank.Render([]interface{}{g, k, "outer", []interface{}{k, fmt.Sprintf("caught:inner:%d:%d", g, k), "after"}}))
		}
	}
	return []directProg{{name: "overlap-deferred-calls-and-caught-errors", src: r9Harness(defs), passes: r9Passes(), want: want, sig: "overlap:deferred-calls"}}
}
