package main

// C16 — script channels and goroutines deliver every message once, in order.
//
// Workload: pipeline programs built from templates (linear, fan-in, fan-out,
// capacity-discipline), every stage a script goroutine started with `go`,
// run repeatedly under GOMAXPROCS 1/2/4/16 with PRNG-driven jitter injected
// through a host function. Monitor: the host functions the workload binds into
// the environment (collect/item/args/mark/tick/report/fail — all locking) plus
// the goroutine-state sampler (runtime.Stack(all)) for termination.
//
// Oracle (from the property statement only):
//   - every message sent arrives exactly once, per-sender order preserved,
//     rendered with the dynamic type the chain of channel element types implies;
//   - receive expression on closed+drained channel = nil; `v, ok = <-c` gives
//     ok=false and leaves v untouched; `for v in c` ends on close;
//   - send on closed / double close = error, no panic, process alive;
//   - `go f(args)` sees the argument values at the go statement, arguments are
//     evaluated before the go statement completes, the caller is not blocked;
//   - the run ends with all script goroutines gone. If not: every anko goroutine
//     parked in a channel operation in two identical samples => deadlock
//     (violation); anything else => inconclusive.
// Nothing is decided on wall-clock time: timers only pace the sampler.

import (
	"context"
	"fmt"
	"math/rand"
	"reflect"
	"runtime"
	"sort"
	"strconv"
	"strings"
	"sync"
	"sync/atomic"
	"time"

	"verifharness/internal/ank"
	"verifharness/internal/fw"
	"verifharness/internal/wk"
)

// ---------------------------------------------------------------------------
// host side

type c16Host struct {
	mu        sync.Mutex
	collected map[string][]string // consumer id -> rendered items in arrival order
	collects  map[string]int      // number of collect() calls per consumer
	args      map[string][]string // first arg rendered -> renderings of the whole call
	marks     []string
	ticks     map[string]int
	reports   map[string][]string
	fails     []string
	overrun   string
	limit     int
	budget    int // upper bound on host events of a correct run
	events    int
	cancel    context.CancelFunc
	cancelled bool
	jr        *rand.Rand
	sleepPm   int // per-mille of jitter calls that sleep
	yieldPm   int
	chNames   map[uintptr]string // channels the script has named with chname(ch, name)
	undecided string             // non-empty: a host-side wait on goroutine states gave up (inconclusive)
	undecDet  string
	// round 8 (crowds of goroutines): sampler periods between two goroutine-state samples
	// (0 = every period) and periods after which the sampler gives up (0 = c16MaxPolls)
	pace     int
	maxPolls int
}

// named basic types the workload binds into the environment (DefineType): a
// channel of such an element type, and values of such a type sent on channels
// of the plain basic type, exercise "converted to the channel's element type"
// for types that share the reflect kind but are different types
type c16Nanos int64
type c16Level string

// c16DefineTypes binds the named types and the host functions that make values
// of them (the scripts have no conversion syntax of their own).
func c16DefineTypes(e interface {
	Define(string, interface{}) error
	DefineType(string, interface{}) error
}) {
	e.DefineType("Nanos", c16Nanos(0))
	e.DefineType("Level", c16Level(""))
	e.DefineType("Duration", time.Duration(0))
	e.Define("nanos", func(x int64) c16Nanos { return c16Nanos(x) })
	e.Define("dur", func(x int64) time.Duration { return time.Duration(x) })
	e.Define("level", func(x string) c16Level { return c16Level(x) })
	e.Define("i32", func(x int64) int32 { return int32(x) })
	e.Define("ints", func(a, b int64) []int64 { return []int64{a, b} })
}

// renderArg renders one argument of args(): like ank.Render, but a channel is
// rendered by the name the script registered for it (h.mu held)
func (h *c16Host) renderArg(v interface{}) string {
	rv := reflect.ValueOf(v)
	if rv.IsValid() && rv.Kind() == reflect.Chan {
		if rv.IsNil() {
			return "nil"
		}
		if n, ok := h.chNames[rv.Pointer()]; ok {
			return "chan:" + n
		}
		return "chan:?"
	}
	return ank.Render(v)
}

func newC16Host(limit int, seed int64, sleepPm, yieldPm int) *c16Host {
	return &c16Host{collected: map[string][]string{}, collects: map[string]int{}, args: map[string][]string{},
		ticks: map[string]int{}, reports: map[string][]string{}, chNames: map[uintptr]string{}, limit: limit, budget: 60*(limit+10) + 500,
		jr: rand.New(rand.NewSource(seed)), sleepPm: sleepPm, yieldPm: yieldPm}
}

// ev counts one host event (h.mu held); a run that produces more events than a
// correct run of the program possibly can is a runaway (some loop does not end)
func (h *c16Host) ev() {
	h.events++
	if h.events > h.budget && h.overrun == "" {
		h.overrun = "event-budget"
		h.stop()
	}
}

func (h *c16Host) stop() {
	// h.mu held
	if !h.cancelled {
		h.cancelled = true
		if h.cancel != nil {
			h.cancel()
		}
	}
}

func (h *c16Host) define(def func(string, interface{}) error) {
	def("collect", func(k interface{}, list interface{}) {
		h.mu.Lock()
		defer h.mu.Unlock()
		h.ev()
		id := ank.Render(k)
		h.collects[id]++
		if l, ok := list.([]interface{}); ok {
			for _, v := range l {
				h.collected[id] = append(h.collected[id], ank.Render(v))
			}
		} else {
			h.collected[id] = append(h.collected[id], "<collect got "+ank.Render(list)+">")
		}
	})
	def("item", func(k interface{}, v interface{}) {
		h.mu.Lock()
		defer h.mu.Unlock()
		h.ev()
		id := ank.Render(k)
		h.collected[id] = append(h.collected[id], ank.Render(v))
		if len(h.collected[id]) > h.limit {
			h.overrun = id
			h.stop()
		}
	})
	def("args", func(a ...interface{}) {
		h.mu.Lock()
		defer h.mu.Unlock()
		h.ev()
		key := "<none>"
		if len(a) > 0 {
			key = ank.Render(a[0])
		}
		parts := make([]string, len(a))
		for i, v := range a {
			parts[i] = h.renderArg(v)
		}
		h.args[key] = append(h.args[key], strings.Join(parts, " "))
	})
	def("chname", func(ch interface{}, name string) {
		h.mu.Lock()
		defer h.mu.Unlock()
		h.ev()
		if rv := reflect.ValueOf(ch); rv.IsValid() && rv.Kind() == reflect.Chan && !rv.IsNil() {
			h.chNames[rv.Pointer()] = name
		}
	})
	def("mark", func(tag interface{}, j interface{}) interface{} {
		h.mu.Lock()
		defer h.mu.Unlock()
		h.ev()
		if len(h.marks) < 1<<16 {
			h.marks = append(h.marks, fmt.Sprint(tag)+":"+ank.Render(j))
		}
		return j
	})
	def("tick", func(k interface{}) {
		h.mu.Lock()
		defer h.mu.Unlock()
		h.ev()
		id := ank.Render(k)
		h.ticks[id]++
		if h.ticks[id] > h.limit {
			h.overrun = id
			h.stop()
		}
	})
	def("report", func(name interface{}, v interface{}) {
		h.mu.Lock()
		defer h.mu.Unlock()
		h.ev()
		n := fmt.Sprint(name)
		if len(h.reports[n]) < 64 {
			h.reports[n] = append(h.reports[n], ank.Render(v))
		}
	})
	def("fail", func(k interface{}, e interface{}) {
		h.mu.Lock()
		defer h.mu.Unlock()
		h.ev()
		h.fails = append(h.fails, ank.Render(k)+": "+fmt.Sprint(e))
		h.stop()
	})
	// sendersparked(n) returns once n interpreter goroutines are parked in a channel
	// operation issued by a send / receive EXPRESSION (vm invokeChanExpr): the script
	// calls it on its main goroutine after it has started n senders that must block
	// (no receiver / full buffer), so that what it does next is ordered after the
	// evaluation of the operands of those sends. Decided on goroutine states only (the
	// timer paces the sampling); when the states never show up the run is inconclusive.
	def("sendersparked", func(n int64) {
		h.mu.Lock()
		h.ev()
		h.mu.Unlock()
		for i := 0; ; i++ {
			if i < 40 {
				runtime.Gosched()
			} else {
				time.Sleep(100 * time.Microsecond)
			}
			if i%4 != 3 {
				continue
			}
			h.mu.Lock()
			stopped := h.cancelled
			h.mu.Unlock()
			if stopped {
				return
			}
			c16IgnoreMu.RLock()
			s := c16TakeSample(c16Ignore)
			c16IgnoreMu.RUnlock()
			cnt := 0
			for _, g := range s.gs {
				if g.parked && strings.HasSuffix(g.op, "invokeChanExpr") {
					cnt++
				}
			}
			if cnt >= int(n) {
				return
			}
			if i > 40000 {
				h.mu.Lock()
				h.undecided = "blocked-senders-never-seen-parked"
				h.undecDet = fmt.Sprintf("%d of %d senders seen parked\n%s", cnt, n, s.text)
				h.mu.Unlock()
				return
			}
		}
	})
	def("jitter", func() {
		h.mu.Lock()
		h.ev()
		r := h.jr.Intn(1000)
		d := time.Duration(1+h.jr.Intn(40)) * time.Microsecond
		h.mu.Unlock()
		switch {
		case r < h.sleepPm:
			time.Sleep(d)
		case r < h.sleepPm+h.yieldPm:
			runtime.Gosched()
		}
	})
}

// ---------------------------------------------------------------------------
// goroutine-state sampler

type c16G struct {
	id     string
	state  string
	anko   bool
	parked bool   // waiting in a channel operation issued by the interpreter itself
	op     string // vm function that issued it
	sig    string
}

type c16Sample struct {
	gs        []c16G
	anko      int
	allParked bool
	sig       string
	ops       string
	text      string
}

const c16VM = "github.com/mattn/anko/vm."

// size of the last dump of all stacks (a crowd of goroutines needs tens of megabytes:
// the next sample starts there instead of doubling up from 1 MiB again)
var c16StackHint int64 = 1 << 20

func c16TakeSample(ignore map[string]bool) c16Sample {
	buf := make([]byte, atomic.LoadInt64(&c16StackHint))
	for {
		n := runtime.Stack(buf, true)
		if n < len(buf) {
			buf = buf[:n]
			if n > 1<<20 {
				atomic.StoreInt64(&c16StackHint, int64(n+n/4))
			}
			break
		}
		buf = make([]byte, 2*len(buf))
	}
	var s c16Sample
	opset := map[string]bool{}
	var sigs []string
	s.allParked = true
	for _, blk := range strings.Split(string(buf), "\n\n") {
		lines := strings.Split(strings.TrimSpace(blk), "\n")
		if len(lines) == 0 || !strings.HasPrefix(lines[0], "goroutine ") {
			continue
		}
		var g c16G
		hd := lines[0]
		sp := strings.Index(hd[10:], " ")
		if sp < 0 {
			continue
		}
		g.id = hd[10 : 10+sp]
		if i, j := strings.Index(hd, "["), strings.LastIndex(hd, "]"); i >= 0 && j > i {
			g.state = hd[i+1 : j]
			if k := strings.Index(g.state, ","); k >= 0 {
				g.state = g.state[:k]
			}
		}
		var fns []string
		first := ""
		for _, ln := range lines[1:] {
			if strings.HasPrefix(ln, "\t") {
				continue
			}
			fn := ln
			if strings.HasPrefix(fn, "created by ") {
				fn = strings.TrimPrefix(fn, "created by ")
				if i := strings.Index(fn, " in goroutine"); i >= 0 {
					fn = fn[:i]
				}
				if strings.HasPrefix(fn, c16VM) {
					g.anko = true
				}
				fns = append(fns, "by:"+fn)
				continue
			}
			if i := strings.LastIndex(fn, "("); i > 0 {
				fn = fn[:i]
			}
			fns = append(fns, fn)
			if strings.HasPrefix(fn, c16VM) {
				g.anko = true
			}
			if first == "" && !strings.HasPrefix(fn, "runtime.") && !strings.HasPrefix(fn, "reflect.") && !strings.HasPrefix(fn, "internal/") {
				first = fn
			}
		}
		if !g.anko || ignore[g.id] {
			continue
		}
		if (g.state == "select" || g.state == "chan receive" || g.state == "chan send") && strings.HasPrefix(first, c16VM) {
			g.parked = true
			g.op = strings.TrimPrefix(first, c16VM)
			opset[g.op] = true
		}
		g.sig = g.id + "[" + g.state + "]" + strings.Join(fns, "<")
		s.gs = append(s.gs, g)
		s.anko++
		if !g.parked {
			s.allParked = false
		}
		sigs = append(sigs, g.sig)
	}
	if s.anko == 0 {
		s.allParked = false
	}
	sort.Strings(sigs)
	s.sig = strings.Join(sigs, "\n")
	var ops []string
	for o := range opset {
		ops = append(ops, o)
	}
	sort.Strings(ops)
	s.ops = strings.Join(ops, ",")
	s.text = s.sig
	if len(s.text) > 3000 {
		s.text = s.text[:3000] + "…"
	}
	return s
}

// ---------------------------------------------------------------------------
// running one program once

type c16Run struct {
	out      ank.Out
	follow   []ank.Out
	deadlock string // non-empty: ops of the parked goroutines
	dlDetail string
	undecid  string // non-empty: the sampler could not decide (inconclusive)
	leak     string // goroutines parked in channel ops after the end of the run
	leakDet  string
	leftover string    // inconclusive: goroutines still there
	pre      []ank.Out // results of the calls made before the main script (stepped programs)
	preFail  int       // index+1 of the earlier call that failed (0 = none)
	hostStal string    // the host end of the pipeline can never finish (see c16HostPump)
	hostDet  string
	gaveUp   bool     // a call that could not be cancelled was left behind after the verdict
	epi      *ank.Out // result of the epilogue call (round 7), nil = not run
}

var c16Ignore = map[string]bool{} // goroutines of earlier cases that could not be removed

// c16IgnoreMu: c16Ignore is written by the goroutine that runs the cases (c16Execute) and
// read by it and by sendersparked, which runs on a script goroutine
var c16IgnoreMu sync.RWMutex

const (
	c16PollEvery = 15 * time.Millisecond
	c16MaxPolls  = 1200
	// sampler periods a call gets to return after the monitor has stopped the run
	c16GiveUpPolls = 60
)

// c16Await waits for a boundary call running on its own goroutine, sampling
// goroutine states while it waits. The decision "deadlock" is taken on states
// only (all interpreter goroutines parked in channel operations, twice, same
// stacks); the timer merely paces the sampling.
//
// A call made with vm.Execute (stepped programs) has no context the monitor could
// cancel. Once the verdict is in (deadlock, runaway, failed stage) and the call
// still has not returned c16GiveUpPolls sampler periods later, it is left behind
// (its goroutines are kept out of later samples by c16Execute); this is cleanup
// after the decision, not a decision.
func c16Await(done chan ank.Out, h *c16Host, cancel context.CancelFunc, r *c16Run) ank.Out {
	var prev *c16Sample
	after := 0
	for polls := 0; ; polls++ {
		select {
		case o := <-done:
			return o
		case <-time.After(c16PollEvery):
		}
		h.mu.Lock()
		stopped := h.cancelled
		h.mu.Unlock()
		if stopped {
			if after++; after > c16GiveUpPolls {
				r.gaveUp = true
				return ank.Out{Err: fmt.Errorf("c16: call left behind after the verdict")}
			}
			continue
		}
		if h.pace > 1 && polls%h.pace != h.pace-1 {
			continue
		}
		s := c16TakeSample(c16Ignore)
		if s.allParked && prev != nil && prev.allParked && prev.sig == s.sig {
			r.deadlock = s.ops
			r.dlDetail = s.text
			h.mu.Lock()
			h.stop()
			h.mu.Unlock()
			cancel()
			continue
		}
		prev = &s
		if polls > c16MaxPolls && (h.maxPolls == 0 || polls > h.maxPolls) {
			r.undecid = "no-termination-undecided"
			r.dlDetail = s.text
			h.mu.Lock()
			h.stop()
			h.mu.Unlock()
			cancel()
		}
	}
}

func c16Quiesce(base int) bool {
	for i := 0; i < 6000; i++ {
		if runtime.NumGoroutine() <= base {
			return true
		}
		if i < 200 {
			runtime.Gosched()
		} else {
			time.Sleep(200 * time.Microsecond)
		}
	}
	return runtime.NumGoroutine() <= base
}

// c16Settle waits for the script goroutines to be gone after the script has
// returned. Leftover goroutines all parked in channel operations of the
// interpreter (two identical samples) are a leak; anything else that does not
// go away is inconclusive.
func c16Settle(base int, r *c16Run) {
	var prev *c16Sample
	for i := 0; ; i++ {
		if runtime.NumGoroutine() <= base {
			return
		}
		if i < 200 {
			runtime.Gosched()
			continue
		}
		time.Sleep(200 * time.Microsecond)
		if (i-200)%75 != 74 {
			continue
		}
		s := c16TakeSample(c16Ignore)
		if s.anko == 0 {
			continue
		}
		if s.allParked && prev != nil && prev.allParked && prev.sig == s.sig {
			r.leak, r.leakDet = s.ops, s.text
			return
		}
		prev = &s
		if i > 200+75*200 {
			r.leftover, r.leakDet = "goroutines-still-running-after-end", s.text
			return
		}
	}
}

func c16Execute(c *wk.Case, p *c16Prog, procs int, h *c16Host) *c16Run {
	r := &c16Run{}
	base := runtime.NumGoroutine()
	ctx, cancel := context.WithCancel(context.Background())
	defer cancel()
	h.cancel = cancel
	e := ank.NewCoreEnv()
	h.define(e.Define)
	h.defineR7(e.Define)
	c16DefineTypes(e)
	c16DefineFuncTypes(e)
	c.Begin(p.input(procs))
	// mode "exec": vm.Execute (no context of the host's); otherwise vm.ExecuteContext
	// under the context of this run
	// "ctx-released" / "run-released": vm.ExecuteContext / parser + vm.RunContext under a
	// context of this call's own, which is cancelled as soon as the call has returned (the
	// usual `ctx, cancel := context.With...; defer cancel()` around one call). Only calls
	// that start no goroutine get these modes (the goroutines of a call share its context).
	run := func(src, mode string) ank.Out {
		done := make(chan ank.Out, 1)
		switch mode {
		case "exec":
			go func() { done <- ank.Exec(e, src) }()
		case "ctx-released", "run-released":
			own, release := context.WithCancel(ctx)
			defer release()
			if mode == "ctx-released" {
				go func() { done <- ank.ExecCtx(own, e, src) }()
			} else {
				go func() {
					stmt, err, o := ank.Parse(src)
					if o.Panicked || err != nil {
						done <- o
						return
					}
					done <- ank.RunCtx(own, e, stmt)
				}()
			}
		default:
			go func() { done <- ank.ExecCtx(ctx, e, src) }()
		}
		return c16Await(done, h, cancel, r)
	}
	decided := func() bool { return r.deadlock != "" || r.undecid != "" || r.hostStal != "" || r.gaveUp }
	// stepped programs: earlier calls on the same environment (they start stages and
	// return, or consume a part), then possibly the host at the ends of the pipeline
	for i, st := range p.pre {
		o := run(st.src, st.mode)
		r.pre = append(r.pre, o)
		if decided() {
			break
		}
		if o.Panicked || o.Err != nil {
			r.preFail = i + 1
			break
		}
	}
	if p.hostIO != nil && !decided() && r.preFail == 0 {
		c16HostPump(e, p.hostIO, h, r)
		if r.hostStal != "" {
			h.mu.Lock()
			h.stop()
			h.mu.Unlock()
		}
	}
	h.mu.Lock()
	stoppedEarly := h.cancelled
	h.mu.Unlock()
	if !decided() && r.preFail == 0 && !stoppedEarly {
		r.out = run(p.src, p.mainMode)
	}
	if !decided() && r.preFail == 0 && !stoppedEarly && !r.out.Panicked && (r.out.Err == nil || p.errTail) {
		for _, f := range p.follow {
			if decided() {
				break
			}
			r.follow = append(r.follow, run(f.src, p.mainMode))
		}
	}
	// all script goroutines must be gone now (without cancelling anything)
	if !decided() {
		h.mu.Lock()
		stopped := h.cancelled
		h.mu.Unlock()
		if !stopped {
			c16Settle(base, r)
			if p.epilogue != "" && r.leak == "" && r.leftover == "" && !r.out.Panicked {
				// the goroutines of the program are gone (whatever became of them): the
				// interpreter must still work on this environment
				o := run(p.epilogue, "exec")
				r.epi = &o
			}
		}
	}
	cancel()
	if !c16Quiesce(base) {
		// could not be removed even by cancellation: keep them out of later samples
		s := c16TakeSample(c16Ignore)
		c16IgnoreMu.Lock()
		for _, g := range s.gs {
			c16Ignore[g.id] = true
		}
		c16IgnoreMu.Unlock()
		if r.leftover == "" {
			r.leftover = "goroutines-survive-cancel"
			r.leakDet = s.text
		}
	}
	return r
}

// ---------------------------------------------------------------------------
// program model

type c16Msg struct{ group, seq, id int }

type c16Follow struct {
	src  string
	what string // "send-closed" | "double-close"
}

type c16Prog struct {
	src      string
	kind     string
	tags     []string
	total    int                 // messages that must arrive
	consumer string              // rendered consumer id
	keys     map[string]c16Msg   // rendered item -> message
	exact    []string            // linear: exact expected sequence (nil otherwise)
	expArgs  map[string]string   // rendered k -> rendered call
	argForm  map[string]string   // rendered k -> launch form
	recvForm map[string]string   // rendered k -> receive form (for overrun signatures)
	markPair [][2]string         // a must precede b in the mark log
	expRep   map[string][]string // report name -> expected renderings
	repSig   map[string]string   // report name -> signature when it differs
	follow   []c16Follow
	errTail  bool // the script's last statement must fail (send on closed / double close)
	errWhat  string
	syncCap  int // >=0: capacity discipline check on marks s:j / r:j
	syncN    int
	fam      byte
	final    string
	zipForm  string // zip programs: how the zip stage receives from its second input
	sleepPm  int
	yieldPm  int
	// stepped programs (c16_r5.go): calls made on the same environment BEFORE src, each
	// with vm.Execute ("exec") or vm.ExecuteContext; then the host feeds / drains the
	// script-made channels named in hostIO; then src (mode mainMode) with the tail checks
	pre      []c16Step
	mainMode string
	hostIO   *c16HostIO
	// round 7 (c16_r7.go)
	firstRep []string          // report names judged before everything else (the most specific diagnosis of a churn program)
	mustMark map[string]string // mark that must be in the log -> signature when it is not
	noMark   map[string]string // mark that must not be in the log -> signature when it is
	epilogue string            // run with vm.Execute once every goroutine of the program is gone; must yield int64(42)
	inChild  bool              // the program runs in a child process (a host crash is an observation)
	// round 8 (c16_r8.go)
	r8Live    int      // goroutines the program keeps alive at once
	r8Reached []string // sizes / counts reached, tagged in the evidence when the run held
	r8Note    string   // where in a history the program stands (shown with the input)
}

type c16Step struct {
	src  string
	mode string // "exec" | "ctx"
}

// input is what the in-flight file, the violations and the replay show of a program
func (p *c16Prog) input(procs int) map[string]interface{} {
	in := map[string]interface{}{"src": p.src, "gomaxprocs": procs, "kind": p.kind}
	if p.r8Note != "" {
		in["history"] = p.r8Note
	}
	if len(p.pre) > 0 || p.hostIO != nil {
		var pre []string
		for _, st := range p.pre {
			pre = append(pre, st.mode+": "+st.src)
		}
		in["earlier_calls_on_the_same_env"] = pre
		in["call_modes"] = "exec = vm.Execute; ctx = vm.ExecuteContext under the context of the whole program; ctx-released / run-released = vm.ExecuteContext / parser.ParseSrc + vm.RunContext under a context of the call's own that is cancelled when the call has returned"
		in["main_call"] = p.mainMode
		if p.hostIO != nil {
			in["host_between_calls"] = p.hostIO.describe()
		}
	}
	return in
}

type c16Elem struct {
	decl string // spelling in make(chan <decl>)
	typ  string // dynamic type of a value that went through it ("" = unchanged)
}

var (
	c16ElemIface = c16Elem{"interface", ""}
	c16ElemNanos = c16Elem{"Nanos", "main.c16Nanos"}
	c16ElemDur   = c16Elem{"Duration", "time.Duration"}
	c16ElemLevel = c16Elem{"Level", "main.c16Level"}
	// Nanos/Duration/Level: named types of kind int64/int64/string (see c16DefineTypes):
	// a chain int64 -> Nanos -> int64 -> Duration converts between different types of one kind
	c16NumElems  = []c16Elem{c16ElemIface, {"int64", "int64"}, {"float64", "float64"}, {"int32", "int32"}, {"int64", "int64"}, c16ElemNanos, c16ElemDur}
	c16StrElems  = []c16Elem{c16ElemIface, {"string", "string"}, {"string", "string"}, c16ElemLevel}
	c16ListElems = []c16Elem{c16ElemIface, {"[]int64", "[]int64"}, {"[]int64", "[]int64"}}
)

func c16ElemsOf(fam byte) []c16Elem {
	switch fam {
	case 'n':
		return c16NumElems
	case 's':
		return c16StrElems
	}
	return c16ListElems
}

func c16StartType(fam byte) string {
	switch fam {
	case 'n':
		return "int64"
	case 's':
		return "string"
	}
	return "[]interface {}"
}

// value of message (p,i) of family fam once its dynamic type is typ
func c16Val(fam byte, p, i int, typ string) interface{} {
	switch fam {
	case 'n':
		x := int64(p)*100000 + int64(i)
		switch typ {
		case "float64":
			return float64(x)
		case "int32":
			return int32(x)
		case "main.c16Nanos":
			return c16Nanos(x)
		case "time.Duration":
			return time.Duration(x)
		}
		return x
	case 's':
		if typ == "main.c16Level" {
			return c16Level("m" + strconv.Itoa(p) + "_" + strconv.Itoa(i))
		}
		return "m" + strconv.Itoa(p) + "_" + strconv.Itoa(i)
	}
	if typ == "[]int64" {
		return []int64{int64(p), int64(i)}
	}
	return []interface{}{int64(p), int64(i)}
}

// script expression computing message (pe, je)
func c16Item(fam byte, pe, je string) string {
	switch fam {
	case 'n':
		return pe + " * 100000 + " + je
	case 's':
		return `"m" + ` + pe + ` + "_" + ` + je
	}
	return "[" + pe + ", " + je + "]"
}

// ---------------------------------------------------------------------------
// generator

type c16Gen struct {
	r     *rand.Rand
	p     *c16Prog
	decl  strings.Builder
	main  strings.Builder
	fam   byte
	heavy bool // many items: light jitter, no per-item extras
	jitPc int  // percent of candidate points that get a jitter() call
	// producers send wrap(item): "" or the host function making a value of a named type
	srcWrap string
	srcTyp  string            // dynamic type of what the producers send
	chDecl  map[string]string // channel name -> element type spelling
}

// item is the script expression of message (pe, je) as the producers send it
func (g *c16Gen) item(pe, je string) string {
	if g.srcWrap != "" {
		return g.srcWrap + "(" + c16Item(g.fam, pe, je) + ")"
	}
	return c16Item(g.fam, pe, je)
}

func (g *c16Gen) jit() string {
	if g.r.Intn(100) < g.jitPc {
		return "jitter(); "
	}
	return ""
}

func (g *c16Gen) tag(t string) { g.p.tags = append(g.p.tags, t) }

func (g *c16Gen) pickCap(n int) int {
	switch g.r.Intn(5) {
	case 0, 1:
		return 0
	case 2:
		return 1
	case 3:
		return 2
	}
	if n >= 1 && n <= 50 {
		return n
	}
	return 7
}

func capTag(cp int) string {
	switch {
	case cp == 0:
		return "buf:0"
	case cp == 1:
		return "buf:1"
	}
	return "buf:n"
}

func (g *c16Gen) mkChan(name string, el c16Elem, cp int) {
	if cp == 0 && g.r.Intn(2) == 0 {
		fmt.Fprintf(&g.decl, "%s = make(chan %s)\n", name, el.decl)
	} else {
		fmt.Fprintf(&g.decl, "%s = make(chan %s, %d)\n", name, el.decl, cp)
	}
	fmt.Fprintf(&g.decl, "chname(%s, %q)\n", name, name)
	g.chDecl[name] = el.decl
	g.tag("elem:" + el.decl)
	g.tag(capTag(cp))
}

func c16Fold(typ string, el c16Elem) string {
	if el.typ == "" {
		return typ
	}
	return el.typ
}

// bodies --------------------------------------------------------------------

type c16Names struct{ i, o, k, n, pre string }

// producer loop: sends items (k, 0..n-1) on o
func (g *c16Gen) producerBody(nm c16Names, end string, marks bool) string {
	j := nm.pre + "j"
	send := g.jit() + nm.o + " <- " + g.item(nm.k, j)
	if marks {
		send += `; mark("s", ` + j + ")"
	}
	var b strings.Builder
	switch g.r.Intn(3) {
	case 0:
		fmt.Fprintf(&b, "for %s = 0; %s < %s; %s++ { %s }\n", j, j, nm.n, j, send)
		g.tag("prodloop:cfor")
	case 1:
		fmt.Fprintf(&b, "%s = 0\nfor %s < %s { %s; %s++ }\n", j, j, nm.n, send, j)
		g.tag("prodloop:while")
	default:
		fmt.Fprintf(&b, "for %s in range(%s) { %s }\n", j, nm.n, send)
		g.tag("prodloop:range")
	}
	b.WriteString(g.jit())
	b.WriteString(end + "\n")
	return b.String()
}

// receive loop around use(valueExpr); form D needs the count
func (g *c16Gen) recvLoop(nm c16Names, form string, use func(v string) string) string {
	v, ok, j := nm.pre+"v", nm.pre+"ok", nm.pre+"j"
	tick := "tick(" + nm.k + "); "
	switch form {
	case "forin":
		return fmt.Sprintf("for %s in %s { %s%s%s }\n", v, nm.i, tick, g.jit(), use(v))
	case "expr":
		return fmt.Sprintf("for { %s = (<-%s); if %s == nil { break }; %s%s%s }\n", v, nm.i, v, tick, g.jit(), use(v))
	case "ok":
		return fmt.Sprintf("for { %s, %s = <-%s; if !%s { break }; %s%s%s }\n", v, ok, nm.i, ok, tick, g.jit(), use(v))
	}
	if form == "relay" {
		// counted, and the input channel itself is the right operand of the send:
		// `o <- i` receives one message from i and sends it on o, like `o <- <-i`
		// (only forwarding stages use this form: the value is used by a send)
		return fmt.Sprintf("for %s = 0; %s < %s; %s++ { %s%s%s }\n", j, j, nm.n, j, tick, g.jit(), use(nm.i))
	}
	// counted: the receive expression is used in place
	return fmt.Sprintf("for %s = 0; %s < %s; %s++ { %s%s%s }\n", j, j, nm.n, j, tick, g.jit(), use("<-"+nm.i))
}

// pickForward: receive form of a forwarding stage that sends the received value on
// unchanged: the forms of pickRecv plus the implicit relay `o <- i`
func (g *c16Gen) pickForward() string {
	if g.r.Intn(6) == 0 {
		g.tag("recv:relay")
		return "relay"
	}
	return g.pickRecv(true)
}

func (g *c16Gen) pickRecv(counted bool) string {
	forms := []string{"forin", "expr", "ok", "forin", "ok"}
	if counted {
		forms = append(forms, "counted", "counted")
	}
	f := forms[g.r.Intn(len(forms))]
	g.tag("recv:" + f)
	return f
}

func (g *c16Gen) forwardBody(nm c16Names, form string, wrap func(v string) string, end string) string {
	body := g.recvLoop(nm, form, func(v string) string {
		if wrap != nil {
			return nm.o + " <- " + wrap(v)
		}
		return nm.o + " <- " + v
	})
	return body + g.jit() + end + "\n"
}

func (g *c16Gen) consumerBody(nm c16Names, form string, marks bool, end string) string {
	got := nm.pre + "got"
	perItem := g.r.Intn(3) == 0
	if marks {
		j := nm.pre + "j"
		// capacity discipline: announce every receive before it starts
		return fmt.Sprintf("%s = []\nfor %s = 0; %s < %s; %s++ { mark(\"r\", %s); %s%s += [<-%s] }\ncollect(%s, %s)\n%s\n",
			got, j, j, nm.n, j, j, g.jit(), got, nm.i, nm.k, got, end)
	}
	if perItem {
		g.tag("collect:item")
		return g.recvLoop(nm, form, func(v string) string { return "item(" + nm.k + ", " + v + ")" }) + end + "\n"
	}
	g.tag("collect:list")
	return got + " = []\n" + g.recvLoop(nm, form, func(v string) string { return got + " += [" + v + "]" }) +
		"collect(" + nm.k + ", " + got + ")\n" + end + "\n"
}

// launching -------------------------------------------------------------------

type c16Stage struct {
	k      int
	in     string // channel name or "nil"
	out    string
	n      int
	body   func(nm c16Names) string
	inMain bool
}

func indent(s string) string {
	return "  " + strings.Replace(strings.TrimRight(s, "\n"), "\n", "\n  ", -1) + "\n"
}

func (g *c16Gen) wrapTry(k string, body string) string {
	if g.r.Intn(4) == 0 {
		g.tag("stage:bare")
		return body
	}
	g.tag("stage:try")
	return "try {\n" + indent(body) + "} catch e { fail(" + k + ", e) }\n"
}

func (g *c16Gen) launch(st c16Stage) {
	ks, ns := strconv.Itoa(st.k), strconv.Itoa(st.n)
	kr := ank.Render(int64(st.k))
	if st.inMain {
		g.main.WriteString(st.body(c16Names{i: st.in, o: st.out, k: ks, n: ns, pre: "m"}))
		g.tag("launch:main-inline")
		return
	}
	form := []string{"named4", "anon4", "closure", "pads6", "variadic", "spread", "markarg", "elems4", "anon4", "pads6elems", "slot4", "field4", "bindslot4"}[g.r.Intn(13)]
	g.tag("launch:" + form)
	g.p.argForm[kr] = form
	exp := ank.Render(int64(st.k)) + " " + ank.Render(int64(st.n))
	nm := c16Names{i: "i", o: "o", k: "k", n: "n"}
	setv := fmt.Sprintf("gi = %s; gq = %s; gk = %d; gn = %d\n", st.in, st.out, st.k, st.n)
	unset := "gi = nil; gq = nil; gk = -7; gn = -7\n"
	fn := "s" + ks
	switch form {
	case "named4", "spread", "markarg", "elems4":
		fmt.Fprintf(&g.decl, "func %s(i, o, k, n) {\n%s}\n", fn, indent(g.wrapTry("k", "args(k, n)\n"+st.body(nm))))
		switch form {
		case "named4":
			g.main.WriteString(setv + "go " + fn + "(gi, gq, gk, gn)\n" + unset)
		case "elems4":
			// arguments read from list elements that are overwritten right after (only
			// the main goroutine ever touches the list)
			fmt.Fprintf(&g.main, "ge = [%s, %s, %d, %d]\ngo %s(ge[0], ge[1], ge[2], ge[3])\nge[0] = nil; ge[1] = nil; ge[2] = -7; ge[3] = -7\n", st.in, st.out, st.k, st.n, fn)
		case "spread":
			fmt.Fprintf(&g.main, "gl = [%s, %s, %d, %d]\ngo %s(gl...)\ngl = [nil, nil, -7, -7]\n", st.in, st.out, st.k, st.n, fn)
		case "markarg":
			g.main.WriteString(setv + "go " + fn + "(gi, gq, mark(\"arg\", gk), gn)\nmark(\"after\", " + ks + ")\n" + unset)
			g.p.markPair = append(g.p.markPair, [2]string{"arg:" + kr, "after:" + kr})
		}
	case "anon4":
		g.main.WriteString(setv + "go func(i, o, k, n) {\n" + indent(g.wrapTry("k", "args(k, n)\n"+st.body(nm))) + "}(gi, gq, gk, gn)\n" + unset)
	case "closure":
		nmc := c16Names{i: st.in, o: st.out, k: ks, n: ns}
		g.main.WriteString("go func() {\n" + indent(g.wrapTry(ks, "args("+ks+", "+ns+")\n"+st.body(nmc))) + "}()\n")
	case "pads6":
		fmt.Fprintf(&g.decl, "func %s(i, o, k, n, pa, pb) {\n%s}\n", fn, indent(g.wrapTry("k", "args(k, n, pa, pb)\n"+st.body(nm))))
		fmt.Fprintf(&g.main, "%sga = %d; gb = \"p%d\"\ngo %s(gi, gq, gk, gn, ga, gb)\n%sga = 0; gb = \"\"\n", setv, 11*st.k, st.k, fn, unset)
		exp += " " + ank.Render(int64(11*st.k)) + " " + ank.Render("p"+ks)
	case "pads6elems":
		fmt.Fprintf(&g.decl, "func %s(i, o, k, n, pa, pb) {\n%s}\n", fn, indent(g.wrapTry("k", "args(k, n, pa, pb)\n"+st.body(nm))))
		fmt.Fprintf(&g.main, "%sgp = {\"a\": %d, \"b\": [\"p%d\"]}\ngo %s(gi, gq, gk, gn, gp.a, gp.b[0])\n%sgp.a = 0; gp.b[0] = \"\"\n", setv, 11*st.k, st.k, fn, unset)
		exp += " " + ank.Render(int64(11*st.k)) + " " + ank.Render("p"+ks)
	case "slot4", "field4", "bindslot4":
		// the channels are read from TYPED slots ([]chan T elements / struct fields of chan
		// type), as go-call arguments or through a binding, and the slots are assigned other
		// channels right after (slots reused for the next stage): the goroutine works on the
		// channels that were in the slots at the go statement / at the binding. The stage
		// reports the channels it got (args renders a channel by its registered name) once the
		// gate st is closed, i.e. after the slots have been overwritten, so the observation
		// does not depend on the schedule.
		fmt.Fprintf(&g.decl, "func %s(i, o, k, n, st) {\n%s}\n", fn, indent(g.wrapTry("k", "<-st\nargs(k, n, i, o)\n"+st.body(nm))))
		var b strings.Builder
		b.WriteString(setv + "gst = make(chan interface)\n")
		ie, oe := "gi", "gq" // a nil side stays in its variable
		var store, over []string
		name := func(ch string) string {
			if ch == "nil" {
				return "nil"
			}
			return "chan:" + ch
		}
		if form == "field4" {
			var fields []string
			if st.in != "nil" {
				fields = append(fields, "In chan "+g.chDecl[st.in])
				ie = "gw.In"
			}
			if st.out != "nil" {
				fields = append(fields, "Out chan "+g.chDecl[st.out])
				oe = "gw.Out"
			}
			fmt.Fprintf(&b, "gw = make(struct { %s })\n", strings.Join(fields, ", "))
		} else {
			if st.in != "nil" {
				fmt.Fprintf(&b, "gsi = make([]chan %s, 2)\n", g.chDecl[st.in])
				ie = "gsi[1]"
			}
			if st.out != "nil" {
				fmt.Fprintf(&b, "gso = make([]chan %s, 2)\n", g.chDecl[st.out])
				oe = "gso[0]"
			}
		}
		if st.in != "nil" {
			store = append(store, ie+" = gi")
			over = append(over, fmt.Sprintf("%s = make(chan %s, 1)", ie, g.chDecl[st.in]))
		}
		if st.out != "nil" {
			store = append(store, oe+" = gq")
			over = append(over, fmt.Sprintf("%s = make(chan %s, 1)", oe, g.chDecl[st.out]))
		}
		b.WriteString(strings.Join(store, "; ") + "\n")
		if form == "bindslot4" {
			// bound to names first, slots overwritten, then passed
			fmt.Fprintf(&b, "gbi = %s; gbo = %s\n%s\ngo %s(gbi, gbo, gk, gn, gst)\ngbi = nil; gbo = nil\n", ie, oe, strings.Join(over, "; "), fn)
		} else {
			fmt.Fprintf(&b, "go %s(%s, %s, gk, gn, gst)\n%s\n", fn, ie, oe, strings.Join(over, "; "))
		}
		b.WriteString(unset + "close(gst)\n")
		g.main.WriteString(b.String())
		exp += " " + name(st.in) + " " + name(st.out)
	case "variadic":
		fmt.Fprintf(&g.decl, "func %s(i, o, rest...) {\n  k = rest[0]; n = rest[1]\n%s}\n", fn, indent(g.wrapTry("k", "args(k, n, len(rest))\n"+st.body(nm))))
		g.main.WriteString(setv + "go " + fn + "(gi, gq, gk, gn)\n" + unset)
		exp += " " + ank.Render(int64(2))
	}
	g.p.expArgs[kr] = exp
}

// tail: closed-channel semantics on the main goroutine ------------------------------

func (g *c16Gen) expect(name, sig string, vals ...string) {
	g.p.expRep[name] = vals
	g.p.repSig[name] = sig
}

// tail checks on channel ch (closed and drained once the first receive returned);
// el/typ describe a value that may be sent to it.
func (g *c16Gen) tail(ch string, el c16Elem, fam byte) {
	m := &g.main
	item := c16Item(fam, "9", "1")
	fmt.Fprintf(m, "report(\"t-expr\", (<-%s))\n", ch)
	g.expect("t-expr", "closed-recv-expr:not-nil", "nil")
	fmt.Fprintf(m, "tv = \"keep\"; tok = \"unset\"\ntv, tok = <-%s\nreport(\"t-v\", tv); report(\"t-ok\", tok)\n", ch)
	g.expect("t-v", "closed-recv-ok:value-touched", ank.Render("keep"))
	g.expect("t-ok", "closed-recv-ok:ok-not-false", "false")
	if g.r.Intn(2) == 0 {
		fmt.Fprintf(m, "for tx in %s { tick(99); report(\"t-loop\", tx) }\nreport(\"t-loop-end\", 1)\n", ch)
		g.expect("t-loop", "closed-forin:iterated")
		g.expect("t-loop-end", "closed-forin:no-end", "int64(1)")
	}
	if g.r.Intn(2) == 0 {
		// receive expression in operand / argument / list positions
		fmt.Fprintf(m, "report(\"t-expr-eq\", (<-%s) == nil); report(\"t-expr-list\", [<-%s])\n", ch, ch)
		g.expect("t-expr-eq", "closed-recv-expr:not-nil", "true")
		g.expect("t-expr-list", "closed-recv-expr:not-nil", "[]interface {}[nil]")
	}
	// a buffered channel closed with items still queued: they are delivered, then nil
	if g.r.Intn(2) == 0 {
		typ := c16Fold(c16StartType(fam), el)
		fmt.Fprintf(m, "tc = make(chan %s, 3); tc <- %s; tc <- %s; close(tc)\n", el.decl, c16Item(fam, "9", "0"), item)
		fmt.Fprintf(m, "ta = 0; tb = 0\nta, tb = <-tc\nreport(\"t-left1\", ta); report(\"t-left1ok\", tb)\nreport(\"t-left2\", (<-tc)); report(\"t-left3\", (<-tc))\n")
		g.expect("t-left1", "closed-buffered:queued-item-lost", ank.Render(c16Val(fam, 9, 0, typ)))
		g.expect("t-left1ok", "closed-buffered:ok-not-true", "true")
		g.expect("t-left2", "closed-buffered:queued-item-lost", ank.Render(c16Val(fam, 9, 1, typ)))
		g.expect("t-left3", "closed-recv-expr:not-nil", "nil")
		g.tag("tail:buffered-leftover")
	}
	// failing operations: only here, on the main goroutine. In half of the programs the
	// failing statement is the body of a loop (for-in over a closed buffered channel
	// holding two items, directly or in a function called synchronously; for-in over a
	// list; C-style for): "is an error" holds wherever the statement stands, so the
	// error leaves the loop and reaches the try / the host like from a plain statement.
	mode := g.r.Intn(4)
	sendSrc := ch + " <- " + item
	closeSrc := "close(" + ch + ")"
	loop := []string{"", "", "", "", "chan", "chan", "chan", "chan-func", "list", "cfor"}[g.r.Intn(10)]
	inLoop := func(id, stmt string) string {
		switch loop {
		case "chan":
			return fmt.Sprintf("tq%s = make(chan interface, 2); tq%s <- 1; tq%s <- 2; close(tq%s)\nfor tz in tq%s { tick(98); %s }", id, id, id, id, id, stmt)
		case "chan-func":
			return fmt.Sprintf("tq%s = make(chan interface, 2); tq%s <- 1; tq%s <- 2; close(tq%s)\nfunc tf%s(tsrc) { for tz in tsrc { tick(98); %s }; return 1 }\ntf%s(tq%s)", id, id, id, id, id, stmt, id, id)
		case "list":
			return fmt.Sprintf("for tz in [1, 2] { tick(98); %s }", stmt)
		case "cfor":
			return fmt.Sprintf("for tz = 0; tz < 2; tz++ { tick(98); %s }", stmt)
		}
		return stmt
	}
	if loop != "" {
		g.tag("tail:errors-in-loop:" + loop)
	}
	sfx := ""
	if loop != "" {
		sfx = ":in-loop-body:" + loop
	}
	switch mode {
	case 0, 1:
		fmt.Fprintf(m, "try {\n%s\nreport(\"t-send-closed\", \"no error\") } catch te { report(\"t-send-closed\", \"caught\") }\n", inLoop("s", sendSrc))
		fmt.Fprintf(m, "try {\n%s\nreport(\"t-double-close\", \"no error\") } catch te { report(\"t-double-close\", \"caught\") }\n", inLoop("c", closeSrc))
		m.WriteString("report(\"t-alive\", 1)\n")
		g.expect("t-send-closed", "send-closed:no-error"+sfx, ank.Render("caught"))
		g.expect("t-double-close", "double-close:no-error"+sfx, ank.Render("caught"))
		g.expect("t-alive", "error-op:script-not-continued", "int64(1)")
		g.tag("tail:errors-try")
		if mode == 1 {
			g.p.follow = append(g.p.follow, c16Follow{closeSrc, "double-close"}, c16Follow{sendSrc, "send-closed"})
		}
	case 2:
		m.WriteString("report(\"t-alive\", 1)\n" + inLoop("s", sendSrc) + "\n")
		g.expect("t-alive", "error-op:script-not-continued", "int64(1)")
		g.p.errTail, g.p.errWhat = true, "send-closed"+sfx
		g.p.follow = append(g.p.follow, c16Follow{closeSrc, "double-close"}, c16Follow{sendSrc, "send-closed"})
		g.tag("tail:errors-toplevel")
	default:
		m.WriteString("report(\"t-alive\", 1)\n" + inLoop("c", closeSrc) + "\n")
		g.expect("t-alive", "error-op:script-not-continued", "int64(1)")
		g.p.errTail, g.p.errWhat = true, "double-close"+sfx
		g.p.follow = append(g.p.follow, c16Follow{sendSrc, "send-closed"}, c16Follow{closeSrc, "double-close"})
		g.tag("tail:errors-toplevel")
	}
}

// programs --------------------------------------------------------------------

func c16PickN(r *rand.Rand, tier string) int {
	switch x := r.Intn(20); {
	case x < 2:
		return 0
	case x < 5:
		return 1
	case x < 8:
		return 2
	case x < 17:
		return 50
	}
	return 1000
}

func newC16Gen(r *rand.Rand, kind string, n int) *c16Gen {
	g := &c16Gen{r: r, p: &c16Prog{kind: kind, keys: map[string]c16Msg{}, expArgs: map[string]string{}, argForm: map[string]string{},
		recvForm: map[string]string{}, expRep: map[string][]string{}, repSig: map[string]string{}, syncCap: -1, consumer: "int64(0)"}}
	g.fam = "nnsl"[r.Intn(4)]
	g.p.fam = g.fam
	g.chDecl = map[string]string{}
	g.srcTyp = c16StartType(g.fam)
	g.heavy = n > 100
	g.jitPc = []int{0, 20, 50, 90}[r.Intn(4)]
	g.p.sleepPm, g.p.yieldPm = 60, 400
	if g.heavy {
		g.p.sleepPm, g.p.yieldPm = 2, 100
	}
	g.tag("kind:" + kind)
	g.tag("n:" + strconv.Itoa(n))
	g.tag("fam:" + string(g.fam))
	return g
}

// pickSource: in a third of the pipeline programs the producers send values of a
// named type of the family's kind (made by a host function)
func (g *c16Gen) pickSource() {
	if g.r.Intn(3) != 0 {
		return
	}
	switch g.fam {
	case 'n':
		if g.r.Intn(2) == 0 {
			g.srcWrap, g.srcTyp = "nanos", "main.c16Nanos"
		} else {
			g.srcWrap, g.srcTyp = "dur", "time.Duration"
		}
	case 's':
		g.srcWrap, g.srcTyp = "level", "main.c16Level"
	}
	if g.srcWrap != "" {
		g.tag("source:" + g.srcWrap)
	}
}

func (g *c16Gen) finish() *c16Prog {
	g.p.src = g.decl.String() + g.main.String()
	return g.p
}

// linear: producer -> m forwarding stages -> consumer
func c16Linear(r *rand.Rand, n int, tier string) *c16Prog {
	g := newC16Gen(r, "linear", n)
	g.pickSource()
	m := r.Intn(3)
	els := c16ElemsOf(g.fam)
	typ := g.srcTyp
	chans := make([]string, m+1)
	caps := make([]int, m+1)
	var lastEl c16Elem
	for t := 0; t <= m; t++ {
		chans[t] = "c" + strconv.Itoa(t)
		el := els[r.Intn(len(els))]
		caps[t] = g.pickCap(n)
		g.mkChan(chans[t], el, caps[t])
		typ = c16Fold(typ, el)
		lastEl = el
	}
	g.p.final = typ
	g.decl.WriteString("done = make(chan interface" + []string{"", ", 1"}[r.Intn(2)] + ")\n")
	g.tag("stages:" + strconv.Itoa(m+2))
	// who runs on the main goroutine
	mainRole := []string{"none", "none", "producer", "consumer"}[r.Intn(4)]
	g.tag("main:" + mainRole)
	doneSig := []string{"done <- 1", "close(done)"}[r.Intn(2)]
	for i := 0; i < n; i++ {
		key := ank.Render(c16Val(g.fam, 1, i, typ))
		g.p.keys[key] = c16Msg{group: 1, seq: i, id: i}
		g.p.exact = append(g.p.exact, key)
	}
	g.p.total = n
	prod := c16Stage{k: 1, in: "nil", out: chans[0], n: n, inMain: mainRole == "producer"}
	prod.body = func(nm c16Names) string { return g.producerBody(nm, "close("+nm.o+")", false) }
	consForm := g.pickRecv(true)
	cons := c16Stage{k: 0, in: chans[m], out: "nil", n: n, inMain: mainRole == "consumer"}
	g.p.recvForm["int64(0)"] = consForm
	cons.body = func(nm c16Names) string {
		end := doneSig
		if cons.inMain {
			end = ""
		}
		return g.consumerBody(nm, consForm, false, end)
	}
	var mids []c16Stage
	for t := 1; t <= m; t++ {
		form := g.pickForward()
		st := c16Stage{k: t + 1, in: chans[t-1], out: chans[t], n: n}
		g.p.recvForm[ank.Render(int64(st.k))] = form
		st.body = func(nm c16Names) string { return g.forwardBody(nm, form, nil, "close("+nm.o+")") }
		mids = append(mids, st)
	}
	// launch order is PRNG-chosen (a Go pipeline works whatever the order)
	var gor []c16Stage
	if !prod.inMain {
		gor = append(gor, prod)
	}
	gor = append(gor, mids...)
	if !cons.inMain {
		gor = append(gor, cons)
	}
	r.Shuffle(len(gor), func(a, b int) { gor[a], gor[b] = gor[b], gor[a] })
	if prod.inMain && caps[0] > 0 && n > 0 && r.Intn(2) == 0 {
		// buffered channel: min(n, cap) sends complete with no receiver started yet
		pre := caps[0]
		if n < pre {
			pre = n
		}
		fmt.Fprintf(&g.main, "for mj = 0; mj < %d; mj++ { %s <- %s }\n", pre, chans[0], g.item("1", "mj"))
		for _, st := range gor {
			g.launch(st)
		}
		fmt.Fprintf(&g.main, "for mj = %d; mj < %d; mj++ { %s%s <- %s }\nclose(%s)\n", pre, n, g.jit(), chans[0], g.item("1", "mj"), chans[0])
		g.tag("prefill-buffer")
	} else {
		for _, st := range gor {
			g.launch(st)
		}
		if prod.inMain {
			g.launch(prod)
		}
	}
	if cons.inMain {
		g.launch(cons)
	} else {
		g.main.WriteString("<-done\n")
	}
	g.tail(chans[m], lastEl, g.fam)
	return g.finish()
}

// fan-in: K producers -> c0 (closed by a counting closer) -> m forwarders -> consumer
func c16FanIn(r *rand.Rand, n int, tier string) *c16Prog {
	g := newC16Gen(r, "fanin", n)
	g.pickSource()
	K := 2 + r.Intn(3)
	m := r.Intn(2)
	els := c16ElemsOf(g.fam)
	typ := g.srcTyp
	chans := make([]string, m+1)
	var lastEl c16Elem
	for t := 0; t <= m; t++ {
		chans[t] = "c" + strconv.Itoa(t)
		el := els[r.Intn(len(els))]
		g.mkChan(chans[t], el, g.pickCap(n))
		typ = c16Fold(typ, el)
		lastEl = el
	}
	g.p.final = typ
	fmt.Fprintf(&g.decl, "fin = make(chan interface, %d)\ndone = make(chan interface)\nchname(fin, \"fin\")\n", []int{0, 1, K}[r.Intn(3)])
	g.chDecl["fin"] = "interface"
	g.tag("producers:" + strconv.Itoa(K))
	total := 0
	var stages []c16Stage
	for p := 1; p <= K; p++ {
		np := n
		if p > 1 {
			np = []int{n, n, n / 2, 1, 0}[r.Intn(5)]
		}
		for i := 0; i < np; i++ {
			g.p.keys[ank.Render(c16Val(g.fam, 10+p, i, typ))] = c16Msg{group: p, seq: i, id: total}
			total++
		}
		st := c16Stage{k: 10 + p, in: "nil", out: chans[0], n: np}
		st.body = func(nm c16Names) string { return g.producerBody(nm, "fin <- "+nm.k, false) }
		stages = append(stages, st)
	}
	g.p.total = total
	closer := c16Stage{k: 9, in: "fin", out: chans[0], n: K}
	closer.body = func(nm c16Names) string {
		return fmt.Sprintf("for %sq = 0; %sq < %s; %sq++ { <-%s }\n%sclose(%s)\n", nm.pre, nm.pre, nm.n, nm.pre, nm.i, g.jit(), nm.o)
	}
	stages = append(stages, closer)
	for t := 1; t <= m; t++ {
		form := g.pickForward()
		st := c16Stage{k: t + 1, in: chans[t-1], out: chans[t], n: total}
		g.p.recvForm[ank.Render(int64(st.k))] = form
		st.body = func(nm c16Names) string { return g.forwardBody(nm, form, nil, "close("+nm.o+")") }
		stages = append(stages, st)
	}
	consForm := g.pickRecv(true)
	g.p.recvForm["int64(0)"] = consForm
	consMain := r.Intn(3) == 0
	cons := c16Stage{k: 0, in: chans[m], out: "nil", n: total, inMain: consMain}
	cons.body = func(nm c16Names) string {
		end := "close(done)"
		if consMain {
			end = ""
		}
		return g.consumerBody(nm, consForm, false, end)
	}
	if !consMain {
		stages = append(stages, cons)
	}
	r.Shuffle(len(stages), func(a, b int) { stages[a], stages[b] = stages[b], stages[a] })
	for _, st := range stages {
		g.launch(st)
	}
	if consMain {
		g.tag("main:consumer")
		g.launch(cons)
	} else {
		g.tag("main:none")
		g.main.WriteString("<-done\n")
	}
	g.tail(chans[m], lastEl, g.fam)
	return g.finish()
}

// fan-out: producer -> c0 -> W workers -> c1 (tagged [w, v], closed by a counting closer) -> consumer
func c16FanOut(r *rand.Rand, n int, tier string) *c16Prog {
	g := newC16Gen(r, "fanout", n)
	g.pickSource()
	W := 2 + r.Intn(3)
	els := c16ElemsOf(g.fam)
	el0 := els[r.Intn(len(els))]
	g.mkChan("c0", el0, g.pickCap(n))
	g.mkChan("c1", c16ElemIface, g.pickCap(n))
	typ := c16Fold(g.srcTyp, el0)
	g.p.final = "[w," + typ + "]"
	fmt.Fprintf(&g.decl, "fin = make(chan interface, %d)\ndone = make(chan interface)\nchname(fin, \"fin\")\n", []int{0, 1, W}[r.Intn(3)])
	g.chDecl["fin"] = "interface"
	g.tag("workers:" + strconv.Itoa(W))
	for w := 1; w <= W; w++ {
		for i := 0; i < n; i++ {
			g.p.keys[ank.Render([]interface{}{int64(20 + w), c16Val(g.fam, 1, i, typ)})] = c16Msg{group: w, seq: i, id: i}
		}
	}
	g.p.total = n
	var stages []c16Stage
	prod := c16Stage{k: 1, in: "nil", out: "c0", n: n}
	prod.body = func(nm c16Names) string { return g.producerBody(nm, "close("+nm.o+")", false) }
	stages = append(stages, prod)
	for w := 1; w <= W; w++ {
		form := g.pickRecv(false)
		st := c16Stage{k: 20 + w, in: "c0", out: "c1", n: n}
		g.p.recvForm[ank.Render(int64(st.k))] = form
		st.body = func(nm c16Names) string {
			return g.forwardBody(nm, form, func(v string) string { return "[" + nm.k + ", " + v + "]" }, "fin <- "+nm.k)
		}
		stages = append(stages, st)
	}
	closer := c16Stage{k: 9, in: "fin", out: "c1", n: W}
	closer.body = func(nm c16Names) string {
		return fmt.Sprintf("for %sq = 0; %sq < %s; %sq++ { <-%s }\n%sclose(%s)\n", nm.pre, nm.pre, nm.n, nm.pre, nm.i, g.jit(), nm.o)
	}
	stages = append(stages, closer)
	consForm := g.pickRecv(true)
	g.p.recvForm["int64(0)"] = consForm
	cons := c16Stage{k: 0, in: "c1", out: "nil", n: n}
	cons.body = func(nm c16Names) string { return g.consumerBody(nm, consForm, false, "done <- 1") }
	stages = append(stages, cons)
	r.Shuffle(len(stages), func(a, b int) { stages[a], stages[b] = stages[b], stages[a] })
	for _, st := range stages {
		g.launch(st)
	}
	g.tag("main:none")
	g.main.WriteString("<-done\n")
	g.tail("c1", c16ElemIface, g.fam)
	return g.finish()
}

// sync: capacity discipline of one channel of capacity b: the (j+1)-th send
// completes only after the receiver has started its (j+1-b)-th receive
func c16Sync(r *rand.Rand, tier string) *c16Prog {
	n := []int{1, 2, 5, 20, 50}[r.Intn(5)]
	g := newC16Gen(r, "sync", n)
	g.pickSource()
	els := c16ElemsOf(g.fam)
	el := els[r.Intn(len(els))]
	cp := r.Intn(4)
	fmt.Fprintf(&g.decl, "c0 = make(chan %s%s)\nchname(c0, \"c0\")\n", el.decl, []string{"", ", 1", ", 2", ", 3"}[cp])
	g.chDecl["c0"] = el.decl
	g.tag("elem:" + el.decl)
	g.tag(capTag(cp))
	g.decl.WriteString("done = make(chan interface)\n")
	typ := c16Fold(g.srcTyp, el)
	g.p.final = typ
	for i := 0; i < n; i++ {
		key := ank.Render(c16Val(g.fam, 1, i, typ))
		g.p.keys[key] = c16Msg{group: 1, seq: i, id: i}
		g.p.exact = append(g.p.exact, key)
	}
	g.p.total = n
	g.p.syncCap, g.p.syncN = cp, n
	prod := c16Stage{k: 1, in: "nil", out: "c0", n: n}
	prod.body = func(nm c16Names) string { return g.producerBody(nm, "close("+nm.o+")", true) }
	cons := c16Stage{k: 0, in: "c0", out: "nil", n: n}
	g.p.recvForm["int64(0)"] = "counted"
	cons.body = func(nm c16Names) string { return g.consumerBody(nm, "counted", true, "close(done)") }
	if r.Intn(2) == 0 {
		g.launch(prod)
		g.launch(cons)
	} else {
		g.launch(cons)
		g.launch(prod)
	}
	g.main.WriteString("<-done\n")
	g.tail("c0", el, g.fam)
	return g.finish()
}

// zip: two producers -> ca, cb -> a zip stage `for x in ca { y = <-cb; co <- [x, y] }` -> consumer.
// The stage receives from a SECOND channel directly in the body of its for-in over the
// first one (receive expression, v/ok form, a nested for-in left by break); optionally the
// consumer does the same with an acknowledgement channel. Every for-in goes on with its own
// channel after a receive from another one: the consumer gets exactly [a_i, b_i], i = 0..n-1.
func c16Zip(r *rand.Rand, n int, tier string) *c16Prog {
	g := newC16Gen(r, "zip", n)
	g.pickSource()
	els := c16ElemsOf(g.fam)
	elA, elB := els[r.Intn(len(els))], els[r.Intn(len(els))]
	g.mkChan("ca", elA, g.pickCap(n))
	g.mkChan("cb", elB, g.pickCap(n))
	g.mkChan("co", c16ElemIface, g.pickCap(n))
	typA, typB := c16Fold(g.srcTyp, elA), c16Fold(g.srcTyp, elB)
	g.p.final = "[" + typA + "," + typB + "]"
	g.decl.WriteString("done = make(chan interface" + []string{"", ", 1"}[r.Intn(2)] + ")\n")
	for i := 0; i < n; i++ {
		key := ank.Render([]interface{}{c16Val(g.fam, 1, i, typA), c16Val(g.fam, 2, i, typB)})
		g.p.keys[key] = c16Msg{group: 1, seq: i, id: i}
		g.p.exact = append(g.p.exact, key)
	}
	g.p.total = n
	ack := r.Intn(3) == 0
	if ack {
		fmt.Fprintf(&g.decl, "acks = make(chan interface, %d)\n", g.pickCap(n))
		g.tag("zip:ack-consumer")
	}
	// the zip stage
	form := []string{"expr", "expr-inline", "ok", "nested-break", "expr"}[r.Intn(5)]
	g.tag("zip:" + form)
	zipBody := func(a, b, o, k string) string {
		send := func(v string) string {
			s := o + " <- [zx, " + v + "]"
			if ack {
				s += "; acks <- " + []string{"true", "zx", "1"}[r.Intn(3)]
			}
			return s
		}
		var body string
		switch form {
		case "expr":
			body = "zy = <-" + b + "; " + g.jit() + send("zy")
		case "expr-inline":
			body = g.jit() + send("<-"+b)
		case "ok":
			body = "zy, zok = <-" + b + "; if !zok { fail(" + k + ", \"second input closed early\") }; " + g.jit() + send("zy")
		default:
			body = "for zy in " + b + " { " + g.jit() + send("zy") + "; break }"
		}
		// when ca is closed and drained n items have been taken from cb, which its
		// producer has closed as well: the receive expression yields nil
		return fmt.Sprintf("for zx in %s { tick(%s); %s }\nreport(\"zip-second-input-left\", (<-%s))\n%sclose(%s)\n", a, k, body, b, g.jit(), o)
	}
	g.p.recvForm["int64(3)"] = "forin-zip-" + form
	g.p.zipForm = form
	if ack {
		g.p.zipForm += "+ack"
	}
	g.expect("zip-second-input-left", "zip:second-input-not-drained", "nil")
	consMain := r.Intn(3) == 0
	zipMain := !consMain && r.Intn(4) == 0
	var stages []c16Stage
	for p := 1; p <= 2; p++ {
		st := c16Stage{k: p, in: "nil", out: []string{"ca", "cb"}[p-1], n: n}
		st.body = func(nm c16Names) string { return g.producerBody(nm, "close("+nm.o+")", false) }
		stages = append(stages, st)
	}
	consForm := "forin"
	if !ack {
		consForm = g.pickRecv(true)
	}
	g.p.recvForm["int64(0)"] = consForm
	cons := c16Stage{k: 0, in: "co", out: "nil", n: n, inMain: consMain}
	cons.body = func(nm c16Names) string {
		end := []string{"done <- 1", "close(done)"}[r.Intn(2)]
		if consMain {
			end = ""
		}
		if !ack {
			return g.consumerBody(nm, consForm, false, end)
		}
		// acknowledging consumer: a receive from acks in the body of the for-in over its input
		got, v := nm.pre+"got", nm.pre+"v"
		rcv := []string{nm.pre + "a, " + nm.pre + "aok = <-acks; if !" + nm.pre + "aok { fail(" + nm.k + ", \"acks closed\") }", nm.pre + "a = <-acks", "<-acks"}[r.Intn(3)]
		return fmt.Sprintf("%s = []\nfor %s in %s { tick(%s); %s%s += [%s]; %s }\ncollect(%s, %s)\n%s\n", got, v, nm.i, nm.k, g.jit(), got, v, rcv, nm.k, got, end)
	}
	if !consMain {
		stages = append(stages, cons)
	}
	r.Shuffle(len(stages), func(a, b int) { stages[a], stages[b] = stages[b], stages[a] })
	zipAt := r.Intn(len(stages) + 1)
	if zipMain {
		zipAt = len(stages)
	}
	for i := 0; i <= len(stages); i++ {
		if i == zipAt {
			switch zf := r.Intn(3); {
			case zipMain:
				g.main.WriteString(zipBody("ca", "cb", "co", "3"))
				g.tag("zip-launch:main-inline")
			case zf == 0:
				fmt.Fprintf(&g.decl, "func zs(a, b, o, k) {\n%s}\n", indent(g.wrapTry("k", zipBody("a", "b", "o", "k"))))
				g.main.WriteString("go zs(ca, cb, co, 3)\n")
				g.tag("zip-launch:named")
			case zf == 1:
				g.main.WriteString("go func(a, b, o, k) {\n" + indent(g.wrapTry("k", zipBody("a", "b", "o", "k"))) + "}(ca, cb, co, 3)\n")
				g.tag("zip-launch:anon")
			default:
				g.main.WriteString("go func() {\n" + indent(g.wrapTry("3", zipBody("ca", "cb", "co", "3"))) + "}()\n")
				g.tag("zip-launch:closure")
			}
		}
		if i < len(stages) {
			g.launch(stages[i])
		}
	}
	if consMain {
		g.tag("main:consumer")
		g.launch(cons)
	} else {
		if zipMain {
			g.tag("main:zip")
		} else {
			g.tag("main:none")
		}
		g.main.WriteString("<-done\n")
	}
	g.tail("co", c16ElemIface, g.fam)
	return g.finish()
}

func c16Generate(r *rand.Rand, tier string) *c16Prog {
	n := c16PickN(r, tier)
	switch x := r.Intn(23); {
	case x < 9:
		return c16Linear(r, n, tier)
	case x < 14:
		return c16FanIn(r, n, tier)
	case x < 18:
		return c16FanOut(r, n, tier)
	case x < 21:
		return c16Zip(r, n, tier)
	}
	return c16Sync(r, tier)
}

// ---------------------------------------------------------------------------
// semantics table (complete enumeration: scenario x element type x capacity)

type c16SemElem struct {
	el  c16Elem
	fam byte
}

var c16SemElems = []c16SemElem{
	{c16ElemIface, 'n'}, {c16ElemIface, 'l'}, {c16Elem{"int64", "int64"}, 'n'}, {c16Elem{"float64", "float64"}, 'n'},
	{c16Elem{"int32", "int32"}, 'n'}, {c16Elem{"string", "string"}, 's'}, {c16Elem{"[]int64", "[]int64"}, 'l'},
	{c16ElemNanos, 'n'}, {c16ElemDur, 'n'}, {c16ElemLevel, 's'}, {c16ElemIface, 's'},
}

// Defects of the unchanged tree found while strengthening (see
// /tmp/strengthen/C16-r4-genuine.md). The scenarios below are complete and were
// validated against a scratch copy with the suggested repair; they stay out of
// the table until /repo is repaired, then the constant is flipped to false.
const (
	// `for v in chans[i]` re-reads the slot on every iteration instead of ranging
	// over the channel that was in it when the loop started
	c16PendingFix_forinSlotOperand = false
	// for-in over a channel dereferences a pointer message (`for p in c` yields *p,
	// `<-c` yields p)
	c16PendingFix_forinPointerMessage = false
)

var c16SemCaps = []int{0, 1, 3}

var c16SemScen = func() []string {
	l := []string{"assign-stmt", "recv-expr", "ok-form", "forin", "blocked-recv-woken-by-close", "errors-try", "errors-top-send", "errors-top-close", "go-snapshot", "go-shared-entry", "go-generator", "nil-messages", "go-shared-call-site",
		"forin-body-recv", "chan-from-slot", "send-converts",
		"relay", "forin-body-errors", "forin-body-error-top-send", "forin-body-error-top-close", "blocked-send-operand"}
	if !c16PendingFix_forinSlotOperand {
		l = append(l, "forin-slot-operand")
	}
	if !c16PendingFix_forinPointerMessage {
		l = append(l, "pointer-messages")
	}
	return l
}()

func c16SemCount() int { return len(c16SemScen) * len(c16SemElems) * len(c16SemCaps) }

func c16Semantic(idx int) *c16Prog {
	r := rand.New(rand.NewSource(int64(idx) + 1))
	scen := c16SemScen[idx%len(c16SemScen)]
	idx /= len(c16SemScen)
	se := c16SemElems[idx%len(c16SemElems)]
	cp := c16SemCaps[idx/len(c16SemElems)]
	g := newC16Gen(r, "sem:"+scen, 0)
	g.fam, g.p.fam = se.fam, se.fam
	g.srcTyp = c16StartType(se.fam)
	g.jitPc = 0
	el := se.el
	typ := c16Fold(c16StartType(se.fam), el)
	g.p.final = typ
	g.tag("elem:" + el.decl)
	g.tag(capTag(cp))
	m := &g.main
	mk := func(name string) {
		if cp == 0 {
			fmt.Fprintf(m, "%s = make(chan %s)\n", name, el.decl)
		} else {
			fmt.Fprintf(m, "%s = make(chan %s, %d)\n", name, el.decl, cp)
		}
	}
	it := func(i int) string { return c16Item(se.fam, "7", strconv.Itoa(i)) }
	val := func(i int) string { return ank.Render(c16Val(se.fam, 7, i, typ)) }
	mk("c")
	// feed q items (q <= cap directly, otherwise through a goroutine) and close
	feed := func(q int) {
		if q <= cp {
			for i := 0; i < q; i++ {
				fmt.Fprintf(m, "c <- %s\n", it(i))
			}
			m.WriteString("close(c)\n")
		} else {
			fmt.Fprintf(m, "go func() { for j = 0; j < %d; j++ { c <- %s }; close(c) }()\n", q, c16Item(se.fam, "7", "j"))
		}
	}
	// feedCh: channel `name` gets the items (grp, 0..q-1) and is closed
	valG := func(grp, i int) string { return ank.Render(c16Val(se.fam, grp, i, typ)) }
	feedCh := func(name string, grp, q int) {
		if q <= cp {
			for i := 0; i < q; i++ {
				fmt.Fprintf(m, "%s <- %s\n", name, c16Item(se.fam, strconv.Itoa(grp), strconv.Itoa(i)))
			}
			fmt.Fprintf(m, "close(%s)\n", name)
		} else {
			fmt.Fprintf(m, "go func() { for j = 0; j < %d; j++ { %s <- %s }; close(%s) }()\n", q, name, c16Item(se.fam, strconv.Itoa(grp), "j"), name)
		}
	}
	switch scen {
	case "forin-body-recv":
		// a receive from ANOTHER channel executed directly in the body of a for-in over a
		// channel (receive expression, v/ok form, nested for-in): the outer loop goes on
		// with its own channel and ends when that one is closed
		feedCh("c", 7, 3)
		mk("b")
		feedCh("b", 8, 2)
		m.WriteString("for x in c { tick(0); report(\"e-outer\", x); report(\"e-inner\", (<-b)) }\nreport(\"e-end\", 1)\n")
		g.expect("e-outer", "forin-body-recv:expr:outer-items", valG(7, 0), valG(7, 1), valG(7, 2))
		g.expect("e-inner", "forin-body-recv:expr:inner-items", valG(8, 0), valG(8, 1), "nil")
		g.expect("e-end", "closed-forin:no-end", "int64(1)")
		mk("c2")
		feedCh("c2", 7, 3)
		mk("b2")
		feedCh("b2", 8, 2)
		m.WriteString("for x in c2 { tick(1); report(\"k-outer\", x); v = \"keep\"; v, ok = <-b2; report(\"k-inner\", v); report(\"k-ok\", ok) }\nreport(\"k-end\", 1)\n")
		g.expect("k-outer", "forin-body-recv:ok-form:outer-items", valG(7, 0), valG(7, 1), valG(7, 2))
		g.expect("k-inner", "forin-body-recv:ok-form:inner-items", valG(8, 0), valG(8, 1), ank.Render("keep"))
		g.expect("k-ok", "forin-body-recv:ok-form:inner-items", "true", "true", "false")
		g.expect("k-end", "closed-forin:no-end", "int64(1)")
		mk("c3")
		feedCh("c3", 7, 3)
		mk("b3")
		feedCh("b3", 8, 2)
		m.WriteString("for x in c3 { tick(2); report(\"n-outer\", x); for y in b3 { tick(3); report(\"n-inner\", y) } }\nreport(\"n-end\", 1)\n")
		g.expect("n-outer", "forin-body-recv:nested-forin:outer-items", valG(7, 0), valG(7, 1), valG(7, 2))
		g.expect("n-inner", "forin-body-recv:nested-forin:inner-items", valG(8, 0), valG(8, 1))
		g.expect("n-end", "closed-forin:no-end", "int64(1)")
		g.p.recvForm["int64(0)"] = "forin-body-recv"
	case "relay":
		// the send operator with a channel as its right operand, `d <- c`, is the
		// evaluator's implicit relay: one message is received from c and sent on d, as
		// `d <- <-c` does. The messages taken from c arrive on d, in order, as values of
		// d's element type (nothing else arrives there, in particular not the channel c).
		feedCh("c", 7, 3)
		mk("d")
		m.WriteString("go func() { for j = 0; j < 3; j++ { d <- c }; close(d) }()\nfor x in d { tick(0); report(\"relay\", x) }\nreport(\"relay-end\", 1)\n")
		g.expect("relay", "relay:wrong-items", valG(7, 0), valG(7, 1), valG(7, 2))
		g.expect("relay-end", "closed-forin:no-end", "int64(1)")
		// through a function parameter, and into a channel of interface element type
		mk("c2")
		feedCh("c2", 8, 2)
		m.WriteString("e2 = make(chan interface, 2)\nfunc fwd(src, dst) { dst <- src }\nfwd(c2, e2); fwd(c2, e2)\nreport(\"relay-iface\", (<-e2)); report(\"relay-iface\", (<-e2))\n")
		g.expect("relay-iface", "relay:wrong-items", valG(8, 0), valG(8, 1))
		if cp > 0 {
			// no goroutine at all: both channels buffered
			mk("c3")
			mk("d3")
			fmt.Fprintf(m, "try { c3 <- %s; d3 <- c3; report(\"relay-direct\", (<-d3)) } catch e { report(\"relay-failed\", 1) }\n", it(0))
			g.expect("relay-direct", "relay:wrong-items", val(0))
			g.expect("relay-failed", "relay:error")
		}
		g.p.recvForm["int64(0)"] = "forin"
	case "forin-body-errors":
		// send on a closed channel / second close, issued by a statement in the BODY of a
		// for-in over a channel (directly, in a later iteration, in a function called
		// synchronously): an error like anywhere else, so the enclosing try sees it, the
		// rest of the body and the statements after the loop are not executed. The loop's
		// channel is drained afterwards (its feeder may still be sending).
		feedCh("c", 7, 2)
		mk("d")
		m.WriteString("close(d)\n")
		fmt.Fprintf(m, "try { for x in c { tick(0); report(\"s-it\", x); d <- %s; report(\"s-after\", 1) }; report(\"s-end\", \"loop ended without error\") } catch e { report(\"s-end\", \"caught\") }\nfor x in c { }\n", it(0))
		g.expect("s-it", "forin:wrong-items", valG(7, 0))
		g.expect("s-after", "send-closed:no-error:in-loop-body:chan")
		g.expect("s-end", "send-closed:no-error:in-loop-body:chan", ank.Render("caught"))
		mk("c2")
		feedCh("c2", 7, 2)
		mk("dn")
		m.WriteString("try { for x in c2 { tick(1); report(\"k-it\", x); close(dn); report(\"k-after\", 1) }; report(\"k-end\", \"loop ended without error\") } catch e { report(\"k-end\", \"caught\") }\nfor x in c2 { }\n")
		g.expect("k-it", "forin:wrong-items", valG(7, 0), valG(7, 1))
		g.expect("k-after", "double-close:no-error:in-loop-body:chan", "int64(1)")
		g.expect("k-end", "double-close:no-error:in-loop-body:chan", ank.Render("caught"))
		mk("c3")
		feedCh("c3", 7, 2)
		m.WriteString("func relay(src, dst) { for v in src { tick(2); dst <- v }; return \"returned\" }\n" +
			"try { report(\"f-ret\", relay(c3, d)) } catch e { report(\"f-ret\", \"caught\") }\nfor x in c3 { }\nreport(\"alive\", 1)\n")
		g.expect("f-ret", "send-closed:no-error:in-loop-body:chan-func", ank.Render("caught"))
		g.expect("alive", "error-op:script-not-continued", "int64(1)")
		g.p.recvForm["int64(0)"], g.p.recvForm["int64(1)"], g.p.recvForm["int64(2)"] = "forin", "forin", "forin"
	case "forin-body-error-top-send", "forin-body-error-top-close":
		// the same as the last statement of the script, with no try: the run returns an
		// error. (The loop's channel is buffered and closed: nothing is left behind.)
		mk("d")
		fmt.Fprintf(m, "close(d)\nq = make(chan %s, 2); q <- %s; q <- %s; close(q)\nreport(\"alive\", 1)\n", el.decl, it(0), it(1))
		stmt, what := "d <- x", "send-closed"
		if scen == "forin-body-error-top-close" {
			stmt, what = "close(d)", "double-close"
		}
		if cp == 3 {
			// in a function called synchronously
			fmt.Fprintf(m, "func run(src) { for x in src { tick(0); %s }; return 1 }\nrun(q)\n", stmt)
			what += ":in-loop-body:chan-func"
		} else {
			fmt.Fprintf(m, "for x in q { tick(0); %s }\n", stmt)
			what += ":in-loop-body:chan"
		}
		g.expect("alive", "error-op:script-not-continued", "int64(1)")
		g.p.errTail, g.p.errWhat = true, what
		g.p.follow = []c16Follow{{"close(d)", "double-close"}, {"d <- " + it(1), "send-closed"}}
		g.p.recvForm["int64(0)"] = "forin"
	case "chan-from-slot":
		// a channel read from a TYPED slot ([]chan T element, struct field, *p) as a go-call
		// argument or into a binding is the channel that was in the slot at that moment;
		// the slot is assigned another channel afterwards. The gate st holds the producers
		// back until the slots have been overwritten.
		for _, n := range []string{"first", "second", "third", "fourth", "fifth", "sixth"} {
			mk(n)
			fmt.Fprintf(m, "chname(%s, %q)\n", n, n)
		}
		fmt.Fprintf(m, "func prod(o, st, base) {\n  <-st\n  args(base, o)\n  for j = 0; j < 2; j++ { o <- %s }\n  close(o)\n}\n", c16Item(se.fam, "base", "j"))
		fmt.Fprintf(m, "st = make(chan interface)\nsl = make([]chan %s, 1)\nw = make(struct { Out chan %s })\np = new(chan %s)\n", el.decl, el.decl, el.decl)
		m.WriteString("sl[0] = first\ngo prod(sl[0], st, 1)\nsl[0] = second\ngo prod(sl[0], st, 2)\nsl[0] = nil\n" +
			"w.Out = third\ngo prod(w.Out, st, 3)\nw.Out = fourth\nb = w.Out\nw.Out = first\n" +
			"*p = fifth\ngo prod(*p, st, 5)\n*p = sixth\nq = *p\n*p = first\n" +
			"close(st)\nargs(\"bound-field\", b)\nargs(\"bound-deref\", q)\n" +
			"go func() { prod(b, st, 4) }()\ngo func() { prod(q, st, 6) }()\n" +
			"for v in first { report(\"first\", v) }\nfor v in second { report(\"second\", v) }\nfor v in third { report(\"third\", v) }\n" +
			"for v in fourth { report(\"fourth\", v) }\nfor v in fifth { report(\"fifth\", v) }\nfor v in sixth { report(\"sixth\", v) }\n")
		for i, n := range []string{"first", "second", "third", "fourth", "fifth", "sixth"} {
			k := ank.Render(int64(i + 1))
			g.p.expArgs[k] = k + " chan:" + n
			g.p.argForm[k] = []string{"chan-slice-slot", "chan-slice-slot", "chan-struct-field", "chan-bound-from-field", "chan-deref", "chan-bound-from-deref"}[i]
			g.expect(n, "chan-from-slot:wrong-items", valG(i+1, 0), valG(i+1, 1))
		}
		g.p.expArgs[`"bound-field"`] = `"bound-field" chan:fourth`
		g.p.argForm[`"bound-field"`] = "chan-bound-from-field"
		g.p.expArgs[`"bound-deref"`] = `"bound-deref" chan:sixth`
		g.p.argForm[`"bound-deref"`] = "chan-bound-from-deref"
	case "send-converts":
		// values of every type of the element's family (plain, named types of the same
		// kind, other number types with an exact conversion) sent on c arrive as values of
		// the element type (unchanged on an interface channel)
		type src struct {
			expr string
			val  func(typ string) interface{}
		}
		var srcs []src
		num := func(expr, own string, x int64) src {
			return src{expr, func(t string) interface{} {
				if t == "" {
					t = own
				}
				switch t {
				case "float64":
					return float64(x)
				case "int32":
					return int32(x)
				case "main.c16Nanos":
					return c16Nanos(x)
				case "time.Duration":
					return time.Duration(x)
				}
				return x
			}}
		}
		switch se.fam {
		case 'n':
			srcs = []src{num("7 * 100000 + 0", "int64", 700000), num("nanos(700001)", "main.c16Nanos", 700001), num("dur(700002)", "time.Duration", 700002),
				num("700003.0", "float64", 700003), num("i32(700004)", "int32", 700004)}
		case 's':
			str := func(expr, own, x string) src {
				return src{expr, func(t string) interface{} {
					if t == "" {
						t = own
					}
					if t == "main.c16Level" {
						return c16Level(x)
					}
					return x
				}}
			}
			srcs = []src{str(`"m7_0"`, "string", "m7_0"), str(`level("m7_1")`, "main.c16Level", "m7_1"), str(`"m" + "7_2"`, "string", "m7_2")}
		default:
			lst := func(expr string, own string, a, b int64) src {
				return src{expr, func(t string) interface{} {
					if t == "" {
						t = own
					}
					if t == "[]int64" {
						return []int64{a, b}
					}
					return []interface{}{a, b}
				}}
			}
			srcs = []src{lst("[7, 0]", "[]interface {}", 7, 0), lst("ints(7, 1)", "[]int64", 7, 1)}
		}
		var want []string
		m.WriteString("go func() {\n")
		for i, sc := range srcs {
			fmt.Fprintf(m, "  try { c <- %s } catch e { report(\"send-failed\", %d) }\n", sc.expr, i)
			want = append(want, ank.Render(sc.val(el.typ)))
		}
		m.WriteString("  close(c)\n}()\nfor x in c { tick(0); report(\"conv\", x) }\n")
		g.expect("conv", "send-converts:wrong-items", want...)
		g.expect("send-failed", "send-converts:send-failed")
		if cp > 0 {
			// the same without a goroutine, received with the receive expression
			mk("c2")
			for i, sc := range srcs {
				fmt.Fprintf(m, "try { c2 <- %s; report(\"conv-direct\", (<-c2)) } catch e { report(\"send-failed\", %d) }\n", sc.expr, 100+i)
			}
			g.expect("conv-direct", "send-converts:wrong-items", want...)
		}
		g.p.recvForm["int64(0)"] = "forin"
	case "blocked-send-operand":
		// "every value sent is received": the value sent is the value the operand had when
		// the send statement was executed, also when the sender has to wait for its receiver
		// (no receiver yet / full buffer) and the place the operand was read from - an element
		// of a []T, a struct field of type T, *p of a *T (T = the element type, so no
		// conversion makes a copy), a variable, a list element, a map entry - is assigned
		// another value while it waits; Go's `c <- s[0]` evaluates s[0] before it blocks.
		// Ordering: the main goroutine starts the six senders, calls sendersparked(6), which
		// returns once all of them are parked in the send (goroutine states), and only then
		// overwrites the places and receives. a and b have been through a channel of the
		// element type: they are values of exactly that type.
		fmt.Fprintf(m, "t = make(chan %s, 2); t <- %s; t <- %s; a = <-t; b = <-t\n", el.decl, it(0), it(1))
		fmt.Fprintf(m, "sl = make([]%s, 2); sl[1] = a\nw = make(struct { F %s }); w.F = a\np = new(%s); *p = a\nx = a\nl = [a, 0]\nmp = {\"k\": a}\n", el.decl, el.decl, el.decl)
		forms := []struct{ name, launch string }{
			{"slice-slot", "go func() { try { c1 <- sl[1] } catch e { fail(1, e) } }()"},
			{"struct-field", "go func(o) { try { o <- w.F } catch e { fail(2, e) } }(c2)"},
			{"deref", "go func() { try { (c3) <- *p } catch e { fail(3, e) } }()"},
			{"variable", "go func() { try { c4 <- x } catch e { fail(4, e) } }()"},
			{"list-element", "go func(o) { try { o <- l[0] } catch e { fail(5, e) } }(c5)"},
			{"map-entry", "go func() { try { c6 <- mp.k } catch e { fail(6, e) } }()"},
		}
		for i := range forms {
			cn := "c" + strconv.Itoa(i+1)
			mk(cn)
			for j := 0; j < cp; j++ {
				fmt.Fprintf(m, "%s <- %s\n", cn, it(5+j))
			}
		}
		for _, f := range forms {
			m.WriteString(f.launch + "\n")
		}
		fmt.Fprintf(m, "sendersparked(%d)\nsl[1] = b; w.F = b; *p = b; x = b; l[0] = b; mp.k = b\n", len(forms))
		for i, f := range forms {
			var want []string
			for j := 0; j < cp; j++ {
				want = append(want, val(5+j))
			}
			want = append(want, val(0))
			fmt.Fprintf(m, "for j = 0; j <= %d; j++ { report(%q, (<-c%d)) }\n", cp, f.name, i+1)
			g.expect(f.name, "blocked-send:delivers-later-content-of-the-operand:"+f.name, want...)
		}
	case "forin-slot-operand":
		// `for v in sl[0]` ranges over the channel that is in the slot when the loop starts
		// (the operand is evaluated once, like Go's range expression): assigning the slot in
		// the body does not redirect the loop
		feedCh("c", 7, 3)
		mk("b")
		feedCh("b", 8, 2)
		fmt.Fprintf(m, "sl = make([]chan %s, 2)\nsl[0] = c; sl[1] = b\nw = make(struct { In chan %s })\n", el.decl, el.decl)
		m.WriteString("for v in sl[0] { tick(0); report(\"slice-slot\", v); sl[0] = sl[1] }\nreport(\"s-end\", 1)\n" +
			"for v in b { tick(1); report(\"rest\", v) }\n")
		g.expect("slice-slot", "forin-slot-operand:loop-follows-the-slot", valG(7, 0), valG(7, 1), valG(7, 2))
		g.expect("s-end", "closed-forin:no-end", "int64(1)")
		g.expect("rest", "forin-slot-operand:loop-follows-the-slot", valG(8, 0), valG(8, 1))
		mk("c2")
		feedCh("c2", 7, 3)
		mk("b2")
		feedCh("b2", 8, 2)
		m.WriteString("w.In = c2\nfor v in w.In { tick(2); report(\"field-slot\", v); w.In = b2 }\nreport(\"f-end\", 1)\n" +
			"for v in b2 { tick(3); report(\"rest2\", v) }\n")
		g.expect("field-slot", "forin-slot-operand:loop-follows-the-slot", valG(7, 0), valG(7, 1), valG(7, 2))
		g.expect("f-end", "closed-forin:no-end", "int64(1)")
		g.expect("rest2", "forin-slot-operand:loop-follows-the-slot", valG(8, 0), valG(8, 1))
		g.p.recvForm["int64(0)"] = "forin-slot-operand"
	case "pointer-messages":
		// a pointer is a message like any other: the three receive forms deliver the
		// pointer that was sent (on chan interface: &x; on chan *T: a new(T) cell)
		ptrDecl := "interface"
		if el.decl != "interface" {
			ptrDecl = "*" + el.decl
		}
		mkp := func(name string) {
			fmt.Fprintf(m, "%s = make(chan %s, 2)\n", name, ptrDecl)
		}
		fill := func(name string) {
			for i := 0; i < 2; i++ {
				if el.decl == "interface" {
					fmt.Fprintf(m, "x%d = %s; %s <- &x%d\n", i, it(i), name, i)
				} else {
					fmt.Fprintf(m, "x%d = new(%s); *x%d = %s; %s <- x%d\n", i, el.decl, i, it(i), name, i)
				}
			}
			fmt.Fprintf(m, "close(%s)\n", name)
		}
		mkp("pc")
		fill("pc")
		m.WriteString("report(\"p-expr\", (<-pc)); pv, pok = <-pc; report(\"p-ok\", pv)\n")
		mkp("pd")
		fill("pd")
		m.WriteString("for pp in pd { tick(0); report(\"p-forin\", pp) }\n")
		g.expect("p-expr", "pointer-message:recv-expr", "&"+val(0))
		g.expect("p-ok", "pointer-message:ok-form", "&"+val(1))
		g.expect("p-forin", "pointer-message:forin-yields-pointee", "&"+val(0), "&"+val(1))
	case "assign-stmt":
		// `v = <-c` read as: assign the receive expression. After close+drain the
		// receive expression yields nil, so v must be nil (it is not the two-value form).
		feed(1)
		m.WriteString("v = <-c\nreport(\"first\", v)\nv = <-c\nreport(\"assign-stmt\", v)\n")
		g.expect("first", "recv-assign:wrong-value", val(0))
		g.expect("assign-stmt", "closed-recv:assign-stmt:stale-value", "nil")
	case "recv-expr":
		feed(2)
		m.WriteString("report(\"a\", (<-c)); report(\"b\", (<-c)); report(\"n1\", (<-c)); report(\"n2\", [<-c]); w = 5; w = (<-c); report(\"n3\", w)\nreport(\"n4\", (<-c) == nil)\n")
		g.expect("a", "recv-expr:wrong-value", val(0))
		g.expect("b", "recv-expr:wrong-value", val(1))
		g.expect("n1", "closed-recv-expr:not-nil", "nil")
		g.expect("n2", "closed-recv-expr:not-nil", "[]interface {}[nil]")
		g.expect("n3", "closed-recv-expr:not-nil", "nil")
		g.expect("n4", "closed-recv-expr:not-nil", "true")
	case "ok-form":
		feed(1)
		// the blanks between '=' and '<-' do not matter
		m.WriteString("v = \"init\"; ok = \"init\"\nv, ok = <-c\nreport(\"v1\", v); report(\"ok1\", ok)\nv = \"keep\"\nv, ok =<-c\nreport(\"v2\", v); report(\"ok2\", ok)\nv, ok =  \t<- c\nreport(\"v3\", v); report(\"ok3\", ok)\n")
		g.expect("v1", "recv-ok:wrong-value", val(0))
		g.expect("ok1", "recv-ok:ok-not-true", "true")
		g.expect("v2", "closed-recv-ok:value-touched", ank.Render("keep"))
		g.expect("ok2", "closed-recv-ok:ok-not-false", "false")
		g.expect("v3", "closed-recv-ok:value-touched", ank.Render("keep"))
		g.expect("ok3", "closed-recv-ok:ok-not-false", "false")
	case "forin":
		feed(3)
		m.WriteString("for x in c { tick(0); report(\"it\", x) }\nreport(\"after\", 1)\nfor x in c { tick(0); report(\"again\", x) }\nreport(\"after2\", 1)\n")
		g.expect("it", "forin:wrong-items", val(0), val(1), val(2))
		g.expect("after", "closed-forin:no-end", "int64(1)")
		g.expect("again", "closed-forin:iterated")
		g.expect("after2", "closed-forin:no-end", "int64(1)")
		g.p.recvForm["int64(0)"] = "forin"
	case "blocked-recv-woken-by-close":
		// three receivers blocked in the three receive forms; close wakes them all
		m.WriteString("d = make(chan interface, 3)\n" +
			"go func() { report(\"w-expr\", (<-c)); d <- 1 }()\n" +
			"go func() { v = \"keep\"; v, ok = <-c; report(\"w-v\", v); report(\"w-ok\", ok); d <- 1 }()\n" +
			"go func() { for x in c { tick(99); report(\"w-loop\", x) }; report(\"w-loop-end\", 1); d <- 1 }()\n" +
			"jitter(); jitter()\nclose(c)\n<-d; <-d; <-d\n")
		g.jitPc = 100
		g.expect("w-expr", "closed-recv-expr:not-nil", "nil")
		g.expect("w-v", "closed-recv-ok:value-touched", ank.Render("keep"))
		g.expect("w-ok", "closed-recv-ok:ok-not-false", "false")
		g.expect("w-loop", "closed-forin:iterated")
		g.expect("w-loop-end", "closed-forin:no-end", "int64(1)")
	case "errors-try":
		feed(0)
		fmt.Fprintf(m, "try { c <- %s; report(\"send\", \"no error\") } catch e { report(\"send\", \"caught\") }\n", it(0))
		m.WriteString("try { close(c); report(\"close\", \"no error\") } catch e { report(\"close\", \"caught\") }\n")
		fmt.Fprintf(m, "try { c <- %s; report(\"send2\", \"no error\") } catch e { report(\"send2\", \"caught\") }\nreport(\"alive\", 1)\n", it(1))
		g.expect("send", "send-closed:no-error", ank.Render("caught"))
		g.expect("close", "double-close:no-error", ank.Render("caught"))
		g.expect("send2", "send-closed:no-error", ank.Render("caught"))
		g.expect("alive", "error-op:script-not-continued", "int64(1)")
	case "errors-top-send":
		feed(0)
		fmt.Fprintf(m, "report(\"alive\", 1)\nc <- %s\nreport(\"not-reached\", 1)\n", it(0))
		g.expect("alive", "error-op:script-not-continued", "int64(1)")
		g.expect("not-reached", "send-closed:no-error")
		g.p.errTail, g.p.errWhat = true, "send-closed"
		g.p.follow = []c16Follow{{"close(c)", "double-close"}, {"c <- " + it(1), "send-closed"}, {"close(c)", "double-close"}}
	case "errors-top-close":
		feed(0)
		m.WriteString("report(\"alive\", 1)\nclose(c)\nreport(\"not-reached\", 1)\n")
		g.expect("alive", "error-op:script-not-continued", "int64(1)")
		g.expect("not-reached", "double-close:no-error")
		g.p.errTail, g.p.errWhat = true, "double-close"
		g.p.follow = []c16Follow{{"c <- " + it(1), "send-closed"}, {"close(c)", "double-close"}}
	case "go-snapshot":
		// arguments of a go call: evaluated at the go statement, by the caller
		m.WriteString("d = make(chan interface)\n" +
			"func f2(a, b) { <-c; args(\"f2\", a, b); d <- 1 }\n" +
			"func f5(a, b, x, y, z) { <-c; args(\"f5\", a, b, x, y, z); d <- 1 }\n" +
			"func fv(a, rest...) { <-c; args(\"fv\", a, rest); d <- 1 }\n" +
			"x = 1; y = \"one\"\n" +
			"go f2(x, y)\nx = 2; y = \"two\"\n" +
			"go f5(x, y, x + 10, mark(\"arg\", 5), y + \"!\")\nmark(\"after\", 5)\nx = 3; y = \"three\"\n" +
			"go fv(x, y, x)\nx = 4; y = \"four\"\n" +
			"go func(a, b) { <-c; args(\"anon\", a, b); d <- 1 }(x, y)\nx = 5; y = \"five\"\n" +
			"l = [x, y]\ngo f2(l...)\nl = [0, 0]; x = 6; y = \"six\"\n" +
			"el = [60, \"sixty\", 61, 62, 63]; em = {\"k\": 70}\n" +
			"go func(a, b) { <-c; args(\"elem2\", a, b); d <- 1 }(el[0], em.k)\nel[0] = -1; em.k = -1\n" +
			"go f5(el[0], el[1], el[2], el[3], em[\"k\"])\nel[0] = -2; el[1] = -2; el[2] = -2; el[3] = -2; em.k = -2\n" +
			"go fv(el[4], el[4], el[4])\nel[4] = -3\n" +
			"jitter()\nclose(c)\n<-d; <-d; <-d; <-d; <-d; <-d; <-d; <-d\n")
		g.p.expArgs[`"f2"`] = "" // two calls, see below
		g.p.expArgs[`"f5"`] = "" // two calls
		g.p.expArgs[`"fv"`] = "" // two calls
		g.p.expArgs[`"elem2"`] = `"elem2" int64(60) int64(70)`
		g.p.argForm[`"elem2"`] = "anon2-elems"
		g.p.expArgs[`"anon"`] = `"anon" int64(4) "four"`
		g.p.argForm[`"f2"`], g.p.argForm[`"f5"`], g.p.argForm[`"fv"`], g.p.argForm[`"anon"`] = "named2+spread", "named5", "variadic", "anon2"
		g.p.markPair = append(g.p.markPair, [2]string{"arg:int64(5)", "after:int64(5)"})
	case "go-shared-entry":
		// ONE function value (variadic / six parameters / two parameters) entered by
		// many goroutines at about the same time: each goroutine sees its own arguments
		m.WriteString("d = make(chan interface, 64)\n" +
			"func wv(k, n, rest...) { args(k, n, rest); d <- k }\n" +
			"func w6(k, n, a, b, x, y) { args(k, n, a, b, x, y); d <- k }\n" +
			"func w2(k, n) { args(k, n); d <- k }\n" +
			"for r = 0; r < 30; r++ {\n" +
			"  for j = 0; j < 8; j++ { go wv(r * 100 + j, j, r, \"v\") }\n" +
			"  for j = 8; j < 16; j++ { go w6(r * 100 + j, j, r, \"s\", j + 1, r + 1) }\n" +
			"  for j = 16; j < 20; j++ { go w2(r * 100 + j, j) }\n" +
			"  for j = 0; j < 20; j++ { <-d }\n}\n")
		for r := 0; r < 30; r++ {
			for j := 0; j < 20; j++ {
				k := fmt.Sprintf("int64(%d)", r*100+j)
				switch {
				case j < 8:
					g.p.expArgs[k] = fmt.Sprintf("%s int64(%d) []interface {}[int64(%d) \"v\"]", k, j, r)
					g.p.argForm[k] = "shared-variadic"
				case j < 16:
					g.p.expArgs[k] = fmt.Sprintf("%s int64(%d) int64(%d) \"s\" int64(%d) int64(%d)", k, j, r, j+1, r+1)
					g.p.argForm[k] = "shared-six-params"
				default:
					g.p.expArgs[k] = fmt.Sprintf("%s int64(%d)", k, j)
					g.p.argForm[k] = "shared-two-params"
				}
			}
		}
	case "nil-messages":
		// nil is a value like any other on an interface channel: it is delivered, it does
		// not end a range and the two-value receive reports ok == true for it. (On typed
		// channels the same program runs without the nils.)
		items := []string{it(0), it(1), it(2), it(3)}
		vals := []string{val(0), val(1), val(2), val(3)}
		if el.decl == "interface" {
			items = []string{it(0), "nil", it(1), "nil", "nil", it(2), it(3), "nil"}
			vals = []string{val(0), "nil", val(1), "nil", "nil", val(2), val(3), "nil"}
		}
		feedAll := func(ch string) string {
			var b strings.Builder
			for _, x := range items {
				fmt.Fprintf(&b, "%s <- %s; ", ch, x)
			}
			return b.String() + "close(" + ch + ")"
		}
		m.WriteString("d = make(chan interface)\n")
		fmt.Fprintf(m, "go func() { %s }()\nfor x in c { report(\"range\", x) }\nreport(\"range-end\", 1)\n", feedAll("c"))
		mk("c2")
		fmt.Fprintf(m, "go func() { %s }()\nfor { v = \"keep\"; ok = \"unset\"\n v, ok = <-c2\n if !ok { break }\n report(\"two\", v) }\nreport(\"two-end\", 1)\n", feedAll("c2"))
		mk("c3")
		mk("c4")
		fmt.Fprintf(m, "go func() { %s }()\ngo func() { for x in c3 { c4 <- x }; close(c4) }()\nfor x in c4 { report(\"piped\", x) }\nreport(\"piped-end\", 1)\n", feedAll("c3"))
		g.expect("range", "nil-message:range", vals...)
		g.expect("range-end", "closed-forin:no-end", "int64(1)")
		g.expect("two", "nil-message:two-value-receive", vals...)
		g.expect("two-end", "closed-forin:no-end", "int64(1)")
		g.expect("piped", "nil-message:forwarded-range", vals...)
		g.expect("piped-end", "closed-forin:no-end", "int64(1)")
	case "go-shared-call-site":
		// ONE piece of script code (one call site `op.f(x)`, `fs[i](x)`, `mk(k)(x)`) executed by
		// several goroutines at once, each with its own callee: every goroutine calls its own
		m.WriteString("d = make(chan interface, 64)\n" +
			"mk = func(k) { return func(x) { return x * k } }\n" +
			"func stage(op, fs, k) {\n" +
			"  for j = 0; j < 150; j++ {\n" +
			"    var r1 = op.f(j)\n    var r2 = fs[0](j)\n    var r3 = mk(k)(j)\n" +
			"    if r1 != j * k || r2 != j * k || r3 != j * k { report(\"bad\", [k, j, r1, r2, r3]) }\n" +
			"  }\n  d <- k\n}\n" +
			"for rr = 0; rr < 6; rr++ {\n" +
			"  for kk = 1; kk <= 8; kk++ { go stage({\"f\": mk(kk)}, [mk(kk)], kk) }\n" +
			"  for kk = 1; kk <= 8; kk++ { <-d }\n}\nreport(\"done\", 1)\n")
		g.expect("bad", "shared-call-site:callee-of-another-goroutine")
		g.expect("done", "shared-call-site:not-finished", "int64(1)")
	case "go-generator":
		// a function starts a goroutine and returns (its channel) before the goroutine
		// has run; the caller then only blocks in a top-level range
		fmt.Fprintf(m, "func gen(q) {\n  out = make(chan %s%s)\n  go func() { for j = 0; j < q; j++ { out <- %s }\n close(out) }()\n  return out\n}\n", el.decl, map[bool]string{true: "", false: ", " + strconv.Itoa(cp)}[cp == 0], c16Item(se.fam, "7", "j"))
		m.WriteString("for x in gen(3) { report(\"g1\", x) }\nreport(\"g1-end\", 1)\n" +
			"func gen2(q) { o2 = gen(q)\n return o2 }\ngg = gen2(2)\nfor x in gg { report(\"g2\", x) }\nreport(\"g2-end\", 1)\n")
		g.expect("g1", "generator:wrong-items", val(0), val(1), val(2))
		g.expect("g1-end", "closed-forin:no-end", "int64(1)")
		g.expect("g2", "generator:wrong-items", val(0), val(1))
		g.expect("g2-end", "closed-forin:no-end", "int64(1)")
	}
	return g.finish()
}

// ---------------------------------------------------------------------------
// judging one run

type c16Verdict struct {
	sig, detail string
}

func c16Judge(p *c16Prog, r *c16Run, h *c16Host) (viols []c16Verdict, inconc []c16Verdict, arrival string) {
	v := func(sig, format string, a ...interface{}) {
		viols = append(viols, c16Verdict{sig, fmt.Sprintf(format, a...)})
	}
	h.mu.Lock()
	defer h.mu.Unlock()
	if r.out.Panicked {
		v(r.out.PanicSig, "Go panic reached the host: %s", r.out.PanicVal)
		return
	}
	for _, f := range r.follow {
		if f.Panicked {
			v(f.PanicSig, "Go panic reached the host: %s", f.PanicVal)
			return
		}
	}
	for _, f := range r.pre {
		if f.Panicked {
			v(f.PanicSig, "Go panic reached the host: %s", f.PanicVal)
			return
		}
	}
	// a goroutine that reported arguments other than those at its go statement is
	// the most specific diagnosis; everything else in the run is a consequence
	if len(p.expArgs) > 0 {
		var keys []string
		for k := range h.args {
			keys = append(keys, k)
		}
		sort.Strings(keys)
		for _, k := range keys {
			want, ok := p.expArgs[k]
			if ok && want == "" {
				continue // judged below (several calls share the key)
			}
			if !ok || len(h.args[k]) != 1 || h.args[k][0] != want {
				form := p.argForm[k]
				if form == "" {
					// the stage id itself is wrong: attribute to the stage that is missing
					for k2 := range p.expArgs {
						if len(h.args[k2]) == 0 && (form == "" || p.argForm[k2] < form) {
							form = p.argForm[k2]
						}
					}
				}
				v("go-args:"+form, "a goroutine reported the arguments %v; want [%s] (the values at the go statement)", h.args[k], want)
				return
			}
		}
	}
	// round 7: an operation on a freshly made channel that failed (reported by the script
	// with oops) is the most specific diagnosis of a churn program; lost messages, a stuck
	// consumer and the like are its consequences
	for _, n := range p.firstRep {
		if got, want := h.reports[n], p.expRep[n]; strings.Join(got, "\x00") != strings.Join(want, "\x00") {
			v(p.repSig[n], "observation %q: got %v, want %v", n, got, want)
			return
		}
	}
	if h.overrun != "" {
		form := p.recvForm[h.overrun]
		if h.overrun == "int64(99)" {
			form = "forin-on-closed"
		} else if form == "" {
			form = h.overrun
		}
		v("overrun:"+form, "stage %s received more values (>%d) than were ever sent: values are delivered more than once or a closed channel keeps delivering", h.overrun, h.limit)
		return
	}
	if len(h.fails) > 0 {
		v("stage-error:"+ank.AbstractMsg(c16After(h.fails[0], ": ")), "a pipeline stage failed: %s", strings.Join(h.fails, " | "))
		return
	}
	if r.deadlock != "" {
		v("deadlock:"+p.kind0(), "every script goroutine is parked in a channel operation [%s] (two identical samples): the pipeline cannot terminate (lost message / missing close / blocked go)\n%s\ncollected so far: %d of %d", r.deadlock, r.dlDetail, len(h.collected[p.consumer]), p.total)
		return
	}
	if r.hostStal != "" {
		v("host-end:"+r.hostStal, "the host, sending to / receiving from the channels the script made, can never finish: %s\n%s\ncollected so far: %d of %d", r.hostStal, r.hostDet, len(h.collected[p.consumer]), p.total)
		return
	}
	if r.undecid != "" {
		inconc = append(inconc, c16Verdict{r.undecid, r.dlDetail})
		return
	}
	if h.undecided != "" {
		inconc = append(inconc, c16Verdict{h.undecided, h.undecDet})
		return
	}
	if r.preFail > 0 {
		o := r.pre[r.preFail-1]
		v("earlier-call-error:"+ank.AbstractMsg(ank.ErrText(o.Err)), "call #%d on the environment (%s) failed: %s", r.preFail, p.pre[r.preFail-1].mode, ank.ErrText(o.Err))
		return
	}
	if r.gaveUp {
		inconc = append(inconc, c16Verdict{"call-left-behind-without-verdict", r.dlDetail})
		return
	}
	if p.errTail {
		// the statement only says "is an error": any error counts, provided the script
		// got as far as the failing statement (the observation "t-alive"/"alive" just before it)
		alive := len(h.reports["t-alive"])+len(h.reports["alive"]) > 0
		if r.out.Err == nil {
			v(p.errWhat+":no-error", "the failing operation at the end of the script returned no error")
		} else if !alive {
			v("main-error:"+ank.AbstractMsg(r.out.Err.Error()), "script failed with %q before reaching the final %s", r.out.Err.Error(), p.errWhat)
			return
		}
	} else if r.out.Err != nil {
		v("main-error:"+ank.AbstractMsg(r.out.Err.Error()), "script failed: %s", r.out.Err.Error())
		return
	}
	for i, f := range r.follow {
		if f.Err == nil {
			v(p.follow[i].what+":no-error", "%q on the closed channel returned no error", p.follow[i].src)
		}
	}
	if r.leak != "" {
		v("leak-parked:"+r.leak, "script goroutines still parked in a channel operation after the pipeline ended:\n%s", r.leakDet)
	}
	if r.leftover != "" {
		inconc = append(inconc, c16Verdict{r.leftover, r.leakDet})
	}
	// delivery
	if len(p.keys) > 0 || p.total == 0 && !strings.HasPrefix(p.kind, "sem:") {
		got := h.collected[p.consumer]
		seen := map[int]bool{}
		last := map[int]int{}
		var arr []byte
		bad := false
		for pos, it := range got {
			m, ok := p.keys[it]
			if !ok && it == "nil" {
				// messages are never nil: the consumer saw its channel closed and drained
				// before everything that was sent had arrived
				v("lost:"+p.kind, "consumer found its input closed and drained after %d of %d messages", pos, p.total)
				bad = true
				break
			}
			if !ok {
				want := "<nothing>"
				if pos < len(p.exact) {
					want = p.exact[pos]
				}
				sig := "wrong-item:" + string(p.fam) + ":" + p.final
				if p.kind == "zip" {
					// one signature per shape of the zip stage, whatever the element types
					sig = "wrong-item:zip-" + p.zipForm
				}
				v(sig, "consumer received %s at position %d, which no sender sent in that form (e.g. expected %s): value or dynamic type not preserved/converted to the element type", it, pos, want)
				bad = true
				break
			}
			if seen[m.id] {
				v("duplicate:"+p.kind, "message %s delivered twice (position %d)", it, pos)
				bad = true
				break
			}
			seen[m.id] = true
			if l, ok := last[m.group]; ok && m.seq < l {
				v("reorder:"+p.kind, "message %s (seq %d) arrived after seq %d of the same sender", it, m.seq, l)
				bad = true
				break
			}
			last[m.group] = m.seq
			arr = append(arr, byte('0'+m.group))
		}
		if !bad && len(seen) != p.total {
			v("lost:"+p.kind, "%d of %d messages arrived", len(seen), p.total)
			bad = true
		}
		if !bad && p.exact != nil {
			for i := range p.exact {
				if got[i] != p.exact[i] {
					v("reorder:"+p.kind, "position %d: got %s want %s", i, got[i], p.exact[i])
					break
				}
			}
		}
		if c := h.collects[p.consumer]; c > 1 {
			v("consumer-ran-twice", "collect called %d times", c)
		}
		arrival = string(arr)
	}
	// go-argument snapshot
	for k, want := range p.expArgs {
		obs := h.args[k]
		if want == "" {
			o := append([]string(nil), obs...)
			sort.Strings(o)
			wants := map[string]string{
				`"f2"`: `"f2" int64(1) "one"|"f2" int64(5) "five"`,
				`"f5"`: `"f5" int64(-1) "sixty" int64(61) int64(62) int64(-1)|"f5" int64(2) "two" int64(12) int64(5) "two!"`,
				`"fv"`: `"fv" int64(3) []interface {}["three" int64(3)]|"fv" int64(63) []interface {}[int64(63) int64(63)]`,
			}
			if strings.Join(o, "|") != wants[k] {
				v("go-args:"+p.argForm[k], "goroutines started by go %s(...) saw %v, want %s (the values at the go statements)", k, o, wants[k])
			}
			continue
		}
		if len(obs) != 1 || obs[0] != want {
			v("go-args:"+p.argForm[k], "goroutine of stage %s saw arguments %v, want [%s] (the values at the go statement)", k, obs, want)
		}
	}
	for _, mp := range p.markPair {
		ia, ib := -1, -1
		for i, mk := range h.marks {
			if mk == mp[0] && ia < 0 {
				ia = i
			}
			if mk == mp[1] && ib < 0 {
				ib = i
			}
		}
		if ia < 0 || ib < 0 || ia > ib {
			v("go-arg-eval-order", "argument of the go call evaluated at log position %d, statement after the go call at %d: arguments must be evaluated before the go statement completes", ia, ib)
		}
	}
	// capacity discipline
	if p.syncCap >= 0 {
		pos := map[string]int{}
		for i, mk := range h.marks {
			if _, ok := pos[mk]; !ok {
				pos[mk] = i
			}
		}
		for j := p.syncCap; j < p.syncN; j++ {
			s, ok1 := pos["s:"+ank.Render(int64(j))]
			rr, ok2 := pos["r:"+ank.Render(int64(j-p.syncCap))]
			if ok1 && ok2 && s < rr {
				v("capacity:"+capTag(p.syncCap), "send #%d on a channel of capacity %d completed before receive #%d had started", j, p.syncCap, j-p.syncCap)
				break
			}
		}
	}
	// reports
	names := make([]string, 0, len(p.expRep))
	for n := range p.expRep {
		names = append(names, n)
	}
	sort.Strings(names)
	for _, n := range names {
		want := p.expRep[n]
		got := h.reports[n]
		if strings.Join(got, "\x00") != strings.Join(want, "\x00") {
			if p.errTail && r.out.Err == nil && len(want) == 0 {
				continue // already reported as <op>:no-error
			}
			v(p.repSig[n], "observation %q: got %v, want %v", n, got, want)
		}
	}
	// round 7: marks of the handlers started with go (the goroutines have ended: the
	// log is complete unless some were left over), and the call made after them
	if r.leak == "" && r.leftover == "" {
		has := map[string]bool{}
		for _, mk := range h.marks {
			has[mk] = true
		}
		for _, mk := range c16SortedKeys(p.mustMark) {
			if !has[mk] {
				v(p.mustMark[mk], "mark %q is missing from the log %v", mk, c16Clip(h.marks, 40))
			}
		}
		for _, mk := range c16SortedKeys(p.noMark) {
			if has[mk] {
				v(p.noMark[mk], "mark %q is in the log %v: the statement after the failing channel operation was executed", mk, c16Clip(h.marks, 40))
			}
		}
	}
	if p.epilogue != "" && r.epi != nil {
		switch {
		case r.epi.Panicked:
			v(r.epi.PanicSig, "Go panic reached the host in the call made after the goroutines had ended: %s", r.epi.PanicVal)
		case r.epi.Err != nil:
			v("after-go-faults:call-failed:"+ank.AbstractMsg(r.epi.Err.Error()), "the call made on the environment after the goroutines had ended failed: %s", r.epi.Err.Error())
		case ank.Render(r.epi.Val) != "int64(42)":
			v("after-go-faults:wrong-result", "the call made on the environment after the goroutines had ended returned %s, want int64(42)", ank.Render(r.epi.Val))
		}
	}
	return
}

// hash identifies the program for the distinct count
func (p *c16Prog) hash() string {
	if len(p.pre) == 0 && p.hostIO == nil {
		return p.src
	}
	return fmt.Sprint(p.input(0))
}

func (p *c16Prog) kind0() string {
	if strings.HasPrefix(p.kind, "sem:") {
		return "sem"
	}
	if strings.HasPrefix(p.kind, "stepped:") {
		return "stepped"
	}
	if strings.HasPrefix(p.kind, "churn:") {
		return "churn"
	}
	if strings.HasPrefix(p.kind, "gofunc:") {
		return "gofunc"
	}
	return p.kind
}

func c16After(s, sep string) string {
	if i := strings.Index(s, sep); i >= 0 {
		return s[i+len(sep):]
	}
	return s
}

// ---------------------------------------------------------------------------

var c16Procs = []int{1, 2, 4, 16}

const c16RaceChunk = 6

func c16RunProgram(c *wk.Case, p *c16Prog, procs []int, reps int, sample bool) {
	arrivals := map[string]bool{}
	reported := map[string]bool{}
	runs := 0
	for _, tg := range p.tags {
		c.Tag(tg)
	}
	// GOMAXPROCS is changed once per setting, not once per run (each change stops
	// the world, and the race runtime does not like it while reports are pending)
	if len(procs) > 1 {
		defer runtime.GOMAXPROCS(runtime.GOMAXPROCS(0))
	}
procsLoop:
	for _, pr := range procs {
		if runtime.GOMAXPROCS(0) != pr {
			runtime.GOMAXPROCS(pr)
		}
		for rep := 0; rep < reps; rep++ {
			limit := p.total + 3
			if strings.HasPrefix(p.kind, "sem:") {
				limit = 8
			}
			h := newC16Host(limit, c.Rng.Int63(), p.sleepPm, p.yieldPm)
			r := c16Execute(c, p, pr, h)
			viols, inconc, arrival := c16Judge(p, r, h)
			runs++
			c.Eval(p.hash(), p.total > 0 || len(p.expRep) > 0)
			c.Events(h.events)
			c.Tag("procs:" + strconv.Itoa(pr))
			input := p.input(pr)
			for _, x := range viols {
				if reported[x.sig] {
					continue
				}
				reported[x.sig] = true
				c.Violation(x.sig, x.detail, input)
			}
			for _, x := range inconc {
				c.Inconclusive(x.sig, x.detail, input)
			}
			if len(viols) == 0 && len(inconc) == 0 {
				c.Count("messages-delivered-and-verified", len(h.collected[p.consumer]))
				c.Count("runs-held", 1)
				if p.kind == "fanin" || p.kind == "fanout" {
					arrivals[arrival] = true
				}
			}
			if sample && c.WantSample() && rep == 0 && pr == procs[len(procs)-1] {
				got := h.collected[p.consumer]
				if len(got) > 6 {
					got = append(append([]string{}, got[:6]...), fmt.Sprintf("… %d items", len(h.collected[p.consumer])))
				}
				c.Sample(map[string]interface{}{"src": p.src, "gomaxprocs": pr, "collected": got, "reports": h.reports, "args": h.args,
					"follow_errors": c16FollowErrs(r), "script_error": ank.ErrText(r.out.Err), "violations": len(viols)})
			}
			if len(viols) > 0 || len(inconc) > 0 {
				// the program is a witness already; further runs would mostly repeat the
				// verdict (and spend sampler periods on it)
				break procsLoop
			}
		}
	}
	if p.kind == "fanin" || p.kind == "fanout" {
		c.Count(p.kind+"-programs", 1)
		c.Count(p.kind+"-runs", runs)
		c.Count(p.kind+"-distinct-arrival-interleavings", len(arrivals))
		switch d := len(arrivals); {
		case d <= 1:
			c.Tag("interleavings-per-program:1")
		case d <= 5:
			c.Tag("interleavings-per-program:2-5")
		default:
			c.Tag("interleavings-per-program:6+")
		}
	}
}

func c16FollowErrs(r *c16Run) []string {
	var s []string
	for _, f := range r.follow {
		s = append(s, ank.ErrText(f.Err))
	}
	return s
}

func init() {
	wk.Register(&wk.Engine{
		ID: "C16",
		Plan: func(tier string) fw.Plan {
			nPlain, nRace, nStep := 320, 160, 120
			nChurn, nGoFunc := 40, 96
			if tier == "thorough" {
				nPlain, nRace, nStep = 6000, 2000, 1500
				nChurn, nGoFunc = 600, 1500
			}
			return fw.Plan{
				Level: "exploration",
				Rule: "phase semantics: complete table scenario{one-value assignment of a receive, receive expression, v/ok form, for-in, receivers blocked in each form woken by close, send-on-closed/double-close in try and as top-level error, go-argument snapshot (variables, list/map elements, 2/5/variadic/anonymous/spread calls), generator, nil messages, shared entry / call site, " +
					"a receive from another channel (receive expression, v/ok form, nested for-in) in the body of a for-in over a channel, channels read from typed slots ([]chan T element, struct field, *p) as go arguments and into bindings with the slot overwritten afterwards, " +
					"sends of values of every type of the element's family (plain, host-defined named types Nanos/Duration/Level of the same kind, int32/float64) received converted to the element type, " +
					"six senders blocked in a send (no receiver / full buffer) whose operand was read from a []T element, a struct field of type T, *p, a variable, a list element, a map entry (T = the element type) and whose place is assigned another value while they wait - the host function sendersparked(n) returns once n goroutines are parked in the send, then the places are overwritten, then the messages are received: each is the value at the send statement} x 11 element types (interface, int64, float64, int32, string, []int64, named Nanos/Duration/Level) x capacity{0,1,3}. " +
					"phases pipelines/pipelines-race: PRNG-generated pipeline programs (linear 2-4 stages with optional prefilled buffer, fan-in with counting closer, fan-out with tagged forwarding, capacity-discipline, " +
					"zip: two producers and a stage `for x in a { y = <-b; out <- [x, y] }` that receives from its second input inside the for-in over the first - receive expression / v,ok / nested for-in left by break - optionally with a consumer that takes an acknowledgement inside its for-in) " +
					"over channels of element type interface/int64/float64/int32/string/[]int64 and the host-defined named types Nanos, Duration (kind int64) and Level (kind string), capacity 0/1/2/n, producers sending plain values or (one program in three) values of a named type made by a host function, " +
					"n in {0,1,2,50,1000} uniquely identified messages, stages launched with go through named/anonymous/closure/6-parameter/variadic/spread/element-argument calls whose argument variables are reassigned right after, and through calls whose channel arguments are read from typed slots ([]chan T element, struct field; directly or via a binding) that are assigned other channels right after (the stage reports the channels it got, identified by registered name, once a gate is closed), receive forms for-in / receive expression / v,ok / counted `out <- <-in` / (forwarding stages) counted implicit relay `out <- in`, " +
					"host jitter() (PRNG-chosen Gosched/sleep) at PRNG-chosen points, closed-channel and failing-operation checks on the main goroutine at the end (the failing send / close is a plain statement or, in half of the programs, the body of a loop: for-in over a channel directly or in a called function, for-in over a list, C-style for); each program runs under GOMAXPROCS 1,2,4,16 x repetitions (race phase: -race worker, one GOMAXPROCS setting per worker process). " +
					"phase stepped: one pipeline driven through several calls on one environment (starting calls, later-call / split / host consumers, see c16_r5.go); in two programs of five the stage functions (optionally the consumer loops and the channels) are defined by a library call of their own under a context that is cancelled as soon as that call has returned (vm.ExecuteContext, or parser.ParseSrc + vm.RunContext), and are started / called by later vm.Execute / vm.ExecuteContext calls. " +
					"phase churn (c16_r7.go): long runs that make, use, close and drop a channel per item - 500 to 10000 cycles (twice that in the thorough tier) of loop-back (send, receive, close on the main goroutine; or closed with the messages still queued), request/reply (1-3 long-lived workers, a window of 1/2/4 requests each with a reply channel of its own, in a list or a typed []chan T, closed by the worker / the client / nobody), batch (a feeder goroutine per channel started through a named / anonymous / closure call, consumer for-in / v,ok loop / receive-expression loop), generator (a function makes the channel, starts the feeder, returns the channel), signal (a goroutine closes the channel its starter waits on with a receive expression / v,ok / for-in) - " +
					"over 1-3 channel shapes (element type x capacity 0/1/2/4) per program, closed channels dropped at once or kept in a list until the end of the round, the host's garbage collector run by the script through the host function gc() after every round / every 4th round / between the calls / never (then the run is 5000-10000 cycles long and the collector runs on its own), in one call or spread over 2-5 vm.Execute / vm.ExecuteContext calls on one environment with the functions defined by a library call (optionally under a context released when it has returned); every message carries a running number and must arrive exactly once, in order, converted to the element type of its channel; an operation of a cycle that fails is reported with oops(step, error) (signature fresh-chan:<step>-failed, judged before its consequences); on every P-th cycle (P in 3/7/16/50) the channel just closed must refuse a send and a second close with an error and yield nil to a receive expression, and the number of such errors is compared at the end. " +
					"phase gofunc (c16_r7.go), run in a CHILD process per program so that the death of the hosting process is an observation: 2-5 handlers started with go (or, one program in four, one of them called by the main goroutine inside try) whose callee is a Go func value wrapping a script function - func-typed field of a host struct (func(), func(int64), func(int64,string), func(...int64) plain and spread, func(interface{},interface{}), func(int64) int64), element of []Handler1 / map[string]Handler1 (index and member) / chan Handler1 / *Handler1 / script-made struct field / []HandlerN (named func type), returned by a host function (identity, Go closure around it), argument of a Go function that is the callee itself (call1(f, k), callv(f, k, 7)), called synchronously inside a go-started plain function - or a plain named / anonymous script function; " +
					"healthy handlers are the producers of a fan-in (they report their arguments: the values at the go statement), faulty ones send on a closed channel / close a closed channel (given, closed by themselves just before, in the body of a for-in over a channel), bare or inside try (a few throw / call an undefined function / index out of range: for those only the survival of the host and the healthy traffic are judged); the statement after the failing one must not run, the try must catch it, the fan-in delivers everything, a call on the environment after all goroutines have ended works, and the child process is alive (its death = violation host-died:goroutine-of:<entry point>:panic-in:<innermost anko frame>). " +
					"An evaluation = one run of one program; non-trivial when messages were delivered or closed-channel observations were made; distinct = distinct program source." + c16R8Rule + c16R9Rule,
				Assumptions: []string{
					"script goroutines communicate only through channels and locking host functions (no unsynchronised shared containers)",
					"failing operations (send on closed, double close) are issued on the main script goroutine in the pipeline / semantics / stepped / churn phases; in phase gofunc they are issued inside functions started with go as well: such an error has no receiver, so what is judged there is what the statement says of it - it is an error (the rest of the function is not executed, a try inside the function catches it) and never a crash (the hosting process survives, the other goroutines and later calls are unaffected)",
					"phase gofunc: Options.Debug is off (the default); the Go func values are called by the script only (go statement or synchronous call) - what a Go caller of such a value sees when the wrapped script function fails (a panic carrying the error: a func(int64) has no other way) is the host's own affair and is not generated; every func-typed slot is used by one handler only (when the callee expression of a go statement is read is not stated; the ARGUMENTS are reassigned right after the go statement as everywhere); throw / undefined function / index out of range inside a go-started handler are not named by the statement: only the survival of the host is judged for them",
					"phase churn: a channel made by make(chan T[, n]) is fresh - open and empty - whatever happened to channels made earlier (Go semantics; the statement's 'behave as Go channels'); gc() is a host function the engine binds (runtime.GC()), the scripts have no collector control of their own; nothing depends on whether or when an address is reused - the oracle is the same with or without collections",
					"messages are never nil (a nil message is indistinguishable from the closed-channel result of a receive expression) and never channels (`out <- ch` is anko's receive-and-forward form, exercised as such: it must behave as `out <- <-ch`; a relay from a closed and drained channel is not generated, the statement does not say what it sends)",
					"a goroutine and a channel made by one call on an environment live on after that call returned, as in Go (stepped programs); the host touches script-made channels only between calls and only with non-blocking operations; its end of the pipeline is judged stuck from goroutine states only (no interpreter goroutine left, or all of them parked in channel operations in two identical samples with no host operation possible)",
					"the context handed to vm.ExecuteContext / vm.RunContext governs that call and the goroutines it started: cancelling it after the call has returned, when the call started no goroutine, affects no later call on the environment, whoever defined the functions the later call runs (library programs); cancelling a context while its call or its goroutines still run is C02's matter and is not generated here",
					"the value a send delivers is the value its operand had when the send statement was executed, as in Go (`c <- s[0]` evaluates s[0] before it blocks); the order in which the two operands of a send are evaluated is not relied upon: the place is overwritten only after the sender has been seen parked in the send (goroutine states; a wait that never sees them is inconclusive)",
					"errors other than send-on-closed and second close (e.g. a failed conversion of the value sent) are not provoked in loop bodies: the statement names these two",
					"conversions to the element type are exact ones only (int64 to float64/int32, integral float64 to int64, []interface{} of ints to []int64, between int64/Nanos/Duration and between string/Level)",
					"named element types are bound by the host with DefineType and values of them are made by host functions; the channels themselves are always made by the script (channels made by the host, e.g. send-only ones, are outside the statement)",
					"pending repairs of /repo (constants c16PendingFix_*): for-in whose operand is a typed slot that the body reassigns, and pointer messages received by for-in, are generated but kept out of the table",
					"deadlock is decided from goroutine states only (all interpreter goroutines parked in channel operations in two identical samples); timers pace the sampler and never decide",
					c16R8Assumptions[0], c16R8Assumptions[1], c16R8Assumptions[2], c16R9Assumptions[0],
				},
				Phases: append([]fw.Phase{
					{Name: "semantics", Cases: c16SemCount(), Chunk: 24, Exhaust: true, TimeoutS: 600},
					{Name: "pipelines", Cases: nPlain, Chunk: 10, TimeoutS: 900},
					{Name: "pipelines-race", Race: true, Cases: nRace, Chunk: c16RaceChunk, TimeoutS: 1200},
					{Name: "stepped", Cases: nStep, Chunk: 12, Jobs: 4, MemMB: 3072, TimeoutS: 900},
					{Name: "churn", Cases: nChurn, Chunk: 3, TimeoutS: 900},
					{Name: "gofunc", Cases: nGoFunc, Chunk: 8, TimeoutS: 900},
				}, append(c16R8Phases(tier), c16R9Phases(tier)...)...),
			}
		},
		Run: func(c *wk.Case) {
			if c16R8Run(c) || c16R9Run(c) {
				return
			}
			if c.Phase == "semantics" {
				p := c16Semantic(c.Index)
				c16RunProgram(c, p, []int{1, 4}, 1, c.Index%61 == 0)
				return
			}
			if c.Phase == "churn" {
				p := c16Churn(c.Rng, c.Tier)
				// one (long) run per program, the GOMAXPROCS setting varies over the programs
				procs := []int{c16Procs[c.Rng.Intn(len(c16Procs))]}
				if c.Tier == "thorough" {
					procs = [][]int{{1, 4}, {2, 16}, {4, 1}}[c.Rng.Intn(3)]
				}
				c16RunProgram(c, p, procs, 1, true)
				return
			}
			if c.Phase == "gofunc" {
				seed := c.Rng.Int63()
				p := c16GoFunc(rand.New(rand.NewSource(seed)), c.Tier)
				procs := [][]int{{1, 4}, {2, 16}, {4, 1}}[c.Rng.Intn(3)]
				reps := 1
				if c.Tier == "thorough" {
					reps = 3
				}
				c16RunInChild(c, "gofunc", p, seed, procs, reps)
				return
			}
			if c.Phase == "stepped" {
				p := c16Stepped(c.Rng, c.Tier)
				reps := 2
				if c.Tier == "thorough" {
					reps = 4
				}
				c16RunProgram(c, p, c16Procs, reps, true)
				return
			}
			p := c16Generate(c.Rng, c.Tier)
			reps := 5
			if c.Phase == "pipelines-race" {
				reps = 4 // x3 below, one GOMAXPROCS setting per process
			}
			if c.Tier == "thorough" {
				reps *= 2
			}
			if p.total >= 1000 {
				reps = (reps + 1) / 2
			}
			procs := c16Procs
			if c.Phase == "pipelines-race" {
				// the race runtime crashes when GOMAXPROCS shrinks while reports are
				// pending: one setting per worker process (per chunk), all four settings
				// across the chunks
				procs = []int{c16Procs[(c.Index/c16RaceChunk)%len(c16Procs)]}
				reps *= 3
			}
			c16RunProgram(c, p, procs, reps, true)
		},
	})
}
