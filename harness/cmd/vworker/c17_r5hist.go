package main

// C17, walks made after a history of stopped walks.
//
// The statement quantifies over every walk of every parsed tree: "returns no error
// unless the callback does" and "presents every ... node" hold for the ten-thousandth
// walk of a process as for its first, whatever the earlier walks did. In particular
// "when the callback returns an error the walk stops at once and returns that error"
// is the documented way of ending a walk early (a linter that stops at the first hit),
// so a process may have stopped any number of walks, anywhere in any tree, before it
// walks a tree completely. The other phases stop a few dozen walks per process and at
// most a few thousand levels deep in total; whatever a stopped walk leaves behind
// (a counter, a cache, a pooled buffer) stays far below any threshold there.
//
// Phase history: every case is its own worker process (Chunk 1) and
//
//  1. judges its probe programs (small programs of every statement kind, and the
//     victim trees themselves) with c17Check in the fresh process (plain signatures);
//  2. stops walks of its victim trees by the callback, thousands to a million times,
//     in four rounds of growing size (2%, 8%, 30%, 60% of a budget of callback calls).
//     Modes (case index modulo 6):
//     deep-paren   one expression spine of 1500..3000 parenthesised levels (random
//     template and hole), stopped mostly in the deepest 40% of its levels;
//     deep-block   one block spine of 300..1500 levels, likewise;
//     deep-raw     one unparenthesised expression spine, likewise;
//     small-many   some forty small programs (pinned, matrix, PRNG), each stopped
//     at every position in turn, hundreds of thousands of walks;
//     concurrent   a deep spine stopped by four goroutines at the same time;
//     nested       a deep spine stopped from inside the callback of a complete
//     walk of a small tree (which must itself stay complete).
//     Every stopped walk is judged on the spot (exactly k callback calls, the very
//     error of the callback returned, no panic); after every 256 of them a small tree
//     is walked completely (nil, at least as many calls as it has nodes) - when that
//     fails the round ends at once;
//  3. after every round judges the small probes again with c17Check, after the last
//     round also the victim trees: complete walk returns nil, every reflected node
//     presented, parent first, stopping still works. Signatures found in steps 2 and 3
//     carry the prefix "after-stopped-walks:".
//
// The oracle is c17Check (reflection versus what Walk presents), unchanged; nothing
// here compares a later walk with an earlier one.

import (
	"errors"
	"fmt"
	"math/rand"
	"reflect"
	"strconv"
	"strings"
	"sync"

	"github.com/mattn/anko/ast"

	"verifharness/internal/ank"
	"verifharness/internal/astx"
	"verifharness/internal/wk"
)

var c17HistModes = []string{"deep-paren", "deep-block", "deep-raw", "small-many", "concurrent", "nested"}

// shares of the budget (percent) spent before the probes are judged again
var c17HistRounds = []int64{2, 8, 30, 60}

// small probe programs: judged in the fresh process and again after every round.
// The first one is also the tree walked completely after every 256 stopped walks.
var c17HistProbeSrcs = []string{
	"a = b + 1",
	"x = [1, n, 3]; y = s[i:j:k]; z = make([]int64, n, m); w = s[i:]",
	c17Pinned[11],
	c17Pinned[12],
	c17Pinned[13],
	c17Pinned[18],
}

type c17Tree struct {
	src    string
	what   string // how the source was generated (for the witness)
	origin string // origin handed to c17Check ("deep..." limits its sweeps for large trees)
	root   ast.Stmt
	nNodes int // distinct reflected nodes
	// victims only: what a complete walk of the fresh process presented
	total    int     // callback calls of a complete walk
	depthAt  []int32 // reflected nesting level of the node presented by call i+1
	typeAt   []string
	deepKs   []int // calls that present a node in the deepest 40% of the levels
	maxDepth int32
}

// c17ParseTree parses src; nil when it is not a non-empty tree produced by the
// parser, or a heavily shared DAG (see c17UnfoldedSize).
func c17ParseTree(src, what string) *c17Tree {
	tree, err, po := ank.Parse(src)
	if err != nil || po.Panicked {
		return nil
	}
	if rv := reflect.ValueOf(tree); tree == nil || rv.Kind() == reflect.Ptr && rv.IsNil() {
		return nil
	}
	if c17UnfoldedSize(tree, c17UnfoldLimit) >= c17UnfoldLimit {
		return nil
	}
	t := &c17Tree{src: src, what: what, origin: "history", root: tree}
	return t
}

// prepare records what a complete walk presents and the reflected nesting level of
// every presented node; false when that walk fails (c17Check has reported it).
func (t *c17Tree) prepare() bool {
	nodes := astx.Nodes(t.root)
	depth := make(map[interface{}]int32, len(nodes))
	for _, n := range nodes { // pre-order: a parent comes before its children
		d := int32(1)
		if n.Parent != nil {
			d = depth[n.Parent] + 1
		}
		if d > depth[n.Node] {
			depth[n.Node] = d
		}
	}
	t.nNodes = len(depth)
	rec := &c17Rec{record: true, first: map[interface{}]int{}}
	o := c17Walk(t.root, rec.cb)
	if o.panicked || o.err != nil || len(rec.seq) == 0 {
		return false
	}
	t.total = len(rec.seq)
	t.depthAt = make([]int32, t.total)
	t.typeAt = make([]string, t.total)
	last := int32(1)
	for i, x := range rec.seq {
		if c17Comparable(x) {
			if d, ok := depth[x]; ok {
				last = d
			}
		}
		// (a value that is no node of the tree - the CallExpr fabricated for an anonymous
		// call - is counted at the level of the node presented before it)
		t.depthAt[i] = last
		t.typeAt[i] = c17TypeName(x)
		if last > t.maxDepth {
			t.maxDepth = last
		}
	}
	for i, d := range t.depthAt {
		if int64(d)*10 >= int64(t.maxDepth)*6 {
			t.deepKs = append(t.deepKs, i+1)
		}
	}
	return true
}

// pickK draws the call at which the callback fails: mostly deep in the tree.
func (t *c17Tree) pickK(r *rand.Rand) int {
	x := r.Intn(10)
	switch {
	case x < 7 && len(t.deepKs) > 0:
		return t.deepKs[r.Intn(len(t.deepKs))]
	case x < 9:
		return 1 + r.Intn(t.total)
	}
	k := []int{1, 2, t.total - 1, t.total}[r.Intn(4)]
	if k < 1 {
		k = 1
	}
	return k
}

type c17Anomaly struct {
	sig, detail string
	undecided   bool
}

// c17StopOnce walks t with a callback that fails at call k and judges that walk by
// the last sentence of the statement. It touches no shared state (the concurrent
// mode calls it from several goroutines).
func c17StopOnce(t *c17Tree, k int) (calls int, an *c17Anomaly) {
	stop := errors.New("c17 history stop at call " + strconv.Itoa(k))
	r2 := &c17Rec{failAt: k, stop: stop}
	o2 := c17Walk(t.root, r2.cb)
	at := t.typeAt[k-1]
	switch {
	case o2.panicked:
		return r2.calls, &c17Anomaly{sig: "walk-panic:" + o2.psig, detail: fmt.Sprintf("astutil.Walk panicked in a walk whose callback was to fail at call %d (%s): %s", k, at, o2.pval)}
	case r2.calls == k && o2.err == stop:
		return r2.calls, nil
	case r2.calls < k && o2.err != nil:
		// the callback has returned nil so far: "returns no error unless the callback does"
		last := "<nothing presented>"
		if r2.calls > 0 {
			last = t.typeAt[r2.calls-1]
		}
		// (where such a walk gives up depends on the history, not on the node: one signature)
		return r2.calls, &c17Anomaly{sig: "walk-error:before-the-callback-failed", detail: fmt.Sprintf("Walk returned %q after %d callback calls that all returned nil (the callback was to fail at call %d only; last node presented: %s)", o2.err.Error(), r2.calls, k, last)}
	case r2.calls < k:
		// the walk ended early and returned nil: nodes are missing; the probes decide which
		return r2.calls, &c17Anomaly{undecided: true, sig: "walk-not-repeatable", detail: fmt.Sprintf("a walk made %d calls and returned nil, the first complete walk of the same tree made %d", r2.calls, t.total)}
	case r2.calls > k:
		return r2.calls, &c17Anomaly{sig: "abort-continued:" + c17TypeName(r2.after), detail: fmt.Sprintf("callback returned an error at call %d (%s) but was invoked %d more times; the walk went on with a %s; Walk returned %v",
			k, at, r2.calls-k, c17TypeName(r2.after), o2.err)}
	case o2.err == nil:
		return r2.calls, &c17Anomaly{sig: "abort-error-lost:" + at, detail: fmt.Sprintf("callback returned an error at call %d (%s); Walk stopped but returned nil", k, at)}
	}
	how := "a different error"
	if errors.Is(o2.err, stop) {
		how = "a new error that wraps it"
	}
	return r2.calls, &c17Anomaly{sig: "abort-error-replaced:" + at, detail: fmt.Sprintf("callback returned %q at call %d (%s); Walk returned %s: %q (%T)", stop.Error(), k, at, how, o2.err.Error(), o2.err)}
}

type c17Hist struct {
	c         *wk.Case
	mode      string
	victims   []*c17Tree
	canary    *c17Tree
	walks     int
	calls     int64
	depthSum  int64
	anomalies int
	tripped   bool // the complete walk of the small tree failed: end the round
	next      int  // small-many: which (victim, k) comes next
	nextK     int
}

func (h *c17Hist) info() map[string]interface{} {
	var vs []string
	for i, v := range h.victims {
		if i == 6 {
			vs = append(vs, fmt.Sprintf("... (%d trees)", len(h.victims)))
			break
		}
		vs = append(vs, v.what)
	}
	return map[string]interface{}{"mode": "mode " + h.mode, "stopped_walks": h.walks, "nesting_levels_sum": h.depthSum, "stopped_trees": vs}
}

func (h *c17Hist) account(t *c17Tree, k, calls int, an *c17Anomaly) {
	h.walks++
	h.calls += int64(calls)
	h.depthSum += int64(t.depthAt[k-1])
	if an == nil {
		return
	}
	h.anomalies++
	if an.undecided {
		h.c.Inconclusive(an.sig, an.detail, map[string]interface{}{"src": t.src, "k": k, "history": h.info()})
		return
	}
	c17Viol(h.c, an.sig, an.detail, t.src)
}

// canaryOK walks the small tree completely: nil, and at least one call per node.
func (h *c17Hist) canaryOK() bool {
	r := &c17Rec{}
	o := c17Walk(h.canary.root, r.cb)
	h.c.Events(r.calls)
	return !o.panicked && o.err == nil && r.calls >= h.canary.nNodes
}

func (h *c17Hist) begin(t *c17Tree) {
	h.c.Begin(map[string]interface{}{"op": "stopped-walks", "history": h.info(), "src": t.src})
}

// run stops walks until `target` callback calls have been made in stopped walks.
func (h *c17Hist) run(target int64) {
	r := h.c.Rng
	for h.calls < target && !h.tripped && h.anomalies < 3 {
		switch h.mode {
		case "small-many":
			// every position of every program in turn
			for n := 0; n < 256 && h.calls < target; n++ {
				v := h.victims[h.next%len(h.victims)]
				if n == 0 {
					h.begin(v)
				}
				k := 1 + h.nextK%v.total
				calls, an := c17StopOnce(v, k)
				h.account(v, k, calls, an)
				h.next++
				if h.next%len(h.victims) == 0 {
					h.nextK++
				}
			}
		case "concurrent":
			v := h.victims[0]
			h.begin(v)
			const ng, per = 4, 64
			type res struct {
				k, calls int
				an       *c17Anomaly
			}
			var ks [ng][per]int
			for g := 0; g < ng; g++ {
				for i := 0; i < per; i++ {
					ks[g][i] = v.pickK(r) // drawn here: c.Rng is not for the goroutines
				}
			}
			var out [ng][per]res
			var wg sync.WaitGroup
			for g := 0; g < ng; g++ {
				wg.Add(1)
				go func(g int) {
					defer wg.Done()
					for i := 0; i < per; i++ {
						calls, an := c17StopOnce(v, ks[g][i])
						out[g][i] = res{ks[g][i], calls, an}
					}
				}(g)
			}
			wg.Wait()
			for g := 0; g < ng; g++ {
				for i := 0; i < per; i++ {
					h.account(v, out[g][i].k, out[g][i].calls, out[g][i].an)
				}
			}
		case "nested":
			// a complete walk of the small tree whose callback stops a walk of the deep tree
			// at every call; the outer walk must present all its nodes and return nil
			v := h.victims[0]
			h.begin(v)
			for n := 0; n < 24 && h.calls < target; n++ {
				seen := make(map[interface{}]bool, h.canary.nNodes)
				outer := 0
				o := c17Walk(h.canary.root, func(x interface{}) error {
					outer++
					if c17Comparable(x) {
						seen[x] = true
					}
					k := v.pickK(r)
					calls, an := c17StopOnce(v, k)
					h.account(v, k, calls, an)
					return nil
				})
				h.c.Events(outer)
				switch {
				case o.panicked:
					h.anomalies++
					c17Viol(h.c, "walk-panic:"+o.psig, "astutil.Walk panicked in a complete walk whose callback stops walks of another tree: "+o.pval, h.canary.src)
				case o.err != nil:
					h.anomalies++
					c17Viol(h.c, "walk-error:callback-stops-other-walks", fmt.Sprintf("Walk returned %q after %d calls although its callback never failed (the callback stops a walk of another tree at every call)", o.err.Error(), outer), h.canary.src)
				default:
					for _, ni := range astx.Nodes(h.canary.root) {
						if !seen[ni.Node] {
							h.anomalies++
							c17Viol(h.c, "missed:"+c17TypeName(ni.Node)+"@"+ni.Slot, fmt.Sprintf("Walk returned nil but never presented the %s held in %s (its callback stops a walk of another tree at every call)", c17TypeName(ni.Node), ni.Slot), h.canary.src)
							break
						}
					}
				}
			}
		default: // deep-paren, deep-block, deep-raw: one deep tree, stopped mostly deep down
			v := h.victims[0]
			h.begin(v)
			for n := 0; n < 256 && h.calls < target; n++ {
				k := v.pickK(r)
				calls, an := c17StopOnce(v, k)
				h.account(v, k, calls, an)
			}
		}
		if !h.canaryOK() {
			h.tripped = true
		}
	}
}

// c17HistDeepSrcs: candidate sources of one deep tree (the first that parses is used).
func c17HistDeepSrcs(r *rand.Rand, kind string) (srcs []string, what string) {
	c17Holes()
	payload := c17Payloads[r.Intn(len(c17Payloads))]
	switch kind {
	case "deep-block":
		hl := c17BHoles[r.Intn(len(c17BHoles))]
		depth := c17DeepDepth(r, 300, 1500)
		s := c17BlockSpine(hl.t, hl.h, depth, "r = "+payload+"\nq = -r")
		what = fmt.Sprintf("block spine of %d levels of `%s` through block hole %d", depth, hl.t.src, hl.h)
		return []string{s, "func g() {\n" + s + "\n}"}, what
	case "deep-raw":
		hl := c17EHoles[r.Intn(len(c17EHoles))]
		depth := c17DeepDepth(r, 1500, 3000)
		ctx := c17DeepCtx[r.Intn(len(c17DeepCtx))]
		e0 := c17ExprSpine(hl.t, hl.h, depth, 0, payload)
		e1 := c17ExprSpine(hl.t, hl.h, depth, 1, payload)
		what = fmt.Sprintf("expression spine of %d levels of `%s` through hole %d", depth, hl.t.src, hl.h)
		return []string{fmt.Sprintf(ctx, e0), fmt.Sprintf(ctx, e1), "r = " + e0, "r = " + e1}, what
	}
	hl := c17EHoles[r.Intn(len(c17EHoles))]
	depth := c17DeepDepth(r, 1500, 3000)
	ctx := c17DeepCtx[r.Intn(len(c17DeepCtx))]
	e := c17ExprSpine(hl.t, hl.h, depth, 2, "("+payload+")")
	what = fmt.Sprintf("expression spine of %d parenthesised levels of `%s` through hole %d", depth, hl.t.src, hl.h)
	return []string{fmt.Sprintf(ctx, e), "r = " + e}, what
}

func c17HistDeepTree(r *rand.Rand, kind string) *c17Tree {
	for try := 0; try < 6; try++ {
		srcs, what := c17HistDeepSrcs(r, kind)
		for _, s := range srcs {
			if t := c17ParseTree(s, what); t != nil {
				t.origin = "deep-history"
				return t
			}
		}
	}
	// plain parentheses always parse
	depth := c17DeepDepth(r, 1500, 3000)
	s := "r = " + strings.Repeat("(", depth) + c17RichPayload + strings.Repeat(")", depth)
	t := c17ParseTree(s, fmt.Sprintf("%d nested parentheses", depth))
	if t != nil {
		t.origin = "deep-history"
	}
	return t
}

func c17RunHistory(c *wk.Case) {
	r := c.Rng
	mode := c17HistModes[c.Index%len(c17HistModes)]
	variant := c.Index / len(c17HistModes)
	budget := int64(24e6) // callback calls made in stopped walks
	if c.Tier == "thorough" {
		budget = 300e6
	}
	h := &c17Hist{c: c, mode: mode}
	c.Tag("history-mode:" + mode)

	// --- the trees to be stopped
	switch mode {
	case "small-many":
		list := c17FixedList()
		g := &c17Gen{r: r}
		var srcs []string
		srcs = append(srcs, c17Pinned...)
		for i := 0; i < 40; i++ {
			srcs = append(srcs, list[r.Intn(len(list))])
		}
		for i := 0; i < 20; i++ {
			srcs = append(srcs, g.program())
		}
		for _, s := range srcs {
			if len(h.victims) >= 40 {
				break
			}
			if t := c17ParseTree(s, "small program"); t != nil {
				h.victims = append(h.victims, t)
			}
		}
	case "concurrent", "nested":
		kind := []string{"deep-paren", "deep-block", "deep-raw"}[variant%3]
		if t := c17HistDeepTree(r, kind); t != nil {
			h.victims = append(h.victims, t)
		}
	default:
		if t := c17HistDeepTree(r, mode); t != nil {
			h.victims = append(h.victims, t)
		}
	}

	// --- the probes
	var probes []*c17Tree
	list := c17FixedList()
	srcs := append([]string{}, c17HistProbeSrcs...)
	for i := 0; i < 12 && len(srcs) < len(c17HistProbeSrcs)+4; i++ {
		srcs = append(srcs, list[r.Intn(len(list))])
	}
	for _, s := range srcs {
		if t := c17ParseTree(s, "probe"); t != nil {
			probes = append(probes, t)
		}
	}
	if len(probes) == 0 || len(h.victims) == 0 {
		c.Excluded("history-nothing-parses")
		return
	}
	judge := func(t *c17Tree, when string) {
		c.Eval("history:"+when+":"+t.src, true)
		c.Tag("programs:history-" + when)
		c17Check(c, t.src, t.root, true, t.origin)
	}

	// --- 1. the fresh process (plain signatures)
	for _, t := range probes {
		judge(t, "fresh")
	}
	if mode != "small-many" {
		// (the small programs are judged by phase matrix / gen)
		for _, t := range h.victims {
			judge(t, "fresh")
		}
	}
	h.canary = probes[0]
	if !h.canary.prepare() {
		c.Excluded("history-small-tree-walk-fails")
		return
	}
	kept := h.victims[:0]
	for _, t := range h.victims {
		if t.prepare() {
			kept = append(kept, t)
		}
	}
	h.victims = kept
	if len(h.victims) == 0 {
		// Walk fails for the trees to be stopped even in the fresh process: reported above
		c.Excluded("history-victim-walk-fails")
		return
	}

	// --- 2./3. rounds of stopped walks, each followed by the probes
	c17SigPrefix, c17HistInfo = "after-stopped-walks:", h.info
	defer func() { c17SigPrefix, c17HistInfo = "", nil }()
	done := int64(0)
	for ri, share := range c17HistRounds {
		before := c17ViolCount
		done += budget * share / 100
		was := h.calls
		h.run(done)
		c.Events(int(h.calls - was))
		when := "after-round-" + strconv.Itoa(ri+1)
		for _, t := range probes {
			judge(t, when)
		}
		last := ri == len(c17HistRounds)-1 || h.tripped || h.anomalies > 0 || c17ViolCount > before
		if last && mode != "small-many" {
			for _, t := range h.victims {
				judge(t, when)
			}
		}
		if last {
			break
		}
	}
	c.Count("history_stopped_walks", h.walks)
	c.Count("history_stop_nesting_levels_sum", int(h.depthSum))
	c.Count("history_stopped_walk_calls", int(h.calls))
	if h.tripped {
		c.Tag("history:complete-walk-of-small-tree-failed")
	}
	if c.WantSample() {
		c.Sample(map[string]interface{}{"history": h.info(), "probes": len(probes), "violations_after_history": c17ViolCount})
	}
}
