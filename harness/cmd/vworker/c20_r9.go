package main

// C20, round 9 (overlap): the call position `go f(a, b)`.
//
// Statement: "... behaves identically in every operator, statement and call position (same result
// value and dynamic type, same error-or-success) ... a value keeps its dynamic type through any
// number of such hops". The argument list of a call started by a go statement is a call position
// like any other: the started function must receive the values the operands had at the go
// statement - what the same call without `go` delivers. The older go-* templates start ONE
// goroutine per run and do nothing else meanwhile. Here, inside ONE run, a loop starts a
// goroutine per iteration with arguments of changing dynamic types obtained through every
// provenance of the engine, and goes on calling other script functions with 0..5 arguments
// (and Go functions) before the started goroutines have run: whatever the interpreter keeps per
// call (argument buffers, scopes, call records) overlaps with the calls that follow.
//
// Oracle: every started goroutine hands what it received (values, dynamic types, identity of
// pointers / channels / maps / slices as "which operand object it is") to a host recorder; the
// goroutines are joined through a channel; the multiset of records must equal the records of the
// SAME script with the go keyword removed (the plain call position, same operand objects), and
// both must be what the host put into the operand table. No verdict on timing: a goroutine that
// has not reported after 30 s makes the case inconclusive; starts that happen not to overlap are
// silent.

import (
	"fmt"
	"reflect"
	"runtime"
	"sort"
	"strings"
	"sync"
	"time"

	"verifharness/internal/ank"
	"verifharness/internal/fw"
	"verifharness/internal/wk"
)

const c20R9Rule = " Round 9 (overlap): phase overlap: inside ONE run a loop starts a goroutine per iteration - `go rep<N>(i, operand...)` for script callees of 0..7 parameters, a variadic one, a closure made per iteration, a function value read from a list, and a Go recorder called directly - with operands of eleven dynamic types (int64, string, float64, bool, list, map, []int64, channel, pointer to struct, struct value, function) obtained through ten provenances (variable, list element, map entry, member, interface{} field, script function result, Go function returning interface{}, parentheses, ternary, element of a typed location), and goes on calling other script functions with 0..5 arguments and Go functions before the started goroutines have run; 48 iterations (thorough 200) per callee x provenance, three rounds per case with garbage collections in between; every started goroutine records the values and dynamic types it received (objects by identity with the operand table); joined through a channel; the multiset of records must equal the records of the same script without the go keyword and what the host put into the table."

var c20R9Assumptions = []string{
	"round 9: phase overlap decides nothing on timing: a wrong value or dynamic type received by a started goroutine is a fact of the run; a goroutine that has not reported within 30 s makes the case inconclusive; the order in which goroutines report is not compared (multisets)",
}

func c20R9Phases(tier string) []fw.Phase {
	n := 3
	if tier == "thorough" {
		n = 24
	}
	return []fw.Phase{{Name: "overlap", Cases: n, Chunk: 1, TimeoutS: 900}}
}

type c20r9Point struct{ N int64 }

type c20r9Rec struct{ callee, args string }

// the operand table: eleven dynamic types
func c20r9Operands(n int, shift int, st *c20State) []interface{} {
	vals := make([]interface{}, n)
	for i := 0; i < n; i++ {
		k := int64(i)
		switch (i + shift) % 11 {
		case 0:
			vals[i] = int64(100000) + k
		case 1:
			vals[i] = fmt.Sprintf("s%d", i)
		case 2:
			vals[i] = float64(k) + 0.25
		case 3:
			vals[i] = i%2 == 0
		case 4:
			vals[i] = []interface{}{k, "x"}
		case 5:
			vals[i] = map[interface{}]interface{}{"k": k}
		case 6:
			vals[i] = []int64{k, k + 1}
		case 7:
			vals[i] = make(chan int64, 1)
		case 8:
			vals[i] = &c20r9Point{N: k}
		case 9:
			vals[i] = c20S{A: k, B: "b"}
		case 10:
			vals[i] = func(a int64) int64 { return a + k }
		}
	}
	return vals
}

var c20r9Provs = []struct{ name, pre, expr string }{
	{"var", "x = vals[i]", "x"},
	{"elem", "", "vals[i]"},
	{"mapent", "", "mv[i]"},
	{"member", "", "{\"k\": vals[i]}.k"},
	{"field", "", "box(vals[i]).V"},
	{"scall", "", "get(i)"},
	{"gocall", "", "pick(i)"},
	{"paren", "x = vals[i]", "(x)"},
	{"ternary", "", "(true ? vals[i] : 0)"},
	{"tyelem", "", "tsl(vals[i])[0]"},
}

type c20r9Callee struct {
	name string
	def  string
	call string // $T the tag, $A the operand expression
	nArg int    // how often the operand appears
}

func c20r9Callees() []c20r9Callee {
	cs := []c20r9Callee{
		{"rep0", "func rep0() { sink(\"rep0\") }", "rep0()", 0},
		{"rep1", "func rep1(a) { sink(\"rep1\", a) }", "rep1($A)", 1},
	}
	names := "abcdefg"
	for n := 2; n <= 7; n++ {
		var ps, as []string
		for j := 0; j < n; j++ {
			ps = append(ps, string(names[j]))
		}
		as = append(as, "$T")
		for j := 1; j < n; j++ {
			if j%2 == 1 {
				as = append(as, "$A")
			} else {
				as = append(as, fmt.Sprintf("\"p%d\"", j))
			}
		}
		cs = append(cs, c20r9Callee{fmt.Sprintf("rep%d", n), fmt.Sprintf("func rep%d(%s) { sink(\"rep%d\", %s) }", n, strings.Join(ps, ", "), n, strings.Join(ps, ", ")),
			fmt.Sprintf("rep%d(%s)", n, strings.Join(as, ", ")), n / 2})
	}
	cs = append(cs,
		c20r9Callee{"repv", "func repv(a...) { sink(\"repv\", a...) }", "repv($T, $A, \"v\")", 1},
		c20r9Callee{"closure", "", "func(t, a) { sink(\"closure\", t, a) }($T, $A)", 1},
		c20r9Callee{"fromlist", "fl = [func(t, a) { sink(\"fromlist\", t, a) }]", "fl[0]($T, $A)", 1},
		c20r9Callee{"gosink", "", "sink(\"gosink\", $T, $A)", 1},
	)
	return cs
}

func c20R9Overlap(c *wk.Case) {
	rep := c20r8NewRep(c)
	nIter := 48
	if c.Tier == "thorough" {
		nIter = 200
	}
	callees := c20r9Callees()
	// the script: for every callee x provenance one loop
	build := func(goKw string) string {
		var b strings.Builder
		b.WriteString("func get(i) { return vals[i] }\nfunc o0() { return 0 }\nfunc o1(a) { return a }\nfunc o2(a, b) { return [b, a] }\nfunc o3(a, b, c) { return c }\nfunc o4(a, b, c, d) { return [d, a] }\nfunc o5(a, b, c, d, e) { return e }\n")
		for _, ce := range callees {
			if ce.def != "" {
				b.WriteString(ce.def + "\n")
			}
		}
		for ci, ce := range callees {
			for pi, p := range c20r9Provs {
				if ce.nArg == 0 && pi > 0 {
					continue
				}
				fmt.Fprintf(&b, "for i = 0; i < n; i++ {\n")
				if p.pre != "" {
					b.WriteString(p.pre + "\n")
				}
				tag := fmt.Sprintf("\"%d/%d/\" + toString(i)", ci, pi)
				call := strings.ReplaceAll(strings.ReplaceAll(ce.call, "$T", tag), "$A", p.expr)
				b.WriteString(goKw + call + "\n")
				// the spawning goroutine goes on calling
				b.WriteString("o0()\no1(\"other\")\no2(i, \"other\")\no3(1.5, nil, \"other\")\no4([i], \"other\", {}, i)\no5(1, 2, 3, 4, \"other\")\nid(i)\n")
				b.WriteString("}\n")
			}
		}
		return b.String()
	}
	srcGo, srcPlain := build("go "), build("")
	nCalls := 0
	for _, ce := range callees {
		if ce.nArg == 0 {
			nCalls += nIter
		} else {
			nCalls += nIter * len(c20r9Provs)
		}
	}
	started, wrong := 0, 0
	for round := 0; round < 3; round++ {
		st := c20NewState()
		vals := c20r9Operands(nIter, int(c.Rng.Intn(11)), st)
		// identity of the operand objects
		ident := func(v interface{}) string {
			rv := reflect.ValueOf(v)
			if !rv.IsValid() {
				return "nil"
			}
			if f, ok := v.(func(int64) int64); ok {
				// a function is known by what it does
				return fmt.Sprintf("func(int64) int64=the one adding %d", f(0))
			}
			switch rv.Kind() {
			case reflect.Chan, reflect.Ptr, reflect.Map, reflect.Func, reflect.Slice:
				for j, w := range vals {
					wv := reflect.ValueOf(w)
					if wv.Kind() == rv.Kind() && wv.Type() == rv.Type() && wv.Pointer() == rv.Pointer() && (rv.Kind() != reflect.Slice || wv.Len() == rv.Len()) {
						return fmt.Sprintf("%s=vals[%d]", rv.Type(), j)
					}
				}
				if rv.Kind() == reflect.Chan || rv.Kind() == reflect.Ptr || rv.Kind() == reflect.Func {
					return fmt.Sprintf("%s=<not an operand>", rv.Type())
				}
			}
			return fmt.Sprintf("%T|", v) + ank.Render(v)
		}
		run := func(src string, wait bool) (map[c20r9Rec]int, string) {
			e := st.env.NewEnv()
			var mu sync.Mutex
			recs := map[c20r9Rec]int{}
			got := 0
			done := make(chan struct{}, 1)
			e.Define("vals", vals)
			mv := map[interface{}]interface{}{}
			for i, v := range vals {
				mv[int64(i)] = v
			}
			e.Define("mv", mv)
			e.Define("n", int64(nIter))
			e.Define("pick", func(i int64) interface{} { return vals[i] })
			e.Define("sink", func(callee string, args ...interface{}) {
				parts := make([]string, len(args))
				for i, a := range args {
					parts[i] = ident(a)
				}
				mu.Lock()
				recs[c20r9Rec{callee, strings.Join(parts, ", ")}]++
				got++
				if got == nCalls {
					select {
					case done <- struct{}{}:
					default:
					}
				}
				mu.Unlock()
			})
			c.Begin(map[string]string{"phase": "overlap", "src": c20r8Clip(src, 3000)})
			o := ank.Exec(e, src)
			if c20Class(o) != "ok" {
				return nil, c20Class(o) + ": " + ank.ErrText(o.Err) + o.PanicVal
			}
			if wait {
				select {
				case <-done:
				case <-time.After(30 * time.Second):
					mu.Lock()
					g := got
					mu.Unlock()
					if g != nCalls {
						return nil, fmt.Sprintf("timeout: %d of %d started goroutines reported", g, nCalls)
					}
				}
			}
			mu.Lock()
			defer mu.Unlock()
			cp := map[c20r9Rec]int{}
			for k, v := range recs {
				cp[k] = v
			}
			return cp, ""
		}
		plain, perr := run(srcPlain, false)
		withGo, gerr := run(srcGo, true)
		if perr != "" {
			c.Inconclusive("overlap:plain-run-failed", perr, nil)
			continue
		}
		if strings.HasPrefix(gerr, "timeout") {
			c.Inconclusive("overlap:goroutines-not-joined", gerr, nil)
			continue
		}
		if gerr != "" {
			rep.add("overlap:go-args:run:"+strings.SplitN(gerr, ":", 2)[0], "the script with go statements failed ("+gerr+") while the same script without the go keyword succeeds", map[string]interface{}{"src": c20r8Clip(srcGo, 6000)})
			continue
		}
		started += nCalls
		// the plain run against the table (what the host put there)
		for ci, ce := range callees {
			for pi := range c20r9Provs {
				if ce.nArg == 0 || ci < 2 {
					continue
				}
				for i := 0; i < nIter; i += nIter - 1 {
					want := ident(vals[i])
					found := false
					for r := range plain {
						if r.callee == ce.name && strings.Contains(r.args, fmt.Sprintf("\"%d/%d/%d\"", ci, pi, i)) && strings.Contains(r.args, want) {
							found = true
						}
					}
					if !found {
						rep.add("overlap:plain-call:"+ce.name+":"+c20r9Provs[pi].name, fmt.Sprintf("the call without go (iteration %d) did not deliver the operand %s", i, want), map[string]interface{}{"src": c20r8Clip(srcPlain, 6000)})
					}
				}
			}
		}
		// multiset comparison
		var missing []c20r9Rec
		for r, n := range plain {
			if withGo[r] < n {
				missing = append(missing, r)
			}
		}
		sort.Slice(missing, func(a, b int) bool { return missing[a].callee+missing[a].args < missing[b].callee+missing[b].args })
		var extra []c20r9Rec
		for r, n := range withGo {
			if plain[r] < n {
				extra = append(extra, r)
			}
		}
		sort.Slice(extra, func(a, b int) bool { return extra[a].callee+extra[a].args < extra[b].callee+extra[b].args })
		wrong += len(missing)
		for _, m := range missing {
			prov := "none"
			if i := strings.Index(m.args, "/"); i > 0 {
				var ci, pi int
				if _, err := fmt.Sscanf(m.args[strings.Index(m.args, "\"")+1:], "%d/%d/", &ci, &pi); err == nil && pi < len(c20r9Provs) {
					prov = c20r9Provs[pi].name
				}
			}
			// what arrived instead: a record of the same callee that the plain run does not have
			instead := "<nothing>"
			for _, x := range extra {
				if x.callee == m.callee {
					instead = x.args
					break
				}
			}
			rep.add("overlap:go-args:"+m.callee+":"+prov+":received", fmt.Sprintf("`go %s(...)` inside a loop that goes on calling: without go the callee receives (%s); no started goroutine received that, one received (%s) instead (%d of %d records of this round differ)", m.callee, m.args, instead, len(missing), nCalls),
				map[string]interface{}{"round": round, "iterations": nIter, "src": c20r8Clip(srcGo, 6000)})
		}
		c.Eval(fmt.Sprintf("overlap|%d|%d", c.Index, round), true)
		c.Events(nCalls)
		runtime.GC()
	}
	c.Count("overlap_goroutines_started_and_joined", started)
	c.Count("overlap_callees", len(callees))
	c.Count("overlap_provenances", len(c20r9Provs))
	c.Tag(fmt.Sprintf("overlap:iterations-per-loop:%d", nIter))
	_ = wrong
	rep.flush()
}
