package main

// C18, phase "diag-env": two families of scripts the template generator of
// c18.go never writes. Both are judged by the unchanged oracle of c18.go
// (c18Judge: stdout(CLI) == stdout(library) ++ one diagnostic line iff the
// library returned an error; exit 0/4) and are supplied both ways (file, -e).
//
//   A. failing scripts whose ERROR TEXT carries script data with a '%' in it
//      ("100%", "%d", "%s", "%!", "%[1]d", a trailing '%', ...), reached over
//      several routes (throw of a string, of a Go error value, import/load of a
//      name that does not exist, Go errors quoting their operand, a Go panic,
//      an argument of the command line) and from several places (top level, a
//      function, a loop, a catch block that throws again, after a partial
//      line). The statement fixes the SHAPE of what follows the script's
//      output - exactly one line - whatever the error text is; its wording stays
//      unspecified (c18.go only counts whether it contains the library's text).
//
//   B. scripts that use a NAME NO SCOPE DEFINES: the statement prepares the
//      environment with args, the core builtins and the bundled packages
//      "available" (that is: importable), so a name that is merely the name of
//      a bundled package (strings, os, fmt, json, ...) or of something the
//      command has in its own Go source (e, file, version, flagExecute, ...) is
//      as undefined for the command as it is for vm.Execute: defined("os") is
//      false, strings.ToUpper("a") without an import is a run error. The
//      library driver decides; the scripts print enough for a silently
//      resolved name to show as extra output or a missing diagnostic.
//      Scripts that import the package properly under that very name are mixed in.

import (
	"math/rand"
	"strconv"
	"strings"

	"verifharness/internal/wk"
)

// texts that end up inside an error message. No quote, no backslash: they are
// pasted into anko string literals as they are.
var c18PctTexts = []string{
	"100%", "%", "%d", "%s", "%v", "%!", "%%", "100% full", "50%!", "a%b", "%[1]d", "%-5", "% x", "%5.2f%", "rate: 5 %", "%d items at %s",
	"ünï%", "%!(EXTRA string=x)", "%!d(MISSING)", "%q%", "1%2%3%", "%T", "%+v", "%#x", "%c%", "%*d", "%.", "%\t", "% ",
}

// command line arguments that a script may quote in an error
var c18PctArgs = []string{"100%", "%d", "%s%", "a%b", "%", "50%!", "%v %v", "ok"}

// names nobody defined. pkg: import path when the name is the (last segment
// of the) name of a bundled package, use: an expression that prints something
// when the name did resolve to that package.
type c18Name struct {
	Name string
	Pkg  string
	Use  string
}

var c18UndefNames = []c18Name{
	{"strings", "strings", `println(strings.ToUpper("abc"))`},
	{"strings", "strings", `println(strings.Split("a,b", ","))`},
	{"strconv", "strconv", `println(strconv.Itoa(42))`},
	{"fmt", "fmt", `fmt.Println("via fmt")`},
	{"fmt", "fmt", `println(fmt.Sprintf("%03d", 7))`},
	{"os", "os", `println(os.Getenv("C18_NO_SUCH_VARIABLE") == "")`},
	{"os", "os", `os.Stdout.WriteString("via os\n")`},
	{"time", "time", `println(time.Second)`},
	{"sort", "sort", `println(sort.SearchInts([1, 3, 5], 3))`},
	{"math", "math", `println(math.Abs(-1.5))`},
	{"log", "log", `log.SetFlags(0)`},
	{"regexp", "regexp", `println(regexp.MustCompile("a+").MatchString("caat"))`},
	{"errors", "errors", `println(errors.New("made"))`},
	{"bytes", "bytes", `println(bytes.NewBufferString("buf").String())`},
	{"io", "io", `println(io.EOF)`},
	{"net", "net", `println(net.ParseIP("127.0.0.1"))`},
	{"path", "path", `println(path.Base("a/b.txt"))`},
	{"runtime", "runtime", `println(runtime.GOOS != "")`},
	{"sync", "sync", `println(typeOf(sync))`},
	{"flag", "flag", `println(flag.NArg() >= 0)`},
	{"json", "encoding/json", `println(json.Marshal([1]))`},
	{"ioutil", "io/ioutil", `println(ioutil.ReadFile("nosuch-file.ank"))`},
	{"big", "math/big", `println(big.NewInt(7))`},
	{"rand", "math/rand", `println(rand.Intn(1))`},
	{"http", "net/http", `println(http.StatusOK)`},
	{"cookiejar", "net/http/cookiejar", `println(typeOf(cookiejar))`},
	{"url", "net/url", `println(url.QueryEscape("a b"))`},
	{"exec", "os/exec", `println(typeOf(exec))`},
	{"signal", "os/signal", `println(typeOf(signal))`},
	{"filepath", "path/filepath", `println(filepath.Base("a/b.txt"))`},
	// names of the command's own Go source, of the library's packages, of nothing at all
	{"e", "", `println(typeOf(e))`},
	{"file", "", `println(file)`},
	{"source", "", `println(source)`},
	{"version", "", `println(version)`},
	{"flagExecute", "", `println(flagExecute)`},
	{"flagExecuteSet", "", `println(flagExecuteSet)`},
	{"main", "", `main()`},
	{"env", "", `println(typeOf(env))`},
	{"vm", "", `println(typeOf(vm))`},
	{"core", "", `println(typeOf(core))`},
	{"parser", "", `println(typeOf(parser))`},
	{"packages", "", `println(typeOf(packages))`},
	{"Packages", "", `println(len(Packages))`},
	{"anko", "", `println(anko)`},
	{"argv", "", `println(argv)`},
	{"arg", "", `println(arg)`},
	{"stdout", "", `println(stdout)`},
	{"quit", "", `quit()`},
	{"exit", "", `exit(0)`},
	{"nosuchname", "", `println(nosuchname)`},
}

// uses of a name that do not depend on what it could be
var c18NameUses = []string{
	"println(defined(\"%s\"))",
	"println(\"defined:\", defined(\"%s\"), defined(\"args\"), defined(\"println\"))",
	"%s",
	"println(%s)",
	"println(typeOf(%s))",
	"println(kindOf(%s))",
	"v = %s\nprintln(\"bound\")",
	"var v = %s\nprintln(\"bound\")",
	"v, w = 1, %s\nprintln(\"bound\", v)",
	"println(%s == nil)",
	"println(%s != nil ? \"something\" : \"nil\")",
	"if %s {\n  println(\"truthy\")\n} else {\n  println(\"falsy\")\n}",
	"println([%s])",
	"println(len({\"k\": %s}))",
	"println(func() { return %s }() == nil)",
	"%s()",
	"%s(1, 2)",
	"println(%s.Name)",
	"%s.Name = 1\nprintln(\"stored\")",
	"%s += 1\nprintln(\"added\")",
	"%s++",
	"println(%s[0])",
	"println(len(%s))",
	"for k in %s {\n  println(\"k\", k)\n}\nprintln(\"looped\")",
	"switch %s {\ncase 1:\n  println(\"one\")\ndefault:\n  println(\"other\")\n}",
	"x = make(%s)\nprintln(\"made\")",
	"x = new(%s)\nprintln(\"new\")",
	"x = make([]%s)\nprintln(\"made slice\")",
	"x = make(%s.T)\nprintln(\"made member type\")",
	"func inner() {\n  var %[1]s = 1\n  return defined(\"%[1]s\")\n}\nprintln(inner(), defined(\"%[1]s\"))",
	"module M5 {\n  %[1]s = 5\n}\nprintln(M5.%[1]s, defined(\"%[1]s\"))",
	"func withParam(%[1]s) {\n  return %[1]s\n}\nprintln(withParam(3), defined(\"%[1]s\"))",
	"try {\n  v = %[1]s\n  println(\"no error\")\n} catch err {\n  println(\"caught:\", err)\n}\nprintln(defined(\"%[1]s\"))",
	"println(defined(\"%[1]s\"))\n%[1]s = 7\nprintln(defined(\"%[1]s\"), %[1]s)",
}

func c18Fill(tmpl, name string) string {
	if strings.Contains(tmpl, "%[1]s") {
		return strings.Replace(tmpl, "%[1]s", name, -1)
	}
	return strings.Replace(tmpl, "%s", name, -1)
}

func c18Indent(s, ind string) string {
	return ind + strings.Replace(s, "\n", "\n"+ind, -1)
}

// c18Wrap puts a statement (list) somewhere: top level, a function, a loop, a
// try block whose catch prints, after a partial line. reraise: the catch block
// throws the error again.
func c18Wrap(r *rand.Rand, st string, feat *[]string) string {
	switch r.Intn(9) {
	case 0:
		*feat = append(*feat, "r5:place:function")
		return "func doit() {\n  println(\"in function\")\n" + c18Indent(st, "  ") + "\n  return 1\n}\nprintln(\"before\")\nprintln(doit())"
	case 1:
		*feat = append(*feat, "r5:place:loop")
		return "for li in range(4) {\n  println(\"li\", li)\n  if li == 2 {\n" + c18Indent(st, "    ") + "\n  }\n}"
	case 2:
		*feat = append(*feat, "r5:place:try-catch-prints")
		return "try {\n  println(\"trying\")\n" + c18Indent(st, "  ") + "\n  println(\"no error\")\n} catch err {\n  println(\"caught:\", err)\n}\nprintln(\"after\")"
	case 3:
		*feat = append(*feat, "r5:place:catch-throws-again")
		return "try {\n" + c18Indent(st, "  ") + "\n} catch err {\n  println(\"caught:\", err)\n  throw(err)\n}\nprintln(\"after\")"
	case 4:
		*feat = append(*feat, "r5:place:after-partial-line")
		return "print(\"partial line \")\n" + st
	case 5:
		*feat = append(*feat, "r5:place:closure")
		return "cl = func() {\n" + c18Indent(st, "  ") + "\n}\nprintln(\"calling\")\ncl()\nprintln(\"called\")"
	case 6:
		*feat = append(*feat, "r5:place:finally")
		return "try {\n" + c18Indent(st, "  ") + "\n} catch err {\n  throw(err)\n} finally {\n  println(\"finally\")\n}"
	default:
		*feat = append(*feat, "r5:place:top-level")
		return st
	}
}

// c18PctStmt: a statement that fails with an error whose text carries `text`
func c18PctStmt(r *rand.Rand, text string, feat *[]string, needArg *string) string {
	q := "\"" + strings.Replace(text, "\t", "\\t", -1) + "\""
	switch r.Intn(14) {
	case 0, 1, 2:
		*feat = append(*feat, "r5:route:throw-string")
		return "throw(" + q + ")"
	case 3:
		*feat = append(*feat, "r5:route:throw-go-error")
		return "throw(import(\"errors\").New(" + q + "))"
	case 4:
		*feat = append(*feat, "r5:route:import-missing")
		return "import(" + q + ")"
	case 5:
		*feat = append(*feat, "r5:route:go-error-quotes-operand")
		return "cv, cverr = import(\"strconv\").Atoi(" + q + ")\nprintln(\"converted\", cv)\nthrow(cverr)"
	case 6:
		*feat = append(*feat, "r5:route:throw-through-calls")
		return "func fail2(m) {\n  throw(m)\n}\nfunc fail1(m) {\n  fail2(\"failed: \" + m)\n}\nfail1(" + q + ")"
	case 7:
		*feat = append(*feat, "r5:route:load-missing")
		return "load(\"nosuch-\" + " + q + ")"
	case 8:
		*feat = append(*feat, "r5:route:go-panic")
		return "import(\"regexp\").MustCompile(\"(\" + " + q + ")"
	case 9:
		*feat = append(*feat, "r5:route:errorf")
		return "throw(import(\"fmt\").Errorf(\"%d%%" + r5pick(r, []string{"", " done", "%%"}) + "\", " + strconv.Itoa(r.Intn(101)) + "))"
	case 10:
		*feat = append(*feat, "r5:route:quotes-argument")
		*needArg = c18PctArgs[r.Intn(len(c18PctArgs))]
		return "if len(args) > 0 {\n  throw(\"bad argument: \" + args[0])\n}\nprintln(\"no arguments\")"
	case 11:
		*feat = append(*feat, "r5:route:duration")
		return "dv, dverr = import(\"time\").ParseDuration(" + q + ")\nthrow(dverr)"
	case 12:
		*feat = append(*feat, "r5:route:text-computed")
		return "pct = \"%\"\nthrow(\"used \" + toString(" + strconv.Itoa(r.Intn(101)) + ") + pct" + r5pick(r, []string{"", " + \" of quota\"", " + pct"}) + ")"
	default:
		*feat = append(*feat, "r5:route:throw-string-twice")
		return "try {\n  throw(" + q + ")\n} catch first {\n  throw(\"again: \" + toString(first))\n}"
	}
}

func r5pick(r *rand.Rand, xs []string) string { return xs[r.Intn(len(xs))] }

// c18GenR5 builds one script of family A or B; args are the arguments it is run with.
func c18GenR5(r *rand.Rand) (c18Script, []string) {
	var feat []string
	var stmts []string
	args := c18GenArgs(r)
	for i, n := 0, r.Intn(3); i < n; i++ {
		stmts = append(stmts, r5pick(r, []string{"println(\"start\")", "println(\"100% sure\", 1)", "printf(\"%d%%\\n\", 42)", "x0 = 5", "strings0 = import(\"strings\")\nprintln(strings0.ToUpper(\"up\"))"}))
	}
	if r.Intn(100) < 45 {
		// family A
		text := c18PctTexts[r.Intn(len(c18PctTexts))]
		switch r.Intn(6) {
		case 0:
			text = "quota " + text
		case 1:
			text = text + " " + c18PctTexts[r.Intn(len(c18PctTexts))]
		case 2:
			text = strconv.Itoa(r.Intn(101)) + "%"
		}
		if r.Intn(12) == 0 {
			// an error text of two lines (excluded while c18PendingFix_multiLineDiagnostic)
			text += "\\nsecond line"
			feat = append(feat, "r5:text:two-lines")
		}
		if strings.HasSuffix(text, "%") {
			feat = append(feat, "r5:text:ends-in-percent")
		} else {
			feat = append(feat, "r5:text:percent-inside")
		}
		needArg := ""
		st := c18PctStmt(r, text, &feat, &needArg)
		if needArg != "" {
			args = append([]string{needArg}, args...)
			if len(args) > 3 {
				args = args[:3]
			}
		}
		stmts = append(stmts, c18Wrap(r, st, &feat))
	} else {
		// family B
		nm := c18UndefNames[r.Intn(len(c18UndefNames))]
		var st string
		switch k := r.Intn(10); {
		case k < 4:
			feat = append(feat, "r5:name:package-style-use")
			st = nm.Use
		case k < 9:
			feat = append(feat, "r5:name:generic-use")
			st = c18Fill(c18NameUses[r.Intn(len(c18NameUses))], nm.Name)
		default:
			if nm.Pkg != "" {
				// the proper script: imports under that very name, then uses it
				feat = append(feat, "r5:name:imported-properly")
				st = "println(defined(\"" + nm.Name + "\"))\n" + nm.Name + " = import(\"" + nm.Pkg + "\")\n" + nm.Use + "\nprintln(defined(\"" + nm.Name + "\"))"
			} else {
				feat = append(feat, "r5:name:defined-by-script")
				st = nm.Name + " = \"mine\"\nprintln(" + nm.Name + ", defined(\"" + nm.Name + "\"))"
			}
		}
		if nm.Pkg != "" {
			feat = append(feat, "r5:name:bundled-package")
		} else {
			feat = append(feat, "r5:name:other")
		}
		stmts = append(stmts, c18Wrap(r, st, &feat))
		if r.Intn(3) == 0 {
			o := c18UndefNames[r.Intn(len(c18UndefNames))]
			stmts = append(stmts, "println(\"also\", defined(\""+o.Name+"\"))")
		}
	}
	if r.Intn(2) == 0 {
		stmts = append(stmts, "println(\"end\")")
	}
	src := strings.Join(stmts, "\n")
	if r.Intn(8) > 0 {
		src += "\n"
	}
	return c18Script{Src: src, Feats: feat, UsesArgs: strings.Contains(src, "args")}, args
}

// hand-written members of both families (run first in the phase, each with no
// arguments and with two)
var c18FixedR5 = []c18Fixed{
	{Name: "throw-text-ends-in-percent", Src: "println(\"loading\")\nthrow(\"disk is at 100%\")\n"},
	{Name: "throw-text-percent-inside", Src: "throw(\"100% full\")\n"},
	{Name: "throw-text-is-a-verb", Src: "println(\"a\")\nthrow(\"%d\")\n"},
	{Name: "throw-text-percent-s-then-percent", Src: "throw(\"%s and %\")\n"},
	{Name: "throw-text-percent-bang", Src: "throw(\"what%!\")\n"},
	{Name: "throw-single-percent", Src: "print(\"partial \")\nthrow(\"%\")\n"},
	{Name: "import-name-with-percent", Src: "println(\"a\")\nimport(\"no%such\")\n"},
	{Name: "import-name-ends-in-percent", Src: "import(\"pkg%\")\n"},
	{Name: "go-error-quotes-percent", Src: "strconv = import(\"strconv\")\nn, err = strconv.Atoi(\"%d\")\nprintln(n)\nthrow(err)\n"},
	{Name: "errorf-percent-in-function", Src: "fmt = import(\"fmt\")\nfunc check(n) {\n  if n > 90 {\n    throw(fmt.Errorf(\"%d%%\", n))\n  }\n  return n\n}\nprintln(check(50))\nprintln(check(95))\n"},
	{Name: "argument-with-percent-in-error", Src: "if len(args) > 0 {\n  throw(\"bad argument \" + args[len(args)-1] + \"%\")\n}\nthrow(\"no argument, 0%\")\n", Args: true},
	{Name: "percent-error-caught", Src: "try {\n  throw(\"100%\")\n} catch e {\n  println(\"caught:\", e)\n}\nprintln(\"fine\")\n"},
	{Name: "two-line-error-text", Src: "println(\"a\")\nthrow(\"first line\\nsecond line\")\n"},
	{Name: "forgotten-import-strings", Src: "println(\"start\")\nprintln(strings.ToUpper(\"abc\"))\nprintln(\"never\")\n"},
	{Name: "forgotten-import-fmt", Src: "fmt.Println(\"hello\")\n"},
	{Name: "forgotten-import-in-function", Src: "func up(s) {\n  return strings.ToUpper(s)\n}\nprintln(\"start\")\nprintln(up(\"abc\"))\n"},
	{Name: "forgotten-import-caught", Src: "try {\n  println(time.Second)\n  println(\"no error\")\n} catch e {\n  println(\"caught:\", e)\n}\nprintln(\"after\")\n"},
	{Name: "defined-package-names", Src: "println(defined(\"os\"), defined(\"strings\"), defined(\"fmt\"), defined(\"time\"), defined(\"json\"), defined(\"args\"))\n"},
	{Name: "defined-before-and-after-import", Src: "println(defined(\"sort\"))\nsort = import(\"sort\")\nprintln(defined(\"sort\"), sort.SearchInts([1, 3, 5], 3))\n"},
	{Name: "package-name-bare", Src: "println(\"a\")\nos\nprintln(\"b\")\n"},
	{Name: "package-name-as-type", Src: "println(\"a\")\nx = make(strings)\nprintln(\"b\")\n"},
	{Name: "command-internal-names", Src: "println(defined(\"e\"), defined(\"file\"), defined(\"version\"), defined(\"flagExecute\"), defined(\"source\"), defined(\"main\"))\n"},
	{Name: "command-internal-name-used", Src: "println(\"a\")\nprintln(version)\n"},
	{Name: "import-under-another-name", Src: "s = import(\"strings\")\nprintln(s.ToUpper(\"abc\"), defined(\"strings\"), defined(\"s\"))\nprintln(strings.ToLower(\"ABC\"))\n"},
}

func c18RunR5(x *c18Ctx, c *wk.Case) {
	if c.Index < len(c18FixedR5) {
		fx := c18FixedR5[c.Index]
		sc := &c18Script{Src: fx.Src, UsesArgs: fx.Args}
		c.Tag("fixed:" + fx.Name)
		argsets := [][]string{{}, {"x", "y"}}
		if fx.Args {
			argsets = [][]string{{}, {"a"}, {"50%", "b c"}, {"%d"}, {"x", "%"}}
		}
		for i, as := range argsets {
			eForm := "e"
			if (c.Index+i)%3 == 2 {
				eForm = "e="
			}
			x.runScript(sc, as, c18FileNames[(c.Index+i)%len(c18FileNames)], eForm)
		}
		return
	}
	r := c.Rng
	sc, args := c18GenR5(r)
	for _, f := range sc.Feats {
		c.Tag("feat:" + f)
	}
	eForm := "e"
	if r.Intn(6) == 0 {
		eForm = "e="
	}
	x.runScript(&sc, args, c18FileNames[r.Intn(len(c18FileNames))], eForm)
}
