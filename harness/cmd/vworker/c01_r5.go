package main

// C01 workload, part 4 (round 5):
//   * equality between two values of ONE comparable static type whose
//     interface-typed parts hold values Go cannot compare (lists, maps,
//     functions, structs holding such): script structs with `interface` fields,
//     pointers to variables (&x is a *interface{}), pointers to such structs,
//     nested structs, host-bound arrays of interface elements - under ==, !=, in,
//     switch, as map keys, in every position an expression is evaluated from
//     (completely crossed in the "cross" phase, mixed into the random templates);
//   * dotted type paths of every length up to four whose elements are real
//     modules, nil modules (zero value of a type defined from a module), bindings
//     that are no module, and undefined names - at every position of the path, in
//     every place a type can be written (completely enumerated in "cross");
//   * the SAME expression node evaluated repeatedly at top level on operands of
//     different types: loops (for-in, counting, conditional, nested, inside go)
//     over lists of records of different shapes (script structs whose field order
//     and count differ, pointers to structs, maps, modules, a caught error) and of
//     values of every kind, with member reads / stores / calls / increments and
//     every unary, binary, index and call form in the body; and the same PARSED
//     program run again and again (vm.RunContext) while a name it reads is bound
//     to records of different shapes in between. Completely crossed for pairs in
//     "cross"; in "fuzz" every case adds loops whose body is a random template.
// The oracle is the statement's: the call returns (no panic reaches the caller)
// and the hosting process stays alive. Errors, wrong values and refused
// operations are none of this property's business.

import (
	"context"
	"fmt"
	"math/rand"
	"regexp"
	"strings"
	"time"

	"github.com/mattn/anko/ast"
	"github.com/mattn/anko/env"

	"verifharness/internal/ank"
	"verifharness/internal/wk"
)

// c01PreludeR5 runs after the type prelude (it needs vMod, vTMod, vFunc, vIStruct).
const c01PreludeR5 = `
vEqA = make(struct{Tag interface, N int64})
vEqA.Tag = [1, 2]
vEqB = make(struct{Tag interface, N int64})
vEqB.Tag = [1, 2]
vEqD = make(struct{Tag interface, N int64})
vEqD.Tag = [1]
vEqM = make(struct{Tag interface, N int64})
vEqM.Tag = {"k": 1}
vEqM2 = make(struct{Tag interface, N int64})
vEqM2.Tag = {"k": 1}
vEqF = make(struct{Tag interface, N int64})
vEqF.Tag = vFunc
vEqS = make(struct{Tag interface, N int64})
vEqS.Tag = 1
vEqI = make(struct{Tag interface, N int64})
vEqI.Tag = vIStruct
vEqNest = make(struct{In struct{Tag interface}, K string})
vEqNest.In.Tag = [1]
vEqNest2 = make(struct{In struct{Tag interface}, K string})
vEqNest2.In.Tag = [1]
vEqP = new(struct{Tag interface})
vEqP.Tag = [1]
vEqP2 = new(struct{Tag interface})
vEqP2.Tag = [1]
vEqTwo = make(struct{T interface, U interface})
vEqTwo.T = "s"
vEqTwo.U = {}
vEqTwo2 = make(struct{T interface, U interface})
vEqTwo2.T = "s"
vEqTwo2.U = {}
vL1 = [1, 2]
vL2 = [1, 2]
vM1 = {"k": 1}
vM2 = {"k": 1}
vF1 = vFunc
vRecW = make(struct{Id int64, Weight float64, Name string, A []int64, Tag interface})
vRecW.Name = "wide"
vRecN = make(struct{Name string})
vRecN.Name = "narrow"
vRecR = make(struct{Tag interface, Name string, Id int64})
vRecR.Tag = [1]
vRecL = make(struct{Label string, X int64, Message string, Pos int64})
vRecX = make(struct{X int64, Y int64, Label string, Name []string, Id string})
vRecP = new(struct{A int64, Name string})
vRecQ = new(struct{Name string, B string, A int64, Message string})
vRecM = {"Name": "m", "Id": 1, "A": [1], "Tag": nil, "Message": 2}
module vRecMod { Name = "mod"; Id = 2; A = [1]; Tag = [1]; func Message() { return 1 } }
vCChan = make(chan int64, 1)
vCChan <- 1
close(vCChan)
vRecE = nil
try { throw "boom" } catch e { vRecE = e }
make(type TModR5, vMod)
vNone = make([]TModR5, 1)[0]
module vReg {
	cur = vTMod
	none = make([]TModR5, 1)[0]
	x = 1
	make(type RT, 1.5)
	module sub {
		var cur = vTMod
		var none = make([]TModR5, 1)[0]
		var x = "s"
		make(type ST, "s")
	}
}
`

var c01PreludeStmtR5 ast.Stmt

// every name c01DefineR5 binds matches this
var c01NamesR5 = regexp.MustCompile(`vEq|vRec|vReg|vNone|vL[12]|vM[12]|vF1|vCChan|hArrL|TModR5`)

// operands of one comparable static type each (several of them share a type)
// whose interface-typed parts hold what Go's == refuses at run time; with a few
// harmless ones of the same types for comparison
var c01EqOperands = []string{"vEqA", "vEqB", "vEqD", "vEqM", "vEqM2", "vEqF", "vEqS", "vEqI", "vEqNest", "vEqNest2", "vEqP", "vEqP2", "vEqTwo", "vEqTwo2",
	"&vL1", "&vL2", "&vM1", "&vM2", "&vF1", "&vInt", "vIStruct", "vBoxed[2]", "hArrL", "hArrL2", "*vEqP", "vEqNest.In", "[vEqA][0]", "gId(vEqB)"}

// records of different shapes: the same field names at different indices, in
// structs with different numbers of fields, behind pointers, as map keys, as
// module members, and the fields of a caught error
var c01RecOperands = []string{"vRecW", "vRecN", "vRecR", "vRecL", "vRecX", "vRecP", "vRecQ", "vRecM", "vRecMod", "vRecE", "vStruct", "vIStruct", "vNStruct", "vPStruct", "vEqA", "vEqNest", "*vRecP", "gId(vRecN)", "make(TStruct)", "vNone"}

var c01RecNames = []string{"Name", "Id", "A", "Tag", "Weight", "Message", "Pos", "Label", "X", "Y", "B", "C", "S", "M", "P", "N", "In", "x"}

// one value of every kind (no blocking operation is applied to them)
var c01KindOperands = []string{"nil", "true", "3", "-1", "2.5", "\"s\"", "\"12\"", "[1, \"a\"]", "{\"a\": 1}", "vTSlice", "vTStr", "vTMap", "vStruct", "vRecN", "vPtr", "vPStruct", "vCChan", "vFunc", "vFuncV", "vMod", "vU64s[1]", "hU8", "hF32", "hArr", "vBytes", "vS2", "gNilErr()", "toDuration(1)", "vNone", "gId"}

// what is done to the loop variable v (one node each; none of them blocks)
var c01KindBody = []string{"v + 1", "1 + v", "v + v", "v - 1", "v * 2", "2 * v", "v / 2", "v % 2", "v & 1", "v | 1", "v << 1", "1 >> v", "v == 1", "v != v", "v == \"12\"", "v < 2", "2 >= v", "v && true", "v || false", "v ?? 1", "v ? 1 : 2", "v in [1, \"s\"]", "1 in v",
	"-v", "!v", "^v", "*v", "&v", "len(v)", "v[0]", "v[1:]", "v[:1]", "v[\"a\"]", "v.a", "v.A", "v.x", "v()", "v(1)", "v(1, 2)", "v([1]...)", "w = v; w++; w", "w = v; w += 1; w", "w = v; w[0] = 1; w", "w = v; w.a = 1; w", "for k in v { break }", "for k, e in v { break }",
	"switch v { case 1: 1\ncase \"s\": 2 }", "[v, v]", "{\"k\": v}", "{v: 1}", "[]int64{v}", "[]string{v}", "map[string]int64{\"k\": v}", "toString(v)", "toInt(v)", "toBool(v)", "typeOf(v)", "keys(v)", "gId(v)", "gAdd(v, 1)", "gSl(v)", "gVarT(v)", "vFunc(v)", "vFuncV(v...)", "throw v", "make(type PT, v); make(PT)", "delete(v, \"a\")", "close(v)"}

var c01PathFirst = []string{"vReg", "vNone", "vTMod", "vInt", "nosuch"}
var c01PathMid = []string{"cur", "none", "sub", "x", "nosuch"}
var c01PathLast = []string{"MT", "RT", "ST", "none", "cur", "nosuch"}

// every place a type path can be written; P is the path
var c01PathForms = []string{"make(P)", "new(P)", "[]P{}", "[]P{1, 2}", "[][]P{}", "map[string]P{}", "map[string]P{\"a\": 1}", "map[P]string{}", "make(map[P]P)", "make(chan P, 1)", "make(chan P)", "make([]P, 1)", "make([]P, 1, 2)", "make(*P)", "new([]P)",
	"make(struct{A P})", "make(struct{A []P, B map[string]P})", "make(type PX, make(P)); make(PX)", "func() { return make(P) }()", "go func() { make(P) }()", "defer func() { new(P) }()", "for i = 0; i < 2; i++ { make(P) }", "for v in [1, 2] { []P{v} }",
	"if true { make(P) }", "x = [make(P)]", "gId(make(P))", "switch 1 { case 1: make(P) }", "module pm { y = make(P) }"}

func c01RandPath(r *rand.Rand) string {
	p := c01Pick(r, c01PathFirst)
	for n := r.Intn(3); n > 0; n-- {
		p += "." + c01Pick(r, c01PathMid)
	}
	return p + "." + c01Pick(r, c01PathLast)
}

// c01HoleR5 fills the holes of this part of the workload (called by c01Hole):
// $G operand for an equality, $R record, $D member name, $P dotted type path
func c01HoleR5(r *rand.Rand, h string) (string, bool) {
	switch h {
	case "$G":
		return c01Pick(r, c01EqOperands), true
	case "$R":
		return c01Pick(r, c01RecOperands), true
	case "$D":
		return c01Pick(r, c01RecNames), true
	case "$P":
		return c01RandPath(r), true
	}
	return "", false
}

var c01R5Templates = []string{
	// equality, membership, switch and map-key uses of values whose interface-typed parts hold uncomparable values
	"$G == $G", "$G != $G", "$G in [$G]", "$G in [$A, $G, $G]", "switch $G { case $G: 1 }", "switch $G { case $A, $G: 1\ndefault: 2 }", "[$G] == [$G]", "{\"k\": $G} != {\"k\": $G}", "$G == $A", "$A != $G", "$A in [$G, $G]",
	"{$G: 1}", "m = {}; m[$G] = 1; m[$G]", "delete(vMap, $G)", "map[interface]interface{$G: $G}", "m = make(map[interface]int64); m[$G]++; m[$G] += 1", "vMap[$G]", "$G in {$G: 1}", "keys({$G: 1})",
	"x = $G; x.Tag = $A; x == $G", "x = $G; y = x; y.Tag = $A; x != y", "p = &$A; q = &$B; p == q", "p = &$A; p in [&$B, &$A]", "x = $A; y = $A; &x == &y", "x = $A; switch &x { case &x: 1 }",
	"s = make(struct{T interface, U interface}); s.T = $A; s.U = $B; t = s; s == t", "s = make(struct{T interface}); t = make(struct{T interface}); s.T = $A; t.T = $A; s in [t]", "s = new(struct{T interface}); t = new(struct{T interface}); s.T = $A; t.T = $B; s != t",
	"s = make(struct{In struct{T interface}}); t = make(struct{In struct{T interface}}); s.In.T = $A; t.In.T = $A; switch s { case t: 1 }", "c = make(chan interface, 2); c <- $G; c <- $G; (<- c) == (<- c)", "go vFunc($G == $G)", "defer vFunc($G != $G)", "for i = 0; i < 2; i++ { $G == $G }",
	"make(type TG, $G); x = make(TG); y = make(TG); x.Tag = $A; y.Tag = $A; x == y", "gSort([$G, $G], func(a, b) { return a == b })",
	// dotted type paths through modules, nil modules and things that are no module
	"make($P)", "new($P)", "[]$P{}", "[]$P{$A}", "map[string]$P{}", "map[$P]$P{}", "make(chan $P, 1)", "make([]$P, $A)", "make(struct{A $P})", "make(type X, make($P)); make(X)", "for v in [1, 2] { make($P) }", "go func() { make($P) }()",
	"module mp { none = vNone; module deep { var none = vNone; make(type DT, 1) } }; make(mp.none.DT); make(mp.deep.none.DT); make(mp.deep.DT)", "module mp { n = $A }; make(mp.n.MT)", "module mp { n = $A; module q { var n = $B } }; []mp.q.n.MT{}",
	"x = vReg; x.cur = vNone; make(x.cur.MT)", "vReg.cur = $A; make(vReg.cur.MT)", "vReg.sub = vNone; new(vReg.sub.cur.MT)", "$A.none.MT", "vReg.none.x", "vReg.none.x = $A", "vReg.sub.none.y()", "x = vReg.none; x.y",
	// the same node applied to records of different shapes
	"for v in [$R, $R] { try { v.$D } catch e { } }", "for v in [$R, $R, $R] { try { v.$D; v.$D } catch e { } }", "for v in [$R, $A, $R] { try { v.$D = $B } catch e { } }", "l = [$R, $R]; for i = 0; i < 2; i++ { try { l[i].$D } catch e { } }", "for v in [$R, $R] { try { v.$D.$D } catch e { } }",
	"for v in [$R, $R] { try { v.$D() } catch e { } }", "for v in [$R, $R] { try { v.$D++ } catch e { } }", "for v in [$R, $R] { try { v.$D += $A } catch e { } }", "for v in [$R, $R] { try { v.$D[0] } catch e { } }", "for v in [$R, $R] { try { v.$D[0] = $A } catch e { } }", "for v in [$R, $R] { try { x = &v.$D } catch e { } }",
	"for k, v in {\"a\": $R, \"b\": $R} { try { v.$D } catch e { } }", "i = 0; for i < 2 { v = [$R, $R][i]; i++; try { v.$D } catch e { } }", "go func() { for v in [$R, $R] { try { v.$D } catch e { } } }()", "for r = 0; r < 2; r++ { for v in [$R, $R] { try { v.$D = v.$D } catch e { } } }",
	"c = make(chan interface, 2); c <- $R; c <- $R; close(c); for v in c { try { v.$D } catch e { } }", "for v in [$R, $R] { try { gId(v).$D; [v][0].$D } catch e { } }", "for v in [$R, $R] { try { switch v.$D { case v.$D: 1 } } catch e { } }", "for v in [$R, $R] { try { make(v.$D) } catch e { } }",
}

// representatives of the generated classes, run once in case 0
var c01R5Fixed = []string{
	"vEqM == vEqM2", "vEqF != vEqF", "vEqNest in [vEqNest2]", "switch vEqP { case vEqP2: 1 }", "&vM1 == &vM2", "vEqI == vEqI", "hArrL == hArrL2",
	"make(vReg.none.MT)", "[]vReg.sub.none.ST{}", "new(vReg.none.sub.ST)", "make(chan vReg.none.none.MT, 1)", "map[string]vReg.sub.none.x.MT{}",
	"for v in [vRecW, vRecN, vRecR] { try { v.Name; v.Id; v.Tag } catch e { } }", "l = [vRecL, vRecE]; for i = 0; i < 2; i++ { try { l[i].Message } catch e { } }", "for v in [vRecQ, vRecP, vRecM, vRecMod] { try { v.A = 1 } catch e { } }",
}

// c01RuleR5 / c01AssumptionsR5 extend the plan's texts (see c01.go).
const c01RuleR5 = " Round 5: the environment also holds pairs of values of one comparable static type whose interface-typed parts hold values Go's == refuses (script structs with interface fields holding lists/maps/functions/such structs, nested structs, pointers to them, host-bound arrays of interface elements; &x of variables holding lists/maps/functions), records of different shapes (script structs with the same field names at different positions and with different field counts, pointers to structs, a map, a module, a caught error) and a module that holds a nil module, another module and a module type at two depths. Random templates compare / look up / switch over / use as map keys the first, write type paths of 2..4 elements (modules, nil modules, non-modules, undefined names at every position) wherever a type can be written, and loop over lists of records with a member read / store / call / increment in the body; every fuzz case also adds 6 scripts that run a random template 2..4 times in a top-level loop (for-in or counting) with its first operand hole bound to the loop variable, which takes operands of different kinds and records of different shapes. Phase cross additionally enumerates: every ordered pair of the 28 equality operands x 22 forms (==, !=, in, switch, nested in lists/maps, map key uses, from every evaluation position); every type path of length 2..4 over 5 first x 5 middle x 6 last elements x 28 positions of a type; every ordered pair of 20 records x 7 loop forms over all 18 member names; every ordered pair of 30 values of all kinds x 68 unary/binary/index/call/literal forms in a loop body; and for every record one parsed program (reads, stores, calls of all member names of r) that is run again by vm.RunContext after r was rebound to each other record in turn."

var c01AssumptionsR5 = []string{
	"loops over values of different kinds apply no blocking operation (receive, send to a full channel) to the loop variable: the verdict never depends on a watchdog",
	"host-bound arrays of interface elements (hArrL) stand with the other Go arrays the environment binds: a script cannot build one, the host can hand one in",
	"re-running one parsed program (vm.RunContext on the same statement) in an environment whose bindings changed in between is taken as 'executing a source text' in another environment of the stated class",
}

func c01DefineR5(e *env.Env) {
	e.Define("hArrL", [2]interface{}{[]interface{}{int64(1)}, map[string]interface{}{"k": int64(1)}})
	e.Define("hArrL2", [2]interface{}{[]interface{}{int64(1)}, map[string]interface{}{"k": int64(1)}})
	c01RunPrelude(e, &c01PreludeStmtR5, c01PreludeR5)
}

func init() {
	c01Operands = append(c01Operands, "vEqA", "vEqB", "vEqM", "vEqF", "vEqNest", "vEqP", "&vL1", "&vL2", "&vM1", "hArrL", "vRecW", "vRecN", "vRecR", "vRecL", "vRecP", "vRecQ", "vRecM", "vRecMod", "vRecE", "vReg", "vReg.none", "vReg.sub", "vReg.sub.none", "vNone", "vReg.cur")
	c01BaseTypes = append(c01BaseTypes, "vReg.cur.MT", "vReg.none.MT", "vReg.sub.none.ST", "vReg.none.sub.ST", "vReg.sub.ST", "vReg.RT", "vNone.MT", "vReg.none", "TModR5")
	c01Templates = append(c01Templates, c01R5Templates...)
	c01Fixed = append(c01Fixed, c01R5Fixed...)
	c01SoupTokens = append(c01SoupTokens, "vEqA", "vEqB", "vReg", "none", "vRecW", "vRecN", "Name", ".none.MT", "&vL1")
}

// ---- fuzz phase: a random template as the body of a top-level loop ----

// c01PolyScript writes a loop that evaluates one random template 2..4 times,
// its $A holes bound to the loop variable, which takes a different operand in
// every round. try keeps a run error of one round from ending the loop; it does
// not stand between a Go panic and the caller.
func c01PolyScript(r *rand.Rand) string {
	n := 2 + r.Intn(3)
	ops := make([]string, n)
	for i := range ops {
		switch x := r.Intn(10); {
		case x < 4:
			ops[i] = c01Pick(r, c01RecOperands)
		case x < 6:
			ops[i] = c01Pick(r, c01KindOperands)
		default:
			ops[i] = c01Fill(r, "$A")
		}
	}
	list := "[" + strings.Join(ops, ", ") + "]"
	body := func(v string) string {
		tpl := c01Templates[r.Intn(len(c01Templates))]
		for try := 0; try < 5 && !strings.Contains(tpl, "$A"); try++ {
			tpl = c01Templates[r.Intn(len(c01Templates))] // one that has a hole for the loop variable
		}
		return c01Fill(r, strings.ReplaceAll(tpl, "$A", v))
	}
	switch r.Intn(5) {
	case 0:
		return "pl = " + list + "\nfor pi = 0; pi < len(pl); pi++ {\n\ttry { " + body("pl[pi]") + " } catch pe { }\n}"
	case 1:
		return "for pv in " + list + " {\n\ttry { " + body("pv") + " } catch pe { }\n\ttry { " + body("pv") + " } catch pe { }\n}"
	case 2:
		return "for pv in " + list + " {\n\ttry { pv." + c01Pick(r, c01RecNames) + "; " + body("pv") + " } catch pe { }\n}"
	default:
		return "for pv in " + list + " {\n\ttry { " + body("pv") + " } catch pe { }\n}"
	}
}

// ---- cross phase: complete enumerations of this part ----

const c01ReuseMark = "# one parsed program, run again after each '# bind' line was executed in the same environment\n"

func c01BuildCrossR5() []string {
	var out []string
	// (5) every ordered pair of equality operands x every form
	var stmts []string
	for _, a := range c01EqOperands {
		for _, b := range c01EqOperands {
			stmts = append(stmts, a+" == "+b, a+" != "+b, a+" in ["+b+"]", a+" in [1, "+b+", "+a+"]", "switch "+a+" { case "+b+": 1 }", "switch "+a+" { case 1, "+b+": 1\ndefault: 2 }", "["+a+"] == ["+b+"]", "{\"k\": "+a+"} != {\"k\": "+b+"}",
				"x = "+a+"; y = "+b+"; x == y", "for i = 0; i < 2; i++ { "+a+" == "+b+" }", "go vFunc("+a+" == "+b+")", "defer vFunc("+a+" != "+b+")", "if "+a+" == "+b+" { 1 }", a+" != "+b+" ? 1 : 2", "func() { return "+a+" == "+b+" }()", "vFuncV("+a+" == "+b+", "+a+" in ["+b+"])",
				"m = {}; m["+a+"] = 1; m["+b+"]", "{"+a+": 1, "+b+": 2}", "delete(vMap, "+a+"); vMap["+b+"]", "map[interface]interface{"+a+": "+b+"}", "m = make(map[interface]int64); m["+a+"] = 1; m["+b+"]++", a+" in {"+b+": 1}")
		}
	}
	c01Pack(&out, stmts, 11)
	// (6) every type path of length 2..4 x every position of a type
	stmts = nil
	var paths []string
	for _, f := range c01PathFirst {
		for _, l := range c01PathLast {
			paths = append(paths, f+"."+l)
			for _, m1 := range c01PathMid {
				paths = append(paths, f+"."+m1+"."+l)
				for _, m2 := range c01PathMid {
					paths = append(paths, f+"."+m1+"."+m2+"."+l)
				}
			}
		}
	}
	for _, p := range paths {
		for _, f := range c01PathForms {
			stmts = append(stmts, strings.ReplaceAll(f, "P", p))
		}
	}
	c01Pack(&out, stmts, 14)
	// (7) every ordered pair of records x loop form, all member names in the body
	loop := func(use func(name string) string) string {
		var b strings.Builder
		for _, n := range c01RecNames {
			b.WriteString("\ttry { " + use(n) + " } catch e { }\n")
		}
		return b.String()
	}
	reads := loop(func(n string) string { return "v." + n })
	for _, a := range c01RecOperands {
		for _, b := range c01RecOperands {
			l := "[" + a + ", " + b + "]"
			out = append(out,
				"for v in "+l+" {\n"+reads+"}",
				"l = "+l+"\nfor i = 0; i < len(l); i++ {\n"+loop(func(n string) string { return "l[i]." + n })+"}",
				"for v in "+l+" {\n"+loop(func(n string) string { return "v." + n + " = v." + n })+"}",
				"for v in "+l+" {\n"+loop(func(n string) string {
					return "v." + n + "(); v." + n + "++; v." + n + "[0]; v." + n + ".Tag; len(v." + n + ")"
				})+"}",
				"l = "+l+"\ni = 0\nfor i < 2 {\n\tv = l[i]\n\ti++\n"+reads+"}",
				"for r = 0; r < 2; r++ {\nfor k, v in {\"a\": "+a+", \"b\": "+b+"} {\n"+reads+"}\n}",
				"done = make(chan bool, 1)\ngo func() {\nfor v in "+l+" {\n"+reads+"}\ndone <- true\n}()\n<- done")
		}
	}
	all := "[" + strings.Join(c01RecOperands, ", ") + "]"
	out = append(out, "for v in "+all+" {\n"+reads+"}", "for r = 0; r < 3; r++ {\nfor v in "+all+" {\n"+reads+"}\n}",
		"l = "+all+"\nfor i = len(l) - 1; i >= 0; i-- {\n"+loop(func(n string) string { return "l[i]." + n + " = l[i]." + n })+"}")
	// (8) every ordered pair of values of all kinds x every node form in a loop body
	var kb strings.Builder
	for _, s := range c01KindBody {
		kb.WriteString("\ttry { " + s + " } catch e { }\n")
	}
	for _, a := range c01KindOperands {
		for _, b := range c01KindOperands {
			out = append(out, "for v in ["+a+", "+b+"] {\n"+kb.String()+"}")
		}
	}
	// (9) one parsed program run again while the record it reads is rebound
	prog := loop(func(n string) string { return "r." + n + "; r." + n + " = r." + n + "; r." + n + "()" })
	for _, a := range c01RecOperands {
		var b strings.Builder
		b.WriteString(c01ReuseMark + prog)
		for _, o := range c01RecOperands {
			b.WriteString("# bind r = " + a + "\n# bind r = " + o + "\n")
		}
		out = append(out, b.String())
	}
	return out
}

// c01RunCrossItem runs one enumerated input: a script, or a reuse job.
func c01RunCrossItem(c *wk.Case, item string) {
	if !strings.HasPrefix(item, c01ReuseMark) {
		c01RunOne(c, item, 2*time.Second)
		return
	}
	var prog, binds []string
	for _, ln := range strings.Split(item[len(c01ReuseMark):], "\n") {
		if strings.HasPrefix(ln, "# bind ") {
			binds = append(binds, ln[len("# bind "):])
		} else {
			prog = append(prog, ln)
		}
	}
	e := c01NewEnv()
	c.Begin(item)
	stmt, perr, po := ank.Parse(strings.Join(prog, "\n"))
	c.Eval(item, perr == nil)
	c.Events(len(binds))
	if po.Panicked {
		c.Violation(po.PanicSig, "a Go panic reached the caller of the parser: "+po.PanicVal, item)
		return
	}
	if perr != nil {
		c.Inconclusive("reuse-program-does-not-parse", perr.Error(), item)
		return
	}
	for i, b := range binds {
		ctx, cancel := context.WithTimeout(context.Background(), 2*time.Second)
		o := ank.ExecCtx(ctx, e, b)
		if !o.Panicked {
			o = ank.RunCtx(ctx, e, stmt)
		}
		cancel()
		if o.Panicked {
			c.Tag("outcome:panic")
			c.Violation(o.PanicSig, fmt.Sprintf("a Go panic reached the caller in run %d (after '%s') of one parsed program: %s\n%s", i+1, b, o.PanicVal, firstLinesOf(o.Stack, 14)), item)
			return
		}
	}
	c.Tag("outcome:reuse-returned")
}
