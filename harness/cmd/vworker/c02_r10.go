package main

// C02, round 10: the interruption arrives at one particular point of a multi-step evaluation.
//
// phase operand: ONE operand of a multi-operand expression / statement can only end by the
// interruption (a script function - reached through every call path - in which a host function
// cancels the context synchronously, or which spins / blocks when the asynchronous cancel lands; a
// receive expression on a channel nobody sends on; a callback a host function invokes), and the
// OTHER operands of the same construct are cheap reads (identifier, len(x), member, arithmetic on
// them, literals). Whatever the construct does with its other operands after the interruption was
// raised, (a) the call has to return "execution interrupted" (the construct is the last thing of
// the run in half of the runs, so nothing that follows can repair a lost interruption) and (b) the
// statement must have no further host-visible effect: the host function rec(), which every
// consumer of the value ends in, must not be called at all - the operand never yields a value, so
// a call of rec() proves that the construct went on without one.
//
// Oracle: c02R8Exec (return, error text, probe budget, goroutine-state classification) with a probe
// budget of the wrappers only, plus "rec() was never called" under the ran-on signature.

import (
	"fmt"
	"strings"
	"sync/atomic"
	"time"

	"verifharness/internal/fw"
	"verifharness/internal/wk"
)

const c02R10Rule = " Round 10 (c02_r10.go, same oracle): " +
	"phase operand: a construct with several operands (slice expressions a[F:n], a[F:len(a)], a[F:n:len(a)], a[0:F], string slices, index / map index, script / host / variadic / anonymous / member call arguments in first, middle and last position, list and map literals, arithmetic / string / comparison / logical chains with the operand left, right and in the middle, unary operators, ternary condition and arms, both sides of ??, `in`, len(), make() length and capacity, member of a literal; the same constructs with a call of the host function rec() as the later operand; as statements: slice / index / map-index / member assignment targets, op-assignment and ++ on an indexed target, several targets, delete) in which the operand F can only end by the interruption - F out of: script functions of 0/1/6/variadic parameters, lambda variable, anonymous function, map member, module function, a function whose return expression calls the interrupted one, a callback invoked by a host function, bodies in which the host function tick() cancels the context synchronously (plain, inside a loop at the k-th round, in an if condition, in a try body before a throw, with a deferred call pending) or which call entered() and then spin in `for { }` / block in a receive, a send or a range over a channel (cancelled asynchronously 0-1 ms later), and the bare receive expression `<- never` - while all other operands are identifiers, len(x), m.x, n-1 or literals; each construct x every consumer of its value (argument of the host function rec(), assignment, expression statement, returned from a function to rec() / to the last statement / in a return list, multi-assignment right sides in either position and in front of a host call, return list in front of a host call, element / member / op-assignment right side, if and switch subject, for-in container, channel send, throw inside try, argument of a deferred call), last statement of the run or followed by rec(\"next\"), bare or under one stateless wrapper; every (construct, consumer) pair in every case round with operands rotating."

var c02R10Assumptions = []string{
	"phase operand: the operand F never yields a value (its function body can only be left by the interruption: the statement after the synchronous cancel is refused, the loop / channel operation is ended by the cancel), so every call of the recorder host function rec() - which all consumers of the construct's value and the statement after it end in - happened after the interruption had been raised and is a probe event beyond the budget (budget for rec(): 0; for tick(): the probes of the wrapper only); a run that returns a value and a nil error has swallowed the interruption whatever the value is",
}

func c02R10Phases(tier string) []fw.Phase {
	n := len(c02R10Exprs) + len(c02R10Stmts)
	if tier == "thorough" {
		n *= 40
	}
	return []fw.Phase{{Name: "operand", Cases: n, Chunk: 8, TimeoutS: 900}}
}

func c02R10Run(c *wk.Case) bool {
	if c.Phase != "operand" {
		return false
	}
	c02R10Operand(c)
	return true
}

const c02R10Setup = "xs = [1, 2, 3, 4]\nys = [10, 20, 30, 40]\nn = 3\ns = \"abcdef\"\nm = {\"x\": 2}\nbch = make(chan interface, 64)\n" +
	"func g2(a, b) { rec(a, b); return a }\nfunc g3(a, b, c) { rec(a, b, c); return b }\nfunc gv(a...) { rec(a); return 1 }\nmg = {\"g\": func(a, b) { rec(a, b); return a }}"

// operands that can only end by the interruption
var c02R10Operands = []struct {
	name, defs, expr string
	mode             string // sync: the k-th tick() cancels | spin, blocked: entered(), then the harness cancels
	loop             bool   // k swept
	direct           bool   // no function around: the program calls entered() as its first statement
}{
	{name: "func0", defs: "func fop() { tick(); return 1 }", expr: "fop()", mode: "sync"},
	{name: "func1", defs: "func fop1(a) { tick(); return a }", expr: "fop1(1)", mode: "sync"},
	{name: "func6", defs: "func fop6(a, b, c, d, e, f) { tick(); return a }", expr: "fop6(1, 2, 3, 4, 5, 6)", mode: "sync"},
	{name: "func-variadic", defs: "func fopv(a...) { tick(); return 1 }", expr: "fopv(1, 2)", mode: "sync"},
	{name: "lambda-variable", defs: "fl = func() { tick(); return 1 }", expr: "fl()", mode: "sync"},
	{name: "anonymous-call", expr: "func() { tick(); return 1 }()", mode: "sync"},
	{name: "map-member", defs: "mo = {\"f\": func() { tick(); return 1 }}", expr: "mo.f()", mode: "sync"},
	{name: "module-func", defs: "module MO { func f() { tick(); return 1 } }", expr: "MO.f()", mode: "sync"},
	{name: "two-levels", defs: "func fin() { tick(); return 1 }\nfunc fop2() { return fin() + 0 }", expr: "fop2()", mode: "sync"},
	{name: "host-callback", expr: "applyV(func(a) { tick(); return a }, 1)", mode: "sync"},
	{name: "loop-kth-round", defs: "func fopl() { for { tick() }; return 1 }", expr: "fopl()", mode: "sync", loop: true},
	{name: "if-condition", defs: "func fopi() { if tickT() { return 1 }; return 2 }", expr: "fopi()", mode: "sync"},
	{name: "try-before-throw", defs: "func fopt() { try { tick(); throw \"x\" } catch e { }; return 1 }", expr: "fopt()", mode: "sync"},
	{name: "defer-pending", defs: "func fopd() { defer func() { dz = 1 }(); tick(); return 1 }", expr: "fopd()", mode: "sync"},
	{name: "spin", defs: "func fsp() { entered(); for { }; return 1 }", expr: "fsp()", mode: "spin"},
	{name: "spin-6", defs: "func fsp6(a, b, c, d, e, f) { entered(); for { }; return a }", expr: "fsp6(1, 2, 3, 4, 5, 6)", mode: "spin"},
	{name: "spin-forin", defs: "func fspi() { entered(); for { for x in [1, 2] { } }; return 1 }", expr: "fspi()", mode: "spin"},
	{name: "blocked-receive", defs: "func fbr() { entered(); <- never; return 1 }", expr: "fbr()", mode: "blocked"},
	{name: "blocked-receive-made", defs: "func fbm() { entered(); c = make(chan int64); <- c; return 1 }", expr: "fbm()", mode: "blocked"},
	{name: "blocked-send", defs: "func fbs() { entered(); never <- 1; return 1 }", expr: "fbs()", mode: "blocked"},
	{name: "blocked-range", defs: "func fbg() { entered(); for v in never { }; return 1 }", expr: "fbg()", mode: "blocked"},
	{name: "blocked-return-receive", defs: "func fbq() { entered(); return <- never }", expr: "fbq()", mode: "blocked"},
	{name: "receive-expression", expr: "(<- never)", mode: "blocked", direct: true},
}

// constructs with a value; @F is the operand
var c02R10Exprs = []struct{ name, src string }{
	{"slice-low:high-ident", "xs[@F:n]"},
	{"slice-low:high-len", "xs[@F:len(xs)]"},
	{"slice-low:high-member", "xs[@F:m.x]"},
	{"slice-low:high-arith", "xs[@F:n-1]"},
	{"slice-low:high-literal", "xs[@F:3]"},
	{"slice-low:high-open", "xs[@F:]"},
	{"slice-high:low-literal", "xs[0:@F]"},
	{"slice-high:low-arith", "xs[m.x-2:@F]"},
	{"slice-high:low-open", "xs[:@F]"},
	{"slice3-low", "xs[@F:n:len(xs)]"},
	{"slice3-high", "xs[0:@F:n]"},
	{"slice3-cap", "xs[0:n:@F]"},
	{"slice3-cap:bounds-idents", "xs[m.x-2:n:@F]"},
	{"string-slice-low", "s[@F:len(s)]"},
	{"string-slice-high", "s[n:@F]"},
	{"slice-of-call-result", "ident(xs)[@F:n]"},
	{"index", "xs[@F]"},
	{"index-of-call-result", "ident(xs)[@F]"},
	{"map-index", "m[@F]"},
	{"string-index", "s[@F]"},
	{"index-of-literal", "[@F, n][1]"},
	{"index-then-index", "[xs, ys][@F][n]"},
	{"call-argument-first", "g2(@F, n)"},
	{"call-argument-last", "g2(n, @F)"},
	{"call-argument-middle", "g3(n, @F, len(xs))"},
	{"host-call-argument-first", "rec(@F, n)"},
	{"host-call-argument-middle", "rec(n, @F, m.x)"},
	{"variadic-call-argument", "gv(@F, n, n)"},
	{"anonymous-call-argument", "func(a, b) { rec(a); return a }(@F, n)"},
	{"member-call-argument", "mg.g(@F, n)"},
	{"builtin-call-argument", "len(xs[@F:n])"},
	{"list-literal-first", "[@F, n]"},
	{"list-literal-middle", "[n, @F, m.x]"},
	{"nested-list-literal", "[[@F, n], n]"},
	{"map-literal-first", "{\"a\": @F, \"b\": n}"},
	{"map-literal-last", "{\"a\": n, \"b\": @F}"},
	{"member-of-map-literal", "{\"a\": @F, \"b\": n}.b"},
	{"add-left", "@F + n"},
	{"add-right", "n + @F"},
	{"chain-left", "@F + n + m.x"},
	{"chain-middle", "n + @F + m.x"},
	{"chain-mixed", "@F * len(xs) - n"},
	{"string-concat", "s + @F"},
	{"list-concat", "xs + [@F]"},
	{"less-than", "@F < n"},
	{"equal-right", "n == @F"},
	{"greater-equal-len", "@F >= len(xs)"},
	{"and-left", "@F && n"},
	{"and-right", "n > 0 && @F"},
	{"or-left", "@F || n"},
	{"or-right", "n > 5 || @F"},
	{"negation", "-@F"},
	{"not", "!@F"},
	{"parenthesis", "(@F) + n"},
	{"ternary-condition", "@F ? n : m.x"},
	{"ternary-then", "n > 0 ? @F : n"},
	{"ternary-else", "n > 5 ? n : @F"},
	{"coalesce-left", "@F ?? n"},
	{"coalesce-right", "nil ?? @F"},
	{"in-left", "@F in xs"},
	{"in-right", "n in [@F, 2]"},
	{"in-slice", "n in xs[@F:n]"},
	{"make-length", "make([]int64, @F, n)"},
	{"make-capacity", "make([]int64, n, @F)"},
	// the later operand is a host call: it must not be made once the interruption has been raised
	{"slice-low:high-host-call", "xs[@F:rec(n)]"},
	{"call-argument-first:then-host-call", "g2(@F, rec(n))"},
	{"list-literal-first:then-host-call", "[@F, rec(n)]"},
	{"map-literal-first:then-host-call", "{\"a\": @F, \"b\": rec(n)}"},
	{"add-left:then-host-call", "@F + rec(n)"},
	{"less-than:then-host-call", "@F < rec(n)"},
}

// constructs that are statements; @F is the operand
var c02R10Stmts = []struct{ name, src string }{
	{"let-slice-low", "xs[@F:n] = [9, 9]"},
	{"let-slice-low:high-len", "xs[@F:len(xs)] = [9, 9, 9]"},
	{"let-slice-high", "xs[0:@F] = [9]"},
	{"let-slice3-low", "xs[@F:n:len(xs)] = [9, 9]"},
	{"let-index", "xs[@F] = n"},
	{"let-map-index", "m[@F] = n"},
	{"let-index-of-index", "[xs, ys][@F][0] = n"},
	{"op-assign-index-target", "xs[@F] += n"},
	{"increment-index-target", "xs[@F]++"},
	{"several-targets-first", "xs[@F], ys[0] = n, n"},
	{"several-targets-last", "ys[0], xs[@F] = n, n"},
	{"delete-key", "delete(m, @F)"},
	{"let-then-consumer", "y = xs[@F:n]\nrec(y)"},
}

// consumers of the construct's value; @E is the construct
var c02R10Uses = []struct{ name, src string }{
	{"recorded", "rec(@E)"},
	{"assigned", "y = @E"},
	{"expression-statement", "@E"},
	{"returned-to-recorder", "func w() { return @E }\nrec(w())"},
	{"returned-to-last-statement", "func w() { return @E }\nw()"},
	{"return-list", "func w() { return @E, n }\na, b = w()"},
	{"multi-assign-first", "a, b = @E, n"},
	{"multi-assign-last", "a, b = n, @E"},
	{"multi-assign-first-then-host-call", "a, b = @E, rec(n)"},
	{"return-list-then-host-call", "func w() { return @E, rec(n) }\na, b = w()"},
	{"element-assign", "ys[0] = @E"},
	{"member-assign", "m.y = @E"},
	{"op-assign", "n += @E"},
	{"op-assign-element", "ys[n-1] += @E"},
	{"if-subject", "if @E { rec(1) } else { rec(2) }"},
	{"switch-subject", "switch @E {\ncase n:\n  rec(1)\ndefault:\n  rec(2)\n}"},
	{"forin-container", "for x in [@E] { rec(x) }"},
	{"channel-send", "bch <- @E"},
	{"throw-in-try", "try { throw @E } catch e { rec(e) }"},
	{"deferred-call-argument", "func w() {\n  defer rec(@E)\n  return 1\n}\nw()"},
}

func c02R10Operand(c *wk.Case) {
	ne := len(c02R10Exprs)
	slot, round := c.Index%(ne+len(c02R10Stmts)), c.Index/(ne+len(c02R10Stmts))
	ws := c02R8Wrappers()
	type run struct{ form, use, tmpl string }
	var runs []run
	if slot < ne {
		for _, u := range c02R10Uses {
			runs = append(runs, run{c02R10Exprs[slot].name, u.name, strings.ReplaceAll(u.src, "@E", c02R10Exprs[slot].src)})
		}
	} else {
		st := c02R10Stmts[slot-ne]
		for i := 0; i < 4; i++ {
			runs = append(runs, run{st.name, "statement", st.src})
		}
	}
	for ri, r := range runs {
		// operands rotate with construct, consumer, round and seed; every second run a synchronous one
		oi := (slot*5 + ri*7 + round*3 + int(c.W.Seed) + c.Rng.Intn(3)) % len(c02R10Operands)
		op := c02R10Operands[oi]
		if ri%2 == 0 && op.mode != "sync" {
			op = c02R10Operands[oi%14]
		}
		trailing := (ri+slot+round+c.Rng.Intn(2))%2 == 0
		var wrappers []int
		if c.Rng.Intn(3) == 0 {
			wrappers = []int{ws[c.Rng.Intn(len(ws))]}
		}
		body := strings.ReplaceAll(r.tmpl, "@F", op.expr)
		if trailing {
			body += "\nrec(\"next\")"
		}
		setup := c02R10Setup
		if op.defs != "" {
			setup += "\n" + op.defs
		}
		core := c02Core{name: r.form, src: body, setup: setup, blocked: op.mode == "blocked"}
		src := c02R8Program(core, wrappers, false, op.direct)
		wname := "none"
		if len(wrappers) > 0 {
			wname = c02Wrappers[wrappers[0]].name
		}
		ctx, cancel, cname := c02R8Context(c.Rng.Intn(8))
		k := int64(0)
		if op.mode == "sync" {
			k = 1
			if op.loop {
				k = int64(1 + c.Rng.Intn(6))
			}
		}
		p := c02R8NewProbe(cancel, k)
		e := c02R8Bind(c02R8Root(), p)
		var recs int64
		var firstRec atomic.Value
		e.Define("rec", func(a ...interface{}) interface{} {
			if atomic.AddInt64(&recs, 1) == 1 {
				firstRec.Store(c02R8Clip(fmt.Sprintf("%v", a)))
			}
			if len(a) > 0 {
				return a[0]
			}
			return nil
		})
		kind := "spin"
		if op.mode == "blocked" {
			kind = "blocked"
		}
		pos := "last"
		if trailing {
			pos = "followed"
		}
		s := &c02R8Spec{phase: "operand", form: r.form + "@" + r.use, kind: kind, src: src, env: e, p: p, ctx: ctx, sync: op.mode == "sync",
			desc:   fmt.Sprintf("operand:%s@%s:%s:%s<%s>:%s:k%d", r.form, r.use, op.name, pos, wname, cname, k),
			budget: int64(2 * len(wrappers)), quiet: ri != 0}
		if op.mode != "sync" {
			s.delay = time.Duration(c.Rng.Intn(1000)) * time.Microsecond
			if op.direct {
				s.delay += time.Millisecond
			}
		}
		res := c02R8Exec(c, s)
		cancel()
		c.Tag("operand:F="+op.name, "operand:use="+r.use)
		switch res {
		case "trivial":
			c.Tag("operand:not-reached:" + r.form + "@" + r.use + ":" + op.name)
		case "ok":
			if nr := atomic.LoadInt64(&recs); nr > 0 {
				c.Violation("ran-on:"+kind+":r8-operand:"+s.form,
					fmt.Sprintf("the recorder host function rec() was called %d time(s) (first arguments: %v) although the operand %s can only end by the interruption: the statement carried on after the interruption had been raised (the call returned \"execution interrupted\")", nr, firstRec.Load(), op.expr),
					map[string]interface{}{"case": s.desc, "program": c02R8Clip(src)})
			}
		case "stuck":
			c.Bail()
			return
		}
		c.Count("operand_recorder_calls", int(atomic.LoadInt64(&recs)))
	}
}
