package main

// C11, round-6 phases.
//
//   gocall   `go` statements whose callee is a GO function or a method of a Go
//            value reached with member syntax. The statement says that Go
//            functions and such methods "are called with exactly the supplied
//            arguments - including variadic parameters and `...` spreading";
//            a go statement is one more way to write the call, and it does not
//            wait: the script goes on with its next statements (most often
//            another call of the same function, or of one with as many
//            arguments) before the started goroutine has run. Generated: 3-8
//            statements per script - `go f(..)`, plain `r = f(..)`, and
//            `for i = 0; i < 3; i++ { go f(.., k + i, ..) }` - over three
//            manufactured functions (PRNG signatures of 1-4 parameters, 1/3
//            variadic), three pointer-receiver methods and a value-receiver
//            method of a Go struct (through a pointer and through a value),
//            plain and spread; the next statement re-uses the callee of the
//            previous one half of the time; every call has arguments that no
//            other call of the script has. Half of the cases run with
//            GOMAXPROCS(1) (the started goroutines run when the script is
//            over), half with the default. Oracle: the host waits until every
//            started call has arrived (or every goroutine the script started
//            has ended); each Go function must have been invoked once per call
//            written for it, each invocation with exactly the converted
//            arguments (c11RefConvert) of one of these calls, each call served
//            once; the receiver of a method is the Go value; plain calls give
//            their result back. The verdict is taken from what the Go
//            functions received, never from timing: a run in which not every
//            call arrives although goroutines of the script are still alive
//            after 20 s is inconclusive.
//   twins    DISTINCT Go types that PRINT alike (reflect's String(): package
//            name + type name): struct types declared with the same name in two
//            functions, and text/template.Template / html/template.Template.
//            "member syntax on it reads (and, through a pointer, writes) the Go
//            value's own exported fields" and "methods of Go values reached with
//            member syntax are called with exactly the supplied arguments"
//            speak about the value at hand: what a name denotes follows from
//            the TYPE of that value, and a second type of the same printed name
//            used later in the same process has members of its own (other field
//            positions, other field types, other method sets through
//            embedding). Per case one group of such types in one order (every
//            order once, one process per case): for each type in turn every
//            exported field (promoted ones included) is read through 4 holders,
//            every int64 / string / float64 / bool field written through 3
//            pointer holders (the field must hold the value, every other field
//            must keep its own), every recording method called with PRNG
//            arguments (plain / spread) - the method that ran must be the one
//            named, on the value's own embedded receiver. The template pair is
//            driven with Name, DefinedTemplates, Lookup, Execute and the Tree
//            field, compared with Go's own calls on the same values.
//   numedge  script numbers at the edges of the integer ranges (the numeric
//            sources of c11Srcs: around 2^7 .. 2^64, fractions, negative, NaN,
//            infinities) x every numeric target type (all widths, uintptr, named
//            ones) on the conversion routes the conv matrix does not have: the
//            result of a script callback declared to return T (alone and next to
//            a second result), a store into a field of type T through a pointer
//            (member-phase rule: refused with the field unchanged, or the field
//            holds Go's conversion) and the parameters and variadic tail of a
//            method reached with member syntax. Complete per case (one case per
//            target type). The reference is reflect.Value.Convert ("Go's own
//            conversion", see the Assumptions).

import (
	"fmt"
	htmltemplate "html/template"
	"math/rand"
	"reflect"
	"runtime"
	"runtime/debug"
	"strconv"
	"strings"
	"sync"
	texttemplate "text/template"
	"time"

	"verifharness/internal/ank"
	"verifharness/internal/wk"
)

// ---------------------------------------------------------------------------
// pending repairs of mattn/anko (see /tmp/strengthen/C11-r6-genuine.md)

// a script list or map that CONTAINS ITSELF handed to a parameter of a recursive
// Go type (type Tree []Tree, type R map[string]R): convertSliceOrArray /
// convertMap (vm/vmConvertToX.go) recurse element by element without end and the
// process dies with "fatal error: stack overflow" - neither "arrives" nor "fails
// with an error". The row (fixed case 10) is kept out until /repo is repaired: a
// fatal error cannot be observed from inside the worker, and the orchestrator
// files a stack overflow of the worker under excluded:stack-exhaustion.
const c11PendingFix_cyclicToRecursive = true

type C11R6Tree []C11R6Tree
type C11R6RMap map[string]C11R6RMap

// c11r6FixedCyclic is fixed case 10.
func c11r6FixedCyclic(c *wk.Case, ce *c11Env, rec *c11Rec) {
	e := ce.e
	tTree, tRMap := reflect.TypeOf(C11R6Tree(nil)), reflect.TypeOf(C11R6RMap(nil))
	def := func(ft reflect.Type) {
		e.Define("f", c11MakeFn(ft, rec).Interface())
		rec.results = c11GenResults(c.Rng, ft)
	}
	// finite values convert element-wise (judged like every other call)
	ftTree := reflect.FuncOf([]reflect.Type{tTree}, []reflect.Type{c11TInt64}, false)
	ftRMap := reflect.FuncOf([]reflect.Type{tRMap}, []reflect.Type{c11TInt64}, false)
	ftTail := reflect.FuncOf([]reflect.Type{c11TInt64, reflect.SliceOf(tTree)}, []reflect.Type{c11TInt64}, true)
	def(ftTree)
	fin := c11Val{text: "[[], [[]]]", v: reflect.ValueOf([]interface{}{[]interface{}{}, []interface{}{[]interface{}{}}}), label: "[]interface{}"}
	(&c11Call{callee: "f", ft: ftTree, pre: []c11Val{fin}, rec: rec}).judge(c, e, "call", 0)
	def(ftRMap)
	finM := c11Val{text: `{"a": {}, "b": {"c": {}}}`, v: reflect.ValueOf(map[interface{}]interface{}{"a": map[interface{}]interface{}{}, "b": map[interface{}]interface{}{"c": map[interface{}]interface{}{}}}), label: "map[interface{}]interface{}"}
	(&c11Call{callee: "f", ft: ftRMap, pre: []c11Val{finM}, rec: rec}).judge(c, e, "call", 0)
	if c11PendingFix_cyclicToRecursive {
		c.Excluded("pending repair: cyclic script value to a recursive Go type")
		return
	}
	// a defective converter recurses until the stack limit: keep that limit small
	defer debug.SetMaxStack(debug.SetMaxStack(64 << 20))
	rows := []struct {
		src  string
		ft   reflect.Type
		at   int
		size int
	}{
		{"a = [nil, 1]; a[0] = a; a[1] = a; f(a)", ftTree, 0, 2},
		{"m = {}; m.self = m; f(m)", ftRMap, 0, 1},
		{"a = [nil]; a[0] = a; f(1, a)", ftTail, 1, 1},
		{"a = [nil]; b = [a]; a[0] = b; f(b)", ftTree, 0, 1},
	}
	for _, rw := range rows {
		def(rw.ft)
		rec.calls, rec.args = 0, nil
		c.Begin(rw.src)
		o := ank.Exec(e, rw.src)
		c.Events(1 + rec.calls)
		c.Eval("cyclic|"+rw.src+"|"+rw.ft.String(), true)
		input := map[string]interface{}{"src": rw.src, "go_func": rw.ft.String(), "invocations": rec.calls, "err": ank.ErrText(o.Err), "panic": o.PanicVal}
		switch {
		case o.Panicked:
			c11Report(c, "cyclic->recursive-type:panic", "panic escaped vm.Execute: "+o.PanicVal+" ["+o.PanicSig+"]", input)
		case o.Err != nil && rec.calls == 0:
			// no finite element-wise conversion exists: the call fails with an error
		case o.Err == nil && rec.calls == 1:
			// UNSPECIFIED whether a converter may build the cyclic Go value (a Tree that
			// contains itself exists in Go); only its top level is looked at
			g := c11Unwrap(rec.args[0][rw.at])
			if rw.ft.IsVariadic() && g.IsValid() && g.Kind() == reflect.Slice && g.Len() == 1 {
				g = g.Index(0)
			}
			if !g.IsValid() || g.Len() != rw.size {
				c11Report(c, "cyclic->recursive-type:wrong-args", fmt.Sprintf("the value that arrived does not have the %d elements of the script value", rw.size), input)
			}
		default:
			c11Report(c, "cyclic->recursive-type:invocations="+strconv.Itoa(rec.calls), "neither refused with zero invocations nor invoked once", input)
		}
	}
}

// ---------------------------------------------------------------------------
// phase gocall

type c11r6Inv struct {
	fn   string
	args []reflect.Value
	recv interface{}
}

// c11r6Log is the recorder of one gocall case; the Go functions of that case
// append to it from whatever goroutine runs them.
type c11r6Log struct {
	mu   sync.Mutex
	invs []c11r6Inv
}

func (l *c11r6Log) add(fn string, recv interface{}, args []reflect.Value) {
	l.mu.Lock()
	l.invs = append(l.invs, c11r6Inv{fn: fn, args: args, recv: recv})
	l.mu.Unlock()
}

func (l *c11r6Log) count() int {
	l.mu.Lock()
	defer l.mu.Unlock()
	return len(l.invs)
}

// C11R6Hub is the Go value whose methods the scripts start with `go`.
type C11R6Hub struct {
	Tag string
	log *c11r6Log
}

func c11r6Vals(ps ...interface{}) []reflect.Value {
	out := make([]reflect.Value, len(ps))
	for i, p := range ps {
		out[i] = reflect.ValueOf(p).Elem()
	}
	return out
}

func (h *C11R6Hub) Note(name string, n int64) { h.log.add("Note", h, c11r6Vals(&name, &n)) }
func (h *C11R6Hub) Add(a, b int64) int64 {
	h.log.add("Add", h, c11r6Vals(&a, &b))
	return 777
}
func (h *C11R6Hub) Log(tag string, xs ...interface{}) int {
	h.log.add("Log", h, c11r6Vals(&tag, &xs))
	return len(xs)
}
func (h C11R6Hub) VNote(name string, n int64, f float64) {
	h.log.add("VNote", h, c11r6Vals(&name, &n, &f))
}

var c11r6ParamTypes = []reflect.Type{c11TInt64, c11TString, reflect.TypeOf(float64(0)), c11TIface, reflect.TypeOf(int32(0)), reflect.TypeOf(C11MyInt(0)),
	reflect.TypeOf(true), reflect.TypeOf([]int64(nil)), reflect.TypeOf(uint64(0))}

type c11r6Callee struct {
	expr string // "f1", "hub.Note", "vhub.VNote"
	name string // key of the log
	kind string // func | method@pointer | valuemethod@pointer | valuemethod@value
	ft   reflect.Type
	res  reflect.Value // result of a plain call, when judged
}

type c11r6Stmt struct {
	callee *c11r6Callee
	goStmt bool
	loop   bool
	text   string
	calls  []*c11Call // the calls the statement makes (3 for a loop)
	resVar string
}

// c11r6Arg builds argument i of call number k for a parameter of type t. In a
// loop statement the integer-like positions depend on the loop variable (rep =
// its value): the text is the same for the three calls, the values differ.
func c11r6Arg(t reflect.Type, k, i int, loop bool, rep int) c11Val {
	n := int64(k*100 + i*10 + 1)
	intArg := func() c11Val {
		if loop {
			return c11Val{text: strconv.FormatInt(n, 10) + " + i", v: reflect.ValueOf(n + int64(rep)), label: "int64"}
		}
		return c11Val{text: strconv.FormatInt(n, 10), v: reflect.ValueOf(n), label: "int64"}
	}
	switch t.Kind() {
	case reflect.String:
		s := "k" + strconv.Itoa(k) + "a" + strconv.Itoa(i)
		return c11Val{text: strconv.Quote(s), v: reflect.ValueOf(s), label: "string"}
	case reflect.Float64:
		f := float64(n) + 0.5
		return c11Val{text: strconv.FormatFloat(f, 'f', 1, 64), v: reflect.ValueOf(f), label: "float64"}
	case reflect.Bool:
		b := (k+i)%2 == 0
		return c11Val{text: strconv.FormatBool(b), v: reflect.ValueOf(b), label: "bool"}
	case reflect.Slice:
		a, b := intArg(), c11Val{text: strconv.FormatInt(n+5, 10), v: reflect.ValueOf(n + 5), label: "int64"}
		return c11ListOf([]c11Val{a, b})
	case reflect.Interface:
		if (k+i)%3 == 0 {
			s := "i" + strconv.Itoa(k) + "a" + strconv.Itoa(i)
			return c11Val{text: strconv.Quote(s), v: reflect.ValueOf(s), label: "string"}
		}
	}
	return intArg()
}

// c11r6Settle waits until `want` invocations have been recorded ("all"), or
// every goroutine started since base was taken has ended ("ended": whatever
// has not been recorded by then never will be), or 20 s have passed with
// goroutines still alive ("timeout": no verdict is taken from that).
func c11r6Settle(l *c11r6Log, want, base int) string {
	start := time.Now()
	for i := 0; ; i++ {
		if l.count() >= want {
			return "all"
		}
		if runtime.NumGoroutine() <= base {
			if l.count() >= want {
				return "all"
			}
			return "ended"
		}
		if i < 2000 {
			runtime.Gosched()
			continue
		}
		if time.Since(start) > 20*time.Second {
			return "timeout"
		}
		time.Sleep(200 * time.Microsecond)
	}
}

var c11r6BaseG int

func c11PhaseGoCall(c *wk.Case) {
	r := c.Rng
	if c.Index%2 == 0 {
		// one P: the goroutines a script starts run when the script is over
		defer runtime.GOMAXPROCS(runtime.GOMAXPROCS(1))
		c.Tag("gocall:procs=1")
	} else {
		c.Tag("gocall:procs=default")
	}
	for round := 0; round < 6; round++ {
		c11r6GoScript(c, r)
	}
}

func c11r6GoScript(c *wk.Case, r *rand.Rand) {
	e := ank.NewCoreEnv()
	log := &c11r6Log{}
	hub := &C11R6Hub{Tag: "hub" + strconv.Itoa(r.Intn(1000)), log: log}
	e.Define("hub", hub)
	e.Define("vhub", *hub)
	var callees []*c11r6Callee
	for j := 0; j < 3; j++ {
		nIn := 1 + r.Intn(4)
		in := make([]reflect.Type, nIn)
		for i := range in {
			in[i] = c11r6ParamTypes[r.Intn(len(c11r6ParamTypes))]
		}
		variadic := r.Intn(3) == 0
		if variadic {
			in[nIn-1] = reflect.SliceOf(in[nIn-1])
		}
		ft := reflect.FuncOf(in, []reflect.Type{c11TInt64}, variadic)
		name := "f" + strconv.Itoa(j)
		res := reflect.ValueOf(int64(7000 + j))
		e.Define(name, reflect.MakeFunc(ft, func(in []reflect.Value) []reflect.Value {
			cp := make([]reflect.Value, len(in))
			copy(cp, in)
			log.add(name, nil, cp)
			return []reflect.Value{res}
		}).Interface())
		callees = append(callees, &c11r6Callee{expr: name, name: name, kind: "func", ft: ft, res: res})
	}
	hv := reflect.ValueOf(hub)
	for _, m := range []string{"Note", "Add", "Log", "VNote"} {
		kind := "method@pointer"
		if m == "VNote" {
			kind = "valuemethod@pointer"
		}
		cl := &c11r6Callee{expr: "hub." + m, name: m, kind: kind, ft: hv.MethodByName(m).Type()}
		if m == "Add" {
			cl.res = reflect.ValueOf(int64(777))
		}
		callees = append(callees, cl)
	}
	callees = append(callees, &c11r6Callee{expr: "vhub.VNote", name: "VNote", kind: "valuemethod@value", ft: hv.MethodByName("VNote").Type()})

	nStmt := 3 + r.Intn(6)
	var stmts []*c11r6Stmt
	var prev *c11r6Callee
	k := 0
	for len(stmts) < nStmt {
		cl := callees[r.Intn(len(callees))]
		if prev != nil && r.Intn(2) == 0 {
			cl = prev
		}
		prev = cl
		st := &c11r6Stmt{callee: cl, goStmt: r.Intn(10) < 7}
		st.loop = st.goStmt && r.Intn(5) == 0
		reps := 1
		if st.loop {
			reps = 3
		}
		ft := cl.ft
		nIn := ft.NumIn()
		nTail := 0
		if ft.IsVariadic() {
			nTail = r.Intn(3)
		}
		spread := r.Intn(4) == 0
		k++
		for rep := 0; rep < reps; rep++ {
			call := &c11Call{callee: cl.expr, ft: ft}
			var all []c11Val
			for i := 0; i < nIn; i++ {
				if ft.IsVariadic() && i == nIn-1 {
					for j := 0; j < nTail; j++ {
						all = append(all, c11r6Arg(ft.In(i).Elem(), k, i+j, st.loop, rep))
					}
					break
				}
				all = append(all, c11r6Arg(ft.In(i), k, i, st.loop, rep))
			}
			cut := len(all)
			if spread {
				// the spread list sits at the variadic parameter, or supplies the last fixed one
				if ft.IsVariadic() {
					cut = nIn - 1
				} else {
					cut = nIn - 1
				}
				lst := c11ListOf(all[cut:])
				call.spread = &lst
			}
			call.pre = all[:cut]
			st.calls = append(st.calls, call)
		}
		if ex := st.calls[0].expect(); ex.kind != c11OK || ex.orError {
			k--
			continue // only calls the statement decides as "invoked once" are written
		}
		text := st.calls[0].src()
		switch {
		case st.loop:
			text = "for i = 0; i < 3; i++ {\n  go " + text + "\n}"
		case st.goStmt:
			text = "go " + text
		case cl.res.IsValid():
			st.resVar = "r" + strconv.Itoa(k)
			text = st.resVar + " = " + text
		}
		st.text = text
		stmts = append(stmts, st)
	}
	var lines, resVars []string
	for _, st := range stmts {
		lines = append(lines, st.text)
		if st.resVar != "" {
			resVars = append(resVars, st.resVar)
		}
	}
	lines = append(lines, "["+strings.Join(resVars, ", ")+"]")
	src := strings.Join(lines, "\n")

	want := 0
	for _, st := range stmts {
		want += len(st.calls)
	}
	// the number of goroutines with no script goroutine alive: the smallest count seen
	// at the start of a script in this process (a goroutine of an earlier script that
	// has recorded its call but not yet ended would inflate a fresh count)
	if n := runtime.NumGoroutine(); c11r6BaseG == 0 || n < c11r6BaseG {
		c11r6BaseG = n
	}
	base := c11r6BaseG
	c.Begin(src)
	o := ank.Exec(e, src)
	state := c11r6Settle(log, want, base)
	if state == "all" {
		// a call served twice shows as one invocation too many: give the goroutines
		// that are still alive the chance to end (bounded; nothing is concluded
		// from the bound)
		for i := 0; i < 5000 && runtime.NumGoroutine() > base; i++ {
			runtime.Gosched()
		}
	}
	log.mu.Lock()
	invs := append([]c11r6Inv(nil), log.invs...)
	log.mu.Unlock()
	c.Events(1 + len(invs))
	c.Eval(src, true)

	type slot struct {
		st   *c11r6Stmt
		call *c11Call
		ex   c11Expect
		used bool
	}
	var slots []*slot
	var wantR []string
	for _, st := range stmts {
		for _, call := range st.calls {
			ex := call.expect()
			slots = append(slots, &slot{st: st, call: call, ex: ex})
			var w []string
			for _, a := range ex.args {
				w = append(w, ank.RenderValue(a.v))
			}
			wantR = append(wantR, st.callee.name+"("+strings.Join(w, ", ")+")")
		}
		mode := "plain"
		if st.loop {
			mode = "go-in-loop"
		} else if st.goStmt {
			mode = "go"
		}
		c.Tag("gocall:" + mode + ":" + st.callee.kind + ":" + st.calls[0].shape())
	}
	var gotR []string
	for _, iv := range invs {
		gotR = append(gotR, iv.fn+"("+strings.Join(c11RenderArgs(iv.args), ", ")+")")
	}
	input := map[string]interface{}{"src": src, "want_invocations_any_order": wantR, "observed_invocations": gotR, "err": ank.ErrText(o.Err), "value": ank.Render(o.Val),
		"panic": o.PanicVal, "settled": state, "gomaxprocs": runtime.GOMAXPROCS(0)}
	if c.WantSample() {
		c.Sample(input)
	}
	if o.Panicked {
		c11Report(c, "gocall:panic", "panic escaped vm.Execute: "+o.PanicVal+" ["+o.PanicSig+"]", input)
		return
	}
	if o.Err != nil {
		c11Report(c, "gocall:unexpected-error", "a conversion exists for every argument of every call, yet the script failed: "+o.Err.Error(), input)
		return
	}
	same := func(iv c11r6Inv, s *slot) bool {
		if iv.fn != s.st.callee.name || len(iv.args) != len(s.ex.args) {
			return false
		}
		for i, w := range s.ex.args {
			if c11Diff(iv.args[i], w.v, w.mode, "", 0) != "" {
				return false
			}
		}
		return true
	}
	sameArgs := func(iv c11r6Inv, s *slot) bool {
		if len(iv.args) != len(s.ex.args) {
			return false
		}
		for i, w := range s.ex.args {
			if c11Diff(iv.args[i], w.v, c11NilEither, "", 0) != "" {
				return false
			}
		}
		return true
	}
	kindOf := map[string]string{}
	for _, s := range slots {
		if _, ok := kindOf[s.st.callee.name]; !ok || s.st.goStmt {
			k := s.st.callee.kind
			if strings.Contains(k, "@") {
				k = k[:strings.Index(k, "@")]
			}
			kindOf[s.st.callee.name] = k
		}
	}
	for n, iv := range invs {
		var hit *slot
		for _, s := range slots {
			if !s.used && same(iv, s) {
				hit = s
				break
			}
		}
		if hit != nil {
			hit.used = true
			// the receiver of a method is the Go value itself (pointer receiver) or has its content
			switch rv := iv.recv.(type) {
			case *C11R6Hub:
				if rv != hub {
					c11Report(c, "gocall:"+hit.st.callee.kind+":wrong-receiver", "the pointer-receiver method did not get the Go value itself as receiver", input)
					return
				}
			case C11R6Hub:
				if rv.Tag != hub.Tag {
					c11Report(c, "gocall:"+hit.st.callee.kind+":wrong-receiver", "the value-receiver method got a receiver with other content: "+rv.Tag, input)
					return
				}
			}
			continue
		}
		what := "wrong-args"
		for _, s := range slots {
			if sameArgs(iv, s) {
				// exactly the arguments written at another call (already served, or of another function)
				what = "args-of-another-call"
				break
			}
		}
		c11Report(c, "gocall:"+kindOf[iv.fn]+":"+what, fmt.Sprintf("invocation %d, %s, does not have the arguments of any call of that function still to be served", n, gotR[n]), input)
		return
	}
	switch {
	case len(invs) > want:
		c11Report(c, "gocall:invoked-too-often", fmt.Sprintf("%d calls were written, the Go functions were invoked %d times", want, len(invs)), input)
		return
	case len(invs) < want && state == "ended":
		for _, s := range slots {
			if !s.used {
				mode := "plain"
				if s.st.goStmt {
					mode = "go"
				}
				c11Report(c, "gocall:"+kindOf[s.st.callee.name]+":"+mode+":not-invoked", "every goroutine the script started has ended, yet the call "+s.call.src()+" never reached the Go function", input)
				return
			}
		}
	case len(invs) < want:
		c.Inconclusive("gocall:not-settled", fmt.Sprintf("%d of %d invocations after 20 s, goroutines still alive", len(invs), want), input)
		return
	}
	// results of the plain calls
	lst, ok := o.Val.([]interface{})
	nRes := 0
	for _, st := range stmts {
		if st.resVar != "" {
			nRes++
		}
	}
	if !ok || len(lst) != nRes {
		c11Report(c, "gocall:wrong-result", "the results of the plain calls did not come back: "+ank.Render(o.Val), input)
		return
	}
	i := 0
	for _, st := range stmts {
		if st.resVar == "" {
			continue
		}
		if d := c11Diff(reflect.ValueOf(lst[i]), st.callee.res, c11NilExact, st.resVar, 0); d != "" {
			c11Report(c, "gocall:wrong-result", d, input)
			return
		}
		i++
	}
}

// ---------------------------------------------------------------------------
// phase twins

// Struct types declared with the same name in different functions are distinct
// types that print alike ("main.Point", "main.Node").
func c11r6PointA() interface{} {
	type Point struct{ X, Y int64 }
	return &Point{}
}

func c11r6PointB() interface{} {
	type Point struct {
		Label string
		Y, X  int64
	}
	return &Point{}
}

func c11r6PointC() interface{} {
	type Point struct {
		X    float64
		Tags []string
		Z    int64
		Y    string
		Ok   bool
	}
	return &Point{}
}

func c11r6NodeA() interface{} {
	type Node struct {
		C11Inner
		Title string
	}
	return &Node{}
}

func c11r6NodeB() interface{} {
	type Node struct {
		Title string
		*C11S
	}
	return &Node{}
}

func c11r6NodeC() interface{} {
	type Node struct {
		Z string
		C11Tagger
		Title int64
	}
	return &Node{}
}

var c11r6TwinGroups = []struct {
	name  string
	ctors []func() interface{}
}{
	{"Point", []func() interface{}{c11r6PointA, c11r6PointB, c11r6PointC}},
	{"Node", []func() interface{}{c11r6NodeA, c11r6NodeB, c11r6NodeC}},
}

var c11r6Perms3 = [][]int{{0, 1, 2}, {0, 2, 1}, {1, 0, 2}, {1, 2, 0}, {2, 0, 1}, {2, 1, 0}}

// cases: every order of every group of three, the two orders of the template pair
var c11r6NTwins = len(c11r6TwinGroups)*len(c11r6Perms3) + 2

type c11r6Field struct {
	name  string
	index []int
}

// c11r6Fields: the exported fields Go's selector rule reaches by their name on
// a struct of type t (promoted ones included).
func c11r6Fields(t reflect.Type) []c11r6Field {
	var out []c11r6Field
	for _, f := range reflect.VisibleFields(t) {
		if !f.IsExported() {
			continue
		}
		if g, ok := t.FieldByName(f.Name); !ok || !reflect.DeepEqual(g.Index, f.Index) {
			continue
		}
		if _, isMethod := reflect.PtrTo(t).MethodByName(f.Name); isMethod {
			continue // a method of that name: which of the two a name denotes is the selector phase's subject
		}
		out = append(out, c11r6Field{name: f.Name, index: f.Index})
	}
	return out
}

func c11PhaseTwins(c *wk.Case) {
	if c.Index >= len(c11r6TwinGroups)*len(c11r6Perms3) {
		c11r6Templates(c, c.Index-len(c11r6TwinGroups)*len(c11r6Perms3) == 1)
		return
	}
	g := c11r6TwinGroups[c.Index/len(c11r6Perms3)]
	perm := c11r6Perms3[c.Index%len(c11r6Perms3)]
	ce := c11NewEnv(c)
	printed := ""
	for n, pi := range perm {
		obj := reflect.ValueOf(g.ctors[pi]())
		if n == 0 {
			printed = obj.Type().String()
		} else if obj.Type().String() != printed {
			c.Inconclusive("twins:printed-names-differ", printed+" / "+obj.Type().String(), g.name)
			return
		}
		c11r6Twin(c, ce, g.name+"#"+strconv.Itoa(pi), obj, n)
	}
}

// c11r6Twin runs the member workload on one value (a pointer to a struct).
func c11r6Twin(c *wk.Case, ce *c11Env, label string, p reflect.Value, pos int) {
	r := c.Rng
	e := ce.e
	t := p.Type().Elem()
	p.Elem().Set(c11GenGo(r, t, 0, false))
	// embedded pointers are non-nil: every promoted field is one Go can reach
	for i := 0; i < t.NumField(); i++ {
		if f := t.Field(i); f.Anonymous && f.Type.Kind() == reflect.Ptr && p.Elem().Field(i).IsNil() {
			np := reflect.New(f.Type.Elem())
			np.Elem().Set(c11GenGo(r, f.Type.Elem(), 2, false))
			p.Elem().Field(i).Set(np)
		}
	}
	ord := "first"
	if pos > 0 {
		ord = "later"
	}
	e.Define("tw", p.Interface())
	e.Define("twv", p.Elem().Interface()) // a copy, read only
	e.Define("twbox", []interface{}{p.Interface()})
	e.Define("twreg", map[string]interface{}{"p": p.Interface()})
	valCopy := reflect.New(t).Elem()
	valCopy.Set(p.Elem())
	type holder struct {
		expr, kind string
		ptr        bool
	}
	holders := []holder{{"tw", "pointer", true}, {"twbox[0]", "in-container", true}, {"twreg.p", "in-container", true}, {"twv", "value", false}}
	fields := c11r6Fields(t)
	layout := func() string {
		var parts []string
		for _, f := range fields {
			parts = append(parts, f.name+" "+t.FieldByIndex(f.index).Type.String()+fmt.Sprint(f.index))
		}
		return t.String() + "{" + strings.Join(parts, "; ") + "}"
	}()

	read := func(h holder, f c11r6Field) {
		src := h.expr + "." + f.name
		want := p.Elem().FieldByIndex(f.index)
		if !h.ptr {
			want = valCopy.FieldByIndex(f.index)
		}
		c.Begin(src)
		o := ank.Exec(e, src)
		c.Events(1)
		c.Eval("twins|"+label+"|"+src+"|"+ank.RenderValue(want), true)
		c.Tag("twins:read:" + h.kind + ":" + ord)
		input := map[string]interface{}{"src": src, "go_type": layout, "type_used": ord, "go_field": ank.RenderValue(want), "got": ank.Render(o.Val), "err": ank.ErrText(o.Err), "panic": o.PanicVal}
		sig := "twins:read:" + h.kind + ":"
		switch {
		case o.Panicked:
			c11Report(c, sig+"panic", "panic escaped: "+o.PanicVal+" ["+o.PanicSig+"]", input)
		case o.Err != nil:
			c11Report(c, sig+"error", "reading an exported field of the value failed: "+o.Err.Error(), input)
		default:
			if d := c11Diff(reflect.ValueOf(o.Val), want, c11NilExact, "field "+f.name, 0); d != "" {
				c11Report(c, sig+"wrong-value", d, input)
			}
		}
	}
	for _, h := range holders {
		for _, f := range fields {
			read(h, f)
		}
	}

	// writes through a pointer: values assignable to the field type
	nw := 0
	for _, h := range holders {
		if !h.ptr {
			continue
		}
		for _, f := range fields {
			fv := p.Elem().FieldByIndex(f.index)
			var a c11Val
			nw++
			switch fv.Type() {
			case c11TInt64:
				n := int64(9000 + nw)
				a = c11Val{text: strconv.FormatInt(n, 10), v: reflect.ValueOf(n)}
			case c11TString:
				s := "w" + strconv.Itoa(nw)
				a = c11Val{text: strconv.Quote(s), v: reflect.ValueOf(s)}
			case reflect.TypeOf(float64(0)):
				x := float64(nw) + 0.25
				a = c11Val{text: strconv.FormatFloat(x, 'f', 2, 64), v: reflect.ValueOf(x)}
			case reflect.TypeOf(true):
				b := !fv.Bool()
				a = c11Val{text: strconv.FormatBool(b), v: reflect.ValueOf(b)}
			default:
				continue
			}
			before := make([]reflect.Value, len(fields))
			for i, g := range fields {
				cp := reflect.New(p.Elem().FieldByIndex(g.index).Type()).Elem()
				cp.Set(p.Elem().FieldByIndex(g.index))
				before[i] = cp
			}
			src := h.expr + "." + f.name + " = " + a.text
			c.Begin(src)
			o := ank.Exec(e, src)
			c.Events(1)
			c.Eval("twins|"+label+"|"+src, true)
			c.Tag("twins:write:" + h.kind + ":" + ord)
			input := map[string]interface{}{"src": src, "go_type": layout, "type_used": ord, "after": ank.RenderValue(p.Elem()), "err": ank.ErrText(o.Err), "panic": o.PanicVal}
			sig := "twins:write:" + h.kind + ":"
			if o.Panicked {
				c11Report(c, sig+"panic", "panic escaped: "+o.PanicVal+" ["+o.PanicSig+"]", input)
				continue
			}
			other := ""
			for i, g := range fields {
				if g.name == f.name || len(g.index) < len(f.index) && reflect.DeepEqual(g.index, f.index[:len(g.index)]) {
					continue // the field itself, or the embedded struct that contains it
				}
				if len(f.index) < len(g.index) && reflect.DeepEqual(f.index, g.index[:len(f.index)]) {
					continue
				}
				if d := c11Diff(p.Elem().FieldByIndex(g.index), before[i], c11NilExact, "field "+g.name, 0); d != "" {
					other = d
				}
			}
			switch {
			case other != "":
				c11Report(c, sig+"other-field-changed", "writing "+f.name+" changed another field of the Go value: "+other, input)
			case o.Err != nil:
				c11Report(c, sig+"error", "writing an assignable value to an exported field through a pointer failed: "+o.Err.Error(), input)
			default:
				if d := c11Diff(p.Elem().FieldByIndex(f.index), a.v, c11NilExact, "field "+f.name, 0); d != "" {
					c11Report(c, sig+"wrong-value", "after the write the Go value's own field does not hold the value: "+d, input)
				}
			}
			read(h, f)
		}
	}

	// methods (those of the harness types record what reaches them)
	rec := &c11Rec{}
	pt := p.Type()
	for mi := 0; mi < pt.NumMethod(); mi++ {
		m := pt.Method(mi)
		if m.Name == "Name" {
			continue // does not record
		}
		mv := p.Method(mi)
		ft := mv.Type()
		for _, h := range holders {
			if !h.ptr {
				continue
			}
			k := &c11Call{callee: h.expr + "." + m.Name, ft: ft, rec: rec}
			rec.results = c11GenResults(r, ft)
			nIn := ft.NumIn()
			fixedN := nIn
			if ft.IsVariadic() {
				fixedN--
			}
			var rest []c11Val
			for i := 0; i < fixedN; i++ {
				k.pre = append(k.pre, ce.arg(ce.pick(r, ft.In(i), 1), r.Intn(2) == 0))
			}
			if ft.IsVariadic() {
				for j := r.Intn(3); j > 0; j-- {
					rest = append(rest, ce.arg(ce.pick(r, ft.In(nIn-1).Elem(), 1), r.Intn(2) == 0))
				}
				if r.Intn(3) == 0 {
					lst := c11ListOf(rest)
					k.spread = &lst
				} else {
					k.pre = append(k.pre, rest...)
				}
			} else if nIn > 0 && r.Intn(3) == 0 {
				lst := c11ListOf(k.pre[nIn-1:])
				k.pre = k.pre[:nIn-1]
				k.spread = &lst
			}
			vd := k.judge(c, e, "twins:method@"+h.kind, 0)
			c.Tag("twins:call:" + h.kind + ":" + ord)
			if vd.failure == "" && vd.ex.kind == c11OK && rec.method != m.Name {
				in := k.input(vd)
				in["go_type"], in["ran"] = layout, rec.method
				c11Report(c, "twins:method@"+h.kind+":wrong-method", "member syntax called "+rec.method+" of the Go value, the name denotes "+m.Name, in)
			}
			if vd.failure == "" && vd.ex.kind == c11OK && rec.method == m.Name {
				if d := c11r6RecvDiff(rec.recv, p); d != "" {
					in := k.input(vd)
					in["go_type"] = layout
					c11Report(c, "twins:method@"+h.kind+":wrong-receiver", d, in)
				}
			}
		}
	}
}

// c11r6RecvDiff: the receiver a promoted method saw is the embedded part of the
// value at hand: that very pointer for a pointer receiver, its content for a
// value receiver.
func c11r6RecvDiff(recv interface{}, p reflect.Value) string {
	rv := reflect.ValueOf(recv)
	if !rv.IsValid() {
		return "no receiver recorded"
	}
	var find func(v reflect.Value, depth int) (reflect.Value, bool)
	target := rv.Type()
	if target.Kind() == reflect.Ptr {
		target = target.Elem()
	}
	find = func(v reflect.Value, depth int) (reflect.Value, bool) {
		if v.Kind() == reflect.Ptr {
			if v.IsNil() {
				return reflect.Value{}, false
			}
			v = v.Elem()
		}
		if v.Type() == target {
			return v, true
		}
		if v.Kind() != reflect.Struct || depth > 3 {
			return reflect.Value{}, false
		}
		for i := 0; i < v.NumField(); i++ {
			if v.Type().Field(i).Anonymous {
				if x, ok := find(v.Field(i), depth+1); ok {
					return x, true
				}
			}
		}
		return reflect.Value{}, false
	}
	part, ok := find(p, 0)
	if !ok {
		return fmt.Sprintf("the receiver is a %T, which the value does not embed", recv)
	}
	if rv.Kind() == reflect.Ptr {
		if !part.CanAddr() || part.Addr().Pointer() != rv.Pointer() {
			return "the pointer-receiver method reached through a pointer did not get the Go value's own embedded part as receiver"
		}
		return ""
	}
	return c11Diff(rv, part, c11NilExact, "receiver", 0)
}

// c11r6Templates: *text/template.Template and *html/template.Template both print
// as "*template.Template". Every row is compared with Go's own call on the
// same value.
func c11r6Templates(c *wk.Case, htmlFirst bool) {
	e := ank.NewCoreEnv()
	n := strconv.Itoa(c.Rng.Intn(1000))
	text := texttemplate.Must(texttemplate.New("plain" + n).Parse("Hello {{.}} " + n))
	texttemplate.Must(text.New("aux").Parse("aux {{.}}"))
	html := htmltemplate.Must(htmltemplate.New("page" + n).Parse("<b>{{.}}</b> " + n))
	htmltemplate.Must(html.New("side").Parse("<i>{{.}}</i>"))
	if reflect.TypeOf(text).String() != reflect.TypeOf(html).String() {
		c.Inconclusive("twins:printed-names-differ", reflect.TypeOf(text).String()+" / "+reflect.TypeOf(html).String(), "templates")
		return
	}
	e.Define("text", text)
	e.Define("html", html)
	e.Define("newBuilder", func() *strings.Builder { return &strings.Builder{} })
	var tb, hb strings.Builder
	if err := text.Execute(&tb, "<you>"); err != nil {
		c.Inconclusive("twins:template-execute", err.Error(), "text")
		return
	}
	if err := html.Execute(&hb, "<you>"); err != nil {
		c.Inconclusive("twins:template-execute", err.Error(), "html")
		return
	}
	type row struct {
		name, src string
		want      interface{}
		identity  bool
	}
	rowsOf := func(v string, name, aux, out, auxOut string, self, none, tree interface{}) []row {
		return []row{
			{"Name", v + ".Name()", name, false},
			{"Lookup", v + ".Lookup(" + strconv.Quote(aux) + ").Name()", aux, false},
			{"Lookup", v + ".Lookup(" + strconv.Quote(name) + ")", self, true},
			{"Lookup", v + `.Lookup("nosuch")`, none, true},
			{"Execute", "b = newBuilder(); err = " + v + `.Execute(b, "<you>"); if err != nil { throw err }; b.String()`, out, false},
			{"ExecuteTemplate", "b = newBuilder(); err = " + v + ".ExecuteTemplate(b, " + strconv.Quote(aux) + `, "<x>"); if err != nil { throw err }; b.String()`, auxOut, false},
			{"Tree", v + ".Tree", tree, true},
			{"Name", v + ".Name()", name, false},
		}
	}
	var ta, ha strings.Builder
	if err := text.ExecuteTemplate(&ta, "aux", "<x>"); err != nil {
		c.Inconclusive("twins:template-execute", err.Error(), "text")
		return
	}
	if err := html.ExecuteTemplate(&ha, "side", "<x>"); err != nil {
		c.Inconclusive("twins:template-execute", err.Error(), "html")
		return
	}
	tr := rowsOf("text", text.Name(), "aux", tb.String(), ta.String(), text.Lookup(text.Name()), text.Lookup("nosuch"), text.Tree)
	hr := rowsOf("html", html.Name(), "side", hb.String(), ha.String(), html.Lookup(html.Name()), html.Lookup("nosuch"), html.Tree)
	groups := [][]row{tr, hr}
	if htmlFirst {
		groups = [][]row{hr, tr}
	}
	for gi, g := range groups {
		ord := "first"
		if gi > 0 {
			ord = "later"
		}
		for _, rw := range g {
			c.Begin(rw.src)
			o := ank.Exec(e, rw.src)
			c.Events(1)
			c.Eval("twins|template|"+rw.src, true)
			c.Tag("twins:template:" + rw.name + ":" + ord)
			input := map[string]interface{}{"src": rw.src, "type_used": ord, "want": ank.Render(rw.want), "got": ank.Render(o.Val), "err": ank.ErrText(o.Err), "panic": o.PanicVal}
			sig := "twins:template:" + rw.name + ":"
			switch {
			case o.Panicked:
				c11Report(c, sig+"panic", "panic escaped: "+o.PanicVal+" ["+o.PanicSig+"]", input)
			case o.Err != nil:
				c11Report(c, sig+"error", "a member of the Go value reached with member syntax failed: "+o.Err.Error(), input)
			case rw.identity:
				if o.Val != rw.want {
					c11Report(c, sig+"wrong-value", "got "+ank.Render(o.Val)+", Go's own call on the value gives "+ank.Render(rw.want)+" (another pointer)", input)
				}
			default:
				if d := c11Diff(reflect.ValueOf(o.Val), reflect.ValueOf(rw.want), c11NilExact, rw.name, 0); d != "" {
					c11Report(c, sig+"wrong-value", d, input)
				}
			}
		}
	}
}

// ---------------------------------------------------------------------------
// phase numedge

type C11R6Uint uint

type C11R6Nums struct {
	I   int
	I8  int8
	I16 int16
	I32 int32
	I64 int64
	U   uint
	U8  uint8
	U16 uint16
	U32 uint32
	U64 uint64
	UP  uintptr
	F32 float32
	F64 float64
	MI  C11MyInt
	MU  C11MyU64
	MW  C11R6Uint
}

func (n *C11R6Nums) SetU(u uint64, p uintptr, m C11MyU64, xs ...uint64) uint64 {
	r := c11Enter("SetU", n, reflect.ValueOf(&u).Elem(), reflect.ValueOf(&p).Elem(), reflect.ValueOf(&m).Elem(), reflect.ValueOf(&xs).Elem())
	return r[0].Interface().(uint64)
}

func (n *C11R6Nums) SetI(i int64, w C11R6Uint, f float32, xs ...uint) int64 {
	r := c11Enter("SetI", n, reflect.ValueOf(&i).Elem(), reflect.ValueOf(&w).Elem(), reflect.ValueOf(&f).Elem(), reflect.ValueOf(&xs).Elem())
	return r[0].Interface().(int64)
}

var c11r6NumsT = reflect.TypeOf(C11R6Nums{})

// c11r6NumSrcs: the sources that are script numbers (int64 / float64 scalars).
func c11r6NumSrcs(ce *c11Env) []int {
	var out []int
	for i, a := range ce.vals {
		if v := c11Unwrap(a.v); v.IsValid() && (v.Type() == c11TInt64 || v.Type() == reflect.TypeOf(float64(0))) {
			out = append(out, i)
		}
	}
	return out
}

func c11PhaseNumEdge(c *wk.Case) {
	ce := c11NewEnv(c)
	e := ce.e
	fld := c11r6NumsT.Field(c.Index % c11r6NumsT.NumField())
	t := fld.Type
	nums := c11r6NumSrcs(ce)
	strIdx := -1
	for i, s := range c11Srcs {
		if s.expr == `"a"` {
			strIdx = i
		}
	}
	// (1) callback results
	ft1 := reflect.FuncOf(nil, []reflect.Type{t}, false)
	ft2 := reflect.FuncOf([]reflect.Type{c11TInt64}, []reflect.Type{t, c11TString}, false)
	for _, i := range nums {
		c11RunCb(c, ce, c11CbSpec{ft: ft1, nInv: 1, mode: c11CbFine, rets: []int{i}})
		if strIdx >= 0 {
			c11RunCb(c, ce, c11CbSpec{ft: ft2, nInv: 2, mode: c11CbFine, rets: []int{i, strIdx}})
		}
		c.Tag("numedge:callback-result:->" + c11TypeLabel(t))
	}
	// (2) field stores through a pointer
	obj := &C11R6Nums{}
	e.Define("nums", obj)
	e.Define("numbox", []interface{}{obj})
	for n, i := range nums {
		a := ce.arg(i, n%2 == 0)
		h := "nums"
		if n%3 == 2 {
			h = "numbox[0]"
		}
		before := *obj
		src := h + "." + fld.Name + " = " + a.text
		c.Begin(src)
		o := ank.Exec(e, src)
		c.Events(1)
		c.Eval("numedge|"+src+"|"+ank.RenderValue(a.v), true)
		c.Tag("numedge:field-store:->" + c11TypeLabel(t))
		after := *obj
		got := reflect.ValueOf(after).FieldByName(fld.Name)
		cv := c11RefConvert(a.v, t)
		input := map[string]interface{}{"src": src, "value": ank.RenderValue(a.v), "field_type": t.String(), "before": ank.RenderValue(reflect.ValueOf(before).FieldByName(fld.Name)),
			"after": ank.RenderValue(got), "go_conversion": ank.RenderValue(cv.v), "err": ank.ErrText(o.Err), "panic": o.PanicVal}
		sig := "numedge:field-store:" + c11Label(a.v) + "->" + c11TypeLabel(t) + ":"
		if o.Panicked {
			c11Report(c, sig+"panic", "panic escaped: "+o.PanicVal+" ["+o.PanicSig+"]", input)
			continue
		}
		other := false
		for j := 0; j < c11r6NumsT.NumField(); j++ {
			if j != fld.Index[0] && c11Diff(reflect.ValueOf(after).Field(j), reflect.ValueOf(before).Field(j), c11NilExact, "", 0) != "" {
				other = true
			}
		}
		unchanged := c11Diff(got, reflect.ValueOf(before).FieldByName(fld.Name), c11NilExact, "", 0) == ""
		switch {
		case other:
			c11Report(c, sig+"other-field-changed", "the store changed another field", input)
		case cv.st != c11OK:
			c.Excluded("numedge:" + cv.why)
		case o.Err != nil:
			// UNSPECIFIED (header of c11.go): a store that needs a conversion may be
			// refused; the field then keeps its value
			if !unchanged {
				c11Report(c, sig+"failed-but-changed", "the store failed yet the field changed", input)
			}
		default:
			if d := c11Diff(got, cv.v, cv.mode, "field "+fld.Name, 0); d != "" {
				c11Report(c, sig+"wrong-value", "after the store the Go field does not hold Go's conversion of the number: "+d, input)
			}
		}
		// and the field reads back as what Go holds
		rsrc := h + "." + fld.Name
		ro := ank.Exec(e, rsrc)
		c.Events(1)
		if ro.Panicked || ro.Err != nil {
			c11Report(c, "numedge:field-read:error", "reading the field back failed: "+ank.ErrText(ro.Err)+ro.PanicVal, map[string]interface{}{"src": rsrc})
		} else if d := c11Diff(reflect.ValueOf(ro.Val), got, c11NilExact, "field "+fld.Name, 0); d != "" {
			c11Report(c, "numedge:field-read:wrong-value", d, map[string]interface{}{"src": rsrc, "go_field": ank.RenderValue(got)})
		}
	}
	// (3) parameters and variadic tail of methods reached with member syntax: the
	// numbers rotate through the positions (every number at every position over
	// the cases of the phase)
	rec := &c11Rec{}
	pv := reflect.ValueOf(obj)
	for n := range nums {
		at := func(d int) c11Val { return ce.arg(nums[(n+d*(c.Index+1))%len(nums)], (n+d)%2 == 0) }
		for mi, m := range []string{"SetU", "SetI"} {
			ft := pv.MethodByName(m).Type()
			k := &c11Call{callee: "nums." + m, ft: ft, rec: rec, pre: []c11Val{at(0), at(1), at(2)}}
			tail := []c11Val{at(3), at(4)}
			if (n+mi)%3 == 0 {
				lst := c11ListOf(tail)
				k.spread = &lst
			} else {
				k.pre = append(k.pre, tail...)
			}
			rec.results = c11GenResults(c.Rng, ft)
			k.recvCheck = func(recv, snap interface{}) string {
				if p, ok := recv.(*C11R6Nums); !ok || p != obj {
					return "the pointer-receiver method did not get the Go value itself as receiver"
				}
				return ""
			}
			k.judge(c, e, "numedge:method", 0)
			c.Tag("numedge:method:" + m)
		}
	}
}
