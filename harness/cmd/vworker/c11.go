package main

// C11 — values and calls cross the Go boundary faithfully.
//
// Monitor: the Go side of the boundary is manufactured by the harness and
// RECORDS what reaches it. Go functions are made at run time with
// reflect.FuncOf + reflect.MakeFunc over a pool of parameter/result types;
// their body stores the []reflect.Value it received (so the NUMBER of
// invocations is observed too) and returns PRNG-chosen results. The oracle is
// c11RefConvert, written from the property statement ("arrives as the value
// Go's own conversion to T would produce; element-wise for slices and maps;
// T's zero value for nil; or the call fails with an error when no conversion
// exists"): a conversion exists for every supplied argument => the recorder was
// invoked EXACTLY ONCE with arguments of identical dynamic type and value and
// the script got every result back (several as a list); otherwise => an error
// and ZERO invocations. A panic escaping vm.Execute is always a violation.
//
// Phases
//   fixed     deterministic cases (one per known or repaired finding + sanity rows;
//             case 10, recursive Go types, is in c11_r6.go)
//   conv      complete matrix (script/Go source value) x (target type) under
//             the single-argument forms of all call shapes
//   roundtrip every Go value kind x every route back to Go (read, container,
//             identity function, script function, assignment)
//   member    exported fields read / written through a pointer, value- and
//             pointer-receiver methods (fixed, variadic, spread)
//   callback  script functions handed to Go as func-typed parameters
//   calls     PRNG signatures (1-5 params, 0-3 results, variadic tails) x
//             argument tuples x the four call shapes
//   named, empty, cbconc: see c11_ext.go
//   selector, slotarg: see c11_r4.go
//   ptrarg, cbvar, deepstore: see c11_r5.go
//   gocall, twins, numedge: see c11_r6.go
//   history: see c11_r7.go (sequences of conversions in one process)
//
// Outside the statement (kept out of the generator's domain or accepted both
// ways; each place is marked UNSPECIFIED):
//   * string -> uint8/int32 parameters (anko's documented string->byte/rune path)
//   * pointer -> pointer of another type (anko converts the pointee; Go has no
//     such conversion, the statement names only slices and maps as element-wise)
//   * arrays as conversion source/target: WHAT arrives is not judged (nil ->
//     zero value and identity are); array-typed parameters are generated only
//     once c11PendingFix_arrayParamPanic is false (a panic out of vm.Execute is
//     neither "arrives" nor "fails with an error")
//   * functions whose type coincides with anko's VM-function protocol
//   * a spread list longer than the parameters of a fixed-arity function, a
//     spread expression that is not a slice
//   * a spread that would have to fill fixed parameters of a variadic function:
//     refusing the call and spreading the list are both accepted; an invocation
//     with the list itself as one argument is neither (generated only once
//     c11PendingFix_spreadIntoFixedOfVariadic is false)
//   * nil versus empty for the variadic tail the call builds itself and for a
//     typed nil slice/map converted element-wise (see c11NilConv)
//   * what a field write does when the value needs a conversion (accepted:
//     error+unchanged, or Go's conversion), writes through a non-pointer
//   * the script value of a call of a function without results
//   * whether a receiver mutation made by a pointer-receiver method reached
//     through a NON-pointer struct value is visible afterwards
//   * `&x` arguments (c11_r5.go): for a pointee type other than interface{} a
//     refusal of the call; the dynamic type x has after Go stored a value of
//     another numeric/string type; addresses of non-variables, pointers taken
//     earlier, a spread list written behind the last parameter
//   * whether surplus results of a callback are an error or dropped

import (
	"context"
	"encoding/json"
	"fmt"
	"math"
	"math/rand"
	"reflect"
	"sort"
	"strconv"
	"strings"
	"syscall"
	"time"

	"github.com/mattn/anko/env"

	"verifharness/internal/ank"
	"verifharness/internal/fw"
	"verifharness/internal/wk"
)

// ---------------------------------------------------------------------------
// harness-defined Go types reachable from scripts

type C11MyInt int64
type C11MyStr string
type C11MyU64 uint64

type c11Err struct{ Msg string }

func (e *c11Err) Error() string { return e.Msg }

// C11Namer is a non-empty interface (implemented by *C11S only).
type C11Namer interface{ Name() string }

type C11Inner struct{ Z int64 }

type C11Pair struct {
	K string
	V int64
}

// C11Pair2 has the same underlying type as C11Pair (Go converts between them).
type C11Pair2 struct {
	K string
	V int64
}

type C11S struct {
	A  int64
	B  string
	F  float64
	N8 int8
	U  uint16
	Ok bool
	L  []int64
	M  map[string]int64
	P  *C11S
	I  interface{}
	E  error
	Fn func(int64) int64
	C11Inner
}

// c11Rec is the recorder shared by manufactured functions and methods.
type c11Rec struct {
	calls   int
	args    [][]reflect.Value
	results []reflect.Value
	recv    interface{} // receiver seen by the last method call
	snap    interface{} // content of a pointer receiver on entry
	method  string
}

var c11Cur = &c11Rec{}

func c11Enter(name string, recv interface{}, args ...reflect.Value) []reflect.Value {
	r := c11Cur
	r.calls++
	r.args = append(r.args, args)
	r.recv = recv
	switch p := recv.(type) {
	case *C11S:
		if p != nil {
			r.snap = *p
		}
	case *C11Inner:
		if p != nil {
			r.snap = *p
		}
	}
	r.method = name
	return r.results
}

func c11ResErr(v reflect.Value) error {
	if !v.IsValid() || (v.Kind() == reflect.Interface && v.IsNil()) {
		return nil
	}
	e, _ := v.Interface().(error)
	return e
}

// value-receiver methods
func (s C11S) VGet() int64 {
	r := c11Enter("VGet", s)
	return r[0].Interface().(int64)
}
func (s C11S) V0(a int64) { c11Enter("V0", s, reflect.ValueOf(&a).Elem()) }
func (s C11S) VM(a int64, b string) (int64, string) {
	r := c11Enter("VM", s, reflect.ValueOf(&a).Elem(), reflect.ValueOf(&b).Elem())
	return r[0].Interface().(int64), r[1].Interface().(string)
}
func (s C11S) VVar(a int64, xs ...float64) (int64, int) {
	r := c11Enter("VVar", s, reflect.ValueOf(&a).Elem(), reflect.ValueOf(&xs).Elem())
	return r[0].Interface().(int64), r[1].Interface().(int)
}

// pointer-receiver methods
func (s *C11S) Name() string { return "C11S" }
func (s *C11S) PSet(v int64) {
	c11Enter("PSet", s, reflect.ValueOf(&v).Elem())
	s.A = v
}
func (s *C11S) PM(a int8, b interface{}, c []int64) (int64, string, error) {
	r := c11Enter("PM", s, reflect.ValueOf(&a).Elem(), reflect.ValueOf(&b).Elem(), reflect.ValueOf(&c).Elem())
	return r[0].Interface().(int64), r[1].Interface().(string), c11ResErr(r[2])
}
func (s *C11S) PVar(p string, xs ...interface{}) []interface{} {
	r := c11Enter("PVar", s, reflect.ValueOf(&p).Elem(), reflect.ValueOf(&xs).Elem())
	x, _ := r[0].Interface().([]interface{})
	return x
}
func (s *C11S) P3(a, b, c int64) int64 {
	r := c11Enter("P3", s, reflect.ValueOf(&a).Elem(), reflect.ValueOf(&b).Elem(), reflect.ValueOf(&c).Elem())
	return r[0].Interface().(int64)
}

// promoted methods
func (i C11Inner) GetZ() int64 {
	r := c11Enter("GetZ", i)
	return r[0].Interface().(int64)
}
func (i *C11Inner) SetZ(v int64) {
	c11Enter("SetZ", i, reflect.ValueOf(&v).Elem())
	i.Z = v
}

var (
	c11TInt64  = reflect.TypeOf(int64(0))
	c11TString = reflect.TypeOf("")
	c11TIface  = reflect.TypeOf((*interface{})(nil)).Elem()
	c11TError  = reflect.TypeOf((*error)(nil)).Elem()
	c11TNamer  = reflect.TypeOf((*C11Namer)(nil)).Elem()
	c11TCtx    = reflect.TypeOf((*context.Context)(nil)).Elem()
	c11TRV     = reflect.TypeOf(reflect.Value{})
	c11TS      = reflect.TypeOf(C11S{})
	c11TPS     = reflect.TypeOf((*C11S)(nil))
)

// parameter/result type pool
var c11Types = append(c11BaseTypes[:len(c11BaseTypes):len(c11BaseTypes)], c11ArrayTargets()...)

// c11ArrayTargets: array-typed parameters. What arrives for a converted value is
// UNSPECIFIED (the statement names only slices and maps as element-wise), but
// nil -> zero value, identity and "no panic escapes, the function is not
// invoked twice" are judged.
func c11ArrayTargets() []reflect.Type {
	if c11PendingFix_arrayParamPanic {
		return nil
	}
	return []reflect.Type{reflect.TypeOf([2]int64{}), reflect.TypeOf([2]interface{}{}), reflect.TypeOf([1]string{})}
}

var c11BaseTypes = []reflect.Type{
	reflect.TypeOf(int(0)), reflect.TypeOf(int8(0)), reflect.TypeOf(int16(0)), reflect.TypeOf(int32(0)), c11TInt64,
	reflect.TypeOf(uint(0)), reflect.TypeOf(uint8(0)), reflect.TypeOf(uint16(0)), reflect.TypeOf(uint32(0)), reflect.TypeOf(uint64(0)),
	reflect.TypeOf(float32(0)), reflect.TypeOf(float64(0)), c11TString, reflect.TypeOf(true),
	c11TIface, c11TError, c11TNamer, reflect.TypeOf(C11MyInt(0)), reflect.TypeOf(C11MyStr("")),
	reflect.TypeOf((*int64)(nil)), c11TPS,
	c11TS, reflect.TypeOf(C11Pair{}), reflect.TypeOf(C11Pair2{}),
	reflect.TypeOf([]int64(nil)), reflect.TypeOf([]int8(nil)), reflect.TypeOf([]uint8(nil)), reflect.TypeOf([]int32(nil)),
	reflect.TypeOf([]float64(nil)), reflect.TypeOf([]float32(nil)), reflect.TypeOf([]string(nil)), reflect.TypeOf([]bool(nil)),
	reflect.TypeOf([]interface{}(nil)), reflect.TypeOf([][]int64(nil)), reflect.TypeOf([][]interface{}(nil)),
	reflect.TypeOf([]C11S(nil)), reflect.TypeOf([]*C11S(nil)), reflect.TypeOf([]error(nil)), reflect.TypeOf([]C11MyInt(nil)),
	reflect.TypeOf([]map[string]int64(nil)),
	reflect.TypeOf(map[string]int64(nil)), reflect.TypeOf(map[string]interface{}(nil)), reflect.TypeOf(map[int64]string(nil)),
	reflect.TypeOf(map[interface{}]interface{}(nil)), reflect.TypeOf(map[string][]int64(nil)), reflect.TypeOf(map[C11MyStr]float64(nil)),
	reflect.TypeOf(map[string]map[string]int64(nil)), reflect.TypeOf(map[bool]int64(nil)),
	reflect.TypeOf((func(int64) int64)(nil)), reflect.TypeOf((func(int64, string) (int64, error))(nil)), reflect.TypeOf((func())(nil)),
	reflect.TypeOf((chan int64)(nil)),
	// round 6 (appended, so that the index-based picks above stay what they were): the
	// unsigned targets whose range exceeds int64's, a named one, and containers of them
	reflect.TypeOf(uintptr(0)), reflect.TypeOf(C11MyU64(0)), reflect.TypeOf([]uint64(nil)), reflect.TypeOf(map[string]uint64(nil)),
	// round 7 (appended): a non-empty interface of the standard library that named types of
	// the basic kinds implement (time.Duration, json.Number, the C11R7 types of c11_r7.go)
	c11r7TStringer,
}

// extra kinds that only travel (round trip), never a conversion target
var c11TravelTypes = []reflect.Type{
	reflect.TypeOf([2]int64{}), reflect.TypeOf(complex64(0)), reflect.TypeOf(complex128(0)), reflect.TypeOf(C11Inner{}),
	reflect.TypeOf((*C11Pair)(nil)), reflect.TypeOf((chan string)(nil)), reflect.TypeOf((**int64)(nil)),
	reflect.TypeOf(struct{ X, Y int64 }{}), reflect.TypeOf([]C11Pair(nil)), reflect.TypeOf(map[int8]*C11S(nil)),
}

func c11TypeLabel(t reflect.Type) string { return strings.ReplaceAll(t.String(), " ", "") }

// ---------------------------------------------------------------------------
// comparison: identical dynamic type and value; identity for pointers and
// channels. How a nil and an empty slice/map compare depends on where the
// expected value comes from:
//
//	c11NilExact  identity and Go's own conversions keep nil-ness: they differ.
//	c11NilEither UNSPECIFIED places (the variadic tail the call itself builds,
//	             what a variadic script function collects): never distinguished.
//	c11NilConv   the expected value was built element-wise. A script list or map
//	             of length 0 is an empty, NON-nil value and its element-wise
//	             conversion is an empty non-nil container: an expected non-nil
//	             container must arrive non-nil. An expected nil container stems
//	             from a typed nil source, where "T's zero value for nil" and
//	             "element-wise" both apply: nil and empty are both accepted.
//	c11NilTail   c11NilEither at the top level, c11NilConv below it.
const (
	c11NilExact = iota
	c11NilEither
	c11NilConv
	c11NilTail
)

func c11NilMismatch(mode int, got, want reflect.Value) bool {
	switch mode {
	case c11NilExact:
		return got.IsNil() != want.IsNil()
	case c11NilConv:
		return got.IsNil() && !want.IsNil()
	}
	return false
}

func c11Unwrap(v reflect.Value) reflect.Value {
	for v.IsValid() && v.Kind() == reflect.Interface {
		if v.IsNil() {
			return reflect.Value{}
		}
		v = v.Elem()
	}
	return v
}

func c11Diff(got, want reflect.Value, mode int, path string, depth int) string {
	got, want = c11Unwrap(got), c11Unwrap(want)
	if !got.IsValid() || !want.IsValid() {
		if got.IsValid() != want.IsValid() {
			return fmt.Sprintf("%s: got %s, want %s", path, ank.RenderValue(got), ank.RenderValue(want))
		}
		return ""
	}
	if got.Type() != want.Type() {
		return fmt.Sprintf("%s: got type %v, want type %v (got %s, want %s)", path, got.Type(), want.Type(), ank.RenderValue(got), ank.RenderValue(want))
	}
	if depth > 12 {
		return ""
	}
	bad := func() string {
		return fmt.Sprintf("%s: got %s, want %s", path, ank.RenderValue(got), ank.RenderValue(want))
	}
	switch got.Kind() {
	case reflect.Bool:
		if got.Bool() != want.Bool() {
			return bad()
		}
	case reflect.Int, reflect.Int8, reflect.Int16, reflect.Int32, reflect.Int64:
		if got.Int() != want.Int() {
			return bad()
		}
	case reflect.Uint, reflect.Uint8, reflect.Uint16, reflect.Uint32, reflect.Uint64, reflect.Uintptr:
		if got.Uint() != want.Uint() {
			return bad()
		}
	case reflect.Float32, reflect.Float64:
		a, b := got.Float(), want.Float()
		if !(math.IsNaN(a) && math.IsNaN(b)) && math.Float64bits(a) != math.Float64bits(b) {
			return bad()
		}
	case reflect.Complex64, reflect.Complex128:
		if got.Complex() != want.Complex() {
			return bad()
		}
	case reflect.String:
		if got.String() != want.String() {
			return bad()
		}
	case reflect.Ptr, reflect.Chan, reflect.UnsafePointer:
		if got.Pointer() != want.Pointer() {
			return path + ": not the same " + got.Kind().String() + " (identity lost): got " + ank.RenderValue(got) + ", want " + ank.RenderValue(want)
		}
	case reflect.Func:
		// identity of a func value cannot be observed through reflect (every
		// MakeFunc value shares one code pointer); nil-ness can.
		if got.IsNil() != want.IsNil() {
			return bad()
		}
	case reflect.Slice:
		if c11NilMismatch(mode, got, want) {
			return path + ": nil-ness differs: got " + c11NilText(got) + ", want " + c11NilText(want)
		}
		if mode == c11NilTail {
			mode = c11NilConv
		}
		if got.Len() != want.Len() {
			return bad()
		}
		for i := 0; i < got.Len(); i++ {
			if d := c11Diff(got.Index(i), want.Index(i), mode, path+"["+strconv.Itoa(i)+"]", depth+1); d != "" {
				return d
			}
		}
	case reflect.Array:
		for i := 0; i < got.Len(); i++ {
			if d := c11Diff(got.Index(i), want.Index(i), mode, path+"["+strconv.Itoa(i)+"]", depth+1); d != "" {
				return d
			}
		}
	case reflect.Map:
		if c11NilMismatch(mode, got, want) {
			return path + ": nil-ness differs: got " + c11NilText(got) + ", want " + c11NilText(want)
		}
		if mode == c11NilTail {
			mode = c11NilConv
		}
		if got.Len() != want.Len() {
			return bad()
		}
		it := want.MapRange()
		for it.Next() {
			gv := got.MapIndex(it.Key())
			if !gv.IsValid() {
				return fmt.Sprintf("%s: key %s missing: got %s, want %s", path, ank.RenderValue(it.Key()), ank.RenderValue(got), ank.RenderValue(want))
			}
			if d := c11Diff(gv, it.Value(), mode, path+"["+ank.RenderValue(it.Key())+"]", depth+1); d != "" {
				return d
			}
		}
	case reflect.Struct:
		for i := 0; i < got.NumField(); i++ {
			if got.Type().Field(i).PkgPath != "" {
				continue
			}
			if d := c11Diff(got.Field(i), want.Field(i), mode, path+"."+got.Type().Field(i).Name, depth+1); d != "" {
				return d
			}
		}
	}
	return ""
}

// c11NilText renders a slice/map with its nil-ness (ank.RenderValue shows both as empty).
func c11NilText(v reflect.Value) string {
	if v.IsNil() {
		return v.Type().String() + "(nil)"
	}
	return "non-nil " + v.Type().String() + " " + ank.RenderValue(v)
}

// ---------------------------------------------------------------------------
// the oracle: what does "Go's own conversion of v to T" produce?

const c11WhyNilPtr = "typed nil pointer -> other pointer type"

const (
	c11OK     = iota // a conversion exists; v holds the expected value (typed T)
	c11None          // no conversion exists: the call must fail with an error
	c11Unspec        // outside the statement: not judged
)

type c11Conv struct {
	st      int
	v       reflect.Value // of type exactly T when st == c11OK && !adapter
	mode    int           // how nil and empty containers compare (c11NilExact unless built element-wise)
	adapter bool          // script function -> Go func type: a non-nil func of type T
	why     string
}

// c11IsScriptFunc: the type of a script function (anko's VM-function
// protocol: first parameter context.Context, two reflect.Value results).
func c11IsScriptFunc(t reflect.Type) bool {
	return t.Kind() == reflect.Func && t.NumIn() >= 1 && t.In(0) == c11TCtx && t.NumOut() == 2 && t.Out(0) == c11TRV && t.Out(1) == c11TRV
}

func c11Box(v reflect.Value, t reflect.Type) reflect.Value {
	x := reflect.New(t).Elem()
	x.Set(v)
	return x
}

func c11RefConvert(v reflect.Value, t reflect.Type) c11Conv {
	v = c11Unwrap(v)
	if !v.IsValid() {
		return c11Conv{st: c11OK, v: reflect.Zero(t)} // nil -> T's zero value
	}
	vt := v.Type()
	if vt.AssignableTo(t) {
		return c11Conv{st: c11OK, v: c11Box(v, t)} // identity
	}
	if vt.Kind() == reflect.Array || t.Kind() == reflect.Array {
		return c11Conv{st: c11Unspec, why: "array"} // UNSPECIFIED
	}
	if vt.Kind() == reflect.String && (t.Kind() == reflect.Uint8 || t.Kind() == reflect.Int32) {
		return c11Conv{st: c11Unspec, why: "string->byte/rune"} // UNSPECIFIED: documented string->rune path
	}
	if vt.Kind() == reflect.Slice && t.Kind() == reflect.Ptr && t.Elem().Kind() == reflect.Array {
		return c11Conv{st: c11Unspec, why: "slice->*array"}
	}
	if vt.ConvertibleTo(t) {
		return c11Conv{st: c11OK, v: v.Convert(t)} // Go's own conversion
	}
	if vt.Kind() == reflect.Slice && t.Kind() == reflect.Slice {
		// a non-nil source (a script list of length 0 included) gives a non-nil
		// slice; a typed nil source gives T's zero value (compared leniently)
		out := reflect.Zero(t)
		if !v.IsNil() {
			out = reflect.MakeSlice(t, v.Len(), v.Len())
		}
		for i := 0; i < v.Len(); i++ {
			ec := c11RefConvert(v.Index(i), t.Elem())
			if ec.st != c11OK {
				return c11Conv{st: ec.st, why: ec.why}
			}
			if ec.adapter {
				return c11Conv{st: c11Unspec, why: "script function inside a container"}
			}
			out.Index(i).Set(ec.v)
		}
		return c11Conv{st: c11OK, v: out, mode: c11NilConv}
	}
	if vt.Kind() == reflect.Map && t.Kind() == reflect.Map {
		if v.IsNil() {
			return c11Conv{st: c11OK, v: reflect.Zero(t), mode: c11NilConv}
		}
		out := reflect.MakeMap(t)
		st, why := c11OK, ""
		it := v.MapRange()
		for it.Next() {
			kc := c11RefConvert(it.Key(), t.Key())
			ec := c11RefConvert(it.Value(), t.Elem())
			for _, x := range []c11Conv{kc, ec} {
				if x.st == c11None && st != c11None {
					st, why = c11None, x.why
				} else if x.st == c11Unspec && st == c11OK {
					st, why = c11Unspec, x.why
				}
				if x.adapter && st == c11OK {
					st, why = c11Unspec, "script function inside a container"
				}
			}
			if st != c11OK {
				continue
			}
			if out.MapIndex(kc.v).IsValid() {
				st, why = c11Unspec, "keys collide after conversion"
				continue
			}
			out.SetMapIndex(kc.v, ec.v)
		}
		if st != c11OK {
			return c11Conv{st: st, why: why}
		}
		return c11Conv{st: c11OK, v: out, mode: c11NilConv}
	}
	if vt.Kind() == reflect.Func && t.Kind() == reflect.Func {
		if c11IsScriptFunc(vt) && !v.IsNil() {
			return c11Conv{st: c11OK, adapter: true}
		}
		return c11Conv{st: c11None, why: "Go func of another type"}
	}
	if vt.Kind() == reflect.Ptr && t.Kind() == reflect.Ptr {
		// UNSPECIFIED: anko converts the pointee into a fresh pointer, Go has no
		// conversion between unrelated pointer types. Only the case where even
		// the pointee has no conversion is judged (both readings say "error").
		if v.IsNil() {
			return c11Conv{st: c11Unspec, why: c11WhyNilPtr}
		}
		if sub := c11RefConvert(v.Elem(), t.Elem()); sub.st == c11None {
			return c11Conv{st: c11None, why: "pointer: " + sub.why}
		}
		return c11Conv{st: c11Unspec, why: "pointer -> other pointer type"}
	}
	return c11Conv{st: c11None, why: vt.String() + " has no conversion to " + t.String()}
}

// ---------------------------------------------------------------------------
// PRNG Go values of a type (results, callback arguments, struct fields, travellers)

var c11IntPicks = []int64{0, 1, -1, 2, 7, 65, 127, 128, -128, -129, 255, 256, 4095, 4096, 32767, 65535, 65536, 1 << 31, -(1 << 31), 1<<31 - 1, 1<<32 + 1, 1<<53 + 1, math.MaxInt64, math.MinInt64}
var c11FloatPicks = []float64{0, math.Copysign(0, -1), 1, -1, 1.5, -2.5, 65, 300.7, 1e21, 1e-7, 16777217, 9007199254740994, math.MaxFloat64, math.SmallestNonzeroFloat64, math.Inf(1), math.Inf(-1), math.NaN()}
var c11StrPicks = []string{"", "a", "ab", "héllo", "12", "日本", "1.5", "x y", "\x00z"}

var c11IfacePickTypes = []reflect.Type{c11TInt64, reflect.TypeOf(float64(0)), c11TString, reflect.TypeOf(true), reflect.TypeOf(int8(0)), reflect.TypeOf(uint32(0)),
	reflect.TypeOf([]interface{}(nil)), reflect.TypeOf([]int64(nil)), reflect.TypeOf(map[string]int64(nil)), reflect.TypeOf(C11Pair{}), c11TPS, reflect.TypeOf(C11MyInt(0)), reflect.TypeOf(float32(0))}

func c11GenGo(r *rand.Rand, t reflect.Type, d int, key bool) reflect.Value {
	switch t.Kind() {
	case reflect.Bool:
		return reflect.ValueOf(r.Intn(2) == 0).Convert(t)
	case reflect.Int, reflect.Int8, reflect.Int16, reflect.Int32, reflect.Int64:
		x := c11IntPicks[r.Intn(len(c11IntPicks))]
		if r.Intn(4) == 0 {
			x = int64(r.Uint64())
		}
		return reflect.ValueOf(x).Convert(t)
	case reflect.Uint, reflect.Uint8, reflect.Uint16, reflect.Uint32, reflect.Uint64, reflect.Uintptr:
		x := uint64(c11IntPicks[r.Intn(len(c11IntPicks))])
		if r.Intn(4) == 0 {
			x = r.Uint64()
		}
		return reflect.ValueOf(x).Convert(t)
	case reflect.Float32, reflect.Float64:
		x := c11FloatPicks[r.Intn(len(c11FloatPicks))]
		if key && math.IsNaN(x) {
			x = 2.25
		}
		return reflect.ValueOf(x).Convert(t)
	case reflect.Complex64, reflect.Complex128:
		return reflect.ValueOf(complex(float64(r.Intn(9)), -1.5)).Convert(t)
	case reflect.String:
		return reflect.ValueOf(c11StrPicks[r.Intn(len(c11StrPicks))]).Convert(t)
	case reflect.Interface:
		x := reflect.New(t).Elem()
		if r.Intn(5) == 0 {
			return x
		}
		switch {
		case t == c11TError:
			x.Set(reflect.ValueOf(&c11Err{Msg: "e" + strconv.Itoa(r.Intn(100))}))
		case t == c11TNamer:
			x.Set(reflect.ValueOf(&C11S{A: int64(r.Intn(100))}))
		case t == c11r7TStringer:
			switch r.Intn(3) {
			case 0:
				x.Set(reflect.ValueOf(time.Duration(c11IntPicks[r.Intn(len(c11IntPicks))])))
			case 1:
				x.Set(reflect.ValueOf(C11R7ErrStr(c11StrPicks[r.Intn(len(c11StrPicks))])))
			default:
				x.Set(reflect.ValueOf(C11R7F64(c11FloatPicks[r.Intn(len(c11FloatPicks))])))
			}
		case t.NumMethod() > 0:
			// another non-empty interface type: its nil
		default:
			pt := c11IfacePickTypes[r.Intn(len(c11IfacePickTypes))]
			if key || d > 2 {
				pt = c11IfacePickTypes[r.Intn(6)] // hashable scalars
			}
			x.Set(c11GenGo(r, pt, d+1, key))
		}
		return x
	case reflect.Ptr:
		if r.Intn(4) == 0 || d > 3 {
			return reflect.Zero(t)
		}
		p := reflect.New(t.Elem())
		p.Elem().Set(c11GenGo(r, t.Elem(), d+1, false))
		return p
	case reflect.Struct:
		s := reflect.New(t).Elem()
		for i := 0; i < t.NumField(); i++ {
			if t.Field(i).PkgPath != "" {
				continue
			}
			s.Field(i).Set(c11GenGo(r, t.Field(i).Type, d+1, false))
		}
		return s
	case reflect.Slice:
		if r.Intn(5) == 0 {
			return reflect.Zero(t)
		}
		n := r.Intn(4)
		if d > 2 {
			n = r.Intn(2)
		}
		s := reflect.MakeSlice(t, n, n+r.Intn(2))
		for i := 0; i < n; i++ {
			s.Index(i).Set(c11GenGo(r, t.Elem(), d+1, false))
		}
		return s
	case reflect.Array:
		a := reflect.New(t).Elem()
		for i := 0; i < a.Len(); i++ {
			a.Index(i).Set(c11GenGo(r, t.Elem(), d+1, false))
		}
		return a
	case reflect.Map:
		if r.Intn(5) == 0 {
			return reflect.Zero(t)
		}
		m := reflect.MakeMap(t)
		n := r.Intn(4)
		if d > 2 {
			n = r.Intn(2)
		}
		for i := 0; i < n; i++ {
			m.SetMapIndex(c11GenGo(r, t.Key(), d+1, true), c11GenGo(r, t.Elem(), d+1, false))
		}
		return m
	case reflect.Func:
		if r.Intn(3) == 0 {
			return reflect.Zero(t)
		}
		outs := make([]reflect.Value, t.NumOut())
		for i := range outs {
			outs[i] = reflect.Zero(t.Out(i))
		}
		return reflect.MakeFunc(t, func([]reflect.Value) []reflect.Value { return outs })
	case reflect.Chan:
		if r.Intn(3) == 0 {
			return reflect.Zero(t)
		}
		return reflect.MakeChan(t, 1)
	}
	return reflect.Zero(t)
}

// ---------------------------------------------------------------------------
// source values: what a script can hand to Go

type c11Src struct {
	expr   string             // anko constructor expression (when mk == nil)
	mk     func() interface{} // Go value bound with env.Define
	inline bool               // expr may be written inline at the call site (re-evaluation gives an equal value)
}

func c11Sources() []c11Src {
	var s []c11Src
	lit := func(exprs ...string) {
		for _, e := range exprs {
			s = append(s, c11Src{expr: e, inline: true})
		}
	}
	bind := func(vals ...interface{}) {
		for _, v := range vals {
			v := v
			s = append(s, c11Src{mk: func() interface{} { return v }})
		}
	}
	lit("nil", "true", "false")
	lit("0", "1", "-1", "2", "65", "127", "128", "255", "256", "-129", "300", "4095", "4096", "65536", "2147483648", "-2147483649", "4294967297", "9007199254740993", "9223372036854775807")
	bind(int64(math.MinInt64))
	lit("0.0", "1.5", "-2.5", "65.0", "300.7", "-1.0", "1e21", "1e-7", "9007199254740994.0", "3.0e9", "1e300")
	bind(math.NaN(), math.Inf(1), math.Copysign(0, -1))
	lit(`""`, `"a"`, `"ab"`, `"héllo"`, `"12"`, `"日本"`, `"1.5"`)
	lit("[]", "[1, 2]", "[1, 2.5, nil]", `[1, "a"]`, `["a", "b"]`, "[[1, 2], [3]]", "[nil]", "[true, false]", "[1.5, -2.5]", `[[1, "x"]]`, `[{"a": 1}]`,
		"[300, -1]", "[[]]", "[65, 66.0]", "[nil, nil]", `["a"]`, "[[1.5], nil]", "[1, 2, 3]", `[7, "s", 2.5]`)
	lit("{}", `{"a": 1}`, `{"a": 1, "b": 2.5}`, `{"a": "x"}`, `{1: "x", 2: "y"}`, `{"a": [1, 2]}`, `{"a": nil}`, `{"k": {"a": 1}}`, `{1.5: true}`, `{true: 1}`, `{"x": 300}`)
	// typed containers built by the script itself
	lit(`func(){ s = make([]int64, 2); s[0] = 5; s[1] = -7; return s }()`,
		`make([]string, 0)`,
		`func(){ s = make([]float64, 1); s[0] = 2.5; return s }()`,
		`func(){ s = make([]bool, 2); s[1] = true; return s }()`,
		`func(){ m = make(map[string]int64); m["a"] = 1; m["b"] = 2; return m }()`,
		`func(){ m = make(map[int64]string); m[3] = "c"; return m }()`)
	s = append(s, c11Src{expr: `func(){ x = new(int64); *x = 5; return x }()`})
	// script functions
	s = append(s, c11Src{expr: `func(a){ return a }`, inline: true}, c11Src{expr: `func(a, b){ return a, nil }`, inline: true},
		c11Src{expr: `func(a...){ return len(a) }`, inline: true}, c11Src{expr: `func(){ return 1 }`, inline: true})
	// Go values bound into the environment
	bind(int(7), int8(-5), int16(300), int32(65), uint(9), uint8(200), uint16(65535), uint32(1<<31), uint64(math.MaxUint64), float32(1.5), float32(16777216),
		C11MyInt(7), C11MyStr("ms"))
	s = append(s,
		c11Src{mk: func() interface{} { x := int64(42); return &x }},
		c11Src{mk: func() interface{} { return (*int64)(nil) }},
		c11Src{mk: func() interface{} { return C11S{A: 4, B: "c", L: []int64{1}, M: map[string]int64{"k": 1}} }},
		c11Src{mk: func() interface{} { return &C11S{A: 3, B: "b"} }},
		c11Src{mk: func() interface{} { return (*C11S)(nil) }},
		c11Src{mk: func() interface{} { return C11Pair{K: "k", V: 9} }},
		c11Src{mk: func() interface{} { return []int64{1, 2, 3} }},
		c11Src{mk: func() interface{} { return []int64(nil) }},
		c11Src{mk: func() interface{} { return []int64{} }},
		c11Src{mk: func() interface{} { return []int32{65, 66} }},
		c11Src{mk: func() interface{} { return []uint8("hi") }},
		c11Src{mk: func() interface{} { return []string{"x", "y"} }},
		c11Src{mk: func() interface{} { return [][]int64{{1}, {2, 3}} }},
		c11Src{mk: func() interface{} { return []interface{}{int8(1), "x", nil} }},
		c11Src{mk: func() interface{} { return []interface{}{int8(1), uint16(2), float32(3)} }},
		c11Src{mk: func() interface{} { return []float64{1.5} }},
		c11Src{mk: func() interface{} { return []C11S{{A: 1}, {A: 2}} }},
		c11Src{mk: func() interface{} { return []*C11S{{A: 1}, nil} }},
		c11Src{mk: func() interface{} { return []interface{}{&C11S{A: 8}, nil} }},
		c11Src{mk: func() interface{} { return map[string]int64{"a": 1} }},
		c11Src{mk: func() interface{} { return map[string]int64(nil) }},
		c11Src{mk: func() interface{} { return map[string]interface{}{"a": int64(1), "b": "x"} }},
		c11Src{mk: func() interface{} { return map[int64]string{1: "x"} }},
		c11Src{mk: func() interface{} { return map[interface{}]interface{}{int8(1): "x"} }},
		c11Src{mk: func() interface{} { return map[string][]int64{"a": {1, 2}} }},
		c11Src{mk: func() interface{} { return error(&c11Err{Msg: "e1"}) }},
		c11Src{mk: func() interface{} { return []interface{}{&c11Err{Msg: "e2"}, nil} }},
		c11Src{mk: func() interface{} { return make(chan int64, 1) }},
		c11Src{mk: func() interface{} { return func(a int64) int64 { return a + 1 } }},
		c11Src{mk: func() interface{} { return func(a int64, b string) (int64, error) { return a, nil } }},
		c11Src{mk: func() interface{} { return func() {} }},
	)
	// empty containers nested in lists and maps, empty typed Go containers of
	// another element type, named slice / map types
	lit(`{"a": []}`, `{"a": {}}`, "[[], [1]]", "[{}]", `{"a": [], "b": nil}`)
	bind([]int8{}, []int8(nil), map[string]int8{}, map[string]int8(nil), [][]int8{{}, nil}, map[string][]int8{"e": {}, "n": nil},
		C11Ints{3, 4}, C11Dict{"d": 5}, C11Color("red"), C11Cnt(9))
	// round 6 (appended: the positions of the sources above are used by fixed rows):
	// numbers at the edges of the 64-bit integer ranges. A float64 in (2^63, 2^64) is
	// inside the range of uint64 / uint / uintptr and outside int64's; 2^63 and 2^64
	// themselves, the neighbours of 2^63 below and above, values with low bits set
	// (2^63+2048, 2^64-2048), a product that leaves the int64 range, fractions.
	lit("9223372036854777856.0", "1e19", "1.2e19", "18446744073709549568.0", "9223372036854775807 * 1.5", "9223372036854775808.0", "9223372036854774784.0",
		"18446744073709551616.0", "-9223372036854775808.0", "4294967296.5", "255.9", "-0.5",
		"[1e19, 1]", "[9223372036854777856.0, 18446744073709549568.0]", `{"a": 1.2e19}`, `{"a": 1, "b": 18446744073709549568.0}`)
	// round 7 (appended): Go values of named types of the basic kinds (and of a slice and a
	// struct type) WITH methods that implement error and / or fmt.Stringer: the cells
	// "named type -> non-empty interface it implements" next to the cells of the plain values
	// of the same kind, which have no conversion to that interface and come earlier in the row
	bind(C11R7Code(7), C11R7ErrStr("es"), syscall.Errno(2), C11R7Bool(true), C11R7U8(9), time.Duration(1500*time.Millisecond), json.Number("12"),
		C11R7I64(-4), C11R7F64(2.5), C11R7Errs{"x", "y"}, C11R7Rec{A: 1, B: "r"})
	return s
}

var c11Srcs = c11Sources()

// c11Val is one concrete argument: its source text and the Go value the script holds.
type c11Val struct {
	text  string
	v     reflect.Value // invalid = nil
	label string
}

func c11Label(v reflect.Value) string {
	v = c11Unwrap(v)
	if !v.IsValid() {
		return "nil"
	}
	if c11IsScriptFunc(v.Type()) {
		return "scriptfunc"
	}
	return c11TypeLabel(v.Type())
}

// c11Env: one environment with every source bound as s<i>.
type c11Env struct {
	e    *env.Env
	vals []c11Val // by source index, text = name
}

func c11NewEnv(c *wk.Case) *c11Env {
	ce := &c11Env{e: ank.NewCoreEnv()}
	for i, s := range c11Srcs {
		name := "s" + strconv.Itoa(i)
		if s.mk != nil {
			ce.e.Define(name, s.mk())
		} else {
			o := ank.Exec(ce.e, name+" = "+s.expr)
			if o.Err != nil || o.Panicked {
				c.Inconclusive("source-construction-failed", s.expr+": "+ank.ErrText(o.Err)+o.PanicVal, s.expr)
				ce.e.Define(name, nil)
			}
		}
		g, _ := ce.e.Get(name)
		v := reflect.ValueOf(g)
		ce.vals = append(ce.vals, c11Val{text: name, v: v, label: c11Label(v)})
	}
	return ce
}

// arg returns source i as an argument, written inline when allowed and asked for.
func (ce *c11Env) arg(i int, inline bool) c11Val {
	a := ce.vals[i]
	if inline && c11Srcs[i].inline {
		a.text = c11Srcs[i].expr
	}
	return a
}

// sources whose conversion to t exists / does not exist (cached per process;
// convertibility does not depend on the environment instance)
type c11Cells struct{ ok, none []int }

var c11CellCache = map[reflect.Type]*c11Cells{}

func (ce *c11Env) cells(t reflect.Type) *c11Cells {
	if x, ok := c11CellCache[t]; ok {
		return x
	}
	x := &c11Cells{}
	for i, a := range ce.vals {
		switch cv := c11RefConvert(a.v, t); cv.st {
		case c11OK:
			x.ok = append(x.ok, i)
		case c11None:
			x.none = append(x.none, i)
		}
	}
	c11CellCache[t] = x
	return x
}

// pick chooses a source for a parameter of type t: mostly convertible ones.
func (ce *c11Env) pick(r *rand.Rand, t reflect.Type, pOK float64) int {
	cl := ce.cells(t)
	if r.Float64() < pOK && len(cl.ok) > 0 {
		return cl.ok[r.Intn(len(cl.ok))]
	}
	if len(cl.none) > 0 && r.Intn(2) == 0 {
		return cl.none[r.Intn(len(cl.none))]
	}
	return r.Intn(len(ce.vals))
}

// ---------------------------------------------------------------------------
// one call through the boundary and its judgement

type c11Call struct {
	callee string       // "f", "ps.PM", ...
	ft     reflect.Type // the Go function's type (methods: without receiver)
	pre    []c11Val     // plain arguments
	spread *c11Val      // final `x...` argument, if any
	rec    *c11Rec
	// receiver check for methods (nil for functions)
	recvCheck func(recv, snap interface{}) string
	prelude   string // statements before the call (same Exec)
}

// srcDeferred: the same call made by a defer statement of a function invoked
// right away: the Go function must receive exactly the same arguments (the
// results of a deferred call are discarded).
func (k *c11Call) srcDeferred() string {
	saved := k.prelude
	k.prelude = ""
	call := k.src()
	k.prelude = saved
	return k.prelude + "func() {\n defer " + call + "\n return 0\n}()"
}

func (k *c11Call) src() string {
	var parts []string
	for _, a := range k.pre {
		parts = append(parts, a.text)
	}
	if k.spread != nil {
		parts = append(parts, k.spread.text+"...")
	}
	return k.prelude + k.callee + "(" + strings.Join(parts, ", ") + ")"
}

func (k *c11Call) shape() string {
	switch {
	case !k.ft.IsVariadic() && k.spread == nil:
		return "fixed/plain"
	case !k.ft.IsVariadic():
		if k.ft.NumIn()-len(k.pre) >= 2 {
			return "fixed/spreadN"
		}
		return "fixed/spread1"
	case k.spread == nil:
		return "variadic/plain"
	case len(k.pre) < k.ft.NumIn()-1:
		return "variadic/spreadN" // the spread list has to fill fixed parameters too
	}
	return "variadic/spread"
}

// c11Expect is the statement's verdict on a call.
type c11Expect struct {
	kind    int // c11OK: invoked once with args; c11None: error, zero invocations; c11Unspec: not judged
	arity   bool
	args    []c11Conv
	why     string
	cell    string // "<src>-><dst>" of the argument that decides (first unconvertible one)
	cellIdx int
	nilptr  bool // some argument is a typed nil pointer headed for another pointer type
	orError bool // an error with zero invocations is accepted as well
}

func c11Elems(v reflect.Value) []reflect.Value {
	v = c11Unwrap(v)
	var out []reflect.Value
	for i := 0; i < v.Len(); i++ {
		out = append(out, v.Index(i))
	}
	return out
}

// expect is the statement's verdict on the call; it also notes whether any
// supplied value is a typed nil pointer headed for another pointer type (the
// signature of a known finding), including calls decided by arity alone.
func (k *c11Call) expect() c11Expect {
	ex := k.expect0()
	if ex.nilptr {
		return ex
	}
	var supplied []reflect.Value
	for _, a := range k.pre {
		supplied = append(supplied, a.v)
	}
	if k.spread != nil {
		if sv := c11Unwrap(k.spread.v); sv.IsValid() && sv.Kind() == reflect.Slice {
			supplied = append(supplied, c11Elems(sv)...)
		}
	}
	n := k.ft.NumIn()
	for i, v := range supplied {
		var t reflect.Type
		switch {
		case k.ft.IsVariadic() && i >= n-1:
			t = k.ft.In(n - 1).Elem()
		case i < n:
			t = k.ft.In(i)
		default:
			continue
		}
		if c11RefConvert(v, t).why == c11WhyNilPtr {
			ex.nilptr = true
		}
	}
	return ex
}

func (k *c11Call) expect0() c11Expect {
	ft := k.ft
	n := ft.NumIn()
	var supplied []reflect.Value
	for _, a := range k.pre {
		supplied = append(supplied, a.v)
	}
	ex := c11Expect{kind: c11OK, cellIdx: -1}
	conv := func(v reflect.Value, t reflect.Type, idx int) {
		cv := c11RefConvert(v, t)
		ex.args = append(ex.args, cv)
		if cv.why == c11WhyNilPtr {
			ex.nilptr = true
		}
		if cv.st == c11None && ex.kind != c11None {
			ex.kind, ex.why, ex.cell, ex.cellIdx = c11None, cv.why, c11Label(v)+"->"+c11TypeLabel(t), idx
		}
		if cv.st == c11Unspec && ex.kind == c11OK {
			ex.kind, ex.why = c11Unspec, cv.why
		}
	}
	if !ft.IsVariadic() {
		if k.spread != nil {
			sv := c11Unwrap(k.spread.v)
			if !sv.IsValid() || sv.Kind() != reflect.Slice {
				return c11Expect{kind: c11Unspec, why: "spread of a non-slice"} // UNSPECIFIED
			}
			supplied = append(supplied, c11Elems(sv)...)
			if len(supplied) > n {
				return c11Expect{kind: c11Unspec, why: "spread list longer than the parameter list"} // UNSPECIFIED
			}
		}
		if len(supplied) != n {
			// the function cannot be "called with exactly the supplied arguments"
			return c11Expect{kind: c11None, arity: true, why: fmt.Sprintf("%d arguments for %d parameters", len(supplied), n)}
		}
		for i, v := range supplied {
			conv(v, ft.In(i), i)
		}
		return ex
	}
	m := n - 1
	if k.spread == nil {
		if len(supplied) < m {
			return c11Expect{kind: c11None, arity: true, why: fmt.Sprintf("%d arguments for %d fixed parameters", len(supplied), m)}
		}
		for i := 0; i < m; i++ {
			conv(supplied[i], ft.In(i), i)
		}
		et := ft.In(m).Elem()
		tail := reflect.MakeSlice(ft.In(m), 0, len(supplied)-m)
		// UNSPECIFIED whether the tail the call builds is nil or empty when no
		// argument is left for it; its elements are converted values
		tailC := c11Conv{st: c11OK, mode: c11NilTail}
		for i := m; i < len(supplied); i++ {
			cv := c11RefConvert(supplied[i], et)
			if cv.adapter {
				cv = c11Conv{st: c11Unspec, why: "script function inside the variadic tail"}
			}
			if cv.why == c11WhyNilPtr {
				ex.nilptr = true
			}
			if cv.st == c11None && ex.kind != c11None {
				ex.kind, ex.why, ex.cell, ex.cellIdx = c11None, cv.why, c11Label(supplied[i])+"->"+c11TypeLabel(et), m
			}
			if cv.st == c11Unspec && ex.kind == c11OK {
				ex.kind, ex.why = c11Unspec, cv.why
			}
			if cv.st == c11OK {
				tail = reflect.Append(tail, cv.v)
			}
		}
		tailC.v = tail
		ex.args = append(ex.args, tailC)
		return ex
	}
	if len(supplied) < m && !c11PendingFix_spreadIntoFixedOfVariadic {
		// UNSPECIFIED: Go refuses f(xs...) when fixed parameters are missing; the
		// statement does not say that the list fills them. Both readings are
		// accepted: the call fails without invoking the function, or the function
		// is invoked with exactly the supplied arguments (the plain ones followed
		// by the ELEMENTS of the list). What no reading allows is an invocation
		// with something that was not supplied, e.g. the list itself as one argument.
		sv := c11Unwrap(k.spread.v)
		if !sv.IsValid() || sv.Kind() != reflect.Slice {
			return c11Expect{kind: c11Unspec, why: "spread of a non-slice"}
		}
		supplied = append(supplied, c11Elems(sv)...)
		if len(supplied) < m {
			return c11Expect{kind: c11None, arity: true, why: fmt.Sprintf("%d arguments for %d fixed parameters", len(supplied), m)}
		}
		ex.orError = true
		for i := 0; i < m; i++ {
			conv(supplied[i], ft.In(i), i)
		}
		et := ft.In(m).Elem()
		tail := reflect.MakeSlice(ft.In(m), 0, len(supplied)-m)
		for i := m; i < len(supplied); i++ {
			cv := c11RefConvert(supplied[i], et)
			if cv.st != c11OK || cv.adapter {
				return c11Expect{kind: c11Unspec, why: "spread into fixed parameters: tail element not plainly convertible"}
			}
			tail = reflect.Append(tail, cv.v)
		}
		ex.args = append(ex.args, c11Conv{st: c11OK, v: tail, mode: c11NilTail})
		if ex.kind == c11None {
			// an unconvertible element: error and zero invocations under both readings
			ex.orError = false
		}
		return ex
	}
	if len(supplied) != m {
		// UNSPECIFIED, as above (more plain arguments than fixed parameters
		// followed by a spread: not generated)
		return c11Expect{kind: c11Unspec, why: "spread does not sit at the variadic parameter"}
	}
	sv := c11Unwrap(k.spread.v)
	if sv.IsValid() && sv.Kind() != reflect.Slice {
		return c11Expect{kind: c11Unspec, why: "spread of a non-slice"}
	}
	for i := 0; i < m; i++ {
		conv(supplied[i], ft.In(i), i)
	}
	conv(k.spread.v, ft.In(m), m)
	return ex
}

// bugModelSpread predicts what the defective loop of the fixed-arity spread
// path did before /repo commit 7a69279 (found by earlier probing, repaired
// since): it overwrites the evaluated list with the converted
// element and indexes into THAT for the next parameter. Used only to give the
// known finding a precise signature; it is never part of the oracle.
func (k *c11Call) bugModelSpread() (outcome string, args []reflect.Value) {
	ft := k.ft
	for i, a := range k.pre {
		cv := c11RefConvert(a.v, ft.In(i))
		if cv.st != c11OK || cv.adapter {
			return "?", nil
		}
		args = append(args, cv.v)
	}
	cur := c11Unwrap(k.spread.v)
	for i := 0; len(args) < ft.NumIn(); i++ {
		if !cur.IsValid() {
			return "panic", nil
		}
		if kd := cur.Kind(); (kd != reflect.Slice && kd != reflect.Array && kd != reflect.String) || i >= cur.Len() {
			return "panic", nil
		}
		cv := c11RefConvert(cur.Index(i), ft.In(len(args)))
		if cv.st == c11None {
			return "error", nil
		}
		if cv.st != c11OK || cv.adapter {
			return "?", nil
		}
		args = append(args, cv.v)
		cur = cv.v // interface-typed values stay boxed: indexing them panics, as in the defect
	}
	return "invoked", args
}

type c11Verdict struct {
	deferred bool
	failure  string // "" = held
	detail   string
	ex       c11Expect
	out      ank.Out
	src      string
}

const c11FindingSpread = "finding:fixed-spread-list-overwritten"

func c11RenderArgs(args []reflect.Value) []string {
	var s []string
	for _, a := range args {
		s = append(s, ank.RenderValue(a))
	}
	return s
}

// run executes the call once and judges it. Returns failure "" when held,
// "excluded" when outside the statement.
func (k *c11Call) run(c *wk.Case, e *env.Env) c11Verdict {
	ex := k.expect()
	src := k.src()
	deferred := false
	if c.Rng.Intn(6) == 0 {
		deferred = true
		src = k.srcDeferred()
	}
	vd := c11Verdict{ex: ex, src: src, deferred: deferred}
	rec := k.rec
	rec.calls, rec.args, rec.recv, rec.method = 0, nil, nil, ""
	c11Cur = rec
	c.Begin(src)
	o := ank.Exec(e, src)
	vd.out = o
	if ex.kind == c11Unspec {
		// outside the statement: what arrives is not judged, but no reading of
		// the statement lets a panic escape or the function run twice
		c.Excluded(ex.why)
		c.EvalN(1)
		vd.failure = "excluded"
		if o.Panicked {
			vd.failure, vd.detail = "panic", "panic escaped vm.Execute: "+o.PanicVal+" ["+o.PanicSig+"]"
			if ex.nilptr {
				vd.failure = "nilptr-conversion-panic"
			}
		} else if rec.calls > 1 {
			vd.failure, vd.detail = "invocations="+strconv.Itoa(rec.calls), "the Go function was invoked more than once for one call"
		}
		return vd
	}
	c.Events(1 + rec.calls)
	var hb strings.Builder
	hb.WriteString(k.ft.String() + "|" + src)
	for _, a := range k.pre {
		hb.WriteString("|" + ank.RenderValue(a.v))
	}
	if k.spread != nil {
		hb.WriteString("|..." + ank.RenderValue(k.spread.v))
	}
	c.Eval(hb.String(), true)

	fail := func(f, d string) c11Verdict {
		vd.failure, vd.detail = f, d
		if k.shape() == "fixed/spreadN" && f != "nilptr-conversion-panic" {
			// does the observation coincide with the known defect's behaviour?
			pred, pargs := k.bugModelSpread()
			switch {
			case pred == "panic" && o.Panicked && (strings.Contains(o.PanicVal, "Index") || strings.Contains(o.PanicVal, "index out of range")),
				pred == "error" && !o.Panicked && o.Err != nil && rec.calls == 0:
				vd.failure = c11FindingSpread
			case pred == "invoked" && !o.Panicked && o.Err == nil && rec.calls == 1 && len(rec.args[0]) == len(pargs):
				same := true
				for i := range pargs {
					if c11Diff(rec.args[0][i], pargs[i], c11NilEither, "", 0) != "" {
						same = false
					}
				}
				if same {
					vd.failure = c11FindingSpread
				}
			}
		}
		return vd
	}
	if o.Panicked {
		if ex.nilptr {
			return fail("nilptr-conversion-panic", "panic escaped vm.Execute: "+o.PanicVal+" ["+o.PanicSig+"]")
		}
		return fail("panic", "panic escaped vm.Execute: "+o.PanicVal+" ["+o.PanicSig+"]")
	}
	if ex.kind == c11None {
		if rec.calls != 0 {
			what := "invoked-despite-unconvertible"
			if ex.arity {
				what = "invoked-despite-arity-mismatch"
			}
			return fail(what, fmt.Sprintf("%s, yet the Go function was invoked %d time(s) with %v", ex.why, rec.calls, c11RenderArgs(rec.args[0])))
		}
		if o.Err == nil && !ex.arity {
			return fail("no-error", fmt.Sprintf("%s, yet the call yielded %s without an error", ex.why, ank.Render(o.Val)))
		}
		return vd
	}
	if ex.orError && o.Err != nil && rec.calls == 0 {
		return vd // the other accepted reading: refused without invoking the function
	}
	if o.Err != nil {
		return fail("unexpected-error", fmt.Sprintf("a conversion exists for every argument, yet the call failed: %q (invocations: %d)", o.Err.Error(), rec.calls))
	}
	if rec.calls != 1 {
		return fail("invocations="+strconv.Itoa(rec.calls), fmt.Sprintf("the Go function was invoked %d times for one call", rec.calls))
	}
	got := rec.args[0]
	if len(got) != len(ex.args) {
		return fail("wrong-args", fmt.Sprintf("received %d arguments, want %d", len(got), len(ex.args)))
	}
	for i, w := range ex.args {
		if w.adapter {
			g := c11Unwrap(got[i])
			if !g.IsValid() || g.Kind() != reflect.Func || g.IsNil() {
				vd.ex.cellIdx = i
				return fail("wrong-args", fmt.Sprintf("argument %d: want a non-nil func adapting the script function, got %s", i, ank.RenderValue(got[i])))
			}
			continue
		}
		if d := c11Diff(got[i], w.v, w.mode, "argument "+strconv.Itoa(i), 0); d != "" {
			vd.ex.cellIdx = i
			return fail("wrong-args", d)
		}
	}
	if k.recvCheck != nil {
		if d := k.recvCheck(rec.recv, rec.snap); d != "" {
			return fail("wrong-receiver", d)
		}
	}
	// results
	switch nOut := k.ft.NumOut(); {
	case deferred:
		// the results of a deferred call are discarded
	case nOut == 0:
		// UNSPECIFIED: the script value of a call without results
	case nOut == 1:
		if d := c11Diff(reflect.ValueOf(o.Val), rec.results[0], c11NilExact, "result", 0); d != "" {
			return fail("wrong-result", d)
		}
	default:
		lst, ok := o.Val.([]interface{})
		if !ok || len(lst) != nOut {
			return fail("wrong-result", fmt.Sprintf("%d results must come back as a list of %d, got %s", nOut, nOut, ank.Render(o.Val)))
		}
		for i := range lst {
			if d := c11Diff(reflect.ValueOf(lst[i]), rec.results[i], c11NilExact, "result "+strconv.Itoa(i), 0); d != "" {
				return fail("wrong-result", d)
			}
		}
	}
	return vd
}

// ---------------------------------------------------------------------------
// reporting (at most 3 written-out violations per signature and process)

var c11Reported = map[string]int{}

func c11Report(c *wk.Case, sig, detail string, input interface{}) {
	c11Reported[sig]++
	if c11Reported[sig] > 3 && !c.W.Replay {
		c.Tag("viol-repeat:" + sig)
		return
	}
	c.Violation(sig, detail, input)
}

func (k *c11Call) input(vd c11Verdict) map[string]interface{} {
	in := map[string]interface{}{"src": vd.src, "go_func": k.ft.String(), "shape": k.shape()}
	var as []string
	for _, a := range k.pre {
		as = append(as, a.text+" = "+ank.RenderValue(a.v))
	}
	if k.spread != nil {
		as = append(as, k.spread.text+"... = "+ank.RenderValue(k.spread.v))
	}
	in["args"] = as
	switch vd.ex.kind {
	case c11OK:
		var w []string
		for _, a := range vd.ex.args {
			if a.adapter {
				w = append(w, "func adapter")
			} else {
				w = append(w, ank.RenderValue(a.v))
			}
		}
		in["want"] = map[string]interface{}{"invocations": 1, "args": w}
	case c11None:
		in["want"] = "error and zero invocations: " + vd.ex.why
	}
	obs := map[string]interface{}{"invocations": k.rec.calls, "err": ank.ErrText(vd.out.Err), "value": ank.Render(vd.out.Val), "panic": vd.out.PanicVal}
	for _, a := range k.rec.args {
		obs["args"] = c11RenderArgs(a)
	}
	in["observed"] = obs
	return in
}

// judge runs the call and reports; prefix "call" uses the shape as key,
// prefix "conv" the (source kind, target kind) cell of the single varying
// argument at position cellArg.
func (k *c11Call) judge(c *wk.Case, e *env.Env, prefix string, cellArg int) c11Verdict {
	vd := k.run(c, e)
	shape := k.shape()
	if vd.failure == "excluded" {
		return vd
	}
	c.Tag("shape:" + shape)
	switch vd.ex.kind {
	case c11OK:
		c.Tag("expect:invoked-once")
	case c11None:
		if vd.ex.arity {
			c.Tag("expect:arity-error")
		} else {
			c.Tag("expect:conversion-error")
		}
	}
	if vd.failure == "" {
		return vd
	}
	sig := ""
	switch {
	case vd.failure == c11FindingSpread:
		sig = c11FindingSpread
	case prefix == "conv":
		cell := vd.ex.cell
		if cell == "" {
			var v reflect.Value
			var t reflect.Type
			nFixed := k.ft.NumIn()
			if k.ft.IsVariadic() {
				nFixed--
			}
			switch {
			case vd.failure == "wrong-args" && vd.ex.cellIdx >= 0 && vd.ex.cellIdx < nFixed && vd.ex.cellIdx < len(k.pre):
				// the fixed parameter whose argument arrived wrong
				v, t = k.pre[vd.ex.cellIdx].v, k.ft.In(vd.ex.cellIdx)
			case k.spread != nil && k.ft.IsVariadic():
				v, t = k.spread.v, k.ft.In(k.ft.NumIn()-1)
			case k.spread != nil:
				v, t = k.spread.v, k.ft.In(k.ft.NumIn()-1)
				if sv := c11Unwrap(v); sv.IsValid() && sv.Kind() == reflect.Slice && sv.Len() > 0 {
					v = sv.Index(sv.Len() - 1)
				}
			case k.ft.IsVariadic():
				v, t = k.pre[len(k.pre)-1].v, k.ft.In(k.ft.NumIn()-1).Elem()
			default:
				v, t = k.pre[cellArg].v, k.ft.In(cellArg)
			}
			cell = c11Label(v) + "->" + c11TypeLabel(t)
		}
		sig = "conv:" + cell + ":" + vd.failure
	default:
		sig = prefix + ":" + shape + ":" + vd.failure
	}
	c11Report(c, sig, vd.detail, k.input(vd))
	return vd
}

// c11MakeFn manufactures a Go function of type ft whose body is the recorder.
func c11MakeFn(ft reflect.Type, rec *c11Rec) reflect.Value {
	return reflect.MakeFunc(ft, func(in []reflect.Value) []reflect.Value {
		rec.calls++
		cp := make([]reflect.Value, len(in))
		copy(cp, in)
		rec.args = append(rec.args, cp)
		return rec.results
	})
}

func c11GenResults(r *rand.Rand, ft reflect.Type) []reflect.Value {
	out := make([]reflect.Value, ft.NumOut())
	for i := range out {
		out[i] = c11GenGo(r, ft.Out(i), 0, false)
	}
	return out
}

func c11ListOf(vals []c11Val) c11Val {
	var parts []string
	lst := make([]interface{}, len(vals))
	for i, a := range vals {
		parts = append(parts, a.text)
		if u := c11Unwrap(a.v); u.IsValid() {
			lst[i] = u.Interface()
		}
	}
	return c11Val{text: "[" + strings.Join(parts, ", ") + "]", v: reflect.ValueOf(lst), label: "[]interface{}"}
}

// ---------------------------------------------------------------------------
// phase conv: complete (source value) x (target type) matrix

func c11PhaseConv(c *wk.Case) {
	nT := len(c11Types)
	t := c11Types[c.Index%nT]
	inline := c.Index/nT == 1
	ce := c11NewEnv(c)
	rec := &c11Rec{}
	mk := func(name string, in []reflect.Type, out []reflect.Type, variadic bool) reflect.Type {
		ft := reflect.FuncOf(in, out, variadic)
		ce.e.Define(name, c11MakeFn(ft, rec).Interface())
		return ft
	}
	f1 := mk("f1", []reflect.Type{t}, []reflect.Type{t}, false)
	fv := mk("fv", []reflect.Type{reflect.SliceOf(t)}, []reflect.Type{t, c11TInt64}, true)
	f2 := mk("f2", []reflect.Type{c11TInt64, t}, []reflect.Type{c11TString, t, c11TError}, false)
	f2b := mk("f2b", []reflect.Type{t, c11TString}, nil, false)
	fv2 := mk("fv2", []reflect.Type{c11TString, reflect.SliceOf(t)}, []reflect.Type{reflect.SliceOf(t)}, true)
	one := c11Val{text: "1", v: reflect.ValueOf(int64(1)), label: "int64"}
	zed := c11Val{text: `"z"`, v: reflect.ValueOf("z"), label: "string"}
	for i := range c11Srcs {
		if inline && !c11Srcs[i].inline {
			continue
		}
		a := ce.arg(i, inline)
		lst1 := c11ListOf([]c11Val{a})
		lst2 := c11ListOf([]c11Val{a, a})
		calls := []*c11Call{
			{callee: "f1", ft: f1, pre: []c11Val{a}},
			{callee: "f1", ft: f1, spread: &lst1},
			{callee: "fv", ft: fv, pre: []c11Val{a}},
			{callee: "fv", ft: fv, pre: []c11Val{a, a}},
			{callee: "fv", ft: fv, spread: &lst2},
			{callee: "fv", ft: fv, spread: &a},
			{callee: "f2", ft: f2, pre: []c11Val{one, a}},
			{callee: "f2b", ft: f2b, pre: []c11Val{a, zed}},
			{callee: "f2", ft: f2, pre: []c11Val{one}, spread: &lst1},
			{callee: "fv2", ft: fv2, pre: []c11Val{zed, a}},
			{callee: "fv2", ft: fv2, pre: []c11Val{zed}, spread: &lst1},
		}
		cellArgs := []int{0, 0, 0, 0, 0, 0, 1, 0, 1, 1, 1}
		for j, k := range calls {
			k.rec = rec
			rec.results = c11GenResults(c.Rng, k.ft)
			vd := k.judge(c, ce.e, "conv", cellArgs[j])
			if vd.failure != "excluded" && j == 0 {
				st := "ok"
				if vd.ex.kind == c11None {
					st = "none"
				}
				// per target type: how many source cells have / lack a conversion; per source kind: cells visited
				c.Tag("cells:->"+c11TypeLabel(t)+":"+st, "cells:"+a.label+"->")
			}
			if j == 0 && c.WantSample() && i%17 == 3 {
				c.Sample(k.input(vd))
			}
		}
	}
}

// ---------------------------------------------------------------------------
// phase calls: PRNG signatures x argument tuples x call shapes

func c11PickType(r *rand.Rand) reflect.Type {
	if r.Intn(3) == 0 {
		return c11Types[r.Intn(19)] // scalars, interfaces, named
	}
	return c11Types[r.Intn(len(c11Types))]
}

func c11RandomCall(c *wk.Case, ce *c11Env, rec *c11Rec) *c11Call {
	r := c.Rng
	n := 1 + r.Intn(5)
	in := make([]reflect.Type, n)
	for i := range in {
		in[i] = c11PickType(r)
	}
	variadic := r.Intn(100) < 40
	if variadic {
		in[n-1] = reflect.SliceOf(in[n-1])
	}
	out := make([]reflect.Type, r.Intn(4))
	for i := range out {
		out[i] = c11PickType(r)
	}
	ft := reflect.FuncOf(in, out, variadic)
	ce.e.Define("f", c11MakeFn(ft, rec).Interface())
	k := &c11Call{callee: "f", ft: ft, rec: rec}
	rec.results = c11GenResults(r, ft)
	pOK := 0.9
	if r.Intn(4) == 0 {
		pOK = 0.5
	}
	inl := func() bool { return r.Intn(2) == 0 }
	spread := r.Intn(100) < 45
	if !variadic {
		cut := n
		if spread {
			cut = r.Intn(n)
			if r.Intn(3) != 0 {
				cut = n - 1 // most spreads fill exactly the last parameter
			}
		}
		for i := 0; i < cut; i++ {
			k.pre = append(k.pre, ce.arg(ce.pick(r, in[i], pOK), inl()))
		}
		if spread {
			var rest []c11Val
			for i := cut; i < n; i++ {
				rest = append(rest, ce.arg(ce.pick(r, in[i], pOK), inl()))
			}
			lst := c11ListOf(rest)
			if r.Intn(6) == 0 {
				// a source that is itself a list/typed slice
				lst = ce.arg(ce.pick(r, reflect.SliceOf(in[cut]), 0.95), inl())
			}
			if r.Intn(3) == 0 && c11Unwrap(lst.v).IsValid() {
				// through a variable
				ce.e.Define("lst", c11Unwrap(lst.v).Interface())
				lst.text = "lst"
			}
			k.spread = &lst
		}
		// rarely: wrong number of plain arguments
		if !spread && r.Intn(25) == 0 {
			if r.Intn(2) == 0 && len(k.pre) > 0 {
				k.pre = k.pre[:len(k.pre)-1]
			} else {
				k.pre = append(k.pre, ce.arg(r.Intn(len(ce.vals)), false))
			}
		}
		return k
	}
	m := n - 1
	et := in[m].Elem()
	for i := 0; i < m; i++ {
		k.pre = append(k.pre, ce.arg(ce.pick(r, in[i], pOK), inl()))
	}
	if !spread {
		for j := r.Intn(4); j > 0; j-- {
			k.pre = append(k.pre, ce.arg(ce.pick(r, et, pOK), inl()))
		}
		if m > 0 && r.Intn(25) == 0 {
			k.pre = k.pre[:m-1] // too few fixed arguments
		}
		return k
	}
	var lst c11Val
	if !c11PendingFix_spreadIntoFixedOfVariadic && m > 0 && r.Intn(6) == 0 {
		// the list starts with the last `move` fixed arguments
		move := 1 + r.Intn(m)
		rest := append([]c11Val{}, k.pre[m-move:]...)
		k.pre = k.pre[:m-move]
		for j := r.Intn(3); j > 0; j-- {
			rest = append(rest, ce.arg(ce.pick(r, et, pOK), inl()))
		}
		lst = c11ListOf(rest)
	} else if r.Intn(2) == 0 {
		var rest []c11Val
		for j := r.Intn(4); j > 0; j-- {
			rest = append(rest, ce.arg(ce.pick(r, et, pOK), inl()))
		}
		lst = c11ListOf(rest)
	} else {
		lst = ce.arg(ce.pick(r, in[m], 0.9), inl())
	}
	if r.Intn(3) == 0 && c11Unwrap(lst.v).IsValid() {
		ce.e.Define("lst", c11Unwrap(lst.v).Interface())
		lst.text = "lst"
	}
	k.spread = &lst
	return k
}

func c11PhaseCalls(c *wk.Case) {
	ce := c11NewEnv(c)
	rec := &c11Rec{}
	for n := 0; n < 25; n++ {
		var k *c11Call
		var ex c11Expect
		for try := 0; try < 8; try++ {
			k = c11RandomCall(c, ce, rec)
			if ex = k.expect(); ex.kind != c11Unspec {
				break
			}
		}
		vd := k.judge(c, ce.e, "call", 0)
		if vd.failure == "excluded" {
			continue
		}
		c.Tag(fmt.Sprintf("params:%d", k.ft.NumIn()), fmt.Sprintf("results:%d", k.ft.NumOut()))
		if n == 0 && c.WantSample() {
			c.Sample(k.input(vd))
		}
	}
}

// ---------------------------------------------------------------------------
// phase roundtrip: a Go value is the same value with the same dynamic type
// on every route back to Go

var c11Routes = []struct{ name, src string }{
	{"read", "g"},
	{"list-literal", "[g][0]"},
	{"map-literal", `{"k": g}["k"]`},
	{"go-identity", "id(g)"},
	{"script-function", "func(a){ return a }(g)"},
	{"assign", "x = g; x"},
	{"script-variadic", "func(a...){ return a[0] }(g)"},
	{"list-middle", `[1, g, "z"][1]`},
	{"map-store", `m = {}; m["q"] = g; m["q"]`},
	{"list-store", "l = [nil]; l[0] = g; l[0]"},
	{"go-identity-variadic", "idv(1, g)"},
	{"named-script-function", "func keep(a){ b = a; return b }; keep(g)"},
	{"return-pair", "func(a){ return 1, a }(g)[1]"},
}

func c11PhaseRoundtrip(c *wk.Case) {
	all := append(append([]reflect.Type{}, c11Types...), c11TravelTypes...)
	t := all[c.Index%len(all)]
	e := ank.NewCoreEnv()
	e.Define("id", func(a interface{}) interface{} { return a })
	e.Define("idv", func(n int64, a ...interface{}) interface{} { return a[0] })
	var vals []reflect.Value
	for i := 0; i < 6; i++ {
		vals = append(vals, c11GenGo(c.Rng, t, 0, false))
	}
	vals = append(vals, reflect.Zero(t))
	if t == reflect.TypeOf((func(int64) int64)(nil)) {
		tok := c.Rng.Int63()
		vals = append(vals, reflect.ValueOf(func(a int64) int64 { return tok + a }))
	}
	for _, g := range vals {
		var gi interface{}
		if g.IsValid() && !(g.Kind() == reflect.Interface && g.IsNil()) {
			gi = g.Interface()
		}
		for _, rt := range c11Routes {
			if skip := c11RouteSkip[rt.name]; skip != nil {
				if why := skip(reflect.ValueOf(gi)); why != "" {
					c.Excluded(why)
					continue
				}
			}
			e.Define("g", gi)
			c.Begin(rt.src)
			o := ank.Exec(e, rt.src)
			c.Events(1)
			kind := c11Label(reflect.ValueOf(gi))
			c.Eval(rt.src+"|"+ank.Render(gi)+"|"+kind, true)
			c.Tag("route:"+rt.name, "kind:"+kind)
			input := map[string]interface{}{"src": rt.src, "g": ank.Render(gi), "got": ank.Render(o.Val), "err": ank.ErrText(o.Err), "panic": o.PanicVal}
			if c.WantSample() && rt.name == "map-literal" {
				c.Sample(input)
			}
			sig := "roundtrip:" + kind + ":" + rt.name
			switch {
			case o.Panicked:
				c11Report(c, sig+":panic", "panic escaped: "+o.PanicVal+" ["+o.PanicSig+"]", input)
			case o.Err != nil:
				c11Report(c, sig+":error", "the value did not come back: "+o.Err.Error(), input)
			default:
				d := c11Diff(reflect.ValueOf(o.Val), reflect.ValueOf(gi), c11NilExact, "value", 0)
				if d == "" && gi != nil && reflect.TypeOf(gi) == reflect.TypeOf((func(int64) int64)(nil)) && !reflect.ValueOf(gi).IsNil() {
					// a func value is identified by behaviour
					var a, b int64
					func() {
						defer func() { recover() }()
						a, b = gi.(func(int64) int64)(3), o.Val.(func(int64) int64)(3)+1
					}()
					if a+1 != b {
						d = "value: not the same Go function"
					}
				}
				if d != "" {
					c11Report(c, sig+":changed", d, input)
				}
			}
		}
	}
}

// ---------------------------------------------------------------------------
// phase member: exported fields and methods of Go values

type c11Holder struct {
	expr string
	kind string       // value | pointer | nested-pointer | in-container
	ptr  func() *C11S // the Go struct the script reaches through a pointer (nil for a value holder)
	val  func() C11S  // current Go-side content
}

var c11Methods = []struct {
	name   string
	ptrRcv bool
	inner  bool
}{{"VGet", false, false}, {"V0", false, false}, {"VM", false, false}, {"VVar", false, false},
	{"PSet", true, false}, {"PM", true, false}, {"PVar", true, false}, {"P3", true, false}, {"GetZ", false, true}, {"SetZ", true, true}}

func c11FieldNames() []string {
	var names []string
	for i := 0; i < c11TS.NumField(); i++ {
		names = append(names, c11TS.Field(i).Name)
	}
	return append(names, "Z")
}

func c11PhaseMember(c *wk.Case) {
	r := c.Rng
	ce := c11NewEnv(c)
	e := ce.e
	s := c11GenGo(r, c11TS, 0, false).Interface().(C11S)
	if s.P == nil || r.Intn(2) == 0 {
		p := c11GenGo(r, c11TS, 2, false).Interface().(C11S)
		s.P = &p
	}
	vs := s
	ps := &s
	e.Define("vs", vs)
	e.Define("ps", ps)
	e.Define("box", []interface{}{ps, vs})
	e.Define("reg", map[string]interface{}{"p": ps})
	getPS := func() *C11S { return ps }
	holders := []c11Holder{
		{"vs", "value", nil, func() C11S { return vs }},
		{"ps", "pointer", getPS, func() C11S { return *ps }},
		{"ps.P", "nested-pointer", func() *C11S { return ps.P }, func() C11S { return *ps.P }},
		{"box[0]", "in-container", getPS, func() C11S { return *ps }},
		{"box[1]", "value-in-container", nil, func() C11S { return vs }},
		{"reg.p", "in-container", getPS, func() C11S { return *ps }},
	}
	names := c11FieldNames()

	read := func(h c11Holder, name string) {
		src := h.expr + "." + name
		c.Begin(src)
		o := ank.Exec(e, src)
		c.Events(1)
		want := reflect.ValueOf(h.val()).FieldByName(name)
		c.Eval("read|"+src+"|"+ank.RenderValue(want), true)
		c.Tag("member:read:" + h.kind)
		input := map[string]interface{}{"src": src, "go_field": ank.RenderValue(want), "got": ank.Render(o.Val), "err": ank.ErrText(o.Err), "panic": o.PanicVal}
		sig := "member:read:" + h.kind + ":"
		switch {
		case o.Panicked:
			c11Report(c, sig+"panic", "panic escaped: "+o.PanicVal+" ["+o.PanicSig+"]", input)
		case o.Err != nil:
			c11Report(c, sig+"error", "reading an exported field failed: "+o.Err.Error(), input)
		default:
			if d := c11Diff(reflect.ValueOf(o.Val), want, c11NilExact, "field "+name, 0); d != "" {
				c11Report(c, sig+"wrong-value", d, input)
			}
		}
	}
	for _, h := range holders {
		for _, name := range names {
			read(h, name)
		}
	}
	// the nested pointer is not overwritten by the writes below
	keepP := ps.P

	// writes through a pointer
	for _, h := range holders {
		if h.ptr == nil {
			continue
		}
		for _, name := range names {
			if r.Intn(3) == 0 || (name == "P" && h.kind != "nested-pointer") {
				continue
			}
			hp := h.ptr()
			fld := reflect.ValueOf(hp).Elem().FieldByName(name)
			ft := fld.Type()
			a := ce.arg(ce.pick(r, ft, 0.7), r.Intn(2) == 0)
			before := *hp
			src := h.expr + "." + name + " = " + a.text
			c.Begin(src)
			o := ank.Exec(e, src)
			c.Events(1)
			c.Eval("write|"+src+"|"+ank.RenderValue(a.v), true)
			c.Tag("member:write:" + h.kind)
			after := *hp
			input := map[string]interface{}{"src": src, "value": ank.RenderValue(a.v), "field_type": ft.String(), "before": ank.RenderValue(reflect.ValueOf(before).FieldByName(name)),
				"after": ank.RenderValue(reflect.ValueOf(after).FieldByName(name)), "err": ank.ErrText(o.Err), "panic": o.PanicVal}
			sig := "member:write:" + h.kind + ":"
			if o.Panicked {
				what := "panic"
				if c11RefConvert(a.v, ft).why == c11WhyNilPtr {
					what = "nilptr-conversion-panic"
				}
				c11Report(c, sig+what, "panic escaped: "+o.PanicVal+" ["+o.PanicSig+"]", input)
				continue
			}
			// no other field may change
			other := ""
			for i := 0; i < c11TS.NumField(); i++ {
				fn := c11TS.Field(i).Name
				if fn == name || (name == "Z" && fn == "C11Inner") || (name == "C11Inner" && fn == "Z") {
					continue
				}
				if d := c11Diff(reflect.ValueOf(after).Field(i), reflect.ValueOf(before).Field(i), c11NilExact, "field "+fn, 0); d != "" {
					other = d
				}
			}
			if other != "" {
				c11Report(c, sig+"other-field-changed", "writing "+name+" changed another field: "+other, input)
				continue
			}
			unchanged := c11Diff(reflect.ValueOf(after).FieldByName(name), reflect.ValueOf(before).FieldByName(name), c11NilExact, "", 0) == ""
			cv := c11RefConvert(a.v, ft)
			av := c11Unwrap(a.v)
			switch {
			case cv.st == c11Unspec:
				c.Excluded("member-write:" + cv.why)
			case cv.st == c11None:
				if !unchanged {
					c11Report(c, sig+"wrote-unconvertible", "a value without a conversion to the field type changed the field", input)
				}
			case av.IsValid() && av.Type().AssignableTo(ft):
				if o.Err != nil {
					c11Report(c, sig+"error", "writing an assignable value through a pointer failed: "+o.Err.Error(), input)
				} else if d := c11Diff(reflect.ValueOf(after).FieldByName(name), cv.v, c11NilExact, "field "+name, 0); d != "" {
					c11Report(c, sig+"wrong-value", "after the write the Go field does not hold the value: "+d, input)
				}
			default:
				// UNSPECIFIED: a write that needs a conversion (or writes nil): either it
				// fails and leaves the field alone, or the field holds Go's conversion.
				if o.Err != nil {
					if !unchanged {
						c11Report(c, sig+"failed-but-changed", "the write failed yet the field changed", input)
					}
				} else if cv.adapter {
					if f := reflect.ValueOf(after).FieldByName(name); f.Kind() != reflect.Func || f.IsNil() {
						c11Report(c, sig+"wrong-value", "func field not set", input)
					}
				} else if d := c11Diff(reflect.ValueOf(after).FieldByName(name), cv.v, cv.mode, "field "+name, 0); d != "" {
					c11Report(c, sig+"wrong-value", "after the converting write: "+d, input)
				}
			}
			read(h, name)
		}
	}

	_ = keepP
	// methods
	rec := &c11Rec{}
	for n := 0; n < 14; n++ {
		h := holders[r.Intn(len(holders))]
		m := c11Methods[r.Intn(len(c11Methods))]
		mv := reflect.ValueOf(ps).MethodByName(m.name)
		ft := mv.Type()
		k := &c11Call{callee: h.expr + "." + m.name, ft: ft, rec: rec}
		rec.results = c11GenResults(r, ft)
		nIn := ft.NumIn()
		spread := r.Intn(100) < 40
		fixedN := nIn
		if ft.IsVariadic() {
			fixedN = nIn - 1
		}
		cut := fixedN
		if spread && !ft.IsVariadic() {
			if nIn == 0 {
				spread = false
			} else {
				cut = nIn - 1
				if r.Intn(4) == 0 {
					cut = r.Intn(nIn)
				}
			}
		}
		for i := 0; i < cut; i++ {
			k.pre = append(k.pre, ce.arg(ce.pick(r, ft.In(i), 0.9), r.Intn(2) == 0))
		}
		var rest []c11Val
		if ft.IsVariadic() {
			for j := r.Intn(4); j > 0; j-- {
				rest = append(rest, ce.arg(ce.pick(r, ft.In(nIn-1).Elem(), 0.9), r.Intn(2) == 0))
			}
		} else {
			for i := cut; i < nIn; i++ {
				rest = append(rest, ce.arg(ce.pick(r, ft.In(i), 0.9), r.Intn(2) == 0))
			}
		}
		if spread {
			lst := c11ListOf(rest)
			k.spread = &lst
		} else {
			k.pre = append(k.pre, rest...)
		}
		hh := h
		switch {
		case m.inner && m.ptrRcv:
			k.recvCheck = func(recv, snap interface{}) string {
				p, ok := recv.(*C11Inner)
				if !ok {
					return fmt.Sprintf("receiver is %T", recv)
				}
				if hh.ptr != nil && p != &hh.ptr().C11Inner {
					return "pointer-receiver method reached through a pointer did not get the Go value itself as receiver"
				}
				return ""
			}
		case m.inner:
			k.recvCheck = func(recv, snap interface{}) string {
				return c11Diff(reflect.ValueOf(recv), reflect.ValueOf(hh.val().C11Inner), c11NilExact, "receiver", 0)
			}
		case m.ptrRcv:
			k.recvCheck = func(recv, snap interface{}) string {
				p, ok := recv.(*C11S)
				if !ok || p == nil {
					return fmt.Sprintf("receiver is %T", recv)
				}
				if hh.ptr != nil {
					if p != hh.ptr() {
						return "pointer-receiver method reached through a pointer did not get the Go value itself as receiver"
					}
					return ""
				}
				// UNSPECIFIED whether it is the value itself or a copy; its content is the value's
				return c11Diff(reflect.ValueOf(snap), reflect.ValueOf(hh.val()), c11NilExact, "receiver", 0)
			}
		default:
			k.recvCheck = func(recv, snap interface{}) string {
				return c11Diff(reflect.ValueOf(recv), reflect.ValueOf(hh.val()), c11NilExact, "receiver", 0)
			}
		}
		rk := "value-method"
		if m.ptrRcv {
			rk = "pointer-method"
		}
		if m.inner {
			rk = "promoted-" + rk
		}
		vd := k.judge(c, e, "member:"+rk+"@"+h.kind, 0)
		if vd.failure == "" {
			c.Tag("member:call:" + rk + "@" + h.kind)
		}
		if n == 0 && c.WantSample() {
			c.Sample(k.input(vd))
		}
	}
}

// ---------------------------------------------------------------------------
// phase callback: script functions handed to Go as func-typed parameters

var c11CbTypes = []reflect.Type{
	reflect.TypeOf((func(int64, string) (int64, error))(nil)),
	reflect.TypeOf((func(int64) int64)(nil)),
	reflect.TypeOf((func())(nil)),
	reflect.TypeOf((func(string) string)(nil)),
	reflect.TypeOf((func(float64, bool) int8)(nil)),
	reflect.TypeOf((func(interface{}) interface{})(nil)),
	reflect.TypeOf((func([]int64) []int64)(nil)),
	reflect.TypeOf((func(C11S, *C11S) (*C11S, bool))(nil)),
	reflect.TypeOf((func(int8, uint16, float32) (float64, string, []interface{}))(nil)),
	reflect.TypeOf((func(map[string]int64) map[string]int64)(nil)),
	reflect.TypeOf((func(error) error)(nil)),
	reflect.TypeOf((func(int64) (C11MyInt, []string))(nil)),
	reflect.TypeOf((func(interface{}, interface{}) (interface{}, interface{}))(nil)),
	reflect.TypeOf((func(uint8) (uint8, float32, bool))(nil)),
}

type c11CbSpec struct {
	ft       reflect.Type
	variadic bool // the script function is declared func(a...)
	nInv     int
	mode     int // 0 all fine, 1 unconvertible result, 2 too few values, 3 throw, 4 runtime error inside
	failAt   int
	try      bool
	rets     []int // source indices of the good results
	badPos   int
	badSrc   int
}

const (
	c11CbFine = iota
	c11CbUnconv
	c11CbFew
	c11CbThrow
	c11CbRuntime
)

func c11GenCb(r *rand.Rand, ce *c11Env) c11CbSpec {
	for {
		sp := c11CbSpec{ft: c11CbTypes[r.Intn(len(c11CbTypes))], nInv: 1 + r.Intn(3), mode: r.Intn(5), try: r.Intn(3) == 0, variadic: r.Intn(12) == 0}
		if r.Intn(3) == 0 {
			sp.mode = c11CbFine
		}
		sp.failAt = r.Intn(sp.nInv)
		nOut := sp.ft.NumOut()
		ok := true
		for i := 0; i < nOut; i++ {
			cl := ce.cells(sp.ft.Out(i))
			var cands []int
			for _, x := range cl.ok {
				v := c11Unwrap(ce.vals[x].v)
				// a single list-valued result is indistinguishable from several results
				if nOut > 1 && i == 0 && v.IsValid() && (v.Kind() == reflect.Slice || v.Kind() == reflect.Array) {
					continue
				}
				cands = append(cands, x)
			}
			if len(cands) == 0 {
				ok = false
				break
			}
			sp.rets = append(sp.rets, cands[r.Intn(len(cands))])
		}
		if !ok {
			continue
		}
		switch sp.mode {
		case c11CbUnconv:
			if nOut == 0 {
				continue
			}
			sp.badPos = r.Intn(nOut)
			none := ce.cells(sp.ft.Out(sp.badPos)).none
			var cands []int
			for _, x := range none {
				v := c11Unwrap(ce.vals[x].v)
				if nOut > 1 && v.IsValid() && (v.Kind() == reflect.Slice || v.Kind() == reflect.Array) {
					continue
				}
				cands = append(cands, x)
			}
			if len(cands) == 0 {
				continue
			}
			sp.badSrc = cands[r.Intn(len(cands))]
		case c11CbFew:
			if nOut < 2 {
				continue
			}
		}
		return sp
	}
}

func c11RunCb(c *wk.Case, ce *c11Env, sp c11CbSpec) {
	r := c.Rng
	e := ce.e
	ft := sp.ft
	nIn, nOut := ft.NumIn(), ft.NumOut()
	// what Go will pass
	var plan [][]reflect.Value
	for k := 0; k < sp.nInv; k++ {
		args := make([]reflect.Value, nIn)
		for i := range args {
			args[i] = c11GenGo(r, ft.In(i), 0, false)
		}
		plan = append(plan, args)
	}
	var outs [][]reflect.Value
	entered, returned := 0, 0
	outT := make([]reflect.Type, nOut)
	for i := range outT {
		outT[i] = ft.Out(i)
	}
	host := reflect.MakeFunc(reflect.FuncOf([]reflect.Type{c11TInt64, ft}, outT, false), func(in []reflect.Value) []reflect.Value {
		var last []reflect.Value
		for k := range plan {
			entered++
			last = in[1].Call(plan[k]) // a failing callback panics through here, as in ordinary Go code
			returned++
			outs = append(outs, last)
		}
		return last
	})
	var probed [][]interface{}
	e.Define("host", host.Interface())
	e.Define("probe", func(args ...interface{}) int64 {
		probed = append(probed, args)
		return int64(len(probed) - 1)
	})
	// the script function
	var params []string
	for i := 0; i < nIn; i++ {
		params = append(params, "a"+strconv.Itoa(i))
	}
	head, probeCall := "func("+strings.Join(params, ", ")+")", "probe("+strings.Join(params, ", ")+")"
	if sp.variadic {
		head, probeCall = "func(a...)", "probe(a)"
	}
	retOf := func(idx []int) string {
		var parts []string
		for _, x := range idx {
			parts = append(parts, ce.vals[x].text)
		}
		if len(parts) == 0 {
			return "return"
		}
		return "return " + strings.Join(parts, ", ")
	}
	good := retOf(sp.rets)
	bad := ""
	switch sp.mode {
	case c11CbUnconv:
		idx := append([]int{}, sp.rets...)
		idx[sp.badPos] = sp.badSrc
		bad = retOf(idx)
	case c11CbFew:
		bad = retOf(sp.rets[:nOut-1])
	case c11CbThrow:
		bad = `throw "boom"`
	case c11CbRuntime:
		bad = "c11nosuchfunction()"
	}
	body := "k = " + probeCall + "; "
	if sp.mode != c11CbFine {
		body += "if k == " + strconv.Itoa(sp.failAt) + " { " + bad + " }; "
	}
	fn := head + " { " + body + good + " }"
	src := "host(1, " + fn + ")"
	if sp.try {
		src = "caught = false; r = nil; try { r = " + src + " } catch e { caught = true }; caught"
	}
	c.Begin(src)
	o := ank.Exec(e, src)
	c.Events(1 + len(probed) + entered)
	var hb strings.Builder
	hb.WriteString(src)
	for _, p := range plan {
		hb.WriteString("|" + strings.Join(c11RenderArgs(p), ","))
	}
	c.Eval(hb.String(), true)
	modeName := []string{"fine", "unconvertible-result", "too-few-results", "throw", "runtime-error"}[sp.mode]
	c.Tag("callback:" + modeName)
	if sp.variadic {
		c.Tag("callback:variadic-script-func")
	}
	if sp.try {
		c.Tag("callback:inside-try")
	}
	var plans []string
	for _, p := range plan {
		plans = append(plans, strings.Join(c11RenderArgs(p), ", "))
	}
	var probes []string
	for _, p := range probed {
		probes = append(probes, ank.Render(p))
	}
	var outsR []string
	for _, x := range outs {
		outsR = append(outsR, strings.Join(c11RenderArgs(x), ", "))
	}
	input := map[string]interface{}{"src": src, "callback_type": ft.String(), "go_passes": plans, "script_received": probes, "go_got_back": outsR,
		"err": ank.ErrText(o.Err), "value": ank.Render(o.Val), "panic": o.PanicVal, "mode": modeName}
	if c.WantSample() {
		c.Sample(input)
	}
	pre := "callback:"
	if sp.variadic {
		pre = "callback:variadic-script-func:"
	}
	if o.Panicked {
		c11Report(c, pre+"panic", "panic escaped: "+o.PanicVal+" ["+o.PanicSig+"]", input)
		return
	}
	wantInv := sp.nInv
	if sp.mode != c11CbFine {
		wantInv = sp.failAt + 1
	}
	// (1) the script function was invoked with the arguments Go passed
	if len(probed) != wantInv {
		c11Report(c, pre+"invocations", fmt.Sprintf("the script function ran %d times, Go called it %d times", len(probed), wantInv), input)
		return
	}
	for k := range probed {
		var want reflect.Value
		if sp.variadic {
			lst := make([]interface{}, nIn)
			for i, a := range plan[k] {
				if u := c11Unwrap(a); u.IsValid() {
					lst[i] = u.Interface()
				}
			}
			want = reflect.ValueOf([]interface{}{lst})
		} else {
			lst := make([]interface{}, nIn)
			for i, a := range plan[k] {
				if u := c11Unwrap(a); u.IsValid() {
					lst[i] = u.Interface()
				}
			}
			want = reflect.ValueOf(lst)
		}
		if d := c11Diff(reflect.ValueOf(probed[k]), want, c11NilEither, fmt.Sprintf("invocation %d arguments", k), 0); d != "" {
			c11Report(c, pre+"args-differ", "the script function did not receive the arguments Go passed: "+d, input)
			return
		}
	}
	// (2) results converted to the declared return types
	nGood := sp.nInv
	if sp.mode != c11CbFine {
		nGood = sp.failAt
	}
	if returned != nGood {
		if returned > nGood {
			c11Report(c, pre+"bad-result-accepted", fmt.Sprintf("mode %s: the callback returned normally to Go %d times, want %d", modeName, returned, nGood), input)
		} else {
			c11Report(c, pre+"good-result-refused", fmt.Sprintf("the callback returned normally to Go %d times, want %d (err: %s)", returned, nGood, ank.ErrText(o.Err)), input)
		}
		return
	}
	for k := 0; k < returned; k++ {
		for i := 0; i < nOut; i++ {
			cv := c11RefConvert(ce.vals[sp.rets[i]].v, ft.Out(i))
			if d := c11Diff(outs[k][i], cv.v, cv.mode, fmt.Sprintf("invocation %d result %d", k, i), 0); d != "" {
				c11Report(c, pre+"result-not-converted", "Go did not get the script result converted to the declared type: "+d, input)
				return
			}
		}
	}
	// (3) the enclosing call
	failed := o.Err != nil
	if sp.try && o.Err == nil {
		failed = o.Val == true
	}
	if sp.mode == c11CbFine {
		if failed {
			c11Report(c, pre+"unexpected-error", "every callback result was convertible, yet the enclosing call failed: "+ank.ErrText(o.Err), input)
			return
		}
		res := o.Val
		if sp.try {
			res, _ = e.Get("r")
		}
		switch {
		case nOut == 1:
			if d := c11Diff(reflect.ValueOf(res), outs[len(outs)-1][0], c11NilExact, "enclosing result", 0); d != "" {
				c11Report(c, pre+"outer-result", d, input)
			}
		case nOut > 1:
			lst, ok := res.([]interface{})
			if !ok || len(lst) != nOut {
				c11Report(c, pre+"outer-result", "several results must come back as a list, got "+ank.Render(res), input)
				return
			}
			for i := range lst {
				if d := c11Diff(reflect.ValueOf(lst[i]), outs[len(outs)-1][i], c11NilExact, "enclosing result "+strconv.Itoa(i), 0); d != "" {
					c11Report(c, pre+"outer-result", d, input)
					return
				}
			}
		}
		return
	}
	if !failed {
		c11Report(c, pre+"inner-failure-lost:"+modeName, "the callback failed ("+modeName+") but the enclosing call reported no error; value "+ank.Render(o.Val), input)
	}
}

func c11PhaseCallback(c *wk.Case) {
	ce := c11NewEnv(c)
	for n := 0; n < 10; n++ {
		c11RunCb(c, ce, c11GenCb(c.Rng, ce))
	}
}

// ---------------------------------------------------------------------------
// phase fixed: deterministic rows (each known finding first, then sanity rows)

func c11PhaseFixed(c *wk.Case) {
	ce := c11NewEnv(c)
	rec := &c11Rec{}
	lit := func(text string, v interface{}) c11Val {
		return c11Val{text: text, v: reflect.ValueOf(v), label: c11Label(reflect.ValueOf(v))}
	}
	fn := func(f interface{}) reflect.Type {
		ft := reflect.TypeOf(f)
		ce.e.Define("f", c11MakeFn(ft, rec).Interface())
		rec.results = c11GenResults(c.Rng, ft)
		return ft
	}
	one, two, three := lit("1", int64(1)), lit("2", int64(2)), lit("3", int64(3))
	switch c.Index {
	case 0: // regression row (fixed by /repo 7a69279): f([1, 2]...) on func(int64, int64) indexed into the converted element
		l := c11ListOf([]c11Val{one, two})
		(&c11Call{callee: "f", ft: fn((func(int64, int64) int64)(nil)), spread: &l, rec: rec}).judge(c, ce.e, "call", 0)
	case 1: // same defect, silently wrong arguments: f([[5, 6], 7]...) on func([]int64, int64)
		l := c11ListOf([]c11Val{lit("[5, 6]", []interface{}{int64(5), int64(6)}), lit("7", int64(7))})
		(&c11Call{callee: "f", ft: fn((func([]int64, int64) int64)(nil)), spread: &l, rec: rec}).judge(c, ce.e, "call", 0)
	case 2: // same defect with leading plain arguments: f(1, [2, 3]...)
		l := c11ListOf([]c11Val{two, three})
		(&c11Call{callee: "f", ft: fn((func(int64, int64, int64) int64)(nil)), pre: []c11Val{one}, spread: &l, rec: rec}).judge(c, ce.e, "call", 0)
	case 3: // same defect through member syntax: ps.P3([1, 2, 3]...)
		ps := &C11S{A: 1}
		ce.e.Define("ps", ps)
		l := c11ListOf([]c11Val{one, two, three})
		ft := reflect.ValueOf(ps).MethodByName("P3").Type()
		rec.results = c11GenResults(c.Rng, ft)
		(&c11Call{callee: "ps.P3", ft: ft, spread: &l, rec: rec}).judge(c, ce.e, "member:pointer-method@pointer", 0)
	case 4: // known finding: a variadic script function as callback receives boxed reflect.Values
		sp := c11CbSpec{ft: c11CbTypes[0], variadic: true, nInv: 1, mode: c11CbFine}
		for i := 0; i < sp.ft.NumOut(); i++ {
			sp.rets = append(sp.rets, ce.cells(sp.ft.Out(i)).ok[0])
		}
		c11RunCb(c, ce, sp)
	case 5: // regression row (fixed by /repo e407de4): a typed nil pointer passed to a parameter of another pointer type panicked
		var np *int64
		ce.e.Define("np", np)
		(&c11Call{callee: "f", ft: fn((func(*C11S) int64)(nil)), pre: []c11Val{{text: "np", v: reflect.ValueOf(np), label: "*int64"}}, rec: rec}).judge(c, ce.e, "call", 0)
	case 6: // sanity rows that must hold
		l1 := c11ListOf([]c11Val{two})
		(&c11Call{callee: "f", ft: fn((func(int64, int64) int64)(nil)), pre: []c11Val{one, two}, rec: rec}).judge(c, ce.e, "call", 0)
		(&c11Call{callee: "f", ft: fn((func(int64, int64) int64)(nil)), pre: []c11Val{one}, spread: &l1, rec: rec}).judge(c, ce.e, "call", 0)
		l3 := c11ListOf([]c11Val{two, three})
		(&c11Call{callee: "f", ft: fn((func(int64, ...int8) (int64, string))(nil)), pre: []c11Val{one, two, three}, rec: rec}).judge(c, ce.e, "call", 0)
		(&c11Call{callee: "f", ft: fn((func(int64, ...int8) (int64, string))(nil)), pre: []c11Val{one}, spread: &l3, rec: rec}).judge(c, ce.e, "call", 0)
		(&c11Call{callee: "f", ft: fn((func(string) error)(nil)), pre: []c11Val{lit("1.5", float64(1.5))}, rec: rec}).judge(c, ce.e, "call", 0)
		for _, m := range []int{c11CbFine, c11CbUnconv, c11CbFew, c11CbThrow, c11CbRuntime} {
			sp := c11CbSpec{ft: c11CbTypes[0], nInv: 2, mode: m, failAt: 1, try: m == c11CbThrow}
			for i := 0; i < sp.ft.NumOut(); i++ {
				sp.rets = append(sp.rets, ce.cells(sp.ft.Out(i)).ok[1])
			}
			sp.badPos, sp.badSrc = 0, ce.cells(sp.ft.Out(0)).none[0]
			c11RunCb(c, ce, sp)
		}
	case 7: // a spread list that has to fill FIXED parameters of a variadic function: refused, or spread - never passed whole
		if c11PendingFix_spreadIntoFixedOfVariadic {
			c.Excluded("pending repair: spread into fixed parameters of a variadic function")
			return
		}
		l3 := c11ListOf([]c11Val{one, two, three})
		l2 := c11ListOf([]c11Val{two, three})
		l1 := c11ListOf([]c11Val{one})
		(&c11Call{callee: "f", ft: fn((func(interface{}, ...interface{}) int64)(nil)), spread: &l3, rec: rec}).judge(c, ce.e, "call", 0)
		(&c11Call{callee: "f", ft: fn((func(interface{}, ...interface{}) int64)(nil)), spread: &l1, rec: rec}).judge(c, ce.e, "call", 0)
		(&c11Call{callee: "f", ft: fn((func(int64, int64, ...int64) int64)(nil)), pre: []c11Val{one}, spread: &l2, rec: rec}).judge(c, ce.e, "call", 0)
		(&c11Call{callee: "f", ft: fn((func([]interface{}, ...int64) int64)(nil)), spread: &l3, rec: rec}).judge(c, ce.e, "call", 0)
		ps := &C11S{A: 1}
		ce.e.Define("ps", ps)
		ft := reflect.ValueOf(ps).MethodByName("PVar").Type()
		rec.results = c11GenResults(c.Rng, ft)
		ls := c11ListOf([]c11Val{lit(`"p"`, "p"), one, two})
		(&c11Call{callee: "ps.PVar", ft: ft, spread: &ls, rec: rec}).judge(c, ce.e, "member:pointer-method@pointer", 0)
	case 8: // fields promoted through an embedded POINTER
		in := &C11Emb{Name: "n" + strconv.Itoa(c.Rng.Intn(100)), N: int64(c.Rng.Intn(100))}
		ce.e.Define("o", &C11Outer{C11Emb: in, Own: 5})
		ce.e.Define("onil", &C11Outer{Own: 6})
		type row struct {
			src  string
			want interface{}
			nilE bool
		}
		rows := []row{{"o.Name", in.Name, false}, {"o.N", in.N, false}, {"o.Own", int64(5), false}, {`o.Name = "w"; o.Name`, "w", false}, {"onil.Own", int64(6), false},
			{"onil.Name", nil, true}, {`onil.Name = "x"`, nil, true}, {"onil.N", nil, true}}
		for _, rw := range rows {
			if rw.nilE && c11PendingFix_nilEmbeddedPanic {
				c.Excluded("pending repair: field promoted through a nil embedded pointer")
				continue
			}
			c.Begin(rw.src)
			o := ank.Exec(ce.e, rw.src)
			c.Events(1)
			c.Eval("embedded-pointer|"+rw.src+"|"+ank.Render(rw.want), true)
			input := map[string]interface{}{"src": rw.src, "want": ank.Render(rw.want), "got": ank.Render(o.Val), "err": ank.ErrText(o.Err), "panic": o.PanicVal}
			switch {
			case o.Panicked:
				kind := "embedded-pointer"
				if rw.nilE {
					kind = "nil-embedded-pointer"
				}
				c11Report(c, "member:"+kind+":panic", "panic escaped vm.Execute: "+o.PanicVal+" ["+o.PanicSig+"]", input)
			case rw.nilE:
				// UNSPECIFIED what a field that Go itself cannot reach yields; Go's own
				// o.Name is a nil dereference. Only a panic out of vm.Execute is judged.
			case o.Err != nil:
				c11Report(c, "member:embedded-pointer:error", "reading/writing a field promoted through an embedded pointer failed: "+o.Err.Error(), input)
			default:
				if d := c11Diff(reflect.ValueOf(o.Val), reflect.ValueOf(rw.want), c11NilExact, "field", 0); d != "" {
					c11Report(c, "member:embedded-pointer:wrong-value", d, input)
				}
			}
		}
		if in.Name != "w" {
			c11Report(c, "member:embedded-pointer:write-lost", "o.Name = \"w\" through a pointer did not reach the Go value's own field: "+in.Name, map[string]interface{}{"src": `o.Name = "w"`})
		}
	case 9: // array-typed parameters: what arrives is UNSPECIFIED, a panic out of vm.Execute is not
		if c11PendingFix_arrayParamPanic {
			c.Excluded("pending repair: array-typed parameters")
			return
		}
		ce.e.Define("short", []int64{1})
		ce.e.Define("long", []int64{1, 2, 3})
		short := c11Val{text: "short", v: reflect.ValueOf([]int64{1}), label: "[]int64"}
		long := c11Val{text: "long", v: reflect.ValueOf([]int64{1, 2, 3}), label: "[]int64"}
		l3 := c11ListOf([]c11Val{one, two, three})
		l1 := c11ListOf([]c11Val{one})
		for _, a := range []c11Val{l3, l1, short, long, lit("nil", nil), lit(`"ab"`, "ab")} {
			(&c11Call{callee: "f", ft: fn((func([2]int64) int64)(nil)), pre: []c11Val{a}, rec: rec}).judge(c, ce.e, "call", 0)
			(&c11Call{callee: "f", ft: fn((func(int64, ...[2]int64) int64)(nil)), pre: []c11Val{one, a}, rec: rec}).judge(c, ce.e, "call", 0)
			(&c11Call{callee: "f", ft: fn((func([][2]int64) int64)(nil)), pre: []c11Val{c11ListOf([]c11Val{a})}, rec: rec}).judge(c, ce.e, "call", 0)
		}
	case 10: // recursive Go types (type Tree []Tree): finite script values, and - once c11PendingFix_cyclicToRecursive is false - values that contain themselves
		c11r6FixedCyclic(c, ce, rec)
	}
}

// C11Outer promotes the fields of C11Emb through an embedded pointer.
type C11Emb struct {
	Name string
	N    int64
}

type C11Outer struct {
	*C11Emb
	Own int64
}

const c11NFixed = 11

func init() {
	nAll := len(c11Types) + len(c11TravelTypes)
	wk.Register(&wk.Engine{
		ID: "C11",
		Plan: func(tier string) fw.Plan {
			nCalls, nMember, nCb, rtRounds := 1000, 150, 300, 2
			nSel, nSlot := 10, 200
			nPtr, nCbv, nDeep := c11r5Dims, 2, 60
			nGo := 40
			// the -race flavour of cbconc costs a second build of the worker: thorough tier only
			nNamed, nConc, nConcRace, namedChunk := len(c11NamedTypes), 3*len(c11ConcVariants), 0, 1
			nHist := c11r7Modes * len(c11r7Fams)
			if tier == "thorough" {
				nHist *= 40
				nCalls, nMember, nCb, rtRounds = 40000, 6000, 15000, 20
				nSel, nSlot = 300, 5000
				nPtr, nCbv, nDeep = 40*c11r5Dims, 100, 3000
				nGo = 3000
				nNamed, nConc, nConcRace, namedChunk = 25*len(c11NamedTypes), 60*len(c11ConcVariants), 5*len(c11ConcVariants), 5
			}
			plan := fw.Plan{
				Level: "exploration",
				Rule: "Go functions are manufactured with reflect.MakeFunc over a pool of " + strconv.Itoa(len(c11Types)) + " parameter/result types; their body records every invocation. " +
					"conv: every (source value, target type) cell of " + strconv.Itoa(len(c11Srcs)) + " script/Go source values x the type pool, under 11 single-varying-argument call forms covering the four call shapes (complete enumeration, sources by name and written inline). " +
					"calls: PRNG signatures (1-5 params, 0-3 results, 40% variadic) x PRNG argument tuples x plain/spread calls, 25 calls per case. roundtrip: PRNG values of every pool type x " + strconv.Itoa(len(c11Routes)) + " routes (read, containers, identity functions, script functions, assignment, for-in over a map and over a list holding the value). " +
					"member: PRNG struct contents; every exported field read through 6 holders, written through pointers, 10 methods (value/pointer receiver, promoted, variadic, spread). callback: 14 func types x 5 result modes. " +
					"named: " + strconv.Itoa(len(c11NamedTypes)) + " travellers (named types of every basic kind with value- and pointer-receiver methods, json.Number, time.Duration, unnamed controls) x 21 Go locations (fields behind pointers, typed slice/array elements, map values, interface slots, pointees) x " + strconv.Itoa(len(c11Hops)) + " binding hops x every sink (read back, Go interface{}/typed/variadic parameter, Go container, value/pointer-receiver method), complete per case with PRNG values. " +
					"empty: " + strconv.Itoa(len(c11EmptySrcs)) + " empty/nil container sources (script and Go, nested one level) x every field type of C11Doc x parameter / second parameter / variadic element / spread / method parameter / field write / callback result (complete). " +
					"cbconc: one adapted callback invoked from 4-12 goroutines x 400-900 calls each with pairwise distinct arguments, 8 callback types; each invocation compares the echo with what it passed (thorough tier: the same cases once more in a -race build, phase cbconc-race). " +
					"selector: " + strconv.Itoa(len(c11HidTypes)) + " struct types whose methods (own and promoted, value and pointer receiver, variadic, several results) have the name of a field promoted from a deeper embedded struct, and one whose field hides a promoted method, x 14 holders (pointer, value, in list / map / typed slice, field behind a pointer and of a value, Go result, assigned name) x call / call through a method value / bare name / explicit-path field reads and a write; fields and a method promoted through an embedded POINTER read, written and called through 21 holders of the outer struct, addressable or not (complete per case, PRNG contents). " +
					"slotarg: per case 44 slot operands (elements of script lists, typed Go slices, nested lists, arrays and slices behind a pointer, fields behind a pointer / of a struct in a slice, pointees, map values; scalar, string, struct, slice, map, pointer and interface content, nil included) each passed as argument in a PRNG call (fixed / variadic x plain / spread, functions and two methods, typed and interface{} parameters and tails, 1/6 deferred) in which a LATER argument stores into the slot (script closure, inline script function, Go host function, ++ / +=, the spread operand itself) - reads before the store must supply the old value, reads after it the new one; 1/6 of the calls have no store. " +
					"ptrarg: calls with `&x` arguments (the address of a script variable): 9 callee kinds (manufactured function, the same through a variable, four methods with pointer parameters through a pointer holder and a value holder, a method value, a function with a variadic tail of pointers) x plain / spread at the last parameter / spread over several parameters x variable at top level / captured by a closure / local to a function x &x, &(x), (&x) - every combination once per " + strconv.Itoa(c11r5Dims) + " cases, 4 calls per case with PRNG signatures (1-3 pointer parameters among ordinary ones, " + strconv.Itoa(len(c11r5Pointees)) + " pointee types), PRNG variable contents, stored values and ordinary arguments; the Go side records the pointee it meets, stores a different value through the pointer, and the script reads the variable after the call. " +
					"cbvar: " + strconv.Itoa(len(c11r5CbTypes)) + " variadic func types x script function with one parameter for the tail / variadic script function x 0-3 tail values Go passes, plus callbacks returning more values than declared (complete per case, PRNG values). " +
					"deepstore: a Go struct bound by pointer (nested structs held by value, arrays of arrays, arrays and typed slices of structs, pointers, a map of pointers; PRNG contents) reached through 4 holders; 40 stores per case (=, +=, ++) at PRNG paths of 1-7 steps down to a string / int64 / int / float64 / bool leaf, each compared with the same store made by reflect on a twin of the root (the whole structure is compared, and the value read back). " +
					"gocall: scripts of 3-8 statements - `go f(..)`, plain `r = f(..)`, `for i = 0; i < 3; i++ { go f(.., k + i, ..) }` - over three manufactured Go functions (PRNG signatures, 1/3 variadic) and four methods of a Go struct (pointer and value receiver, through a pointer and a value), plain and spread, the callee of the previous statement re-used half of the time, arguments pairwise distinct over the script; half of the cases with GOMAXPROCS(1); the host waits for the started calls and compares what every Go function received with the calls written for it (6 scripts per case). " +
					"twins: groups of DISTINCT Go types with the same printed name (struct types declared with the same name in different functions, with other field positions / field types / embedded method sets; *text/template.Template and *html/template.Template) used one after the other in one process, every order once (one process per case): every exported field read through 4 holders, every int64 / string / float64 / bool field written through 3 pointer holders, every recording method called through 3 holders; the templates through Name, Lookup, Execute, ExecuteTemplate and the Tree field against Go's own calls. " +
					"numedge: every script-number source of the conv matrix (edges of all integer ranges up to 2^64, fractions, negative, NaN, infinities) x " + strconv.Itoa(c11r6NumsT.NumField()) + " numeric target types (all widths, uintptr, named) as the result of a callback (alone and as first of two results), stored into a field through a pointer, and rotated through the parameters and variadic tail of two methods (complete; one case per target type). " +
					"history: ONE PROCESS per case drives " + strconv.Itoa(c11r7Steps) + " conversions one after the other over a family of neighbouring types (" + strconv.Itoa(len(c11r7Fams)) + " families: the types of one kind side by side - plain, named without methods, named with different method sets, standard-library types such as time.Duration / time.Month / os.FileMode / syscall.Errno / json.Number / net.IP / time.Time, pointers to them, struct / interface / named types that print alike and are distinct) x targets (" + strconv.Itoa(len(c11r7Ifaces)) + " interface types with different method sets, the concrete types of the family, a few foreign ones; as parameter type, element type of a slice / map parameter and of a variadic tail) x " + strconv.Itoa(len(c11r7Forms)) + " routes (fixed / second / paired / spread / variadic parameter, element-wise in list and map literals and in typed Go containers of the source's own type, Go identity function, method parameters, callback result alone and first of two, field written through a pointer, slot of a Go []T / map[string]T, a list / map passed, changed and passed again) in " + strconv.Itoa(c11r7Modes) + " orders (PRNG mix, blocks of refusals before blocks of valid conversions, and the opposite); about half of the steps have no conversion; every step is judged by the absolute oracle whatever the process did before (the counters history:valid-after-refusals-for-the-same-target / refusal-after-valid-for-the-same-target count the histories that matter). conv (round 7): the row of sources has Go values of named types with methods (error / fmt.Stringer implementors of the kinds int64, string, uintptr, bool, uint8, float64, a slice and a struct type) and the pool of targets fmt.Stringer. " +
					"An evaluation is non-trivial when the statement decides the case (conversion exists for all arguments, or none exists for one); distinct = distinct (Go signature, source text, argument values).",
				Assumptions: []string{"reflect.Type.AssignableTo/ConvertibleTo and reflect.Value.Convert are 'Go's own conversion'",
					"string->byte/rune parameters, pointer->other-pointer conversions, arrays, over-long spread lists, VM-protocol-typed Go functions are outside the statement and not judged",
					"identity of func values is not observable through reflect; nil-ness and (for func(int64) int64 travellers) behaviour are compared",
					"a script list or map of length 0 is an empty NON-nil value: its element-wise conversion must arrive non-nil; for a typed nil Go slice/map converted element-wise nil and empty are both accepted; the variadic tail the call builds itself is never judged for nil-ness",
					"cbconc judges values only: whether a defective adapter shows depends on the schedule, a correct one is accepted under every schedule; the script function touches no shared script state",
					"slotarg relies on operands being evaluated left to right (property C07): the argument an expression supplies is its value at that moment; whether a script store took place is read back from the Go slot (inconclusive otherwise)",
					"selector: which member a name denotes follows Go's selector rule (shallowest depth); assignments to a name that denotes a method, direct fields of a struct not reached through a pointer, and WHEN the receiver of a value-receiver method value is copied are not judged",
					"ptrarg: `&x` supplies the address of the variable x, so a value the Go function stores through it is what the script reads from x afterwards, in every call shape; for a pointee type other than interface{} (the script-side type of &x is *interface{}; pointer -> other pointer is outside the statement) a refusal with zero invocations is accepted too, an invocation must meet Go's conversion of x's value as pointee; whether x then has the stored value's type or the stored value converted back to its former numeric/string type is not judged; addresses of non-variables (&a[0], &m.v), pointers taken earlier (p = &x; f(p)), &x inside a spread list, go f(&x) are not generated",
					"deepstore: every generated step is one Go can assign through (field of an addressable struct, element of an addressable array or of a slice, pointer, pointer-valued map entry); a leaf of type int stored from an int64 needs a conversion: an error with the Go value unchanged is accepted",
					"cbvar: a script function with one parameter in the tail position receives the tail as one list, a variadic script function the values themselves; whether surplus results of a callback are an error or dropped is not judged",
					"gocall: a go statement is a call that does not wait; the Go function is invoked once with the arguments written at the statement, whatever the script does next. WHEN it is invoked is not judged; the host waits until every call has arrived or every goroutine the script started has ended (runtime.NumGoroutine back at its value before the script), and a call that has not arrived by then is reported as never made; goroutines still alive after 20 s make the case inconclusive. `go` calls of script functions and `go f(&x)` are not generated",
					"twins: which member a name denotes depends on the type of the value at hand, never on how that type prints; names that are no member of the type at hand are not generated; for a float64 -> integer conversion whose value does not fit the target type Go's result is implementation-specific: numedge and the conv matrix take reflect.Value.Convert on this machine as the reference, as for every other conversion",
					"history: whether Go's conversion of v to T exists is a matter of the dynamic type of v and of T alone (reflect's AssignableTo / ConvertibleTo of exactly these two types, element-wise for slices and maps), so the verdict on a step never depends on the steps before it; a store into a slot of a Go []T / map[string]T is judged only for a value assignable to T (what a store that needs a conversion does is not judged, no panic may escape); a field write that needs a conversion may be refused with the field unchanged or store Go's conversion (as in phase member); script functions headed for a func type are judged on the call routes only",
					"kept out of the domain until /repo is repaired (constant c11PendingFix_cyclicToRecursive in c11_r6.go, reported in C11-r6-genuine.md): a script list or map that contains itself handed to a parameter of a recursive Go type (fatal stack overflow of the host)",
					"kept out of the domain until /repo is repaired or the behaviour is decided (constants c11PendingFix_* in c11_r5.go, reported in C11-r5-genuine.md): `defer f(&x)` (the store is lost), non-nil pointers read back by a for-in loop over a list (the loop binds the pointee), a variadic script function as callback of a variadic func type (the tail arrives as one list)",
					"kept out of the domain until /repo is repaired (constants c11PendingFix_* in c11_r4.go, reported in C11-r4-genuine.md): a pointer-receiver method that hides a promoted field called on a struct VALUE; a nil of a non-empty interface type read from an addressable typed slot and passed to an interface-typed parameter it is assignable to",
					"kept out of the domain until /repo is repaired (constants c11PendingFix_* in c11_ext.go, reported in C11-genuine.md): pointer-receiver methods of non-struct named types on non-pointer values, a spread list that has to fill fixed parameters of a variadic function, array-typed parameters, fields promoted through a nil embedded pointer"},
				Phases: []fw.Phase{
					{Name: "fixed", Cases: c11NFixed, Chunk: 1, Exhaust: true, TimeoutS: 300},
					{Name: "history", Cases: nHist, Chunk: 1, TimeoutS: 300},
					{Name: "conv", Cases: 2 * len(c11Types), Chunk: 4, Exhaust: true, TimeoutS: 900},
					{Name: "roundtrip", Cases: nAll * rtRounds, Chunk: 16, TimeoutS: 600},
					{Name: "member", Cases: nMember, Chunk: 25, TimeoutS: 900},
					{Name: "callback", Cases: nCb, Chunk: 50, TimeoutS: 900},
					{Name: "calls", Cases: nCalls, Chunk: 50, TimeoutS: 1800},
					{Name: "named", Cases: nNamed, Chunk: namedChunk, TimeoutS: 900},
					{Name: "empty", Cases: reflect.TypeOf(C11Doc{}).NumField(), Chunk: 1, Exhaust: true, TimeoutS: 600},
					{Name: "cbconc", Cases: nConc, Chunk: 4, TimeoutS: 900},
					{Name: "selector", Cases: nSel, Chunk: 2, TimeoutS: 600},
					{Name: "slotarg", Cases: nSlot, Chunk: 25, TimeoutS: 900},
					{Name: "ptrarg", Cases: nPtr, Chunk: 27, TimeoutS: 900, MemMB: 3072},
					{Name: "cbvar", Cases: nCbv, Chunk: 25, TimeoutS: 300},
					{Name: "deepstore", Cases: nDeep, Chunk: 30, TimeoutS: 600},
					{Name: "gocall", Cases: nGo, Chunk: 10, Jobs: 4, TimeoutS: 900, MemMB: 3072},
					{Name: "twins", Cases: c11r6NTwins, Chunk: 1, Exhaust: true, TimeoutS: 300, MemMB: 3072},
					{Name: "numedge", Cases: c11r6NumsT.NumField(), Chunk: 2, Exhaust: true, TimeoutS: 600, MemMB: 3072},
				},
			}
			if nConcRace > 0 {
				plan.Phases = append(plan.Phases, fw.Phase{Name: "cbconc-race", Race: true, Cases: nConcRace, Chunk: 4, TimeoutS: 900})
			}
			plan.Rule += c11r8Rule
			plan.Phases = append(plan.Phases, c11r8Phases(tier)...) // hot, stream, sizes: see c11_r8.go
			return plan
		},
		Run: func(c *wk.Case) {
			switch c.Phase {
			case "fixed":
				c11PhaseFixed(c)
			case "conv":
				c11PhaseConv(c)
			case "roundtrip":
				c11PhaseRoundtrip(c)
			case "member":
				c11PhaseMember(c)
			case "callback":
				c11PhaseCallback(c)
			case "calls":
				c11PhaseCalls(c)
			case "named":
				c11PhaseNamed(c)
			case "empty":
				c11PhaseEmpty(c)
			case "cbconc", "cbconc-race":
				c11PhaseCbConc(c)
			case "selector":
				c11PhaseSelector(c)
			case "slotarg":
				c11PhaseSlotArg(c)
			case "ptrarg":
				c11PhasePtrArg(c)
			case "cbvar":
				c11PhaseCbVar(c)
			case "deepstore":
				c11PhaseDeepStore(c)
			case "gocall":
				c11PhaseGoCall(c)
			case "twins":
				c11PhaseTwins(c)
			case "numedge":
				c11PhaseNumEdge(c)
			case "history":
				c11PhaseHistory(c)
			default:
				c11r8Dispatch(c)
			}
		},
	})
}

var _ = sort.Strings
