package main

// C05, round-6 extensions: operand PROVENANCE.
//
// The statement quantifies over "all pairs of operand values ... combined in
// expression trees of any shape" and says "comparisons are exact" and that the
// float operations are "carried out in float64" (where a NaN is unequal to, and
// unordered with, everything, itself included). A pair of operand values may be
// one value twice, and the two operands may reach the operator from one and the
// same place: the same name on both sides (x op x), a name and a copy of it
// (y = x; x op y), two parameters bound to one argument (f(x, x)), one container
// element read twice, a value the script computed and stored once. The result is
// the one Go computes for (v op v): where the operands were read from is not an
// input of the operator. The earlier tables always bound the two operands
// separately (x and y, two literals, two container slots).
//
//  1. phase enum, cases "samebox" (c05SameBoxEnum): every binary operator x every
//     value of the pools and of the string table, both operands that one value,
//     through the provenances of c05SameBoxForms; compound forms `t op= t`.
//     Reference: c05Bin(op, v, v) - the same function the separately bound
//     pairs are judged by.
//  2. phase trees (c05SharedTree): PRNG-generated trees whose leaves are drawn
//     from one to three names (host-bound, script-bound, copies of one another),
//     so that one box is read several times in one tree. Reference: eval().

import (
	"math"
	"strconv"
	"strings"

	"github.com/mattn/anko/env"

	"verifharness/internal/wk"
)

// c05SameBoxCases is the number of cases the samebox part adds to phase enum:
// one per binary operator, one for the compound forms.
func c05SameBoxCases() int { return len(c05BinOps) + 1 }

// c05SameBoxVals: the numeric pools and the string table.
func c05SameBoxVals(pool []c05Val) []c05Val {
	vals := append([]c05Val{}, pool...)
	for _, s := range c05Strings {
		vals = append(vals, c05Val{kind: 's', s: s})
	}
	return vals
}

type c05Form struct {
	src  string
	defs map[string]interface{}
	want c05Res
	prov string
}

// c05SameBoxForms spells `v op v` with both operands coming from one place.
func c05SameBoxForms(op string, v c05Val) []c05Form {
	same := c05Bin(op, v, v)
	g := v.goValue()
	host := func() map[string]interface{} { return map[string]interface{}{"x": g} }
	o := " " + op + " "
	fs := []c05Form{
		// the same name on both sides
		{"x" + o + "x", host(), same, "name"},
		{"(x)" + o + "(x)", host(), same, "name"},
		// a name and a plain copy of it (either order, copy of a copy)
		{"y = x; x" + o + "y", host(), same, "copy"},
		{"y = x; y" + o + "x", host(), same, "copy"},
		{"y = x; z = y; z" + o + "x", host(), same, "copy"},
		{"y = x; z = x; y" + o + "z", host(), same, "copy"},
		// parameters bound to one argument, a parameter with itself, with a local copy
		{"f = func(a, b) { return a" + o + "b }; f(x, x)", host(), same, "param"},
		{"g = func(v) { return v" + o + "v }; g(x)", host(), same, "param"},
		{"func h5(v) { w = v; return w" + o + "v }; h5(x)", host(), same, "param"},
		{"f = func(a) { return func(b) { return a" + o + "b } }; f(x)(x)", host(), same, "param"},
		// one container element read twice, an element and the name it was built from
		{"s[0]" + o + "s[0]", map[string]interface{}{"s": []interface{}{g}}, same, "element"},
		{"m.a" + o + "m.a", map[string]interface{}{"m": map[string]interface{}{"a": g}}, same, "element"},
		{"r = [x, x]; r[0]" + o + "r[1]", host(), same, "element"},
		{"r = [x]; x" + o + "r[0]", host(), same, "element"},
		{"r = [x]; q = r[0]; q" + o + "r[0]", host(), same, "element"},
		{"m = {\"k\": x}; m.k" + o + "x", host(), same, "element"},
		// a host function handing its argument back
		{"id(x)" + o + "x", map[string]interface{}{"x": g, "id": func(a interface{}) interface{} { return a }}, same, "hostcall"},
	}
	if lit, ok := v.literal(); ok {
		if strings.HasPrefix(lit, "-") {
			lit = "(" + lit + ")"
		}
		fs = append(fs,
			c05Form{"x = " + lit + "; x" + o + "x", nil, same, "script-name"},
			c05Form{"x = " + lit + "; y = x; y" + o + "x", nil, same, "script-copy"},
		)
	}
	// a value the script computed and stored once. The stored value is whatever the
	// statement says the computing expression gives (c05Bin), then (cv op cv).
	one := c05Val{kind: 'i', i: 1}
	type comp struct {
		src  string
		defs map[string]interface{}
		res  c05Res
	}
	var comps []comp
	switch v.kind {
	case 's':
		comps = append(comps, comp{"x = p + \"\"", map[string]interface{}{"p": g}, c05Bin("+", v, c05Val{kind: 's'})})
	default:
		comps = append(comps, comp{"x = p * 1", map[string]interface{}{"p": g}, c05Bin("*", v, one)})
		// a quotient: the script's own way to an infinity and to NaN (which have no literal)
		n, d := v, one
		if v.kind == 'f' {
			switch {
			case math.IsNaN(v.f):
				n, d = c05Val{kind: 'f', f: 0}, c05Val{kind: 'f', f: 0}
			case math.IsInf(v.f, 1):
				n, d = c05Val{kind: 'f', f: 1}, c05Val{kind: 'f', f: 0}
			case math.IsInf(v.f, -1):
				n, d = c05Val{kind: 'f', f: -1}, c05Val{kind: 'f', f: 0}
			}
		}
		comps = append(comps, comp{"n = " + c05LitOrName(n, "pn") + "; d = " + c05LitOrName(d, "pd") + "; x = n / d",
			map[string]interface{}{"pn": n.goValue(), "pd": d.goValue()}, c05Bin("/", n, d)})
	}
	for _, cp := range comps {
		if cp.res.unspec || cp.res.isErr || cp.res.isBool || cp.res.v.kind == 'F' {
			continue
		}
		w := c05Bin(op, cp.res.v, cp.res.v)
		fs = append(fs,
			c05Form{cp.src + "; x" + o + "x", cp.defs, w, "computed"},
			c05Form{cp.src + "; y = x; x" + o + "y", cp.defs, w, "computed"},
			c05Form{cp.src + "; g = func(v) { return v" + o + "v }; g(x)", cp.defs, w, "computed"},
		)
	}
	// a copy that the original then moves away from: the copy keeps the old value
	// (y = x; x = x + 1 assigns the NAME x; nothing is said to be shared)
	if nx := c05Bin("+", v, one); !nx.unspec && !nx.isErr && !nx.isBool && nx.v.kind != 'F' && len(nx.v.s) < 1<<12 {
		fs = append(fs,
			c05Form{"y = x; x = x + 1; y" + o + "x", host(), c05Bin(op, v, nx.v), "copy-diverged"},
			c05Form{"y = x; x = x + 1; x" + o + "y", host(), c05Bin(op, nx.v, v), "copy-diverged"},
		)
	}
	return fs
}

// c05LitOrName: the literal of v (negative ones in parentheses), or name when it has none.
func c05LitOrName(v c05Val, name string) string {
	lit, ok := v.literal()
	if !ok {
		return name
	}
	if strings.HasPrefix(lit, "-") {
		return "(" + lit + ")"
	}
	return lit
}

// c05SameBoxEnum: case k of the samebox part of phase enum.
func c05SameBoxEnum(c *wk.Case, e *env.Env, pool []c05Val, k int) {
	vals := c05SameBoxVals(pool)
	if k < len(c05BinOps) {
		op := c05BinOps[k]
		for _, v := range vals {
			if v.kind == 's' && op == "*" {
				continue // string * string is outside the statement
			}
			tag := op + ":samebox:" + kindTag(v)
			n := 0
			for _, f := range c05SameBoxForms(op, v) {
				if f.want.unspec || len(f.want.v.s) > 1<<16 {
					continue
				}
				c05Check(c, e, f.src, f.want, tag, f.defs)
				c.Tag("samebox:" + f.prov)
				n++
			}
			if n > 0 {
				c.Tag("op:" + tag)
			}
		}
		return
	}
	// the empty string repeated: "" for every count >= 0 of the integer pool, an
	// error for the negative ones (larger results than the tables' are asked of no
	// other string: see c05Bin)
	empty := c05Val{kind: 's'}
	for j, n := range pool {
		if n.kind != 'i' {
			continue
		}
		want := c05Bin("*", empty, n)
		tag := "*:string," + kindTag(n)
		ns := c05LitOrName(n, "n")
		c05Check(c, e, "\"\" * "+ns, want, tag, nil)
		c05Check(c, e, "s * n", want, tag, map[string]interface{}{"s": "", "n": n.i})
		c05Check(c, e, "s = \"\"; t = s * n; t + s", want, tag, map[string]interface{}{"n": n.i}) // "" + "" is "", an error stays one
		c05Compound(c, e, "*", empty, n, want, "*=:string,"+kindTag(n), j)
		c.Tag("op:*:emptystring")
	}
	// compound forms with the place as its own right operand: t op= t is t = t op t
	for _, op := range c05CompoundOps {
		for _, v := range vals {
			want := c05Bin(op, v, v)
			if want.unspec || len(want.v.s) > 1<<16 {
				continue
			}
			tag := op + "=:samebox:" + kindTag(v)
			g := v.goValue()
			c05Check(c, e, "t = x; t "+op+"= t; t", want, tag, map[string]interface{}{"x": g})
			c05Check(c, e, "t "+op+"= t; t", want, tag, map[string]interface{}{"t": g})
			c05Check(c, e, "t = x; u = t; t "+op+"= u; t", want, tag, map[string]interface{}{"x": g})
			c05Check(c, e, "r = [x]; r[0] "+op+"= r[0]; r[0]", want, tag, map[string]interface{}{"x": g})
			c05Check(c, e, "f = func(p) { p "+op+"= p; return p }; f(x)", want, tag, map[string]interface{}{"x": g})
			c.Tag("op:" + tag)
		}
	}
}

// values the shared-leaf trees favour: the ones for which "the same box" and
// "the same value" could be told apart, and the boundaries of the statement
var c05SharedSpecials = []c05Val{
	{kind: 'f', f: math.NaN()}, {kind: 'f', f: math.Inf(1)}, {kind: 'f', f: math.Inf(-1)},
	{kind: 'f', f: math.Copysign(0, -1)}, {kind: 'f', f: 0}, {kind: 'f', f: 1 << 53}, {kind: 'f', f: 0.1},
	{kind: 'i', i: math.MaxInt64}, {kind: 'i', i: math.MinInt64}, {kind: 'i', i: 1<<53 + 1},
	{kind: 'i', i: 4095}, {kind: 'i', i: 4096}, {kind: 'i', i: -1}, {kind: 'i', i: 0}, {kind: 'i', i: 7},
}

// c05SharedTree: one PRNG-generated tree over one to three names. Every name is
// bound once (by the host, by a script assignment of a literal, or as a copy of
// an earlier name) and read by several leaves. Comparisons only at the root.
func c05SharedTree(c *wk.Case, e *env.Env) {
	r := c.Rng
	for try := 0; try < 12; try++ {
		defs := map[string]interface{}{}
		type bound struct {
			name string
			v    c05Val
		}
		var names []bound
		pre := ""
		nv := 1 + r.Intn(3)
		for i := 0; i < nv; i++ {
			var v c05Val
			switch x := r.Intn(12); {
			case x < 5:
				v = c05SharedSpecials[r.Intn(len(c05SharedSpecials))]
			case x < 8:
				v = c05Val{kind: 'i', i: c05Ints[r.Intn(len(c05Ints))]}
			case x < 11:
				v = c05Val{kind: 'f', f: c05Floats[r.Intn(len(c05Floats))]}
			default:
				v = c05Val{kind: 's', s: c05Strings[r.Intn(len(c05Strings))]}
			}
			name := "v" + strconv.Itoa(i)
			lit, ok := v.literal()
			switch {
			case i > 0 && r.Intn(3) == 0:
				// a copy of an earlier name
				src := names[r.Intn(len(names))]
				v = src.v
				pre += name + " = " + src.name + "; "
			case ok && r.Intn(3) == 0:
				if strings.HasPrefix(lit, "-") {
					lit = "(" + lit + ")"
				}
				pre += name + " = " + lit + "; "
			default:
				defs[name] = v.goValue()
			}
			names = append(names, bound{name, v})
		}
		depth0 := 1 + r.Intn(3)
		var gen func(d int) *c05Node
		gen = func(d int) *c05Node {
			if d == 0 || (d < depth0 && r.Intn(3) == 0) {
				if r.Intn(8) == 0 {
					return &c05Node{leaf: c05Val{kind: 'i', i: int64(r.Intn(5))}}
				}
				b := names[r.Intn(len(names))]
				return &c05Node{leaf: b.v, name: b.name}
			}
			if r.Intn(10) == 0 {
				return &c05Node{op: "u-", l: gen(d - 1)}
			}
			op := []string{"+", "-", "*", "/", "+", "-", "*", "%", "&", "|"}[r.Intn(10)]
			if d == depth0 && r.Intn(2) == 0 {
				op = c05BinOps[9+r.Intn(6)]
			}
			return &c05Node{op: op, l: gen(d - 1), r: gen(d - 1)}
		}
		t := gen(depth0)
		want, ok := t.eval()
		if !ok || len(want.v.s) > 1<<16 {
			continue
		}
		var sb strings.Builder
		t.src(&sb)
		c05Check(c, e, pre+sb.String(), want, "tree-shared", defs)
		c.Tag("tree-shared")
		return
	}
	c.Excluded("shared-tree-outside-stated-domain")
}
