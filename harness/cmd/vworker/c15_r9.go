package main

// C15, round 9 ("overlap"): "the same text always yields the same tree, also under concurrent calls".
//
// Phase race (c15.go) asks this of 8 goroutines x 24 parses per batch in the -race build, where the race
// detector slows every parse down and reports shared writes, and phase racehist asks it of a stream of
// new texts. Phase overlap asks it in the PLAIN build, where calls really overlap for long: G = 4..16 host
// goroutines are released by a barrier, each parses ITS OWN texts - valid and failing, many lines,
// parentheses, array and map literals, every kind of node that carries a position - thousands of times,
// and every result (the full dump INCLUDING the position of every node; for a failing text the message
// and line:column of the error) must equal what the same text gave when it was parsed alone before the
// goroutines started. The texts of different goroutines begin at different lines and columns, so a
// position taken from another call is a different position. A result that differs is also judged by the
// position oracle (an error position must lie inside its own text).

import (
	"fmt"
	"strconv"
	"strings"
	"sync"

	"verifharness/internal/fw"
	"verifharness/internal/wk"
)

const c15R9Rule = " Round 9 (overlap): phase overlap (plain build): G = 4, 8, 16 (thorough 4, 8, 12, 16; 12 cases) host goroutines released by a barrier, each parsing its own 14 texts (generated programs, corpus scripts, a text with every node kind that carries a position - parentheses, array, typed-slice and map literals, calls, indexing, slices, functions, if/for/switch/try/module, operators - over 12 to 40 lines, shifted by a goroutine-specific number of blank lines and blanks; four failing texts whose syntax or lexer error sits on the first, a middle and the last line) 100 times (thorough 1000: 1400 / 14000 parses per goroutine) while the others do the same: every result - dump with the position of every node, or error message and line:column - equals the result of the same text parsed alone before the goroutines started; a result that differs is judged by the error-position oracle too."

func c15R9Phases(tier string) []fw.Phase {
	n := 3
	if tier == "thorough" {
		n = 12
	}
	return []fw.Phase{{Name: "overlap", Cases: n, Chunk: 1, TimeoutS: 1200, MemMB: 6144}}
}

func c15R9Run(c *wk.Case) bool {
	if c.Phase != "overlap" {
		return false
	}
	c15R9Overlap(c)
	return true
}

// every node kind that carries a position; %d makes the copies of different goroutines different texts
const c15R9AllNodes = `a%d = (1 + 2) * (x - (y / 3))
b = [1, [2, (3)], []int64{4, 5},
	{"k": (6), "m": [7]}]
c = f(a, (b), g(h(1)[2])[3:4])
d = func(p, q...) {
	return (p + q[0]), [p]
}
if (a > 1) && !(b == nil) {
	e = a ? (b) : [c]
} else if x in [1, 2] {
	e = -(a)
} else {
	e = (a ?? (b))
}
for i, v in [(1), (2)] {
	t[i] = (v)
}
for i = (0); i < (3); i++ {
	continue
}
switch (a) {
case (1), [2]:
	u = (1)
default:
	u = [(2)]
}
try {
	throw (a)
} catch e {
	w = [e]
} finally {
	w = (nil)
}
module m {
	n = (1)
}
z = make([]string, (2)); z[(0)] = ("s"); y = *(&z); ch <- (1); r = <-(ch)
var p, q = (1), [2]
p, q = (q), (p)
go f((1)); defer g([2]); delete(mm, ("k")); close((ch)); len([1])
o = new(T).f((x)).g[(0)].h
`

func c15R9Texts(c *wk.Case, g int) []string {
	var out []string
	shift := strings.Repeat("\n", g*3%17) + strings.Repeat(" ", g%5)
	cor := c15ValidCorpus()
	for k := 0; k < 4; k++ {
		out = append(out, shift+"g"+strconv.Itoa(g)+" = ("+strconv.Itoa(k)+")\n"+c15Program(c)+"\nx = [(1), (2)]")
	}
	for k := 0; k < 3 && len(cor) > 0; k++ {
		out = append(out, shift+cor[c.Rng.Intn(len(cor))]+"\nq"+strconv.Itoa(g)+" = ([1])")
	}
	all := fmt.Sprintf(c15R9AllNodes, g)
	out = append(out, shift+all, all+shift+"(1)", shift+strings.Repeat("# c\n", g)+all)
	// failing texts: the error on the first, a middle and the last line; a lexer error
	lines := strings.Split(all, "\n")
	out = append(out,
		shift+"a"+strconv.Itoa(g)+" = (1 + ] 2\n"+all,
		shift+strings.Join(lines[:12], "\n")+"\nbad = [(1), (2)) + 3\n"+strings.Join(lines[12:], "\n"),
		shift+all+"k = ((1) + [2]))",
		shift+all+"s = [(1), \"open "+strconv.Itoa(g),
	)
	return out
}

func c15R9Overlap(c *wk.Case) {
	G := []int{4, 8, 16}[c.Index%3]
	if c.Tier == "thorough" {
		G = []int{4, 8, 12, 16}[c.Index%4]
	}
	rounds := 100
	if c.Tier == "thorough" {
		rounds = 1000
	}
	texts := make([][]string, G)
	want := make([][]string, G)
	nOK, nErr := 0, 0
	for g := 0; g < G; g++ {
		texts[g] = c15R9Texts(c, g)
		want[g] = make([]string, len(texts[g]))
		for i, s := range texts[g] {
			c.Begin(c15BeginInput("overlap-alone", s))
			r := c15Parse(s, c15CPUBudget, true)
			c.Events(1)
			c15Judge(c, "overlap-alone", s, r)
			c.Eval(s, true)
			want[g][i] = r.key()
			if r.ok {
				nOK++
			} else {
				nErr++
			}
		}
	}
	c.Tag("gen:overlap")
	c.Count("r9_overlap_texts_valid", nOK)
	c.Count("r9_overlap_texts_failing", nErr)
	type diff struct {
		g, i, round int
		r           *c15Res
	}
	var mu sync.Mutex
	var diffs []diff
	c.Begin(map[string]interface{}{"gen": "overlap-batch", "goroutines": G, "rounds": rounds, "texts_per_goroutine": len(texts[0])})
	var wg sync.WaitGroup
	start := make(chan struct{})
	c15Enter(c15CPUBudgetRace)
	for g := 0; g < G; g++ {
		wg.Add(1)
		go func(g int) {
			defer wg.Done()
			<-start
			mine := 0
			for round := 0; round < rounds; round++ {
				for i, s := range texts[g] {
					r := c15Parse(s, 0, false)
					if r.key() != want[g][i] && mine < 4 {
						mine++
						mu.Lock()
						diffs = append(diffs, diff{g, i, round, r})
						mu.Unlock()
					}
				}
			}
		}(g)
	}
	close(start)
	wg.Wait()
	c15Leave()
	n := G * rounds * len(texts[0])
	c.Events(n)
	c.Count("r9_overlapping_parses", n)
	c.Tag(fmt.Sprintf("reached:overlap_goroutines=%d", G), fmt.Sprintf("reached:overlap_parses_per_goroutine=%d", rounds*len(texts[0])))
	seen := map[string]bool{}
	for _, d := range diffs {
		s := texts[d.g][d.i]
		c15Judge(c, "overlap", s, d.r) // an error position outside its own text is a violation of its own
		cls := "error"
		k := d.r.key()
		switch {
		case d.r.panicked:
			cls = "panic"
		case d.r.ok != strings.HasPrefix(want[d.g][d.i], "ok:"):
			cls = "tree-vs-error"
		case d.r.ok:
			cls = "tree"
		}
		if seen[cls] {
			continue
		}
		seen[cls] = true
		c.Violation("nondet:concurrent:"+cls, fmt.Sprintf("goroutine %d of %d, round %d: a parse that overlaps with other ParseSrc calls differs from the parse of the same text alone: %s  vs  %s", d.g, G, d.round, c15R9DiffAt(k, want[d.g][d.i]), c15ClipS(want[d.g][d.i], 200)),
			c15Input("overlap", s))
	}
}

// c15R9DiffAt shows two keys around their first difference.
func c15R9DiffAt(got, want string) string {
	i := 0
	for i < len(got) && i < len(want) && got[i] == want[i] {
		i++
	}
	lo := i - 60
	if lo < 0 {
		lo = 0
	}
	cut := func(s string) string {
		hi := i + 40
		if hi > len(s) {
			hi = len(s)
		}
		if lo > len(s) {
			return ""
		}
		return s[lo:hi]
	}
	return fmt.Sprintf("at byte %d of the key: …%s…  (alone: …%s…)", i, cut(got), cut(want))
}
