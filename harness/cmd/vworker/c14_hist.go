package main

// C14, phase hist — process-history independence: "every run yields the result
// it would yield alone".
//
// Programs come in complementary sets that drive ONE interpreter facility with
// different shapes (plain and variadic functions of every arity 0..7, typed
// literals of different element types, make(type) binding one name to different
// types, struct types with different field lists, modules of one name with
// different contents, imports in different orders, channels of different element
// types, host calls with different argument shapes; struct type expressions over
// a type name that the script or — `# env:` first line, c14_env.go — the host binds
// to different types; script functions that end with an error and deep recursions).
// A case picks some members,
// orders them by the PRNG and runs them one after the other in THIS worker
// process (whose history already holds every earlier case of the chunk and the
// canaries), each freshly parsed on a fresh environment. The reference of a
// program is its SOLO observation: the program run as the first and only thing
// of a fresh child process (`vworker -child c14solo`). Any difference between
// the observation in this process and the solo observation means that some
// earlier execution left process-wide state behind that the program can see.

import (
	"bytes"
	"encoding/json"
	"fmt"
	"os"
	"os/exec"
	"strings"
	"sync"
	"time"

	"verifharness/internal/ank"
	"verifharness/internal/gen"
	"verifharness/internal/wk"
)

type c14HistProg struct{ group, src string }

var c14HistPool, c14HistByGroup = c14BuildHistPool()

func c14NumList(from, to int) string {
	var parts []string
	for i := from; i <= to; i++ {
		parts = append(parts, fmt.Sprint(i))
	}
	return strings.Join(parts, ", ")
}

func c14BuildHistPool() ([]c14HistProg, map[string][]int) {
	var pool []c14HistProg
	add := func(group, src string) { pool = append(pool, c14HistProg{group, src}) }

	// script functions: plain and variadic, named and anonymous, arity 0..7
	for n := 0; n <= 7; n++ {
		var ps []string
		for i := 1; i <= n; i++ {
			ps = append(ps, fmt.Sprintf("p%d", i))
		}
		params := strings.Join(ps, ", ")
		add("func-shapes", fmt.Sprintf("func f(%s) { return [%s] }\nrd(\"r\", f(%s))\nrd(\"again\", f(%s))", params, params, c14NumList(1, n), c14NumList(11, 10+n)))
		add("func-shapes", fmt.Sprintf("f = func(%s) { return [%s] }\nrd(\"r\", f(%s))\nrd(\"anon\", (func(%s) { return [%s] })(%s))", params, params, c14NumList(1, n), params, params, c14NumList(21, 20+n)))
		if n == 0 {
			continue
		}
		// the last of the n parameters takes the rest
		vparams := strings.Join(ps, ", ") + "..."
		body := strings.Join(append(append([]string{}, ps[:n-1]...), "len("+ps[n-1]+")", ps[n-1]), ", ")
		add("func-shapes", fmt.Sprintf("func f(%s) { return [%s] }\nrd(\"none\", f(%s))\nrd(\"one\", f(%s))\nrd(\"three\", f(%s))", vparams, body, c14NumList(1, n-1), c14NumList(1, n), c14NumList(1, n+2)))
		fixed := c14NumList(1, n-1)
		if n > 1 {
			fixed += ", "
		}
		add("func-shapes", fmt.Sprintf("f = func(%s) { return [%s] }\nrd(\"three\", f(%s))\nl = [8, 9]\nrd(\"spread\", f(%sl...))\nrd(\"anon\", (func(%s) { return [%s] })(%s))", vparams, body, c14NumList(1, n+2), fixed, vparams, body, c14NumList(1, n)))
	}
	// script functions handed to Go as callbacks
	add("func-shapes", "heach([1, 2], func(x) { p(x) })")
	add("func-shapes", "heach([1, 2], func(x...) { p(x) })")
	add("func-shapes", "hcb(func() { p(1) })")
	add("func-shapes", "hcb(func(x...) { p(len(x)) })")
	add("func-shapes", "srt = import(\"sort\")\na = [3, 1, 2]\nsrt.Slice(a, func(i, j) { return a[i] < a[j] })\nrd(\"a\", a)")
	add("func-shapes", "srt = import(\"sort\")\na = [3, 1, 2]\nsrt.Slice(a, func(ij...) { return a[ij[0]] > a[ij[1]] })\nrd(\"a\", a)")

	// typed literals: one shape, different element types
	elems := []struct{ typ, v1, v2, v3 string }{
		{"int64", "1", "2", "3"}, {"int32", "1", "2", "3"}, {"int", "1", "2", "3"}, {"float64", "1", "2.5", "3"}, {"float32", "1", "2.5", "3"},
		{"string", "\"a\"", "\"b\"", "\"c\""}, {"bool", "true", "false", "true"}, {"interface", "1", "\"b\"", "2.5"}, {"uint64", "1", "2", "3"}, {"byte", "1", "2", "3"},
	}
	for _, e := range elems {
		add("typed-literals", fmt.Sprintf("a = []%s{%s, %s}\nrd(\"a\", a)\nrd(\"e\", a[0])\na[1] = %s\nrd(\"a2\", a)\nrd(\"n\", len(a))", e.typ, e.v1, e.v2, e.v3))
		add("typed-literals", fmt.Sprintf("m = map[string]%s{\"k\": %s, \"j\": %s}\nrd(\"m\", m)\nm.k = %s\nrd(\"k\", m.k)", e.typ, e.v1, e.v2, e.v3))
		add("typed-literals", fmt.Sprintf("a = [][]%s{{%s}, {%s, %s}}\nrd(\"a\", a)\nrd(\"e\", a[1][0])", e.typ, e.v1, e.v2, e.v3))
		add("chan-types", fmt.Sprintf("c = make(chan %s, 2)\nc <- %s\nc <- %s\nrd(\"a\", <- c)\nv, ok = <- c\nrd(\"v\", [v, ok])\nclose(c)", e.typ, e.v1, e.v2))
		add("make-type", fmt.Sprintf("make(type T, %s)\nv = make(T)\nrd(\"v\", v)\nw = make([]T, 2)\nrd(\"w\", w)\nrd(\"l\", []T{%s, %s})", e.v2, e.v1, e.v2))
		add("make-type", fmt.Sprintf("rd(\"s\", make([]%s, 1, 3))\nrd(\"m\", make(map[string]%s))\nrd(\"z\", make(%s))", e.typ, e.typ, e.typ))
	}
	add("typed-literals", "m = map[int64]string{1: \"a\", 2: \"b\"}\nrd(\"m\", m)\nrd(\"e\", m[1])")
	add("typed-literals", "m = map[float64]int64{1: 1, 2.5: 2}\nrd(\"m\", m)")
	add("typed-literals", "a = []map[string]int64{{\"a\": 1}, {\"b\": 2}}\nrd(\"a\", a)")
	add("typed-literals", "a = []map[string]string{{\"a\": \"x\"}, {\"b\": \"y\"}}\nrd(\"a\", a)")
	// make(type): one name, different types
	add("make-type", "make(type T, [1])\nrd(\"v\", make(T))\nrd(\"w\", make([]T, 1))")
	add("make-type", "make(type T, {\"a\": 1})\nrd(\"v\", make(T))\nrd(\"w\", make([]T, 1))")
	add("make-type", "make(type T, []int64{1})\nrd(\"v\", make(T))\nrd(\"w\", len(make([]T, 3)))")
	add("make-type", "make(type T, make(struct{A int64}))\nv = make(T)\nv.A = 4\nrd(\"v\", v)")
	add("make-type", "make(type T, make(struct{A string}))\nv = make(T)\nv.A = \"s\"\nrd(\"v\", v)")
	add("make-type", "make(type T, 1)\nmake(type U, \"s\")\nrd(\"v\", [make(T), make(U)])")
	add("make-type", "make(type U, 1)\nmake(type T, \"s\")\nrd(\"v\", [make(T), make(U)])")
	// struct types: same field names, different types and orders
	for _, fields := range []string{"A int64", "A string", "A int64, B string", "A string, B int64", "B string, A int64", "A []int64", "A float64, B bool, C string", "A interface, B map[string]int64"} {
		add("struct-types", fmt.Sprintf("s = make(struct{%s})\nrd(\"zero\", s)\nrd(\"A\", s.A)", fields))
	}
	add("struct-types", "s = make(struct{A int64, B string})\ns.A = 3\ns.B = \"x\"\nrd(\"s\", s)")
	add("struct-types", "s = make(struct{A string, B int64})\ns.A = \"y\"\ns.B = 4\nrd(\"s\", s)")

	// modules: one name, different contents
	add("modules", "module M { x = 1\n func get() { return x } }\nrd(\"g\", M.get())\nrd(\"x\", M.x)\nrd(\"y\", M.y ?? \"undef\")")
	add("modules", "module M { x = \"s\"\n y = 2\n func get() { return [x, y] } }\nrd(\"g\", M.get())\nrd(\"y\", M.y)")
	add("modules", "module M { func get(a, b) { return a + b } }\nrd(\"g\", M.get(1, 2))\nrd(\"x\", M.x ?? \"undef\")")
	add("modules", "module M { module N { z = 3 } }\nrd(\"z\", M.N.z)\nrd(\"x\", M.x ?? \"undef\")\nrd(\"get\", M.get ?? \"undef\")")
	add("modules", "module M { make(type T, \"s\") }\nrd(\"t\", make(M.T))\nrd(\"x\", M.x ?? \"undef\")")
	add("modules", "module M { make(type T, 1) }\nrd(\"t\", make(M.T))")
	add("modules", "module M { x = 1 }\nN = M\nN.x = 2\nrd(\"x\", [M.x, N.x])")
	add("modules", "module N { x = 5 }\nM = N\nM.x = 6\nrd(\"x\", [M.x, N.x])")
	add("modules", "x = 9\nmodule M { func get() { return x } }\nrd(\"g\", M.get())\nrd(\"M.x\", M.x)")

	// imports: different packages, orders and binding names
	add("imports", "a = import(\"strings\")\nb = import(\"strconv\")\nrd(\"r\", [a.ToUpper(\"x\"), b.Itoa(3)])\nrd(\"no\", a.Itoa ?? \"undef\")")
	add("imports", "b = import(\"strconv\")\na = import(\"strings\")\nrd(\"r\", [a.ToUpper(\"x\"), b.Itoa(3)])\nrd(\"no\", b.ToUpper ?? \"undef\")")
	add("imports", "a = import(\"strconv\")\nrd(\"no\", a.ToUpper ?? \"undef\")\nrd(\"i\", a.Itoa(5))")
	add("imports", "a = import(\"strings\")\nrd(\"no\", a.Itoa ?? \"undef\")\nrd(\"r\", a.Repeat(\"ab\", 2))")
	add("imports", "a = import(\"bytes\")\nrd(\"r\", a.Repeat ?? \"undef\")\nrd(\"no\", a.Itoa ?? \"undef\")")
	add("imports", "m = import(\"math\")\nrd(\"r\", [m.Abs(-2.5), m.Floor(2.5)])\ns = import(\"sort\")\nrd(\"sq\", m.Sqrt(4))\nrd(\"no\", m.Slice ?? \"undef\")")
	add("imports", "s = import(\"sort\")\nm = import(\"math\")\nrd(\"r\", m.Max(1, 2))\nrd(\"no\", s.Max ?? \"undef\")")
	add("imports", "a = import(\"strings\")\na.ToLower = a.ToUpper\na.Title = 5\nrd(\"r\", [a.ToLower(\"Ab\"), a.Title])")
	add("imports", "rd(\"r\", [import(\"strings\").ToLower(\"Ab\"), import(\"strings\").Title(\"ab\")])")
	add("imports", "r = import(\"regexp\")\nrd(\"m\", r.MustCompile(\"a+\").FindString(\"baab\"))\nrd(\"no\", r.ToLower ?? \"undef\")")
	add("imports", "rd(\"none\", import(\"no/such/package\") ?? \"not found\")\na = import(\"strings\")\nrd(\"r\", a.TrimSpace(\" x \"))")

	// host calls and conversions with different argument shapes
	add("host-calls", "rd(\"r\", [hs(\"a\", 1), hvs(\"s\"), hvs(\"s\", 1, 2), hv(1), hv(1, 2, 3)])")
	add("host-calls", "l = [1, 2]\nrd(\"r\", [hvs(\"s\", l...), hv(l...), h2(1, \"a\"), h3(1.5, nil, [1])])")
	add("host-calls", "rd(\"r\", [toString(1), toString(1.5), toInt(\"12\"), toFloat(3), toBool(1)])")
	add("host-calls", "rd(\"r\", [toString(\"s\"), toInt(2.5), toFloat(\"1.5\"), toBool(\"true\")])")
	add("host-calls", "rd(\"r\", [toIntSlice([1, 2]), toStringSlice([\"a\"]), toFloatSlice([1.5]), toBoolSlice([true])])")
	add("host-calls", "rd(\"r\", hs(1, \"a\") ?? \"refused\")\nrd(\"k\", [kindOf(1), kindOf(\"s\"), typeOf([1]), typeOf({})])")

	// struct (slice, map, chan, pointer) type expressions over a type name the script binds itself:
	// one spelling of the type expression, different types behind the name
	for _, src := range c14ScriptTypePrograms() {
		add("struct-env-types", src)
	}
	// script functions that end with an error, and deep (legal) recursions: what a recursion
	// yields must not depend on how many calls ended with an error earlier in the process
	for _, src := range c14ErrorExitPrograms {
		add("call-depth", src)
	}
	for _, depth := range []int{4000, 9000} {
		for _, src := range c14DeepRecursion(depth) {
			add("call-depth", src)
		}
	}
	for _, src := range c14ErrorThenDeepPrograms {
		add("call-depth", src)
	}

	// round 5 (c14_r5.go): types declared in nested scopes / resolved from nested scopes
	c14R5HistGroups(add)

	// everything aimed at per-node data and the shared literals
	for _, f := range c14Features {
		add("misc", f)
	}

	by := map[string][]int{}
	for i, p := range pool {
		by[p.group] = append(by[p.group], i)
	}
	return pool, by
}

var c14HistGroupNames = func() []string {
	var names []string
	for g := range c14HistByGroup {
		names = append(names, g)
	}
	sortStrings(names)
	return names
}()

// ---------------------------------------------------------------------------
// solo reference: a fresh child process per program

type c14ObsJSON struct {
	Trace, GTrace, Value, Err string
	Timeout                   bool
}

// c14SoloChild is `vworker -child c14solo`: reads a JSON list of sources from
// stdin, runs them in that order, each freshly parsed on a fresh environment,
// and prints their observations. A solo reference is a list of one.
func c14SoloChild(args []string) {
	var srcs []string
	if err := json.NewDecoder(os.Stdin).Decode(&srcs); err != nil {
		fmt.Fprintln(os.Stderr, "c14solo:", err)
		os.Exit(3)
	}
	var out []c14ObsJSON
	for _, src := range srcs {
		o, ok := c14RunFresh(src, 4*time.Second)
		if !ok {
			o.timeout = true
		}
		out = append(out, c14ObsJSON{o.trace, o.gtrace, o.value, o.err, o.timeout})
	}
	json.NewEncoder(os.Stdout).Encode(out)
}

// c14RunFresh parses src and runs the tree once in a fresh environment.
func c14RunFresh(src string, wd time.Duration) (c14Obs, bool) {
	tree, perr, po := ank.Parse(src)
	if po.Panicked || perr != nil || tree == nil {
		return c14Obs{}, false
	}
	return c14Observe(c14RunTree(tree, c14SpecOf(src), wd, true, nil)), true
}

var c14SoloCache = map[string]*c14Obs{}

// c14SoloSpawn runs src alone in a fresh child process (nil if the child could
// not deliver an observation).
func c14SoloSpawn(src string) *c14Obs {
	bin := os.Getenv("VERIF_WORKER_BIN")
	if bin == "" {
		bin, _ = os.Executable()
	}
	in, _ := json.Marshal([]string{src})
	cmd := exec.Command(bin, "-child", "c14solo")
	cmd.Stdin = bytes.NewReader(in)
	var stdout, stderr bytes.Buffer
	cmd.Stdout, cmd.Stderr = &stdout, &stderr
	if err := cmd.Start(); err != nil {
		return nil
	}
	done := make(chan error, 1)
	go func() { done <- cmd.Wait() }()
	select {
	case err := <-done:
		var out []c14ObsJSON
		if err == nil && json.Unmarshal(stdout.Bytes(), &out) == nil && len(out) == 1 {
			return &c14Obs{trace: out[0].Trace, gtrace: out[0].GTrace, value: out[0].Value, err: out[0].Err, timeout: out[0].Timeout}
		}
	case <-time.After(60 * time.Second):
		// a stuck child is inconclusive, never a verdict
		cmd.Process.Kill()
		<-done
	}
	return nil
}

// c14SoloAll makes sure the solo observation of every source is in the cache;
// the children of one case run side by side.
func c14SoloAll(c *wk.Case, srcs []string) {
	var need []string
	seen := map[string]bool{}
	for _, s := range srcs {
		if _, ok := c14SoloCache[s]; !ok && !seen[s] {
			seen[s] = true
			need = append(need, s)
		}
	}
	if len(need) == 0 {
		return
	}
	c.Count("solo-child-processes", len(need))
	res := make([]*c14Obs, len(need))
	var wg sync.WaitGroup
	for i := range need {
		wg.Add(1)
		go func(i int) { defer wg.Done(); res[i] = c14SoloSpawn(need[i]) }(i)
	}
	wg.Wait()
	for i, s := range need {
		c14SoloCache[s] = res[i]
	}
}

func c14GenProgram(c *wk.Case) string {
	for try := 0; try < 8; try++ {
		if c.Rng.Intn(2) == 0 {
			g := gen.New(c.Rng, gen.Profile(c.Rng.Intn(3)))
			return gen.Source(g.Program(20 + c.Rng.Intn(40)))
		}
		g := gen.New(c.Rng, gen.ProfControl)
		prog := g.OrderProgram()
		if g.Feat["stmt-go"] == 0 && g.Feat["stmt-go-panicking-host"] == 0 {
			return gen.Source(prog)
		}
	}
	return "rd(\"x\", 1)"
}

func c14RunHist(c *wk.Case) {
	// the members of this case
	var members []c14HistProg
	pick := func(idx []int, k int) {
		perm := c.Rng.Perm(len(idx))
		for i := 0; i < k && i < len(perm); i++ {
			members = append(members, c14HistPool[idx[perm[i]]])
		}
	}
	k := 2 + c.Rng.Intn(5)
	mode := "one-group"
	switch r := c.Rng.Intn(20); {
	case c.Index%10 == 3:
		// one text, environments whose host binds the type names differently (c14_env.go);
		// the solo child prepares its environment after the same first line
		mode = "same-text-other-type-bindings"
		text := c14TypeTexts[c.Rng.Intn(len(c14TypeTexts))]
		for _, spec := range c14DistinctTypeSpecs(c, 2+c.Rng.Intn(3)) {
			members = append(members, c14HistProg{"type-envs", c14SpecPrefix + spec + "\n" + text})
		}
		if c.Rng.Intn(2) == 0 {
			// and a script that binds the names itself
			idx := c14HistByGroup["struct-env-types"]
			members = append(members, c14HistPool[idx[c.Rng.Intn(len(idx))]])
			c.Rng.Shuffle(len(members), func(i, j int) { members[i], members[j] = members[j], members[i] })
		}
	case c.Index%10 == 6:
		mode = "call-depth"
		pick(c14HistByGroup["call-depth"], k)
	case c.Index%10 == 8:
		// programs that declare the types ST, SU in nested scopes and programs that
		// resolve these names from nested scopes (c14_r5.go), in one process
		mode = "nested-scope-types"
		pick(c14HistByGroup["nested-scope-types"], k)
	case r < 12:
		g := c14HistGroupNames[c.Rng.Intn(len(c14HistGroupNames))]
		pick(c14HistByGroup[g], k)
	case r < 17:
		mode = "mixed"
		all := make([]int, len(c14HistPool))
		for i := range all {
			all[i] = i
		}
		pick(all, k)
	default:
		mode = "with-generated"
		all := make([]int, len(c14HistPool))
		for i := range all {
			all[i] = i
		}
		pick(all, k-1)
		members = append(members, c14HistProg{"generated", c14GenProgram(c)})
		c.Rng.Shuffle(len(members), func(i, j int) { members[i], members[j] = members[j], members[i] })
	}
	seq := append([]c14HistProg(nil), members...)
	if c.Rng.Intn(3) == 0 {
		// A, B, .., A: the first member once more after the others
		seq = append(seq, members[0])
	}
	var order []string
	for _, m := range seq {
		order = append(order, m.src)
	}
	c14SoloAll(c, order)
	nontrivial := false
	for pos, m := range seq {
		input := map[string]interface{}{"source": m.src, "group": m.group, "position": pos, "ran-before-in-this-case": order[:pos], "mode": mode}
		solo := c14SoloCache[m.src]
		if solo == nil {
			c.Inconclusive("solo-child-failed", "", input)
			continue
		}
		c.Begin(input)
		o, ok := c14RunFresh(m.src, 4*time.Second)
		if !ok {
			c.Excluded("does-not-parse")
			continue
		}
		if o.timeout || solo.timeout {
			c.Excluded("watchdog")
			continue
		}
		if d := solo.diff(o); d != "" {
			c.Violation("history-dependent:"+m.group, fmt.Sprintf("run alone as the first program of a fresh process vs run in a process that executed other programs before (position %d of this case, after the earlier cases of the chunk): %s", pos, d), input)
			continue
		}
		if o.trace != "" || (o.value != "nil" && o.value != "") {
			nontrivial = true
		}
	}
	c14Canary(c, "hist set")
	c.Eval(strings.Join(order, "\n---\n"), nontrivial)
	c.Events(len(seq))
	c.Tag("phase:hist", "hist:"+mode)
	if c.WantSample() {
		c.Sample(map[string]interface{}{"phase": "hist", "mode": mode, "order": order})
	}
}

func init() { wk.RegisterChild("c14solo", c14SoloChild) }
